(** DD/TddPacked.v — the bit-packed [choices] vector of [eval_edge]
    (part of the proofs about the model DD/Tdd.v, property C11; re-exported by DD/TddProofs.v). *)
From Coq Require Import Bool Arith List Lia NArith ZArith.
From OxiVerif Require Import DD.Tdd DD.TddBasic.
Import ListNotations.

(* ------------------------------------------------------------------------ *)
(** * 9. The bit-packed [choices] vector of [eval_edge] *)

Section Packed.
Local Open Scope N_scope.
Arguments N.add : simpl never. Arguments N.sub : simpl never. Arguments N.mul : simpl never.
Arguments N.div : simpl never. Arguments N.modulo : simpl never. Arguments N.pow : simpl never.
Arguments N.shiftl : simpl never. Arguments N.shiftr : simpl never. Arguments N.ones : simpl never.

Lemma testbit_small : forall v i, v < 4 -> 2 <= i -> N.testbit v i = false.
Proof.
  intros v i Hv Hi. destruct (N.eq_dec v 0) as [->|Hn]; [apply N.bits_0|].
  apply N.bits_above_log2. apply N.lt_le_trans with 2; [|assumption].
  apply N.log2_lt_pow2; [lia|]. exact Hv.
Qed.

Lemma testbit_3 : forall i, N.testbit 3 i = (i <? 2).
Proof.
  intros i. change 3 with (N.ones 2). destruct (N.ltb_spec i 2).
  - apply N.ones_spec_low. assumption.
  - apply N.ones_spec_high. assumption.
Qed.

Lemma block_get_set_aux : forall b m m' v, m < 16 -> m' < 16 -> v < 4 ->
  N.land (N.shiftr (N.lor (N.shiftl v (2 * m))
                      (N.land b (N.ldiff (N.ones 32) (N.shiftl 3 (2 * m))))) (2 * m')) 3 =
  if m =? m' then v else N.land (N.shiftr b (2 * m')) 3.
Proof.
  intros b m m' v Hm Hm' Hv. apply N.bits_inj. intros i.
  rewrite N.land_spec, N.shiftr_spec', N.lor_spec, N.land_spec, N.ldiff_spec, testbit_3.
  destruct (N.ltb_spec i 2) as [Hi|Hi].
  - rewrite andb_true_r. rewrite (N.ones_spec_low 32 (i + 2 * m')) by lia. rewrite andb_true_l.
    destruct (N.eqb_spec m m') as [<-|Hne].
    + rewrite N.shiftl_spec_high' by lia. rewrite N.shiftl_spec_high' by lia.
      replace (i + 2 * m - 2 * m) with i by lia. rewrite testbit_3.
      destruct (N.ltb_spec i 2); [|lia]. simpl. rewrite andb_false_r, orb_false_r. reflexivity.
    + rewrite N.land_spec, N.shiftr_spec', testbit_3. destruct (N.ltb_spec i 2); [|lia]. rewrite andb_true_r.
      destruct (N.lt_ge_cases (i + 2 * m') (2 * m)) as [Hlt|Hge].
      * rewrite !N.shiftl_spec_low by assumption. simpl. rewrite andb_true_r. reflexivity.
      * rewrite !N.shiftl_spec_high' by assumption.
        rewrite (testbit_small v) by lia. rewrite testbit_3.
        destruct (N.ltb_spec (i + 2 * m' - 2 * m) 2); [lia|]. simpl. rewrite andb_true_r. reflexivity.
  - rewrite andb_false_r. destruct (m =? m').
    + symmetry. apply testbit_small; assumption.
    + rewrite N.land_spec, testbit_3. destruct (N.ltb_spec i 2); [lia|]. rewrite andb_false_r. reflexivity.
Qed.

Lemma block_get_set : forall b l l' v, v < 4 ->
  block_get (block_set b l v) l' =
  if (l mod elements_per_block =? l' mod elements_per_block) then v else block_get b l'.
Proof.
  intros. unfold block_get, block_set, elements_per_block.
  apply block_get_set_aux; try assumption; apply N.mod_upper_bound; discriminate.
Qed.

Lemma block_get_0 : forall l, block_get 0 l = 0.
Proof. intros. unfold block_get. rewrite N.shiftr_0_l. reflexivity. Qed.
End Packed.

Definition blk (l : nat) : nat := N.to_nat (N.of_nat l / elements_per_block).

Lemma blk_split : forall l l', blk l = blk l' ->
  (N.of_nat l mod elements_per_block = N.of_nat l' mod elements_per_block)%N -> l = l'.
Proof.
  unfold blk, elements_per_block. intros l l' H1 H2.
  pose proof (N.div_mod (N.of_nat l) 16 ltac:(discriminate)).
  pose proof (N.div_mod (N.of_nat l') 16 ltac:(discriminate)).
  assert (N.of_nat l / 16 = N.of_nat l' / 16)%N by lia. lia.
Qed.

Lemma blk_lt : forall l k, l < 16 * k -> blk l < k.
Proof.
  unfold blk, elements_per_block. intros l k H.
  assert (N.of_nat l / 16 < N.of_nat k)%N; [|lia].
  apply N.div_lt_upper_bound; [discriminate|lia].
Qed.

Lemma list_upd_length : forall A (l : list A) i x, length (list_upd l i x) = length l.
Proof. induction l as [|y r IH]; intros [|i] x; simpl; auto. Qed.

Lemma nth_list_upd : forall A (l : list A) i j x d, i < length l ->
  nth j (list_upd l i x) d = if Nat.eqb j i then x else nth j l d.
Proof.
  induction l as [|y r IH]; intros i j x d Hi; simpl in Hi; [lia|].
  destruct i as [|i], j as [|j]; simpl; auto. apply IH. lia.
Qed.

Definition repr (blocks : list N) (ch : nat -> nat) : Prop :=
  forall l, l < 16 * length blocks -> block_get (nth (blk l) blocks 0%N) (N.of_nat l) = N.of_nat (ch l).

Lemma choice_n_of : forall v, choice_n v = N.of_nat (choice_of v).
Proof. intros []; reflexivity. Qed.

Lemma pack_choices_repr : forall args blocks ch,
  repr blocks ch -> (forall l v, In (l, v) args -> l < 16 * length blocks) ->
  repr (pack_choices args blocks) (set_choices args ch) /\
  length (pack_choices args blocks) = length blocks.
Proof.
  induction args as [|[l0 v0] r IH]; intros blocks ch Hr Hb; simpl; [auto|].
  fold (blk l0).
  assert (Hl0 : l0 < 16 * length blocks) by (apply (Hb l0 v0); simpl; auto).
  pose proof (blk_lt _ _ Hl0) as Hk.
  set (blocks' := list_upd blocks (blk l0) _).
  assert (Hlen : length blocks' = length blocks) by apply list_upd_length.
  destruct (IH blocks' (fun x => if Nat.eqb x l0 then choice_of v0 else ch x)) as [H1 H2].
  - intros l Hl. rewrite Hlen in Hl. unfold blocks'. rewrite nth_list_upd by assumption.
    destruct (Nat.eqb_spec (blk l) (blk l0)) as [Hb1|Hb1].
    + rewrite block_get_set by (destruct v0; reflexivity).
      destruct (N.eqb_spec (N.of_nat l0 mod elements_per_block) (N.of_nat l mod elements_per_block)) as [Hm|Hm].
      * rewrite (blk_split l l0) by auto. rewrite Nat.eqb_refl. apply choice_n_of.
      * destruct (Nat.eqb_spec l l0) as [->|Hne]; [congruence|]. rewrite <- Hb1. apply Hr. assumption.
    + destruct (Nat.eqb_spec l l0) as [->|Hne]; [congruence|]. apply Hr. assumption.
  - intros l v Hin. rewrite Hlen. apply (Hb l v). simpl. auto.
  - split; [exact H1|]. rewrite H2. exact Hlen.
Qed.

Lemma eval_inner_packed_eq : forall f blocks ch n,
  repr blocks ch -> n <= 16 * length blocks -> below n f ->
  eval_inner_packed f blocks = eval_inner f ch.
Proof.
  induction f as [v|l t IHt u IHu e IHe]; intros blocks ch n Hr Hn Hb; [reflexivity|].
  simpl in Hb. destruct Hb as (Hl & Bt & Bu & Be). simpl. fold (blk l).
  rewrite Hr by lia.
  rewrite (IHt blocks ch n), (IHu blocks ch n), (IHe blocks ch n) by assumption.
  destruct (ch l) as [|[|k]]; try reflexivity.
  destruct (N.of_nat (S (S k))) as [|[p|p|]] eqn:E; try reflexivity; lia.
Qed.

(** The packed vector computes the same as the abstract one whenever every
    mentioned level exists (otherwise the code panics on the index). *)
Theorem eval_packed_eq : forall n f args,
  below n f -> (forall l v, In (l, v) args -> l < n) -> eval_packed n f args = eval f args.
Proof.
  intros n f args Hb Ha. unfold eval_packed, eval.
  set (k := N.to_nat ((N.of_nat n + 15) / elements_per_block)).
  assert (Hk : n <= 16 * k).
  { unfold k, elements_per_block.
    pose proof (N.div_mod (N.of_nat n + 15) 16 ltac:(discriminate)).
    pose proof (N.mod_upper_bound (N.of_nat n + 15) 16 ltac:(discriminate)). lia. }
  destruct (pack_choices_repr args (repeat 0%N k) (fun _ => 0)) as [H1 H2].
  - intros l Hl. rewrite nth_repeat. apply block_get_0.
  - intros l v Hin. rewrite repeat_length. specialize (Ha l v Hin). lia.
  - apply eval_inner_packed_eq with n; auto. rewrite H2, repeat_length. exact Hk.
Qed.
