(** DD/TddProofs.v — proofs about the model DD/Tdd.v (property C11).

    The development is split into files that compile independently (and in
    parallel); this file only re-exports them, so that [Require Import
    DD.TddProofs] gives the same names as before:
      DD/TddTables.v    1. the fixed tables
      DD/TddBasic.v     2. basic facts about diagrams, 3. constants, variables, negation
      DD/TddCanon.v     2. canonicity
      DD/TddApplyBin.v  4. [terminal_bin] against the tables, 5. [apply_bin]
      DD/TddApplyIte.v  6. [apply_ite_rec]
      DD/TddEval.v      7. [eval] and [cofactors], 8. representability ([tdd_of_fun])
      DD/TddPacked.v    9. the bit-packed [choices] vector of [eval_edge] *)
From OxiVerif Require Export DD.TddTables DD.TddBasic DD.TddCanon DD.TddApplyBin DD.TddApplyIte
  DD.TddEval DD.TddPacked.
