(** DD/TddProofs.v — proofs about the model DD/Tdd.v (property C11). *)
From Coq Require Import Bool Arith List Lia NArith ZArith.
From OxiVerif Require Import DD.Tdd.
Import ListNotations.

(* ------------------------------------------------------------------------ *)
(** * 1. The fixed tables *)

Lemma tri_eqb_eq : forall a b, tri_eqb a b = true <-> a = b.
Proof. intros [] []; simpl; split; congruence. Qed.

Lemma tri_eqb_refl : forall a, tri_eqb a a = true.
Proof. intros []; reflexivity. Qed.

Lemma ite3_is_text : forall a b c, ite3 a b c = ite3_text a b c.
Proof. intros [] [] []; reflexivity. Qed.

(** Kleene's strong tables as min / max / 1-x over F < U < T. *)
Definition rank (a : tri) : nat := match a with TF => 0 | TU => 1 | TT => 2 end.

Lemma k_not_rank : forall a, rank (k_not a) = 2 - rank a.
Proof. intros []; reflexivity. Qed.
Lemma k_and_rank : forall a b, rank (k_and a b) = Nat.min (rank a) (rank b).
Proof. intros [] []; reflexivity. Qed.
Lemma k_or_rank : forall a b, rank (k_or a b) = Nat.max (rank a) (rank b).
Proof. intros [] []; reflexivity. Qed.
(** Lukasiewicz: a -> b = min(1, 1 - a + b), a <-> b = 1 - |a - b| (scaled by 2). *)
Lemma l_imp_rank : forall a b, rank (l_imp a b) = Nat.min 2 (2 - rank a + rank b).
Proof. intros [] []; reflexivity. Qed.
Lemma l_equiv_rank : forall a b,
  rank (l_equiv a b) = 2 - (Nat.max (rank a) (rank b) - Nat.min (rank a) (rank b)).
Proof. intros [] []; reflexivity. Qed.

Lemma table_idem_cases : forall op x,
  table op x x =
  match op with
  | And | Or => x
  | Nand | Nor => k_not x
  | Xor | ImpStrict => TF
  | Equiv | Imp => TT
  end.
Proof. intros [] []; reflexivity. Qed.

Definition commutative (op : binop) : bool :=
  match op with Imp | ImpStrict => false | _ => true end.

Lemma table_comm : forall op x y, commutative op = true -> table op x y = table op y x.
Proof. intros [] [] []; simpl; intros; try reflexivity; discriminate. Qed.

(** The default [ite_edge] of oxidd-core is a different function: it is not
    what the property calls ite (it is unreachable through TDD handles). *)
Lemma ite_default3_refuted : exists a b c, ite_default3 a b c <> ite3 a b c.
Proof. exists TU, TT, TT. discriminate. Qed.

(* ------------------------------------------------------------------------ *)
(** * 2. Basic facts about diagrams *)

Lemma tdd_eqb_eq : forall f g, tdd_eqb f g = true <-> f = g.
Proof.
  induction f as [v|l t IHt u IHu e IHe]; intros [w|l' t' u' e']; simpl;
    try (split; [discriminate|congruence]).
  - rewrite tri_eqb_eq. split; congruence.
  - rewrite !andb_true_iff, Nat.eqb_eq, IHt, IHu, IHe.
    split; [intros [[[-> ->] ->] ->]; reflexivity|intros H; inversion H; auto].
Qed.

Lemma tdd_eqb_refl : forall f, tdd_eqb f f = true.
Proof. intros f. apply tdd_eqb_eq. reflexivity. Qed.

Lemma tdd_eqb_neq : forall f g, tdd_eqb f g = false <-> f <> g.
Proof.
  intros f g. destruct (tdd_eqb f g) eqn:E.
  - apply tdd_eqb_eq in E. split; [discriminate|congruence].
  - split; [|reflexivity]. intros _ H. apply tdd_eqb_eq in H. congruence.
Qed.

Lemma is_leaf_true : forall v f, is_leaf v f = true <-> f = Leaf v.
Proof.
  intros v [w|l t u e]; simpl.
  - rewrite tri_eqb_eq. split; congruence.
  - split; discriminate.
Qed.

Lemma sem_node : forall l t u e a,
  sem (Node l t u e) a = match a l with TT => sem t a | TU => sem u a | TF => sem e a end.
Proof. reflexivity. Qed.

(** The reduction rule does not change the denoted function. *)
Lemma mk_sem : forall l t u e a, sem (mk l t u e) a = sem (Node l t u e) a.
Proof.
  intros. unfold mk. destruct (tdd_eqb t u && tdd_eqb u e) eqn:E; [|reflexivity].
  apply andb_true_iff in E. destruct E as [E1 E2].
  apply tdd_eqb_eq in E1. apply tdd_eqb_eq in E2. subst. simpl. destruct (a l); reflexivity.
Qed.

(** Ternary Shannon expansion w.r.t. an arbitrary level [lv]. *)
Lemma sem_cof : forall lv f a, sem f a = sem (cof lv (a lv) f) a.
Proof.
  intros lv [v|l t u e] a; simpl; [reflexivity|].
  destruct (Nat.eqb_spec l lv) as [->|]; [|reflexivity].
  destruct (a lv); reflexivity.
Qed.

(** ** Orderedness and reducedness *)

(** Levels strictly increase along every path and are all [>= n]. *)
Fixpoint ordered_from (n : nat) (f : tdd) : Prop :=
  match f with
  | Leaf _ => True
  | Node l t u e => n <= l /\ ordered_from (S l) t /\ ordered_from (S l) u /\ ordered_from (S l) e
  end.

Definition ordered (f : tdd) : Prop := ordered_from 0 f.

(** No node with three equal children. *)
Fixpoint reduced (f : tdd) : Prop :=
  match f with
  | Leaf _ => True
  | Node _ t u e => ~ (t = u /\ u = e) /\ reduced t /\ reduced u /\ reduced e
  end.

(** All levels are below [n] (the diagram lives in a manager with [n] levels). *)
Fixpoint below (n : nat) (f : tdd) : Prop :=
  match f with
  | Leaf _ => True
  | Node l t u e => l < n /\ below n t /\ below n u /\ below n e
  end.

Lemma ordered_from_mono : forall f n m, m <= n -> ordered_from n f -> ordered_from m f.
Proof. intros [v|l t u e] n m Hle; simpl; [auto|]. intros (H1 & H2). split; [lia|exact H2]. Qed.

Lemma ordered_from_level : forall f n k,
  ordered_from n f -> (forall l, level f = Some l -> k <= l) -> ordered_from k f.
Proof.
  intros [v|l t u e] n k; simpl; [auto|]. intros (H1 & H2) Hk. split; [|exact H2].
  apply Hk. reflexivity.
Qed.

Lemma mk_ordered : forall n l t u e, n <= l ->
  ordered_from (S l) t -> ordered_from (S l) u -> ordered_from (S l) e ->
  ordered_from n (mk l t u e).
Proof.
  intros. unfold mk. destruct (tdd_eqb t u && tdd_eqb u e).
  - apply ordered_from_mono with (S l); [lia|assumption].
  - simpl. auto.
Qed.

Lemma mk_reduced : forall l t u e, reduced t -> reduced u -> reduced e -> reduced (mk l t u e).
Proof.
  intros. unfold mk. destruct (tdd_eqb t u && tdd_eqb u e) eqn:E; [assumption|].
  simpl. repeat split; try assumption. intros [E1 E2].
  apply tdd_eqb_eq in E1. apply tdd_eqb_eq in E2. rewrite E1, E2 in E. discriminate.
Qed.

Lemma mk_below : forall n l t u e, l < n -> below n t -> below n u -> below n e -> below n (mk l t u e).
Proof.
  intros. unfold mk. destruct (tdd_eqb t u && tdd_eqb u e); [assumption|]. simpl. auto.
Qed.

Lemma cof_ordered : forall lv k f n,
  ordered_from n f -> (forall l, level f = Some l -> lv <= l) -> ordered_from (S lv) (cof lv k f).
Proof.
  intros lv k [v|l t u e] n; simpl; [auto|]. intros (H1 & Ht & Hu & He) Hl.
  specialize (Hl l eq_refl).
  destruct (Nat.eqb_spec l lv) as [->|Hne].
  - destruct k; assumption.
  - simpl. split; [lia|auto].
Qed.

Lemma cof_reduced : forall lv k f, reduced f -> reduced (cof lv k f).
Proof.
  intros lv k [v|l t u e]; simpl; [auto|]. intros (H0 & Ht & Hu & He).
  destruct (Nat.eqb l lv); [destruct k; assumption|]. simpl. auto.
Qed.

Lemma cof_below : forall lv k f n, below n f -> below n (cof lv k f).
Proof.
  intros lv k [v|l t u e] n; simpl; [auto|]. intros (H0 & Ht & Hu & He).
  destruct (Nat.eqb l lv); [destruct k; assumption|]. simpl. auto.
Qed.

Lemma cof_height_le : forall lv k f, height (cof lv k f) <= height f.
Proof.
  intros lv k [v|l t u e]; simpl; [lia|].
  destruct (Nat.eqb l lv); [destruct k; lia|simpl; lia].
Qed.

Lemma cof_height_lt : forall lv k f, level f = Some lv -> height (cof lv k f) < height f.
Proof.
  intros lv k [v|l t u e]; simpl; [discriminate|]. intros [= ->].
  rewrite Nat.eqb_refl. destruct k; lia.
Qed.

(** The function of an ordered diagram does not depend on levels above it. *)
Lemma sem_indep : forall f n a l v, ordered_from n f -> l < n -> sem f (upd a l v) = sem f a.
Proof.
  induction f as [w|l0 t IHt u IHu e IHe]; intros n a l v Ho Hl; [reflexivity|].
  simpl in Ho. destruct Ho as (H1 & Ht & Hu & He).
  rewrite !sem_node. unfold upd at 1. destruct (Nat.eqb_spec l0 l); [lia|].
  rewrite (IHt (S l0)), (IHu (S l0)), (IHe (S l0)) by (assumption || lia). reflexivity.
Qed.

Lemma upd_same : forall a l v, upd a l v l = v.
Proof. intros. unfold upd. rewrite Nat.eqb_refl. reflexivity. Qed.

Lemma upd_other : forall a l v x, x <> l -> upd a l v x = a x.
Proof. intros. unfold upd. destruct (Nat.eqb_spec x l); congruence. Qed.

(** ** Canonicity: ordered + reduced diagrams of the same function are equal,
    hence handle equality decides equality of functions. *)
Lemma canon_aux : forall k f g, height f + height g <= k ->
  ordered f -> reduced f -> ordered g -> reduced g ->
  (forall a, sem f a = sem g a) -> f = g.
Proof.
  unfold ordered.
  induction k as [k IH] using lt_wf_ind. intros f g Hk Of Rf Og Rg Heq.
  (* a node whose children all denote the function of [x] (of smaller height) is not reduced *)
  assert (Hred : forall l t u e x, ordered_from 0 (Node l t u e) -> reduced (Node l t u e) ->
             ordered_from 0 x -> reduced x ->
             height (Node l t u e) + height x <= k ->
             (forall a v, sem x (upd a l v) = sem x a) ->
             (forall a, sem (Node l t u e) a = sem x a) -> False).
  { intros l t u e x (_ & Ot & Ou & Oe) (Hne & Rt & Ru & Re) Ox Rx Hh Hind Hs.
    simpl in Hh.
    assert (forall c v, (c = t /\ v = TT) \/ (c = u /\ v = TU) \/ (c = e /\ v = TF) -> c = x) as Hc.
    { intros c v Hcv.
      assert (Oc : ordered_from (S l) c) by (destruct Hcv as [[-> _]|[[-> _]|[-> _]]]; assumption).
      assert (Rc : reduced c) by (destruct Hcv as [[-> _]|[[-> _]|[-> _]]]; assumption).
      assert (Hc : height c <= Nat.max (height t) (Nat.max (height u) (height e)))
        by (destruct Hcv as [[-> _]|[[-> _]|[-> _]]]; lia).
      apply (IH (height c + height x)); try assumption; try lia.
      - apply ordered_from_mono with (S l); [lia|assumption].
      - intros a. rewrite <- (sem_indep c (S l) a l v) by (assumption || lia).
        rewrite <- (Hind a v). rewrite <- Hs. rewrite sem_node, upd_same.
        destruct Hcv as [[-> ->]|[[-> ->]|[-> ->]]]; reflexivity. }
    apply Hne. rewrite (Hc t TT), (Hc u TU), (Hc e TF); auto. }
  destruct f as [v|l t u e], g as [w|l' t' u' e'].
  - specialize (Heq (fun _ => TF)). simpl in Heq. congruence.
  - exfalso. apply (Hred l' t' u' e' (Leaf v)); auto; simpl in *; lia.
  - exfalso. apply (Hred l t u e (Leaf w)); auto.
  - destruct (lt_eq_lt_dec l l') as [[Hlt| ->]|Hgt].
    + exfalso. apply (Hred l t u e (Node l' t' u' e')); auto.
      intros a v. apply sem_indep with l'; [|assumption].
      destruct Og as (_ & Og). simpl. split; [lia|exact Og].
    + destruct Of as (_ & Ot & Ou & Oe). destruct Og as (_ & Ot' & Ou' & Oe').
      destruct Rf as (_ & Rt & Ru & Re). destruct Rg as (_ & Rt' & Ru' & Re').
      simpl in Hk.
      assert (forall c c' v, ordered_from (S l') c -> ordered_from (S l') c' -> reduced c -> reduced c' ->
                height c + height c' < k ->
                (forall a, sem c a = sem (Node l' t u e) (upd a l' v)) ->
                (forall a, sem c' a = sem (Node l' t' u' e') (upd a l' v)) -> c = c') as Hc.
      { intros c c' v Oc Oc' Rc Rc' Hh Hs Hs'.
        apply (IH (height c + height c')); try assumption; try lia.
        - apply ordered_from_mono with (S l'); [lia|assumption].
        - apply ordered_from_mono with (S l'); [lia|assumption].
        - intros a. rewrite Hs, Hs'. apply Heq. }
      f_equal.
      * apply (Hc t t' TT); auto; try lia; intros a; rewrite sem_node, upd_same;
          symmetry; apply sem_indep with (S l'); auto.
      * apply (Hc u u' TU); auto; try lia; intros a; rewrite sem_node, upd_same;
          symmetry; apply sem_indep with (S l'); auto.
      * apply (Hc e e' TF); auto; try lia; intros a; rewrite sem_node, upd_same;
          symmetry; apply sem_indep with (S l'); auto.
    + exfalso. apply (Hred l' t' u' e' (Node l t u e)); auto; try lia.
      intros a v. apply sem_indep with l; [|assumption].
      destruct Of as (_ & Of). simpl. split; [lia|exact Of].
Qed.

Theorem canon : forall f g,
  ordered f -> reduced f -> ordered g -> reduced g ->
  (forall a, sem f a = sem g a) -> f = g.
Proof. intros f g. apply (canon_aux (height f + height g)). lia. Qed.

Corollary tdd_eqb_iff_sem : forall f g,
  ordered f -> reduced f -> ordered g -> reduced g ->
  (tdd_eqb f g = true <-> forall a, sem f a = sem g a).
Proof.
  intros f g Of Rf Og Rg. rewrite tdd_eqb_eq. split; [intros ->; reflexivity|].
  apply canon; assumption.
Qed.

(* ------------------------------------------------------------------------ *)
(** * 3. Constants, variables, negation *)

Lemma const_sem : forall a, sem tdd_f a = TF /\ sem tdd_t a = TT /\ sem tdd_u a = TU.
Proof. intros; repeat split. Qed.

Lemma var_sem : forall l a, sem (tdd_var l) a = a l.
Proof. intros. unfold tdd_var. rewrite sem_node. destruct (a l); reflexivity. Qed.

Lemma const_var_wf :
  (forall v, ordered (Leaf v) /\ reduced (Leaf v)) /\
  (forall l, ordered (tdd_var l) /\ reduced (tdd_var l) /\ below (S l) (tdd_var l)).
Proof.
  split; [intros; split; exact I|]. intros l. unfold ordered, tdd_var. simpl.
  repeat split; try lia. intros [H _]. discriminate.
Qed.

Lemma apply_not_sem : forall f a, sem (apply_not f) a = k_not (sem f a).
Proof.
  induction f as [v|l t IHt u IHu e IHe]; intros a; [reflexivity|].
  simpl apply_not. rewrite mk_sem, !sem_node, IHt, IHu, IHe. destruct (a l); reflexivity.
Qed.

Lemma apply_not_ordered : forall f n, ordered_from n f -> ordered_from n (apply_not f).
Proof.
  induction f as [v|l t IHt u IHu e IHe]; intros n; [auto|].
  simpl. intros (H1 & Ht & Hu & He). apply mk_ordered; auto.
Qed.

Lemma apply_not_reduced : forall f, reduced f -> reduced (apply_not f).
Proof.
  induction f as [v|l t IHt u IHu e IHe]; [auto|].
  simpl. intros (_ & Ht & Hu & He). apply mk_reduced; auto.
Qed.

Lemma apply_not_below : forall f n, below n f -> below n (apply_not f).
Proof.
  induction f as [v|l t IHt u IHu e IHe]; intros n; [auto|].
  simpl. intros (H1 & Ht & Hu & He). apply mk_below; auto.
Qed.

(* ------------------------------------------------------------------------ *)
(** * 4. [terminal_bin] against the fixed tables *)

(** What an [Operation] denotes under assignment [a] (a [Binary] is left to
    the caller: it denotes the table of its operator on its operands). *)
Definition op_denotes (o : operation) (a : assignment) : tri :=
  match o with
  | Done r => sem r a
  | ONot x => k_not (sem x a)
  | Binary o x y => table o (sem x a) (sem y a)
  end.

Section EdgeOrder.
Variable gt : tdd -> tdd -> bool.
Local Arguments sem : simpl never.

(** Every arm of [terminal_bin], for every operator and all operands (diagrams
    of any shape), denotes the operator's fixed table applied pointwise. *)
Theorem terminal_bin_sound : forall op f g a,
  op_denotes (terminal_bin gt op f g) a = table op (sem f a) (sem g a).
Proof.
  intros op f g a. unfold terminal_bin.
  destruct (tdd_eqb f g) eqn:Eq.
  { apply tdd_eqb_eq in Eq. subst g. rewrite table_idem_cases. destruct op; reflexivity. }
  destruct f as [[]|lf tf uf ef], g as [[]|lg tg ug eg]; try (simpl in Eq; discriminate);
  destruct op; unfold norm; try destruct (gt _ _); simpl;
  repeat match goal with |- context [sem (Node ?l ?t ?u ?e) a] => destruct (sem (Node l t u e) a) end;
  reflexivity.
Qed.

(** On terminals [terminal_bin] never asks for an expansion, and its result is
    the table entry (8 operators x 9 operand pairs, by computation). *)
Theorem terminal_bin_leaves : forall op x y,
  match terminal_bin gt op (Leaf x) (Leaf y) with
  | Done r => r = Leaf (table op x y)
  | ONot r => apply_not r = Leaf (table op x y)
  | Binary _ _ _ => False
  end.
Proof. intros [] [] []; reflexivity. Qed.

(** A [Binary] answer keeps the operator, keeps the operands up to a swap that
    only happens for commutative operators (so the pair is a sound cache key),
    and at least one operand is an inner node. *)
Theorem terminal_bin_key_sound : forall op f g o x y,
  terminal_bin gt op f g = Binary o x y ->
  o = op /\
  ((x = f /\ y = g) \/ (x = g /\ y = f /\ commutative op = true)) /\
  (is_terminal f = false \/ is_terminal g = false) /\
  f <> g.
Proof.
  intros op f g o x y. unfold terminal_bin.
  destruct (tdd_eqb f g) eqn:Eq.
  { destruct op; discriminate. }
  apply tdd_eqb_neq in Eq.
  destruct f as [[]|lf tf uf ef], g as [[]|lg tg ug eg]; try congruence;
  destruct op; simpl; unfold norm; try destruct (gt _ _); intros [= <- <- <-];
  repeat split; auto.
Qed.

(* ------------------------------------------------------------------------ *)
(** * 5. [apply_bin]: lifting to all diagrams by induction *)

Theorem apply_bin_sem : forall fuel op f g r,
  apply_bin gt fuel op f g = Some r ->
  forall a, sem r a = table op (sem f a) (sem g a).
Proof.
  induction fuel as [|k IH]; intros op f g r H a; simpl in H;
    pose proof (terminal_bin_sound op f g a) as Ht;
    destruct (terminal_bin gt op f g) as [o x y|x|h] eqn:Et;
    try (injection H as <-; simpl in Ht; rewrite <- Ht; auto using apply_not_sem; fail);
    try discriminate.
  destruct (lmin (level f) (level g)) as [lv|]; [|discriminate].
  destruct (apply_bin gt k op (cof lv TT f) (cof lv TT g)) as [t|] eqn:E1; [|discriminate].
  destruct (apply_bin gt k op (cof lv TU f) (cof lv TU g)) as [u|] eqn:E2; [|discriminate].
  destruct (apply_bin gt k op (cof lv TF f) (cof lv TF g)) as [e|] eqn:E3; [|discriminate].
  injection H as <-. rewrite mk_sem, sem_node.
  rewrite (sem_cof lv f a), (sem_cof lv g a).
  destruct (a lv); [apply (IH _ _ _ _ E3)|apply (IH _ _ _ _ E2)|apply (IH _ _ _ _ E1)].
Qed.

Lemma lmin_some : forall f g,
  (is_terminal f = false \/ is_terminal g = false) ->
  exists lv, lmin (level f) (level g) = Some lv /\
             (level f = Some lv \/ level g = Some lv) /\
             (forall l, level f = Some l -> lv <= l) /\ (forall l, level g = Some l -> lv <= l).
Proof.
  intros [v|l t u e] [w|l' t' u' e'] H; simpl in *.
  - destruct H; discriminate.
  - exists l'. repeat split; auto; intros ? [= <-]; lia.
  - exists l. repeat split; auto; intros ? [= <-]; lia.
  - exists (Nat.min l l'). repeat split; try (intros ? [= <-]; lia).
    destruct (Nat.min_spec l l') as [[_ ->]|[_ ->]]; auto.
Qed.

(** With fuel [height f + height g] the expansion always terminates normally. *)
Theorem apply_bin_total : forall fuel op f g,
  height f + height g <= fuel -> exists r, apply_bin gt fuel op f g = Some r.
Proof.
  induction fuel as [|k IH]; intros op f g Hh; simpl;
    destruct (terminal_bin gt op f g) as [o x y|x|h] eqn:Et; eauto;
    apply terminal_bin_key_sound in Et; destruct Et as (_ & _ & Hn & _);
    destruct (lmin_some f g Hn) as (lv & Elv & Hl & _); try rewrite Elv.
  - exfalso. destruct Hl as [Hl|Hl].
    + destruct f; simpl in *; [discriminate|lia].
    + destruct g; simpl in *; [discriminate|lia].
  - assert (forall c, height (cof lv c f) + height (cof lv c g) <= k) as Hc.
    { intros c. pose proof (cof_height_le lv c f). pose proof (cof_height_le lv c g).
      destruct Hl as [Hl|Hl]; [pose proof (cof_height_lt lv c f Hl)|pose proof (cof_height_lt lv c g Hl)]; lia. }
    destruct (IH op _ _ (Hc TT)) as [t ->]. destruct (IH op _ _ (Hc TU)) as [u ->].
    destruct (IH op _ _ (Hc TF)) as [e ->]. eauto.
Qed.

Lemma terminal_bin_result_wf : forall (P : tdd -> Prop) op f g,
  P f -> P g -> (forall v, P (Leaf v)) -> (forall x, P x -> P (apply_not x)) ->
  match terminal_bin gt op f g with
  | Done r => P r
  | ONot x => P (apply_not x)
  | Binary _ _ _ => True
  end.
Proof.
  intros P op f g Pf Pg Pl Pn. unfold terminal_bin, norm.
  destruct op; repeat match goal with |- context [if ?c then _ else _] => destruct c end; auto.
Qed.

Theorem apply_bin_ordered : forall fuel op f g r n,
  ordered_from n f -> ordered_from n g -> apply_bin gt fuel op f g = Some r -> ordered_from n r.
Proof.
  induction fuel as [|k IH]; intros op f g r n Of Og H; simpl in H;
    pose proof (terminal_bin_result_wf (ordered_from n) op f g Of Og (fun _ => I)
                  (fun x => apply_not_ordered x n)) as Hwf;
    destruct (terminal_bin gt op f g) as [o x y|x|h] eqn:Et;
    try (injection H as <-; exact Hwf); try discriminate.
  apply terminal_bin_key_sound in Et. destruct Et as (_ & _ & Hn & _).
  destruct (lmin_some f g Hn) as (lv & Elv & Hl & Hf & Hg). rewrite Elv in H.
  destruct (apply_bin gt k op (cof lv TT f) (cof lv TT g)) as [t|] eqn:E1; [|discriminate].
  destruct (apply_bin gt k op (cof lv TU f) (cof lv TU g)) as [u|] eqn:E2; [|discriminate].
  destruct (apply_bin gt k op (cof lv TF f) (cof lv TF g)) as [e|] eqn:E3; [|discriminate].
  injection H as <-.
  assert (n <= lv).
  { destruct Hl as [Hl|Hl]; [destruct f|destruct g]; simpl in *; try discriminate;
      injection Hl as ->; lia. }
  apply mk_ordered; auto;
    [apply (IH _ _ _ _ _ (cof_ordered lv TT f n Of Hf) (cof_ordered lv TT g n Og Hg) E1)
    |apply (IH _ _ _ _ _ (cof_ordered lv TU f n Of Hf) (cof_ordered lv TU g n Og Hg) E2)
    |apply (IH _ _ _ _ _ (cof_ordered lv TF f n Of Hf) (cof_ordered lv TF g n Og Hg) E3)].
Qed.

Theorem apply_bin_reduced : forall fuel op f g r,
  reduced f -> reduced g -> apply_bin gt fuel op f g = Some r -> reduced r.
Proof.
  induction fuel as [|k IH]; intros op f g r Rf Rg H; simpl in H;
    pose proof (terminal_bin_result_wf reduced op f g Rf Rg (fun _ => I) apply_not_reduced) as Hwf;
    destruct (terminal_bin gt op f g) as [o x y|x|h] eqn:Et;
    try (injection H as <-; exact Hwf); try discriminate.
  destruct (lmin (level f) (level g)) as [lv|]; [|discriminate].
  destruct (apply_bin gt k op (cof lv TT f) (cof lv TT g)) as [t|] eqn:E1; [|discriminate].
  destruct (apply_bin gt k op (cof lv TU f) (cof lv TU g)) as [u|] eqn:E2; [|discriminate].
  destruct (apply_bin gt k op (cof lv TF f) (cof lv TF g)) as [e|] eqn:E3; [|discriminate].
  injection H as <-.
  apply mk_reduced; eauto using cof_reduced.
Qed.

Lemma lmin_below : forall n f g lv, below n f -> below n g -> lmin (level f) (level g) = Some lv -> lv < n.
Proof.
  intros n [v|l t u e] [w|l' t' u' e'] lv; simpl; try discriminate;
    intros Bf Bg [= <-]; try lia.
Qed.

Theorem apply_bin_below : forall fuel op f g r n,
  below n f -> below n g -> apply_bin gt fuel op f g = Some r -> below n r.
Proof.
  induction fuel as [|k IH]; intros op f g r n Bf Bg H; simpl in H;
    pose proof (terminal_bin_result_wf (below n) op f g Bf Bg (fun _ => I)
                  (fun x => apply_not_below x n)) as Hwf;
    destruct (terminal_bin gt op f g) as [o x y|x|h] eqn:Et;
    try (injection H as <-; exact Hwf); try discriminate.
  destruct (lmin (level f) (level g)) as [lv|] eqn:Elv; [|discriminate].
  destruct (apply_bin gt k op (cof lv TT f) (cof lv TT g)) as [t|] eqn:E1; [|discriminate].
  destruct (apply_bin gt k op (cof lv TU f) (cof lv TU g)) as [u|] eqn:E2; [|discriminate].
  destruct (apply_bin gt k op (cof lv TF f) (cof lv TF g)) as [e|] eqn:E3; [|discriminate].
  injection H as <-.
  apply mk_below; eauto using cof_below, lmin_below.
Qed.

(** Summary for the public entry point ([and_edge] etc. = [apply_bin] from the top). *)
Theorem apply_bin_auto_correct : forall op f g,
  exists r, apply_bin_auto gt op f g = Some r /\
    (forall a, sem r a = table op (sem f a) (sem g a)) /\
    (forall n, ordered_from n f -> ordered_from n g -> ordered_from n r) /\
    (reduced f -> reduced g -> reduced r) /\
    (forall n, below n f -> below n g -> below n r).
Proof.
  intros op f g. destruct (apply_bin_total (height f + height g) op f g (le_n _)) as [r Hr].
  exists r. unfold apply_bin_auto. split; [exact Hr|]. repeat split.
  - eapply apply_bin_sem; eauto.
  - intros n Of Og. exact (apply_bin_ordered _ _ _ _ _ _ Of Og Hr).
  - intros Rf Rg. exact (apply_bin_reduced _ _ _ _ _ Rf Rg Hr).
  - intros n Bf Bg. exact (apply_bin_below _ _ _ _ _ _ Bf Bg Hr).
Qed.

(* ------------------------------------------------------------------------ *)
(** * 6. [apply_ite_rec]: every terminal short-cut against [ite3], then lifting *)

Definition sc_denotes (s : ite_sc) (a : assignment) : option tri :=
  match s with
  | SDone r => Some (sem r a)
  | SBin op x y => Some (table op (sem x a) (sem y a))
  | SNot x => Some (k_not (sem x a))
  | SRec => None
  end.

Lemma ite3_same_branches : forall x y, ite3 x y y = y.
Proof. intros [] []; reflexivity. Qed.
Lemma ite3_cond_then : forall x z, ite3 x x z = k_or x z.
Proof. intros [] []; reflexivity. Qed.
Lemma ite3_cond_else : forall x y, ite3 x y x = k_and x y.
Proof. intros [] []; reflexivity. Qed.

(** Each short-cut of [apply_ite_rec] (g == h, f == g -> or, f == h -> and,
    terminal f, terminal g -> or / imp_strict, terminal h -> imp / and,
    (F,T) -> not, (T,F) -> f, (U, terminal, terminal) -> U), for operands of
    any shape, denotes [ite3] applied pointwise. *)
Theorem ite_shortcut_sound : forall f g h a v,
  sc_denotes (ite_shortcut f g h) a = Some v -> v = ite3 (sem f a) (sem g a) (sem h a).
Proof.
  intros f g h a v. unfold ite_shortcut.
  destruct (tdd_eqb g h) eqn:Egh.
  { apply tdd_eqb_eq in Egh. subst h. simpl. intros [= <-]. rewrite ite3_same_branches. reflexivity. }
  destruct (tdd_eqb f g) eqn:Efg.
  { apply tdd_eqb_eq in Efg. subst g. simpl. intros [= <-]. rewrite ite3_cond_then. reflexivity. }
  destruct (tdd_eqb f h) eqn:Efh.
  { apply tdd_eqb_eq in Efh. subst h. simpl. intros [= <-]. rewrite ite3_cond_else. reflexivity. }
  destruct f as [[]|lf tf uf ef], g as [[]|lg tg ug eg], h as [[]|lh th uh eh];
    try (simpl in Egh; discriminate); try (simpl in Efg; discriminate); try (simpl in Efh; discriminate);
    simpl; try discriminate; intros [= <-];
    repeat match goal with |- context [sem (Node ?l ?t ?u ?e) a] => destruct (sem (Node l t u e) a) end;
    reflexivity.
Qed.

Lemma ite_shortcut_rec_inner : forall f g h,
  ite_shortcut f g h = SRec ->
  is_terminal f = false \/ is_terminal g = false \/ is_terminal h = false.
Proof.
  intros f g h. unfold ite_shortcut.
  destruct (tdd_eqb g h); [discriminate|]. destruct (tdd_eqb f g); [discriminate|].
  destruct (tdd_eqb f h); [discriminate|].
  destruct f as [[]|lf tf uf ef], g as [[]|lg tg ug eg], h as [[]|lh th uh eh]; simpl; auto; discriminate.
Qed.

Lemma ite_shortcut_wf : forall (P : tdd -> Prop) f g h,
  P f -> P g -> P h -> (forall v, P (Leaf v)) ->
  match ite_shortcut f g h with
  | SDone r => P r
  | SBin _ x y => P x /\ P y
  | SNot x => P x
  | SRec => True
  end.
Proof.
  intros P f g h Pf Pg Ph Pl. unfold ite_shortcut.
  destruct (tdd_eqb g h); [assumption|]. destruct (tdd_eqb f g); [auto|].
  destruct (tdd_eqb f h); [auto|].
  destruct f as [[]|lf tf uf ef], g as [[]|lg tg ug eg], h as [[]|lh th uh eh]; simpl; auto.
Qed.

Theorem apply_ite_sem : forall fuel f g h r,
  apply_ite gt fuel f g h = Some r ->
  forall a, sem r a = ite3 (sem f a) (sem g a) (sem h a).
Proof.
  induction fuel as [|k IH]; intros f g h r H a; simpl in H;
    pose proof (ite_shortcut_sound f g h a) as Hs;
    destruct (ite_shortcut f g h) as [r0|op x y|x|] eqn:Es; simpl in Hs;
    try (injection H as <-; rewrite <- (Hs _ eq_refl); auto using apply_not_sem; fail);
    try (rewrite <- (Hs _ eq_refl); eapply apply_bin_sem; exact H);
    try discriminate.
  destruct (lmin (lmin (level f) (level g)) (level h)) as [lv|]; [|discriminate].
  destruct (apply_ite gt k (cof lv TT f) (cof lv TT g) (cof lv TT h)) as [t|] eqn:E1; [|discriminate].
  destruct (apply_ite gt k (cof lv TU f) (cof lv TU g) (cof lv TU h)) as [u|] eqn:E2; [|discriminate].
  destruct (apply_ite gt k (cof lv TF f) (cof lv TF g) (cof lv TF h)) as [e|] eqn:E3; [|discriminate].
  injection H as <-. rewrite mk_sem, sem_node.
  rewrite (sem_cof lv f a), (sem_cof lv g a), (sem_cof lv h a).
  destruct (a lv); [apply (IH _ _ _ _ E3)|apply (IH _ _ _ _ E2)|apply (IH _ _ _ _ E1)].
Qed.

Lemma lmin3_some : forall f g h,
  (is_terminal f = false \/ is_terminal g = false \/ is_terminal h = false) ->
  exists lv, lmin (lmin (level f) (level g)) (level h) = Some lv /\
             (level f = Some lv \/ level g = Some lv \/ level h = Some lv) /\
             (forall l, level f = Some l -> lv <= l) /\ (forall l, level g = Some l -> lv <= l) /\
             (forall l, level h = Some l -> lv <= l).
Proof.
  intros f g h H.
  assert (Hsel : forall x y, lmin x y = x \/ lmin x y = y).
  { intros [x|] [y|]; simpl; auto. destruct (Nat.min_spec x y) as [[_ ->]|[_ ->]]; auto. }
  assert (Hle : forall x y lv l, lmin x y = Some lv -> (x = Some l \/ y = Some l) -> lv <= l).
  { intros [x|] [y|] lv l; simpl; intros [= <-] [[= <-]|[= <-]]; lia. }
  destruct (lmin (lmin (level f) (level g)) (level h)) as [lv|] eqn:E.
  - exists lv. split; [reflexivity|]. split.
    + destruct (Hsel (lmin (level f) (level g)) (level h)) as [E1|E1]; rewrite E1 in E; auto.
      destruct (Hsel (level f) (level g)) as [E2|E2]; rewrite E2 in E; auto.
    + destruct (lmin (level f) (level g)) as [m|] eqn:E2.
      * assert (lv <= m) by (apply (Hle _ _ _ _ E); auto).
        repeat split; intros l Hl.
        -- assert (m <= l) by (apply (Hle _ _ _ _ E2); auto). lia.
        -- assert (m <= l) by (apply (Hle _ _ _ _ E2); auto). lia.
        -- apply (Hle _ _ _ _ E); auto.
      * destruct (level f) eqn:Ef, (level g) eqn:Eg; simpl in E2; try discriminate.
        repeat split; intros l Hl; try discriminate. apply (Hle _ _ _ _ E); auto.
  - exfalso. destruct f, g, h; simpl in *; try discriminate.
    destruct H as [H|[H|H]]; discriminate.
Qed.

Theorem apply_ite_total : forall fuel f g h,
  height f + height g + height h <= fuel -> exists r, apply_ite gt fuel f g h = Some r.
Proof.
  induction fuel as [|k IH]; intros f g h Hh; simpl;
    destruct (ite_shortcut f g h) as [r0|op x y|x|] eqn:Es; eauto;
    try (apply apply_bin_total; apply le_n);
    apply ite_shortcut_rec_inner in Es;
    destruct (lmin3_some f g h Es) as (lv & Elv & Hl & _); try rewrite Elv.
  - exfalso. destruct Hl as [Hl|[Hl|Hl]];
      [destruct f|destruct g|destruct h]; simpl in *; try discriminate; lia.
  - assert (forall c, height (cof lv c f) + height (cof lv c g) + height (cof lv c h) <= k) as Hc.
    { intros c. pose proof (cof_height_le lv c f). pose proof (cof_height_le lv c g).
      pose proof (cof_height_le lv c h).
      destruct Hl as [Hl|[Hl|Hl]];
        [pose proof (cof_height_lt lv c f Hl)|pose proof (cof_height_lt lv c g Hl)
        |pose proof (cof_height_lt lv c h Hl)]; lia. }
    destruct (IH _ _ _ (Hc TT)) as [t ->]. destruct (IH _ _ _ (Hc TU)) as [u ->].
    destruct (IH _ _ _ (Hc TF)) as [e ->]. eauto.
Qed.

Theorem apply_ite_ordered : forall fuel f g h r n,
  ordered_from n f -> ordered_from n g -> ordered_from n h ->
  apply_ite gt fuel f g h = Some r -> ordered_from n r.
Proof.
  induction fuel as [|k IH]; intros f g h r n Of Og Oh H; simpl in H;
    pose proof (ite_shortcut_wf (ordered_from n) f g h Of Og Oh (fun _ => I)) as Hwf;
    destruct (ite_shortcut f g h) as [r0|op x y|x|] eqn:Es;
    try (injection H as <-; auto using apply_not_ordered; fail);
    try (destruct Hwf as [Hx Hy]; exact (apply_bin_ordered _ _ _ _ _ _ Hx Hy H));
    try discriminate.
  apply ite_shortcut_rec_inner in Es.
  destruct (lmin3_some f g h Es) as (lv & Elv & Hl & Hf & Hg & Hh). rewrite Elv in H.
  destruct (apply_ite gt k (cof lv TT f) (cof lv TT g) (cof lv TT h)) as [t|] eqn:E1; [|discriminate].
  destruct (apply_ite gt k (cof lv TU f) (cof lv TU g) (cof lv TU h)) as [u|] eqn:E2; [|discriminate].
  destruct (apply_ite gt k (cof lv TF f) (cof lv TF g) (cof lv TF h)) as [e|] eqn:E3; [|discriminate].
  injection H as <-.
  assert (n <= lv).
  { destruct Hl as [Hl|[Hl|Hl]]; [destruct f|destruct g|destruct h]; simpl in *; try discriminate;
      injection Hl as ->; lia. }
  apply mk_ordered; auto;
    [apply (IH _ _ _ _ _ (cof_ordered lv TT f n Of Hf) (cof_ordered lv TT g n Og Hg)
              (cof_ordered lv TT h n Oh Hh) E1)
    |apply (IH _ _ _ _ _ (cof_ordered lv TU f n Of Hf) (cof_ordered lv TU g n Og Hg)
              (cof_ordered lv TU h n Oh Hh) E2)
    |apply (IH _ _ _ _ _ (cof_ordered lv TF f n Of Hf) (cof_ordered lv TF g n Og Hg)
              (cof_ordered lv TF h n Oh Hh) E3)].
Qed.

Theorem apply_ite_reduced : forall fuel f g h r,
  reduced f -> reduced g -> reduced h -> apply_ite gt fuel f g h = Some r -> reduced r.
Proof.
  induction fuel as [|k IH]; intros f g h r Rf Rg Rh H; simpl in H;
    pose proof (ite_shortcut_wf reduced f g h Rf Rg Rh (fun _ => I)) as Hwf;
    destruct (ite_shortcut f g h) as [r0|op x y|x|] eqn:Es;
    try (injection H as <-; auto using apply_not_reduced; fail);
    try (destruct Hwf as [Hx Hy]; exact (apply_bin_reduced _ _ _ _ _ Hx Hy H));
    try discriminate.
  destruct (lmin (lmin (level f) (level g)) (level h)) as [lv|]; [|discriminate].
  destruct (apply_ite gt k (cof lv TT f) (cof lv TT g) (cof lv TT h)) as [t|] eqn:E1; [|discriminate].
  destruct (apply_ite gt k (cof lv TU f) (cof lv TU g) (cof lv TU h)) as [u|] eqn:E2; [|discriminate].
  destruct (apply_ite gt k (cof lv TF f) (cof lv TF g) (cof lv TF h)) as [e|] eqn:E3; [|discriminate].
  injection H as <-.
  apply mk_reduced; eauto using cof_reduced.
Qed.

Lemma lmin3_below : forall n f g h lv, below n f -> below n g -> below n h ->
  lmin (lmin (level f) (level g)) (level h) = Some lv -> lv < n.
Proof.
  intros n [v|l t u e] [w|l' t' u' e'] [x|l'' t'' u'' e''] lv; simpl; try discriminate;
    intros Bf Bg Bh [= <-]; try lia.
Qed.

Theorem apply_ite_below : forall fuel f g h r n,
  below n f -> below n g -> below n h -> apply_ite gt fuel f g h = Some r -> below n r.
Proof.
  induction fuel as [|k IH]; intros f g h r n Bf Bg Bh H; simpl in H;
    pose proof (ite_shortcut_wf (below n) f g h Bf Bg Bh (fun _ => I)) as Hwf;
    destruct (ite_shortcut f g h) as [r0|op x y|x|] eqn:Es;
    try (injection H as <-; auto using apply_not_below; fail);
    try (destruct Hwf as [Hx Hy]; exact (apply_bin_below _ _ _ _ _ _ Hx Hy H));
    try discriminate.
  destruct (lmin (lmin (level f) (level g)) (level h)) as [lv|] eqn:Elv; [|discriminate].
  destruct (apply_ite gt k (cof lv TT f) (cof lv TT g) (cof lv TT h)) as [t|] eqn:E1; [|discriminate].
  destruct (apply_ite gt k (cof lv TU f) (cof lv TU g) (cof lv TU h)) as [u|] eqn:E2; [|discriminate].
  destruct (apply_ite gt k (cof lv TF f) (cof lv TF g) (cof lv TF h)) as [e|] eqn:E3; [|discriminate].
  injection H as <-.
  apply mk_below; eauto using cof_below, lmin3_below.
Qed.

Theorem apply_ite_auto_correct : forall f g h,
  exists r, apply_ite_auto gt f g h = Some r /\
    (forall a, sem r a = ite3 (sem f a) (sem g a) (sem h a)) /\
    (forall n, ordered_from n f -> ordered_from n g -> ordered_from n h -> ordered_from n r) /\
    (reduced f -> reduced g -> reduced h -> reduced r) /\
    (forall n, below n f -> below n g -> below n h -> below n r).
Proof.
  intros f g h.
  destruct (apply_ite_total (height f + height g + height h) f g h (le_n _)) as [r Hr].
  exists r. unfold apply_ite_auto. split; [exact Hr|]. repeat split.
  - eapply apply_ite_sem; eauto.
  - intros n Of Og Oh. exact (apply_ite_ordered _ _ _ _ _ _ Of Og Oh Hr).
  - intros Rf Rg Rh. exact (apply_ite_reduced _ _ _ _ _ Rf Rg Rh Hr).
  - intros n Bf Bg Bh. exact (apply_ite_below _ _ _ _ _ _ Bf Bg Bh Hr).
Qed.

(** The default [ite_edge] of the trait computes a different function
    (witness: if = then = else = ... pointwise U, T, T). *)
Theorem apply_ite_default_refuted : exists f g h r a,
  apply_ite_default gt f g h = Some r /\ sem r a <> ite3 (sem f a) (sem g a) (sem h a).
Proof. exists (Leaf TU), (Leaf TT), (Leaf TT), (Leaf TU), (fun _ => TF). split; [reflexivity|discriminate]. Qed.

End EdgeOrder.

(* ------------------------------------------------------------------------ *)
(** * 7. [eval] and [cofactors] *)

Lemma choice_of_inj : forall v w, choice_of v = choice_of w -> v = w.
Proof. intros [] []; simpl; congruence. Qed.

Lemma set_choices_spec : forall args ch d,
  (forall l, ch l = choice_of (d l)) ->
  forall l, set_choices args ch l = choice_of (assignment_of args d l).
Proof.
  induction args as [|[l0 v0] r IH]; intros ch d H l; simpl; [apply H|].
  apply IH. intros x. unfold upd. destruct (Nat.eqb x l0); auto.
Qed.

Lemma eval_inner_sem : forall f ch a,
  (forall l, ch l = choice_of (a l)) -> eval_inner f ch = sem f a.
Proof.
  induction f as [v|l t IHt u IHu e IHe]; intros ch a H; [reflexivity|].
  simpl. rewrite (H l). destruct (a l); simpl; auto.
Qed.

(** [eval] follows the true / unknown / false child: it computes [sem] under
    the assignment denoted by the argument list (last pair wins). *)
Theorem eval_sem : forall f args, eval f args = sem f (assignment_of args (fun _ => TT)).
Proof.
  intros. unfold eval. apply eval_inner_sem. apply set_choices_spec. reflexivity.
Qed.

Lemma assignment_of_notin : forall args d l, ~ In l (map fst args) -> assignment_of args d l = d l.
Proof.
  induction args as [|[l0 v0] r IH]; intros d l H; simpl in *; [reflexivity|].
  rewrite IH by tauto. apply upd_other. intro; subst; tauto.
Qed.

Lemma assignment_of_consistent : forall args d a l,
  (forall x v, In (x, v) args -> v = a x) -> In l (map fst args) -> assignment_of args d l = a l.
Proof.
  induction args as [|[l0 v0] r IH]; intros d a l Hc Hin; simpl in *; [tauto|].
  destruct (in_dec Nat.eq_dec l (map fst r)) as [Hr|Hr].
  - apply IH; auto.
  - rewrite assignment_of_notin by assumption. destruct Hin as [->|]; [|tauto].
    rewrite upd_same. apply Hc. auto.
Qed.

Lemma sem_ext_below : forall f n a b, below n f -> (forall l, l < n -> a l = b l) -> sem f a = sem f b.
Proof.
  induction f as [v|l t IHt u IHu e IHe]; intros n a b Hb H; [reflexivity|].
  simpl in Hb. destruct Hb as (Hl & Ht & Hu & He). rewrite !sem_node, <- (H l Hl).
  rewrite (IHt n a b), (IHu n a b), (IHe n a b); auto.
Qed.

(** Complete assignments (every level of the manager is given, in any order,
    possibly repeatedly but consistently): [eval] is [sem]. *)
Theorem eval_complete : forall f n a args,
  below n f ->
  (forall x v, In (x, v) args -> v = a x) ->
  (forall l, l < n -> In l (map fst args)) ->
  eval f args = sem f a.
Proof.
  intros f n a args Hb Hc Hall. rewrite eval_sem. apply sem_ext_below with n; [assumption|].
  intros l Hl. apply assignment_of_consistent; auto.
Qed.

Corollary eval_complete_args : forall f n a, below n f -> eval f (complete_args n a) = sem f a.
Proof.
  intros f n a Hb. apply eval_complete with n; auto; unfold complete_args.
  - intros x v Hin. apply in_map_iff in Hin. destruct Hin as (l & [= <- <-] & _). reflexivity.
  - intros l Hl. rewrite map_map. simpl. rewrite map_id. apply in_seq. lia.
Qed.

(** [cofactors]: [None] exactly for terminals, otherwise the three children in
    the order true, unknown, false, and (ordered diagrams) these are the three
    restrictions of the function w.r.t. the top variable. *)
Theorem cofactors_spec : forall f,
  match f with
  | Leaf _ => cofactors f = None
  | Node l t u e =>
    cofactors f = Some (t, u, e) /\
    (forall n, ordered_from n f ->
      forall a, sem t a = sem f (upd a l TT) /\ sem u a = sem f (upd a l TU) /\
                sem e a = sem f (upd a l TF))
  end.
Proof.
  intros [v|l t u e]; [reflexivity|]. split; [reflexivity|].
  intros n (_ & Ot & Ou & Oe) a. rewrite !sem_node, !upd_same.
  rewrite (sem_indep t (S l)), (sem_indep u (S l)), (sem_indep e (S l)); auto.
Qed.

(** The top level of an ordered reduced diagram is the first level its function
    depends on: it is independent of all levels above ([sem_indep]) and it is
    not independent of its top level. *)
Theorem top_level_essential : forall l t u e,
  ordered (Node l t u e) -> reduced (Node l t u e) ->
  ~ (forall a v w, sem (Node l t u e) (upd a l v) = sem (Node l t u e) (upd a l w)).
Proof.
  intros l t u e (_ & Ot & Ou & Oe) (Hne & Rt & Ru & Re) Hind. apply Hne.
  assert (forall c, ordered_from (S l) c -> ordered c) as Hord
    by (intros c Hc; apply ordered_from_mono with (S l); [lia|assumption]).
  split; apply canon; auto; intros a.
  - pose proof (Hind a TT TU) as H. rewrite !sem_node, !upd_same in H.
    rewrite (sem_indep t (S l)), (sem_indep u (S l)) in H; auto.
  - pose proof (Hind a TU TF) as H. rewrite !sem_node, !upd_same in H.
    rewrite (sem_indep u (S l)), (sem_indep e (S l)) in H; auto.
Qed.

(* ------------------------------------------------------------------------ *)
(** * 8. Every function over finitely many levels has a reduced ordered diagram *)

Fixpoint incr_from (n : nat) (ls : list nat) : Prop :=
  match ls with
  | [] => True
  | l :: r => n <= l /\ incr_from (S l) r
  end.

Definition fn_ext (fn : tfun) : Prop := forall a b, (forall x, a x = b x) -> fn a = fn b.

Definition override (ls : list nat) (a b : assignment) : assignment :=
  fun x => if existsb (Nat.eqb x) ls then b x else a x.

Lemma incr_from_notin : forall ls n l, incr_from n ls -> l < n -> existsb (Nat.eqb l) ls = false.
Proof.
  induction ls as [|l0 r IH]; intros n l H Hl; [reflexivity|]. simpl in *.
  destruct H as [H1 H2]. destruct (Nat.eqb_spec l l0); [lia|]. simpl. apply (IH (S l0)); auto. lia.
Qed.

Lemma tdd_of_fun_wf : forall ls fn a n, incr_from n ls ->
  ordered_from n (tdd_of_fun ls fn a) /\ reduced (tdd_of_fun ls fn a) /\
  (forall m, (forall l, In l ls -> l < m) -> below m (tdd_of_fun ls fn a)).
Proof.
  induction ls as [|l r IH]; intros fn a n H; simpl; [repeat split; auto|].
  destruct H as [H1 H2].
  destruct (IH fn (upd a l TT) _ H2) as (O1 & R1 & B1).
  destruct (IH fn (upd a l TU) _ H2) as (O2 & R2 & B2).
  destruct (IH fn (upd a l TF) _ H2) as (O3 & R3 & B3).
  repeat split.
  - apply mk_ordered; auto.
  - apply mk_reduced; auto.
  - intros m Hm. apply mk_below; auto.
Qed.

Theorem tdd_of_fun_sem : forall ls fn a b n, fn_ext fn -> incr_from n ls ->
  sem (tdd_of_fun ls fn a) b = fn (override ls a b).
Proof.
  induction ls as [|l r IH]; intros fn a b n Hext H; simpl.
  - apply Hext. reflexivity.
  - destruct H as [H1 H2]. rewrite mk_sem, sem_node.
    assert (forall v, b l = v -> sem (tdd_of_fun r fn (upd a l v)) b = fn (override (l :: r) a b)) as Hv.
    { intros v Hv. rewrite (IH fn _ b _ Hext H2). apply Hext. intros x. unfold override. simpl.
      destruct (Nat.eqb_spec x l) as [->|Hne]; simpl.
      - rewrite (incr_from_notin r (S l) l H2) by lia. rewrite upd_same. auto.
      - destruct (existsb (Nat.eqb x) r); [reflexivity|]. apply upd_other. assumption. }
    destruct (b l) eqn:E; apply Hv; reflexivity.
Qed.

(** Satisfiability of the hypotheses used throughout (a concrete non-trivial
    ordered, reduced two-level diagram and a complete run of the operators). *)
Example wf_example :
  let f := Node 0 (tdd_var 1) (Leaf TU) (Node 1 (Leaf TF) (Leaf TT) (Leaf TT)) in
  ordered f /\ reduced f /\ below 2 f /\
  apply_bin_auto gt_size Imp f (tdd_var 1) =
    Some (Node 0 (Leaf TT) (Node 1 (Leaf TT) (Leaf TT) (Leaf TU)) (Node 1 (Leaf TT) (Leaf TU) (Leaf TF))) /\
  apply_ite_auto gt_size (tdd_var 0) f (Leaf TU) = Some (Node 0 (tdd_var 1) (Leaf TU) (Leaf TU)).
Proof.
  cbv zeta. unfold ordered. simpl ordered_from. simpl reduced. simpl below.
  repeat split; try lia; try (intros [H1 H2]; discriminate).
Qed.

(* ------------------------------------------------------------------------ *)
(** * 9. The bit-packed [choices] vector of [eval_edge] *)

Section Packed.
Local Open Scope N_scope.
Arguments N.add : simpl never. Arguments N.sub : simpl never. Arguments N.mul : simpl never.
Arguments N.div : simpl never. Arguments N.modulo : simpl never. Arguments N.pow : simpl never.
Arguments N.shiftl : simpl never. Arguments N.shiftr : simpl never. Arguments N.ones : simpl never.

Lemma testbit_small : forall v i, v < 4 -> 2 <= i -> N.testbit v i = false.
Proof.
  intros v i Hv Hi. destruct (N.eq_dec v 0) as [->|Hn]; [apply N.bits_0|].
  apply N.bits_above_log2. apply N.lt_le_trans with 2; [|assumption].
  apply N.log2_lt_pow2; [lia|]. exact Hv.
Qed.

Lemma testbit_3 : forall i, N.testbit 3 i = (i <? 2).
Proof.
  intros i. change 3 with (N.ones 2). destruct (N.ltb_spec i 2).
  - apply N.ones_spec_low. assumption.
  - apply N.ones_spec_high. assumption.
Qed.

Lemma block_get_set_aux : forall b m m' v, m < 16 -> m' < 16 -> v < 4 ->
  N.land (N.shiftr (N.lor (N.shiftl v (2 * m))
                      (N.land b (N.ldiff (N.ones 32) (N.shiftl 3 (2 * m))))) (2 * m')) 3 =
  if m =? m' then v else N.land (N.shiftr b (2 * m')) 3.
Proof.
  intros b m m' v Hm Hm' Hv. apply N.bits_inj. intros i.
  rewrite N.land_spec, N.shiftr_spec', N.lor_spec, N.land_spec, N.ldiff_spec, testbit_3.
  destruct (N.ltb_spec i 2) as [Hi|Hi].
  - rewrite andb_true_r. rewrite (N.ones_spec_low 32 (i + 2 * m')) by lia. rewrite andb_true_l.
    destruct (N.eqb_spec m m') as [<-|Hne].
    + rewrite N.shiftl_spec_high' by lia. rewrite N.shiftl_spec_high' by lia.
      replace (i + 2 * m - 2 * m) with i by lia. rewrite testbit_3.
      destruct (N.ltb_spec i 2); [|lia]. simpl. rewrite andb_false_r, orb_false_r. reflexivity.
    + rewrite N.land_spec, N.shiftr_spec', testbit_3. destruct (N.ltb_spec i 2); [|lia]. rewrite andb_true_r.
      destruct (N.lt_ge_cases (i + 2 * m') (2 * m)) as [Hlt|Hge].
      * rewrite !N.shiftl_spec_low by assumption. simpl. rewrite andb_true_r. reflexivity.
      * rewrite !N.shiftl_spec_high' by assumption.
        rewrite (testbit_small v) by lia. rewrite testbit_3.
        destruct (N.ltb_spec (i + 2 * m' - 2 * m) 2); [lia|]. simpl. rewrite andb_true_r. reflexivity.
  - rewrite andb_false_r. destruct (m =? m').
    + symmetry. apply testbit_small; assumption.
    + rewrite N.land_spec, testbit_3. destruct (N.ltb_spec i 2); [lia|]. rewrite andb_false_r. reflexivity.
Qed.

Lemma block_get_set : forall b l l' v, v < 4 ->
  block_get (block_set b l v) l' =
  if (l mod elements_per_block =? l' mod elements_per_block) then v else block_get b l'.
Proof.
  intros. unfold block_get, block_set, elements_per_block.
  apply block_get_set_aux; try assumption; apply N.mod_upper_bound; discriminate.
Qed.

Lemma block_get_0 : forall l, block_get 0 l = 0.
Proof. intros. unfold block_get. rewrite N.shiftr_0_l. reflexivity. Qed.
End Packed.

Definition blk (l : nat) : nat := N.to_nat (N.of_nat l / elements_per_block).

Lemma blk_split : forall l l', blk l = blk l' ->
  (N.of_nat l mod elements_per_block = N.of_nat l' mod elements_per_block)%N -> l = l'.
Proof.
  unfold blk, elements_per_block. intros l l' H1 H2.
  pose proof (N.div_mod (N.of_nat l) 16 ltac:(discriminate)).
  pose proof (N.div_mod (N.of_nat l') 16 ltac:(discriminate)).
  assert (N.of_nat l / 16 = N.of_nat l' / 16)%N by lia. lia.
Qed.

Lemma blk_lt : forall l k, l < 16 * k -> blk l < k.
Proof.
  unfold blk, elements_per_block. intros l k H.
  assert (N.of_nat l / 16 < N.of_nat k)%N; [|lia].
  apply N.div_lt_upper_bound; [discriminate|lia].
Qed.

Lemma list_upd_length : forall A (l : list A) i x, length (list_upd l i x) = length l.
Proof. induction l as [|y r IH]; intros [|i] x; simpl; auto. Qed.

Lemma nth_list_upd : forall A (l : list A) i j x d, i < length l ->
  nth j (list_upd l i x) d = if Nat.eqb j i then x else nth j l d.
Proof.
  induction l as [|y r IH]; intros i j x d Hi; simpl in Hi; [lia|].
  destruct i as [|i], j as [|j]; simpl; auto. apply IH. lia.
Qed.

Definition repr (blocks : list N) (ch : nat -> nat) : Prop :=
  forall l, l < 16 * length blocks -> block_get (nth (blk l) blocks 0%N) (N.of_nat l) = N.of_nat (ch l).

Lemma choice_n_of : forall v, choice_n v = N.of_nat (choice_of v).
Proof. intros []; reflexivity. Qed.

Lemma pack_choices_repr : forall args blocks ch,
  repr blocks ch -> (forall l v, In (l, v) args -> l < 16 * length blocks) ->
  repr (pack_choices args blocks) (set_choices args ch) /\
  length (pack_choices args blocks) = length blocks.
Proof.
  induction args as [|[l0 v0] r IH]; intros blocks ch Hr Hb; simpl; [auto|].
  fold (blk l0).
  assert (Hl0 : l0 < 16 * length blocks) by (apply (Hb l0 v0); simpl; auto).
  pose proof (blk_lt _ _ Hl0) as Hk.
  set (blocks' := list_upd blocks (blk l0) _).
  assert (Hlen : length blocks' = length blocks) by apply list_upd_length.
  destruct (IH blocks' (fun x => if Nat.eqb x l0 then choice_of v0 else ch x)) as [H1 H2].
  - intros l Hl. rewrite Hlen in Hl. unfold blocks'. rewrite nth_list_upd by assumption.
    destruct (Nat.eqb_spec (blk l) (blk l0)) as [Hb1|Hb1].
    + rewrite block_get_set by (destruct v0; reflexivity).
      destruct (N.eqb_spec (N.of_nat l0 mod elements_per_block) (N.of_nat l mod elements_per_block)) as [Hm|Hm].
      * rewrite (blk_split l l0) by auto. rewrite Nat.eqb_refl. apply choice_n_of.
      * destruct (Nat.eqb_spec l l0) as [->|Hne]; [congruence|]. rewrite <- Hb1. apply Hr. assumption.
    + destruct (Nat.eqb_spec l l0) as [->|Hne]; [congruence|]. apply Hr. assumption.
  - intros l v Hin. rewrite Hlen. apply (Hb l v). simpl. auto.
  - split; [exact H1|]. rewrite H2. exact Hlen.
Qed.

Lemma eval_inner_packed_eq : forall f blocks ch n,
  repr blocks ch -> n <= 16 * length blocks -> below n f ->
  eval_inner_packed f blocks = eval_inner f ch.
Proof.
  induction f as [v|l t IHt u IHu e IHe]; intros blocks ch n Hr Hn Hb; [reflexivity|].
  simpl in Hb. destruct Hb as (Hl & Bt & Bu & Be). simpl. fold (blk l).
  rewrite Hr by lia.
  rewrite (IHt blocks ch n), (IHu blocks ch n), (IHe blocks ch n) by assumption.
  destruct (ch l) as [|[|k]]; try reflexivity.
  destruct (N.of_nat (S (S k))) as [|[p|p|]] eqn:E; try reflexivity; lia.
Qed.

(** The packed vector computes the same as the abstract one whenever every
    mentioned level exists (otherwise the code panics on the index). *)
Theorem eval_packed_eq : forall n f args,
  below n f -> (forall l v, In (l, v) args -> l < n) -> eval_packed n f args = eval f args.
Proof.
  intros n f args Hb Ha. unfold eval_packed, eval.
  set (k := N.to_nat ((N.of_nat n + 15) / elements_per_block)).
  assert (Hk : n <= 16 * k).
  { unfold k, elements_per_block.
    pose proof (N.div_mod (N.of_nat n + 15) 16 ltac:(discriminate)).
    pose proof (N.mod_upper_bound (N.of_nat n + 15) 16 ltac:(discriminate)). lia. }
  destruct (pack_choices_repr args (repeat 0%N k) (fun _ => 0)) as [H1 H2].
  - intros l Hl. rewrite nth_repeat. apply block_get_0.
  - intros l v Hin. rewrite repeat_length. specialize (Ha l v Hin). lia.
  - apply eval_inner_packed_eq with n; auto. rewrite H2, repeat_length. exact Hk.
Qed.
