(** DD/TddTables.v — the fixed truth tables
    (part of the proofs about the model DD/Tdd.v, property C11; re-exported by DD/TddProofs.v). *)
From Coq Require Import Bool Arith List Lia NArith ZArith.
From OxiVerif Require Import DD.Tdd.
Import ListNotations.

(* ------------------------------------------------------------------------ *)
(** * 1. The fixed tables *)

Lemma tri_eqb_eq : forall a b, tri_eqb a b = true <-> a = b.
Proof. intros [] []; simpl; split; congruence. Qed.

Lemma tri_eqb_refl : forall a, tri_eqb a a = true.
Proof. intros []; reflexivity. Qed.

Lemma ite3_is_text : forall a b c, ite3 a b c = ite3_text a b c.
Proof. intros [] [] []; reflexivity. Qed.

(** Kleene's strong tables as min / max / 1-x over F < U < T. *)
Definition rank (a : tri) : nat := match a with TF => 0 | TU => 1 | TT => 2 end.

Lemma k_not_rank : forall a, rank (k_not a) = 2 - rank a.
Proof. intros []; reflexivity. Qed.
Lemma k_and_rank : forall a b, rank (k_and a b) = Nat.min (rank a) (rank b).
Proof. intros [] []; reflexivity. Qed.
Lemma k_or_rank : forall a b, rank (k_or a b) = Nat.max (rank a) (rank b).
Proof. intros [] []; reflexivity. Qed.
(** Lukasiewicz: a -> b = min(1, 1 - a + b), a <-> b = 1 - |a - b| (scaled by 2). *)
Lemma l_imp_rank : forall a b, rank (l_imp a b) = Nat.min 2 (2 - rank a + rank b).
Proof. intros [] []; reflexivity. Qed.
Lemma l_equiv_rank : forall a b,
  rank (l_equiv a b) = 2 - (Nat.max (rank a) (rank b) - Nat.min (rank a) (rank b)).
Proof. intros [] []; reflexivity. Qed.

Lemma table_idem_cases : forall op x,
  table op x x =
  match op with
  | And | Or => x
  | Nand | Nor => k_not x
  | Xor | ImpStrict => TF
  | Equiv | Imp => TT
  end.
Proof. intros [] []; reflexivity. Qed.

Definition commutative (op : binop) : bool :=
  match op with Imp | ImpStrict => false | _ => true end.

Lemma table_comm : forall op x y, commutative op = true -> table op x y = table op y x.
Proof. intros [] [] []; simpl; intros; try reflexivity; discriminate. Qed.

(** The default [ite_edge] of oxidd-core is a different function: it is not
    what the property calls ite (it is unreachable through TDD handles). *)
Lemma ite_default3_refuted : exists a b c, ite_default3 a b c <> ite3 a b c.
Proof. exists TU, TT, TT. discriminate. Qed.
