(** * The Boolean-function interface of the ZBDD kind (C02 / C04, package C02z)

    Executable definitions only (proofs: DD/ZbddBoolProofs.v, DD/ZbddXorProofs.v,
    DD/ZbddIteProofs.v, DD/ZbddEvalProofs.v, DD/ZbddRestrictProofs.v).  Mirrors

    - oxidd-rules-zbdd/src/lib.rs: [ZBDDCache::tautology] (the tautology chain,
      one edge per level plus Base, index clamped to the terminal level),
      [reduce1];
    - oxidd-rules-zbdd/src/apply_rec.rs: [apply_not] (= [apply_diff(taut(0), f)]),
      [apply_symm_diff], [apply_ite] (terminal cases incl. the level-dependent
      tautology short-cuts, cache, the three-way level comparison and its
      recursion patterns with [apply_intsec] / [apply_diff] on the hi branch),
      the [BooleanFunction] entry points [and_edge] = intsec, [or_edge] = union,
      [nand_edge] = not(and), [nor_edge] = not(or), [xor_edge] = symm_diff,
      [equiv_edge] = not(xor), [imp_edge] = ite(f, g, taut(0)),
      [imp_strict_edge] = diff(g, f), [ite_edge], [f_edge], [t_edge],
      [var_edge], [eval_edge] (bit set indexed by level + [ones] counter),
      [restrict] + [restrict_base] (level-threaded, don't-care nodes re-inserted; cache key
      (Restrict, [f, vars], [num_levels]));
    - oxidd-core/src/function.rs: the defaults [not_var_edge] =
      [not_edge_owned(var_edge)] and [cofactors_edge] (children of the root).

    Union / intersection / difference themselves are [zapply] of DD/ZbddOps.v.

    Style of DD/ZbddOps.v: references (ZBDD edges carry no tag), the node store
    is a [snap], nodes are created by [zmk_node] / [get_or_insert], recursion on
    explicit fuel ([None] = fuel exhausted or an [unwrap] of the code would
    panic), the apply cache is any type [C] with [cget] / [cadd] keyed by
    (operator code, operand edges, numeric operands), the edge order [f > g] is
    the parameter [gt].

    The tautology chain.  The code keeps [tautologies: Vec<Edge>] in the
    manager ([ZBDDCache]), rebuilt by [post_reorder_mut] on init / add_vars /
    reorder as [taut(n) = Base], [taut(l) = get_or_insert(l, [taut(l+1), taut(l+1)])].
    The snapshot has no such field; [ztaut s l] looks the chain up in the unique
    table exactly as [post_reorder_mut] (DD/ZbddVars.v [ztaut_build]) builds it.
    [None] = the chain is not in the table ([zchain_ok_b], a hypothesis of the
    theorems, decided on every real snapshot; proved to hold after [zadd_vars]). *)

From Coq Require Import List NArith PArith Bool Arith FMapPositive.
From OxiVerif Require Import DD.Table DD.Sem DD.Build DD.Apply DD.FamSpec DD.ZbddOps.
Import ListNotations.

(** [ZBDDOp as u8] (Subset0 = 0, Subset1, Change, Restrict = 3, Union, Intsec, Diff, SymmDiff = 7, Ite = 8) *)
Definition zcode_restrict : N := 3%N.
Definition zcode_symm : N := 7%N.
Definition zcode_ite : N := 8%N.

(** ** The tautology chain *)

(** the unique-table lookup of [get_or_insert] without the insertion *)
Definition zlookup (s : snap) (lvl : nat) (hi lo : ref) : option ref :=
  match find_dup s lvl [E hi; E lo] with Some id => Some (RN id) | None => None end.

(** [taut(nlevels s - k)]: [k] levels above the terminal level *)
Fixpoint ztaut_up (s : snap) (k : nat) : option ref :=
  match k with
  | O => zbase s
  | S k' =>
    match ztaut_up s k' with
    | Some e => zlookup s (nlevels s - S k') e e
    | None => None
    end
  end.

(** [ZBDDCache::tautology(level)]: [rev_idx = min(len - 1, level)] with [len - 1 = nlevels];
    the truncated subtraction is that clamp *)
Definition ztaut (s : snap) (level : nat) : option ref := ztaut_up s (nlevels s - level).

(** [tautology(level)] for a [node.level()] that may be [LevelNo::MAX] ([None], terminal) *)
Definition ztaut_opt (s : snap) (level : option nat) : option ref :=
  match level with Some l => ztaut s l | None => ztaut s (nlevels s) end.

(** the whole chain is present in the table *)
Definition zchain_ok_b (s : snap) : bool :=
  match ztaut s 0 with Some _ => true | None => false end.

(** [min] on levels with [None] = [LevelNo::MAX] *)
Definition lmin (a b : option nat) : option nat :=
  match lcmp a b with Gt => b | _ => a end.

(** [reduce1(level, child)]: Empty stays Empty, otherwise the don't-care node [level, [child, child]] *)
Definition zmk_node1 (s : snap) (lvl : nat) (child : ref) : snap * ref := zmk_node s lvl child child.

(** don't-care nodes for the levels [level + cnt - 1] down to [level] on top of [e]
    (the loops of [var_edge] and of [restrict_base]: [get_or_insert(l, [res, res])]) *)
Fixpoint zdc_wrap (level cnt : nat) (s : snap) (e : ref) : snap * ref :=
  match cnt with
  | O => (s, e)
  | S k =>
    let '(s', e') := get_or_insert s (level + k) [E e; E e] in
    zdc_wrap level k s' (eref e')
  end.

(** ** Constants and variables *)

(** [f_edge] = the Empty terminal, [t_edge] = [tautology(0)] *)
Definition zconst (s : snap) (b : bool) : option ref :=
  if b then ztaut s 0 else zempty s.

(** [var_edge]: the node [level, [taut(level + 1), Empty]] (inserted directly), then the
    don't-care nodes of the levels above *)
Definition zvar (s : snap) (var : nat) : option (snap * ref) :=
  match nth_error (s_v2l s) var, zempty s with
  | Some level, Some lo =>
    match ztaut s (S level) with
    | Some hi =>
      let '(s1, e) := get_or_insert s level [E hi; E lo] in
      Some (zdc_wrap 0 level s1 (eref e))
    | None => None
    end
  | _, _ => None
  end.

Section Gt.
Variable gt : ref -> ref -> bool.

Section Cache.
Variable C : Type.
Variable cget : C -> N -> list ref -> list nat -> option ref.
Variable cadd : C -> N -> list ref -> list nat -> ref -> C.

(** ** Negation: [apply_not] = [apply_diff(tautology(0), f)] *)
Definition zapply_not (fuel : nat) (s : snap) (c : C) (f : ref) : option (snap * C * ref) :=
  match ztaut s 0 with
  | Some t => zapply gt C cget cadd fuel s c ZDiff t f
  | None => None
  end.

(** [not_var_edge] (default of oxidd-core): [not_edge_owned(var_edge(var))] *)
Definition znot_var (fuel : nat) (s : snap) (c : C) (var : nat) : option (snap * C * ref) :=
  match zvar s var with
  | Some (s1, e) => zapply_not fuel s1 c e
  | None => None
  end.

(** ** [apply_symm_diff] *)
Fixpoint zsymm (fuel : nat) (s : snap) (c : C) (f g : ref) : option (snap * C * ref) :=
  match fuel with
  | O => None
  | S n =>
    match zempty s with
    | None => None
    | Some empty =>
      if ref_eqb f g then Some (s, c, empty)
      else if ref_eqb f empty then Some (s, c, g)
      else if ref_eqb g empty then Some (s, c, f)
      else
        let '(f, g) := if gt f g then (g, f) else (f, g) in
        match cget c zcode_symm [f; g] [] with
        | Some h => Some (s, c, h)
        | None =>
          match zget s f, zget s g with
          | Some fnode, Some gnode =>
            let res :=
              match lcmp (vlevel fnode) (vlevel gnode) with
              | Lt =>
                match zkids fnode, vlevel fnode with
                | Some (fhi, flo), Some flevel =>
                  match zsymm n s c flo g with
                  | None => None
                  | Some (s1, c1, lo) =>
                    let '(s2, h) := zmk_node s1 flevel fhi lo in Some (s2, c1, h)
                  end
                | _, _ => None
                end
              | Eq =>
                match zkids fnode, zkids gnode, vlevel fnode with
                | Some (fhi, flo), Some (ghi, glo), Some flevel =>
                  match zsymm n s c fhi ghi with
                  | None => None
                  | Some (s1, c1, hi) =>
                    match zsymm n s1 c1 flo glo with
                    | None => None
                    | Some (s2, c2, lo) =>
                      let '(s3, h) := zmk_node s2 flevel hi lo in Some (s3, c2, h)
                    end
                  end
                | _, _, _ => None
                end
              | Gt =>
                match zkids gnode, vlevel gnode with
                | Some (ghi, glo), Some glevel =>
                  match zsymm n s c f glo with
                  | None => None
                  | Some (s1, c1, lo) =>
                    let '(s2, h) := zmk_node s1 glevel ghi lo in Some (s2, c1, h)
                  end
                | _, _ => None
                end
              end in
            match res with
            | None => None
            | Some (s', c', h) => Some (s', cadd c' zcode_symm [f; g] [] h, h)
            end
          | _, _ => None
          end
        end
    end
  end.

(** ** [apply_ite]

    The nested calls of [apply_union] / [apply_intsec] / [apply_diff] get the
    fuel of the enclosing call (always enough, proved). *)
Fixpoint zapply_ite (fuel : nat) (s : snap) (c : C) (f g h : ref) : option (snap * C * ref) :=
  match fuel with
  | O => None
  | S n =>
    (* terminal cases *)
    if ref_eqb g h then Some (s, c, g)
    else if ref_eqb f g then zapply gt C cget cadd fuel s c ZUnion f h
    else if ref_eqb f h then zapply gt C cget cadd fuel s c ZIntsec f g
    else
      match zget s f with
      | None => None
      | Some fnode =>
        if is_empty_b s f then Some (s, c, h)
        else
          match zget s g with
          | None => None
          | Some gnode =>
            if is_empty_b s g then zapply gt C cget cadd fuel s c ZDiff h f     (* f < h = h \ f *)
            else
              match zget s h with
              | None => None
              | Some hnode =>
                if is_empty_b s h then zapply gt C cget cadd fuel s c ZIntsec f g
                else
                  let flevel := vlevel fnode in
                  let glevel := vlevel gnode in
                  let hlevel := vlevel hnode in
                  let ghlevel := lmin glevel hlevel in
                  let level := lmin flevel ghlevel in
                  match ztaut_opt s level with
                  | None => None
                  | Some taut =>
                    if ref_eqb f taut then Some (s, c, g)
                    else if ref_eqb g taut then zapply gt C cget cadd fuel s c ZUnion f h
                    else
                      (* if h == tautology { f -> g }; "we cannot handle this properly" *)
                      match cget c zcode_ite [f; g; h] [] with
                      | Some r => Some (s, c, r)
                      | None =>
                        let res :=
                          match lcmp flevel ghlevel with
                          | Gt =>
                            match lcmp glevel hlevel with
                            | Lt =>
                              match zkids gnode with
                              | Some (_, glo) => zapply_ite n s c f glo h
                              | None => None
                              end
                            | cmp =>
                              match zkids hnode, level with
                              | Some (hhi, hlo), Some lv =>
                                let g' :=
                                  match cmp with
                                  | Eq => match zkids gnode with Some (_, glo) => Some glo | None => None end
                                  | _ => Some g
                                  end in
                                match g' with
                                | None => None
                                | Some g' =>
                                  match zapply_ite n s c f g' hlo with
                                  | None => None
                                  | Some (s1, c1, lo) =>
                                    let '(s2, r) := zmk_node s1 lv hhi lo in Some (s2, c1, r)
                                  end
                                end
                              | _, _ => None
                              end
                            end
                          | Lt =>
                            match zkids fnode with
                            | Some (_, flo) => zapply_ite n s c flo g h
                            | None => None
                            end
                          | Eq =>
                            match zkids fnode, level with
                            | Some (fhi, flo), Some lv =>
                              let hilo :=
                                match lcmp hlevel flevel with
                                | Gt =>                       (* hlevel > flevel *)
                                  match zkids gnode with
                                  | Some (ghi, glo) =>
                                    (* binary_ternary(apply_intsec, (fhi, ghi), apply_ite, (flo, glo, h)) *)
                                    match zapply gt C cget cadd fuel s c ZIntsec fhi ghi with
                                    | None => None
                                    | Some (s1, c1, hi) =>
                                      match zapply_ite n s1 c1 flo glo h with
                                      | None => None
                                      | Some (s2, c2, lo) => Some (s2, c2, hi, lo)
                                      end
                                    end
                                  | None => None
                                  end
                                | _ =>
                                  match lcmp glevel flevel with
                                  | Gt =>                     (* glevel > flevel *)
                                    match zkids hnode with
                                    | Some (hhi, hlo) =>
                                      (* binary_ternary(apply_diff, (hhi, fhi), apply_ite, (flo, g, hlo)) *)
                                      match zapply gt C cget cadd fuel s c ZDiff hhi fhi with
                                      | None => None
                                      | Some (s1, c1, hi) =>
                                        match zapply_ite n s1 c1 flo g hlo with
                                        | None => None
                                        | Some (s2, c2, lo) => Some (s2, c2, hi, lo)
                                        end
                                      end
                                    | None => None
                                    end
                                  | _ =>
                                    match zkids gnode, zkids hnode with
                                    | Some (ghi, glo), Some (hhi, hlo) =>
                                      (* ternary(apply_ite, (fhi, ghi, hhi), (flo, glo, hlo)) *)
                                      match zapply_ite n s c fhi ghi hhi with
                                      | None => None
                                      | Some (s1, c1, hi) =>
                                        match zapply_ite n s1 c1 flo glo hlo with
                                        | None => None
                                        | Some (s2, c2, lo) => Some (s2, c2, hi, lo)
                                        end
                                      end
                                    | _, _ => None
                                    end
                                  end
                                end in
                              match hilo with
                              | None => None
                              | Some (s2, c2, hi, lo) =>
                                let '(s3, r) := zmk_node s2 lv hi lo in Some (s3, c2, r)
                              end
                            | _, _ => None
                            end
                          end in
                        match res with
                        | None => None
                        | Some (s', c', r) => Some (s', cadd c' zcode_ite [f; g; h] [] r, r)
                        end
                      end
                  end
              end
          end
      end
  end.

(** ** The entry points of [BooleanFunction for ZBDDFunction] *)
Definition zapply_op (fuel : nat) (s : snap) (c : C) (op : bop) (f g : ref)
  : option (snap * C * ref) :=
  match op with
  | OAnd => zapply gt C cget cadd fuel s c ZIntsec f g
  | OOr => zapply gt C cget cadd fuel s c ZUnion f g
  | ONand =>
    match zapply gt C cget cadd fuel s c ZIntsec f g with
    | Some (s1, c1, r) => zapply_not fuel s1 c1 r
    | None => None
    end
  | ONor =>
    match zapply gt C cget cadd fuel s c ZUnion f g with
    | Some (s1, c1, r) => zapply_not fuel s1 c1 r
    | None => None
    end
  | OXor => zsymm fuel s c f g
  | OEquiv =>
    match zsymm fuel s c f g with
    | Some (s1, c1, r) => zapply_not fuel s1 c1 r
    | None => None
    end
  | OImp =>
    match ztaut s 0 with
    | Some t => zapply_ite fuel s c f g t
    | None => None
    end
  | OImpStrict => zapply gt C cget cadd fuel s c ZDiff g f
  end.

(** ** [restrict]

    [restrict_base(vars, level)]: the restriction of Base (the family { {} } seen
    from [level]) - a positive literal gives Empty, the levels the cube skips
    (negative literals) become don't-care nodes, the levels the cube does not
    care about stay suppressed.  The table only grows; no cache. *)
Fixpoint zrestrict_base (fuel : nat) (s : snap) (vars : ref) (level : nat) : option (snap * ref) :=
  match fuel with
  | O => None
  | S n =>
    match zget s vars with
    | None => None
    | Some (ZT _) =>                   (* debug_assert: Base *)
      match ztaut s level with Some t => Some (s, t) | None => None end
    | Some (ZI nd) =>
      match nchildren nd with
      | [hi; lo] =>
        if negb (ref_eqb (eref hi) (eref lo)) then
          (* select (zero-suppressed) LO branch *)
          match zempty s with Some e => Some (s, e) | None => None end
        else
          let node_level := nstored nd in
          match zrestrict_base n s (eref hi) (S node_level) with
          | None => None
          | Some (s1, res) =>
            if Nat.ltb level node_level && negb (is_empty_b s1 res)
            then Some (zdc_wrap level (node_level - level) s1 res)
            else Some (s1, res)
          end
      | _ => None
      end
    end
  end.

(** [restrict(f, vars, level)]; the nested [restrict_base] gets the fuel of the enclosing call.
    The apply-cache entry is keyed by the two operand edges AND the number of levels of
    the manager (one numeric operand, /repo f8637cd): the result depends on the number of
    levels through the Base terminal of [vars] and the tautology chain of [restrict_base],
    and [add_vars] does not clear the apply cache. *)
Fixpoint zrestrict (fuel : nat) (s : snap) (c : C) (f vars : ref) (level : nat)
  : option (snap * C * ref) :=
  match fuel with
  | O => None
  | S n =>
    match zget s f with
    | None => None
    | Some (ZT v) =>
      if N.eqb v 0 then Some (s, c, f)                 (* Empty *)
      else
        match zrestrict_base fuel s vars level with      (* Base *)
        | Some (s1, r) => Some (s1, c, r)
        | None => None
        end
    | Some (ZI fnd) =>
      match zget s vars, nchildren fnd with
      | Some vnode, [fhi; flo] =>
        let flevel := nstored fnd in
        match lcmp (vlevel vnode) (Some level) with
        | Eq =>
          match zkids vnode with
          | None => None
          | Some (vhi, vlo) =>
            if negb (ref_eqb vhi vlo) then
              (* select HI branch *)
              if negb (Nat.eqb flevel level) then
                match zempty s with Some e => Some (s, c, e) | None => None end
              else
                match zrestrict n s c (eref fhi) vhi (S level) with
                | None => None
                | Some (s1, c1, child) =>
                  let '(s2, r) := zmk_node1 s1 level child in Some (s2, c1, r)
                end
            else if negb (Nat.eqb flevel level) then zrestrict n s c f vhi (S level)
            else
              (* [get_extended::<1, 0>(Restrict, (&[f, vars], &[num_levels]))] with
                 [num_levels = manager.num_levels()], read once before the lookup *)
              match cget c zcode_restrict [f; vars] [nlevels s] with
              | Some r => Some (s, c, r)
              | None =>
                match zrestrict n s c (eref fhi) vhi (S level) with
                | None => None
                | Some (s1, c1, hi) =>
                  match zrestrict n s1 c1 (eref flo) vhi (S level) with
                  | None => None
                  | Some (s2, c2, lo) =>
                    let '(s3, r) := zmk_node s2 level hi lo in
                    (* [add_extended(Restrict, (&[f, vars], &[num_levels]), (&[res], &[]))] *)
                    Some (s3, cadd c2 zcode_restrict [f; vars] [nlevels s] r, r)
                  end
                end
              end
          end
        | _ =>
          (* vlevel != level: select LO branch *)
          let sel := if Nat.eqb flevel level then eref flo else f in
          match zrestrict n s c sel vars (S level) with
          | None => None
          | Some (s1, c1, child) =>
            let '(s2, r) := zmk_node1 s1 level child in Some (s2, c1, r)
          end
        end
      | _, _ => None
      end
    end
  end.

(** [restrict_edge] *)
Definition zrestrict_edge (fuel : nat) (s : snap) (c : C) (f vars : ref) : option (snap * C * ref) :=
  zrestrict fuel s c f vars 0.

End Cache.
End Gt.

(** ** Evaluation *)

(** the first loop of [eval_edge]: the bit set [values] (indexed by level) and the
    counter [ones]; [None] = [var_to_level] panics *)
Fixpoint zeval_args (s : snap) (args : list (nat * bool)) (values : nat -> bool) (ones : nat)
  : option ((nat -> bool) * nat) :=
  match args with
  | [] => Some (values, ones)
  | (var, val) :: rest =>
    match nth_error (s_v2l s) var with
    | None => None
    | Some level =>
      if Bool.eqb (values level) val then zeval_args s rest values ones
      else
        zeval_args s rest (fun l => if Nat.eqb l level then val else values l)
                   (if val then S ones else Nat.pred ones)   (* wrapping_add_signed(+1 / -1) *)
    end
  end.

(** the tail-recursive [inner]: [None] also when [ones - val as usize] would underflow *)
Fixpoint zeval_walk (fuel : nat) (s : snap) (r : ref) (values : nat -> bool) (ones : nat) : option bool :=
  match r with
  | RT t =>
    match term_val s t with
    | Some v => Some (Nat.eqb ones 0 && N.eqb v 1)
    | None => None
    end
  | RN id =>
    match fuel with
    | O => None
    | S n =>
      match find_node s id with
      | None => None
      | Some nd =>
        let val := values (nstored nd) in
        (* first child is the HI edge, hence the negation *)
        match nth_error (nchildren nd) (if val then 0 else 1) with
        | None => None
        | Some e =>
          if val then
            match ones with
            | O => None
            | S k => zeval_walk n s (eref e) values k
            end
          else zeval_walk n s (eref e) values ones
        end
      end
    end
  end.

Definition zeval_edge (s : snap) (r : ref) (args : list (nat * bool)) : option bool :=
  match zeval_args s args (fun _ => false) 0 with
  | Some (values, ones) => zeval_walk (S (nlevels s)) s r values ones
  | None => None
  end.

(** [cofactors_edge] (default of oxidd-core with [ZBDDRules::cofactors] = the children):
    (hi, lo) of the root node, [None] for a terminal *)
Definition zcofactors (s : snap) (r : ref) : option (ref * ref) :=
  match zget s r with
  | Some v => zkids v
  | None => None
  end.

(** ** Reading a cube the way [restrict] / [restrict_base] walk it

    The literal list (level, polarity) of [vars] from [level] on: a skipped
    level is a negative literal, a node with hi = lo is no literal, a node with
    lo = Empty a positive one.  [None] = not a conjunction of literals (the
    code's [debug_assert]s). *)
Fixpoint zneg_lits (from cnt : nat) : list (nat * bool) :=
  match cnt with
  | O => []
  | S k => (from, false) :: zneg_lits (S from) k
  end.

Fixpoint zcube_lits (fuel : nat) (s : snap) (vars : ref) (level : nat) : option (list (nat * bool)) :=
  match fuel with
  | O => None
  | S n =>
    match zget s vars with
    | None => None
    | Some (ZT v) =>
      if N.eqb v 1 then Some (zneg_lits level (nlevels s - level)) else None
    | Some (ZI nd) =>
      if Nat.ltb (nlevel nd) level then None
      else
        match nchildren nd with
        | [hi; lo] =>
          match zcube_lits n s (eref hi) (S (nlevel nd)) with
          | None => None
          | Some rest =>
            if ref_eqb (eref hi) (eref lo) then Some (zneg_lits level (nlevel nd - level) ++ rest)
            else if is_empty_b s (eref lo) then
              Some (zneg_lits level (nlevel nd - level) ++ (nlevel nd, true) :: rest)
            else None
          end
        | _ => None
        end
    end
  end.
