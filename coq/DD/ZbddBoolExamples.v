(** * The hypotheses of the C02 / C04 ZBDD theorems are satisfiable, and the model runs:
    the four-level table [ex_z4] of DD/ZbddExamples.v (order var -> level [1;2;0;3], with its
    tautology chain), [vm_compute] runs of every operation of DD/ZbddBool.v with two caches and
    two operand orders. *)

From Coq Require Import List NArith PArith Bool Arith Lia FMapPositive.
From OxiVerif Require Import DD.Table DD.TableExtra DD.TableProofs DD.Sem DD.Build DD.BuildProofs DD.Apply
  DD.FamSpec DD.FamSpecProofs DD.ZbddOps DD.ZbddOpsProofs DD.ZbddSubsetProofs DD.ZbddSoundProofs
  DD.ZbddVars DD.ZbddVarsProofs DD.ZbddExamples DD.ZbddBool DD.ZbddBoolProofs DD.ZbddEvalProofs
  DD.ZbddRestrictProofs DD.ZbddRestrictTop.
Import ListNotations.

Example ex_z4_ok : ZbddOK ex_z4.
Proof. apply zbdd_ok_b_spec. vm_compute. reflexivity. Qed.

Example ex_z4_chain : ZChainOK ex_z4.
Proof. vm_compute. reflexivity. Qed.

(** the chain as the lookup finds it, incl. the clamp of [tautology(level)] *)
Example ex_z4_taut :
  ztaut ex_z4 0 = Some (RN 7) /\ ztaut ex_z4 2 = Some (RN 5) /\ ztaut ex_z4 4 = Some (RT 1%N) /\
  ztaut ex_z4 9 = Some (RT 1%N) /\ zchain_ok_b ex_z3 = false.
Proof. vm_compute. repeat split; reflexivity. Qed.

(** the two cache instances used by the correspondence run start valid in every table *)
Lemma zac_empty_okB : forall s, ZCacheOKB zacache zac_get s [].
Proof. intros s code args nums r Hx. discriminate. Qed.

Lemma znc_okB : forall s c, ZCacheOKB unit znc_get s c.
Proof. intros s c code args nums r Hx. discriminate. Qed.

Example ex_z4_cache_ok : ZCacheOKB zacache zac_get ex_z4 [].
Proof. apply zac_empty_okB. Qed.

Example ex_z4_nocache_ok : ZCacheOKB unit znc_get ex_z4 tt.
Proof. apply znc_okB. Qed.

(** all 16 choices (bit l of k set = level l true) *)
Definition ex_choices (n : nat) : list (nat -> nat) :=
  map (fun k l => if Nat.testbit k l then 0 else 1) (seq 0 (2 ^ n)).
Definition ex_tt (s : snap) (r : ref) : list (option bool) :=
  map (fun c => zview_of s r c) (ex_choices (nlevels s)).
Definition ex_bits (l : list nat) : list (option bool) :=
  map (fun k => Some (existsb (Nat.eqb k) l)) (seq 0 16).
Definition ex_out {C : Type} (r : option (snap * C * ref)) :=
  match r with Some (s, _, r) => Some (PositiveMap.cardinal (s_nodes s), r, ex_tt s r) | None => None end.

(** node 3 = {{1},{2},{0,2}} (level sets): true at the choices 2, 4, 5; node 2 = {{1},{2}}; node 6 = taut(1) *)
Example ex_z4_views :
  ex_tt ex_z4 (RN 3) = ex_bits [2; 4; 5] /\ ex_tt ex_z4 (RN 2) = ex_bits [2; 4] /\
  ex_tt ex_z4 (RN 6) = ex_bits [0; 2; 4; 6; 8; 10; 12; 14].
Proof. vm_compute. repeat split; reflexivity. Qed.

Example ex_z4_not :
  ex_out (zapply_not zgt_id zacache zac_get zac_add 5 ex_z4 [] (RN 3))
    = Some (13, RN 13, ex_bits [0; 1; 3; 6; 7; 8; 9; 10; 11; 12; 13; 14; 15]) /\
  ex_out (zapply_not (fun _ _ => false) unit znc_get znc_add 5 ex_z4 tt (RN 3))
    = Some (13, RN 13, ex_bits [0; 1; 3; 6; 7; 8; 9; 10; 11; 12; 13; 14; 15]).
Proof. vm_compute. split; reflexivity. Qed.

Example ex_z4_ops :
  ex_out (zapply_op zgt_id zacache zac_get zac_add 5 ex_z4 [] OXor (RN 3) (RN 6))
    = Some (12, RN 12, ex_bits [0; 5; 6; 8; 10; 12; 14]) /\
  ex_out (zapply_op zgt_id zacache zac_get zac_add 5 ex_z4 [] OImp (RN 3) (RN 2))
    = Some (11, RN 11, ex_bits [0; 1; 2; 3; 4; 6; 7; 8; 9; 10; 11; 12; 13; 14; 15]) /\
  ex_out (zapply_op zgt_id zacache zac_get zac_add 5 ex_z4 [] OImpStrict (RN 2) (RN 3))
    = Some (8, RN 8, ex_bits [5]) /\
  ex_out (zapply_op (fun _ _ => false) unit znc_get znc_add 5 ex_z4 tt OAnd (RN 3) (RN 6))
    = Some (7, RN 2, ex_bits [2; 4]).
Proof. vm_compute. repeat split; reflexivity. Qed.

(** ite(node 3, taut(1), node 2) = node 2 (no node created); the Ite cache entry *)
Example ex_z4_ite :
  ex_out (zapply_ite zgt_id zacache zac_get zac_add 5 ex_z4 [] (RN 3) (RN 6) (RN 2))
    = Some (7, RN 2, ex_bits [2; 4]) /\
  match zapply_ite zgt_id zacache zac_get zac_add 5 ex_z4 [] (RN 3) (RN 6) (RN 2) with
  | Some (_, c, _) => zac_get c zcode_ite [RN 3; RN 6; RN 2] [] = Some (RN 2)
  | None => False
  end.
Proof. vm_compute. split; reflexivity. Qed.

(** var 0 (level 1), not var 2 (level 0 = taut(1), the existing node 6), constants *)
Example ex_z4_vars :
  match zvar ex_z4 0 with
  | Some (s, r) => r = RN 9 /\ ex_tt s r = ex_bits [2; 3; 6; 7; 10; 11; 14; 15]
  | None => False
  end /\
  ex_out (znot_var zgt_id zacache zac_get zac_add 5 ex_z4 [] 2)
    = Some (8, RN 6, ex_bits [0; 2; 4; 6; 8; 10; 12; 14]) /\
  zconst ex_z4 true = Some (RN 7) /\ zconst ex_z4 false = Some (RT 0%N).
Proof. vm_compute. repeat split; reflexivity. Qed.

(** eval over the assignments of the variables 0..3 (bit v of k = variable v): node 3 holds at
    {var 0}, {var 1}, {var 1, var 2}; cofactors = the children *)
Example ex_z4_eval :
  map (fun k => zeval_edge ex_z4 (RN 3) (map (fun v => (v, Nat.testbit k v)) (seq 0 4))) (seq 0 16)
    = ex_bits [1; 2; 6] /\
  zcofactors ex_z4 (RN 3) = Some (RN 1, RN 2) /\ zcofactors ex_z4 (RT 1%N) = None /\
  zeval_edge ex_z4 (RN 3) [(7, true)] = None.
Proof. vm_compute. repeat split; reflexivity. Qed.

(** restrict node 3 by the cube var 0 /\ not var 3 (levels 1 and 3): the cube built by the model,
    read back by [zcube_lits], the result true at the level sets within {1,3} *)
Definition ex_cube : option (snap * ref) :=
  match zvar ex_z4 0 with
  | Some (s1, x) =>
    match znot_var zgt_id zacache zac_get zac_add 5 s1 [] 3 with
    | Some (s2, c2, y) =>
      match zapply zgt_id zacache zac_get zac_add 5 s2 c2 ZIntsec x y with
      | Some (s3, _, cb) => Some (s3, cb)
      | None => None
      end
    | None => None
    end
  | None => None
  end.

Example ex_z4_restrict :
  match ex_cube with
  | Some (s, cb) =>
    zbdd_ok_b s = true /\ zchain_ok_b s = true /\
    zcube_lits 5 s cb 0 = Some [(1, true); (3, false)] /\
    ex_out (zrestrict_edge zacache zac_get zac_add 5 s [] (RN 3) cb) = Some (19, RN 19, ex_bits [0; 2; 8; 10])
  | None => False
  end.
Proof. vm_compute. repeat split; reflexivity. Qed.
