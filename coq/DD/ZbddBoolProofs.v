(** * The Boolean interface of the ZBDD kind, part 1 (model: DD/ZbddBool.v)

    - the tautology chain as looked up in the unique table: [ztaut_den]
      ([taut(l)] denotes all subsets of the levels [l, n)), [ztaut_of_den]
      (whatever edge denotes that family is the one the lookup finds -
      canonicity), [ztaut_extends], [ztaut_total], [zchain_after_add_vars];
    - the cache invariant [ZCacheOKB] for all nine operator codes, the frame
      lemma [zapply_served] (union/intsec/diff only add entries of their own
      code), [zapply_okB];
    - negation, and/or/nand/nor/imp_strict, constants, variables, negated
      variables in the family reading ([zapply_not_ok], [zapply_op_ok_simple],
      [zconst_ok], [zvar_ok], [znot_var_ok]);
    - [zdc_wrap_ok]: the loops that put don't-care nodes on top of an edge.

    Part 2: DD/ZbddXorProofs.v (xor, equiv), part 3: DD/ZbddIteProofs.v (ite, imp),
    part 4: DD/ZbddEvalProofs.v (eval, cofactors, the Boolean view, top-level
    statements), part 5: DD/ZbddRestrictProofs.v. *)

From Coq Require Import List NArith PArith Bool Arith Lia FMapPositive.
From OxiVerif Require Import DD.Table DD.TableExtra DD.TableProofs DD.Sem DD.Build DD.BuildProofs
  DD.Apply DD.ApplyProofs DD.CanonZbdd DD.FamSpec DD.FamSpecProofs DD.ZbddOps DD.ZbddOpsProofs
  DD.ZbddSubsetProofs DD.ZbddSoundProofs DD.ZbddVars DD.ZbddVarsProofs DD.ZbddBool.
Import ListNotations.

(** ** Denotations: decidable, canonical *)

Lemma zden_dec : forall s r P S, ZDen s r P -> P S \/ ~ P S.
Proof.
  intros s r P S [_ [F [_ Hm]]]. destruct (fmem S F) eqn:E.
  - left. apply Hm, fmem_spec. exact E.
  - right. intros HP. apply Hm, fmem_spec in HP. congruence.
Qed.

(** one edge per family *)
Lemma zden_canon : forall s r1 r2 P Q, ZbddOK s -> ZDen s r1 P -> ZDen s r2 Q -> peq P Q -> r1 = r2.
Proof.
  intros s r1 r2 P Q B [O1 [F1 [E1 H1]]] [O2 [F2 [E2 H2]]] Hpq.
  pose proof (zo_wf s B) as H. pose proof (zo_kind s B) as Hk.
  apply (canon_zbdd s H Hk (zbddok_terms_kind s B) r1 r2 O1 O2).
  intros c Hc. rewrite (bool_view s H Hk r1 c F1 O1 Hc E1), (bool_view s H Hk r2 c F2 O2 Hc E2).
  f_equal. unfold fam_bool. apply fmem_iff. rewrite H1, H2. apply Hpq.
Qed.

Lemma peq_refl : forall P, peq P P.
Proof. intros P S. reflexivity. Qed.

Lemma peq_sym : forall P Q, peq P Q -> peq Q P.
Proof. intros P Q H S. symmetry. apply H. Qed.

Lemma peq_trans : forall P Q R, peq P Q -> peq Q R -> peq P R.
Proof. intros P Q R H1 H2 S. rewrite (H1 S). apply H2. Qed.

(** a family whose members start at or below [l] decomposes at level [l] *)
Lemma pdecomp : forall l (R : fpred), (forall S, R S -> incr_from l S) ->
  peq R (node_pred l (fun T => R (l :: T)) (fun S => R S /\ incr_from (Datatypes.S l) S)).
Proof.
  intros l R Hi S. unfold node_pred. split.
  - intros HR. pose proof (Hi S HR) as HS. destruct S as [|x T]; [right; split; [exact HR | exact I]|].
    simpl in HS. destruct HS as [Hx HT]. destruct (Nat.eq_dec x l) as [->|Hne].
    + left. exists T. auto.
    + right. split; [exact HR|]. simpl. split; [lia | exact HT].
  - intros [[T [-> HT]]|[HR _]]; assumption.
Qed.

(** ** [pall]: all subsets of the levels [from, n) *)

Lemma pall_base : forall n, peq pbase (pall n n).
Proof.
  intros n S. unfold pbase, pall. split.
  - intros ->. split; [exact I | constructor].
  - intros [Hi Hb]. destruct S as [|x r]; [reflexivity|]. simpl in Hi. inversion Hb; subst. lia.
Qed.

Lemma pall_weaken : forall n l l' S, l' <= l -> pall n l S -> pall n l' S.
Proof. intros n l l' S Hl [Hi Hb]. split; [apply (incr_from_weaken S l); assumption | exact Hb]. Qed.

Lemma pall_true_levels : forall n c from, pall n from (true_levels c from (n - from)).
Proof.
  intros n c from. split; [apply true_levels_incr|].
  apply Forall_forall. intros x Hx. apply true_levels_range in Hx. lia.
Qed.

Lemma pall_cons : forall n l T, l < n -> (pall n l (l :: T) <-> pall n (S l) T).
Proof.
  intros n l T Hl. unfold pall. split.
  - intros [[_ Hi] Hb]. inversion Hb; subst. auto.
  - intros [Hi Hb]. split; [simpl; split; [lia | exact Hi] | constructor; assumption].
Qed.

(** ** The unique-table lookup *)

Lemma zlookup_some : forall s lvl hi lo r, zlookup s lvl hi lo = Some r ->
  exists id nd, r = RN id /\ find_node s id = Some nd /\ nlevel nd = lvl /\ nchildren nd = [E hi; E lo].
Proof.
  intros s lvl hi lo r. unfold zlookup. destruct (find_dup s lvl [E hi; E lo]) as [id|] eqn:Ed; [|discriminate].
  intros Hx. inversion Hx; subst r. destruct (find_dup_some s lvl _ id Ed) as [nd [E0 [El Ec]]].
  exists id, nd. auto.
Qed.

Lemma zlookup_node : forall s id nd hi lo, WF s -> find_node s id = Some nd ->
  nchildren nd = [E hi; E lo] -> zlookup s (nlevel nd) hi lo = Some (RN id).
Proof.
  intros s id nd hi lo H En Ec. unfold zlookup.
  destruct (find_dup s (nlevel nd) [E hi; E lo]) as [id'|] eqn:Ed.
  - destruct (find_dup_some s _ _ id' Ed) as [nd' [E' [El' Ec']]].
    f_equal. f_equal. apply (wf_unique s H id' id nd' nd E' En El'). congruence.
  - exfalso. apply (find_dup_none s _ _ Ed id nd En eq_refl Ec).
Qed.

(** the children of a stored ZBDD node, as untagged edges *)
Lemma zchildren_E : forall s id nd, ZbddOK s -> find_node s id = Some nd ->
  exists hi lo, nchildren nd = [E hi; E lo].
Proof.
  intros s id nd B En. pose proof (zo_wf s B) as H. pose proof (zo_kind s B) as Hk.
  destruct (zchildren s H Hk id nd En) as [hi [lo Ec]].
  assert (Hnb : s_kind s <> KBcdd) by (rewrite Hk; discriminate).
  exists (eref hi), (eref lo). rewrite Ec. f_equal; [|f_equal].
  - apply edge_ext; [reflexivity|]. simpl. apply (wf_tags s H Hnb id nd hi En). rewrite Ec. left. reflexivity.
  - apply edge_ext; [reflexivity|]. simpl. apply (wf_tags s H Hnb id nd lo En). rewrite Ec. right. left. reflexivity.
Qed.

(** ** The tautology chain *)

Lemma ztaut_up_den : forall s, ZbddOK s -> forall k t, k <= nlevels s ->
  ztaut_up s k = Some t -> ZDen s t (pall (nlevels s) (nlevels s - k)).
Proof.
  intros s B. induction k as [|k IH]; intros t Hk Et.
  - simpl in Et. destruct (zbase_spec s B) as [tb [Eb Etb]]. rewrite Eb in Et. inversion Et; subst t.
    rewrite Nat.sub_0_r. apply (zden_ext s _ pbase); [apply (zden_base s tb B Etb) | apply pall_base].
  - simpl in Et. destruct (ztaut_up s k) as [e|] eqn:Ek; [|discriminate].
    destruct (zlookup_some s _ e e t Et) as (id & nd & -> & En & El & Ec).
    pose proof (IH e ltac:(lia) eq_refl) as De.
    replace (nlevels s - k) with (S (nlevels s - S k)) in De by lia.
    rewrite <- El in *.
    apply (zden_ext s _ (node_pred (nlevel nd) (pall (nlevels s) (S (nlevel nd))) (pall (nlevels s) (S (nlevel nd))))).
    + apply (zden_node s id nd (E e) (E e) _ _ B En Ec); exact De.
    + apply pall_step. lia.
Qed.

Theorem ztaut_den : forall s l t, ZbddOK s -> ztaut s l = Some t ->
  ZDen s t (pall (nlevels s) (Nat.min l (nlevels s))).
Proof.
  intros s l t B E. unfold ztaut in E.
  pose proof (ztaut_up_den s B (nlevels s - l) t ltac:(lia) E) as D.
  replace (nlevels s - (nlevels s - l)) with (Nat.min l (nlevels s)) in D by lia. exact D.
Qed.

(** the edge that denotes "all subsets of [n - k, n)" is the one the lookup finds *)
Lemma ztaut_up_of_den : forall s, ZbddOK s -> forall k t, k <= nlevels s ->
  ZDen s t (pall (nlevels s) (nlevels s - k)) -> ztaut_up s k = Some t.
Proof.
  intros s B. pose proof (zo_wf s B) as H. induction k as [|k IH]; intros t Hk D.
  - simpl. destruct (zbase_spec s B) as [tb [Eb Etb]]. rewrite Eb. f_equal.
    rewrite Nat.sub_0_r in D.
    apply (zden_canon s (RT tb) t pbase _ B (zden_base s tb B Etb) D). apply pall_base.
  - set (n := nlevels s) in *. set (L := n - S k) in *.
    assert (HL : L < n) by (unfold L; lia).
    assert (Hmem : pall n L [L]) by (split; [simpl; split; [lia | exact I] | constructor; [exact HL | constructor]]).
    (* the root is a node at level L *)
    destruct (zden_support s t _ [L] B D Hmem) as [I1 _]. simpl in I1.
    assert (Hge : L <= rlevel s t).
    { apply (zden_level s t _ L B D); [fold n; lia|]. intros S [Hi _]. exact Hi. }
    destruct t as [x|id]; [simpl in I1; fold n in I1; lia|].
    destruct (zden_ok _ _ _ D) as [nd En].
    rewrite (rlevel_node s id nd En) in I1, Hge.
    assert (El : nlevel nd = L) by lia.
    destruct (znode_facts s id nd _ B D En)
      as (_ & _ & _ & hi & lo & PA & PB & Ec & DA & DB & _ & _ & HP & SA & SB).
    rewrite El in *.
    assert (HA : peq PA (pall n (S L))).
    { intros T. split.
      - intros HT. apply (pall_cons n L T HL). apply HP. left. exists T. auto.
      - intros HT. apply (pall_cons n L T HL) in HT. apply HP in HT.
        destruct HT as [[T' [ET HT']]|Hb]; [inversion ET; subst; exact HT'|].
        exfalso. apply (sup_nohead L PB T SB Hb). }
    assert (HB : peq PB (pall n (S L))).
    { intros S. split.
      - intros HS. pose proof (SB S HS) as Hi.
        assert (Hp : pall n L S) by (apply HP; right; exact HS).
        split; [exact Hi | apply Hp].
      - intros HS. pose proof (pall_weaken n (Datatypes.S L) L S ltac:(lia) HS) as Hp. apply HP in Hp.
        destruct Hp as [[T [-> _]]|Hb]; [|exact Hb].
        destruct HS as [Hi _]. simpl in Hi. lia. }
    pose proof (zden_ext s _ _ _ DA HA) as DA'. pose proof (zden_ext s _ _ _ DB HB) as DB'.
    assert (Ehl : eref hi = eref lo) by (apply (zden_canon s _ _ _ _ B DA' DB'); apply peq_refl).
    destruct (zchildren_E s id nd B En) as [h [l Ec']]. rewrite Ec in Ec'. inversion Ec'; subst hi lo.
    simpl in Ehl. subst l. simpl in DA'.
    assert (Ek : ztaut_up s k = Some h).
    { apply IH; [lia|]. replace (n - k) with (S L) by (unfold L; lia). exact DA'. }
    simpl. rewrite Ek. fold n. fold L. rewrite <- El. apply (zlookup_node s id nd h h H En Ec).
Qed.

Theorem ztaut_of_den : forall s l t, ZbddOK s -> l <= nlevels s ->
  ZDen s t (pall (nlevels s) l) -> ztaut s l = Some t.
Proof.
  intros s l t B Hl D. unfold ztaut. apply (ztaut_up_of_den s B); [lia|].
  replace (nlevels s - (nlevels s - l)) with l by lia. exact D.
Qed.

(** the chain survives every extension of the table *)
Theorem ztaut_extends : forall s s' l t, ZbddOK s -> ZbddOK s' -> extends s s' ->
  ztaut s l = Some t -> ztaut s' l = Some t.
Proof.
  intros s s' l t B B' X E. pose proof (ztaut_den s l t B E) as D.
  pose proof (zden_extends s s' t _ B X D) as D'.
  pose proof (ext_nlevels _ _ X) as Hn. rewrite <- Hn in D'.
  destruct (Nat.le_gt_cases l (nlevels s')) as [Hl|Hl].
  - rewrite Nat.min_l in D' by exact Hl. apply (ztaut_of_den s' l t B' Hl D').
  - rewrite Nat.min_r in D' by lia.
    pose proof (ztaut_of_den s' (nlevels s') t B' (le_n _) D') as E'.
    unfold ztaut in *. replace (nlevels s' - l) with 0 by lia.
    rewrite Nat.sub_diag in E'. exact E'.
Qed.

Lemma ztaut_up_down : forall s k, ztaut_up s (S k) <> None -> ztaut_up s k <> None.
Proof. intros s k Hs Hk. apply Hs. simpl. rewrite Hk. reflexivity. Qed.

Lemma ztaut_up_total : forall s k j, ztaut_up s k <> None -> j <= k -> ztaut_up s j <> None.
Proof.
  intros s k j Hk Hj. induction k as [|k IH].
  - replace j with 0 by lia. exact Hk.
  - destruct (Nat.eq_dec j (S k)) as [->|Hne]; [exact Hk|].
    apply IH; [apply ztaut_up_down; exact Hk | lia].
Qed.

(** the checkable hypothesis: the chain is complete *)
Definition ZChainOK (s : snap) : Prop := zchain_ok_b s = true.

Theorem ztaut_total : forall s l, ZChainOK s -> exists t, ztaut s l = Some t.
Proof.
  intros s l Hc. unfold ZChainOK, zchain_ok_b in Hc.
  assert (H0 : ztaut_up s (nlevels s) <> None).
  { unfold ztaut in Hc. rewrite Nat.sub_0_r in Hc. destruct (ztaut_up s (nlevels s)); [discriminate | discriminate]. }
  pose proof (ztaut_up_total s (nlevels s) (nlevels s - l) H0 ltac:(lia)) as Hl.
  unfold ztaut. destruct (ztaut_up s (nlevels s - l)) as [t|]; [eauto | congruence].
Qed.

Theorem zchain_extends : forall s s', ZbddOK s -> ZbddOK s' -> extends s s' -> ZChainOK s -> ZChainOK s'.
Proof.
  intros s s' B B' X Hc. destruct (ztaut_total s 0 Hc) as [t E].
  unfold ZChainOK, zchain_ok_b. rewrite (ztaut_extends s s' 0 t B B' X E). reflexivity.
Qed.

(** a table that has an edge for the constant-true function has the whole chain *)
Theorem zchain_of_den : forall s t, ZbddOK s -> ZDen s t (pall (nlevels s) 0) -> ZChainOK s.
Proof.
  intros s t B D. unfold ZChainOK, zchain_ok_b.
  rewrite (ztaut_of_den s 0 t B ltac:(lia) D). reflexivity.
Qed.

(** [post_reorder_mut] / [add_vars] establish the hypothesis, and the lookup
    returns the chain they built *)
Theorem zchain_after_taut_chain : forall s, ZbddOK s ->
  exists s' ch, ztaut_chain s = Some (s', ch) /\ ZbddOK s' /\ extends s s' /\ ZChainOK s' /\
    forall l, l <= nlevels s' -> ztaut s' l = nth_error ch l.
Proof.
  intros s B. destruct (ztaut_chain_ok s B) as (s' & ch & E & B' & X & Hlen & Hch).
  pose proof (ext_nlevels _ _ X) as Hn.
  assert (Hd : forall l t, nth_error ch l = Some t -> ZDen s' t (pall (nlevels s') l)).
  { intros l t Hl. destruct (Hch l t Hl) as [O [F [EF HF]]]. split; [exact O|]. exists F. split; [exact EF|].
    assert (Hll : l < length ch) by (apply nth_error_Some; congruence).
    intros S. rewrite (HF S), in_f_powerset. unfold pall.
    replace (l + (nlevels s - l)) with (nlevels s') by lia. reflexivity. }
  assert (Hl : forall l, l <= nlevels s' -> ztaut s' l = nth_error ch l).
  { intros l Hl. destruct (nth_error ch l) as [t|] eqn:Et.
    - apply (ztaut_of_den s' l t B' Hl). apply Hd. exact Et.
    - apply nth_error_None in Et. lia. }
  exists s', ch. split; [exact E|]. split; [exact B'|]. split; [exact X|]. split; [|exact Hl].
  unfold ZChainOK, zchain_ok_b. rewrite (Hl 0 ltac:(lia)).
  destruct (nth_error ch 0) eqn:E0; [reflexivity|]. apply nth_error_None in E0. lia.
Qed.

Theorem zchain_after_add_vars : forall s k, ZbddOK s ->
  exists s' ch, zadd_vars s k = Some (s', ch) /\ ZbddOK s' /\ ZChainOK s' /\
    nlevels s' = nlevels s + k /\ forall l, l <= nlevels s' -> ztaut s' l = nth_error ch l.
Proof.
  intros s k B. destruct (add_levels_ok s k B) as (B1 & _ & Hn1 & _).
  destruct (zchain_after_taut_chain (add_levels s k) B1) as (s' & ch & E & B' & X & Hc & Hl).
  exists s', ch. split; [exact E|]. split; [exact B'|]. split; [exact Hc|].
  split; [rewrite (ext_nlevels _ _ X); exact Hn1 | exact Hl].
Qed.

(** ** Reading a cube; the result family of [restrict] (definitions; proofs in DD/ZbddRestrictProofs.v) *)

(** [M] : level |-> literal.  [ZCube s M lvl vars]: from [lvl] on, [vars] is the
    cube [M] in the shape [restrict] walks: a skipped level is a negative
    literal, a node with equal children no literal, a node with lo = Empty a
    positive literal. *)
Inductive ZCube (s : snap) (M : nat -> option bool) : nat -> ref -> Prop :=
| ZC_term : forall lvl t, term_val s t = Some 1%N ->
    (forall l, lvl <= l < nlevels s -> M l = Some false) -> ZCube s M lvl (RT t)
| ZC_dc : forall lvl id nd hi, find_node s id = Some nd -> nchildren nd = [E hi; E hi] ->
    lvl <= nlevel nd -> (forall l, lvl <= l < nlevel nd -> M l = Some false) ->
    M (nlevel nd) = None -> ZCube s M (S (nlevel nd)) hi -> ZCube s M lvl (RN id)
| ZC_pos : forall lvl id nd hi lo, find_node s id = Some nd -> nchildren nd = [E hi; E lo] ->
    hi <> lo -> is_empty_b s lo = true ->
    lvl <= nlevel nd -> (forall l, lvl <= l < nlevel nd -> M l = Some false) ->
    M (nlevel nd) = Some true -> ZCube s M (S (nlevel nd)) hi -> ZCube s M lvl (RN id).

(** the choice at level [l] when the literals of [M] override membership in [S] *)
Definition cm (M : nat -> option bool) (S : lset) (l : nat) : nat :=
  match M l with
  | Some true => 0
  | Some false => 1
  | None => if smem l S then 0 else 1
  end.

(** the set [S] with the literal levels overridden, among the levels [from, from + cnt) *)
Definition ovl (M : nat -> option bool) (S : lset) (from cnt : nat) : lset := true_levels (cm M S) from cnt.

(** the restriction of the family [P], seen from level [lvl], over [n] levels *)
Definition prestr (n : nat) (M : nat -> option bool) (lvl : nat) (P : fpred) : fpred :=
  fun S => incr_from lvl S /\ Forall (fun x => x < n) S /\ P (ovl M S lvl (n - lvl)).

(** ** Symmetric difference and if-then-else on families *)

Definition pxor (P Q : fpred) : fpred := fun S => (P S /\ ~ Q S) \/ (~ P S /\ Q S).
Definition pite (P Q R : fpred) : fpred := fun S => (P S /\ Q S) \/ (~ P S /\ R S).

(** ** The cache invariant for all operator codes *)

Section ZBoolCache.
Variable gt : ref -> ref -> bool.
Variable C : Type.
Variable cget : C -> N -> list ref -> list nat -> option ref.
Variable cadd : C -> N -> list ref -> list nat -> ref -> C.
Hypothesis Hlossy : zlossy C cget cadd.

(** entries of the codes of this package: SymmDiff (7), Ite (8), Restrict (3) *)
Definition zentry_x (s : snap) (code : N) (args : list ref) (nums : list nat) (r : ref) : Prop :=
  match args, nums with
  | [f; g], [] =>
    code = zcode_symm -> exists P Q, ZDen s f P /\ ZDen s g Q /\ ZDen s r (pxor P Q)
  | [f; g], [n] =>
    (* Restrict entries are keyed by the number of levels (/repo f8637cd); an entry keyed
       with another number of levels than the table's says nothing (add_vars keeps the
       apply cache: entries of smaller numbers of levels linger, they are not looked up) *)
    code = zcode_restrict -> n = nlevels s ->
       exists P id nd M, ZDen s f P /\ f = RN id /\ find_node s id = Some nd /\
         ZCube s M (nlevel nd) g /\ ZDen s r (prestr (nlevels s) M (nlevel nd) P)
  | [f; g; h], [] =>
    code = zcode_ite ->
      exists P Q R, ZDen s f P /\ ZDen s g Q /\ ZDen s h R /\ ZDen s r (pite P Q R)
  | _, _ => True
  end.

Definition ZCacheOKB (s : snap) (c : C) : Prop :=
  forall code args nums r, cget c code args nums = Some r ->
    zentry_ok s code args nums r /\ zentry_x s code args nums r.

Lemma zcacheokb_ok : forall s c, ZCacheOKB s c -> ZCacheOK C cget s c.
Proof. intros s c O code args nums r E. apply (O _ _ _ _ E). Qed.

Lemma zcube_extends : forall s s' M lvl vars, extends s s' -> ZCube s M lvl vars -> ZCube s' M lvl vars.
Proof.
  intros s s' M lvl vars X Hc. induction Hc.
  - apply ZC_term; [rewrite (ext_term_val _ _ t X); assumption | rewrite (ext_nlevels _ _ X); assumption].
  - eapply ZC_dc; eauto. apply (ext_nodes _ _ X). assumption.
  - eapply ZC_pos; eauto; [apply (ext_nodes _ _ X); assumption|].
    destruct (is_empty_b_true s lo H2) as [t [-> Et]].
    unfold is_empty_b, is_term_with. rewrite (ext_term_val _ _ t X), Et. reflexivity.
Qed.

Lemma zentry_x_extends : forall s s' code args nums r, ZbddOK s -> extends s s' ->
  zentry_x s code args nums r -> zentry_x s' code args nums r.
Proof.
  intros s s' code args nums r B X. unfold zentry_x.
  destruct args as [|f [|g [|h [|x rest]]]]; auto; destruct nums as [|v [|w rest']]; auto.
  - intros H7 Hc. destruct (H7 Hc) as (P & Q & DF & DG & DR). exists P, Q.
    repeat split; eapply zden_extends; eauto.
  - intros H3 Hc Hv. rewrite (ext_nlevels _ _ X) in Hv.
    destruct (H3 Hc Hv) as (P & id & nd & M & DF & -> & En & Hcu & DR).
    exists P, id, nd, M. split; [eapply zden_extends; eauto|]. split; [reflexivity|].
    split; [apply (ext_nodes _ _ X); exact En|]. split; [apply (zcube_extends s s' _ _ _ X Hcu)|].
    rewrite (ext_nlevels _ _ X). eapply zden_extends; eauto.
  - intros H8 Hc. destruct (H8 Hc) as (P & Q & R & DF & DG & DH & DR). exists P, Q, R.
    repeat split; eapply zden_extends; eauto.
Qed.

Lemma zcacheokb_extends : forall s s' c, ZbddOK s -> extends s s' -> ZCacheOKB s c -> ZCacheOKB s' c.
Proof.
  intros s s' c B X O code args nums r E. destruct (O _ _ _ _ E) as [A A']. split.
  - eapply zentry_ok_extends; eauto.
  - eapply zentry_x_extends; eauto.
Qed.

Lemma zcacheokb_add : forall s c code args nums r, ZCacheOKB s c ->
  zentry_ok s code args nums r -> zentry_x s code args nums r ->
  ZCacheOKB s (cadd c code args nums r).
Proof.
  intros s c code args nums r O H1 H2 code' args' nums' r' E.
  destruct (Hlossy _ _ _ _ _ _ _ _ _ E) as [[-> [-> [-> ->]]]|E']; [split; assumption | apply (O _ _ _ _ E')].
Qed.

(** entries of this package's codes say nothing in the C09 invariant, and vice versa *)
Lemma zentry_ok_other : forall s code args nums r,
  (forall o, code <> zop_code o) -> (forall o, code <> zsub_code o) -> zentry_ok s code args nums r.
Proof.
  intros s code args nums r H1 H2. unfold zentry_ok.
  destruct args as [|f [|g [|h rest]]]; auto; destruct nums as [|v [|w rest']]; auto.
  - intros o Ho. destruct (H2 o Ho).
  - intros o Ho. destruct (H1 o Ho).
Qed.

Lemma zentry_x_other : forall s code args nums r,
  code <> zcode_symm -> code <> zcode_restrict -> code <> zcode_ite -> zentry_x s code args nums r.
Proof.
  intros s code args nums r H7 H3 H8. unfold zentry_x.
  destruct args as [|f [|g [|h [|x rest]]]]; auto; destruct nums as [|v [|w rest']]; auto.
  - intros Hc. contradiction.
  - intros Hc. contradiction.
  - intros Hc. contradiction.
Qed.

Definition zresult_okB (s : snap) (res : option (snap * C * ref)) (R : fpred) : Prop :=
  exists s' c' r, res = Some (s', c', r) /\
    ZbddOK s' /\ extends s s' /\ ZCacheOKB s' c' /\ ZDen s' r R.

Lemma zresultB_ext : forall s res R R', peq R R' -> zresult_okB s res R -> zresult_okB s res R'.
Proof.
  intros s res R R' Hp (s' & c' & r & E & B & X & O & D).
  exists s', c', r. repeat (split; [assumption|]). apply (zden_ext s' r R R' D Hp).
Qed.

Lemma zresultB_here : forall s c r R, ZbddOK s -> ZCacheOKB s c -> ZDen s r R ->
  zresult_okB s (Some (s, c, r)) R.
Proof.
  intros s c r R B O D. exists s, c, r. split; [reflexivity|]. split; [exact B|].
  split; [apply extends_refl|]. split; [exact O | exact D].
Qed.

(** ** Frame: union / intsec / diff only add entries under their own code *)

Definition served_by (c c' : C) (K : N -> Prop) : Prop :=
  forall k a m x, cget c' k a m = Some x -> cget c k a m = Some x \/ K k.

Lemma served_refl : forall c K, served_by c c K.
Proof. intros c K k a m x E. left. exact E. Qed.

Lemma served_trans : forall c1 c2 c3 K, served_by c1 c2 K -> served_by c2 c3 K -> served_by c1 c3 K.
Proof.
  intros c1 c2 c3 K A B k a m x E. destruct (B _ _ _ _ E) as [E'|Hk]; [apply (A _ _ _ _ E') | right; exact Hk].
Qed.

Lemma served_add : forall c k a m r (K : N -> Prop), K k -> served_by c (cadd c k a m r) K.
Proof.
  intros c k a m r K Hk k' a' m' x E.
  destruct (Hlossy _ _ _ _ _ _ _ _ _ E) as [[-> _]|E']; [right; exact Hk | left; exact E'].
Qed.

Lemma zapply_served : forall op fuel s c f g s' c' r,
  zapply gt C cget cadd fuel s c op f g = Some (s', c', r) ->
  served_by c c' (fun k => k = zop_code op).
Proof.
  intros op. induction fuel as [|n IH]; intros s c f g s' c' r E; [discriminate|].
  rewrite (zapply_S gt C cget cadd) in E.
  destruct (zterminal s op f g); [discriminate | inversion E; subst; apply served_refl |].
  destruct (if zcommutes op && gt f g then (g, f) else (f, g)) as [f' g'].
  destruct (cget c (zop_code op) [f'; g'] []); [inversion E; subst; apply served_refl|].
  destruct (zget s f') as [vf|]; [|discriminate]. destruct (zget s g') as [vg|]; [|discriminate].
  cbv zeta in E.
  match type of E with
  | match ?res with _ => _ end = _ => destruct res as [[[s1 c1] h]|] eqn:Er; [|discriminate]
  end.
  inversion E; subst s' c' r. clear E.
  apply served_trans with c1; [|apply served_add; reflexivity].
  repeat match type of Er with
  | match ?x with _ => _ end = _ => destruct x eqn:?; try discriminate
  | (let '(_, _) := ?x in _) = _ => destruct x eqn:?
  end;
  repeat match goal with
  | Hz : zapply _ _ _ _ n _ _ _ _ _ = Some _ |- _ => apply IH in Hz
  end;
  try (inversion Er; subst); eauto using served_refl, served_trans.
Qed.

(** union / intsec / diff under the full invariant *)
Theorem zapply_okB : forall op fuel s c f g P Q,
  ZbddOK s -> ZCacheOKB s c -> ZDen s f P -> ZDen s g Q ->
  nlevels s - Nat.min (rlevel s f) (rlevel s g) < fuel ->
  zresult_okB s (zapply gt C cget cadd fuel s c op f g) (pbin op P Q).
Proof.
  intros op fuel s c f g P Q B O DF DG Hf.
  destruct (zapply_ok gt C cget cadd Hlossy op fuel s c f g P Q B (zcacheokb_ok s c O) DF DG Hf)
    as (s' & c' & r & E & B' & X & O' & D).
  exists s', c', r. split; [exact E|]. split; [exact B'|]. split; [exact X|]. split; [|exact D].
  intros code args nums x Ex.
  destruct (zapply_served op fuel s c f g s' c' r E _ _ _ _ Ex) as [E0| ->].
  - apply (zcacheokb_extends s s' c B X O _ _ _ _ E0).
  - split; [apply (O' _ _ _ _ Ex)|]. apply zentry_x_other; destruct op; discriminate.
Qed.

(** ** Negation *)

Theorem zapply_not_ok : forall fuel s c f P,
  ZbddOK s -> ZChainOK s -> ZCacheOKB s c -> ZDen s f P -> nlevels s < fuel ->
  zresult_okB s (zapply_not gt C cget cadd fuel s c f) (pbin ZDiff (pall (nlevels s) 0) P).
Proof.
  intros fuel s c f P B Hc O D Hf. unfold zapply_not.
  destruct (ztaut_total s 0 Hc) as [t Et]. rewrite Et.
  pose proof (ztaut_den s 0 t B Et) as Dt. rewrite Nat.min_0_l in Dt.
  apply zapply_okB; auto. lia.
Qed.

(** ** and, or, nand, nor, imp_strict (the operators that need neither symm_diff nor ite) *)

(** the family of the result of a connective: the connective pointwise on membership *)
Definition pop (n : nat) (op : bop) (P Q : fpred) : fpred :=
  match op with
  | OAnd => pbin ZIntsec P Q
  | OOr => pbin ZUnion P Q
  | ONand => pbin ZDiff (pall n 0) (pbin ZIntsec P Q)
  | ONor => pbin ZDiff (pall n 0) (pbin ZUnion P Q)
  | OXor => pxor P Q
  | OEquiv => pbin ZDiff (pall n 0) (pxor P Q)
  | OImp => pite P Q (pall n 0)
  | OImpStrict => pbin ZDiff Q P
  end.

Lemma zresultB_then_not : forall fuel s res R,
  ZbddOK s -> ZChainOK s -> zresult_okB s res R -> nlevels s < fuel ->
  zresult_okB s
    (match res with
     | Some (s1, c1, r) => zapply_not gt C cget cadd fuel s1 c1 r
     | None => None
     end) (pbin ZDiff (pall (nlevels s) 0) R).
Proof.
  intros fuel s res R B Hc (s1 & c1 & r & E & B1 & X1 & O1 & D1) Hf. subst res.
  pose proof (ext_nlevels _ _ X1) as Hn.
  destruct (zapply_not_ok fuel s1 c1 r R B1 (zchain_extends s s1 B B1 X1 Hc) O1 D1 ltac:(lia))
    as (s2 & c2 & r2 & E2 & B2 & X2 & O2 & D2).
  exists s2, c2, r2. split; [exact E2|]. split; [exact B2|].
  split; [apply (extends_trans _ _ _ X1 X2)|]. split; [exact O2|]. rewrite <- Hn. exact D2.
Qed.

Theorem zapply_op_ok_simple : forall op fuel s c f g P Q,
  op <> OXor -> op <> OEquiv -> op <> OImp ->
  ZbddOK s -> ZChainOK s -> ZCacheOKB s c -> ZDen s f P -> ZDen s g Q -> nlevels s < fuel ->
  zresult_okB s (zapply_op gt C cget cadd fuel s c op f g) (pop (nlevels s) op P Q).
Proof.
  intros op fuel s c f g P Q N1 N2 N3 B Hc O DF DG Hf.
  destruct op; try congruence; unfold zapply_op, pop.
  - apply zapply_okB; auto; lia.
  - apply zapply_okB; auto; lia.
  - apply zresultB_then_not; auto. apply zapply_okB; auto; lia.
  - apply zresultB_then_not; auto. apply zapply_okB; auto; lia.
  - apply zapply_okB; auto; lia.
Qed.

End ZBoolCache.

(** ** Don't-care nodes on top of an edge *)

Lemma zdc_wrap_ok : forall cnt lvl s e (R : fpred) s' r,
  ZbddOK s -> lvl + cnt <= nlevels s ->
  ZDen s e (fun S => R S /\ incr_from (lvl + cnt) S) ->
  (exists S, R S /\ incr_from (lvl + cnt) S) ->
  (forall S, R S -> incr_from lvl S) ->
  (forall l T, lvl <= l < lvl + cnt -> incr_from (Datatypes.S l) T -> (R (l :: T) <-> R T)) ->
  zdc_wrap lvl cnt s e = (s', r) ->
  ZbddOK s' /\ extends s s' /\ ZDen s' r R.
Proof.
  induction cnt as [|k IH]; intros lvl s e R s' r B Hn De Hex Hi Hopt Ew.
  - simpl in Ew. inversion Ew; subst s' r. split; [exact B|]. split; [apply extends_refl|].
    apply (zden_ext s e _ _ De). intros S. rewrite Nat.add_0_r. split; [intros [A _]; exact A|].
    intros A. split; [exact A | apply Hi; exact A].
  - simpl in Ew. set (L := lvl + k) in *.
    replace (lvl + S k) with (S L) in * by (unfold L; lia).
    destruct Hex as [S0 [HS0 HI0]].
    assert (Hne : is_empty_b s e = false) by (apply (nonempty_not_empty s e _ S0 B De); auto).
    assert (Hlev : L < rlevel s e).
    { apply (zden_level s e _ (S L) B De); [lia|]. intros S [_ HS]. exact HS. }
    destruct (get_or_insert s L [E e; E e]) as [s1 e1] eqn:Eg.
    assert (Em : zmk_node s L e e = (s1, eref e1)) by (unfold zmk_node; rewrite Hne, Eg; reflexivity).
    destruct (zmk_node_ok s L e e _ _ s1 (eref e1) B ltac:(lia) De De Hlev Hlev Em) as (B1 & X1 & D1 & _).
    assert (Hq : peq (node_pred L (fun Z => R Z /\ incr_from (S L) Z) (fun Z => R Z /\ incr_from (S L) Z))
                     (fun S => R S /\ incr_from L S)).
    { intros S. unfold node_pred. split.
      - intros [[T [-> [HT HI]]]|[HS HI]].
        + split; [apply (Hopt L T); [unfold L; lia | exact HI | exact HT] | simpl; split; [lia | exact HI]].
        + split; [exact HS | apply (incr_from_weaken S (Datatypes.S L)); [lia | exact HI]].
      - intros [HS HI]. destruct S as [|x T]; [right; split; [exact HS | exact I]|].
        simpl in HI. destruct HI as [Hx HT]. destruct (Nat.eq_dec x L) as [->|Hne'].
        + left. exists T. split; [reflexivity|]. split; [|exact HT].
          apply (Hopt L T); [unfold L; lia | exact HT | exact HS].
        + right. split; [exact HS|]. simpl. split; [lia | exact HT]. }
    pose proof (zden_ext s1 _ _ _ D1 Hq) as D1'.
    destruct (IH lvl s1 (eref e1) R s' r B1) as (B' & X' & D'); auto.
    + rewrite (ext_nlevels _ _ X1). unfold L in *. lia.
    + exists S0. split; [exact HS0|]. apply (incr_from_weaken S0 (Datatypes.S L)); [unfold L; lia | exact HI0].
    + intros l T Hl HT. apply Hopt; [lia | exact HT].
    + split; [exact B'|]. split; [apply (extends_trans _ _ _ X1 X')|exact D'].
Qed.

(** ** Constants and variables *)

Theorem zconst_ok : forall s b, ZbddOK s -> ZChainOK s ->
  exists r, zconst s b = Some r /\
    ZDen s r (if b then pall (nlevels s) 0 else pempty).
Proof.
  intros s b B Hc. destruct b; simpl.
  - destruct (ztaut_total s 0 Hc) as [t Et]. exists t. split; [exact Et|].
    pose proof (ztaut_den s 0 t B Et) as D. rewrite Nat.min_0_l in D. exact D.
  - destruct (zempty_spec s B) as [t [E Et]]. exists (RT t). split; [exact E | apply (zden_empty s t B Et)].
Qed.

(** the family of the function "variable at level [L] is true": all sets that contain [L] *)
Definition pvar (n L : nat) : fpred := fun S => pall n 0 S /\ In L S.

Theorem zvar_ok : forall s var, ZbddOK s -> ZChainOK s -> var < length (s_v2l s) ->
  exists L s' r, nth_error (s_v2l s) var = Some L /\ zvar s var = Some (s', r) /\
    ZbddOK s' /\ extends s s' /\ ZDen s' r (pvar (nlevels s) L).
Proof.
  intros s var B Hc Hv. pose proof (zo_wf s B) as H.
  destruct (nth_error (s_v2l s) var) as [L|] eqn:Ev; [|apply nth_error_None in Ev; lia].
  pose proof (v2l_range s var L H Ev) as HL. set (n := nlevels s) in *.
  destruct (zempty_spec s B) as [te [Ee Ete]].
  destruct (ztaut_total s (S L) Hc) as [hi Ehi].
  pose proof (ztaut_den s (S L) hi B Ehi) as Dhi. fold n in Dhi. rewrite Nat.min_l in Dhi by lia.
  pose proof (zden_empty s te B Ete) as Dlo.
  unfold zvar. rewrite Ev, Ee, Ehi.
  assert (Hne : is_empty_b s hi = false).
  { apply (nonempty_not_empty s hi _ [] B Dhi). split; [exact I | constructor]. }
  destruct (get_or_insert s L [E hi; E (RT te)]) as [s1 e1] eqn:Eg.
  assert (Em : zmk_node s L hi (RT te) = (s1, eref e1)) by (unfold zmk_node; rewrite Hne, Eg; reflexivity).
  assert (Lh : L < rlevel s hi).
  { apply (zden_level s hi _ (S L) B Dhi); [fold n; lia|]. intros S [Hi _]. exact Hi. }
  destruct (zmk_node_ok s L hi (RT te) _ _ s1 (eref e1) B HL Dhi Dlo Lh ltac:(simpl; exact HL) Em)
    as (B1 & X1 & D1 & _).
  destruct (zdc_wrap 0 L s1 (eref e1)) as [s' r] eqn:Ew.
  assert (Hq : peq (node_pred L (pall n (S L)) pempty) (fun S => pvar n L S /\ incr_from (0 + L) S)).
  { intros S. unfold node_pred, pempty, pvar. simpl plus. split.
    - intros [[T [-> HT]]|[]]. split; [split|].
      + apply (pall_weaken n L 0); [lia|]. apply (pall_cons n L T HL). exact HT.
      + left. reflexivity.
      + simpl. split; [lia | apply HT].
    - intros [[Hp Hin] Hi]. left. destruct S as [|x T]; [destruct Hin|].
      simpl in Hi. destruct Hi as [Hx HT].
      assert (x = L).
      { destruct Hin as [->|Hin]; [reflexivity|]. pose proof (incr_from_ge T (Datatypes.S x) L HT Hin). lia. }
      subst x. exists T. split; [reflexivity|]. split; [exact HT|].
      destruct Hp as [_ Hb]. inversion Hb; assumption. }
  destruct (zdc_wrap_ok L 0 s1 (eref e1) (pvar n L) s' r B1) as (B' & X' & D'); auto.
  - rewrite (ext_nlevels _ _ X1). fold n. simpl. lia.
  - apply (zden_ext s1 _ _ _ D1 Hq).
  - exists [L]. split; [split|].
    + split; [simpl; split; [lia | exact I] | constructor; [exact HL | constructor]].
    + left. reflexivity.
    + simpl. split; [lia | exact I].
  - intros S [[Hi _] _]. exact Hi.
  - intros l T Hl HT. unfold pvar, pall. simpl. split.
    + intros [[[_ Hi] Hb] Hin]. inversion Hb; subst. split; [split; [|assumption]|].
      * apply (incr_from_weaken T (Datatypes.S l)); [lia | exact Hi].
      * destruct Hin as [->|Hin]; [lia | exact Hin].
    + intros [[Hi Hb] Hin]. split; [split|].
      * split; [lia | exact HT].
      * constructor; [fold n; lia | exact Hb].
      * right. exact Hin.
  - exists L, s', r. split; [reflexivity|]. split; [reflexivity|]. split; [exact B'|].
    split; [apply (extends_trans _ _ _ X1 X') | exact D'].
Qed.

Section ZNotVar.
Variable gt : ref -> ref -> bool.
Variable C : Type.
Variable cget : C -> N -> list ref -> list nat -> option ref.
Variable cadd : C -> N -> list ref -> list nat -> ref -> C.
Hypothesis Hlossy : zlossy C cget cadd.

Theorem znot_var_ok : forall fuel s c var, ZbddOK s -> ZChainOK s -> ZCacheOKB C cget s c ->
  var < length (s_v2l s) -> nlevels s < fuel ->
  exists L, nth_error (s_v2l s) var = Some L /\
    zresult_okB C cget s (znot_var gt C cget cadd fuel s c var)
      (pbin ZDiff (pall (nlevels s) 0) (pvar (nlevels s) L)).
Proof.
  intros fuel s c var B Hc O Hv Hf.
  destruct (zvar_ok s var B Hc Hv) as (L & s1 & e & Ev & Ez & B1 & X1 & D1).
  exists L. split; [exact Ev|]. unfold znot_var. rewrite Ez.
  pose proof (ext_nlevels _ _ X1) as Hn.
  destruct (zapply_not_ok gt C cget cadd Hlossy fuel s1 c e _ B1 (zchain_extends s s1 B B1 X1 Hc)
              (zcacheokb_extends C cget s s1 c B X1 O) D1 ltac:(lia))
    as (s2 & c2 & r2 & E2 & B2 & X2 & O2 & D2).
  exists s2, c2, r2. split; [exact E2|]. split; [exact B2|].
  split; [apply (extends_trans _ _ _ X1 X2)|]. split; [exact O2|]. rewrite Hn in D2. exact D2.
Qed.

End ZNotVar.
