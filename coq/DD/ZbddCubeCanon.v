(** * The Boolean interface of the ZBDD kind, part 7: a handle that denotes a cube has the cube shape

    The theorems of DD/ZbddRestrictProofs.v / ZbddRestrictTop.v assume that the cube handle has
    the shape [ZCube] the code walks.  Here: every reference that *denotes* the conjunction of
    literals has that shape (canonicity), so the hypothesis of the restrict theorem can be the
    semantic one of the property text - "vars is the conjunction of the literals [lits]":

    - [zcube_of_den]: [ZDen s vars (pcube n M lvl)] implies [ZCube s M lvl vars];
    - [zcube_lits_complete]: the executable reader accepts every reference of cube shape;
    - [is_zcube_den]: a reference whose Boolean function is the conjunction of the literals
      [lits] (variable, polarity) denotes [pcube n (lits_levels s lits) 0];
    - [zrestrict_edge_is_cube]: restrict w.r.t. such a handle is [Sem.restrict_s lits]. *)

From Coq Require Import List NArith PArith Bool Arith Lia FMapPositive.
From OxiVerif Require Import DD.Table DD.TableExtra DD.TableProofs DD.Sem DD.Build DD.BuildProofs
  DD.Apply DD.ApplyProofs DD.ApplyEvalProofs DD.CanonZbdd DD.FamSpec DD.FamSpecProofs DD.ZbddOps DD.ZbddOpsProofs
  DD.ZbddSubsetProofs DD.ZbddSoundProofs DD.ZbddVars DD.ZbddVarsProofs DD.ZbddBool DD.ZbddBoolProofs
  DD.ZbddXorProofs DD.ZbddIteProofs DD.ZbddEvalProofs DD.ZbddRestrictProofs DD.ZbddRestrictTop.
Import ListNotations.

(** ** Members of a cube family *)

(** the choice that is true exactly at the positive literals *)
Definition cpos (M : nat -> option bool) : nat -> nat :=
  fun l => match M l with Some true => 0 | _ => 1 end.

(** the smallest member: the set of positive literal levels *)
Lemma pcube_pos_member : forall n M lvl, pcube n M lvl (true_levels (cpos M) lvl (n - lvl)).
Proof.
  intros n M lvl. split; [apply true_levels_incr|]. split.
  - apply Forall_forall. intros x Hx. apply true_levels_range in Hx. lia.
  - intros l Hl. split.
    + intros Hm. apply true_levels_in; [lia|]. unfold cpos. rewrite Hm. reflexivity.
    + intros Hm Hin. apply true_levels_range in Hin. destruct Hin as [_ Hin]. unfold cpos in Hin.
      rewrite Hm in Hin. discriminate.
Qed.

(** a level without literal can be added to any member *)
Lemma pcube_insert_free : forall n M lvl l S, lvl <= l < n -> M l = None ->
  pcube n M lvl S -> pcube n M lvl (sinsert l S).
Proof.
  intros n M lvl l S Hl Hm [Hi [Hb Hlit]]. split; [apply incr_from_sinsert; [exact Hi | lia]|]. split.
  - apply Forall_forall. intros x Hx. apply in_sinsert in Hx. rewrite Forall_forall in Hb.
    destruct Hx as [->|Hx]; [lia | apply Hb; exact Hx].
  - intros l' Hl'. destruct (Hlit l' Hl') as [A1 A2]. split.
    + intros Hx. apply in_sinsert. right. apply A1. exact Hx.
    + intros Hx Hin. apply in_sinsert in Hin. destruct Hin as [->|Hin]; [congruence | apply (A2 Hx Hin)].
Qed.

Lemma pcube_tail : forall n M lvl L T, lvl <= L < n ->
  (forall l, lvl <= l < L -> M l = Some false) -> M L <> Some false ->
  incr_from (Datatypes.S L) T ->
  (pcube n M lvl (L :: T) <-> pcube n M (S L) T).
Proof.
  intros n M lvl L T HL Hneg HmL HT. unfold pcube. split.
  - intros [_ [Hb Hlit]]. inversion Hb; subst. split; [exact HT|]. split; [assumption|].
    intros l Hl. destruct (Hlit l ltac:(lia)) as [A1 A2]. split.
    + intros Hx. destruct (A1 Hx) as [Hy|Hy]; [lia | exact Hy].
    + intros Hx Hy. apply (A2 Hx). right. exact Hy.
  - intros [_ [Hb Hlit]]. split; [simpl; split; [lia | exact HT]|]. split; [constructor; [lia | exact Hb]|].
    intros l Hl. destruct (lt_eq_lt_dec l L) as [[Hlt|Heq]|Hgt].
    + rewrite (Hneg l ltac:(lia)). split; [discriminate|]. intros _ [Hx|Hx]; [lia|].
      pose proof (incr_from_ge T (Datatypes.S L) l HT Hx). lia.
    + subst l. split; [intros _; left; reflexivity | intros Hx; contradiction].
    + destruct (Hlit l ltac:(lia)) as [A1 A2]. split.
      * intros Hx. right. apply A1. exact Hx.
      * intros Hx [Hy|Hy]; [lia | apply (A2 Hx Hy)].
Qed.

Lemma pcube_below : forall n M lvl L S, lvl <= L < n ->
  (forall l, lvl <= l < L -> M l = Some false) -> M L <> Some true ->
  incr_from (Datatypes.S L) S ->
  (pcube n M lvl S <-> pcube n M (Datatypes.S L) S).
Proof.
  intros n M lvl L S HL Hneg HmL HS. unfold pcube. split.
  - intros [_ [Hb Hlit]]. split; [exact HS|]. split; [exact Hb|]. intros l Hl. apply Hlit. lia.
  - intros [_ [Hb Hlit]]. split; [apply (incr_from_weaken S (Datatypes.S L)); [lia | exact HS]|]. split; [exact Hb|].
    intros l Hl. destruct (Nat.lt_ge_cases L l) as [Hgt|Hle]; [apply Hlit; lia|].
    assert (Hnot : ~ In l S) by (apply (incr_from_notin S (Datatypes.S L) l HS); lia).
    split; [|intros _; exact Hnot].
    destruct (Nat.eq_dec l L) as [->|Hne]; [intros Hx; contradiction|].
    rewrite (Hneg l ltac:(lia)). discriminate.
Qed.

(** ** Denoting a cube implies the cube shape *)

Theorem zcube_of_den : forall s, ZbddOK s -> forall k lvl vars M,
  nlevels s - lvl <= k -> lvl <= nlevels s ->
  ZDen s vars (pcube (nlevels s) M lvl) -> ZCube s M lvl vars.
Proof.
  intros s B. pose proof (zo_wf s B) as H. set (n := nlevels s).
  induction k as [|k IH]; intros lvl vars M Hk Hl D.
  - (* no levels left: the handle is Base *)
    assert (lvl = n) by (fold n in Hk; lia). subst lvl.
    pose proof (pcube_pos_member n M n) as Hmem.
    destruct vars as [t|id].
    + destruct (zterm_cases s t B (zden_ok _ _ _ D)) as [Et|Et].
      * destruct (proj1 (zden_unique s _ _ _ D (zden_empty s t B Et) _) Hmem).
      * apply ZC_term; [exact Et|]. intros l Hl'. fold n in Hl'. lia.
    + exfalso. destruct (zden_ok _ _ _ D) as [nd En].
      pose proof (zden_level s (RN id) _ n B D (le_n _) (fun S HS => proj1 HS)) as Hlev.
      rewrite (rlevel_node s id nd En) in Hlev. pose proof (wf_level s H id nd En). fold n in H0. lia.
  - pose proof (pcube_pos_member n M lvl) as Hmem.
    destruct vars as [t|id].
    + (* Base: every remaining level carries a negative literal *)
      destruct (zterm_cases s t B (zden_ok _ _ _ D)) as [Et|Et].
      * destruct (proj1 (zden_unique s _ _ _ D (zden_empty s t B Et) _) Hmem).
      * pose proof (zden_unique s _ _ _ D (zden_base s t B Et)) as Hpb.
        assert (Hnil : true_levels (cpos M) lvl (n - lvl) = []) by (apply Hpb; exact Hmem).
        apply ZC_term; [exact Et|]. intros l Hl'. fold n in Hl'.
        destruct (M l) as [[|]|] eqn:Hm; [| reflexivity |].
        -- exfalso. apply (true_levels_nil_inv _ _ _ l Hnil ltac:(lia)). unfold cpos. rewrite Hm. reflexivity.
        -- exfalso. pose proof (pcube_insert_free n M lvl l _ Hl' Hm Hmem) as Hins.
           rewrite Hnil in Hins. apply Hpb in Hins. simpl in Hins. discriminate.
    + destruct (zden_ok _ _ _ D) as [nd En].
      destruct (znode_facts s id nd _ B D En)
        as (_ & HL & Rr & hi0 & lo0 & PA & PB & Ec0 & DA & DB & _ & _ & HP & SA & SB).
      fold n in HL. set (L := nlevel nd) in *.
      destruct (zchildren_E s id nd B En) as [hi [lo Ec]]. rewrite Ec in Ec0. inversion Ec0; subst hi0 lo0.
      simpl in DA, DB.
      assert (Hle : lvl <= L).
      { rewrite <- Rr. apply (zden_level s (RN id) _ lvl B D Hl). intros S HS. apply HS. }
      (* every member of the node starts at or below L *)
      assert (HinL : forall S, pcube n M lvl S -> incr_from L S).
      { intros S HS. apply HP in HS. destruct HS as [[T [-> HT]]|HB].
        - simpl. split; [lia | apply SA; exact HT].
        - apply (incr_from_weaken S (Datatypes.S L)); [lia | apply SB; exact HB]. }
      (* the levels above the node are negative literals *)
      assert (Hneg : forall l, lvl <= l < L -> M l = Some false).
      { intros l Hl'. destruct (M l) as [[|]|] eqn:Hm; [| reflexivity |]; exfalso.
        - assert (Hin : In l (true_levels (cpos M) lvl (n - lvl)))
            by (apply true_levels_in; [lia | unfold cpos; rewrite Hm; reflexivity]).
          pose proof (incr_from_ge _ L l (HinL _ Hmem) Hin). lia.
        - pose proof (pcube_insert_free n M lvl l _ ltac:(lia) Hm Hmem) as Hins.
          assert (Hin : In l (sinsert l (true_levels (cpos M) lvl (n - lvl)))) by (apply in_sinsert; left; reflexivity).
          pose proof (incr_from_ge _ L l (HinL _ Hins) Hin). lia. }
      (* the node has a member that starts with L *)
      destruct (fam_nonempty s B _ (RN id) (ex_intro _ nd En) (le_n _)) as [F [S0 [EF [HS0 Hhead]]]];
        [intros t Hx; discriminate|].
      destruct (Hhead id nd eq_refl En) as [T0 ET0]. fold L in ET0.
      assert (HPS0 : pcube n M lvl (L :: T0)).
      { destruct D as [_ [F' [EF' HF']]]. rewrite EF in EF'. inversion EF'; subst F'. apply HF'. rewrite <- ET0. exact HS0. }
      assert (HmL : M L <> Some false).
      { intros Hm. destruct HPS0 as [_ [_ Hlit]]. apply (proj2 (Hlit L ltac:(lia)) Hm). left. reflexivity. }
      (* the hi child denotes the cube below L *)
      assert (HA : peq PA (pcube n M (S L))).
      { intros T. split.
        - intros HT. apply (pcube_tail n M lvl L T ltac:(lia) Hneg HmL (SA T HT)). apply HP. left. eauto.
        - intros HT. assert (HiT : incr_from (Datatypes.S L) T) by apply HT.
          apply (pcube_tail n M lvl L T ltac:(lia) Hneg HmL HiT) in HT. apply HP in HT.
          destruct HT as [[T' [E' HT']]|HB]; [inversion E'; subst; exact HT' | destruct (sup_nohead L PB T SB HB)]. }
      pose proof (zden_ext s hi _ _ DA HA) as DA'.
      assert (Hc' : ZCube s M (S L) hi) by (apply (IH (S L) hi M); [fold n; lia | fold n; lia | exact DA']).
      destruct (M L) as [[|]|] eqn:Hm; [| contradiction |].
      * (* positive literal: the lo child is Empty *)
        assert (HB : peq PB pempty).
        { intros S. unfold pempty. split; [|intros []]. intros HS.
          assert (Hp : pcube n M lvl S) by (apply HP; right; exact HS).
          destruct Hp as [_ [_ Hlit]]. pose proof (proj1 (Hlit L ltac:(lia)) Hm) as Hin.
          apply (incr_from_notin S (Datatypes.S L) L (SB S HS)); [lia | exact Hin]. }
        destruct (zempty_spec s B) as [te [_ Ete]].
        assert (Elo : lo = RT te).
        { apply (zden_canon s lo (RT te) PB pempty B DB (zden_empty s te B Ete) HB). }
        subst lo.
        apply (ZC_pos s M lvl id nd hi (RT te) En Ec); auto.
        -- intros Heq. subst hi.
           assert (Hx : PA T0).
           { assert (Hn : node_pred L PA PB (L :: T0)) by (apply HP; exact HPS0).
             destruct Hn as [[T' [E' HT']]|HB']; [inversion E'; subst; exact HT' | destruct (sup_nohead L PB T0 SB HB')]. }
           destruct (proj1 (zden_unique s _ _ _ DA (zden_empty s te B Ete) T0) Hx).
        -- unfold is_empty_b, is_term_with. rewrite Ete. reflexivity.
      * (* no literal: both children denote the cube below L *)
        assert (HB : peq PB (pcube n M (S L))).
        { intros S. split.
          - intros HS. apply (pcube_below n M lvl L S ltac:(lia) Hneg ltac:(rewrite Hm; discriminate) (SB S HS)).
            apply HP. right. exact HS.
          - intros HS. assert (HiS : incr_from (Datatypes.S L) S) by apply HS.
            apply (pcube_below n M lvl L S ltac:(lia) Hneg ltac:(rewrite Hm; discriminate) HiS) in HS.
            apply HP in HS. destruct HS as [[T' [-> _]]|HB']; [simpl in HiS; lia | exact HB']. }
        assert (Ehl : hi = lo) by (apply (zden_canon s hi lo PA PB B DA DB); intros S; rewrite (HA S), (HB S); reflexivity).
        subst lo. apply (ZC_dc s M lvl id nd hi En Ec Hle Hneg Hm Hc').
Qed.

(** ** The executable reader accepts every reference of cube shape *)

Theorem zcube_lits_complete : forall s, ZbddOK s -> forall M lvl vars, ZCube s M lvl vars ->
  forall fuel, lvl <= nlevels s -> nlevels s - lvl < fuel ->
  exists lits, zcube_lits fuel s vars lvl = Some lits.
Proof.
  intros s B. pose proof (zo_wf s B) as H. intros M lvl vars Hc.
  induction Hc as [lvl t Et Hneg | lvl id nd hi En Ec Hle Hneg Hm Hc' IH | lvl id nd hi lo En Ec Hne He Hle Hneg Hm Hc' IH];
    intros fuel Hl Hf; (destruct fuel as [|f]; [lia|]); simpl.
  - rewrite Et. simpl. eauto.
  - pose proof (wf_level s H id nd En) as HL. rewrite En.
    destruct (Nat.ltb_spec (nlevel nd) lvl) as [Hlt|_]; [lia|]. rewrite Ec. simpl eref.
    destruct (IH f ltac:(lia) ltac:(lia)) as [rest Er]. rewrite Er.
    rewrite (proj2 (ref_eqb_eq hi hi) eq_refl). eauto.
  - pose proof (wf_level s H id nd En) as HL. rewrite En.
    destruct (Nat.ltb_spec (nlevel nd) lvl) as [Hlt|_]; [lia|]. rewrite Ec. simpl eref.
    destruct (IH f ltac:(lia) ltac:(lia)) as [rest Er]. rewrite Er.
    destruct (ref_eqb hi lo) eqn:Ehl; [apply ref_eqb_eq in Ehl; contradiction|]. rewrite He. eauto.
Qed.

(** ** From the Boolean function of the handle to its family *)

(** the literal map on levels of a literal list on variables *)
Definition lits_levels (s : snap) (lits : list (nat * bool)) : nat -> option bool :=
  fun l => match nth_error (s_l2v s) l with Some v => assoc_nat lits v | None => None end.

Lemma assoc_nat_some_in : forall (lits : list (nat * bool)) v b, assoc_nat lits v = Some b -> In (v, b) lits.
Proof.
  induction lits as [|[k bk] r IH]; intros v b E; [discriminate|]. simpl in E.
  destruct (Nat.eqb_spec k v) as [->|_]; [inversion E; left; reflexivity | right; auto].
Qed.

Lemma assoc_nat_in : forall (lits : list (nat * bool)) v b, NoDup (map fst lits) -> In (v, b) lits ->
  assoc_nat lits v = Some b.
Proof.
  induction lits as [|[k bk] r IH]; intros v b Hnd Hin; [destruct Hin|].
  simpl in Hnd. inversion Hnd as [|? ? Hk Hr]; subst. simpl.
  destruct Hin as [Heq|Hin].
  - inversion Heq; subst. rewrite Nat.eqb_refl. reflexivity.
  - destruct (Nat.eqb_spec k v) as [->|_]; [|apply IH; assumption].
    exfalso. apply Hk. apply in_map_iff. exists (v, b). auto.
Qed.

(** the choice of a set of levels, and the set of true levels of that choice *)
Definition cset (S : lset) : nat -> nat := fun l => if smem l S then 0 else 1.

Lemma true_levels_cset : forall cnt from S, incr_from from S -> Forall (fun x => x < from + cnt) S ->
  true_levels (cset S) from cnt = S.
Proof.
  induction cnt as [|k IH]; intros from S Hi Hb.
  - destruct S as [|x T]; [reflexivity|]. simpl in Hi. destruct Hi as [Hx _]. inversion Hb; subst. lia.
  - simpl. destruct S as [|x T].
    + unfold cset at 1. simpl. apply (IH (Datatypes.S from) []); [exact I | constructor].
    + simpl in Hi. destruct Hi as [Hx HT]. inversion Hb as [|? ? Hxb HTb]; subst.
      destruct (Nat.eq_dec x from) as [->|Hne].
      * unfold cset at 1. rewrite smem_cons, Nat.eqb_refl. simpl. f_equal.
        rewrite (true_levels_ext (cset (from :: T)) (cset T)).
        -- apply IH; [exact HT|]. eapply Forall_impl; [|exact HTb]. simpl. intros; lia.
        -- intros l Hl. unfold cset. rewrite smem_cons. destruct (Nat.eqb_spec l from); [lia | reflexivity].
      * assert (Hn : ~ In from (x :: T)).
        { intros [Hy|Hy]; [lia|]. pose proof (incr_from_ge T (Datatypes.S x) from HT Hy). lia. }
        unfold cset at 1. apply smem_false in Hn. rewrite Hn. simpl.
        apply IH; [simpl; split; [lia | exact HT]|]. constructor; [lia|].
        eapply Forall_impl; [|exact HTb]. simpl. intros; lia.
Qed.

(** [vars] is the conjunction of the literals [lits] (variable, polarity) - the reading of C04 *)
Definition is_zcube (s : snap) (vars : ref) (lits : list (nat * bool)) : Prop :=
  forall a, zbfun_of s vars a = forallb (fun p : nat * bool => Bool.eqb (a (fst p)) (snd p)) lits.

Theorem is_zcube_den : forall s vars lits, ZbddOK s -> ref_ok s vars ->
  NoDup (map fst lits) -> (forall v b, In (v, b) lits -> v < nlevels s) ->
  is_zcube s vars lits -> ZDen s vars (pcube (nlevels s) (lits_levels s lits) 0).
Proof.
  intros s vars lits B O Hnd Hrange Hcube. pose proof (zo_wf s B) as H. pose proof (zo_kind s B) as Hk.
  set (n := nlevels s). set (M := lits_levels s lits).
  destruct (zden_exists s vars B O) as [P D]. apply (zden_ext s vars P _ D).
  assert (Hlen : length (s_v2l s) = n) by (apply (wf_perm_len s H)).
  (* for a set of levels: membership in P is "all literals hold" *)
  assert (Hset : forall S, incr_from 0 S -> Forall (fun x => x < n) S ->
            (P S <-> forall v b, In (v, b) lits ->
                       match nth_error (s_v2l s) v with Some l => smem l S = b | None => False end)).
  { intros S Hi Hb.
    set (a := fun v => match nth_error (s_v2l s) v with Some l => smem l S | None => false end).
    assert (Hc : choice_ok s (cset S)).
    { intros l. rewrite Hk. unfold cset. simpl. destruct (smem l S); lia. }
    destruct (zden_view s vars P (cset S) B D Hc) as [b [Eb Hbv]]. fold n in Hbv.
    rewrite (true_levels_cset n 0 S Hi Hb) in Hbv.
    assert (Ea : zbfun_of s vars a = b).
    { apply zbfun_of_view. rewrite <- Eb. unfold zview_of. apply (semz_ext_lt s H). intros l [_ Hl].
      unfold choice_of, cset, a. fold n in Hl.
      destruct (wf_perm_l2v s H l Hl) as [v [E1 E2]]. rewrite E1, E2. reflexivity. }
    rewrite <- Hbv, <- Ea, (Hcube a), forallb_forall. split.
    - intros Hall v b0 Hin. specialize (Hall _ Hin). simpl in Hall. apply Bool.eqb_prop in Hall.
      unfold a in Hall. destruct (nth_error (s_v2l s) v) as [l|] eqn:Ev; [exact Hall|].
      apply nth_error_None in Ev. specialize (Hrange v b0 Hin). fold n in Hrange. lia.
    - intros Hall [v b0] Hin. simpl. specialize (Hall v b0 Hin). unfold a.
      destruct (nth_error (s_v2l s) v) as [l|]; [rewrite Hall; apply Bool.eqb_reflx | destruct Hall]. }
  intros S. split.
  - intros HP. destruct (zden_support s vars P S B D HP) as [I1 I2]. fold n in I2.
    assert (Hi : incr_from 0 S) by (apply (incr_from_weaken S (rlevel s vars)); [lia | exact I1]).
    split; [exact Hi|]. split; [exact I2|]. intros l Hl.
    destruct (wf_perm_l2v s H l ltac:(unfold n, nlevels in Hl; lia)) as [v [E1 E2]].
    unfold M, lits_levels. rewrite E1.
    pose proof (proj1 (Hset S Hi I2) HP) as Hall. split.
    + intros Hm. apply assoc_nat_some_in in Hm. specialize (Hall _ _ Hm). rewrite E2 in Hall.
      apply smem_spec. exact Hall.
    + intros Hm. apply assoc_nat_some_in in Hm. specialize (Hall _ _ Hm). rewrite E2 in Hall.
      apply smem_false. exact Hall.
  - intros [Hi [Hb Hlit]]. apply (Hset S Hi Hb). intros v b0 Hin.
    pose proof (Hrange v b0 Hin) as Hv. fold n in Hv.
    destruct (wf_perm_v2l s H v ltac:(rewrite Hlen; exact Hv)) as [l [E1 E2]]. rewrite E1.
    assert (Hl : l < n) by (unfold n, nlevels; apply nth_error_Some; congruence).
    destruct (Hlit l ltac:(lia)) as [A1 A2]. unfold M, lits_levels in A1, A2. rewrite E2 in A1, A2.
    rewrite (assoc_nat_in lits v b0 Hnd Hin) in A1, A2. destruct b0.
    + apply smem_spec. apply A1. reflexivity.
    + apply smem_false. apply A2. reflexivity.
Qed.

(** overriding the literal variables in an assignment = overriding their levels in the choice *)
Lemma choice_of_fold_upd_v : forall s, WF s -> forall (lits : list (nat * bool)) a l,
  NoDup (map fst lits) ->
  choice_of s (fold_left (fun a0 (p : nat * bool) => Sem.upd a0 (fst p) (snd p)) lits a) l =
  covr (lits_levels s lits) (choice_of s a) l.
Proof.
  intros s H. induction lits as [|[v b] r IH]; intros a l Hnd.
  - simpl. unfold covr, lits_levels. destruct (nth_error (s_l2v s) l); reflexivity.
  - simpl in Hnd. inversion Hnd as [|? ? Hv Hr]; subst. simpl fold_left. rewrite (IH _ l Hr).
    unfold covr, lits_levels, choice_of. destruct (nth_error (s_l2v s) l) as [w|] eqn:El; [|reflexivity].
    simpl assoc_nat. unfold Sem.upd. destruct (Nat.eqb_spec v w) as [->|Hne].
    + rewrite (assoc_nat_notin r w Hv). rewrite Nat.eqb_refl. destruct b; reflexivity.
    + destruct (assoc_nat r w) as [[|]|]; try reflexivity.
      destruct (Nat.eqb_spec w v); [congruence | reflexivity].
Qed.

Section ZRestrictIsCube.
Variable C : Type.
Variable cget : C -> N -> list ref -> list nat -> option ref.
Variable cadd : C -> N -> list ref -> list nat -> ref -> C.
Hypothesis Hlossy : zlossy C cget cadd.

(** C04 for ZBDDs with the semantic hypothesis of the property text: [vars] is (any handle
    that denotes) the conjunction of the literals [lits]; then [restrict] is the cofactor w.r.t.
    that partial assignment, and the run-time check [zcube_lits] accepts the handle *)
Theorem zrestrict_edge_is_cube : forall s c f vars lits,
  ZbddOK s -> ZChainOK s -> ZCacheOKB C cget s c -> ref_ok s f -> ref_ok s vars ->
  NoDup (map fst lits) -> (forall v b, In (v, b) lits -> v < nlevels s) ->
  is_zcube s vars lits ->
  exists s' c' r, zrestrict_edge C cget cadd (S (nlevels s)) s c f vars = Some (s', c', r) /\
    zstate_ok C cget s s' c' r /\
    (forall a, zbfun_of s' r a = restrict_s lits (zbfun_of s f) a) /\
    exists lits', zcube_lits (S (nlevels s)) s vars 0 = Some lits'.
Proof.
  intros s c f vars lits B Hch O Of Ov Hnd Hrange Hcube.
  pose proof (zo_wf s B) as H. pose proof (zo_kind s B) as Hk.
  pose proof (is_zcube_den s vars lits B Ov Hnd Hrange Hcube) as D.
  pose proof (zcube_of_den s B _ 0 vars _ (le_n _) ltac:(lia) D) as Hc.
  destruct (zrestrict_edge_cube C cget cadd Hlossy _ s c f vars _ B Hch O Of Hc (le_n _))
    as (s' & c' & r & E & St & Hv).
  exists s', c', r. split; [exact E|]. split; [exact St|]. split.
  - intros a. destruct St as (B' & _ & X & _ & _).
    rewrite restrict_s_apply. unfold zbfun_of at 1 2.
    rewrite (choice_of_ext s s' a X), (Hv _ (choice_of_ok s a Hk)). unfold zview_of.
    apply (f_equal (fun o : option bool => match o with Some true => true | _ => false end)).
    symmetry. apply (semz_ext_lt s H). intros l _. apply (choice_of_fold_upd_v s H lits a l Hnd).
  - apply (zcube_lits_complete s B _ 0 vars Hc); lia.
Qed.

End ZRestrictIsCube.
