(** * The Boolean interface of the ZBDD kind, part 4: the Boolean view, eval, cofactors

    - [zbfun_of]: the Boolean function (DD/Sem.v [bfun]) a ZBDD reference denotes
      over all variables of the manager under the current order ([semz] from
      level 0 = C09_bool_view of its family);
    - [zden_view]: the view of an edge that denotes the family [P] is "the set of
      true levels is a member of [P]";
    - the operators in Boolean terms, per choice ([z*_sound]) and per
      assignment ([z*_bfun]): not, the eight connectives, ite, constants,
      (negated) variables; [z*_unique]: the result is the only edge with that
      view, whatever cache / operand order / history produced it;
    - [zeval_walk_sem], [zeval_edge_assignment]: the bit-set + [ones] walk of
      [eval_edge] computes the view, never underflows;
    - [zcofactors_sound]: the cofactors are the children = subset1 / subset0 of
      the top variable (family statement, and literally what the model of
      [subset] returns). *)

From Coq Require Import List NArith PArith Bool Arith Lia FMapPositive.
From OxiVerif Require Import DD.Table DD.TableExtra DD.TableProofs DD.Sem DD.Build DD.BuildProofs
  DD.Apply DD.ApplyProofs DD.ApplyEvalProofs DD.CanonZbdd DD.FamSpec DD.FamSpecProofs DD.ZbddOps DD.ZbddOpsProofs
  DD.ZbddSubsetProofs DD.ZbddSoundProofs DD.ZbddVars DD.ZbddVarsProofs DD.ZbddBool DD.ZbddBoolProofs
  DD.ZbddXorProofs DD.ZbddIteProofs.
Import ListNotations.

(** ** The Boolean view *)

Definition zview_of (s : snap) (r : ref) (c : nat -> nat) : option bool := semz s (S (nlevels s)) 0 r c.

Definition zbfun_of (s : snap) (r : ref) : bfun :=
  fun a => match zview_of s r (choice_of s a) with Some true => true | _ => false end.

Lemma bool_iff_eq : forall b1 b2 (X : Prop), (b1 = true <-> X) -> (b2 = true <-> X) -> b1 = b2.
Proof. intros [] [] X H1 H2; try reflexivity; [symmetry; apply H2, H1 | apply H1, H2]; reflexivity. Qed.

Lemma choice_of_ok : forall s a, s_kind s = KZbdd -> choice_ok s (choice_of s a).
Proof. intros s a Hk l. rewrite Hk. apply (choice_of_bchoice s a l). Qed.

(** the view of an edge denoting [P]: is the set of true levels a member? *)
Lemma zden_view : forall s r P c, ZbddOK s -> ZDen s r P -> choice_ok s c ->
  exists b, zview_of s r c = Some b /\ (b = true <-> P (true_levels c 0 (nlevels s))).
Proof.
  intros s r P c B [O [F [EF HF]]] Hc. unfold zview_of.
  rewrite (bool_view s (zo_wf s B) (zo_kind s B) r c F O Hc EF).
  exists (fam_bool (nlevels s) F c). split; [reflexivity|]. unfold fam_bool.
  rewrite fmem_spec. apply HF.
Qed.

Lemma zview_total : forall s r c, ZbddOK s -> ref_ok s r -> choice_ok s c ->
  exists b, zview_of s r c = Some b.
Proof.
  intros s r c B O Hc. destruct (zden_exists s r B O) as [P D].
  destruct (zden_view s r P c B D Hc) as [b [E _]]. eauto.
Qed.

(** an edge of the old table has the same view in every extension *)
Lemma zview_extends : forall s s' r c, ZbddOK s -> ZbddOK s' -> extends s s' -> ref_ok s r ->
  choice_ok s c -> zview_of s' r c = zview_of s r c.
Proof.
  intros s s' r c B B' X O Hc. destruct (zden_exists s r B O) as [P D].
  assert (Hc' : choice_ok s' c) by (apply (ext_choice_ok _ _ c X); exact Hc).
  destruct (zden_view s r P c B D Hc) as [b [E Hb]].
  destruct (zden_view s' r P c B' (zden_extends s s' r P B X D) Hc') as [b' [E' Hb']].
  rewrite E, E'. f_equal. rewrite (ext_nlevels _ _ X) in Hb'.
  apply (bool_iff_eq b' b _ Hb' Hb).
Qed.

(** canonicity in terms of views *)
Lemma zview_canon : forall s r1 r2, ZbddOK s -> ref_ok s r1 -> ref_ok s r2 ->
  (forall c, choice_ok s c -> zview_of s r1 c = zview_of s r2 c) -> r1 = r2.
Proof.
  intros s r1 r2 B O1 O2 Hv.
  apply (canon_zbdd s (zo_wf s B) (zo_kind s B) (zbddok_terms_kind s B) r1 r2 O1 O2). exact Hv.
Qed.

(** the true levels of a choice form a subset of all levels *)
Lemma true_levels_pall : forall n c, pall n 0 (true_levels c 0 n).
Proof. intros n c. pose proof (pall_true_levels n c 0) as Hp. rewrite Nat.sub_0_r in Hp. exact Hp. Qed.

(** membership of the true-level set, for the result family of each operator *)
Lemma pop_view : forall n op (P Q : fpred) T bf bg br,
  pall n 0 T -> (bf = true <-> P T) -> (bg = true <-> Q T) ->
  (br = true <-> pop n op P Q T) -> br = eval_bop op bf bg.
Proof.
  intros n op P Q T bf bg br HT Hf Hg Hr.
  destruct op; unfold pop, pbin, pxor, pite in Hr; simpl;
    destruct bf, bg, br; simpl; try reflexivity; exfalso;
    repeat match goal with
    | Hx : true = true <-> _ |- _ => pose proof (proj1 Hx eq_refl); clear Hx
    | Hx : false = true <-> _ |- _ => pose proof (fun z => Bool.diff_false_true (proj2 Hx z)); clear Hx
    end; tauto.
Qed.

Lemma pnot_view : forall n (P : fpred) T bf br,
  pall n 0 T -> (bf = true <-> P T) -> (br = true <-> pbin ZDiff (pall n 0) P T) -> br = negb bf.
Proof.
  intros n P T bf br HT Hf Hr. simpl in Hr.
  destruct bf, br; simpl; try reflexivity; exfalso;
    repeat match goal with
    | Hx : true = true <-> _ |- _ => pose proof (proj1 Hx eq_refl); clear Hx
    | Hx : false = true <-> _ |- _ => pose proof (fun z => Bool.diff_false_true (proj2 Hx z)); clear Hx
    end; tauto.
Qed.

Lemma pite_view : forall (P Q R : fpred) T bf bg bh br,
  (bf = true <-> P T) -> (bg = true <-> Q T) -> (bh = true <-> R T) ->
  (br = true <-> pite P Q R T) -> br = (if bf then bg else bh).
Proof.
  intros P Q R T bf bg bh br Hf Hg Hh Hr. unfold pite in Hr.
  destruct bf, bg, bh, br; simpl; try reflexivity; exfalso;
    repeat match goal with
    | Hx : true = true <-> _ |- _ => pose proof (proj1 Hx eq_refl); clear Hx
    | Hx : false = true <-> _ |- _ => pose proof (fun z => Bool.diff_false_true (proj2 Hx z)); clear Hx
    end; tauto.
Qed.

(** ** The operators in Boolean terms *)

Section ZBoolTop.
Variable gt : ref -> ref -> bool.
Variable C : Type.
Variable cget : C -> N -> list ref -> list nat -> option ref.
Variable cadd : C -> N -> list ref -> list nat -> ref -> C.
Hypothesis Hlossy : zlossy C cget cadd.

Notation ZCacheOKB := (ZCacheOKB C cget).

(** what every operation guarantees about the new state *)
Definition zstate_ok (s s' : snap) (c' : C) (r : ref) : Prop :=
  ZbddOK s' /\ ZChainOK s' /\ extends s s' /\ ZCacheOKB s' c' /\ ref_ok s' r.

Lemma zstate_of_result : forall s res R, ZbddOK s -> ZChainOK s ->
  zresult_okB C cget s res R ->
  exists s' c' r, res = Some (s', c', r) /\ zstate_ok s s' c' r /\ ZDen s' r R.
Proof.
  intros s res R B Hc (s' & c' & r & E & B' & X & O' & D).
  exists s', c', r. split; [exact E|]. split; [|exact D].
  split; [exact B'|]. split; [apply (zchain_extends s s' B B' X Hc)|]. split; [exact X|].
  split; [exact O' | apply (zden_ok _ _ _ D)].
Qed.

(** not *)
Theorem zapply_not_sound : forall fuel s c f,
  ZbddOK s -> ZChainOK s -> ZCacheOKB s c -> ref_ok s f -> S (nlevels s) <= fuel ->
  exists s' c' r, zapply_not gt C cget cadd fuel s c f = Some (s', c', r) /\ zstate_ok s s' c' r /\
    forall c0, choice_ok s c0 ->
      exists bf, zview_of s f c0 = Some bf /\ zview_of s' r c0 = Some (negb bf).
Proof.
  intros fuel s c f B Hc O Of Hf. destruct (zden_exists s f B Of) as [P DF].
  destruct (zstate_of_result s _ _ B Hc (zapply_not_ok gt C cget cadd Hlossy fuel s c f P B Hc O DF ltac:(lia)))
    as (s' & c' & r & E & St & D).
  exists s', c', r. split; [exact E|]. split; [exact St|].
  destruct St as (B' & _ & X & _ & _). intros c0 Hc0.
  assert (Hc0' : choice_ok s' c0) by (apply (ext_choice_ok _ _ c0 X); exact Hc0).
  destruct (zden_view s f P c0 B DF Hc0) as [bf [Ef Hbf]].
  destruct (zden_view s' r _ c0 B' D Hc0') as [br [Er Hbr]].
  rewrite (ext_nlevels _ _ X) in Hbr.
  exists bf. split; [exact Ef|]. rewrite Er. f_equal.
  apply (pnot_view (nlevels s) P _ bf br (true_levels_pall _ c0) Hbf Hbr).
Qed.

(** and, or, nand, nor, xor, equiv, imp, imp_strict *)
Theorem zapply_op_sound : forall op fuel s c f g,
  ZbddOK s -> ZChainOK s -> ZCacheOKB s c -> ref_ok s f -> ref_ok s g -> S (nlevels s) <= fuel ->
  exists s' c' r, zapply_op gt C cget cadd fuel s c op f g = Some (s', c', r) /\ zstate_ok s s' c' r /\
    forall c0, choice_ok s c0 ->
      exists bf bg, zview_of s f c0 = Some bf /\ zview_of s g c0 = Some bg /\
        zview_of s' r c0 = Some (eval_bop op bf bg).
Proof.
  intros op fuel s c f g B Hc O Of Og Hf.
  destruct (zden_exists s f B Of) as [P DF]. destruct (zden_exists s g B Og) as [Q DG].
  destruct (zstate_of_result s _ _ B Hc
              (zapply_op_ok gt C cget cadd Hlossy op fuel s c f g P Q B Hc O DF DG ltac:(lia)))
    as (s' & c' & r & E & St & D).
  exists s', c', r. split; [exact E|]. split; [exact St|].
  destruct St as (B' & _ & X & _ & _). intros c0 Hc0.
  assert (Hc0' : choice_ok s' c0) by (apply (ext_choice_ok _ _ c0 X); exact Hc0).
  destruct (zden_view s f P c0 B DF Hc0) as [bf [Ef Hbf]].
  destruct (zden_view s g Q c0 B DG Hc0) as [bg [Eg Hbg]].
  destruct (zden_view s' r _ c0 B' D Hc0') as [br [Er Hbr]].
  rewrite (ext_nlevels _ _ X) in Hbr.
  exists bf, bg. split; [exact Ef|]. split; [exact Eg|]. rewrite Er. f_equal.
  apply (pop_view (nlevels s) op P Q _ bf bg br (true_levels_pall _ c0) Hbf Hbg Hbr).
Qed.

(** ite *)
Theorem zapply_ite_sound : forall fuel s c f g h,
  ZbddOK s -> ZChainOK s -> ZCacheOKB s c -> ref_ok s f -> ref_ok s g -> ref_ok s h ->
  S (nlevels s) <= fuel ->
  exists s' c' r, zapply_ite gt C cget cadd fuel s c f g h = Some (s', c', r) /\ zstate_ok s s' c' r /\
    forall c0, choice_ok s c0 ->
      exists bf bg bh, zview_of s f c0 = Some bf /\ zview_of s g c0 = Some bg /\ zview_of s h c0 = Some bh /\
        zview_of s' r c0 = Some (if bf then bg else bh).
Proof.
  intros fuel s c f g h B Hc O Of Og Oh Hf.
  destruct (zden_exists s f B Of) as [P DF]. destruct (zden_exists s g B Og) as [Q DG].
  destruct (zden_exists s h B Oh) as [R DH].
  destruct (zstate_of_result s _ _ B Hc
              (zapply_ite_ok gt C cget cadd Hlossy fuel s c f g h P Q R B Hc O DF DG DH ltac:(lia)))
    as (s' & c' & r & E & St & D).
  exists s', c', r. split; [exact E|]. split; [exact St|].
  destruct St as (B' & _ & X & _ & _). intros c0 Hc0.
  assert (Hc0' : choice_ok s' c0) by (apply (ext_choice_ok _ _ c0 X); exact Hc0).
  destruct (zden_view s f P c0 B DF Hc0) as [bf [Ef Hbf]].
  destruct (zden_view s g Q c0 B DG Hc0) as [bg [Eg Hbg]].
  destruct (zden_view s h R c0 B DH Hc0) as [bh [Eh Hbh]].
  destruct (zden_view s' r _ c0 B' D Hc0') as [br [Er Hbr]].
  rewrite (ext_nlevels _ _ X) in Hbr.
  exists bf, bg, bh. split; [exact Ef|]. split; [exact Eg|]. split; [exact Eh|]. rewrite Er. f_equal.
  apply (pite_view P Q R _ bf bg bh br Hbf Hbg Hbh Hbr).
Qed.

(** negated variable *)
Theorem znot_var_sound : forall fuel s c var,
  ZbddOK s -> ZChainOK s -> ZCacheOKB s c -> var < length (s_v2l s) -> S (nlevels s) <= fuel ->
  exists L s' c' r, nth_error (s_v2l s) var = Some L /\
    znot_var gt C cget cadd fuel s c var = Some (s', c', r) /\ zstate_ok s s' c' r /\
    forall c0, choice_ok s c0 -> zview_of s' r c0 = Some (negb (Nat.eqb (c0 L) 0)).
Proof.
  intros fuel s c var B Hc O Hv Hf.
  destruct (znot_var_ok gt C cget cadd Hlossy fuel s c var B Hc O Hv ltac:(lia)) as [L [Ev Hr]].
  destruct (zstate_of_result s _ _ B Hc Hr) as (s' & c' & r & E & St & D).
  exists L, s', c', r. split; [exact Ev|]. split; [exact E|]. split; [exact St|].
  destruct St as (B' & _ & X & _ & _). intros c0 Hc0.
  assert (Hc0' : choice_ok s' c0) by (apply (ext_choice_ok _ _ c0 X); exact Hc0).
  destruct (zden_view s' r _ c0 B' D Hc0') as [br [Er Hbr]].
  rewrite (ext_nlevels _ _ X) in Hbr. rewrite Er. f_equal.
  pose proof (v2l_range s var L (zo_wf s B) Ev) as HL.
  pose proof (true_levels_pall (nlevels s) c0) as HT.
  simpl in Hbr. unfold pvar in Hbr.
  destruct (Nat.eqb_spec (c0 L) 0) as [E0|E0]; simpl.
  - destruct br; [|reflexivity]. exfalso. apply (proj1 Hbr eq_refl). split; [exact HT|].
    apply true_levels_in; [lia | exact E0].
  - destruct br; [reflexivity|]. exfalso.
    assert (Hx : false = true); [|discriminate]. apply Hbr. split; [exact HT|].
    intros [_ Hin]. apply true_levels_range in Hin. destruct Hin as [_ Hin]. contradiction.
Qed.

(** the result is the only edge with its view: the same edge is returned whatever the cache
    holds, whatever the operand order, and it is the edge any earlier computation of the same
    function left in the table *)
Theorem zresult_unique : forall s s' r d, ZbddOK s -> ZbddOK s' -> extends s s' ->
  ref_ok s' r -> ref_ok s d ->
  (forall c0, choice_ok s c0 -> zview_of s' r c0 = zview_of s d c0) -> r = d.
Proof.
  intros s s' r d B B' X Or Od Hv. apply (zview_canon s' r d B' Or (ext_ref_ok _ _ _ X Od)).
  intros c0 Hc0. assert (Hc0' : choice_ok s c0) by (apply (ext_choice_ok _ _ c0 X); exact Hc0).
  rewrite (zview_extends s s' d c0 B B' X Od Hc0'). apply Hv. exact Hc0'.
Qed.

(** in particular: two runs of a binary operator on the same operands - other cache, other
    operand order, other fuel - return the same edge (in whatever tables they end up) *)
Theorem zapply_op_history_independent : forall gt2 (C2 : Type) cget2 cadd2, zlossy C2 cget2 cadd2 ->
  forall op fuel fuel2 s c (c2 : C2) f g s1 c1 r1 s2 c2' r2,
  ZbddOK s -> ZChainOK s -> ZCacheOKB s c -> ZbddBoolProofs.ZCacheOKB C2 cget2 s c2 ->
  ref_ok s f -> ref_ok s g -> S (nlevels s) <= fuel -> S (nlevels s) <= fuel2 ->
  zapply_op gt C cget cadd fuel s c op f g = Some (s1, c1, r1) ->
  zapply_op gt2 C2 cget2 cadd2 fuel2 s c2 op f g = Some (s2, c2', r2) ->
  forall c0, choice_ok s c0 -> zview_of s1 r1 c0 = zview_of s2 r2 c0.
Proof.
  intros gt2 C2 cget2 cadd2 Hl2 op fuel fuel2 s c c2 f g s1 c1 r1 s2 c2' r2 B Hc O O2 Of Og Hf Hf2 E1 E2 c0 Hc0.
  destruct (zden_exists s f B Of) as [P DF]. destruct (zden_exists s g B Og) as [Q DG].
  destruct (zapply_op_ok gt C cget cadd Hlossy op fuel s c f g P Q B Hc O DF DG ltac:(lia))
    as (s1' & c1' & r1' & E1' & B1 & X1 & _ & D1).
  destruct (zapply_op_ok gt2 C2 cget2 cadd2 Hl2 op fuel2 s c2 f g P Q B Hc O2 DF DG ltac:(lia))
    as (s2' & c2'' & r2' & E2' & B2 & X2 & _ & D2).
  rewrite E1 in E1'. inversion E1'; subst s1' c1' r1'. rewrite E2 in E2'. inversion E2'; subst s2' c2'' r2'.
  destruct (zden_view s1 r1 _ c0 B1 D1 (proj2 (ext_choice_ok _ _ c0 X1) Hc0)) as [b1 [V1 H1]].
  destruct (zden_view s2 r2 _ c0 B2 D2 (proj2 (ext_choice_ok _ _ c0 X2) Hc0)) as [b2 [V2 H2]].
  rewrite (ext_nlevels _ _ X1) in H1. rewrite (ext_nlevels _ _ X2) in H2.
  rewrite V1, V2. f_equal. apply (bool_iff_eq b1 b2 _ H1 H2).
Qed.

End ZBoolTop.

(** constants *)
Theorem zconst_sound : forall s b, ZbddOK s -> ZChainOK s ->
  exists r, zconst s b = Some r /\ ref_ok s r /\
    forall c0, choice_ok s c0 -> zview_of s r c0 = Some b.
Proof.
  intros s b B Hc. destruct (zconst_ok s b B Hc) as [r [E D]]. exists r. split; [exact E|].
  split; [apply (zden_ok _ _ _ D)|]. intros c0 Hc0.
  destruct (zden_view s r _ c0 B D Hc0) as [br [Er Hbr]]. rewrite Er. f_equal.
  destruct b.
  - destruct br; [reflexivity|]. apply Hbr. apply true_levels_pall.
  - destruct br; [|reflexivity]. destruct (proj1 Hbr eq_refl).
Qed.

(** variables *)
Theorem zvar_sound : forall s var, ZbddOK s -> ZChainOK s -> var < length (s_v2l s) ->
  exists L s' r, nth_error (s_v2l s) var = Some L /\ zvar s var = Some (s', r) /\
    ZbddOK s' /\ ZChainOK s' /\ extends s s' /\ ref_ok s' r /\
    forall c0, choice_ok s c0 -> zview_of s' r c0 = Some (Nat.eqb (c0 L) 0).
Proof.
  intros s var B Hc Hv. destruct (zvar_ok s var B Hc Hv) as (L & s' & r & Ev & Ez & B' & X & D).
  exists L, s', r. split; [exact Ev|]. split; [exact Ez|]. split; [exact B'|].
  split; [apply (zchain_extends s s' B B' X Hc)|]. split; [exact X|]. split; [apply (zden_ok _ _ _ D)|].
  intros c0 Hc0.
  assert (Hc0' : choice_ok s' c0) by (apply (ext_choice_ok _ _ c0 X); exact Hc0).
  destruct (zden_view s' r _ c0 B' D Hc0') as [br [Er Hbr]].
  rewrite (ext_nlevels _ _ X) in Hbr. rewrite Er. f_equal.
  pose proof (v2l_range s var L (zo_wf s B) Ev) as HL.
  pose proof (true_levels_pall (nlevels s) c0) as HT. unfold pvar in Hbr.
  destruct (Nat.eqb_spec (c0 L) 0) as [E0|E0].
  - destruct br; [reflexivity|]. apply Hbr. split; [exact HT|].
    apply true_levels_in; [lia | exact E0].
  - destruct br; [|reflexivity]. exfalso. destruct (proj1 Hbr eq_refl) as [_ Hin].
    apply true_levels_range in Hin. destruct Hin as [_ Hin]. contradiction.
Qed.

(** ** In terms of assignments (variable |-> bool) *)

Lemma zbfun_of_view : forall s r a b, zview_of s r (choice_of s a) = Some b -> zbfun_of s r a = b.
Proof. intros s r a b E. unfold zbfun_of. rewrite E. destruct b; reflexivity. Qed.

Lemma choice_of_ext : forall s s' a, extends s s' -> choice_of s' a = choice_of s a.
Proof. intros s s' a X. unfold choice_of. rewrite (ext_l2v _ _ X). reflexivity. Qed.

Section ZBfun.
Variable gt : ref -> ref -> bool.
Variable C : Type.
Variable cget : C -> N -> list ref -> list nat -> option ref.
Variable cadd : C -> N -> list ref -> list nat -> ref -> C.
Hypothesis Hlossy : zlossy C cget cadd.

Notation ZCacheOKB := (ZCacheOKB C cget).

Theorem zapply_not_bfun : forall s c f,
  ZbddOK s -> ZChainOK s -> ZCacheOKB s c -> ref_ok s f ->
  exists s' c' r, zapply_not gt C cget cadd (S (nlevels s)) s c f = Some (s', c', r) /\
    zstate_ok C cget s s' c' r /\
    forall a, zbfun_of s' r a = lift1 negb (zbfun_of s f) a.
Proof.
  intros s c f B Hc O Of.
  destruct (zapply_not_sound gt C cget cadd Hlossy _ s c f B Hc O Of (le_n _)) as (s' & c' & r & E & St & Hv).
  exists s', c', r. split; [exact E|]. split; [exact St|]. intros a.
  destruct St as (_ & _ & X & _ & _).
  destruct (Hv (choice_of s a) (choice_of_ok s a (zo_kind s B))) as [bf [Ef Er]].
  unfold lift1. rewrite (zbfun_of_view s f a bf Ef).
  apply zbfun_of_view. rewrite (choice_of_ext s s' a X). exact Er.
Qed.

Theorem zapply_op_bfun : forall op s c f g,
  ZbddOK s -> ZChainOK s -> ZCacheOKB s c -> ref_ok s f -> ref_ok s g ->
  exists s' c' r, zapply_op gt C cget cadd (S (nlevels s)) s c op f g = Some (s', c', r) /\
    zstate_ok C cget s s' c' r /\
    forall a, zbfun_of s' r a = lift2 op (zbfun_of s f) (zbfun_of s g) a.
Proof.
  intros op s c f g B Hc O Of Og.
  destruct (zapply_op_sound gt C cget cadd Hlossy op _ s c f g B Hc O Of Og (le_n _))
    as (s' & c' & r & E & St & Hv).
  exists s', c', r. split; [exact E|]. split; [exact St|]. intros a.
  destruct St as (_ & _ & X & _ & _).
  destruct (Hv (choice_of s a) (choice_of_ok s a (zo_kind s B))) as [bf [bg [Ef [Eg Er]]]].
  unfold lift2. rewrite (zbfun_of_view s f a bf Ef), (zbfun_of_view s g a bg Eg).
  apply zbfun_of_view. rewrite (choice_of_ext s s' a X). exact Er.
Qed.

Theorem zapply_ite_bfun : forall s c f g h,
  ZbddOK s -> ZChainOK s -> ZCacheOKB s c -> ref_ok s f -> ref_ok s g -> ref_ok s h ->
  exists s' c' r, zapply_ite gt C cget cadd (S (nlevels s)) s c f g h = Some (s', c', r) /\
    zstate_ok C cget s s' c' r /\
    forall a, zbfun_of s' r a = ite_s (zbfun_of s f) (zbfun_of s g) (zbfun_of s h) a.
Proof.
  intros s c f g h B Hc O Of Og Oh.
  destruct (zapply_ite_sound gt C cget cadd Hlossy _ s c f g h B Hc O Of Og Oh (le_n _))
    as (s' & c' & r & E & St & Hv).
  exists s', c', r. split; [exact E|]. split; [exact St|]. intros a.
  destruct St as (_ & _ & X & _ & _).
  destruct (Hv (choice_of s a) (choice_of_ok s a (zo_kind s B))) as [bf [bg [bh [Ef [Eg [Eh Er]]]]]].
  unfold ite_s. rewrite (zbfun_of_view s f a bf Ef), (zbfun_of_view s g a bg Eg), (zbfun_of_view s h a bh Eh).
  apply zbfun_of_view. rewrite (choice_of_ext s s' a X). exact Er.
Qed.

(** the level of a variable reads the variable's value *)
Lemma choice_of_v2l : forall s a var L, WF s -> nth_error (s_v2l s) var = Some L ->
  Nat.eqb (choice_of s a L) 0 = a var.
Proof.
  intros s a var L H Ev.
  assert (Hv : var < length (s_v2l s)) by (apply nth_error_Some; congruence).
  destruct (wf_perm_v2l s H var Hv) as [L' [E1 E2]]. rewrite Ev in E1. inversion E1; subst L'.
  unfold choice_of. rewrite E2. destruct (a var); reflexivity.
Qed.

Theorem znot_var_bfun : forall s c var,
  ZbddOK s -> ZChainOK s -> ZCacheOKB s c -> var < nlevels s ->
  exists s' c' r, znot_var gt C cget cadd (S (nlevels s)) s c var = Some (s', c', r) /\
    zstate_ok C cget s s' c' r /\
    forall a, zbfun_of s' r a = negb (var_s var a).
Proof.
  intros s c var B Hc O Hv. pose proof (zo_wf s B) as H.
  assert (Hv' : var < length (s_v2l s)) by (rewrite (wf_perm_len s H); exact Hv).
  destruct (znot_var_sound gt C cget cadd Hlossy _ s c var B Hc O Hv' (le_n _))
    as (L & s' & c' & r & Ev & E & St & Hvw).
  exists s', c', r. split; [exact E|]. split; [exact St|]. intros a.
  destruct St as (_ & _ & X & _ & _).
  apply zbfun_of_view. rewrite (choice_of_ext s s' a X).
  rewrite (Hvw (choice_of s a) (choice_of_ok s a (zo_kind s B))).
  rewrite (choice_of_v2l s a var L H Ev). reflexivity.
Qed.

End ZBfun.

Theorem zconst_bfun : forall s b, ZbddOK s -> ZChainOK s ->
  exists r, zconst s b = Some r /\ ref_ok s r /\ forall a, zbfun_of s r a = const_s b a.
Proof.
  intros s b B Hc. destruct (zconst_sound s b B Hc) as [r [E [O Hv]]]. exists r.
  split; [exact E|]. split; [exact O|]. intros a. apply zbfun_of_view.
  apply Hv. apply (choice_of_ok s a (zo_kind s B)).
Qed.

Theorem zvar_bfun : forall s var, ZbddOK s -> ZChainOK s -> var < nlevels s ->
  exists s' r, zvar s var = Some (s', r) /\ ZbddOK s' /\ ZChainOK s' /\ extends s s' /\ ref_ok s' r /\
    forall a, zbfun_of s' r a = var_s var a.
Proof.
  intros s var B Hc Hv. pose proof (zo_wf s B) as H.
  assert (Hv' : var < length (s_v2l s)) by (rewrite (wf_perm_len s H); exact Hv).
  destruct (zvar_sound s var B Hc Hv') as (L & s' & r & Ev & Ez & B' & Hc' & X & O & Hvw).
  exists s', r. split; [exact Ez|]. split; [exact B'|]. split; [exact Hc'|]. split; [exact X|].
  split; [exact O|]. intros a. apply zbfun_of_view. rewrite (choice_of_ext s s' a X).
  rewrite (Hvw (choice_of s a) (choice_of_ok s a (zo_kind s B))).
  rewrite (choice_of_v2l s a var L H Ev). reflexivity.
Qed.

(** ** Evaluation *)

(** the view reads the choice at real levels only *)
Lemma all_lo_ext_lt : forall c c' cnt from,
  (forall l, from <= l < from + cnt -> c l = c' l) -> all_lo c from cnt = all_lo c' from cnt.
Proof.
  induction cnt as [|k IH]; intros from Hcc; simpl; [reflexivity|].
  rewrite (Hcc from) by lia. f_equal. apply IH. intros l Hl. apply Hcc. lia.
Qed.

Lemma semz_ext_lt : forall s, WF s -> forall f lvl r c c',
  (forall l, lvl <= l < nlevels s -> c l = c' l) -> semz s f lvl r c = semz s f lvl r c'.
Proof.
  intros s H. induction f as [|f IH]; intros lvl r c c' Hcc.
  - destruct r as [t|id]; [|reflexivity].
    rewrite !semz_T. rewrite (all_lo_ext_lt c c' _ lvl) by (intros l Hl; apply Hcc; lia). reflexivity.
  - destruct r as [t|id].
    + rewrite !semz_T. rewrite (all_lo_ext_lt c c' _ lvl) by (intros l Hl; apply Hcc; lia). reflexivity.
    + rewrite !semz_S. destruct (find_node s id) as [nd|] eqn:En; [|reflexivity].
      pose proof (wf_level s H id nd En) as HL.
      destruct (Nat.ltb_spec (nlevel nd) lvl) as [Hlt|Hge]; [reflexivity|].
      rewrite (all_lo_ext_lt c c' _ lvl) by (intros l Hl; apply Hcc; lia).
      rewrite <- (Hcc (nlevel nd)) by lia.
      destruct (all_lo c' lvl (nlevel nd - lvl)); [|reflexivity].
      destruct (nth_error (nchildren nd) (c (nlevel nd))) as [e|]; [|reflexivity].
      apply IH. intros l Hl. apply Hcc. lia.
Qed.

(** the choice function of the bit set [values] *)
Definition cv (values : nat -> bool) : nat -> nat := fun l => if values l then 0 else 1.

Lemma cv_lt2 : forall values l, cv values l < 2.
Proof. intros values l. unfold cv. destruct (values l); lia. Qed.

Lemma nat_list_eqb_nil : forall l, nat_list_eqb l [] = Nat.eqb (length l) 0.
Proof. destruct l; reflexivity. Qed.

(** the walk of [eval_edge]: with [ones] = [k] + the number of true levels from [lvl] on,
    the walk never underflows and returns "[k] = 0 and the view from [lvl] is true" *)
Theorem zeval_walk_sem : forall s, ZbddOK s -> forall fuel lvl r values k,
  ref_ok s r -> lvl <= rlevel s r -> nlevels s - rlevel s r < fuel ->
  exists b, semz s fuel lvl r (cv values) = Some b /\
    zeval_walk fuel s r values (k + length (true_levels (cv values) lvl (nlevels s - lvl)))
      = Some (Nat.eqb k 0 && b).
Proof.
  intros s B. pose proof (zo_wf s B) as H. pose proof (zo_kind s B) as Hk.
  induction fuel as [|f IH]; intros lvl r values k O Hl Hf; [lia|].
  set (c := cv values).
  destruct r as [t|id].
  - destruct O as [v Ev]. rewrite semz_T, Ev. simpl zeval_walk. rewrite Ev.
    eexists. split; [reflexivity|]. f_equal.
    rewrite (all_lo_true_levels c _ lvl (cv_lt2 values)), nat_list_eqb_nil.
    destruct (length (true_levels c lvl (nlevels s - lvl))) as [|m].
    + rewrite Nat.add_0_r. simpl. destruct (Nat.eqb k 0), (N.eqb v 1); reflexivity.
    + replace (k + S m) with (S (k + m)) by lia. simpl.
      rewrite andb_false_r, andb_false_r. reflexivity.
  - destruct O as [nd En]. rewrite (rlevel_node s id nd En) in Hl, Hf.
    pose proof (wf_level s H id nd En) as HL. set (L := nlevel nd) in *.
    rewrite semz_S, En. simpl zeval_walk. rewrite En, (wf_stored s H id nd En). fold L.
    destruct (Nat.ltb_spec L lvl) as [Hlt|_]; [lia|].
    destruct (zchildren s H Hk id nd En) as [hi [lo Ec]].
    destruct (zchild_ok s H id nd hi lo En Ec) as [Oh [Lh [Ol Ll]]]. fold L in Lh, Ll.
    pose proof (rlevel_le s H (eref hi)). pose proof (rlevel_le s H (eref lo)).
    (* the true levels split at the node's level *)
    replace (nlevels s - lvl) with ((L - lvl) + S (nlevels s - S L)) by lia.
    rewrite true_levels_app, app_length. replace (lvl + (L - lvl)) with L by lia.
    set (a := length (true_levels c lvl (L - lvl))).
    assert (Ea : all_lo c lvl (L - lvl) = Nat.eqb a 0).
    { rewrite (all_lo_true_levels c _ lvl (cv_lt2 values)). apply nat_list_eqb_nil. }
    rewrite Ea. simpl true_levels. rewrite Ec.
    destruct (values L) eqn:Ev.
    + (* the variable is true: hi child, one true level consumed *)
      assert (EcL : c L = 0) by (unfold c, cv; rewrite Ev; reflexivity). rewrite EcL.
      simpl Nat.eqb. cbv iota. simpl nth_error. simpl length.
      replace (k + (a + S (length (true_levels c (S L) (nlevels s - S L)))))
        with (S ((k + a) + length (true_levels c (S L) (nlevels s - S L)))) by lia.
      destruct (IH (S L) (eref hi) values (k + a) Oh ltac:(lia) ltac:(lia)) as [b' [Eb' Ew']].
      fold c in Eb', Ew'. rewrite Ew'.
      destruct a as [|a'].
      * simpl Nat.eqb. cbv iota. exists b'. split; [exact Eb'|]. rewrite Nat.add_0_r. reflexivity.
      * simpl Nat.eqb. cbv iota. exists false. split; [reflexivity|].
        replace (k + S a') with (S (k + a')) by lia. simpl. rewrite andb_false_r. reflexivity.
    + assert (EcL : c L = 1) by (unfold c, cv; rewrite Ev; reflexivity). rewrite EcL.
      simpl Nat.eqb. cbv iota. simpl nth_error.
      replace (k + (a + length (true_levels c (S L) (nlevels s - S L))))
        with ((k + a) + length (true_levels c (S L) (nlevels s - S L))) by lia.
      destruct (IH (S L) (eref lo) values (k + a) Ol ltac:(lia) ltac:(lia)) as [b' [Eb' Ew']].
      fold c in Eb', Ew'. rewrite Ew'.
      destruct a as [|a'].
      * simpl Nat.eqb. cbv iota. exists b'. split; [exact Eb'|]. rewrite Nat.add_0_r. reflexivity.
      * simpl Nat.eqb. cbv iota. exists false. split; [reflexivity|].
        replace (k + S a') with (S (k + a')) by lia. simpl. rewrite andb_false_r. reflexivity.
Qed.

Lemma true_levels_false : forall cnt from, true_levels (cv (fun _ => false)) from cnt = [].
Proof. induction cnt as [|k IH]; intros from; simpl; [reflexivity | apply IH]. Qed.

(** the first loop keeps [ones] = number of set bits; set bits are real levels *)
Lemma zeval_args_inv : forall s, WF s -> forall args values ones values' ones',
  (forall l, values l = true -> l < nlevels s) ->
  ones = length (true_levels (cv values) 0 (nlevels s)) ->
  zeval_args s args values ones = Some (values', ones') ->
  (forall l, values' l = true -> l < nlevels s) /\
  ones' = length (true_levels (cv values') 0 (nlevels s)).
Proof.
  intros s H. induction args as [|[var val] rest IH]; intros values ones values' ones' Hb Ho E.
  - simpl in E. inversion E; subst. auto.
  - simpl in E. destruct (nth_error (s_v2l s) var) as [L|] eqn:Ev; [|discriminate].
    pose proof (v2l_range s var L H Ev) as HL.
    destruct (Bool.eqb (values L) val) eqn:Eq; [apply (IH _ _ _ _ Hb Ho E)|].
    apply (IH _ _ _ _) in E; [exact E| |].
    + intros l. destruct (Nat.eqb_spec l L) as [->|Hne]; [intros _; exact HL | apply Hb].
    + (* the count changes by one at level L *)
      set (values2 := fun l => if Nat.eqb l L then val else values l).
      assert (Hsplit : forall vs, length (true_levels (cv vs) 0 (nlevels s)) =
                length (true_levels (cv vs) 0 L) + (if vs L then 1 else 0) +
                length (true_levels (cv vs) (S L) (nlevels s - S L))).
      { intros vs. replace (nlevels s) with (L + S (nlevels s - S L)) at 1 by lia.
        rewrite true_levels_app, app_length. simpl true_levels. unfold cv at 2.
        destruct (vs L); simpl; lia. }
      rewrite (Hsplit values2). rewrite (Hsplit values) in Ho.
      assert (E1 : true_levels (cv values2) 0 L = true_levels (cv values) 0 L).
      { apply true_levels_ext. intros l Hl. unfold cv, values2.
        destruct (Nat.eqb_spec l L); [lia | reflexivity]. }
      assert (E2 : true_levels (cv values2) (S L) (nlevels s - S L) = true_levels (cv values) (S L) (nlevels s - S L)).
      { apply true_levels_ext. intros l Hl. unfold cv, values2.
        destruct (Nat.eqb_spec l L); [lia | reflexivity]. }
      rewrite E1, E2. unfold values2 at 1. rewrite Nat.eqb_refl.
      destruct (values L), val; simpl in Eq; try discriminate; lia.
Qed.

(** what the bit set holds when the argument list is consistent with an assignment [a] and
    lists every variable *)
Lemma zeval_args_values : forall s (a : asg), WF s -> forall args values ones values' ones',
  (forall v b, In (v, b) args -> b = a v) ->
  zeval_args s args values ones = Some (values', ones') ->
  forall l, values' l =
    if existsb (fun p : nat * bool => match nth_error (s_v2l s) (fst p) with
                                      | Some lv => Nat.eqb l lv | None => false end) args
    then match nth_error (s_l2v s) l with Some v => a v | None => values l end
    else values l.
Proof.
  intros s a H. induction args as [|[v b] rest IH]; intros values ones values' ones' Hall E l.
  - simpl in E. inversion E; subst. reflexivity.
  - simpl in E. destruct (nth_error (s_v2l s) v) as [L|] eqn:Ev; [|discriminate].
    assert (Hv : v < length (s_v2l s)) by (apply nth_error_Some; congruence).
    destruct (wf_perm_v2l s H v Hv) as [L' [E1 E2]]. rewrite Ev in E1. inversion E1; subst L'.
    assert (Hb : b = a v) by (apply Hall; left; reflexivity).
    assert (Hrest : forall v' b', In (v', b') rest -> b' = a v') by (intros v' b' Hin; apply Hall; right; exact Hin).
    simpl existsb. rewrite Ev.
    destruct (Bool.eqb (values L) b) eqn:Eq.
    + rewrite (IH _ _ _ _ Hrest E l).
      destruct (Nat.eqb_spec l L) as [->|Hne]; simpl; [|reflexivity].
      rewrite E2. apply Bool.eqb_prop in Eq. rewrite Eq, Hb.
      destruct (existsb _ rest); reflexivity.
    + rewrite (IH _ _ _ _ Hrest E l).
      destruct (Nat.eqb_spec l L) as [->|Hne]; simpl; [|reflexivity].
      rewrite E2, Hb. destruct (existsb _ rest); reflexivity.
Qed.

Lemma zeval_args_total : forall s args values ones,
  (forall v b, In (v, b) args -> v < length (s_v2l s)) ->
  exists values' ones', zeval_args s args values ones = Some (values', ones').
Proof.
  intros s. induction args as [|[v b] rest IH]; intros values ones Hall; [simpl; eauto|].
  simpl. destruct (nth_error (s_v2l s) v) as [L|] eqn:Ev.
  - destruct (Bool.eqb (values L) b); apply IH; intros v' b' Hin; apply (Hall v' b'); right; exact Hin.
  - apply nth_error_None in Ev. specialize (Hall v b (or_introl eq_refl)). lia.
Qed.

(** [eval_edge] agrees with the node-by-node interpretation under the choices of the bit set *)
Theorem zeval_edge_sem : forall s r args, ZbddOK s -> ref_ok s r ->
  (forall v b, In (v, b) args -> v < length (s_v2l s)) ->
  exists values ones, zeval_args s args (fun _ => false) 0 = Some (values, ones) /\
    zeval_edge s r args = zview_of s r (cv values) /\ exists b, zview_of s r (cv values) = Some b.
Proof.
  intros s r args B O Hall. pose proof (zo_wf s B) as H.
  destruct (zeval_args_total s args (fun _ => false) 0 Hall) as [values [ones E]].
  exists values, ones. split; [exact E|]. unfold zeval_edge. rewrite E.
  assert (H0 : 0 = length (true_levels (cv (fun _ => false)) 0 (nlevels s)))
    by (rewrite true_levels_false; reflexivity).
  assert (Hb0 : forall l, (fun _ : nat => false) l = true -> l < nlevels s) by (intros l Hx; discriminate).
  destruct (zeval_args_inv s H args (fun _ => false) 0 values ones Hb0 H0 E) as [_ Ho].
  pose proof (rlevel_le s H r).
  destruct (zeval_walk_sem s B (S (nlevels s)) 0 r values 0 O ltac:(lia) ltac:(lia)) as [b [Eb Ew]].
  rewrite Nat.sub_0_r in Ew. simpl plus in Ew. rewrite <- Ho in Ew.
  unfold zview_of. rewrite Ew, Eb. simpl. split; [reflexivity | eauto].
Qed.

(** for an argument list that gives every variable its value under [a], [eval_edge] returns the
    value of the reference's function at [a] *)
Theorem zeval_edge_assignment : forall s r (a : asg) args, ZbddOK s -> ref_ok s r ->
  (forall v b, In (v, b) args -> b = a v /\ v < nlevels s) ->
  (forall v, v < nlevels s -> In v (map fst args)) ->
  zeval_edge s r args = Some (zbfun_of s r a).
Proof.
  intros s r a args B O Hcons Hall. pose proof (zo_wf s B) as H. pose proof (zo_kind s B) as Hk.
  assert (Hlen : length (s_v2l s) = nlevels s) by (apply (wf_perm_len s H)).
  destruct (zeval_edge_sem s r args B O) as (values & ones & E & Ee & [b Eb]).
  { intros v b0 Hin. destruct (Hcons v b0 Hin). lia. }
  rewrite Ee, Eb. f_equal. symmetry. apply zbfun_of_view. rewrite <- Eb.
  unfold zview_of. apply (semz_ext_lt s H). intros l [_ Hln]. unfold choice_of, cv.
  rewrite (zeval_args_values s a H args _ _ _ _ (fun v b0 Hin => proj1 (Hcons v b0 Hin)) E l).
  destruct (nth_error (s_l2v s) l) as [v|] eqn:El.
  - assert (Hl : l < length (s_l2v s)) by (apply nth_error_Some; congruence).
    destruct (wf_perm_l2v s H l Hl) as [v' [E1 E2]]. rewrite El in E1. inversion E1; subst v'.
    assert (Hv : v < nlevels s) by (rewrite <- Hlen; apply nth_error_Some; congruence).
    assert (Hex : existsb (fun p : nat * bool => match nth_error (s_v2l s) (fst p) with
                              | Some lv => Nat.eqb l lv | None => false end) args = true).
    { apply existsb_exists. specialize (Hall v Hv). apply in_map_iff in Hall.
      destruct Hall as [[v0 b0] [Ev Hin]]. simpl in Ev. subst v0.
      exists (v, b0). split; [exact Hin|]. simpl. rewrite E2. apply Nat.eqb_refl. }
    rewrite Hex. destruct (a v); reflexivity.
  - apply nth_error_None in El. unfold nlevels in Hln. lia.
Qed.

(** ** Cofactors *)

(** [cofactors] = the children of the root = (subset1, subset0) of the top-most variable:
    as families of the documented reading, and literally as what the model of
    [subset1_edge] / [subset0_edge] returns for that variable *)
Theorem zcofactors_sound : forall C cget cadd s (c : C) r t e, ZbddOK s -> ref_ok s r ->
  zcofactors s r = Some (t, e) ->
  exists id nd var F Ft Fe,
    r = RN id /\ find_node s id = Some nd /\ rlevel s r = nlevel nd /\
    nth_error (s_l2v s) (nlevel nd) = Some var /\ nth_error (s_v2l s) var = Some (nlevel nd) /\
    ref_ok s t /\ ref_ok s e /\
    fam_of s r = Some F /\ fam_of s t = Some Ft /\ fam_of s e = Some Fe /\
    feq Ft (f_subset1 (nlevel nd) F) /\ feq Fe (f_subset0 (nlevel nd) F) /\
    (forall fuel, zsubset_top C cget cadd (S fuel) s c ZSubset1 r var = Some (s, c, t)) /\
    (forall fuel, zsubset_top C cget cadd (S fuel) s c ZSubset0 r var = Some (s, c, e)).
Proof.
  intros C cget cadd s c r t e B O Hc. pose proof (zo_wf s B) as H. pose proof (zo_kind s B) as Hk.
  unfold zcofactors in Hc. destruct r as [x|id].
  { simpl in Hc. destruct (term_val s x); discriminate. }
  destruct O as [nd En]. simpl in Hc. rewrite En in Hc. simpl in Hc.
  destruct (zchildren s H Hk id nd En) as [hi [lo Ec]]. rewrite Ec in Hc. inversion Hc; subst t e.
  pose proof (wf_level s H id nd En) as HL.
  destruct (wf_perm_l2v s H (nlevel nd) HL) as [var [E1 E2]].
  destruct (zden_exists s (RN id) B (ex_intro _ nd En)) as [P D].
  destruct (znode_facts s id nd P B D En)
    as (Sf & _ & Rf & hi' & lo' & PA & PB & Ec' & DA & DB & _ & _ & HP & SA & SB).
  rewrite Ec in Ec'. inversion Ec'; subst hi' lo'.
  destruct (zden_fam s _ _ D) as [F [EF HF]].
  destruct (zden_fam s _ _ DA) as [Ft [EFt HFt]]. destruct (zden_fam s _ _ DB) as [Fe [EFe HFe]].
  exists id, nd, var, F, Ft, Fe.
  split; [reflexivity|]. split; [exact En|]. split; [exact Rf|]. split; [exact E1|]. split; [exact E2|].
  split; [apply (zden_ok _ _ _ DA)|]. split; [apply (zden_ok _ _ _ DB)|].
  split; [exact EF|]. split; [exact EFt|]. split; [exact EFe|].
  split; [|split; [|split]].
  - intros S. rewrite (HFt S), in_f_subset1.
    rewrite <- (psub_node_at ZSubset1 (nlevel nd) PA PB SA SB S). simpl. split.
    + intros (S0 & A1 & A2 & A3). exists S0. split; [apply HF, HP; exact A1 | auto].
    + intros (S0 & A1 & A2 & A3). exists S0. split; [apply HP, HF; exact A1 | auto].
  - intros S. rewrite (HFe S), in_f_subset0.
    rewrite <- (psub_node_at ZSubset0 (nlevel nd) PA PB SA SB S). simpl. split.
    + intros [A1 A2]. split; [apply HF, HP; exact A1 | exact A2].
    + intros [A1 A2]. split; [apply HP, HF; exact A1 | exact A2].
  - intros fuel. unfold zsubset_top. rewrite E2. simpl. rewrite En, Sf, Nat.compare_refl, Ec. reflexivity.
  - intros fuel. unfold zsubset_top. rewrite E2. simpl. rewrite En, Sf, Nat.compare_refl, Ec. reflexivity.
Qed.

Theorem zcofactors_none : forall s r, ZbddOK s -> ref_ok s r ->
  (zcofactors s r = None <-> exists t, r = RT t).
Proof.
  intros s r B O. pose proof (zo_wf s B) as H. pose proof (zo_kind s B) as Hk.
  unfold zcofactors. destruct r as [t|id].
  - destruct O as [v Ev]. simpl. rewrite Ev. simpl. split; [eauto | reflexivity].
  - destruct O as [nd En]. simpl. rewrite En. simpl.
    destruct (zchildren s H Hk id nd En) as [hi [lo Ec]]. rewrite Ec.
    split; [discriminate | intros [t Ht]; discriminate].
Qed.
