(** * The hypotheses of the C09 theorems are satisfiable, and the model runs:
    a concrete three-level ZBDD table whose variable order is not the
    identity, [vm_compute] runs of every operation, a grown table. *)

From Coq Require Import List NArith PArith Bool Arith Lia FMapPositive.
From OxiVerif Require Import DD.Table DD.TableExtra DD.TableProofs DD.Build DD.BuildProofs DD.Apply
  DD.FamSpec DD.FamSpecProofs DD.ZbddOps DD.ZbddOpsProofs DD.ZbddSubsetProofs DD.ZbddSoundProofs
  DD.ZbddVars DD.ZbddVarsProofs.
Import ListNotations.

(** an operand order (by node id), standing for the address order of the code *)
Definition zgt_id (a b : ref) : bool :=
  match a, b with RN x, RN y => Pos.ltb y x | _, _ => false end.

(** three levels; var 0 -> level 1, var 1 -> level 2, var 2 -> level 0.
    node 1 = {{2}}, node 2 = {{1},{2}}, node 3 = {{0,2},{1},{2}} (sets of levels) *)
Definition ex_z3 : snap :=
  mkSnap KZbdd
    (PositiveMap.add 3%positive (mkNode 0 [E (RN 1); E (RN 2)] 0 1)
    (PositiveMap.add 2%positive (mkNode 1 [E (RT 1); E (RN 1)] 1 1)
    (PositiveMap.add 1%positive (mkNode 2 [E (RT 1); E (RT 0)] 2 2)
       (PositiveMap.empty node))))
    [(0%N, 0%N); (1%N, 1%N)]
    [1; 2; 0] [2; 0; 1]
    [(0%N, E (RN 3))].

Example ex_z3_ok : ZbddOK ex_z3.
Proof. apply zbdd_ok_b_spec. vm_compute. reflexivity. Qed.

Example ex_z3_cache_ok : ZCacheOK zacache zac_get ex_z3 [].
Proof. apply zac_empty_ok. Qed.

Example ex_z3_fams :
  fam_of ex_z3 (RN 3) = Some [[0; 2]; [1]; [2]] /\ fam_of ex_z3 (RN 2) = Some [[1]; [2]] /\
  fam_of ex_z3 (RN 1) = Some [[2]] /\ fam_of ex_z3 (RT 1) = Some f_base /\
  fam_of ex_z3 (RT 0) = Some f_empty.
Proof. vm_compute. repeat split; reflexivity. Qed.

(** result: (number of stored nodes, returned edge, its family) *)
Definition zout (r : option (snap * zacache * ref)) :=
  match r with
  | Some (s, _, r) => Some (PositiveMap.cardinal (s_nodes s), r, fam_of s r)
  | None => None
  end.

(** union / intsec return existing nodes, diff creates node 4 = {{0,2}} *)
Example ex_z3_binary :
  zout (zapply zgt_id zacache zac_get zac_add (FUEL ex_z3) ex_z3 [] ZUnion (RN 3) (RN 2))
    = Some (3, RN 3, Some [[0; 2]; [1]; [2]]) /\
  zout (zapply zgt_id zacache zac_get zac_add (FUEL ex_z3) ex_z3 [] ZIntsec (RN 3) (RN 2))
    = Some (3, RN 2, Some [[1]; [2]]) /\
  zout (zapply zgt_id zacache zac_get zac_add (FUEL ex_z3) ex_z3 [] ZDiff (RN 3) (RN 2))
    = Some (4, RN 4, Some [[0; 2]]) /\
  zout (zapply zgt_id zacache zac_get zac_add (FUEL ex_z3) ex_z3 [] ZDiff (RN 2) (RN 3))
    = Some (3, RT 0%N, Some []).
Proof. vm_compute. repeat split; reflexivity. Qed.

(** change w.r.t. var 2 (level 0) of {{1},{2}}: the variable's level is above
    the operand, a node is created on top of it;
    change / subset1 / subset0 w.r.t. var 1 (level 2) of node 3: the recursion
    goes through two levels *)
Example ex_z3_unary :
  zout (zsubset_top zacache zac_get zac_add (FUEL ex_z3) ex_z3 [] ZChange (RN 2) 2)
    = Some (4, RN 4, Some [[0; 1]; [0; 2]]) /\
  zout (zsubset_top zacache zac_get zac_add (FUEL ex_z3) ex_z3 [] ZChange (RN 3) 1)
    = Some (5, RN 5, Some [[0]; [1; 2]; []]) /\
  zout (zsubset_top zacache zac_get zac_add (FUEL ex_z3) ex_z3 [] ZSubset1 (RN 3) 1)
    = Some (4, RN 4, Some [[0]; []]) /\
  zout (zsubset_top zacache zac_get zac_add (FUEL ex_z3) ex_z3 [] ZSubset0 (RN 3) 1)
    = Some (4, RN 4, Some [[1]]) /\
  zout (zsubset_top zacache zac_get zac_add (FUEL ex_z3) ex_z3 [] ZSubset1 (RN 3) 7) = None.
Proof. vm_compute. repeat split; reflexivity. Qed.

(** the cache after change(node 3, var 1): keyed by (Change, node, variable number) *)
Example ex_z3_cache :
  match zsubset_top zacache zac_get zac_add (FUEL ex_z3) ex_z3 [] ZChange (RN 3) 1 with
  | Some (_, c, _) => c = [(2%N, [RN 3], [1], RN 5); (2%N, [RN 2], [1], RN 4)]
  | None => False
  end.
Proof. vm_compute. reflexivity. Qed.

(** singleton {var 2} = {{level 0}} and make_node on it: the existing node 3 is found *)
Example ex_z3_make_node :
  match zsingleton ex_z3 2 with
  | Some (s, r) =>
    r = RN 4 /\ fam_of s r = Some [[0]] /\
    match zmake_node s r (RN 1) (RN 2) with
    | Some (s', r') => r' = RN 3 /\ fam_of s' r' = Some [[0; 2]; [1]; [2]]
    | None => False
    end
  | None => False
  end.
Proof. vm_compute. repeat split; reflexivity. Qed.

(** the specification layer on the same families *)
Example ex_spec :
  f_change 2 [[0; 2]; [1]; [2]] = [[1; 2]; [0]; []] /\
  feq_b (f_change 2 [[0; 2]; [1]; [2]]) [[0]; [1; 2]; []] = true /\
  f_subset1 2 [[0; 2]; [1]; [2]] = [[0]; []] /\
  f_make_node 0 [[2]] [[1]; [2]] = [[1]; [2]; [0; 2]] /\
  fam_bool 3 [[0; 2]; [1]; [2]] (fun l => match l with 1 => 1 | _ => 0 end) = true /\
  fam_bool 3 [[0; 2]; [1]; [2]] (fun l => 0) = false.
Proof. vm_compute. repeat split; reflexivity. Qed.

(** [ex_z3] after add_vars(1): a fourth level, the tautology chain (nodes 4..7), old nodes kept *)
Definition ex_z4 : snap :=
  mkSnap KZbdd
    (PositiveMap.add 7%positive (mkNode 0 [E (RN 6); E (RN 6)] 0 1)
    (PositiveMap.add 6%positive (mkNode 1 [E (RN 5); E (RN 5)] 1 2)
    (PositiveMap.add 5%positive (mkNode 2 [E (RN 4); E (RN 4)] 2 2)
    (PositiveMap.add 4%positive (mkNode 3 [E (RT 1); E (RT 1)] 3 2)
       (s_nodes ex_z3)))))
    [(0%N, 0%N); (1%N, 1%N)]
    [1; 2; 0; 3] [2; 0; 1; 3]
    [(0%N, E (RN 3))].

Example ex_z4_grows : ZbddOK ex_z4 /\ grows ex_z3 ex_z4.
Proof.
  split; [apply zbdd_ok_b_spec; vm_compute; reflexivity|].
  constructor; [reflexivity | vm_compute; lia|].
  intros id nd E. unfold find_node, ex_z4. simpl s_nodes.
  assert (Hid : (id = 1 \/ id = 2 \/ id = 3)%positive).
  { apply find_node_elements in E. vm_compute in E.
    destruct E as [E | [E | [E | E ] ] ]; [| | | destruct E]; inversion E; auto. }
  destruct Hid as [ -> | [ -> | -> ] ]; vm_compute in E |- *; exact E.
Qed.

Example ex_z4_views :
  fam_of ex_z4 (RN 3) = fam_of ex_z3 (RN 3) /\
  semz ex_z4 (S (nlevels ex_z4)) 0 (RN 3) (fun l => match l with 1 => 0 | _ => 1 end) = Some true /\
  semz ex_z4 (S (nlevels ex_z4)) 0 (RN 3) (fun l => match l with 1 | 3 => 0 | _ => 1 end) = Some false.
Proof. vm_compute. repeat split; reflexivity. Qed.

(** add_vars(1) on [ex_z3] by the model: four levels, chain nodes 4..7, old families kept *)
Example ex_z3_add_vars :
  match zadd_vars ex_z3 1 with
  | Some (s, ch) =>
    zbdd_ok_b s = true /\ nlevels s = 4 /\ ch = [RN 7; RN 6; RN 5; RN 4; RT 1%N] /\
    fam_of s (RN 3) = fam_of ex_z3 (RN 3) /\
    fam_of s (RN 5) = Some [[2; 3]; [2]; [3]; []] /\ s_v2l s = [1; 2; 0; 3]
  | None => False
  end.
Proof. vm_compute. repeat split; reflexivity. Qed.
