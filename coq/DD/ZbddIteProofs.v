(** * The Boolean interface of the ZBDD kind, part 3: if-then-else and implication

    - levels with [None] = [LevelNo::MAX] against [rlevel] ([olev], [lcmp_olev], [lmin_olev]);
    - family identities of [pite]: the terminal cases of [apply_ite] (incl. the two
      level-dependent tautology short-cuts) and its six recursion patterns;
    - [zapply_ite_ok] for every lossy cache, operand order and sufficient fuel;
      [zapply_op_ok] for all eight operators ([imp f g = ite(f, g, taut(0))]). *)

From Coq Require Import List NArith PArith Bool Arith Lia FMapPositive.
From OxiVerif Require Import DD.Table DD.TableExtra DD.TableProofs DD.Sem DD.Build DD.BuildProofs
  DD.Apply DD.ApplyProofs DD.CanonZbdd DD.FamSpec DD.FamSpecProofs DD.ZbddOps DD.ZbddOpsProofs
  DD.ZbddSubsetProofs DD.ZbddSoundProofs DD.ZbddVars DD.ZbddVarsProofs DD.ZbddBool DD.ZbddBoolProofs
  DD.ZbddXorProofs.
Import ListNotations.

(** ** Levels *)

Definition olev (n : nat) (o : option nat) : nat := match o with Some l => l | None => n end.
Definition lvl_ok (n : nat) (o : option nat) : Prop := forall x, o = Some x -> x < n.

Lemma vlevel_rlevel : forall s r v, WF s -> zget s r = Some v ->
  olev (nlevels s) (vlevel v) = rlevel s r /\ lvl_ok (nlevels s) (vlevel v).
Proof.
  intros s [t|id] v H Ev; simpl in Ev.
  - destruct (term_val s t); [|discriminate]. inversion Ev; subst v. simpl. split; [reflexivity|].
    intros x Hx. discriminate.
  - destruct (find_node s id) as [nd|] eqn:En; [|discriminate]. inversion Ev; subst v. simpl.
    rewrite En, (wf_stored s H id nd En). split; [reflexivity|].
    intros x Hx. inversion Hx; subst x. apply (wf_level s H id nd En).
Qed.

Lemma lcmp_olev : forall n a b, lvl_ok n a -> lvl_ok n b ->
  lcmp a b = Nat.compare (olev n a) (olev n b).
Proof.
  intros n [x|] [y|] Ha Hb; simpl.
  - reflexivity.
  - specialize (Ha x eq_refl). symmetry. apply Nat.compare_lt_iff. exact Ha.
  - specialize (Hb y eq_refl). symmetry. apply Nat.compare_gt_iff. exact Hb.
  - symmetry. apply Nat.compare_refl.
Qed.

Lemma lmin_olev : forall n a b, lvl_ok n a -> lvl_ok n b ->
  olev n (lmin a b) = Nat.min (olev n a) (olev n b) /\ lvl_ok n (lmin a b).
Proof.
  intros n a b Ha Hb. unfold lmin. rewrite (lcmp_olev n a b Ha Hb).
  destruct (Nat.compare_spec (olev n a) (olev n b)); (split; [lia | assumption]).
Qed.

Lemma olev_some : forall n o, olev n o < n -> o = Some (olev n o).
Proof. intros n [x|] Hl; simpl in *; [reflexivity | lia]. Qed.

Lemma ztaut_opt_olev : forall s o, ztaut_opt s o = ztaut s (olev (nlevels s) o).
Proof. intros s [x|]; reflexivity. Qed.

(** a reference whose level is a real level is an inner node *)
Lemma rlevel_lt_node : forall s r, ref_ok s r -> rlevel s r < nlevels s ->
  exists id nd, r = RN id /\ find_node s id = Some nd.
Proof.
  intros s [t|id] O Hl; [simpl in Hl; lia|]. destruct O as [nd En]. eauto.
Qed.

(** ** [pite] *)

Lemma pite_ext : forall P P' Q Q' R R', peq P P' -> peq Q Q' -> peq R R' ->
  peq (pite P Q R) (pite P' Q' R').
Proof. intros P P' Q Q' R R' HP HQ HR S. unfold pite. rewrite (HP S), (HQ S), (HR S). reflexivity. Qed.

Lemma pite_sup : forall L P Q R, sup L Q -> sup L R -> sup L (pite P Q R).
Proof. intros L P Q R HQ HR S [[_ A]|[_ A]]; auto. Qed.

Definition pdec (P : fpred) : Prop := forall S, P S \/ ~ P S.

Lemma pite_same : forall P Q, pdec P -> peq (pite P Q Q) Q.
Proof. intros P Q Hd S. unfold pite. destruct (Hd S); tauto. Qed.

Lemma pite_f_eq_g : forall P R, pdec P -> peq (pite P P R) (pbin ZUnion P R).
Proof. intros P R Hd S. unfold pite. simpl. destruct (Hd S); tauto. Qed.

Lemma pite_f_eq_h : forall P Q, peq (pite P Q P) (pbin ZIntsec P Q).
Proof. intros P Q S. unfold pite. simpl. tauto. Qed.

Lemma pite_f_empty : forall Q R, peq (pite pempty Q R) R.
Proof. intros Q R S. unfold pite, pempty. tauto. Qed.

Lemma pite_g_empty : forall P R, peq (pite P pempty R) (pbin ZDiff R P).
Proof. intros P R S. unfold pite, pempty. simpl. tauto. Qed.

Lemma pite_h_empty : forall P Q, peq (pite P Q pempty) (pbin ZIntsec P Q).
Proof. intros P Q S. unfold pite, pempty. simpl. tauto. Qed.

(** the tautology short-cuts: [A] contains every member of the other two operands *)
Lemma pite_f_taut : forall (A Q R : fpred), (forall S, Q S -> A S) -> (forall S, R S -> A S) ->
  peq (pite A Q R) Q.
Proof. intros A Q R HQ HR S. unfold pite. split; [intros [[_ B]|[N B]]; [exact B | destruct (N (HR S B))] | intros B; left; auto]. Qed.

Lemma pite_g_taut : forall (A P R : fpred), pdec P -> (forall S, P S -> A S) ->
  peq (pite P A R) (pbin ZUnion P R).
Proof.
  intros A P R Hd HP S. unfold pite. simpl. split.
  - intros [[B _]|[_ B]]; auto.
  - intros [B|B]; [left; auto|]. destruct (Hd S) as [B'|B']; [left; auto | right; auto].
Qed.

(** the recursion patterns *)

(** g alone on top *)
Lemma pite_g_top : forall L P QA QB R, sup L P -> sup L R ->
  peq (pite P (node_pred L QA QB) R) (pite P QB R).
Proof.
  intros L P QA QB R SP SR S. unfold pite, node_pred. split.
  - intros [[HP [[T [-> _]]|HQ]]|HR]; [destruct (sup_nohead L P T SP HP) | left; auto | right; exact HR].
  - intros [[HP HQ]|HR]; [left; auto | right; exact HR].
Qed.

(** h on top, g either at the same level ([Q = node QA QB], [Q' = QB]) or below ([Q' = Q]) *)
Lemma pite_h_top : forall L P Q Q' RA RB, sup L P -> sup L Q' ->
  (forall S, incr_from (Datatypes.S L) S -> (Q S <-> Q' S)) ->
  peq (pite P Q (node_pred L RA RB)) (node_pred L RA (pite P Q' RB)).
Proof.
  intros L P Q Q' RA RB SP SQ HQ S. unfold pite, node_pred. split.
  - intros [[HP HQS]|[HN [[T [-> HT]]|HR]]].
    + right. left. split; [exact HP|]. apply (HQ S (SP S HP)). exact HQS.
    + left. eauto.
    + right. right. auto.
  - intros [[T [-> HT]]|[[HP HQS]|[HN HR]]].
    + right. split; [intros HP; apply (sup_nohead L P T SP HP) | left; eauto].
    + left. split; [exact HP|]. apply (HQ S (SP S HP)). exact HQS.
    + right. auto.
Qed.

(** f alone on top *)
Lemma pite_f_top : forall L PA PB Q R, sup L Q -> sup L R ->
  peq (pite (node_pred L PA PB) Q R) (pite PB Q R).
Proof.
  intros L PA PB Q R SQ SR S. unfold pite, node_pred. split.
  - intros [[[[T [-> _]]|HP] HQ]|[HN HR]].
    + destruct (sup_nohead L Q T SQ HQ).
    + left. auto.
    + right. split; [intros HP; apply HN; right; exact HP | exact HR].
  - intros [[HP HQ]|[HN HR]]; [left; auto|].
    right. split; [|exact HR]. intros [[T [-> _]]|HP]; [apply (sup_nohead L R T SR HR) | auto].
Qed.

(** f and g on top, h below *)
Lemma pite_fg_top : forall L PA PB QA QB R, sup L PB -> sup L QB -> sup L R ->
  peq (pite (node_pred L PA PB) (node_pred L QA QB) R)
      (node_pred L (pbin ZIntsec PA QA) (pite PB QB R)).
Proof.
  intros L PA PB QA QB R SP SQ SR S. unfold pite, node_pred. simpl. split.
  - intros [[[[T [-> HA]]|HP] [[T' [E' HA']]|HQ]]|[HN HR]].
    + inversion E'; subst T'. left. eauto.
    + destruct (sup_nohead L QB T SQ HQ).
    + subst S. destruct (sup_nohead L PB T' SP HP).
    + right. left. auto.
    + right. right. split; [intros HP; apply HN; right; exact HP | exact HR].
  - intros [[T [-> [HA HA']]]|[[HP HQ]|[HN HR]]].
    + left. split; left; eauto.
    + left. split; right; assumption.
    + right. split; [|exact HR]. intros [[T [-> _]]|HP]; [apply (sup_nohead L R T SR HR) | auto].
Qed.

(** f and h on top, g below *)
Lemma pite_fh_top : forall L PA PB Q RA RB, sup L PB -> sup L Q -> sup L RB ->
  peq (pite (node_pred L PA PB) Q (node_pred L RA RB))
      (node_pred L (pbin ZDiff RA PA) (pite PB Q RB)).
Proof.
  intros L PA PB Q RA RB SP SQ SR S. unfold pite, node_pred. simpl. split.
  - intros [[[[T [-> HA]]|HP] HQ]|[HN [[T [-> HT]]|HR]]].
    + destruct (sup_nohead L Q T SQ HQ).
    + right. left. auto.
    + left. exists T. split; [reflexivity|]. split; [exact HT|]. intros HA. apply HN. left. eauto.
    + right. right. split; [intros HP; apply HN; right; exact HP | exact HR].
  - intros [[T [-> [HT HN]]]|[[HP HQ]|[HN HR]]].
    + right. split; [|left; eauto]. intros [[T' [E' HA]]|HP]; [inversion E'; subst; auto | apply (sup_nohead L PB T SP HP)].
    + left. split; [right; exact HP | exact HQ].
    + right. split; [|right; exact HR]. intros [[T [-> _]]|HP]; [apply (sup_nohead L RB T SR HR) | auto].
Qed.

(** all three on top *)
Lemma pite_all_top : forall L PA PB QA QB RA RB, sup L PB -> sup L QB -> sup L RB ->
  peq (pite (node_pred L PA PB) (node_pred L QA QB) (node_pred L RA RB))
      (node_pred L (pite PA QA RA) (pite PB QB RB)).
Proof.
  intros L PA PB QA QB RA RB SP SQ SR S. unfold pite, node_pred. split.
  - intros [[[[T [-> HA]]|HP] [[T' [E' HA']]|HQ]]|[HN [[T [-> HT]]|HR]]].
    + inversion E'; subst T'. left. exists T. split; [reflexivity|]. left. auto.
    + destruct (sup_nohead L QB T SQ HQ).
    + subst S. destruct (sup_nohead L PB T' SP HP).
    + right. left. auto.
    + left. exists T. split; [reflexivity|]. right. split; [|exact HT]. intros HA. apply HN. left. eauto.
    + right. right. split; [intros HP; apply HN; right; exact HP | exact HR].
  - intros [[T [-> [[HA HA']|[HN HT]]]]|[[HP HQ]|[HN HR]]].
    + left. split; left; eauto.
    + right. split; [|left; eauto]. intros [[T' [E' HA]]|HP]; [inversion E'; subst; auto | apply (sup_nohead L PB T SP HP)].
    + left. split; right; assumption.
    + right. split; [|right; exact HR]. intros [[T [-> _]]|HP]; [apply (sup_nohead L RB T SR HR) | auto].
Qed.

(** ** [apply_ite] *)

Section ZIte.
Variable gt : ref -> ref -> bool.
Variable C : Type.
Variable cget : C -> N -> list ref -> list nat -> option ref.
Variable cadd : C -> N -> list ref -> list nat -> ref -> C.
Hypothesis Hlossy : zlossy C cget cadd.

Notation ZCacheOKB := (ZCacheOKB C cget).
Notation zresult_okB := (zresult_okB C cget).

Lemma zapply_ite_S : forall n s c f g h,
  zapply_ite gt C cget cadd (S n) s c f g h =
    if ref_eqb g h then Some (s, c, g)
    else if ref_eqb f g then zapply gt C cget cadd (S n) s c ZUnion f h
    else if ref_eqb f h then zapply gt C cget cadd (S n) s c ZIntsec f g
    else
      match zget s f with
      | None => None
      | Some fnode =>
        if is_empty_b s f then Some (s, c, h)
        else
          match zget s g with
          | None => None
          | Some gnode =>
            if is_empty_b s g then zapply gt C cget cadd (S n) s c ZDiff h f
            else
              match zget s h with
              | None => None
              | Some hnode =>
                if is_empty_b s h then zapply gt C cget cadd (S n) s c ZIntsec f g
                else
                  let flevel := vlevel fnode in
                  let glevel := vlevel gnode in
                  let hlevel := vlevel hnode in
                  let ghlevel := lmin glevel hlevel in
                  let level := lmin flevel ghlevel in
                  match ztaut_opt s level with
                  | None => None
                  | Some taut =>
                    if ref_eqb f taut then Some (s, c, g)
                    else if ref_eqb g taut then zapply gt C cget cadd (S n) s c ZUnion f h
                    else
                      match cget c zcode_ite [f; g; h] [] with
                      | Some r => Some (s, c, r)
                      | None =>
                        let res :=
                          match lcmp flevel ghlevel with
                          | Gt =>
                            match lcmp glevel hlevel with
                            | Lt =>
                              match zkids gnode with
                              | Some (_, glo) => zapply_ite gt C cget cadd n s c f glo h
                              | None => None
                              end
                            | cmp =>
                              match zkids hnode, level with
                              | Some (hhi, hlo), Some lv =>
                                let g' :=
                                  match cmp with
                                  | Eq => match zkids gnode with Some (_, glo) => Some glo | None => None end
                                  | _ => Some g
                                  end in
                                match g' with
                                | None => None
                                | Some g' =>
                                  match zapply_ite gt C cget cadd n s c f g' hlo with
                                  | None => None
                                  | Some (s1, c1, lo) =>
                                    let '(s2, r) := zmk_node s1 lv hhi lo in Some (s2, c1, r)
                                  end
                                end
                              | _, _ => None
                              end
                            end
                          | Lt =>
                            match zkids fnode with
                            | Some (_, flo) => zapply_ite gt C cget cadd n s c flo g h
                            | None => None
                            end
                          | Eq =>
                            match zkids fnode, level with
                            | Some (fhi, flo), Some lv =>
                              let hilo :=
                                match lcmp hlevel flevel with
                                | Gt =>
                                  match zkids gnode with
                                  | Some (ghi, glo) =>
                                    match zapply gt C cget cadd (S n) s c ZIntsec fhi ghi with
                                    | None => None
                                    | Some (s1, c1, hi) =>
                                      match zapply_ite gt C cget cadd n s1 c1 flo glo h with
                                      | None => None
                                      | Some (s2, c2, lo) => Some (s2, c2, hi, lo)
                                      end
                                    end
                                  | None => None
                                  end
                                | _ =>
                                  match lcmp glevel flevel with
                                  | Gt =>
                                    match zkids hnode with
                                    | Some (hhi, hlo) =>
                                      match zapply gt C cget cadd (S n) s c ZDiff hhi fhi with
                                      | None => None
                                      | Some (s1, c1, hi) =>
                                        match zapply_ite gt C cget cadd n s1 c1 flo g hlo with
                                        | None => None
                                        | Some (s2, c2, lo) => Some (s2, c2, hi, lo)
                                        end
                                      end
                                    | None => None
                                    end
                                  | _ =>
                                    match zkids gnode, zkids hnode with
                                    | Some (ghi, glo), Some (hhi, hlo) =>
                                      match zapply_ite gt C cget cadd n s c fhi ghi hhi with
                                      | None => None
                                      | Some (s1, c1, hi) =>
                                        match zapply_ite gt C cget cadd n s1 c1 flo glo hlo with
                                        | None => None
                                        | Some (s2, c2, lo) => Some (s2, c2, hi, lo)
                                        end
                                      end
                                    | _, _ => None
                                    end
                                  end
                                end in
                              match hilo with
                              | None => None
                              | Some (s2, c2, hi, lo) =>
                                let '(s3, r) := zmk_node s2 lv hi lo in Some (s3, c2, r)
                              end
                            | _, _ => None
                            end
                          end in
                        match res with
                        | None => None
                        | Some (s', c', r) => Some (s', cadd c' zcode_ite [f; g; h] [] r, r)
                        end
                      end
                  end
              end
          end
      end.
Proof. reflexivity. Qed.

Lemma zite_entry : forall s f g h P Q R r,
  ZDen s f P -> ZDen s g Q -> ZDen s h R -> ZDen s r (pite P Q R) ->
  zentry_ok s zcode_ite [f; g; h] [] r /\ zentry_x s zcode_ite [f; g; h] [] r.
Proof.
  intros s f g h P Q R r DF DG DH DR. split.
  - apply zentry_ok_other; intros o; destruct o; discriminate.
  - intros _. exists P, Q, R. auto.
Qed.

(** the second of two recursive results, as a pair of edges for [zmk_node] *)
Lemma zpair_mk : forall s s1 hi RA res2 RB L,
  ZbddOK s -> ZbddOK s1 -> extends s s1 -> ZDen s1 hi RA -> zresult_okB s1 res2 RB ->
  L < nlevels s -> sup L RA -> sup L RB ->
  zresult_okB s
    (match
       match res2 with
       | None => None
       | Some (s2, c2, lo) => Some (s2, c2, hi, lo)
       end
     with
     | None => None
     | Some (s2, c2, hi, lo) => let '(s3, r) := zmk_node s2 L hi lo in Some (s3, c2, r)
     end) (node_pred L RA RB).
Proof.
  intros s s1 hi RA res2 RB L B B1 X1 D1 (s2 & c2 & lo & E2 & B2 & X2 & O2 & D2) HL SA SB. subst res2.
  assert (HL2 : L < nlevels s2) by (rewrite (ext_nlevels _ _ X2), (ext_nlevels _ _ X1); exact HL).
  destruct (zmk2B C cget s1 s2 c2 L hi lo _ _ B1 B2 X2 O2 HL2 D1 D2 SA SB) as (s3 & r & Em & B3 & X3 & O3 & D3).
  rewrite Em. exists s3, c2, r. split; [reflexivity|]. split; [exact B3|].
  split; [apply (extends_trans _ _ _ X1 (extends_trans _ _ _ X2 X3))|]. split; [exact O3 | exact D3].
Qed.

Theorem zapply_ite_ok : forall fuel s c f g h P Q R,
  ZbddOK s -> ZChainOK s -> ZCacheOKB s c -> ZDen s f P -> ZDen s g Q -> ZDen s h R ->
  nlevels s - Nat.min (rlevel s f) (Nat.min (rlevel s g) (rlevel s h)) < fuel ->
  zresult_okB s (zapply_ite gt C cget cadd fuel s c f g h) (pite P Q R).
Proof.
  induction fuel as [|n IH]; intros s c f g h P Q R B Hch O DF DG DH Hfuel; [lia|].
  rewrite zapply_ite_S.
  pose proof (zo_wf s B) as H.
  pose proof (zden_dec s f P) as HdP. assert (Hd : pdec P) by (intros S; apply HdP; exact DF). clear HdP.
  pose proof (rlevel_le s H f) as LeF. pose proof (rlevel_le s H g) as LeG. pose proof (rlevel_le s H h) as LeH.
  (* g == h *)
  destruct (ref_eqb g h) eqn:E1.
  { apply ref_eqb_eq in E1. subst h. apply (zresultB_here C cget); auto.
    apply (zden_ext s g Q); [exact DG|]. intros S.
    rewrite (pite_ext P P Q Q R Q (peq_refl P) (peq_refl Q) (zden_unique s g R Q DH DG) S).
    symmetry. apply pite_same. exact Hd. }
  (* f == g *)
  destruct (ref_eqb f g) eqn:E2.
  { apply ref_eqb_eq in E2. subst g.
    apply (zresultB_ext C cget s _ (pbin ZUnion P R)).
    - intros S. rewrite (pite_ext P P Q P R R (peq_refl P) (zden_unique s f Q P DG DF) (peq_refl R) S).
      symmetry. apply pite_f_eq_g. exact Hd.
    - apply (zapply_okB gt C cget cadd Hlossy); auto. lia. }
  (* f == h *)
  destruct (ref_eqb f h) eqn:E3.
  { apply ref_eqb_eq in E3. subst h.
    apply (zresultB_ext C cget s _ (pbin ZIntsec P Q)).
    - intros S. rewrite (pite_ext P P Q Q R P (peq_refl P) (peq_refl Q) (zden_unique s f R P DH DF) S).
      symmetry. apply pite_f_eq_h.
    - apply (zapply_okB gt C cget cadd Hlossy); auto. lia. }
  apply ref_eqb_false in E1. apply ref_eqb_false in E2. apply ref_eqb_false in E3.
  destruct (zget_total s f (zden_ok _ _ _ DF)) as [vf Evf]. rewrite Evf.
  destruct (is_empty_b s f) eqn:Ef.
  { destruct (is_empty_b_true s f Ef) as [t [-> Et]]. apply (zresultB_here C cget); auto.
    apply (zden_ext s h R); [exact DH|]. intros S.
    rewrite (pite_ext P pempty Q Q R R (zden_unique s _ P pempty DF (zden_empty s t B Et)) (peq_refl Q) (peq_refl R) S).
    symmetry. apply pite_f_empty. }
  destruct (zget_total s g (zden_ok _ _ _ DG)) as [vg Evg]. rewrite Evg.
  destruct (is_empty_b s g) eqn:Eg.
  { destruct (is_empty_b_true s g Eg) as [t [-> Et]].
    apply (zresultB_ext C cget s _ (pbin ZDiff R P)).
    - intros S.
      rewrite (pite_ext P P Q pempty R R (peq_refl P) (zden_unique s _ Q pempty DG (zden_empty s t B Et)) (peq_refl R) S).
      symmetry. apply pite_g_empty.
    - apply (zapply_okB gt C cget cadd Hlossy); auto. lia. }
  destruct (zget_total s h (zden_ok _ _ _ DH)) as [vh Evh]. rewrite Evh.
  destruct (is_empty_b s h) eqn:Eh.
  { destruct (is_empty_b_true s h Eh) as [t [-> Et]].
    apply (zresultB_ext C cget s _ (pbin ZIntsec P Q)).
    - intros S.
      rewrite (pite_ext P P Q Q R pempty (peq_refl P) (peq_refl Q) (zden_unique s _ R pempty DH (zden_empty s t B Et)) S).
      symmetry. apply pite_h_empty.
    - apply (zapply_okB gt C cget cadd Hlossy); auto. lia. }
  cbv zeta.
  (* levels *)
  set (N := nlevels s) in *.
  destruct (vlevel_rlevel s f vf H Evf) as [VF OF]. destruct (vlevel_rlevel s g vg H Evg) as [VG OG].
  destruct (vlevel_rlevel s h vh H Evh) as [VH OH]. fold N in VF, VG, VH, OF, OG, OH.
  destruct (lmin_olev N (vlevel vg) (vlevel vh) OG OH) as [VGH OGH].
  destruct (lmin_olev N (vlevel vf) _ OF OGH) as [VL OL].
  rewrite VGH in VL. rewrite VF, VG, VH in *.
  set (F := rlevel s f) in *. set (G := rlevel s g) in *. set (Hh := rlevel s h) in *.
  set (GH := lmin (vlevel vg) (vlevel vh)) in *.
  set (LV := lmin (vlevel vf) GH) in *.
  set (Lv := Nat.min F (Nat.min G Hh)) in *.
  rewrite ztaut_opt_olev. fold N. rewrite VL.
  rewrite (lcmp_olev N (vlevel vf) GH OF OGH), VF, VGH.
  rewrite (lcmp_olev N (vlevel vg) (vlevel vh) OG OH), VG, VH.
  rewrite (lcmp_olev N (vlevel vh) (vlevel vf) OH OF), VH, VF.
  rewrite (lcmp_olev N (vlevel vg) (vlevel vf) OG OF), VG, VF.
  (* every member of the three operands lies within the levels [Lv, N) *)
  assert (InAll : forall r X S, ZDen s r X -> Lv <= rlevel s r -> X S -> pall N Lv S).
  { intros r X S D Hl HX. destruct (zden_support s r X S B D HX) as [I1 I2].
    split; [apply (incr_from_weaken S (rlevel s r)); [exact Hl | exact I1] | exact I2]. }
  destruct (ztaut_total s Lv Hch) as [ta Eta]. rewrite Eta.
  pose proof (ztaut_den s Lv ta B Eta) as Dta. fold N in Dta. rewrite Nat.min_l in Dta by (unfold Lv; lia).
  (* f == tautology *)
  destruct (ref_eqb f ta) eqn:E4.
  { apply ref_eqb_eq in E4. subst ta. apply (zresultB_here C cget); auto.
    apply (zden_ext s g Q); [exact DG|]. apply peq_sym.
    apply (peq_trans _ (pite (pall N Lv) Q R)).
    - apply pite_ext; [apply (zden_unique s f P _ DF Dta) | apply peq_refl | apply peq_refl].
    - apply pite_f_taut; intros S HS; [apply (InAll g Q S DG) | apply (InAll h R S DH)]; auto; unfold Lv, G, Hh; lia. }
  (* g == tautology *)
  destruct (ref_eqb g ta) eqn:E5.
  { apply ref_eqb_eq in E5. subst ta.
    apply (zresultB_ext C cget s _ (pbin ZUnion P R)).
    - apply peq_sym. apply (peq_trans _ (pite P (pall N Lv) R)).
      + apply pite_ext; [apply peq_refl | apply (zden_unique s g Q _ DG Dta) | apply peq_refl].
      + apply pite_g_taut; [exact Hd|]. intros S HS. apply (InAll f P S DF); auto. unfold Lv, F. lia.
    - apply (zapply_okB gt C cget cadd Hlossy); auto. fold N. fold F. fold Hh. lia. }
  clear E4 E5 Eta Dta ta.
  (* cache *)
  destruct (cget c zcode_ite [f; g; h] []) as [r0|] eqn:Ec.
  { destruct (O _ _ _ _ Ec) as [_ Ox]. simpl in Ox.
    destruct (Ox eq_refl) as (P0 & Q0 & R0 & D0 & D0' & D0'' & Dr).
    apply (zresultB_here C cget); auto. apply (zden_ext s r0 _ _ Dr).
    apply pite_ext; [apply (zden_unique s f P0 P D0 DF) | apply (zden_unique s g Q0 Q D0' DG) | apply (zden_unique s h R0 R D0'' DH)]. }
  apply (zfinishB C cget cadd Hlossy); [exact B| |].
  2:{ intros s' r B' X DR. apply (zite_entry s' f g h P Q R r); auto; apply (zden_extends s s' _ _ B X); assumption. }
  assert (HfuelN : N - Lv < S n) by exact Hfuel.
  (* the shape of an operand that sits at the top level *)
  assert (Node : forall r X, ZDen s r X -> rlevel s r < N ->
            exists id nd hi lo XA XB, r = RN id /\ find_node s id = Some nd /\
              nlevel nd = rlevel s r /\ zget s r = Some (ZI nd) /\ nchildren nd = [hi; lo] /\
              ZDen s (eref hi) XA /\ ZDen s (eref lo) XB /\
              rlevel s r < rlevel s (eref hi) /\ rlevel s r < rlevel s (eref lo) /\
              peq X (node_pred (rlevel s r) XA XB) /\ sup (rlevel s r) XA /\ sup (rlevel s r) XB).
  { intros r X D Hl. destruct (rlevel_lt_node s r (zden_ok _ _ _ D) Hl) as (id & nd & -> & En).
    destruct (znode_facts s id nd X B D En)
      as (_ & _ & Rr & hi & lo & XA & XB & Ec' & DA & DB & LA & LB & HX & SA & SB).
    rewrite Rr. exists id, nd, hi, lo, XA, XB. simpl zget. rewrite En. repeat (split; [auto; fail|]). auto. }
  (* an operand strictly below level L *)
  assert (Below : forall r X L, ZDen s r X -> L < rlevel s r -> sup L X).
  { intros r X L D Hl S HS. apply (zden_below s r X L S B D Hl HS). }
  destruct (Nat.compare_spec F (Nat.min G Hh)) as [HFc|HFc|HFc].
  - (* Equal: f at the top level, together with g or h or both *)
    assert (HFN : F < N) by (destruct (Nat.eq_dec F N) as [HN|HN]; [|lia];
      exfalso; (* all three are the Base terminal *)
      assert (G = N) by lia; assert (Hh = N) by lia;
      destruct g as [tg|idg]; [|destruct (zden_ok _ _ _ DG) as [nd En]; unfold G in *; rewrite (rlevel_node s idg nd En) in *; pose proof (wf_level s H idg nd En); lia];
      destruct h as [th|idh]; [|destruct (zden_ok _ _ _ DH) as [nd En]; unfold Hh in *; rewrite (rlevel_node s idh nd En) in *; pose proof (wf_level s H idh nd En); lia];
      apply E1; f_equal;
      destruct (zterm_cases s tg B (zden_ok _ _ _ DG)) as [Etg|Etg];
        [unfold is_empty_b, is_term_with in Eg; rewrite Etg in Eg; discriminate|];
      destruct (zterm_cases s th B (zden_ok _ _ _ DH)) as [Eth|Eth];
        [unfold is_empty_b, is_term_with in Eh; rewrite Eth in Eh; discriminate|];
      apply (term_val_inj s tg th 1%N H Etg Eth)).
    assert (ELv : Lv = F) by (unfold Lv; lia).
    rewrite (olev_some N LV) by (rewrite VL; lia). rewrite VL, ELv.
    destruct (Node f P DF HFN) as (idf & ndf & fhi & flo & PA & PB & -> & Enf & Elf & Zf & Ecf & DA & DB & LA & LB & HP & SA & SB).
    fold F in Elf, LA, LB, HP, SA, SB.
    assert (Evf' : vf = ZI ndf) by congruence. subst vf. simpl zkids. rewrite Ecf.
    destruct (Nat.compare_spec Hh F) as [HHc|HHc|HHc].
    + (* hlevel = flevel *)
      destruct (Node h R DH ltac:(unfold Hh in *; lia)) as (idh & ndh & hhi & hlo & RA & RB & -> & Enh & Elh & Zh & Ech & DA'' & DB'' & LA'' & LB'' & HR & SA'' & SB'').
      fold Hh in Elh, LA'', LB'', HR, SA'', SB''. rewrite HHc in *.
      assert (Evh' : vh = ZI ndh) by congruence. subst vh. simpl zkids. rewrite Ech.
      destruct (Nat.compare_spec G F) as [HGc|HGc|HGc]; [| lia |].
      * (* all three *)
        destruct (Node g Q DG ltac:(unfold G in *; lia)) as (idg & ndg & ghi & glo & QA & QB & -> & Eng & Elg & Zg & Ecg & DA' & DB' & LA' & LB' & HQ & SA' & SB').
        fold G in Elg, LA', LB', HQ, SA', SB'. rewrite HGc in *.
        assert (Evg' : vg = ZI ndg) by congruence. subst vg. simpl zkids. rewrite Ecg.
        pose proof (rlevel_le s H (eref fhi)). pose proof (rlevel_le s H (eref ghi)). pose proof (rlevel_le s H (eref hhi)).
        destruct (IH s c (eref fhi) (eref ghi) (eref hhi) PA QA RA B Hch O DA DA' DA'' ltac:(fold N; lia))
          as (s1 & c1 & hi & Er1 & B1 & X1 & O1 & D1).
        rewrite Er1.
        apply (zresultB_ext C cget s _ (node_pred F (pite PA QA RA) (pite PB QB RB))).
        { apply peq_sym. apply (peq_trans _ _ _ (pite_ext _ _ _ _ _ _ HP HQ HR)).
          apply pite_all_top; assumption. }
        apply (zpair_mk s s1 hi _ _ _ F B B1 X1 D1); auto.
        -- apply IH; auto; try (apply (zden_extends s s1 _ _ B X1); assumption).
           ++ apply (zchain_extends s s1 B B1 X1 Hch).
           ++ rewrite (ext_nlevels _ _ X1), (ext_rlevel _ _ _ X1 (zden_ok _ _ _ DB)),
                (ext_rlevel _ _ _ X1 (zden_ok _ _ _ DB')), (ext_rlevel _ _ _ X1 (zden_ok _ _ _ DB'')).
              pose proof (rlevel_le s H (eref flo)). pose proof (rlevel_le s H (eref glo)). pose proof (rlevel_le s H (eref hlo)).
              fold N. lia.
        -- apply pite_sup; assumption.
        -- apply pite_sup; assumption.
      * (* glevel > flevel: f and h on top *)
        pose proof (Below g Q F DG HGc) as SQ.
        pose proof (rlevel_le s H (eref fhi)). pose proof (rlevel_le s H (eref hhi)).
        destruct (zapply_okB gt C cget cadd Hlossy ZDiff (S n) s c (eref hhi) (eref fhi) RA PA B O DA'' DA ltac:(fold N; lia))
          as (s1 & c1 & hi & Er1 & B1 & X1 & O1 & D1).
        rewrite Er1.
        apply (zresultB_ext C cget s _ (node_pred F (pbin ZDiff RA PA) (pite PB Q RB))).
        { apply peq_sym. apply (peq_trans _ _ _ (pite_ext _ _ _ _ _ _ HP (peq_refl Q) HR)).
          apply pite_fh_top; assumption. }
        apply (zpair_mk s s1 hi _ _ _ F B B1 X1 D1); auto.
        -- apply IH; auto; try (apply (zden_extends s s1 _ _ B X1); assumption).
           ++ apply (zchain_extends s s1 B B1 X1 Hch).
           ++ rewrite (ext_nlevels _ _ X1), (ext_rlevel _ _ _ X1 (zden_ok _ _ _ DB)),
                (ext_rlevel _ _ _ X1 (zden_ok _ _ _ DG)), (ext_rlevel _ _ _ X1 (zden_ok _ _ _ DB'')).
              pose proof (rlevel_le s H (eref flo)). pose proof (rlevel_le s H (eref hlo)).
              fold N. fold G. lia.
        -- apply (pbin_sup ZDiff); assumption.
        -- apply pite_sup; assumption.
    + lia.
    + (* hlevel > flevel: f and g on top *)
      assert (HGF : G = F) by lia.
      destruct (Node g Q DG ltac:(unfold G in *; lia)) as (idg & ndg & ghi & glo & QA & QB & -> & Eng & Elg & Zg & Ecg & DA' & DB' & LA' & LB' & HQ & SA' & SB').
      fold G in Elg, LA', LB', HQ, SA', SB'. rewrite HGF in *.
      assert (Evg' : vg = ZI ndg) by congruence. subst vg. simpl zkids. rewrite Ecg.
      pose proof (Below h R F DH HHc) as SR.
      pose proof (rlevel_le s H (eref fhi)). pose proof (rlevel_le s H (eref ghi)).
      destruct (zapply_okB gt C cget cadd Hlossy ZIntsec (S n) s c (eref fhi) (eref ghi) PA QA B O DA DA' ltac:(fold N; lia))
        as (s1 & c1 & hi & Er1 & B1 & X1 & O1 & D1).
      rewrite Er1.
      apply (zresultB_ext C cget s _ (node_pred F (pbin ZIntsec PA QA) (pite PB QB R))).
      { apply peq_sym. apply (peq_trans _ _ _ (pite_ext _ _ _ _ _ _ HP HQ (peq_refl R))).
        apply pite_fg_top; assumption. }
      apply (zpair_mk s s1 hi _ _ _ F B B1 X1 D1); auto.
      * apply IH; auto; try (apply (zden_extends s s1 _ _ B X1); assumption).
        -- apply (zchain_extends s s1 B B1 X1 Hch).
        -- rewrite (ext_nlevels _ _ X1), (ext_rlevel _ _ _ X1 (zden_ok _ _ _ DB)),
             (ext_rlevel _ _ _ X1 (zden_ok _ _ _ DB')), (ext_rlevel _ _ _ X1 (zden_ok _ _ _ DH)).
           pose proof (rlevel_le s H (eref flo)). pose proof (rlevel_le s H (eref glo)).
           fold N. fold Hh. lia.
      * apply (pbin_sup ZIntsec); assumption.
      * apply pite_sup; assumption.
  - (* Less: f alone on top *)
    assert (HFN : F < N) by lia.
    destruct (Node f P DF HFN) as (idf & ndf & fhi & flo & PA & PB & -> & Enf & Elf & Zf & Ecf & DA & DB & LA & LB & HP & SA & SB).
    fold F in Elf, LA, LB, HP, SA, SB.
    assert (Evf' : vf = ZI ndf) by congruence. subst vf. simpl zkids. rewrite Ecf.
    pose proof (Below g Q F DG ltac:(fold G; lia)) as SQ.
    pose proof (Below h R F DH ltac:(fold Hh; lia)) as SR.
    apply (zresultB_ext C cget s _ (pite PB Q R)).
    { apply peq_sym. apply (peq_trans _ _ _ (pite_ext _ _ _ _ _ _ HP (peq_refl Q) (peq_refl R))).
      apply pite_f_top; assumption. }
    apply IH; auto. pose proof (rlevel_le s H (eref flo)). fold N. fold G. fold Hh. lia.
  - (* Greater: g or h (or both) above f *)
    destruct (Nat.compare_spec G Hh) as [HGc|HGc|HGc].
    + (* glevel = hlevel *)
      assert (HN : Hh < N) by lia.
      assert (ELv : Lv = Hh) by (unfold Lv; lia).
      rewrite (olev_some N LV) by (rewrite VL; lia). rewrite VL, ELv.
      destruct (Node h R DH HN) as (idh & ndh & hhi & hlo & RA & RB & -> & Enh & Elh & Zh & Ech & DA'' & DB'' & LA'' & LB'' & HR & SA'' & SB'').
      fold Hh in Elh, LA'', LB'', HR, SA'', SB''.
      assert (Evh' : vh = ZI ndh) by congruence. subst vh. simpl zkids. rewrite Ech.
      destruct (Node g Q DG ltac:(fold G; lia)) as (idg & ndg & ghi & glo & QA & QB & -> & Eng & Elg & Zg & Ecg & DA' & DB' & LA' & LB' & HQ & SA' & SB').
      fold G in Elg, LA', LB', HQ, SA', SB'. rewrite HGc in *.
      assert (Evg' : vg = ZI ndg) by congruence. subst vg. simpl zkids. rewrite Ecg.
      pose proof (Below f P Hh DF ltac:(fold F; lia)) as SP.
      apply (zresultB_ext C cget s _ (node_pred Hh RA (pite P QB RB))).
      { apply peq_sym. apply (peq_trans _ _ _ (pite_ext _ _ _ _ _ _ (peq_refl P) (peq_refl Q) HR)).
        apply pite_h_top; auto.
        intros S HS. rewrite (HQ S). unfold node_pred. split; [|auto].
        intros [[T [-> _]]|HB]; [simpl in HS; lia | exact HB]. }
      apply (zstep_mkB C cget); auto.
      * apply IH; auto. pose proof (rlevel_le s H (eref glo)). pose proof (rlevel_le s H (eref hlo)).
        fold N. fold F. lia.
      * apply pite_sup; assumption.
    + (* glevel < hlevel: g alone on top *)
      destruct (Node g Q DG ltac:(fold G; lia)) as (idg & ndg & ghi & glo & QA & QB & -> & Eng & Elg & Zg & Ecg & DA' & DB' & LA' & LB' & HQ & SA' & SB').
      fold G in Elg, LA', LB', HQ, SA', SB'.
      assert (Evg' : vg = ZI ndg) by congruence. subst vg. simpl zkids. rewrite Ecg.
      pose proof (Below f P G DF ltac:(fold F; lia)) as SP.
      pose proof (Below h R G DH ltac:(fold Hh; lia)) as SR.
      apply (zresultB_ext C cget s _ (pite P QB R)).
      { apply peq_sym. apply (peq_trans _ _ _ (pite_ext _ _ _ _ _ _ (peq_refl P) HQ (peq_refl R))).
        apply pite_g_top; assumption. }
      apply IH; auto. pose proof (rlevel_le s H (eref glo)). fold N. fold F. fold Hh. lia.
    + (* hlevel < glevel: h alone on top *)
      assert (HN : Hh < N) by lia.
      assert (ELv : Lv = Hh) by (unfold Lv; lia).
      rewrite (olev_some N LV) by (rewrite VL; lia). rewrite VL, ELv.
      destruct (Node h R DH HN) as (idh & ndh & hhi & hlo & RA & RB & -> & Enh & Elh & Zh & Ech & DA'' & DB'' & LA'' & LB'' & HR & SA'' & SB'').
      fold Hh in Elh, LA'', LB'', HR, SA'', SB''.
      assert (Evh' : vh = ZI ndh) by congruence. subst vh. simpl zkids. rewrite Ech.
      pose proof (Below f P Hh DF ltac:(fold F; lia)) as SP.
      pose proof (Below g Q Hh DG ltac:(fold G; lia)) as SQ.
      apply (zresultB_ext C cget s _ (node_pred Hh RA (pite P Q RB))).
      { apply peq_sym. apply (peq_trans _ _ _ (pite_ext _ _ _ _ _ _ (peq_refl P) (peq_refl Q) HR)).
        apply pite_h_top; auto. intros S _. reflexivity. }
      apply (zstep_mkB C cget); auto.
      * apply IH; auto. pose proof (rlevel_le s H (eref hlo)). fold N. fold F. fold G. lia.
      * apply pite_sup; assumption.
Qed.

(** ** All eight operators *)

Theorem zapply_op_ok : forall op fuel s c f g P Q,
  ZbddOK s -> ZChainOK s -> ZCacheOKB s c -> ZDen s f P -> ZDen s g Q -> nlevels s < fuel ->
  zresult_okB s (zapply_op gt C cget cadd fuel s c op f g) (pop (nlevels s) op P Q).
Proof.
  intros op fuel s c f g P Q B Hc O DF DG Hf.
  destruct op.
  - apply (zapply_op_ok_simple gt C cget cadd Hlossy); auto; discriminate.
  - apply (zapply_op_ok_simple gt C cget cadd Hlossy); auto; discriminate.
  - apply (zapply_op_ok_xor gt C cget cadd Hlossy); auto.
  - apply (zapply_op_ok_xor gt C cget cadd Hlossy); auto.
  - apply (zapply_op_ok_simple gt C cget cadd Hlossy); auto; discriminate.
  - apply (zapply_op_ok_simple gt C cget cadd Hlossy); auto; discriminate.
  - unfold zapply_op, pop. destruct (ztaut_total s 0 Hc) as [t Et]. rewrite Et.
    pose proof (ztaut_den s 0 t B Et) as Dt. rewrite Nat.min_0_l in Dt.
    apply zapply_ite_ok; auto. lia.
  - apply (zapply_op_ok_simple gt C cget cadd Hlossy); auto; discriminate.
Qed.

End ZIte.
