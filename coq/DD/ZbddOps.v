(** * The set-family operations of the ZBDD kind (C09)

    Executable definitions only (proofs: DD/ZbddOpsProofs.v, DD/ZbddSubsetProofs.v).
    Mirrors

    - oxidd-rules-zbdd/src/lib.rs: [reduce] / [reduce_borrowed] (the
      zero-suppression rule: hi = Empty => lo, else [get_or_insert]),
      [singleton_level], [make_node];
    - oxidd-rules-zbdd/src/apply_rec.rs: [apply_union], [apply_intsec],
      [apply_diff] (terminal cases, operand normalisation of the commutative
      operators, cache lookup, the three-way level comparison with their
      different recursion patterns), [subset::<VAL>] for VAL = 0, 1, -1
      (subset0, subset1, change; cache keyed by (node, var)),
      [singleton_edge], [empty_edge], [base_edge].

    ZBDD edges carry no tag, so the algorithms work on references; the node
    store is a [snap], nodes are created by [get_or_insert] (DD/Build.v).
    Recursion is on explicit fuel; [None] = fuel exhausted or one of the
    code's [unwrap]s would panic (missing terminal, dangling reference,
    [unwrap_inner] on a terminal, [var_to_level] out of range).
    [S (nlevels s)] is always enough fuel (proved).

    Levels: the code reads [node.level()], for a terminal that is
    [LevelNo::MAX]; here [None] plays the role of [MAX] ([lcmp]).

    The apply cache is abstract as in DD/Apply.v: any type [C] with a lookup
    [cget] and an insertion [cadd]; the key is (operator code, operand edges,
    numeric operands) as in [ApplyCache::get_extended] -- [subset] passes the
    variable *number* as numeric operand.  The edge order [f > g] used to
    normalise the operands of union and intersection is not observable and a
    parameter [gt]. *)

From Coq Require Import List NArith PArith Bool Arith FMapPositive.
From OxiVerif Require Import DD.Table DD.Build DD.Apply DD.FamSpec.
Import ListNotations.

(** [ZBDDOp as u8] *)
Definition zsub_code (o : zsub) : N :=
  match o with ZSubset0 => 0 | ZSubset1 => 1 | ZChange => 2 end%N.
Definition zop_code (o : zop) : N :=
  match o with ZUnion => 4 | ZIntsec => 5 | ZDiff => 6 end%N.

(** [manager.get_terminal(ZBDDTerminal::Empty)] / [(ZBDDTerminal::Base)]:
    value codes 0 / 1 ([term_of], DD/Apply.v, looks the code up in the terminal list) *)
Definition zempty (s : snap) : option ref :=
  match term_of s false with Some t => Some (RT t) | None => None end.
Definition zbase (s : snap) : option ref :=
  match term_of s true with Some t => Some (RT t) | None => None end.

(** [manager.get_node(&e).is_terminal(&ZBDDTerminal::Empty)] *)
Definition is_empty_b (s : snap) (r : ref) : bool := is_term_with s r 0%N.

(** [reduce] / [reduce_borrowed] of lib.rs: the zero-suppression rule, then
    [LevelView::get_or_insert] *)
Definition zmk_node (s : snap) (lvl : nat) (hi lo : ref) : snap * ref :=
  if is_empty_b s hi then (s, lo)
  else let '(s', e) := get_or_insert s lvl [E hi; E lo] in (s', eref e).

(** [Manager::get_node]: terminal (value code) or inner node; [None] = dangling *)
Inductive zview := ZT (v : N) | ZI (nd : node).

Definition zget (s : snap) (r : ref) : option zview :=
  match r with
  | RT t => match term_val s t with Some v => Some (ZT v) | None => None end
  | RN id => match find_node s id with Some nd => Some (ZI nd) | None => None end
  end.

(** [Node::level()]: the stored level of an inner node, [LevelNo::MAX] ([None]) for a terminal *)
Definition vlevel (v : zview) : option nat :=
  match v with ZT _ => None | ZI nd => Some (nstored nd) end.

(** [Ord::cmp] on levels with [None] = [MAX] *)
Definition lcmp (a b : option nat) : comparison :=
  match a, b with
  | Some x, Some y => Nat.compare x y
  | Some _, None => Lt
  | None, Some _ => Gt
  | None, None => Eq
  end.

(** [collect_children(node.unwrap_inner())] *)
Definition zkids (v : zview) : option (ref * ref) :=
  match v with
  | ZI nd => match nchildren nd with [hi; lo] => Some (eref hi, eref lo) | _ => None end
  | ZT _ => None
  end.

(** the terminal cases at the head of [apply_union] / [apply_intsec] /
    [apply_diff], in the order of the code *)
Inductive zt_res := ZTFail | ZTDone (r : ref) | ZTGo.

Definition zterminal (s : snap) (op : zop) (f g : ref) : zt_res :=
  match op with
  | ZUnion =>
    match zempty s with
    | None => ZTFail
    | Some empty =>
      if ref_eqb f g || ref_eqb g empty then ZTDone f
      else if ref_eqb f empty then ZTDone g
      else ZTGo
    end
  | ZIntsec =>
    if ref_eqb f g then ZTDone f
    else
      match zempty s with
      | None => ZTFail
      | Some empty =>
        if ref_eqb f empty || ref_eqb g empty then ZTDone empty else ZTGo
      end
  | ZDiff =>
    match zempty s with
    | None => ZTFail
    | Some empty =>
      if ref_eqb f g || ref_eqb f empty then ZTDone empty
      else if ref_eqb g empty then ZTDone f
      else ZTGo
    end
  end.

(** union and intersection order their operands ("make the set {f, g} unique") *)
Definition zcommutes (op : zop) : bool :=
  match op with ZUnion | ZIntsec => true | ZDiff => false end.

Section Gt.
Variable gt : ref -> ref -> bool.

Section Cache.
Variable C : Type.
Variable cget : C -> N -> list ref -> list nat -> option ref.
Variable cadd : C -> N -> list ref -> list nat -> ref -> C.

(** [apply_union], [apply_intsec], [apply_diff] (one function, the operator
    decides the branch bodies exactly where the three functions differ) *)
Fixpoint zapply (fuel : nat) (s : snap) (c : C) (op : zop) (f g : ref)
  : option (snap * C * ref) :=
  match fuel with
  | O => None
  | S n =>
    match zterminal s op f g with
    | ZTFail => None
    | ZTDone r => Some (s, c, r)
    | ZTGo =>
      let '(f, g) := if zcommutes op && gt f g then (g, f) else (f, g) in
      match cget c (zop_code op) [f; g] [] with
      | Some h => Some (s, c, h)
      | None =>
        match zget s f, zget s g with
        | Some fnode, Some gnode =>
          let res :=
            match lcmp (vlevel fnode) (vlevel gnode) with
            | Lt =>
              match zkids fnode, vlevel fnode with
              | Some (fhi, flo), Some flevel =>
                match op with
                | ZUnion | ZDiff =>
                  (* lo = op(flo, g); reduce_borrowed(flevel, fhi, lo) *)
                  match zapply n s c op flo g with
                  | None => None
                  | Some (s1, c1, lo) =>
                    let '(s2, h) := zmk_node s1 flevel fhi lo in Some (s2, c1, h)
                  end
                | ZIntsec => zapply n s c op flo g
                end
              | _, _ => None
              end
            | Eq =>
              match zkids fnode, zkids gnode, vlevel fnode with
              | Some (fhi, flo), Some (ghi, glo), Some flevel =>
                (* rec.binary(op, (fhi, ghi), (flo, glo)); reduce(flevel, hi, lo) *)
                match zapply n s c op fhi ghi with
                | None => None
                | Some (s1, c1, hi) =>
                  match zapply n s1 c1 op flo glo with
                  | None => None
                  | Some (s2, c2, lo) =>
                    let '(s3, h) := zmk_node s2 flevel hi lo in Some (s3, c2, h)
                  end
                end
              | _, _, _ => None
              end
            | Gt =>
              match zkids gnode, vlevel gnode with
              | Some (ghi, glo), Some glevel =>
                match op with
                | ZUnion =>
                  match zapply n s c op f glo with
                  | None => None
                  | Some (s1, c1, lo) =>
                    let '(s2, h) := zmk_node s1 glevel ghi lo in Some (s2, c1, h)
                  end
                | ZIntsec | ZDiff => zapply n s c op f glo
                end
              | _, _ => None
              end
            end in
          match res with
          | None => None
          | Some (s', c', h) => Some (s', cadd c' (zop_code op) [f; g] [] h, h)
          end
        | _, _ => None
        end
      end
    end
  end.

(** the last arm of the match in [subset::<VAL>]: the variable's level is above
    the root of [f] (or [f] is a terminal) *)
Definition zsubset_below (s : snap) (c : C) (op : zsub) (f : ref) (vl : nat)
  : option (snap * C * ref) :=
  match op with
  | ZSubset0 => Some (s, c, f)
  | ZSubset1 => match zempty s with Some e => Some (s, c, e) | None => None end
  | ZChange =>
    match zempty s with
    | Some e => let '(s1, h) := zmk_node s vl f e in Some (s1, c, h)
    | None => None
    end
  end.

(** [subset::<VAL>] ([ZSubset0]: VAL = 0, [ZSubset1]: VAL = 1, [ZChange]: VAL = -1);
    [var] is the variable number (only used in the cache key), [vl] its level *)
Fixpoint zsubset (fuel : nat) (s : snap) (c : C) (op : zsub) (f : ref) (var vl : nat)
  : option (snap * C * ref) :=
  match fuel with
  | O => None
  | S n =>
    match zget s f with
    | None => None
    | Some (ZT _) => zsubset_below s c op f vl
    | Some (ZI nd) =>
      match Nat.compare (nstored nd) vl with
      | Lt =>                          (* level above var_level *)
        match cget c (zsub_code op) [f] [var] with
        | Some h => Some (s, c, h)
        | None =>
          match nchildren nd with
          | [fhi; flo] =>
            match zsubset n s c op (eref fhi) var vl with
            | None => None
            | Some (s1, c1, hi) =>
              match zsubset n s1 c1 op (eref flo) var vl with
              | None => None
              | Some (s2, c2, lo) =>
                let '(s3, h) := zmk_node s2 (nstored nd) hi lo in
                Some (s3, cadd c2 (zsub_code op) [f] [var] h, h)
              end
            end
          | _ => None
          end
        end
      | Eq =>
        match nchildren nd with
        | [fhi; flo] =>
          match op with
          | ZChange =>
            (* the swap of hi and lo is intentional *)
            let '(s1, h) := zmk_node s (nstored nd) (eref flo) (eref fhi) in Some (s1, c, h)
          | ZSubset0 => Some (s, c, eref flo)       (* node.child(1 - 0) *)
          | ZSubset1 => Some (s, c, eref fhi)       (* node.child(1 - 1) *)
          end
        | _ => None
        end
      | Gt => zsubset_below s c op f vl      (* var_level above level *)
      end
    end
  end.

(** [subset0_edge] / [subset1_edge] / [change_edge]: [var_to_level] panics for
    an unknown variable *)
Definition zsubset_top (fuel : nat) (s : snap) (c : C) (op : zsub) (f : ref) (var : nat)
  : option (snap * C * ref) :=
  match nth_error (s_v2l s) var with
  | Some vl => zsubset fuel s c op f var vl
  | None => None
  end.

End Cache.
End Gt.

(** [singleton_edge]: [get_or_insert] directly (hi = Base is never Empty) *)
Definition zsingleton (s : snap) (var : nat) : option (snap * ref) :=
  match zbase s, zempty s, nth_error (s_v2l s) var with
  | Some hi, Some lo, Some lvl =>
    let '(s', e) := get_or_insert s lvl [E hi; E lo] in Some (s', eref e)
  | _, _, _ => None
  end.

(** [singleton_level] + [make_node]: the level is read from the root node of
    the singleton [var]; a terminal panics ([expect_inner]) *)
Definition zmake_node (s : snap) (var hi lo : ref) : option (snap * ref) :=
  match zget s var with
  | Some (ZI nd) => Some (zmk_node s (nstored nd) hi lo)
  | _ => None
  end.

(** ** The invariant the theorems assume, as a checker for real snapshots *)

(** a well-formed ZBDD table that has both terminals (codes 0 = Empty, 1 = Base) and no others *)
Definition zbdd_ok_b (s : snap) : bool :=
  wf_b s && kind_eqb (s_kind s) KZbdd
  && forallb (fun p : N * N => N.leb (snd p) 1) (s_terms s)
  && existsb (fun p : N * N => N.eqb (snd p) 0) (s_terms s)
  && existsb (fun p : N * N => N.eqb (snd p) 1) (s_terms s).

(** ** A cache instance: unbounded association list *)

Definition zacache := list (N * list ref * list nat * ref).

Fixpoint zac_get (c : zacache) (code : N) (args : list ref) (nums : list nat) : option ref :=
  match c with
  | [] => None
  | (k, a, m, r) :: rest =>
    if N.eqb k code && refs_eqb a args && nat_list_eqb m nums then Some r
    else zac_get rest code args nums
  end.

Definition zac_add (c : zacache) (code : N) (args : list ref) (nums : list nat) (r : ref) : zacache :=
  (code, args, nums, r) :: c.

(** the cache that never remembers anything *)
Definition znc_get (c : unit) (code : N) (args : list ref) (nums : list nat) : option ref := None.
Definition znc_add (c : unit) (code : N) (args : list ref) (nums : list nat) (r : ref) : unit := tt.
