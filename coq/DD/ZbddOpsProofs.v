(** * Correctness of the ZBDD set operations, part 1 (model: DD/ZbddOps.v)

    - [ZbddOK]: the invariant (well-formed ZBDD table with exactly the
      terminals Empty and Base), decided by [zbdd_ok_b];
    - [ZDen s r P]: reference [r] denotes the family whose members are the
      lists satisfying [P] (through [famz]);
    - [zmk_node_ok]: [reduce] with the zero-suppression rule keeps the table
      well-formed (zero-suppressed, unique), only extends it, and returns an
      edge denoting [lo u { S u {lvl} | S in hi }];
    - [zapply_ok] / [zapply_sound]: union, intersection, difference, for every
      lossy cache, operand order [gt] and sufficient fuel.

    Part 2 (subset0, subset1, change, singleton, make_node, constants):
    DD/ZbddSubsetProofs.v. *)

From Coq Require Import List NArith PArith Bool Arith Lia FMapPositive.
From OxiVerif Require Import DD.Table DD.TableExtra DD.TableProofs DD.Build DD.BuildProofs
  DD.Apply DD.ApplyProofs DD.CanonZbdd DD.FamSpec DD.FamSpecProofs DD.ZbddOps.
Import ListNotations.

(** ** The invariant *)

Record ZbddOK (s : snap) : Prop := mkZbddOK {
  zo_wf : WF s;
  zo_kind : s_kind s = KZbdd;
  zo_codes : forall t v, term_val s t = Some v -> v = 0%N \/ v = 1%N;
  zo_empty : exists t, term_val s t = Some 0%N;
  zo_base : exists t, term_val s t = Some 1%N
}.

Theorem zbdd_ok_b_spec : forall s, zbdd_ok_b s = true <-> ZbddOK s.
Proof.
  intros s. unfold zbdd_ok_b. rewrite !andb_true_iff, wf_b_spec, forallb_forall, !existsb_exists.
  split.
  - intros [[[[H Hk] Hc] [p0 [I0 E0]]] [p1 [I1 E1]]].
    apply N.eqb_eq in E0. apply N.eqb_eq in E1. destruct p0 as [t0 v0], p1 as [t1 v1]. simpl in *. subst.
    constructor; auto.
    + destruct (s_kind s); simpl in Hk; congruence.
    + intros t v E. apply assoc_N_In in E. specialize (Hc _ E). simpl in Hc.
      apply N.leb_le in Hc. lia.
    + exists t0. apply In_assoc_N; [apply (wf_term_ids s H) | exact I0].
    + exists t1. apply In_assoc_N; [apply (wf_term_ids s H) | exact I1].
  - intros B. pose proof (zo_wf s B) as H.
    destruct (zo_empty s B) as [t0 E0]. destruct (zo_base s B) as [t1 E1].
    split; [split; [split; [split|]|]|].
    + exact H.
    + rewrite (zo_kind s B). reflexivity.
    + intros [t v] Hin. simpl. apply N.leb_le.
      assert (E : term_val s t = Some v) by (apply In_assoc_N; [apply (wf_term_ids s H) | exact Hin]).
      destruct (zo_codes s B t v E); lia.
    + exists (t0, 0%N). split; [apply assoc_N_In; exact E0 | reflexivity].
    + exists (t1, 1%N). split; [apply assoc_N_In; exact E1 | reflexivity].
Qed.

Lemma zbddok_extends : forall s s', ZbddOK s -> extends s s' -> WF s' -> ZbddOK s'.
Proof.
  intros s s' B X H'. constructor.
  - exact H'.
  - rewrite (ext_kind _ _ X). apply (zo_kind s B).
  - intros t v. rewrite (ext_term_val _ _ t X). apply (zo_codes s B).
  - destruct (zo_empty s B) as [t E]. exists t. rewrite (ext_term_val _ _ t X). exact E.
  - destruct (zo_base s B) as [t E]. exists t. rewrite (ext_term_val _ _ t X). exact E.
Qed.

(** the canonicity theorems' side condition follows *)
Lemma zbddok_terms_kind : forall s, ZbddOK s -> terms_kind s.
Proof.
  intros s B. unfold terms_kind. rewrite (zo_kind s B). intros [t v] Hin. simpl.
  apply (zo_codes s B t v). apply In_assoc_N; [apply (wf_term_ids s (zo_wf s B)) | exact Hin].
Qed.

(** ** Terminals *)

Lemma zterm_of_total : forall s b, ZbddOK s -> exists t, term_of s b = Some t.
Proof.
  intros s b B. unfold term_of.
  assert (Hx : exists t, term_val s t = Some (b2c b))
    by (destruct b; [apply (zo_base s B) | apply (zo_empty s B)]).
  destruct Hx as [t Ht]. apply assoc_N_In in Ht. eapply rassoc_N_total; eauto.
Qed.

Lemma zempty_spec : forall s, ZbddOK s ->
  exists t, zempty s = Some (RT t) /\ term_val s t = Some 0%N.
Proof.
  intros s B. destruct (zterm_of_total s false B) as [t E]. exists t. unfold zempty. rewrite E.
  split; [reflexivity|]. apply (term_of_spec s false t (zo_wf s B) E).
Qed.

Lemma zbase_spec : forall s, ZbddOK s ->
  exists t, zbase s = Some (RT t) /\ term_val s t = Some 1%N.
Proof.
  intros s B. destruct (zterm_of_total s true B) as [t E]. exists t. unfold zbase. rewrite E.
  split; [reflexivity|]. apply (term_of_spec s true t (zo_wf s B) E).
Qed.

Lemma is_empty_b_true : forall s r, is_empty_b s r = true ->
  exists t, r = RT t /\ term_val s t = Some 0%N.
Proof.
  intros s [t|id]; unfold is_empty_b, is_term_with; [|discriminate].
  destruct (term_val s t) as [w|] eqn:E; [|discriminate].
  intros Hw. apply N.eqb_eq in Hw. subst. eauto.
Qed.

Lemma is_empty_b_false : forall s t, is_empty_b s (RT t) = false -> term_val s t <> Some 0%N.
Proof.
  intros s t. unfold is_empty_b, is_term_with. intros Hf E. rewrite E in Hf. discriminate.
Qed.

(** a terminal reference is the Empty terminal or the Base terminal *)
Lemma zterm_cases : forall s t, ZbddOK s -> ref_ok s (RT t) ->
  term_val s t = Some 0%N \/ term_val s t = Some 1%N.
Proof.
  intros s t B [v E]. destruct (zo_codes s B t v E) as [->| ->]; auto.
Qed.

(** ** Denotations *)

Definition fpred := lset -> Prop.

Definition ZDen (s : snap) (r : ref) (P : fpred) : Prop :=
  ref_ok s r /\ exists F, fam_of s r = Some F /\ forall S, In S F <-> P S.

Definition peq (P Q : fpred) : Prop := forall S, P S <-> Q S.

(** family of a node with hi family [PA] and lo family [PB] at level [L] *)
Definition node_pred (L : nat) (PA PB : fpred) : fpred :=
  fun S => (exists T, S = L :: T /\ PA T) \/ PB S.

Definition pempty : fpred := fun _ => False.
Definition pbase : fpred := fun S => S = [].

Lemma zden_ext : forall s r P Q, ZDen s r P -> peq P Q -> ZDen s r Q.
Proof.
  intros s r P Q [O [F [E Hm]]] Hpq. split; [exact O|]. exists F. split; [exact E|].
  intros S. rewrite (Hm S). apply Hpq.
Qed.

Lemma zden_unique : forall s r P Q, ZDen s r P -> ZDen s r Q -> peq P Q.
Proof.
  intros s r P Q [_ [F [E Hm]]] [_ [F' [E' Hm']]] S. rewrite E in E'. inversion E'; subst F'.
  rewrite <- (Hm S). apply Hm'.
Qed.

Lemma zden_ok : forall s r P, ZDen s r P -> ref_ok s r.
Proof. intros s r P [O _]. exact O. Qed.

Lemma zden_exists : forall s r, ZbddOK s -> ref_ok s r -> exists P, ZDen s r P.
Proof.
  intros s r B O. destruct (fam_of_total s (zo_wf s B) (zo_kind s B) r O) as [F E].
  exists (fun S => In S F). split; [exact O|]. exists F. split; [exact E | reflexivity].
Qed.

(** members are increasing lists of levels at or below the root *)
Lemma zden_support : forall s r P S, ZbddOK s -> ZDen s r P -> P S ->
  incr_from (rlevel s r) S /\ Forall (fun x => x < nlevels s) S.
Proof.
  intros s r P S B [_ [F [E Hm]]] HP. apply Hm in HP.
  apply (fam_of_members s (zo_wf s B) (zo_kind s B) r F S E HP).
Qed.

Lemma famz_extends : forall s s', WF s -> s_kind s = KZbdd -> extends s s' ->
  forall f r, ref_ok s r -> famz s' f r = famz s f r.
Proof.
  intros s s' H Hk X. induction f as [|f IH]; intros r Hok.
  - destruct r as [t|id]; [rewrite !famz_T, (ext_term_val _ _ t X); reflexivity | reflexivity].
  - destruct r as [t|id]; [rewrite !famz_T, (ext_term_val _ _ t X); reflexivity|].
    rewrite !famz_S. destruct Hok as [nd E]. rewrite E, (ext_nodes _ _ X id nd E).
    destruct (zchildren s H Hk id nd E) as [hi [lo Ec]]. rewrite Ec.
    destruct (zchild_ok s H id nd hi lo E Ec) as [Oh [_ [Ol _]]].
    rewrite (IH _ Oh), (IH _ Ol). reflexivity.
Qed.

Lemma fam_of_extends : forall s s' r, ZbddOK s -> extends s s' -> ref_ok s r ->
  fam_of s' r = fam_of s r.
Proof.
  intros s s' r B X O. unfold fam_of. rewrite (ext_nlevels _ _ X).
  apply (famz_extends s s' (zo_wf s B) (zo_kind s B) X). exact O.
Qed.

Lemma zden_extends : forall s s' r P, ZbddOK s -> extends s s' -> ZDen s r P -> ZDen s' r P.
Proof.
  intros s s' r P B X [O [F [E Hm]]]. split; [apply (ext_ref_ok _ _ _ X O)|].
  exists F. split; [rewrite (fam_of_extends s s' r B X O); exact E | exact Hm].
Qed.

Lemma zden_empty : forall s t, ZbddOK s -> term_val s t = Some 0%N -> ZDen s (RT t) pempty.
Proof.
  intros s t B E. split; [exists 0%N; exact E|]. exists f_empty. split.
  - rewrite (fam_of_term s t 0%N E). reflexivity.
  - intros S. simpl. reflexivity.
Qed.

Lemma zden_base : forall s t, ZbddOK s -> term_val s t = Some 1%N -> ZDen s (RT t) pbase.
Proof.
  intros s t B E. split; [exists 1%N; exact E|]. exists f_base. split.
  - rewrite (fam_of_term s t 1%N E). reflexivity.
  - intros S. unfold pbase. rewrite in_f_base. reflexivity.
Qed.

Lemma zden_node : forall s id nd hi lo PA PB, ZbddOK s ->
  find_node s id = Some nd -> nchildren nd = [hi; lo] ->
  ZDen s (eref hi) PA -> ZDen s (eref lo) PB ->
  ZDen s (RN id) (node_pred (nlevel nd) PA PB).
Proof.
  intros s id nd hi lo PA PB B E Ec [Oh [A [EA HA]]] [Ol [Bf [EB HB]]].
  split; [exists nd; exact E|]. exists (node_fam (nlevel nd) A Bf). split.
  - rewrite (fam_of_node s (zo_wf s B) (zo_kind s B) id nd hi lo E Ec), EA, EB. reflexivity.
  - intros S. rewrite in_node_fam. unfold node_pred. split.
    + intros [[T [ET HT]]|Hb]; [left; exists T; split; [exact ET | apply HA; exact HT] | right; apply HB; exact Hb].
    + intros [[T [ET HT]]|Hb]; [left; exists T; split; [exact ET | apply HA; exact HT] | right; apply HB; exact Hb].
Qed.

(** an inner node's denotation decomposes along its children *)
Lemma zden_node_inv : forall s id nd P, ZbddOK s -> ZDen s (RN id) P ->
  find_node s id = Some nd ->
  exists hi lo PA PB, nchildren nd = [hi; lo] /\
    ZDen s (eref hi) PA /\ ZDen s (eref lo) PB /\
    nlevel nd < rlevel s (eref hi) /\ nlevel nd < rlevel s (eref lo) /\
    peq P (node_pred (nlevel nd) PA PB).
Proof.
  intros s id nd P B D E. pose proof (zo_wf s B) as H. pose proof (zo_kind s B) as Hk.
  destruct (zchildren s H Hk id nd E) as [hi [lo Ec]].
  destruct (zchild_ok s H id nd hi lo E Ec) as [Oh [Lh [Ol Ll]]].
  destruct (zden_exists s (eref hi) B Oh) as [PA DA].
  destruct (zden_exists s (eref lo) B Ol) as [PB DB].
  exists hi, lo, PA, PB.
  split; [exact Ec|]. split; [exact DA|]. split; [exact DB|]. split; [exact Lh|]. split; [exact Ll|].
  apply (zden_unique s (RN id) P (node_pred (nlevel nd) PA PB) D).
  apply (zden_node s id nd hi lo PA PB B E Ec DA DB).
Qed.

(** a reference lying strictly below level [L] has no member that contains [L] or starts above *)
Lemma zden_below : forall s r P L S, ZbddOK s -> ZDen s r P -> L < rlevel s r -> P S ->
  incr_from (Datatypes.S L) S.
Proof.
  intros s r P L S B D Hl HP. destruct (zden_support s r P S B D HP) as [I1 _].
  apply (incr_from_weaken S (rlevel s r)); [lia | exact I1].
Qed.

(** ** Node construction with the zero-suppression rule *)

Section ZInsert.
Variable s : snap.
Variable lvl : nat.
Variables hi lo : ref.
Hypothesis B : ZbddOK s.
Hypothesis Hlvl : lvl < nlevels s.
Hypothesis Ohi : ref_ok s hi.
Hypothesis Olo : ref_ok s lo.
Hypothesis Lhi : lvl < rlevel s hi.
Hypothesis Llo : lvl < rlevel s lo.
Hypothesis Hne : is_empty_b s hi = false.
Hypothesis Hnodup : find_dup s lvl [E hi; E lo] = None.

Let ch := [E hi; E lo].
Let id := fresh_id s.
Let nd0 := mkNode lvl ch lvl 0%N.
Let s' := set_nodes s (PositiveMap.add id nd0 (s_nodes s)).

Lemma zins_wf : WF s'.
Proof.
  pose proof (zo_wf s B) as H. pose proof (zo_kind s B) as Hk.
  pose proof (ins_extends s lvl ch) as X. fold id nd0 s' in X.
  assert (Hred : forall c, reduced s c -> reduced s' c).
  { intros c. unfold reduced. replace (s_kind s') with (s_kind s) by reflexivity. rewrite Hk.
    intros [h [Hh Hn]]. exists h. split; [exact Hh|]. intros t Et.
    rewrite (ext_term_val _ _ t X). apply Hn. exact Et. }
  assert (Hok : forall i nd, find_node s' i = Some nd -> node_ok s' nd).
  { intros i nd E0. destruct (ins_find s lvl ch i nd E0) as [[-> ->]|[Hn E']].
    - unfold node_ok. simpl.
      split; [rewrite Hk; reflexivity|]. split; [reflexivity|]. split; [exact Hlvl|].
      split; [|split].
      + intros e [<-|[<-|[]]]; simpl.
        * split; [apply (ext_ref_ok _ _ _ X Ohi) | rewrite (ext_rlevel _ _ _ X Ohi); exact Lhi].
        * split; [apply (ext_ref_ok _ _ _ X Olo) | rewrite (ext_rlevel _ _ _ X Olo); exact Llo].
      + unfold reduced. replace (s_kind s') with (s_kind s) by reflexivity. rewrite Hk.
        exists (E hi). split; [reflexivity|]. simpl. intros t Et. subst hi.
        rewrite (ext_term_val _ _ t X). apply is_empty_b_false. exact Hne.
      + intros _ e [<-|[<-|[]]]; reflexivity.
    - unfold node_ok.
      split; [apply (wf_arity s H i nd E')|]. split; [apply (wf_stored s H i nd E')|].
      split; [apply (wf_level s H i nd E')|]. split; [|split].
      + intros e He. destruct (wf_child s H i nd e E' He) as [A A'].
        split; [apply (ext_ref_ok _ _ _ X A) | rewrite (ext_rlevel _ _ _ X A); exact A'].
      + apply Hred. apply (wf_reduced s H i nd E').
      + intros Hk' e He. apply (wf_tags s H Hk' i nd e E' He). }
  constructor.
  - apply (wf_perm_len s H).
  - apply (wf_perm_v2l s H).
  - apply (wf_perm_l2v s H).
  - intros i nd E0. apply (Hok i nd E0).
  - intros i nd E0. apply (Hok i nd E0).
  - intros i nd E0. apply (Hok i nd E0).
  - intros i nd e E0. apply (Hok i nd E0).
  - intros i nd E0. apply (Hok i nd E0).
  - intros Hk' i nd e E0. apply (Hok i nd E0). exact Hk'.
  - intros i1 i2 n1 n2 E1 E2 Hl Hc.
    destruct (ins_find s lvl ch i1 n1 E1) as [[-> ->]|[Hn1 E1']];
      destruct (ins_find s lvl ch i2 n2 E2) as [[-> ->]|[Hn2 E2']].
    + reflexivity.
    + exfalso. simpl in Hl, Hc. apply (find_dup_none s lvl ch Hnodup i2 n2 E2'); congruence.
    + exfalso. simpl in Hl, Hc. apply (find_dup_none s lvl ch Hnodup i1 n1 E1'); congruence.
    + apply (wf_unique s H i1 i2 n1 n2 E1' E2' Hl Hc).
  - apply (wf_term_ids s H).
  - apply (wf_term_vals s H).
  - intros h Hh. destruct (wf_handles s H h Hh) as [A A'].
    split; [apply (ext_ref_ok _ _ _ X A) | exact A'].
Qed.

End ZInsert.

(** [reduce] / [reduce_borrowed]: table extended and still well-formed, result
    denotes [lo u { lvl :: T | T in hi }], result at or below [lvl] *)
Theorem zmk_node_ok : forall s lvl hi lo PA PB s' r,
  ZbddOK s -> lvl < nlevels s -> ZDen s hi PA -> ZDen s lo PB ->
  lvl < rlevel s hi -> lvl < rlevel s lo ->
  zmk_node s lvl hi lo = (s', r) ->
  ZbddOK s' /\ extends s s' /\ ZDen s' r (node_pred lvl PA PB) /\ lvl <= rlevel s' r.
Proof.
  intros s lvl hi lo PA PB s' r B Hl DA DB Lh Ll. unfold zmk_node.
  destruct (is_empty_b s hi) eqn:Ee.
  - (* hi = Empty: the node is suppressed *)
    intros Heq. inversion Heq; subst s' r; clear Heq.
    destruct (is_empty_b_true s hi Ee) as [t [-> Et]].
    split; [exact B|]. split; [apply extends_refl|]. split; [|lia].
    apply (zden_ext s lo PB); [exact DB|].
    pose proof (zden_unique s (RT t) PA pempty DA (zden_empty s t B Et)) as Hpe.
    intros S. unfold node_pred. split; [auto|].
    intros [[T [_ HT]]|Hb]; [destruct (proj1 (Hpe T) HT) | exact Hb].
  - unfold get_or_insert. destruct (find_dup s lvl [E hi; E lo]) as [id|] eqn:Ed.
    + intros Heq. inversion Heq; subst s' r; clear Heq. simpl eref.
      destruct (find_dup_some s lvl _ id Ed) as [nd [E0 [El Ec]]].
      split; [exact B|]. split; [apply extends_refl|]. split.
      * rewrite <- El. apply (zden_node s id nd (E hi) (E lo) PA PB B E0 Ec); assumption.
      * simpl. rewrite E0. lia.
    + intros Heq. inversion Heq; subst s' r; clear Heq. simpl eref.
      pose proof (zden_ok _ _ _ DA) as Oh. pose proof (zden_ok _ _ _ DB) as Ol.
      pose proof (zins_wf s lvl hi lo B Hl Oh Ol Lh Ll Ee Ed) as W'.
      pose proof (ins_extends s lvl [E hi; E lo]) as X.
      set (s' := set_nodes s _) in *.
      assert (B' : ZbddOK s') by (apply (zbddok_extends s s' B X W')).
      split; [exact B'|]. split; [exact X|].
      pose proof (ins_find_new s lvl [E hi; E lo]) as En. fold s' in En.
      split.
      * apply (zden_node s' (fresh_id s) _ (E hi) (E lo) PA PB B' En eq_refl);
          simpl eref; apply (zden_extends s s' _ _ B X); assumption.
      * simpl. rewrite En. simpl. lia.
Qed.

(** ** Every reference other than the Empty terminal has a member; a node has
       one that starts with the node's level *)

Lemma fam_nonempty : forall s, ZbddOK s -> forall k r, ref_ok s r ->
  nlevels s - rlevel s r <= k ->
  (forall t, r = RT t -> term_val s t <> Some 0%N) ->
  exists F S, fam_of s r = Some F /\ In S F /\
    forall id nd, r = RN id -> find_node s id = Some nd -> exists T, S = nlevel nd :: T.
Proof.
  intros s B. pose proof (zo_wf s B) as H. pose proof (zo_kind s B) as Hk.
  induction k as [|k IH]; intros r Hok Hlev Hne.
  - destruct r as [t|id].
    + destruct (zterm_cases s t B Hok) as [E|E]; [exfalso; apply (Hne t eq_refl E)|].
      exists f_base, []. rewrite (fam_of_term s t 1%N E). simpl. split; [reflexivity|].
      split; [left; reflexivity | intros id nd Hx; discriminate].
    + destruct Hok as [nd E]. rewrite (rlevel_node s id nd E) in Hlev.
      pose proof (wf_level s H id nd E). lia.
  - destruct r as [t|id].
    + destruct (zterm_cases s t B Hok) as [E|E]; [exfalso; apply (Hne t eq_refl E)|].
      exists f_base, []. rewrite (fam_of_term s t 1%N E). simpl. split; [reflexivity|].
      split; [left; reflexivity | intros id nd Hx; discriminate].
    + destruct Hok as [nd E]. rewrite (rlevel_node s id nd E) in Hlev.
      destruct (zchildren s H Hk id nd E) as [hi [lo Ec]].
      destruct (zchild_ok s H id nd hi lo E Ec) as [Oh [Lh [Ol Ll]]].
      assert (Hnh : forall t, eref hi = RT t -> term_val s t <> Some 0%N).
      { destruct (reduced_zbdd s Hk _ (wf_reduced s H id nd E)) as [h [Hh1 Hh2]].
        rewrite Ec in Hh1. simpl in Hh1. inversion Hh1; subst h. exact Hh2. }
      destruct (IH (eref hi) Oh ltac:(lia) Hnh) as [A [T [EA [HT _]]]].
      destruct (fam_of_total s H Hk (eref lo) Ol) as [Bf EB].
      exists (node_fam (nlevel nd) A Bf), (nlevel nd :: T).
      rewrite (fam_of_node s H Hk id nd hi lo E Ec), EA, EB.
      split; [reflexivity|]. split.
      * apply in_node_fam. left. exists T. auto.
      * intros id' nd' Hx E'. inversion Hx; subst id'. rewrite E in E'. inversion E'; subst nd'.
        exists T. reflexivity.
Qed.

(** all members start at or below [L]  ==>  the root is at or below [L] *)
Lemma zden_level : forall s r P L, ZbddOK s -> ZDen s r P -> L <= nlevels s ->
  (forall S, P S -> incr_from L S) -> L <= rlevel s r.
Proof.
  intros s r P L B [O [F [E Hm]]] HL Hs. destruct r as [t|id]; [simpl; exact HL|].
  destruct O as [nd En].
  destruct (fam_nonempty s B _ (RN id) (ex_intro _ nd En) (le_n _)) as [F' [S [E' [HS Hh]]]];
    [intros t Hx; discriminate|].
  rewrite E in E'. inversion E'; subst F'.
  destruct (Hh id nd eq_refl En) as [T ->].
  apply Hm, Hs in HS. simpl in HS. rewrite (rlevel_node s id nd En). lia.
Qed.

(** ** Family identities used by the recursion *)

(** [sup L P]: every member of [P] is an increasing list starting strictly below level [L] *)
Definition sup (L : nat) (P : fpred) : Prop := forall S, P S -> incr_from (Datatypes.S L) S.

Lemma sup_nohead : forall L P T, sup L P -> P (L :: T) -> False.
Proof. intros L P T Hs HP. apply Hs in HP. simpl in HP. lia. Qed.

(** the three binary operators on predicates *)
Definition pbin (o : zop) (P Q : fpred) : fpred :=
  match o with
  | ZUnion => fun S => P S \/ Q S
  | ZIntsec => fun S => P S /\ Q S
  | ZDiff => fun S => P S /\ ~ Q S
  end.

Lemma pbin_ext : forall o P P' Q Q', peq P P' -> peq Q Q' -> peq (pbin o P Q) (pbin o P' Q').
Proof.
  intros o P P' Q Q' HP HQ S. destruct o; simpl; rewrite (HP S), (HQ S); reflexivity.
Qed.

Lemma pbin_comm : forall o P Q, zcommutes o = true -> peq (pbin o P Q) (pbin o Q P).
Proof. intros [] P Q Hc S; simpl in *; try discriminate; tauto. Qed.

Lemma pbin_sup : forall o L P Q, sup L P -> sup L Q -> sup L (pbin o P Q).
Proof. intros [] L P Q HP HQ S; simpl; intros Hx; [destruct Hx; auto | apply HP, Hx | apply HP, Hx]. Qed.

Lemma node_pred_ext : forall L PA PA' PB PB', peq PA PA' -> peq PB PB' ->
  peq (node_pred L PA PB) (node_pred L PA' PB').
Proof.
  intros L PA PA' PB PB' HA HB S. unfold node_pred. rewrite (HB S). split.
  - intros [[T [E HT]]|Hb]; [left; exists T; split; [exact E | apply HA; exact HT] | right; exact Hb].
  - intros [[T [E HT]]|Hb]; [left; exists T; split; [exact E | apply HA; exact HT] | right; exact Hb].
Qed.


Lemma pbin_node_node : forall o L PA PB QA QB, sup L PB -> sup L QB ->
  peq (node_pred L (pbin o PA QA) (pbin o PB QB))
      (pbin o (node_pred L PA PB) (node_pred L QA QB)).
Proof.
  intros o L PA PB QA QB SP SQ S. unfold node_pred.
  assert (N1 : forall T, ~ PB (L :: T)) by (intros T Hx; apply (sup_nohead L PB T SP Hx)).
  assert (N2 : forall T, ~ QB (L :: T)) by (intros T Hx; apply (sup_nohead L QB T SQ Hx)).
  clear SP SQ.
  destruct o; simpl; split.
  - intros [[T [E [Ha|Ha]]]|[Hb|Hb]]; firstorder.
  - intros [[[T [E Ha]]|Hb]|[[T [E Ha]]|Hb]]; firstorder.
  - intros [[T [E [Ha Ha']]]|[Hb Hb']]; firstorder.
  - intros [[[T [E Ha]]|Hb] [[T' [E' Ha']]|Hb']].
    + left. exists T. subst S. inversion E'; subst T'. auto.
    + subst S. destruct (N2 T Hb').
    + subst S. destruct (N1 T' Hb).
    + right. auto.
  - intros [[T [E [Ha Ha']]]|[Hb Hb']].
    + split; [left; eauto|]. intros [[T' [E' Hq]]|Hq].
      * subst S. inversion E'; subst T'. auto.
      * subst S. apply (N2 T Hq).
    + split; [right; exact Hb|]. intros [[T' [E' Hq]]|Hq]; [|auto].
      subst S. apply (N1 T' Hb).
  - intros [[[T [E Ha]]|Hb] Hn].
    + left. exists T. split; [exact E|]. split; [exact Ha|]. intros Hq. apply Hn. left. eauto.
    + right. split; [exact Hb|]. intros Hq. apply Hn. right. exact Hq.
Qed.

Lemma pbin_node_below : forall o L PA PB Q, sup L PB -> sup L Q ->
  peq (pbin o (node_pred L PA PB) Q)
      (match o with
       | ZUnion | ZDiff => node_pred L PA (pbin o PB Q)
       | ZIntsec => pbin o PB Q
       end).
Proof.
  intros o L PA PB Q SP SQ S. unfold node_pred.
  assert (N2 : forall T, ~ Q (L :: T)) by (intros T Hx; apply (sup_nohead L Q T SQ Hx)).
  clear SP SQ.
  destruct o; simpl; split.
  - intros [[[T [E Ha]]|Hb]|Hq]; firstorder.
  - intros [[T [E Ha]]|[Hb|Hq]]; firstorder.
  - intros [[[T [E Ha]]|Hb] Hq]; [subst S; destruct (N2 T Hq) | auto].
  - intros [Hb Hq]. auto.
  - intros [[[T [E Ha]]|Hb] Hn]; firstorder.
  - intros [[T [E Ha]]|[Hb Hn]]; [|auto].
    split; [left; eauto|]. intros Hq. subst S. apply (N2 T Hq).
Qed.

Lemma pbin_below_node : forall o L P QA QB, sup L P -> sup L QB ->
  peq (pbin o P (node_pred L QA QB))
      (match o with
       | ZUnion => node_pred L QA (pbin o P QB)
       | ZIntsec | ZDiff => pbin o P QB
       end).
Proof.
  intros o L P QA QB SP SQ S. unfold node_pred.
  assert (N1 : forall T, ~ P (L :: T)) by (intros T Hx; apply (sup_nohead L P T SP Hx)).
  clear SP SQ.
  destruct o; simpl; split.
  - intros [Hp|[[T [E Ha]]|Hb]]; firstorder.
  - intros [[T [E Ha]]|[Hp|Hb]]; firstorder.
  - intros [Hp [[T [E Ha]]|Hb]]; [subst S; destruct (N1 T Hp) | auto].
  - intros [Hp Hb]. auto.
  - intros [Hp Hn]. split; [exact Hp|]. intros Hb. apply Hn. right. exact Hb.
  - intros [Hp Hn]. split; [exact Hp|]. intros [[T [E Ha]]|Hb]; [|auto].
    subst S. apply (N1 T Hp).
Qed.

(** the three unary operators on predicates, as documented ([l] = level of the variable) *)
Definition psub (o : zsub) (l : nat) (P : fpred) : fpred :=
  match o with
  | ZSubset0 => fun S => P S /\ ~ In l S
  | ZSubset1 => fun S => exists S0, P S0 /\ In l S0 /\ S = sremove l S0
  | ZChange => fun S => (exists S0, P S0 /\ ~ In l S0 /\ S = sinsert l S0) \/
                        (exists S0, P S0 /\ In l S0 /\ S = sremove l S0)
  end.

Lemma psub_ext : forall o l P P', peq P P' -> peq (psub o l P) (psub o l P').
Proof.
  intros o l P P' HP S. destruct o; simpl.
  - rewrite (HP S). reflexivity.
  - split; intros [S0 [A R]]; exists S0; (split; [apply HP; exact A | exact R]).
  - split; (intros [[S0 [A R]]|[S0 [A R]]]; [left | right]; exists S0; (split; [apply HP; exact A | exact R])).
Qed.

(** ** Views of references *)

Lemma zget_total : forall s r, ref_ok s r -> exists v, zget s r = Some v.
Proof.
  intros s [t|id]; simpl; [intros [v E] | intros [nd E]]; rewrite E; eauto.
Qed.

Lemma zop_code_inj : forall o o', zop_code o = zop_code o' -> o = o'.
Proof. intros [] [] E; simpl in E; try discriminate; reflexivity. Qed.

Lemma zsub_code_inj : forall o o', zsub_code o = zsub_code o' -> o = o'.
Proof. intros [] [] E; simpl in E; try discriminate; reflexivity. Qed.

(** everything the recursion needs to know about an inner operand *)
Lemma znode_facts : forall s id nd P, ZbddOK s -> ZDen s (RN id) P -> find_node s id = Some nd ->
  nstored nd = nlevel nd /\ nlevel nd < nlevels s /\ rlevel s (RN id) = nlevel nd /\
  exists hi lo PA PB, nchildren nd = [hi; lo] /\
    ZDen s (eref hi) PA /\ ZDen s (eref lo) PB /\
    nlevel nd < rlevel s (eref hi) /\ nlevel nd < rlevel s (eref lo) /\
    peq P (node_pred (nlevel nd) PA PB) /\ sup (nlevel nd) PA /\ sup (nlevel nd) PB.
Proof.
  intros s id nd P B D E. pose proof (zo_wf s B) as H.
  split; [apply (wf_stored s H id nd E)|]. split; [apply (wf_level s H id nd E)|].
  split; [apply (rlevel_node s id nd E)|].
  destruct (zden_node_inv s id nd P B D E) as (hi & lo & PA & PB & Ec & DA & DB & Lh & Ll & Hp).
  exists hi, lo, PA, PB. repeat (split; [assumption|]). split.
  - intros S HS. apply (zden_below s (eref hi) PA _ S B DA Lh HS).
  - intros S HS. apply (zden_below s (eref lo) PB _ S B DB Ll HS).
Qed.

(** the three-way level comparison of the code, with [None] = [LevelNo::MAX] for terminals *)
Lemma lcmp_cases : forall s f g vf vg, ZbddOK s -> zget s f = Some vf -> zget s g = Some vg ->
  match lcmp (vlevel vf) (vlevel vg) with
  | Lt => exists id nd, f = RN id /\ find_node s id = Some nd /\ vf = ZI nd /\
                        nlevel nd < rlevel s g
  | Gt => exists id nd, g = RN id /\ find_node s id = Some nd /\ vg = ZI nd /\
                        nlevel nd < rlevel s f
  | Eq => (exists idf ndf idg ndg, f = RN idf /\ g = RN idg /\
             find_node s idf = Some ndf /\ find_node s idg = Some ndg /\
             vf = ZI ndf /\ vg = ZI ndg /\ nlevel ndf = nlevel ndg) \/
          (exists tf tg, f = RT tf /\ g = RT tg)
  end.
Proof.
  intros s f g vf vg B Ef Eg. pose proof (zo_wf s B) as H.
  destruct f as [tf|idf], g as [tg|idg]; simpl in Ef, Eg.
  - destruct (term_val s tf); [|discriminate]. destruct (term_val s tg); [|discriminate].
    inversion Ef; inversion Eg; subst. simpl. right. eauto.
  - destruct (term_val s tf); [|discriminate].
    destruct (find_node s idg) as [ndg|] eqn:Eng; [|discriminate].
    inversion Ef; inversion Eg; subst. simpl. exists idg, ndg.
    repeat split; auto. apply (wf_level s H idg ndg Eng).
  - destruct (find_node s idf) as [ndf|] eqn:Enf; [|discriminate].
    destruct (term_val s tg); [|discriminate].
    inversion Ef; inversion Eg; subst. simpl. exists idf, ndf.
    repeat split; auto. apply (wf_level s H idf ndf Enf).
  - destruct (find_node s idf) as [ndf|] eqn:Enf; [|discriminate].
    destruct (find_node s idg) as [ndg|] eqn:Eng; [|discriminate].
    inversion Ef; inversion Eg; subst. simpl.
    rewrite (wf_stored s H idf ndf Enf), (wf_stored s H idg ndg Eng).
    destruct (Nat.compare_spec (nlevel ndf) (nlevel ndg)) as [Hc|Hc|Hc].
    + left. exists idf, ndf, idg, ndg. repeat split; auto.
    + exists idf, ndf. repeat split; auto. rewrite Eng. exact Hc.
    + exists idg, ndg. repeat split; auto. rewrite Enf. exact Hc.
Qed.

(** ** The terminal cases *)

Lemma ref_eqb_false : forall a b, ref_eqb a b = false -> a <> b.
Proof. intros a b E Hab. apply ref_eqb_eq in Hab. congruence. Qed.

(** a terminal reference that is not the Empty terminal is the Base terminal *)
Lemma not_empty_base : forall s te t, ZbddOK s -> term_val s te = Some 0%N -> ref_ok s (RT t) ->
  RT t <> RT te -> term_val s t = Some 1%N.
Proof.
  intros s te t B Ee O Hne. destruct (zterm_cases s t B O) as [E|E]; [|exact E].
  exfalso. apply Hne. f_equal. apply (term_val_inj s t te 0%N (zo_wf s B) E Ee).
Qed.

Lemma zterminal_ok : forall s op f g P Q, ZbddOK s -> ZDen s f P -> ZDen s g Q ->
  match zterminal s op f g with
  | ZTFail => False
  | ZTDone r => ZDen s r (pbin op P Q)
  | ZTGo => f <> g /\ (forall t, f = RT t -> term_val s t = Some 1%N) /\
            (forall t, g = RT t -> term_val s t = Some 1%N)
  end.
Proof.
  intros s op f g P Q B DF DG.
  destruct (zempty_spec s B) as [te [Ee Et]].
  pose proof (zden_empty s te B Et) as DE.
  assert (Hgo : f <> g -> f <> RT te -> g <> RT te ->
          f <> g /\ (forall t, f = RT t -> term_val s t = Some 1%N) /\
          (forall t, g = RT t -> term_val s t = Some 1%N)).
  { intros A1 A2 A3. split; [exact A1|]. split; intros t ->.
    - apply (not_empty_base s te t B Et (zden_ok _ _ _ DF) A2).
    - apply (not_empty_base s te t B Et (zden_ok _ _ _ DG) A3). }
  unfold zterminal. destruct op; rewrite ?Ee.
  - (* union *)
    destruct (ref_eqb f g) eqn:E1; simpl.
    + apply ref_eqb_eq in E1. subst g. apply (zden_ext s f P); [exact DF|].
      pose proof (zden_unique s f P Q DF DG) as Hpq. intros S. simpl. rewrite <- (Hpq S). tauto.
    + destruct (ref_eqb g (RT te)) eqn:E2.
      * apply ref_eqb_eq in E2. subst g. apply (zden_ext s f P); [exact DF|].
        pose proof (zden_unique s _ Q pempty DG DE) as Hq. intros S. simpl. rewrite (Hq S).
        unfold pempty. tauto.
      * destruct (ref_eqb f (RT te)) eqn:E3.
        -- apply ref_eqb_eq in E3. subst f. apply (zden_ext s g Q); [exact DG|].
           pose proof (zden_unique s _ P pempty DF DE) as Hp. intros S. simpl. rewrite (Hp S).
           unfold pempty. tauto.
        -- apply Hgo; apply ref_eqb_false; assumption.
  - (* intsec *)
    destruct (ref_eqb f g) eqn:E1.
    + apply ref_eqb_eq in E1. subst g. apply (zden_ext s f P); [exact DF|].
      pose proof (zden_unique s f P Q DF DG) as Hpq. intros S. simpl. rewrite <- (Hpq S). tauto.
    + destruct (ref_eqb f (RT te)) eqn:E2; simpl.
      * apply ref_eqb_eq in E2. subst f. apply (zden_ext s _ pempty); [exact DE|].
        pose proof (zden_unique s _ P pempty DF DE) as Hp. intros S. simpl. rewrite (Hp S).
        unfold pempty. tauto.
      * destruct (ref_eqb g (RT te)) eqn:E3.
        -- apply ref_eqb_eq in E3. subst g. apply (zden_ext s _ pempty); [exact DE|].
           pose proof (zden_unique s _ Q pempty DG DE) as Hq. intros S. simpl. rewrite (Hq S).
           unfold pempty. tauto.
        -- apply Hgo; apply ref_eqb_false; assumption.
  - (* diff *)
    destruct (ref_eqb f g) eqn:E1; simpl.
    + apply ref_eqb_eq in E1. subst g. apply (zden_ext s _ pempty); [exact DE|].
      pose proof (zden_unique s f P Q DF DG) as Hpq. intros S. simpl. rewrite <- (Hpq S).
      unfold pempty. tauto.
    + destruct (ref_eqb f (RT te)) eqn:E2.
      * apply ref_eqb_eq in E2. subst f. apply (zden_ext s _ pempty); [exact DE|].
        pose proof (zden_unique s _ P pempty DF DE) as Hp. intros S. simpl. rewrite (Hp S).
        unfold pempty. tauto.
      * destruct (ref_eqb g (RT te)) eqn:E3.
        -- apply ref_eqb_eq in E3. subst g. apply (zden_ext s f P); [exact DF|].
           pose proof (zden_unique s _ Q pempty DG DE) as Hq. intros S. simpl. rewrite (Hq S).
           unfold pempty. tauto.
        -- apply Hgo; apply ref_eqb_false; assumption.
Qed.

(** ** The cache *)

Section ZCacheSec.
Variable gt : ref -> ref -> bool.
Variable C : Type.
Variable cget : C -> N -> list ref -> list nat -> option ref.
Variable cadd : C -> N -> list ref -> list nat -> ref -> C.

(** the only thing assumed about the cache: what it serves after an insertion
    is the inserted entry or something it served before *)
Definition zlossy : Prop :=
  forall c k a m r k' a' m' r', cget (cadd c k a m r) k' a' m' = Some r' ->
    (k' = k /\ a' = a /\ m' = m /\ r' = r) \/ cget c k' a' m' = Some r'.

Hypothesis Hlossy : zlossy.

(** an entry is correct in table [s] (for the variable order of [s]: the
    subset entries are keyed by variable number) *)
Definition zentry_ok (s : snap) (code : N) (args : list ref) (nums : list nat) (r : ref) : Prop :=
  match args, nums with
  | [f; g], [] => forall o, code = zop_code o ->
      exists P Q, ZDen s f P /\ ZDen s g Q /\ ZDen s r (pbin o P Q)
  | [f], [var] => forall o, code = zsub_code o ->
      exists P vl, nth_error (s_v2l s) var = Some vl /\ ZDen s f P /\ ZDen s r (psub o vl P)
  | _, _ => True
  end.

Definition ZCacheOK (s : snap) (c : C) : Prop :=
  forall code args nums r, cget c code args nums = Some r -> zentry_ok s code args nums r.

Lemma zentry_ok_extends : forall s s' code args nums r, ZbddOK s -> extends s s' ->
  zentry_ok s code args nums r -> zentry_ok s' code args nums r.
Proof.
  intros s s' code args nums r B X. unfold zentry_ok.
  destruct args as [|f [|g [|x rest]]]; auto.
  - destruct nums as [|var [|y rest]]; auto.
    intros Hx o Hc. destruct (Hx o Hc) as [P [vl [Ev [A D]]]]. exists P, vl.
    rewrite (ext_v2l _ _ X). split; [exact Ev|]. split; eapply zden_extends; eauto.
  - destruct nums as [|var rest]; auto.
    intros Hx o Hc. destruct (Hx o Hc) as [P [Q [A [A' D]]]]. exists P, Q.
    repeat split; eapply zden_extends; eauto.
Qed.

Lemma zcacheok_extends : forall s s' c, ZbddOK s -> extends s s' -> ZCacheOK s c -> ZCacheOK s' c.
Proof. intros s s' c B X O code args nums r E. eapply zentry_ok_extends; eauto. Qed.

Lemma zcacheok_add : forall s c code args nums r, ZCacheOK s c -> zentry_ok s code args nums r ->
  ZCacheOK s (cadd c code args nums r).
Proof.
  intros s c code args nums r O Hn code' args' nums' r' E.
  destruct (Hlossy _ _ _ _ _ _ _ _ _ E) as [[-> [-> [-> ->]]]|E']; [exact Hn | apply (O _ _ _ _ E')].
Qed.

Definition zresult_ok (s : snap) (res : option (snap * C * ref)) (R : fpred) : Prop :=
  exists s' c' r, res = Some (s', c', r) /\
    ZbddOK s' /\ extends s s' /\ ZCacheOK s' c' /\ ZDen s' r R.

Lemma zresult_ext : forall s res R R', peq R R' -> zresult_ok s res R -> zresult_ok s res R'.
Proof.
  intros s res R R' Hp (s' & c' & r & E & B & X & O & D).
  exists s', c', r. repeat (split; [assumption|]). apply (zden_ext s' r R R' D Hp).
Qed.

Lemma zresult_here : forall s c r R, ZbddOK s -> ZCacheOK s c -> ZDen s r R ->
  zresult_ok s (Some (s, c, r)) R.
Proof.
  intros s c r R B O D. exists s, c, r. split; [reflexivity|]. split; [exact B|].
  split; [apply extends_refl|]. split; [exact O | exact D].
Qed.

(** a recursive result becomes the lo child of a new node whose hi child is an old edge *)
Lemma zstep_mk : forall s res R L hi PA,
  ZbddOK s -> zresult_ok s res R -> L < nlevels s -> ZDen s hi PA -> L < rlevel s hi -> sup L R ->
  zresult_ok s
    (match res with
     | None => None
     | Some (s1, c1, lo) => let '(s2, h) := zmk_node s1 L hi lo in Some (s2, c1, h)
     end) (node_pred L PA R).
Proof.
  intros s res R L hi PA B (s1 & c1 & lo & E & B1 & X1 & O1 & D1) HL DA Lh SR. subst res.
  destruct (zmk_node s1 L hi lo) as [s2 h] eqn:Em.
  pose proof (zden_extends s s1 hi PA B X1 DA) as DA1.
  assert (HL1 : L < nlevels s1) by (rewrite (ext_nlevels _ _ X1); exact HL).
  assert (Lh1 : L < rlevel s1 hi) by (rewrite (ext_rlevel _ _ _ X1 (zden_ok _ _ _ DA)); exact Lh).
  assert (Ll1 : L < rlevel s1 lo).
  { apply (zden_level s1 lo R (S L) B1 D1); [lia | exact SR]. }
  destruct (zmk_node_ok s1 L hi lo PA R s2 h B1 HL1 DA1 D1 Lh1 Ll1 Em) as (B2 & X2 & D2 & _).
  exists s2, c1, h. split; [reflexivity|]. split; [exact B2|].
  split; [apply (extends_trans _ _ _ X1 X2)|]. split; [|exact D2].
  apply (zcacheok_extends s1 s2 c1 B1 X2 O1).
Qed.

(** storing the result of a binary operator in the cache *)
Lemma zfinish : forall s res R op f g P Q,
  ZbddOK s -> zresult_ok s res R -> ZDen s f P -> ZDen s g Q -> peq R (pbin op P Q) ->
  zresult_ok s
    (match res with
     | None => None
     | Some (s', c', h) => Some (s', cadd c' (zop_code op) [f; g] [] h, h)
     end) R.
Proof.
  intros s res R op f g P Q B (s' & c' & h & E & B' & X & O & D) DF DG Hp. subst res.
  exists s', (cadd c' (zop_code op) [f; g] [] h), h.
  split; [reflexivity|]. split; [exact B'|]. split; [exact X|]. split; [|exact D].
  apply zcacheok_add; [exact O|]. simpl. intros o Ho. apply zop_code_inj in Ho. subst o.
  exists P, Q. split; [apply (zden_extends s s' f P B X DF)|].
  split; [apply (zden_extends s s' g Q B X DG)|]. apply (zden_ext s' h R _ D Hp).
Qed.

(** ** union, intersection, difference *)

Lemma zapply_S : forall n s c op f g,
  zapply gt C cget cadd (S n) s c op f g =
    match zterminal s op f g with
    | ZTFail => None
    | ZTDone r => Some (s, c, r)
    | ZTGo =>
      let '(f, g) := if zcommutes op && gt f g then (g, f) else (f, g) in
      match cget c (zop_code op) [f; g] [] with
      | Some h => Some (s, c, h)
      | None =>
        match zget s f, zget s g with
        | Some fnode, Some gnode =>
          let res :=
            match lcmp (vlevel fnode) (vlevel gnode) with
            | Lt =>
              match zkids fnode, vlevel fnode with
              | Some (fhi, flo), Some flevel =>
                match op with
                | ZUnion | ZDiff =>
                  match zapply gt C cget cadd n s c op flo g with
                  | None => None
                  | Some (s1, c1, lo) =>
                    let '(s2, h) := zmk_node s1 flevel fhi lo in Some (s2, c1, h)
                  end
                | ZIntsec => zapply gt C cget cadd n s c op flo g
                end
              | _, _ => None
              end
            | Eq =>
              match zkids fnode, zkids gnode, vlevel fnode with
              | Some (fhi, flo), Some (ghi, glo), Some flevel =>
                match zapply gt C cget cadd n s c op fhi ghi with
                | None => None
                | Some (s1, c1, hi) =>
                  match zapply gt C cget cadd n s1 c1 op flo glo with
                  | None => None
                  | Some (s2, c2, lo) =>
                    let '(s3, h) := zmk_node s2 flevel hi lo in Some (s3, c2, h)
                  end
                end
              | _, _, _ => None
              end
            | Gt =>
              match zkids gnode, vlevel gnode with
              | Some (ghi, glo), Some glevel =>
                match op with
                | ZUnion =>
                  match zapply gt C cget cadd n s c op f glo with
                  | None => None
                  | Some (s1, c1, lo) =>
                    let '(s2, h) := zmk_node s1 glevel ghi lo in Some (s2, c1, h)
                  end
                | ZIntsec | ZDiff => zapply gt C cget cadd n s c op f glo
                end
              | _, _ => None
              end
            end in
          match res with
          | None => None
          | Some (s', c', h) => Some (s', cadd c' (zop_code op) [f; g] [] h, h)
          end
        | _, _ => None
        end
      end
    end.
Proof. reflexivity. Qed.

Theorem zapply_ok : forall op fuel s c f g P Q,
  ZbddOK s -> ZCacheOK s c -> ZDen s f P -> ZDen s g Q ->
  nlevels s - Nat.min (rlevel s f) (rlevel s g) < fuel ->
  zresult_ok s (zapply gt C cget cadd fuel s c op f g) (pbin op P Q).
Proof.
  intros op. induction fuel as [|n IH]; intros s c f g P Q B O DF DG Hfuel; [lia|].
  rewrite zapply_S.
  pose proof (zterminal_ok s op f g P Q B DF DG) as Ht.
  destruct (zterminal s op f g) as [|r|]; [destruct Ht | apply zresult_here; assumption |].
  destruct Ht as [Hne [Hf1 Hg1]].
  (* operand order of the commutative operators *)
  assert (Hsw : exists f' g' P' Q',
            (if zcommutes op && gt f g then (g, f) else (f, g)) = (f', g') /\
            ZDen s f' P' /\ ZDen s g' Q' /\ peq (pbin op P' Q') (pbin op P Q) /\ f' <> g' /\
            (forall t, f' = RT t -> term_val s t = Some 1%N) /\
            (forall t, g' = RT t -> term_val s t = Some 1%N) /\
            Nat.min (rlevel s f') (rlevel s g') = Nat.min (rlevel s f) (rlevel s g)).
  { destruct (zcommutes op && gt f g) eqn:Esw.
    - apply andb_true_iff in Esw. destruct Esw as [Ecm _].
      exists g, f, Q, P. split; [reflexivity|]. split; [exact DG|]. split; [exact DF|].
      split; [apply pbin_comm; exact Ecm|]. split; [congruence|].
      split; [exact Hg1|]. split; [exact Hf1 | apply Nat.min_comm].
    - exists f, g, P, Q. split; [reflexivity|]. split; [exact DF|]. split; [exact DG|].
      split; [intros S; reflexivity|]. auto. }
  destruct Hsw as (f' & g' & P' & Q' & Esw & DF' & DG' & Hpq & Hne' & Hf1' & Hg1' & Hmin).
  rewrite Esw. rewrite <- Hmin in Hfuel.
  clear Esw Hmin Hne Hf1 Hg1 DF DG.
  apply (zresult_ext s _ (pbin op P' Q') _ Hpq). clear Hpq P Q f g.
  pose proof (zo_wf s B) as H.
  destruct (cget c (zop_code op) [f'; g'] []) as [h|] eqn:Ec.
  - (* cache hit *)
    pose proof (O _ _ _ _ Ec op eq_refl) as Oe. simpl in Oe.
    destruct Oe as [P0 [Q0 [D0 [D0' Dh]]]].
    exists s, c, h. split; [reflexivity|]. split; [exact B|]. split; [apply extends_refl|].
    split; [exact O|].
    apply (zden_ext s h _ _ Dh). apply pbin_ext.
    + apply (zden_unique s f' P0 P' D0 DF').
    + apply (zden_unique s g' Q0 Q' D0' DG').
  - destruct (zget_total s f' (zden_ok _ _ _ DF')) as [vf Evf].
    destruct (zget_total s g' (zden_ok _ _ _ DG')) as [vg Evg].
    rewrite Evf, Evg. cbv zeta.
    apply (zfinish s _ (pbin op P' Q') op f' g' P' Q' B); [|exact DF'|exact DG'|intros S; reflexivity].
    pose proof (lcmp_cases s f' g' vf vg B Evf Evg) as Hl.
    destruct (lcmp (vlevel vf) (vlevel vg)).
    + (* same level *)
      destruct Hl as [(idf & ndf & idg & ndg & -> & -> & Enf & Eng & -> & -> & Hlev)|(tf & tg & -> & ->)].
      2:{ exfalso. apply Hne'. f_equal.
          apply (term_val_inj s tf tg 1%N H (Hf1' tf eq_refl) (Hg1' tg eq_refl)). }
      destruct (znode_facts s idf ndf P' B DF' Enf)
        as (Sf & Lf & Rf & fhi & flo & PA & PB & Ecf & DA & DB & LA & LB & HP & SA & SB).
      destruct (znode_facts s idg ndg Q' B DG' Eng)
        as (Sg & Lg & Rg & ghi & glo & QA & QB & Ecg & DA' & DB' & LA' & LB' & HQ & SA' & SB').
      simpl zkids. simpl vlevel. rewrite Ecf, Ecg, Sf. rewrite Rf, Rg in Hfuel.
      rewrite <- Hlev in *.
      pose proof (rlevel_le s H (eref fhi)). pose proof (rlevel_le s H (eref ghi)).
      pose proof (rlevel_le s H (eref flo)). pose proof (rlevel_le s H (eref glo)).
      destruct (IH s c (eref fhi) (eref ghi) PA QA B O DA DA' ltac:(lia))
        as (s1 & c1 & hi & E1 & B1 & X1 & O1 & D1).
      rewrite E1.
      assert (Hfuel2 : nlevels s1 - Nat.min (rlevel s1 (eref flo)) (rlevel s1 (eref glo)) < n).
      { rewrite (ext_nlevels _ _ X1), (ext_rlevel _ _ _ X1 (zden_ok _ _ _ DB)),
          (ext_rlevel _ _ _ X1 (zden_ok _ _ _ DB')). lia. }
      destruct (IH s1 c1 (eref flo) (eref glo) PB QB B1 O1
                  (zden_extends s s1 _ _ B X1 DB) (zden_extends s s1 _ _ B X1 DB') Hfuel2)
        as (s2 & c2 & lo & E2 & B2 & X2 & O2 & D2).
      rewrite E2.
      destruct (zmk_node s2 (nlevel ndf) hi lo) as [s3 h] eqn:Em.
      pose proof (zden_extends s1 s2 hi _ B1 X2 D1) as D1'.
      assert (HL2 : nlevel ndf < nlevels s2)
        by (rewrite (ext_nlevels _ _ X2), (ext_nlevels _ _ X1); exact Lf).
      assert (Lh2 : nlevel ndf < rlevel s2 hi).
      { apply (zden_level s2 hi _ (S (nlevel ndf)) B2 D1'); [lia|].
        apply (pbin_sup op _ PA QA SA SA'). }
      assert (Ll2 : nlevel ndf < rlevel s2 lo).
      { apply (zden_level s2 lo _ (S (nlevel ndf)) B2 D2); [lia|].
        apply (pbin_sup op _ PB QB SB SB'). }
      destruct (zmk_node_ok s2 _ hi lo _ _ s3 h B2 HL2 D1' D2 Lh2 Ll2 Em) as (B3 & X3 & D3 & _).
      exists s3, c2, h. split; [reflexivity|]. split; [exact B3|].
      split; [apply (extends_trans _ _ _ X1 (extends_trans _ _ _ X2 X3))|].
      split; [apply (zcacheok_extends s2 s3 c2 B2 X3 O2)|].
      apply (zden_ext s3 h _ _ D3). intros S.
      rewrite (pbin_node_node op (nlevel ndf) PA PB QA QB SB SB' S).
      symmetry. apply pbin_ext; assumption.
    + (* f' above g' *)
      destruct Hl as (idf & ndf & -> & Enf & -> & Hlt).
      destruct (znode_facts s idf ndf P' B DF' Enf)
        as (Sf & Lf & Rf & fhi & flo & PA & PB & Ecf & DA & DB & LA & LB & HP & SA & SB).
      simpl zkids. simpl vlevel. rewrite Ecf, Sf. rewrite Rf in Hfuel.
      pose proof (rlevel_le s H (eref flo)). pose proof (rlevel_le s H g').
      assert (SQ : sup (nlevel ndf) Q')
        by (intros S HS; apply (zden_below s g' Q' _ S B DG' Hlt HS)).
      pose proof (IH s c (eref flo) g' PB Q' B O DB DG' ltac:(lia)) as IH1.
      assert (Hp : peq (pbin op P' Q')
                 (match op with
                  | ZUnion | ZDiff => node_pred (nlevel ndf) PA (pbin op PB Q')
                  | ZIntsec => pbin op PB Q'
                  end)).
      { intros S. rewrite <- (pbin_node_below op (nlevel ndf) PA PB Q' SB SQ S).
        apply pbin_ext; [exact HP | intros S'; reflexivity]. }
      apply (zresult_ext s _ _ _ (fun S => iff_sym (Hp S))).
      destruct op.
      * apply zstep_mk; auto. apply pbin_sup; assumption.
      * exact IH1.
      * apply zstep_mk; auto. apply pbin_sup; assumption.
    + (* g' above f' *)
      destruct Hl as (idg & ndg & -> & Eng & -> & Hlt).
      destruct (znode_facts s idg ndg Q' B DG' Eng)
        as (Sg & Lg & Rg & ghi & glo & QA & QB & Ecg & DA' & DB' & LA' & LB' & HQ & SA' & SB').
      simpl zkids. simpl vlevel. rewrite Ecg, Sg. rewrite Rg in Hfuel.
      pose proof (rlevel_le s H (eref glo)). pose proof (rlevel_le s H f').
      assert (SP : sup (nlevel ndg) P')
        by (intros S HS; apply (zden_below s f' P' _ S B DF' Hlt HS)).
      pose proof (IH s c f' (eref glo) P' QB B O DF' DB' ltac:(lia)) as IH1.
      assert (Hp : peq (pbin op P' Q')
                 (match op with
                  | ZUnion => node_pred (nlevel ndg) QA (pbin op P' QB)
                  | ZIntsec | ZDiff => pbin op P' QB
                  end)).
      { intros S. rewrite <- (pbin_below_node op (nlevel ndg) P' QA QB SP SB' S).
        apply pbin_ext; [intros S'; reflexivity | exact HQ]. }
      apply (zresult_ext s _ _ _ (fun S => iff_sym (Hp S))).
      destruct op.
      * apply zstep_mk; auto. apply pbin_sup; assumption.
      * exact IH1.
      * exact IH1.
Qed.

End ZCacheSec.
