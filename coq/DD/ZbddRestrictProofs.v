(** * The Boolean interface of the ZBDD kind, part 5: restrict (C04, ZBDD)

    Family-level correctness of [restrict] / [restrict_base] (model: DD/ZbddBool.v):

    - [prestr n M lvl P]: the restriction of the family [P], seen from level
      [lvl], w.r.t. the literal map [M] (level |-> polarity): [S] is a member iff
      the set obtained from [S] by overriding the literal levels is a member of
      [P] ([ovl]); [prestr_node]: how it decomposes at level [lvl];
    - [ZCube s M lvl vars]: the cube as the code walks it; inversion lemmas,
      determinism ([zcube_agree]), stability under table extension;
    - [zrestrict_base_ok], [zrestrict_ok]: for every ZbddOK table with its
      tautology chain, valid cache, cube [vars] and sufficient fuel the model
      returns an edge denoting [prestr n M lvl P]; table only extended,
      invariants kept.

    The Boolean reading (restrict = cofactor w.r.t. the cube) is in DD/ZbddRestrictTop.v. *)

From Coq Require Import List NArith PArith Bool Arith Lia FMapPositive.
From OxiVerif Require Import DD.Table DD.TableExtra DD.TableProofs DD.Sem DD.Build DD.BuildProofs
  DD.Apply DD.ApplyProofs DD.CanonZbdd DD.FamSpec DD.FamSpecProofs DD.ZbddOps DD.ZbddOpsProofs
  DD.ZbddSubsetProofs DD.ZbddSoundProofs DD.ZbddVars DD.ZbddVarsProofs DD.ZbddBool DD.ZbddBoolProofs
  DD.ZbddXorProofs.
Import ListNotations.

(** ** [true_levels], [cm], [ovl] *)

Lemma true_levels_nil : forall c cnt from,
  (forall l, from <= l < from + cnt -> c l <> 0) -> true_levels c from cnt = [].
Proof.
  induction cnt as [|k IH]; intros from Hc; simpl; [reflexivity|].
  destruct (Nat.eqb_spec (c from) 0) as [E|_]; [destruct (Hc from ltac:(lia) E)|].
  apply IH. intros l Hl. apply Hc. lia.
Qed.

Lemma true_levels_nil_inv : forall c cnt from l,
  true_levels c from cnt = [] -> from <= l < from + cnt -> c l <> 0.
Proof.
  intros c cnt from l E Hl Hc. pose proof (true_levels_in c cnt from l Hl Hc) as Hin.
  rewrite E in Hin. destruct Hin.
Qed.

Lemma smem_cons : forall x l T, smem x (l :: T) = Nat.eqb x l || smem x T.
Proof. reflexivity. Qed.

Lemma cm_cons_other : forall M l T x, x <> l -> cm M (l :: T) x = cm M T x.
Proof.
  intros M l T x Hne. unfold cm. destruct (M x) as [[|]|]; try reflexivity.
  rewrite smem_cons. destruct (Nat.eqb_spec x l); [contradiction | reflexivity].
Qed.

Lemma cm_lit : forall M S l b, M l = Some b -> cm M S l = if b then 0 else 1.
Proof. intros M S l b E. unfold cm. rewrite E. destruct b; reflexivity. Qed.

Lemma cm_free_in : forall M S l, M l = None -> In l S -> cm M S l = 0.
Proof.
  intros M S l E Hin. unfold cm. rewrite E. apply smem_spec in Hin. rewrite Hin. reflexivity.
Qed.

Lemma cm_free_notin : forall M S l, M l = None -> ~ In l S -> cm M S l = 1.
Proof.
  intros M S l E Hin. unfold cm. rewrite E. apply smem_false in Hin. rewrite Hin. reflexivity.
Qed.

(** an element above the window does not matter *)
Lemma ovl_cons_above : forall M l T from cnt, l < from -> ovl M (l :: T) from cnt = ovl M T from cnt.
Proof.
  intros M l T from cnt Hl. unfold ovl. apply true_levels_ext. intros x Hx.
  apply cm_cons_other. lia.
Qed.

(** neither does an element at a negative literal *)
Lemma ovl_cons_neg : forall M l T from cnt, M l = Some false -> ovl M (l :: T) from cnt = ovl M T from cnt.
Proof.
  intros M l T from cnt Hm. unfold ovl. apply true_levels_ext. intros x Hx.
  destruct (Nat.eq_dec x l) as [->|Hne]; [|apply cm_cons_other; exact Hne].
  rewrite !(cm_lit M _ l false Hm). reflexivity.
Qed.

Lemma ovl_incr : forall M S from cnt, incr_from from (ovl M S from cnt).
Proof. intros M S from cnt. apply true_levels_incr. Qed.

Lemma ovl_step : forall M S from k,
  ovl M S from (Datatypes.S k) =
    if Nat.eqb (cm M S from) 0 then from :: ovl M S (Datatypes.S from) k else ovl M S (Datatypes.S from) k.
Proof. reflexivity. Qed.

(** ** [prestr] *)

Lemma prestr_ext : forall n M lvl P P', peq P P' -> peq (prestr n M lvl P) (prestr n M lvl P').
Proof. intros n M lvl P P' HP S. unfold prestr. rewrite (HP _). reflexivity. Qed.

Lemma prestr_ext_M : forall n M M' lvl P, (forall l, lvl <= l < n -> M l = M' l) ->
  peq (prestr n M lvl P) (prestr n M' lvl P).
Proof.
  intros n M M' lvl P HM S. unfold prestr.
  assert (E : ovl M S lvl (n - lvl) = ovl M' S lvl (n - lvl)).
  { unfold ovl. apply true_levels_ext. intros l Hl. unfold cm. rewrite (HM l) by lia. reflexivity. }
  rewrite E. reflexivity.
Qed.

Lemma prestr_sup : forall n M lvl P, sup lvl (prestr n M (S lvl) P).
Proof. intros n M lvl P S [Hi _]. exact Hi. Qed.

Lemma prestr_empty : forall n M lvl, peq (prestr n M lvl pempty) pempty.
Proof. intros n M lvl S. unfold prestr, pempty. tauto. Qed.

(** the hi part and the lo part of a family at level [l] *)
Definition phi (l : nat) (P : fpred) : fpred := fun T => P (l :: T).
Definition plo (l : nat) (P : fpred) : fpred := fun S => P S /\ incr_from (Datatypes.S l) S.

Lemma phi_node : forall l PA PB, sup l PB -> peq (phi l (node_pred l PA PB)) PA.
Proof.
  intros l PA PB SB T. unfold phi, node_pred. split.
  - intros [[T' [E HA]]|HB]; [inversion E; subst; exact HA | destruct (sup_nohead l PB T SB HB)].
  - intros HA. left. eauto.
Qed.

Lemma plo_node : forall l PA PB, sup l PB -> peq (plo l (node_pred l PA PB)) PB.
Proof.
  intros l PA PB SB S. unfold plo, node_pred. split.
  - intros [[[T [-> _]]|HB] Hi]; [simpl in Hi; lia | exact HB].
  - intros HB. split; [right; exact HB | apply SB; exact HB].
Qed.

Lemma phi_below : forall l P, sup l P -> peq (phi l P) pempty.
Proof. intros l P SP T. unfold phi, pempty. split; [intros HP; apply (sup_nohead l P T SP HP) | intros []]. Qed.

Lemma plo_below : forall l P, sup l P -> peq (plo l P) P.
Proof. intros l P SP S. unfold plo. split; [intros [HP _]; exact HP | intros HP; split; [exact HP | apply SP; exact HP]]. Qed.

Lemma phi_ext : forall l P P', peq P P' -> peq (phi l P) (phi l P').
Proof. intros l P P' HP T. apply HP. Qed.

Lemma plo_ext : forall l P P', peq P P' -> peq (plo l P) (plo l P').
Proof. intros l P P' HP S. unfold plo. rewrite (HP S). reflexivity. Qed.

Lemma node_pred_empty_hi : forall L X, peq (node_pred L pempty X) X.
Proof. intros L X S. unfold node_pred, pempty. split; [intros [[T [_ []]]|HX]; exact HX | auto]. Qed.

(** the restriction decomposes at its top level according to the literal there *)
Lemma prestr_node : forall n M lvl P, lvl < n ->
  peq (prestr n M lvl P)
      (node_pred lvl
         (prestr n M (S lvl) (match M lvl with Some false => plo lvl P | _ => phi lvl P end))
         (prestr n M (S lvl) (match M lvl with Some true => phi lvl P | _ => plo lvl P end))).
Proof.
  intros n M lvl P Hl.
  apply (peq_trans _ _ _ (pdecomp lvl (prestr n M lvl P) (fun S HS => proj1 HS))).
  remember (n - S lvl) as k eqn:Ek. assert (En : n - lvl = S k) by lia.
  apply node_pred_ext.
  - intros T. unfold prestr at 1. rewrite En, ovl_step.
    rewrite (ovl_cons_above M lvl T (S lvl) k (Nat.lt_succ_diag_r lvl)).
    assert (Ec : cm M (lvl :: T) lvl = match M lvl with Some false => 1 | _ => 0 end).
    { unfold cm. destruct (M lvl) as [[|]|]; try reflexivity.
      rewrite smem_cons, Nat.eqb_refl. reflexivity. }
    rewrite Ec. unfold prestr. rewrite <- Ek.
    pose proof (ovl_incr M T (S lvl) k) as Hi.
    destruct (M lvl) as [[|]|]; simpl Nat.eqb; cbv iota; unfold phi, plo; simpl incr_from; split.
    + intros [[_ HT] [Hb HP]]. inversion Hb; subst. auto.
    + intros [HT [Hb HP]]. split; [split; [lia | exact HT]|]. split; [constructor; assumption | exact HP].
    + intros [[_ HT] [Hb HP]]. inversion Hb; subst. auto.
    + intros [HT [Hb [HP _]]]. split; [split; [lia | exact HT]|]. split; [constructor; assumption | exact HP].
    + intros [[_ HT] [Hb HP]]. inversion Hb; subst. auto.
    + intros [HT [Hb HP]]. split; [split; [lia | exact HT]|]. split; [constructor; assumption | exact HP].
  - intros S. unfold prestr at 1. rewrite En, ovl_step.
    pose proof (ovl_incr M S (Datatypes.S lvl) k) as Hi.
    unfold prestr. rewrite <- Ek. split.
    + intros [[_ [Hb HP]] HS].
      assert (Hn : ~ In lvl S) by (apply (incr_from_notin S (Datatypes.S lvl) lvl HS); lia).
      assert (Ec : cm M S lvl = match M lvl with Some true => 0 | _ => 1 end).
      { unfold cm. destruct (M lvl) as [[|]|]; try reflexivity.
        apply smem_false in Hn. rewrite Hn. reflexivity. }
      rewrite Ec in HP. split; [exact HS|]. split; [exact Hb|].
      destruct (M lvl) as [[|]|]; simpl in HP; unfold phi, plo; auto.
    + intros [HS [Hb HP]].
      assert (Hn : ~ In lvl S) by (apply (incr_from_notin S (Datatypes.S lvl) lvl HS); lia).
      assert (Ec : cm M S lvl = match M lvl with Some true => 0 | _ => 1 end).
      { unfold cm. destruct (M lvl) as [[|]|]; try reflexivity.
        apply smem_false in Hn. rewrite Hn. reflexivity. }
      rewrite Ec. split; [|exact HS].
      split; [apply (incr_from_weaken S (Datatypes.S lvl)); [lia | exact HS]|]. split; [exact Hb|].
      destruct (M lvl) as [[|]|]; simpl; unfold phi, plo in HP; tauto.
Qed.

(** levels with a negative literal on top: irrelevant for members that start below them ... *)
Lemma prestr_neg_skip : forall n M lvl L P, lvl <= L -> L <= n ->
  (forall l, lvl <= l < L -> M l = Some false) ->
  peq (fun S => prestr n M lvl P S /\ incr_from L S) (prestr n M L P).
Proof.
  intros n M lvl L P H1 H2 Hneg S. unfold prestr.
  assert (E : ovl M S lvl (n - lvl) = ovl M S L (n - L)).
  { unfold ovl. replace (n - lvl) with ((L - lvl) + (n - L)) by lia.
    rewrite true_levels_app. replace (lvl + (L - lvl)) with L by lia.
    rewrite (true_levels_nil (cm M S) (L - lvl) lvl); [reflexivity|].
    intros l Hl. rewrite (cm_lit M S l false (Hneg l ltac:(lia))). discriminate. }
  rewrite E. split.
  - intros [[_ [Hb HP]] Hi]. auto.
  - intros [Hi [Hb HP]]. split; [|exact Hi].
    split; [apply (incr_from_weaken S L); assumption | auto].
Qed.

(** ... and optional in every member *)
Lemma prestr_neg_optional : forall n M lvl P l T, lvl <= l < n -> M l = Some false ->
  incr_from (Datatypes.S l) T ->
  (prestr n M lvl P (l :: T) <-> prestr n M lvl P T).
Proof.
  intros n M lvl P l T Hl Hm HT. unfold prestr.
  rewrite (ovl_cons_neg M l T lvl (n - lvl) Hm). simpl incr_from. split.
  - intros [[_ Hi] [Hb HP]]. inversion Hb; subst.
    split; [apply (incr_from_weaken T (Datatypes.S l)); [lia | exact HT] | auto].
  - intros [Hi [Hb HP]]. split; [split; [lia | exact HT]|]. split; [constructor; [lia | exact Hb] | exact HP].
Qed.

(** a family closed under dropping optional top levels, with no member below them, is empty *)
Lemma wrap_empty : forall cnt lvl (R : fpred),
  (forall S, R S -> incr_from lvl S) ->
  (forall l T, lvl <= l < lvl + cnt -> incr_from (Datatypes.S l) T -> (R (l :: T) <-> R T)) ->
  (forall S, R S -> incr_from (lvl + cnt) S -> False) ->
  forall S, R S -> False.
Proof.
  induction cnt as [|k IH]; intros lvl R Hi Hopt Hno S HS.
  - apply (Hno S HS). rewrite Nat.add_0_r. apply Hi. exact HS.
  - apply (IH lvl R Hi) with (S := S); auto.
    + intros l T Hl HT. apply Hopt; [lia | exact HT].
    + intros S' HS' Hi'. destruct S' as [|x T].
      * apply (Hno [] HS'). exact I.
      * simpl in Hi'. destruct Hi' as [Hx HT]. destruct (Nat.eq_dec x (lvl + k)) as [->|Hne].
        -- apply (Hno T); [apply (Hopt (lvl + k) T); [lia | exact HT | exact HS']|].
           replace (lvl + Datatypes.S k) with (Datatypes.S (lvl + k)) by lia. exact HT.
        -- apply (Hno (x :: T) HS'). simpl. split; [lia | exact HT].
Qed.

(** ** Cubes *)

Lemma zcube_ref_ok : forall s M lvl vars, ZCube s M lvl vars -> ref_ok s vars.
Proof. intros s M lvl vars Hc. destruct Hc; simpl; eauto. Qed.

Lemma zcube_level : forall s M lvl vars, WF s -> ZCube s M lvl vars -> lvl <= nlevels s -> lvl <= rlevel s vars.
Proof.
  intros s M lvl vars H Hc Hl. destruct Hc; simpl.
  - exact Hl.
  - rewrite H0. assumption.
  - rewrite H0. assumption.
Qed.

(** the cube skips level [lvl]: negative literal *)
Lemma zcube_skip : forall s M lvl vars, ZCube s M lvl vars -> lvl < nlevels s -> lvl < rlevel s vars ->
  M lvl = Some false /\ ZCube s M (S lvl) vars.
Proof.
  intros s M lvl vars Hc Hl Hr. destruct Hc as [lvl t Et Hneg | lvl id nd hi En Ec Hle Hneg Hm Hc' | lvl id nd hi lo En Ec Hne He Hle Hneg Hm Hc'].
  - split; [apply Hneg; lia|]. apply ZC_term; [exact Et|]. intros l Hl'. apply Hneg. lia.
  - simpl in Hr. rewrite En in Hr. split; [apply Hneg; lia|].
    apply (ZC_dc s M (S lvl) id nd hi En Ec); auto. intros l Hl'. apply Hneg. lia.
  - simpl in Hr. rewrite En in Hr. split; [apply Hneg; lia|].
    apply (ZC_pos s M (S lvl) id nd hi lo En Ec); auto. intros l Hl'. apply Hneg. lia.
Qed.

(** the cube has a node at level [lvl]: no literal (children equal) or a positive one *)
Lemma zcube_at : forall s M lvl id nd, ZCube s M lvl (RN id) -> find_node s id = Some nd -> nlevel nd = lvl ->
  exists hi lo, nchildren nd = [E hi; E lo] /\ ZCube s M (S lvl) hi /\
    ((hi = lo /\ M lvl = None) \/ (hi <> lo /\ is_empty_b s lo = true /\ M lvl = Some true)).
Proof.
  intros s M lvl id nd Hc En El. inversion Hc as [| lvl' id' nd' hi En' Ec Hle Hneg Hm Hc' | lvl' id' nd' hi lo En' Ec Hne He Hle Hneg Hm Hc']; subst.
  - rewrite En in En'. inversion En'; subst nd'. exists hi, hi. split; [exact Ec|]. split; [exact Hc'|]. left. auto.
  - rewrite En in En'. inversion En'; subst nd'. exists hi, lo. split; [exact Ec|]. split; [exact Hc'|]. right. auto.
Qed.

(** only the literals from [lvl] on matter *)
Lemma zcube_ext : forall s M M' lvl vars, (forall l, lvl <= l -> M l = M' l) ->
  ZCube s M lvl vars -> ZCube s M' lvl vars.
Proof.
  intros s M M' lvl vars HM Hc. induction Hc as [lvl t Et Hneg | lvl id nd hi En Ec Hle Hneg Hm Hc' IH | lvl id nd hi lo En Ec Hne He Hle Hneg Hm Hc' IH].
  - apply ZC_term; [exact Et|]. intros l Hl. rewrite <- (HM l) by lia. apply Hneg. exact Hl.
  - apply (ZC_dc s M' lvl id nd hi En Ec Hle).
    + intros l Hl. rewrite <- (HM l) by lia. apply Hneg. exact Hl.
    + rewrite <- (HM _ Hle). exact Hm.
    + apply IH. intros l Hl. apply HM. lia.
  - apply (ZC_pos s M' lvl id nd hi lo En Ec Hne He Hle).
    + intros l Hl. rewrite <- (HM l) by lia. apply Hneg. exact Hl.
    + rewrite <- (HM _ Hle). exact Hm.
    + apply IH. intros l Hl. apply HM. lia.
Qed.

(** the shape determines the literals *)
Lemma zcube_agree : forall s M M' lvl vars, WF s -> ZCube s M lvl vars -> ZCube s M' lvl vars ->
  forall l, lvl <= l < nlevels s -> M l = M' l.
Proof.
  intros s M M' lvl vars H Hc. revert M'.
  induction Hc as [lvl t Et Hneg | lvl id nd hi En Ec Hle Hneg Hm Hc' IH | lvl id nd hi lo En Ec Hne He Hle Hneg Hm Hc' IH];
    intros M' Hc2 l Hl.
  - inversion Hc2; subst. rewrite (Hneg l Hl). symmetry. auto.
  - inversion Hc2 as [| lvl' id' nd' hi2 En2 Ec2 Hle2 Hneg2 Hm2 Hc2' | lvl' id' nd' hi2 lo2 En2 Ec2 Hne2 He2 Hle2 Hneg2 Hm2 Hc2']; subst;
      rewrite En in En2; inversion En2; subst nd'; rewrite Ec in Ec2; inversion Ec2; subst.
    + destruct (lt_eq_lt_dec l (nlevel nd)) as [[Hlt|Heq]|Hgt].
      * rewrite (Hneg l) by lia. symmetry. apply Hneg2. lia.
      * subst l. congruence.
      * apply (IH M' Hc2'). lia.
    + contradiction.
  - inversion Hc2 as [| lvl' id' nd' hi2 En2 Ec2 Hle2 Hneg2 Hm2 Hc2' | lvl' id' nd' hi2 lo2 En2 Ec2 Hne2 He2 Hle2 Hneg2 Hm2 Hc2']; subst;
      rewrite En in En2; inversion En2; subst nd'; rewrite Ec in Ec2; inversion Ec2; subst.
    + contradiction.
    + destruct (lt_eq_lt_dec l (nlevel nd)) as [[Hlt|Heq]|Hgt].
      * rewrite (Hneg l) by lia. symmetry. apply Hneg2. lia.
      * subst l. congruence.
      * apply (IH M' Hc2'). lia.
Qed.

(** what the code sees of the cube at level [lvl] *)
Lemma zcube_cases : forall s M lvl vars, ZbddOK s -> ZCube s M lvl vars -> lvl < nlevels s ->
  (exists vnode, zget s vars = Some vnode /\ lcmp (vlevel vnode) (Some lvl) <> Eq /\
     M lvl = Some false /\ ZCube s M (S lvl) vars) \/
  (exists vnode hi lo, zget s vars = Some vnode /\ lcmp (vlevel vnode) (Some lvl) = Eq /\
     zkids vnode = Some (hi, lo) /\ ZCube s M (S lvl) hi /\
     ((ref_eqb hi lo = true /\ M lvl = None) \/
      (ref_eqb hi lo = false /\ M lvl = Some true))).
Proof.
  intros s M lvl vars B Hc Hl. pose proof (zo_wf s B) as H.
  pose proof (zcube_level s M lvl vars H Hc ltac:(lia)) as Hge.
  destruct (zget_total s vars (zcube_ref_ok s M lvl vars Hc)) as [vnode Ev].
  destruct vars as [t|id].
  - left. exists vnode. split; [exact Ev|].
    simpl in Ev. destruct (term_val s t); [|discriminate]. inversion Ev; subst vnode. simpl.
    split; [discriminate|]. apply (zcube_skip s M lvl (RT t) Hc Hl). simpl. exact Hl.
  - simpl in Ev. destruct (find_node s id) as [nd|] eqn:En; [|discriminate]. inversion Ev; subst vnode.
    rewrite (rlevel_node s id nd En) in Hge.
    destruct (Nat.eq_dec (nlevel nd) lvl) as [Heq|Hne].
    + right. destruct (zcube_at s M lvl id nd Hc En Heq) as (hi & lo & Ec & Hc' & Hcase).
      exists (ZI nd), hi, lo. simpl zget. rewrite En. split; [reflexivity|].
      split; [simpl; rewrite (wf_stored s H id nd En), Heq; apply Nat.compare_refl|].
      split; [simpl; rewrite Ec; reflexivity|]. split; [exact Hc'|].
      destruct Hcase as [[-> Hm]|[Hne [_ Hm]]].
      * left. split; [apply ref_eqb_eq; reflexivity | exact Hm].
      * right. split; [|exact Hm]. destruct (ref_eqb hi lo) eqn:Er; [|reflexivity].
        apply ref_eqb_eq in Er. contradiction.
    + left. exists (ZI nd). simpl zget. rewrite En. split; [reflexivity|].
      split; [simpl; rewrite (wf_stored s H id nd En); intros Hx; apply Nat.compare_eq in Hx; contradiction|].
      apply (zcube_skip s M lvl (RN id) Hc Hl). rewrite (rlevel_node s id nd En). lia.
Qed.

(** ** [restrict_base] *)

Lemma prestr_base_neg : forall n M lvl, lvl <= n -> (forall l, lvl <= l < n -> M l = Some false) ->
  peq (prestr n M lvl pbase) (pall n lvl).
Proof.
  intros n M lvl Hl Hneg S. unfold prestr, pbase, pall. split; [tauto|].
  intros [Hi Hb]. split; [exact Hi|]. split; [exact Hb|].
  apply true_levels_nil. intros l Hl'. rewrite (cm_lit M S l false (Hneg l ltac:(lia))). discriminate.
Qed.

Lemma prestr_base_pos : forall n M lvl L, lvl <= L < n -> M L = Some true ->
  peq (prestr n M lvl pbase) pempty.
Proof.
  intros n M lvl L HL Hm S. unfold prestr, pbase, pempty. split; [|intros []].
  intros [_ [_ E]]. apply (true_levels_nil_inv _ _ _ L E ltac:(lia)).
  apply (cm_lit M S L true Hm).
Qed.

(** a level without literal: the restriction of Base has no member with that level *)
Lemma prestr_base_free : forall n M L, L < n -> M L = None ->
  peq (prestr n M L pbase) (prestr n M (S L) pbase).
Proof.
  intros n M L HL Hm. apply (peq_trans _ _ _ (prestr_node n M L pbase HL)). rewrite Hm.
  apply (peq_trans _ (node_pred L pempty (prestr n M (S L) pbase))).
  - apply node_pred_ext.
    + apply (peq_trans _ (prestr n M (S L) pempty)); [|apply prestr_empty].
      apply prestr_ext. intros T. unfold phi, pbase, pempty. split; [discriminate | intros []].
    + apply prestr_ext. intros S. unfold plo, pbase. split; [tauto|]. intros ->. split; [reflexivity | exact I].
  - apply node_pred_empty_hi.
Qed.

Theorem zrestrict_base_ok : forall fuel s vars lvl M,
  ZbddOK s -> ZChainOK s -> ZCube s M lvl vars -> lvl <= nlevels s -> nlevels s - lvl < fuel ->
  exists s' r, zrestrict_base fuel s vars lvl = Some (s', r) /\
    ZbddOK s' /\ extends s s' /\ ZDen s' r (prestr (nlevels s) M lvl pbase).
Proof.
  induction fuel as [|f IH]; intros s vars lvl M B Hch Hc Hl Hf; [lia|].
  pose proof (zo_wf s B) as H. set (n := nlevels s) in *.
  destruct Hc as [lvl t Et Hneg | lvl id nd hi En Ec Hle Hneg Hm Hc' | lvl id nd hi lo En Ec Hne He Hle Hneg Hm Hc'].
  - (* Base: all remaining levels are negative literals *)
    simpl. rewrite Et. destruct (ztaut_total s lvl Hch) as [ta Eta]. rewrite Eta.
    exists s, ta. split; [reflexivity|]. split; [exact B|]. split; [apply extends_refl|].
    pose proof (ztaut_den s lvl ta B Eta) as D. fold n in D. rewrite Nat.min_l in D by exact Hl.
    apply (zden_ext s ta _ _ D). apply peq_sym. apply prestr_base_neg; assumption.
  - (* no literal at the node's level *)
    pose proof (wf_level s H id nd En) as HL. fold n in HL.
    simpl. rewrite En, Ec. simpl eref. rewrite (proj2 (ref_eqb_eq hi hi) eq_refl). simpl negb. cbv iota.
    rewrite (wf_stored s H id nd En).
    destruct (IH s hi (S (nlevel nd)) M B Hch Hc' ltac:(fold n; lia) ltac:(fold n; lia))
      as (s1 & res & E1 & B1 & X1 & D1).
    rewrite E1. fold n in D1.
    pose proof (ext_nlevels _ _ X1) as Hn1. fold n in Hn1.
    set (R := prestr n M lvl pbase).
    assert (HR : peq (prestr n M (S (nlevel nd)) pbase) (fun S => R S /\ incr_from (nlevel nd) S)).
    { apply peq_sym. apply (peq_trans _ _ _ (prestr_neg_skip n M lvl (nlevel nd) pbase Hle ltac:(lia) Hneg)).
      apply prestr_base_free; assumption. }
    assert (Hopt : forall l T, lvl <= l < nlevel nd -> incr_from (Datatypes.S l) T -> (R (l :: T) <-> R T)).
    { intros l T Hl' HT. apply prestr_neg_optional; [lia | apply Hneg; exact Hl' | exact HT]. }
    destruct (Nat.ltb_spec lvl (nlevel nd)) as [Hlt|Hge]; simpl andb.
    + destruct (is_empty_b s1 res) eqn:Ee; simpl negb; cbv iota.
      * (* the rest is Empty: so is the whole restriction *)
        exists s1, res. split; [reflexivity|]. split; [exact B1|]. split; [exact X1|].
        destruct (is_empty_b_true s1 res Ee) as [te [-> Ete]].
        apply (zden_ext s1 _ pempty); [apply (zden_empty s1 te B1 Ete)|].
        pose proof (zden_unique s1 _ _ _ D1 (zden_empty s1 te B1 Ete)) as He0.
        intros S. unfold pempty. split; [intros []|]. intros HS.
        apply (wrap_empty (nlevel nd - lvl) lvl R) with (S := S); auto.
        -- intros S' [Hi _]. exact Hi.
        -- intros l T Hl' HT. apply Hopt; [lia | exact HT].
        -- intros S' HS' Hi'. replace (lvl + (nlevel nd - lvl)) with (nlevel nd) in Hi' by lia.
           apply (He0 S'). apply HR. auto.
      * (* don't-care nodes for the skipped levels *)
        destruct (zdc_wrap lvl (nlevel nd - lvl) s1 res) as [s' r] eqn:Ew.
        assert (Hex : exists S, R S /\ incr_from (lvl + (nlevel nd - lvl)) S).
        { replace (lvl + (nlevel nd - lvl)) with (nlevel nd) by lia.
          destruct (fam_nonempty s1 B1 _ res (zden_ok _ _ _ D1) (le_n _)) as [F [S [EF [HS _]]]].
          - intros t ->. apply is_empty_b_false. exact Ee.
          - destruct D1 as [_ [F' [EF' HF']]]. rewrite EF in EF'. inversion EF'; subst F'.
            exists S. apply HR. apply HF'. exact HS. }
        destruct (zdc_wrap_ok (nlevel nd - lvl) lvl s1 res R s' r B1) as (B' & X' & D'); auto.
        -- rewrite Hn1. lia.
        -- replace (lvl + (nlevel nd - lvl)) with (nlevel nd) by lia. apply (zden_ext s1 _ _ _ D1 HR).
        -- intros S [Hi _]. exact Hi.
        -- intros l T Hl' HT. apply Hopt; [lia | exact HT].
        -- exists s', r. split; [reflexivity|]. split; [exact B'|].
           split; [apply (extends_trans _ _ _ X1 X') | exact D'].
    + (* the node is at [lvl] itself *)
      assert (Heq : nlevel nd = lvl) by lia.
      exists s1, res. split; [reflexivity|]. split; [exact B1|]. split; [exact X1|].
      apply (zden_ext s1 _ _ _ D1). rewrite Heq. apply peq_sym. apply prestr_base_free; [lia | rewrite <- Heq; exact Hm].
  - (* a positive literal: Base has no member with that level *)
    pose proof (wf_level s H id nd En) as HL. fold n in HL.
    simpl. rewrite En, Ec. simpl eref.
    destruct (ref_eqb hi lo) eqn:Er; [apply ref_eqb_eq in Er; contradiction|]. simpl negb. cbv iota.
    destruct (zempty_spec s B) as [te [Ee Ete]]. rewrite Ee.
    exists s, (RT te). split; [reflexivity|]. split; [exact B|]. split; [apply extends_refl|].
    apply (zden_ext s _ pempty); [apply (zden_empty s te B Ete)|].
    apply peq_sym. apply (prestr_base_pos n M lvl (nlevel nd)); [lia | exact Hm].
Qed.

(** ** [restrict] *)

Section ZRestrict.
Variable C : Type.
Variable cget : C -> N -> list ref -> list nat -> option ref.
Variable cadd : C -> N -> list ref -> list nat -> ref -> C.
Hypothesis Hlossy : zlossy C cget cadd.

Notation ZCacheOKB := (ZCacheOKB C cget).
Notation zresult_okB := (zresult_okB C cget).

(** [reduce1] on a recursive result *)
Lemma zstep_mk1B : forall s res R L,
  ZbddOK s -> zresult_okB s res R -> L < nlevels s -> sup L R ->
  zresult_okB s
    (match res with
     | None => None
     | Some (s1, c1, child) => let '(s2, r) := zmk_node1 s1 L child in Some (s2, c1, r)
     end) (node_pred L R R).
Proof.
  intros s res R L B (s1 & c1 & ch & E & B1 & X1 & O1 & D1) HL SR. subst res. unfold zmk_node1.
  destruct (zmk_node s1 L ch ch) as [s2 r] eqn:Em.
  assert (HL1 : L < nlevels s1) by (rewrite (ext_nlevels _ _ X1); exact HL).
  assert (Ll : L < rlevel s1 ch) by (apply (zden_level s1 ch R (S L) B1 D1); [lia | exact SR]).
  destruct (zmk_node_ok s1 L ch ch R R s2 r B1 HL1 D1 D1 Ll Ll Em) as (B2 & X2 & D2 & _).
  exists s2, c1, r. split; [reflexivity|]. split; [exact B2|].
  split; [apply (extends_trans _ _ _ X1 X2)|]. split; [|exact D2].
  apply (zcacheokb_extends C cget s1 s2 c1 B1 X2 O1).
Qed.

Lemma zrestrict_S : forall n s c f vars level,
  zrestrict C cget cadd (S n) s c f vars level =
    match zget s f with
    | None => None
    | Some (ZT v) =>
      if N.eqb v 0 then Some (s, c, f)
      else
        match zrestrict_base (S n) s vars level with
        | Some (s1, r) => Some (s1, c, r)
        | None => None
        end
    | Some (ZI fnd) =>
      match zget s vars, nchildren fnd with
      | Some vnode, [fhi; flo] =>
        let flevel := nstored fnd in
        match lcmp (vlevel vnode) (Some level) with
        | Eq =>
          match zkids vnode with
          | None => None
          | Some (vhi, vlo) =>
            if negb (ref_eqb vhi vlo) then
              if negb (Nat.eqb flevel level) then
                match zempty s with Some e => Some (s, c, e) | None => None end
              else
                match zrestrict C cget cadd n s c (eref fhi) vhi (S level) with
                | None => None
                | Some (s1, c1, child) =>
                  let '(s2, r) := zmk_node1 s1 level child in Some (s2, c1, r)
                end
            else if negb (Nat.eqb flevel level) then zrestrict C cget cadd n s c f vhi (S level)
            else
              match cget c zcode_restrict [f; vars] [nlevels s] with
              | Some r => Some (s, c, r)
              | None =>
                match zrestrict C cget cadd n s c (eref fhi) vhi (S level) with
                | None => None
                | Some (s1, c1, hi) =>
                  match zrestrict C cget cadd n s1 c1 (eref flo) vhi (S level) with
                  | None => None
                  | Some (s2, c2, lo) =>
                    let '(s3, r) := zmk_node s2 level hi lo in
                    Some (s3, cadd c2 zcode_restrict [f; vars] [nlevels s] r, r)
                  end
                end
              end
          end
        | _ =>
          let sel := if Nat.eqb flevel level then eref flo else f in
          match zrestrict C cget cadd n s c sel vars (S level) with
          | None => None
          | Some (s1, c1, child) =>
            let '(s2, r) := zmk_node1 s1 level child in Some (s2, c1, r)
          end
        end
      | _, _ => None
      end
    end.
Proof. reflexivity. Qed.

Theorem zrestrict_ok : forall fuel s c f vars lvl P M,
  ZbddOK s -> ZChainOK s -> ZCacheOKB s c -> ZDen s f P -> ZCube s M lvl vars ->
  lvl <= rlevel s f -> nlevels s - lvl < fuel ->
  zresult_okB s (zrestrict C cget cadd fuel s c f vars lvl) (prestr (nlevels s) M lvl P).
Proof.
  induction fuel as [|n IH]; intros s c f vars lvl P M B Hch O DF Hc Hlf Hfuel; [lia|].
  rewrite zrestrict_S. pose proof (zo_wf s B) as H. pose proof (zo_kind s B) as Hk.
  set (N := nlevels s) in *.
  destruct f as [t|idf].
  - (* terminal operand *)
    destruct (zden_ok _ _ _ DF) as [v Ev]. simpl zget. rewrite Ev.
    destruct (zo_codes s B t v Ev) as [-> | ->]; simpl N.eqb; cbv iota.
    + apply (zresultB_here C cget); auto. apply (zden_ext s _ pempty); [apply (zden_empty s t B Ev)|].
      apply peq_sym. apply (peq_trans _ (prestr N M lvl pempty)); [|apply prestr_empty].
      apply prestr_ext. apply (zden_unique s _ _ _ DF (zden_empty s t B Ev)).
    + simpl in Hlf. fold N in Hlf.
      destruct (zrestrict_base_ok (S n) s vars lvl M B Hch Hc Hlf Hfuel) as (s1 & r & E1 & B1 & X1 & D1).
      rewrite E1. exists s1, c, r. split; [reflexivity|]. split; [exact B1|]. split; [exact X1|].
      split; [apply (zcacheokb_extends C cget s s1 c B X1 O)|].
      apply (zden_ext s1 _ _ _ D1). fold N. apply prestr_ext.
      apply (zden_unique s _ _ _ (zden_base s t B Ev) DF).
  - (* inner operand *)
    destruct (zden_ok _ _ _ DF) as [fnd Enf]. simpl zget. rewrite Enf.
    destruct (znode_facts s idf fnd P B DF Enf)
      as (Sf & Lf & Rf & fhi & flo & PA & PB & Ecf & DA & DB & LA & LB & HP & SA & SB).
    rewrite Rf in Hlf. fold N in Lf. rewrite Ecf, Sf.
    assert (Hl : lvl < N) by lia.
    pose proof (prestr_node N M lvl P Hl) as Hnode.
    (* the hi and lo part of P at level lvl *)
    assert (Hparts : (nlevel fnd = lvl /\ peq (phi lvl P) PA /\ peq (plo lvl P) PB) \/
                     (lvl < nlevel fnd /\ peq (phi lvl P) pempty /\ peq (plo lvl P) P)).
    { destruct (Nat.eq_dec (nlevel fnd) lvl) as [Heq|Hne].
      - left. split; [exact Heq|]. rewrite <- Heq. split.
        + apply (peq_trans _ _ _ (phi_ext _ _ _ HP)). apply phi_node. exact SB.
        + apply (peq_trans _ _ _ (plo_ext _ _ _ HP)). apply plo_node. exact SB.
      - right. split; [lia|].
        assert (SP : sup lvl P).
        { intros S HS. apply (zden_below s (RN idf) P lvl S B DF); [rewrite Rf; lia | exact HS]. }
        split; [apply phi_below | apply plo_below]; exact SP. }
    destruct (zcube_cases s M lvl vars B Hc Hl)
      as [(vnode & Ev & Hcmp & Hm & Hc')|(vnode & vhi & vlo & Ev & Hcmp & Ekv & Hc' & Hcase)];
      rewrite Ev; cbv zeta.
    + (* negative literal at lvl: LO branch, don't-care node *)
      rewrite Hm in Hnode.
      assert (Hgoal : zresult_okB s
                (match zrestrict C cget cadd n s c (if Nat.eqb (nlevel fnd) lvl then eref flo else RN idf) vars (S lvl) with
                 | None => None
                 | Some (s1, c1, child) => let '(s2, r) := zmk_node1 s1 lvl child in Some (s2, c1, r)
                 end) (prestr N M lvl P)).
      { apply (zresultB_ext C cget s _ _ _ (peq_sym _ _ Hnode)).
        apply zstep_mk1B; auto; [|apply prestr_sup].
        destruct Hparts as [(Heq & _ & H0)|(Hlt & _ & H0)].
        - rewrite (proj2 (Nat.eqb_eq _ _) Heq).
          apply (zresultB_ext C cget s _ (prestr N M (S lvl) PB)); [apply prestr_ext, peq_sym, H0|].
          apply IH; auto; [rewrite <- Heq; lia | fold N; lia].
        - destruct (Nat.eqb_spec (nlevel fnd) lvl) as [Heq|_]; [lia|].
          apply (zresultB_ext C cget s _ (prestr N M (S lvl) P)); [apply prestr_ext, peq_sym, H0|].
          apply IH; auto; [rewrite Rf; lia | fold N; lia]. }
      destruct (lcmp (vlevel vnode) (Some lvl)); [contradiction | exact Hgoal | exact Hgoal].
    + rewrite Hcmp, Ekv.
      destruct Hcase as [[Er Hm]|[Er Hm]]; rewrite Er; simpl negb; cbv iota; rewrite Hm in Hnode.
      * (* no literal at lvl *)
        destruct Hparts as [(Heq & H1 & H0)|(Hlt & H1 & H0)].
        -- (* f has a node at lvl: recurse on both children *)
           rewrite (proj2 (Nat.eqb_eq _ _) Heq). simpl negb. cbv iota.
           fold N. destruct (cget c zcode_restrict [RN idf; vars] [N]) as [r0|] eqn:Ecache.
           { (* cache hit *)
             destruct (O _ _ _ _ Ecache) as [_ Ox]. simpl in Ox.
             destruct (Ox eq_refl eq_refl) as (P0 & id0 & nd0 & M0 & D0 & Eid & En0 & Hc0 & Dr).
             inversion Eid; subst id0. rewrite Enf in En0. inversion En0; subst nd0.
             apply (zresultB_here C cget); auto. apply (zden_ext s r0 _ _ Dr). fold N. rewrite Heq.
             apply (peq_trans _ (prestr N M lvl P0)).
             - apply prestr_ext_M. intros l Hl'. rewrite Heq in Hc0.
               apply (zcube_agree s M0 M lvl vars H Hc0 Hc l). fold N. exact Hl'.
             - apply prestr_ext. apply (zden_unique s _ _ _ D0 DF). }
           destruct (IH s c (eref fhi) vhi (S lvl) PA M B Hch O DA Hc' ltac:(lia) ltac:(fold N; lia))
             as (s1 & c1 & hi & E1 & B1 & X1 & O1 & D1).
           rewrite E1. fold N in D1.
           pose proof (ext_nlevels _ _ X1) as Hn1. fold N in Hn1.
           destruct (IH s1 c1 (eref flo) vhi (S lvl) PB M B1 (zchain_extends s s1 B B1 X1 Hch) O1
                       (zden_extends s s1 _ _ B X1 DB) (zcube_extends s s1 M _ _ X1 Hc')
                       ltac:(rewrite (ext_rlevel _ _ _ X1 (zden_ok _ _ _ DB)); lia) ltac:(rewrite Hn1; lia))
             as (s2 & c2 & lo & E2 & B2 & X2 & O2 & D2).
           rewrite E2. rewrite Hn1 in D2.
           pose proof (ext_nlevels _ _ X2) as Hn2. rewrite Hn1 in Hn2.
           destruct (zmk2B C cget s1 s2 c2 lvl hi lo _ _ B1 B2 X2 O2 ltac:(rewrite Hn2; exact Hl) D1 D2
                       (prestr_sup N M lvl PA) (prestr_sup N M lvl PB))
             as (s3 & r & Em & B3 & X3 & O3 & D3).
           rewrite Em.
           pose proof (extends_trans _ _ _ X1 (extends_trans _ _ _ X2 X3)) as X.
           assert (Dr : ZDen s3 r (prestr N M lvl P)).
           { apply (zden_ext s3 r _ _ D3). apply peq_sym. apply (peq_trans _ _ _ Hnode).
             apply node_pred_ext; apply prestr_ext; assumption. }
           exists s3, (cadd c2 zcode_restrict [RN idf; vars] [N] r), r.
           split; [reflexivity|]. split; [exact B3|]. split; [exact X|]. split; [|exact Dr].
           apply (zcacheokb_add C cget cadd Hlossy); [exact O3| |].
           ++ apply zentry_ok_other; intros o; destruct o; discriminate.
           ++ intros _ _.
              exists P, idf, fnd, M. split; [apply (zden_extends s s3 _ _ B X DF)|]. split; [reflexivity|].
              split; [apply (ext_nodes _ _ X); exact Enf|]. rewrite Heq.
              split; [apply (zcube_extends s s3 M _ _ X Hc)|].
              rewrite (ext_nlevels _ _ X). exact Dr.
        -- (* f lies below lvl: nothing of the result contains lvl *)
           destruct (Nat.eqb_spec (nlevel fnd) lvl) as [Heq|_]; [lia|]. simpl negb. cbv iota.
           apply (zresultB_ext C cget s _ (prestr N M (S lvl) P)).
           { apply peq_sym. apply (peq_trans _ _ _ Hnode).
             apply (peq_trans _ (node_pred lvl pempty (prestr N M (S lvl) P))).
             - apply node_pred_ext.
               + apply (peq_trans _ (prestr N M (S lvl) pempty)); [apply prestr_ext; exact H1 | apply prestr_empty].
               + apply prestr_ext. exact H0.
             - apply node_pred_empty_hi. }
           apply IH; auto; [rewrite Rf; lia | fold N; lia].
      * (* positive literal at lvl: HI branch *)
        destruct Hparts as [(Heq & H1 & H0)|(Hlt & H1 & H0)].
        -- rewrite (proj2 (Nat.eqb_eq _ _) Heq). simpl negb. cbv iota.
           apply (zresultB_ext C cget s _ _ _ (peq_sym _ _ Hnode)).
           apply zstep_mk1B; auto; [|apply prestr_sup].
           apply (zresultB_ext C cget s _ (prestr N M (S lvl) PA)); [apply prestr_ext, peq_sym, H1|].
           apply IH; auto; [lia | fold N; lia].
        -- destruct (Nat.eqb_spec (nlevel fnd) lvl) as [Heq|_]; [lia|]. simpl negb. cbv iota.
           destruct (zempty_spec s B) as [te [Ee Ete]]. rewrite Ee.
           apply (zresultB_here C cget); auto. apply (zden_ext s _ pempty); [apply (zden_empty s te B Ete)|].
           apply peq_sym. apply (peq_trans _ _ _ Hnode).
           apply (peq_trans _ (node_pred lvl pempty pempty)); [|apply node_pred_empty_hi].
           apply node_pred_ext; (apply (peq_trans _ (prestr N M (S lvl) pempty)); [apply prestr_ext; exact H1 | apply prestr_empty]).
Qed.

End ZRestrict.
