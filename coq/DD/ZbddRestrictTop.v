(** * The Boolean interface of the ZBDD kind, part 6: restrict in the Boolean reading

    - [zcube_den]: a reference of the shape [ZCube s M lvl vars] denotes the
      conjunction of the literals [M] (from level [lvl] on) - the structural
      reading of the cube is the semantic one;
    - [zcube_lits_cube]: the executable reader [zcube_lits] (run on real
      snapshots) returns the literals of a [ZCube], sorted by level;
    - [zrestrict_edge_sound]: the view of the result of [restrict_edge] at a
      choice [c] is the view of the operand at [c] with the literal levels
      overridden (= the cofactor w.r.t. the cube);
    - [zrestrict_edge_bfun]: in terms of assignments and [Sem.restrict_s]. *)

From Coq Require Import List NArith PArith Bool Arith Lia FMapPositive.
From OxiVerif Require Import DD.Table DD.TableExtra DD.TableProofs DD.Sem DD.Build DD.BuildProofs
  DD.Apply DD.ApplyProofs DD.ApplyEvalProofs DD.CanonZbdd DD.FamSpec DD.FamSpecProofs DD.ZbddOps DD.ZbddOpsProofs
  DD.ZbddSubsetProofs DD.ZbddSoundProofs DD.ZbddVars DD.ZbddVarsProofs DD.ZbddBool DD.ZbddBoolProofs
  DD.ZbddXorProofs DD.ZbddIteProofs DD.ZbddEvalProofs DD.ZbddRestrictProofs.
Import ListNotations.

(** ** A cube denotes the conjunction of its literals *)

(** the family of the conjunction of the literals of [M] among the levels [lvl, n) *)
Definition pcube (n : nat) (M : nat -> option bool) (lvl : nat) : fpred :=
  fun S => incr_from lvl S /\ Forall (fun x => x < n) S /\
    forall l, lvl <= l < n -> (M l = Some true -> In l S) /\ (M l = Some false -> ~ In l S).

Lemma incr_from_no_low : forall S lvl L, incr_from lvl S ->
  (forall l, lvl <= l < L -> ~ In l S) -> lvl <= L -> incr_from L S.
Proof.
  intros S lvl L Hi Hno Hl. destruct S as [|x T]; [exact I|].
  simpl in Hi. destruct Hi as [Hx HT]. simpl. split; [|exact HT].
  destruct (Nat.lt_ge_cases x L) as [Hlt|Hge]; [|exact Hge].
  exfalso. apply (Hno x); [lia | left; reflexivity].
Qed.

Theorem zcube_den : forall s M lvl vars, ZbddOK s -> ZCube s M lvl vars -> lvl <= nlevels s ->
  ZDen s vars (pcube (nlevels s) M lvl).
Proof.
  intros s M lvl vars B Hc. pose proof (zo_wf s B) as H. set (n := nlevels s).
  induction Hc as [lvl t Et Hneg | lvl id nd hi En Ec Hle Hneg Hm Hc' IH | lvl id nd hi lo En Ec Hne He Hle Hneg Hm Hc' IH];
    intros Hl.
  - apply (zden_ext s _ pbase); [apply (zden_base s t B Et)|].
    intros S. unfold pbase, pcube. split.
    + intros ->. split; [exact I|]. split; [constructor|]. intros l Hl'. split; [|intros _ []].
      rewrite (Hneg l Hl'). discriminate.
    + intros [Hi [Hb Hlit]]. destruct S as [|x T]; [reflexivity|]. exfalso.
      simpl in Hi. inversion Hb; subst.
      apply (proj2 (Hlit x ltac:(fold n; lia)) (Hneg x ltac:(fold n; lia))). left. reflexivity.
  - pose proof (wf_level s H id nd En) as HL. fold n in HL. set (L := nlevel nd) in *.
    specialize (IH ltac:(fold n; lia)).
    apply (zden_ext s _ (node_pred L (pcube n M (S L)) (pcube n M (S L)))).
    + apply (zden_node s id nd (E hi) (E hi) _ _ B En Ec); exact IH.
    + intros S. unfold node_pred, pcube. split.
      * intros [[T [-> [Hi [Hb Hlit]]]]|[Hi [Hb Hlit]]].
        -- split; [simpl; split; [exact Hle | exact Hi]|]. split; [constructor; assumption|].
           intros l Hl'. destruct (lt_eq_lt_dec l L) as [[Hlt|Heq]|Hgt].
           ++ rewrite (Hneg l ltac:(lia)). split; [discriminate|]. intros _ [Hx|Hx]; [lia|].
              pose proof (incr_from_ge T (Datatypes.S L) l Hi Hx). lia.
           ++ subst l. rewrite Hm. split; discriminate.
           ++ destruct (Hlit l ltac:(lia)) as [A1 A2]. split.
              ** intros Hx. right. apply A1. exact Hx.
              ** intros Hx [Hy|Hy]; [lia | apply (A2 Hx Hy)].
        -- split; [apply (incr_from_weaken S (Datatypes.S L)); [lia | exact Hi]|]. split; [exact Hb|].
           intros l Hl'. destruct (Nat.lt_ge_cases L l) as [Hgt|Hle'].
           ++ apply Hlit. lia.
           ++ assert (Hnot : ~ In l S) by (apply (incr_from_notin S (Datatypes.S L) l Hi); lia).
              split; [|intros _; exact Hnot].
              destruct (Nat.eq_dec l L) as [->|Hne']; [rewrite Hm; discriminate|].
              rewrite (Hneg l ltac:(lia)). discriminate.
      * intros [Hi [Hb Hlit]].
        assert (HiL : incr_from L S).
        { apply (incr_from_no_low S lvl L Hi); [|exact Hle].
          intros l Hl'. apply (proj2 (Hlit l ltac:(lia))). apply Hneg. exact Hl'. }
        destruct S as [|x T].
        -- right. split; [exact I|]. split; [constructor|]. intros l Hl'. apply Hlit. lia.
        -- simpl in HiL. destruct HiL as [Hx HT]. inversion Hb; subst.
           destruct (Nat.eq_dec x L) as [->|Hne'].
           ++ left. exists T. split; [reflexivity|]. split; [exact HT|]. split; [assumption|].
              intros l Hl'. destruct (Hlit l ltac:(lia)) as [A1 A2]. split.
              ** intros Hx'. destruct (A1 Hx') as [Hy|Hy]; [lia | exact Hy].
              ** intros Hx' Hy. apply (A2 Hx'). right. exact Hy.
           ++ right. split; [simpl; split; [lia | exact HT]|]. split; [constructor; assumption|].
              intros l Hl'. apply Hlit. lia.
  - pose proof (wf_level s H id nd En) as HL. fold n in HL. set (L := nlevel nd) in *.
    specialize (IH ltac:(fold n; lia)).
    destruct (is_empty_b_true s lo He) as [te [-> Ete]].
    apply (zden_ext s _ (node_pred L (pcube n M (S L)) pempty)).
    + apply (zden_node s id nd (E hi) (E (RT te)) _ _ B En Ec); [exact IH | apply (zden_empty s te B Ete)].
    + intros S. unfold node_pred, pcube, pempty. split.
      * intros [[T [-> [Hi [Hb Hlit]]]]|[]].
        split; [simpl; split; [exact Hle | exact Hi]|]. split; [constructor; assumption|].
        intros l Hl'. destruct (lt_eq_lt_dec l L) as [[Hlt|Heq]|Hgt].
        -- rewrite (Hneg l ltac:(lia)). split; [discriminate|]. intros _ [Hx|Hx]; [lia|].
           pose proof (incr_from_ge T (Datatypes.S L) l Hi Hx). lia.
        -- subst l. split; [intros _; left; reflexivity | rewrite Hm; discriminate].
        -- destruct (Hlit l ltac:(lia)) as [A1 A2]. split.
           ++ intros Hx. right. apply A1. exact Hx.
           ++ intros Hx [Hy|Hy]; [lia | apply (A2 Hx Hy)].
      * intros [Hi [Hb Hlit]]. left.
        assert (HiL : incr_from L S).
        { apply (incr_from_no_low S lvl L Hi); [|exact Hle].
          intros l Hl'. apply (proj2 (Hlit l ltac:(lia))). apply Hneg. exact Hl'. }
        assert (HinL : In L S) by (apply (proj1 (Hlit L ltac:(lia))); exact Hm).
        destruct S as [|x T]; [destruct HinL|].
        simpl in HiL. destruct HiL as [Hx HT]. inversion Hb; subst.
        assert (x = L).
        { destruct HinL as [->|Hy]; [reflexivity|]. pose proof (incr_from_ge T (Datatypes.S x) L HT Hy). lia. }
        subst x. exists T. split; [reflexivity|]. split; [exact HT|]. split; [assumption|].
        intros l Hl'. destruct (Hlit l ltac:(lia)) as [A1 A2]. split.
        -- intros Hx'. destruct (A1 Hx') as [Hy|Hy]; [lia | exact Hy].
        -- intros Hx' Hy. apply (A2 Hx'). right. exact Hy.
Qed.

(** ** The executable cube reader *)

Definition lits_map (lits : list (nat * bool)) : nat -> option bool := fun l => assoc_nat lits l.

Lemma assoc_nat_notin : forall (lits : list (nat * bool)) l, ~ In l (map fst lits) -> assoc_nat lits l = None.
Proof.
  induction lits as [|[k b] r IH]; intros l Hn; [reflexivity|]. simpl.
  destruct (Nat.eqb_spec k l) as [->|Hne]; [exfalso; apply Hn; left; reflexivity|].
  apply IH. intros Hx. apply Hn. right. exact Hx.
Qed.

Lemma zneg_lits_fst : forall cnt from, map fst (zneg_lits from cnt) = seq from cnt.
Proof. induction cnt as [|k IH]; intros from; simpl; [reflexivity | rewrite IH; reflexivity]. Qed.

Lemma assoc_zneg_in : forall cnt from rest l, from <= l < from + cnt ->
  assoc_nat (zneg_lits from cnt ++ rest) l = Some false.
Proof.
  induction cnt as [|k IH]; intros from rest l Hl; [lia|]. simpl.
  destruct (Nat.eqb_spec from l) as [_|Hne]; [reflexivity | apply IH; lia].
Qed.

Lemma assoc_zneg_out : forall cnt from rest l, ~ (from <= l < from + cnt) ->
  assoc_nat (zneg_lits from cnt ++ rest) l = assoc_nat rest l.
Proof.
  induction cnt as [|k IH]; intros from rest l Hl; [reflexivity|]. simpl.
  destruct (Nat.eqb_spec from l) as [E|Hne]; [lia | apply IH; lia].
Qed.

Lemma incr_from_seq : forall cnt from rest, incr_from (from + cnt) rest -> incr_from from (seq from cnt ++ rest).
Proof.
  induction cnt as [|k IH]; intros from rest Hr; simpl.
  - rewrite Nat.add_0_r in Hr. exact Hr.
  - split; [lia|]. apply IH. replace (S from + k) with (from + S k) by lia. exact Hr.
Qed.

(** the literal list read off a cube: sorted by level, within [lvl, n), and [ZCube] holds for it *)
Theorem zcube_lits_cube : forall s, ZbddOK s -> forall fuel vars lvl lits,
  zcube_lits fuel s vars lvl = Some lits -> lvl <= nlevels s ->
  incr_from lvl (map fst lits) /\ Forall (fun x => x < nlevels s) (map fst lits) /\
  ZCube s (lits_map lits) lvl vars.
Proof.
  intros s B. pose proof (zo_wf s B) as H. set (n := nlevels s).
  induction fuel as [|f IH]; intros vars lvl lits E Hl; [discriminate|].
  simpl in E. destruct (zget s vars) as [[v|nd]|] eqn:Ev; [| |discriminate].
  - (* Base *)
    destruct vars as [t|id]; [|simpl in Ev; destruct (find_node s id); discriminate].
    simpl in Ev. destruct (term_val s t) as [v'|] eqn:Et; [|discriminate]. inversion Ev; subst v'.
    destruct (N.eqb_spec v 1) as [->|_]; [|discriminate]. inversion E; subst lits. fold n.
    rewrite zneg_lits_fst. split; [|split].
    + pose proof (incr_from_seq (n - lvl) lvl [] I) as Hs. rewrite app_nil_r in Hs. exact Hs.
    + apply Forall_forall. intros x Hx. apply in_seq in Hx. lia.
    + apply ZC_term; [exact Et|]. intros l Hl'. unfold lits_map.
      pose proof (assoc_zneg_in (n - lvl) lvl [] l ltac:(fold n in Hl'; lia)) as Ha.
      rewrite app_nil_r in Ha. exact Ha.
  - (* node *)
    destruct vars as [t|id]; [simpl in Ev; destruct (term_val s t); discriminate|].
    simpl in Ev. destruct (find_node s id) as [nd'|] eqn:En; [|discriminate]. inversion Ev; subst nd'.
    destruct (Nat.ltb_spec (nlevel nd) lvl) as [Hlt|Hge]; [discriminate|].
    pose proof (wf_level s H id nd En) as HL. fold n in HL. set (L := nlevel nd) in *.
    destruct (zchildren_E s id nd B En) as [hi [lo Ec]]. rewrite Ec in E. simpl eref in E.
    destruct (zcube_lits f s hi (S L)) as [rest|] eqn:Er; [|discriminate].
    destruct (IH hi (S L) rest Er ltac:(fold n; lia)) as (Hi & Hb & Hc).
    assert (Hneg : forall l rest', lvl <= l < L -> lits_map (zneg_lits lvl (L - lvl) ++ rest') l = Some false).
    { intros l rest' Hl'. apply assoc_zneg_in. lia. }
    assert (HnotL : ~ In L (map fst rest)) by (apply (incr_from_notin _ (Datatypes.S L) L Hi); lia).
    destruct (ref_eqb hi lo) eqn:Ehl.
    + (* no literal *)
      apply ref_eqb_eq in Ehl. subst lo. inversion E; subst lits.
      rewrite map_app, zneg_lits_fst. split; [|split].
      * apply incr_from_seq. replace (lvl + (L - lvl)) with L by lia.
        apply (incr_from_weaken _ (Datatypes.S L)); [lia | exact Hi].
      * apply Forall_app. split; [|exact Hb]. apply Forall_forall. intros x Hx. apply in_seq in Hx. lia.
      * apply (ZC_dc s _ lvl id nd hi En Ec Hge).
        -- intros l Hl'. apply Hneg. exact Hl'.
        -- unfold lits_map. rewrite assoc_zneg_out by lia. apply assoc_nat_notin. exact HnotL.
        -- apply (zcube_ext s (lits_map rest)); [|exact Hc].
           intros l Hl'. unfold lits_map. rewrite assoc_zneg_out by lia. reflexivity.
    + destruct (is_empty_b s lo) eqn:Ee; [|discriminate]. inversion E; subst lits.
      rewrite map_app, zneg_lits_fst. simpl map. split; [|split].
      * apply incr_from_seq. replace (lvl + (L - lvl)) with L by lia. simpl. split; [lia | exact Hi].
      * apply Forall_app. split; [apply Forall_forall; intros x Hx; apply in_seq in Hx; lia|].
        constructor; assumption.
      * apply (ZC_pos s _ lvl id nd hi lo En Ec).
        -- intros Heq. subst lo. rewrite (proj2 (ref_eqb_eq hi hi) eq_refl) in Ehl. discriminate.
        -- exact Ee.
        -- exact Hge.
        -- intros l Hl'. apply Hneg. exact Hl'.
        -- unfold lits_map. rewrite assoc_zneg_out by lia. simpl. rewrite Nat.eqb_refl. reflexivity.
        -- apply (zcube_ext s (lits_map rest)); [|exact Hc].
           intros l Hl'. unfold lits_map. rewrite assoc_zneg_out by lia. simpl.
           destruct (Nat.eqb_spec L l); [lia | reflexivity].
Qed.

(** ** The Boolean reading of the result *)

(** the choice [c] with the literal levels overridden *)
Definition covr (M : nat -> option bool) (c : nat -> nat) : nat -> nat :=
  fun l => match M l with Some true => 0 | Some false => 1 | None => c l end.

Lemma covr_ok : forall s M c, s_kind s = KZbdd -> choice_ok s c -> choice_ok s (covr M c).
Proof.
  intros s M c Hk Hc l. unfold covr. specialize (Hc l). rewrite Hk in *. simpl in *.
  destruct (M l) as [[|]|]; lia.
Qed.

Lemma ovl_true_levels : forall s M c, s_kind s = KZbdd -> choice_ok s c ->
  ovl M (true_levels c 0 (nlevels s)) 0 (nlevels s) = true_levels (covr M c) 0 (nlevels s).
Proof.
  intros s M c Hk Hc. unfold ovl. apply true_levels_ext. intros l Hl. unfold cm, covr.
  destruct (M l) as [[|]|]; try reflexivity.
  specialize (Hc l). rewrite Hk in Hc. simpl in Hc.
  destruct (smem l (true_levels c 0 (nlevels s))) eqn:Es.
  - apply smem_spec in Es. apply true_levels_range in Es. destruct Es as [_ Es]. symmetry. exact Es.
  - apply smem_false in Es. destruct (c l) as [|[|k]] eqn:Ecl; [|reflexivity | lia].
    exfalso. apply Es. apply true_levels_in; [lia | exact Ecl].
Qed.

Section ZRestrictTop.
Variable C : Type.
Variable cget : C -> N -> list ref -> list nat -> option ref.
Variable cadd : C -> N -> list ref -> list nat -> ref -> C.
Hypothesis Hlossy : zlossy C cget cadd.

Notation ZCacheOKB := (ZCacheOKB C cget).

(** [restrict_edge]: the view of the result at [c] is the view of the operand at [c] with
    the cube's literal levels overridden; [vars] is any reference of cube shape *)
Theorem zrestrict_edge_cube : forall fuel s c f vars M,
  ZbddOK s -> ZChainOK s -> ZCacheOKB s c -> ref_ok s f -> ZCube s M 0 vars ->
  S (nlevels s) <= fuel ->
  exists s' c' r, zrestrict_edge C cget cadd fuel s c f vars = Some (s', c', r) /\
    zstate_ok C cget s s' c' r /\
    forall c0, choice_ok s c0 -> zview_of s' r c0 = zview_of s f (covr M c0).
Proof.
  intros fuel s c f vars M B Hch O Of Hc Hf. pose proof (zo_kind s B) as Hk.
  destruct (zden_exists s f B Of) as [P DF].
  destruct (zstate_of_result C cget s _ _ B Hch
              (zrestrict_ok C cget cadd Hlossy fuel s c f vars 0 P M B Hch O DF Hc ltac:(lia) ltac:(lia)))
    as (s' & c' & r & E & St & D).
  exists s', c', r. split; [exact E|]. split; [exact St|].
  destruct St as (B' & _ & X & _ & _). intros c0 Hc0.
  assert (Hc0' : choice_ok s' c0) by (apply (ext_choice_ok _ _ c0 X); exact Hc0).
  destruct (zden_view s' r _ c0 B' D Hc0') as [br [Er Hbr]].
  destruct (zden_view s f P (covr M c0) B DF (covr_ok s M c0 Hk Hc0)) as [bf [Ef Hbf]].
  rewrite Er, Ef. f_equal. rewrite (ext_nlevels _ _ X) in Hbr.
  apply (bool_iff_eq br bf (P (true_levels (covr M c0) 0 (nlevels s)))); [|exact Hbf].
  rewrite Hbr. unfold prestr. rewrite Nat.sub_0_r, (ovl_true_levels s M c0 Hk Hc0).
  pose proof (true_levels_pall (nlevels s) c0) as [Hi Hb]. tauto.
Qed.

(** with the cube read by the executable reader *)
Theorem zrestrict_edge_sound : forall s c f vars lits,
  ZbddOK s -> ZChainOK s -> ZCacheOKB s c -> ref_ok s f ->
  zcube_lits (S (nlevels s)) s vars 0 = Some lits ->
  exists s' c' r, zrestrict_edge C cget cadd (S (nlevels s)) s c f vars = Some (s', c', r) /\
    zstate_ok C cget s s' c' r /\
    (forall c0, choice_ok s c0 -> zview_of s' r c0 = zview_of s f (covr (lits_map lits) c0)) /\
    ZDen s vars (pcube (nlevels s) (lits_map lits) 0).
Proof.
  intros s c f vars lits B Hch O Of El.
  destruct (zcube_lits_cube s B _ vars 0 lits El ltac:(lia)) as (_ & _ & Hc).
  destruct (zrestrict_edge_cube _ s c f vars _ B Hch O Of Hc (le_n _)) as (s' & c' & r & E & St & Hv).
  exists s', c', r. split; [exact E|]. split; [exact St|]. split; [exact Hv|].
  apply (zcube_den s _ 0 vars B Hc). lia.
Qed.

End ZRestrictTop.

(** ** In terms of assignments and [Sem.restrict_s] *)

(** the view of a cube: all its literals hold *)
Theorem zcube_view : forall s vars lits c0, ZbddOK s -> choice_ok s c0 ->
  zcube_lits (S (nlevels s)) s vars 0 = Some lits ->
  zview_of s vars c0 =
    Some (forallb (fun p : nat * bool => Nat.eqb (c0 (fst p)) (if snd p then 0 else 1)) lits).
Proof.
  intros s vars lits c0 B Hc0 El. pose proof (zo_kind s B) as Hk.
  destruct (zcube_lits_cube s B _ vars 0 lits El ltac:(lia)) as (Hi & Hb & Hc).
  pose proof (zcube_den s _ 0 vars B Hc ltac:(lia)) as D.
  destruct (zden_view s vars _ c0 B D Hc0) as [b [Eb Hbv]]. rewrite Eb. f_equal.
  pose proof (incr_from_nodup _ _ Hi) as Hnd.
  assert (Hassoc : forall l b0, In (l, b0) lits -> assoc_nat lits l = Some b0).
  { clear -Hnd. induction lits as [|[k bk] r IH]; intros l b0 Hin; [destruct Hin|].
    simpl in Hnd. inversion Hnd as [|? ? Hk Hr]; subst. simpl.
    destruct Hin as [Heq|Hin].
    - inversion Heq; subst. rewrite Nat.eqb_refl. reflexivity.
    - destruct (Nat.eqb_spec k l) as [->|_]; [|apply IH; assumption].
      exfalso. apply Hk. apply in_map_iff. exists (l, b0). auto. }
  assert (Hc2 : forall l, c0 l < 2) by (intros l; specialize (Hc0 l); rewrite Hk in Hc0; exact Hc0).
  apply (bool_iff_eq _ _ _ Hbv). rewrite forallb_forall. unfold pcube. split.
  - intros Hall. pose proof (true_levels_pall (nlevels s) c0) as [Hi' Hb'].
    split; [exact Hi'|]. split; [exact Hb'|]. intros l Hl. unfold lits_map. split.
    + intros Hm. assert (Hin : In (l, true) lits).
      { clear -Hm. induction lits as [|[k bk] r IH]; [discriminate|]. simpl in Hm.
        destruct (Nat.eqb_spec k l) as [->|_]; [inversion Hm; left; reflexivity | right; auto]. }
      specialize (Hall _ Hin). simpl in Hall. apply Nat.eqb_eq in Hall.
      apply true_levels_in; [lia | exact Hall].
    + intros Hm Hx. assert (Hin : In (l, false) lits).
      { clear -Hm. induction lits as [|[k bk] r IH]; [discriminate|]. simpl in Hm.
        destruct (Nat.eqb_spec k l) as [->|_]; [inversion Hm; left; reflexivity | right; auto]. }
      specialize (Hall _ Hin). simpl in Hall. apply Nat.eqb_eq in Hall.
      apply true_levels_range in Hx. lia.
  - intros [_ [_ Hlit]] [l b0] Hin. simpl.
    assert (Hl : l < nlevels s).
    { rewrite Forall_forall in Hb. apply Hb. apply in_map_iff. exists (l, b0). auto. }
    destruct (Hlit l ltac:(lia)) as [A1 A2]. unfold lits_map in A1, A2.
    rewrite (Hassoc l b0 Hin) in A1, A2. apply Nat.eqb_eq. destruct b0.
    + specialize (A1 eq_refl). apply true_levels_range in A1. apply A1.
    + specialize (A2 eq_refl). specialize (Hc2 l). destruct (c0 l) as [|[|k]] eqn:Ecl; [|reflexivity | lia].
      exfalso. apply A2. apply true_levels_in; [lia | exact Ecl].
Qed.

Lemma restrict_s_apply : forall lits (g : bfun) a,
  restrict_s lits g a = g (fold_left (fun a0 (p : nat * bool) => Sem.upd a0 (fst p) (snd p)) lits a).
Proof.
  induction lits as [|[v b] r IH]; intros g a; [reflexivity|]. simpl. unfold cof. apply IH.
Qed.

(** the literal list in terms of variables *)
Definition lits_vars (s : snap) (lits : list (nat * bool)) : list (nat * bool) :=
  map (fun p : nat * bool => (nth (fst p) (s_l2v s) 0, snd p)) lits.

Lemma choice_of_fold_upd : forall s, WF s -> forall (lits : list (nat * bool)) a l,
  Forall (fun x => x < nlevels s) (map fst lits) -> NoDup (map fst lits) ->
  choice_of s (fold_left (fun a0 (p : nat * bool) => Sem.upd a0 (fst p) (snd p)) (lits_vars s lits) a) l =
  covr (lits_map lits) (choice_of s a) l.
Proof.
  intros s H. induction lits as [|[k b] r IH]; intros a l Hb Hnd; [reflexivity|].
  simpl in Hb, Hnd. inversion Hb as [|? ? Hk Hr]; subst. inversion Hnd as [|? ? Hnk Hndr]; subst.
  simpl fold_left. rewrite (IH _ l Hr Hndr).
  destruct (wf_perm_l2v s H k Hk) as [v [E1 E2]].
  rewrite (nth_error_nth _ _ 0 E1).
  unfold covr, lits_map. simpl assoc_nat.
  destruct (Nat.eqb_spec k l) as [->|Hne].
  - rewrite (assoc_nat_notin r l Hnk).
    rewrite (choice_of_upd s a v l b H E1 l). unfold TableProofs.upd. rewrite Nat.eqb_refl.
    destruct b; reflexivity.
  - destruct (assoc_nat r l) as [[|]|]; try reflexivity.
    rewrite (choice_of_upd s a v k b H E1 l). unfold TableProofs.upd.
    destruct (Nat.eqb_spec l k); [congruence | reflexivity].
Qed.

Lemma forallb_map_eq : forall (A B : Type) (f : B -> bool) (g : A -> B) l,
  forallb f (map g l) = forallb (fun x => f (g x)) l.
Proof. intros A B f g l. induction l as [|x r IH]; [reflexivity|]. simpl. rewrite IH. reflexivity. Qed.

Lemma forallb_ext_in : forall (A : Type) (f g : A -> bool) l,
  (forall x, In x l -> f x = g x) -> forallb f l = forallb g l.
Proof.
  intros A f g l. induction l as [|x r IH]; intros E; [reflexivity|]. simpl.
  rewrite (E x (or_introl eq_refl)), IH; [reflexivity|]. intros y Hy. apply E. right. exact Hy.
Qed.

Section ZRestrictBfun.
Variable C : Type.
Variable cget : C -> N -> list ref -> list nat -> option ref.
Variable cadd : C -> N -> list ref -> list nat -> ref -> C.
Hypothesis Hlossy : zlossy C cget cadd.

(** C04 for ZBDDs: [restrict] = the cofactor w.r.t. the partial assignment given by the cube *)
Theorem zrestrict_edge_bfun : forall s c f vars lits,
  ZbddOK s -> ZChainOK s -> ZCacheOKB C cget s c -> ref_ok s f ->
  zcube_lits (S (nlevels s)) s vars 0 = Some lits ->
  exists s' c' r, zrestrict_edge C cget cadd (S (nlevels s)) s c f vars = Some (s', c', r) /\
    zstate_ok C cget s s' c' r /\
    (forall a, zbfun_of s' r a = restrict_s (lits_vars s lits) (zbfun_of s f) a) /\
    (forall a, zbfun_of s vars a =
       forallb (fun p : nat * bool => Bool.eqb (a (fst p)) (snd p)) (lits_vars s lits)).
Proof.
  intros s c f vars lits B Hch O Of El. pose proof (zo_wf s B) as H. pose proof (zo_kind s B) as Hk.
  destruct (zcube_lits_cube s B _ vars 0 lits El ltac:(lia)) as (Hi & Hb & Hc).
  pose proof (incr_from_nodup _ _ Hi) as Hnd.
  destruct (zrestrict_edge_sound C cget cadd Hlossy s c f vars lits B Hch O Of El)
    as (s' & c' & r & E & St & Hv & _).
  exists s', c', r. split; [exact E|]. split; [exact St|]. split.
  - intros a. destruct St as (B' & _ & X & _ & _).
    rewrite restrict_s_apply. unfold zbfun_of at 1 2.
    rewrite (choice_of_ext s s' a X), (Hv _ (choice_of_ok s a Hk)).
    unfold zview_of.
    apply (f_equal (fun o : option bool => match o with Some true => true | _ => false end)).
    symmetry. apply (semz_ext_lt s H).
    intros l _. apply (choice_of_fold_upd s H lits a l Hb Hnd).
  - intros a. apply zbfun_of_view. rewrite (zcube_view s vars lits _ B (choice_of_ok s a Hk) El). f_equal.
    unfold lits_vars. rewrite forallb_map_eq. apply forallb_ext_in. intros [l b0] Hin. simpl.
    assert (Hl : l < nlevels s).
    { rewrite Forall_forall in Hb. apply Hb. apply in_map_iff. exists (l, b0). auto. }
    destruct (wf_perm_l2v s H l Hl) as [v [E1 E2]].
    rewrite (nth_error_nth _ _ 0 E1). unfold choice_of. rewrite E1.
    destruct (a v), b0; reflexivity.
Qed.

End ZRestrictBfun.
