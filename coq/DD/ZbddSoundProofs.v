(** * The ZBDD set operations: top-level statements (C09)

    Every operation of [BooleanVecSet] and [make_node], on every well-formed
    ZBDD snapshot, with every lossy cache, every operand order [gt] and fuel
    [>= S nlevels]: the model returns an edge, the table is only extended and
    still well-formed (zero-suppressed, unique), the cache stays valid, and the
    list [famz] computes for the result has exactly the members of the
    documented set expression (DD/FamSpec.v) of the operands' lists.

    Also: cache instances, constants, singleton, make_node, growing tables
    (add_vars) and the Boolean view after growth. *)

From Coq Require Import List NArith PArith Bool Arith Lia FMapPositive.
From OxiVerif Require Import DD.Table DD.TableExtra DD.TableProofs DD.Build DD.BuildProofs
  DD.Apply DD.ApplyProofs DD.CanonZbdd DD.FamSpec DD.FamSpecProofs DD.ZbddOps DD.ZbddOpsProofs
  DD.ZbddSubsetProofs.
Import ListNotations.

(** ** From predicates back to lists *)

Definition pof (F : fam) : fpred := fun S => In S F.

Lemma zden_of_fam : forall s r F, ref_ok s r -> fam_of s r = Some F -> ZDen s r (pof F).
Proof. intros s r F O E. split; [exact O|]. exists F. split; [exact E | reflexivity]. Qed.

Lemma zden_fam : forall s r P, ZDen s r P -> exists F, fam_of s r = Some F /\ forall S, In S F <-> P S.
Proof. intros s r P [_ HF]. exact HF. Qed.

Lemma pbin_f_bin : forall o F G S, pbin o (pof F) (pof G) S <-> In S (f_bin o F G).
Proof.
  intros o F G S. unfold pof. destruct o; simpl.
  - rewrite in_f_union. reflexivity.
  - rewrite in_f_intsec. reflexivity.
  - rewrite in_f_diff. reflexivity.
Qed.

Lemma psub_f_sub : forall o l F S, psub o l (pof F) S <-> In S (f_sub o l F).
Proof.
  intros o l F S. unfold pof. destruct o; simpl.
  - rewrite in_f_subset0. reflexivity.
  - rewrite in_f_subset1. reflexivity.
  - rewrite in_f_change. reflexivity.
Qed.

Definition FUEL (s : snap) : nat := S (nlevels s).

Section Top.
Variable gt : ref -> ref -> bool.
Variable C : Type.
Variable cget : C -> N -> list ref -> list nat -> option ref.
Variable cadd : C -> N -> list ref -> list nat -> ref -> C.
Hypothesis Hlossy : zlossy C cget cadd.

(** union, intsec, diff *)
Theorem zapply_sound : forall op fuel s (c : C) f g,
  ZbddOK s -> ZCacheOK C cget s c -> ref_ok s f -> ref_ok s g -> FUEL s <= fuel ->
  exists s' c' r F G R,
    zapply gt C cget cadd fuel s c op f g = Some (s', c', r) /\
    ZbddOK s' /\ extends s s' /\ ZCacheOK C cget s' c' /\ ref_ok s' r /\
    fam_of s f = Some F /\ fam_of s g = Some G /\ fam_of s' r = Some R /\
    feq R (f_bin op F G).
Proof.
  intros op fuel s c f g B O Of Og Hf. pose proof (zo_wf s B) as H. pose proof (zo_kind s B) as Hk.
  destruct (fam_of_total s H Hk f Of) as [F EF]. destruct (fam_of_total s H Hk g Og) as [G EG].
  pose proof (rlevel_le s H f). pose proof (rlevel_le s H g).
  destruct (zapply_ok gt C cget cadd Hlossy op fuel s c f g (pof F) (pof G) B O
              (zden_of_fam s f F Of EF) (zden_of_fam s g G Og EG)
              ltac:(unfold FUEL in Hf; lia))
    as (s' & c' & r & E & B' & X & O' & D).
  destruct (zden_fam s' r _ D) as [R [ER HR]].
  exists s', c', r, F, G, R. repeat (split; [assumption|]).
  split; [apply (zden_ok _ _ _ D)|]. repeat (split; [assumption|]).
  intros S. rewrite (HR S). apply pbin_f_bin.
Qed.

(** subset0, subset1, change *)
Theorem zsubset_sound : forall op fuel s (c : C) f var,
  ZbddOK s -> ZCacheOK C cget s c -> ref_ok s f -> var < length (s_v2l s) -> FUEL s <= fuel ->
  exists vl s' c' r F R,
    nth_error (s_v2l s) var = Some vl /\
    zsubset_top C cget cadd fuel s c op f var = Some (s', c', r) /\
    ZbddOK s' /\ extends s s' /\ ZCacheOK C cget s' c' /\ ref_ok s' r /\
    fam_of s f = Some F /\ fam_of s' r = Some R /\
    feq R (f_sub op vl F).
Proof.
  intros op fuel s c f var B O Of Hv Hf. pose proof (zo_wf s B) as H. pose proof (zo_kind s B) as Hk.
  destruct (fam_of_total s H Hk f Of) as [F EF].
  destruct (nth_error (s_v2l s) var) as [vl|] eqn:Ev; [|apply nth_error_None in Ev; lia].
  pose proof (rlevel_le s H f).
  destruct (zsubset_ok C cget cadd Hlossy op var vl fuel s c f (pof F) B O
              (zden_of_fam s f F Of EF) Ev ltac:(unfold FUEL in Hf; lia))
    as (s' & c' & r & E & B' & X & O' & D).
  destruct (zden_fam s' r _ D) as [R [ER HR]].
  exists vl, s', c', r, F, R. split; [reflexivity|].
  split; [unfold zsubset_top; rewrite Ev; exact E|].
  repeat (split; [assumption|]).
  split; [apply (zden_ok _ _ _ D)|]. repeat (split; [assumption|]).
  intros S. rewrite (HR S). apply psub_f_sub.
Qed.

End Top.

(** ** Constants, singleton, make_node *)

Theorem zempty_sound : forall s, ZbddOK s ->
  exists r, zempty s = Some r /\ ref_ok s r /\ fam_of s r = Some f_empty.
Proof.
  intros s B. destruct (zempty_spec s B) as [t [E Et]]. exists (RT t).
  split; [exact E|]. split; [exists 0%N; exact Et|].
  rewrite (fam_of_term s t 0%N Et). reflexivity.
Qed.

Theorem zbase_sound : forall s, ZbddOK s ->
  exists r, zbase s = Some r /\ ref_ok s r /\ fam_of s r = Some f_base.
Proof.
  intros s B. destruct (zbase_spec s B) as [t [E Et]]. exists (RT t).
  split; [exact E|]. split; [exists 1%N; exact Et|].
  rewrite (fam_of_term s t 1%N Et). reflexivity.
Qed.

Theorem zsingleton_sound : forall s var, ZbddOK s -> var < length (s_v2l s) ->
  exists vl s' r R,
    nth_error (s_v2l s) var = Some vl /\ zsingleton s var = Some (s', r) /\
    ZbddOK s' /\ extends s s' /\ ref_ok s' r /\
    fam_of s' r = Some R /\ feq R (f_singleton vl).
Proof.
  intros s var B Hv. pose proof (zo_wf s B) as H.
  destruct (nth_error (s_v2l s) var) as [vl|] eqn:Ev; [|apply nth_error_None in Ev; lia].
  destruct (zbase_spec s B) as [tb [Eb Etb]]. destruct (zempty_spec s B) as [te [Ee Ete]].
  pose proof (v2l_range s var vl H Ev) as Hl.
  assert (Hne : is_empty_b s (RT tb) = false)
    by (unfold is_empty_b, is_term_with; rewrite Etb; reflexivity).
  (* [get_or_insert] with hi = Base is what [reduce] does as well *)
  assert (Em : zsingleton s var =
               Some (zmk_node s vl (RT tb) (RT te))).
  { unfold zsingleton, zmk_node. rewrite Eb, Ee, Ev, Hne.
    destruct (get_or_insert s vl [E (RT tb); E (RT te)]). reflexivity. }
  destruct (zmk_node s vl (RT tb) (RT te)) as [s' r] eqn:Emk.
  destruct (zmk_node_ok s vl (RT tb) (RT te) pbase pempty s' r B Hl
              (zden_base s tb B Etb) (zden_empty s te B Ete)
              ltac:(simpl; exact Hl) ltac:(simpl; exact Hl) Emk) as (B' & X & D & _).
  destruct (zden_fam s' r _ D) as [R [ER HR]].
  exists vl, s', r, R. split; [reflexivity|]. split; [exact Em|]. split; [exact B'|].
  split; [exact X|]. split; [apply (zden_ok _ _ _ D)|]. split; [exact ER|].
  intros S. rewrite (HR S), in_f_singleton. unfold node_pred, pbase, pempty. split.
  - intros [[T [-> ->]]|[]]. reflexivity.
  - intros ->. left. exists []. auto.
Qed.

(** the root of a singleton set {L} is a node at level L *)
Lemma singleton_root : forall s var Fv L, ZbddOK s -> ref_ok s var ->
  fam_of s var = Some Fv -> feq Fv (f_singleton L) ->
  exists id nd, var = RN id /\ find_node s id = Some nd /\ nlevel nd = L.
Proof.
  intros s var Fv L B O EF Hq.
  assert (Hin : In [L] Fv) by (apply Hq; left; reflexivity).
  destruct var as [t|id].
  - exfalso. destruct O as [v Et]. rewrite (fam_of_term s t v Et) in EF. inversion EF; subst Fv.
    destruct (N.eqb v 1); simpl in Hin; [destruct Hin as [Hx|[]]; discriminate | destruct Hin].
  - destruct O as [nd En]. exists id, nd. split; [reflexivity|]. split; [exact En|].
    destruct (fam_nonempty s B _ (RN id) (ex_intro _ nd En) (le_n _)) as [F' [S [E' [HS Hh]]]];
      [intros t Hx; discriminate|].
    rewrite EF in E'. inversion E'; subst F'.
    destruct (Hh id nd eq_refl En) as [T ->].
    apply Hq in HS. simpl in HS. destruct HS as [HS|[]]. inversion HS. reflexivity.
Qed.

(** [make_node(var, hi, lo)] under its documented precondition: [var] is a
    singleton set {L} whose level is above the levels of [hi] and [lo] *)
Theorem zmake_node_sound : forall s var hi lo Fv L,
  ZbddOK s -> ref_ok s var -> ref_ok s hi -> ref_ok s lo ->
  fam_of s var = Some Fv -> feq Fv (f_singleton L) ->
  L < rlevel s hi -> L < rlevel s lo ->
  exists s' r A Bf R,
    zmake_node s var hi lo = Some (s', r) /\
    ZbddOK s' /\ extends s s' /\ ref_ok s' r /\
    fam_of s hi = Some A /\ fam_of s lo = Some Bf /\ fam_of s' r = Some R /\
    feq R (f_make_node L A Bf).
Proof.
  intros s var hi lo Fv L B Ov Oh Ol EF Hq Lh Ll.
  pose proof (zo_wf s B) as H. pose proof (zo_kind s B) as Hk.
  destruct (singleton_root s var Fv L B Ov EF Hq) as (id & nd & -> & En & HL).
  destruct (fam_of_total s H Hk hi Oh) as [A EA]. destruct (fam_of_total s H Hk lo Ol) as [Bf EB].
  unfold zmake_node. simpl zget. rewrite En, (wf_stored s H id nd En), HL.
  destruct (zmk_node s L hi lo) as [s' r] eqn:Em.
  assert (HLn : L < nlevels s) by (rewrite <- HL; apply (wf_level s H id nd En)).
  pose proof (zden_of_fam s hi A Oh EA) as DA. pose proof (zden_of_fam s lo Bf Ol EB) as DB.
  destruct (zmk_node_ok s L hi lo _ _ s' r B HLn DA DB Lh Ll Em) as (B' & X & D & _).
  destruct (zden_fam s' r _ D) as [R [ER HR]].
  exists s', r, A, Bf, R. split; [reflexivity|]. split; [exact B'|]. split; [exact X|].
  split; [apply (zden_ok _ _ _ D)|]. repeat (split; [assumption|]).
  intros S. rewrite (HR S), in_f_make_node. unfold node_pred, pof. split.
  - intros [[T [-> HT]]|Hb]; [right | left; exact Hb].
    exists T. split; [exact HT|]. symmetry. apply sinsert_head.
    apply (zden_below s hi (pof A) L T B DA Lh HT).
  - intros [Hb|[T [HT ->]]]; [right; exact Hb | left].
    exists T. split; [|exact HT]. apply sinsert_head.
    apply (zden_below s hi (pof A) L T B DA Lh HT).
Qed.

(** ** Cache instances *)

Lemma zac_lossy : zlossy zacache zac_get zac_add.
Proof.
  intros c k a m r k' a' m' r'. unfold zac_add. simpl.
  destruct (N.eqb_spec k k') as [->|Hk]; simpl; [|auto].
  destruct (refs_eqb a a') eqn:Ea; simpl; [|auto].
  destruct (nat_list_eqb m m') eqn:Em; [|auto].
  apply refs_eqb_eq in Ea. apply nat_list_eqb_eq in Em. subst.
  intros Hx. inversion Hx. left. auto.
Qed.

Lemma znc_lossy : zlossy unit znc_get znc_add.
Proof. intros c k a m r k' a' m' r' Hx. discriminate. Qed.

Lemma zac_empty_ok : forall s, ZCacheOK zacache zac_get s [].
Proof. intros s code args nums r Hx. discriminate. Qed.

Lemma znc_ok : forall s c, ZCacheOK unit znc_get s c.
Proof. intros s c code args nums r Hx. discriminate. Qed.

(** ** Growing tables: add_vars, node creation *)

(** [s'] keeps every node and terminal of [s] and has at least as many levels
    (what [add_vars] does to a ZBDD manager: new levels at the bottom, the
    tautology chain rebuilt, existing nodes untouched) *)
Record grows (s s' : snap) : Prop := mkGrows {
  gr_terms : s_terms s' = s_terms s;
  gr_levels : nlevels s <= nlevels s';
  gr_nodes : forall id nd, find_node s id = Some nd -> find_node s' id = Some nd
}.

Lemma extends_grows : forall s s', extends s s' -> grows s s'.
Proof.
  intros s s' X. constructor.
  - apply (ext_terms _ _ X).
  - rewrite (ext_nlevels _ _ X). lia.
  - apply (ext_nodes _ _ X).
Qed.

Lemma famz_grows : forall s s', WF s -> s_kind s = KZbdd -> grows s s' ->
  forall f r, ref_ok s r -> famz s' f r = famz s f r.
Proof.
  intros s s' H Hk G. induction f as [|f IH]; intros r Hok.
  - destruct r as [t|id]; [|reflexivity]. rewrite !famz_T. unfold term_val.
    rewrite (gr_terms _ _ G). reflexivity.
  - destruct r as [t|id].
    + rewrite !famz_T. unfold term_val. rewrite (gr_terms _ _ G). reflexivity.
    + rewrite !famz_S. destruct Hok as [nd E]. rewrite E, (gr_nodes _ _ G id nd E).
      destruct (zchildren s H Hk id nd E) as [hi [lo Ec]]. rewrite Ec.
      destruct (zchild_ok s H id nd hi lo E Ec) as [Oh [_ [Ol _]]].
      rewrite (IH _ Oh), (IH _ Ol). reflexivity.
Qed.

Lemma famz_fuel_mono : forall s f f' r F, famz s f r = Some F -> f <= f' -> famz s f' r = Some F.
Proof.
  intros s. induction f as [|f IH]; intros f' r F E Hl.
  - destruct r as [t|id]; [|discriminate]. rewrite famz_T in *. exact E.
  - destruct r as [t|id]; [rewrite famz_T in *; exact E|].
    destruct f' as [|f']; [lia|]. rewrite famz_S in *.
    destruct (find_node s id) as [nd|]; [|discriminate].
    destruct (nchildren nd) as [|hi [|lo [|x rest]]]; try discriminate.
    destruct (famz s f (eref hi)) as [A|] eqn:EA; [|discriminate].
    destruct (famz s f (eref lo)) as [B|] eqn:EB; [|discriminate].
    rewrite (IH f' _ _ EA ltac:(lia)), (IH f' _ _ EB ltac:(lia)). exact E.
Qed.

(** families are stable: every edge of [s] denotes in [s'] the family it denoted in [s] *)
Theorem grows_fam : forall s s' r, WF s -> s_kind s = KZbdd -> grows s s' -> ref_ok s r ->
  fam_of s' r = fam_of s r.
Proof.
  intros s s' r H Hk G O. unfold fam_of.
  destruct (fam_of_total s H Hk r O) as [F EF]. unfold fam_of in EF. rewrite EF.
  rewrite (famz_grows s s' H Hk G _ r O).
  apply (famz_fuel_mono s (S (nlevels s))); [exact EF|]. pose proof (gr_levels _ _ G). lia.
Qed.

(** the characteristic function over more levels: the additional levels must be lo *)
Lemma fam_bool_more : forall n k F c, (forall l, c l < 2) ->
  (forall S, In S F -> Forall (fun x => x < n) S) ->
  fam_bool (n + k) F c = fam_bool n F c && all_lo c n k.
Proof.
  intros n k F c Hc Hb. unfold fam_bool. rewrite true_levels_app. simpl plus.
  rewrite (all_lo_true_levels c k n Hc).
  destruct (true_levels c n k) as [|x T] eqn:ET; simpl.
  - rewrite app_nil_r, andb_true_r. reflexivity.
  - rewrite andb_false_r. apply fmem_false. intros Hin.
    assert (Hx : In x (true_levels c n k)) by (rewrite ET; left; reflexivity).
    apply true_levels_range in Hx.
    pose proof (Hb _ Hin) as Hall. rewrite Forall_forall in Hall.
    specialize (Hall x ltac:(apply in_or_app; right; left; reflexivity)). lia.
Qed.

(** the Boolean view of an old edge in the grown table: as before, and all new variables false *)
Theorem grows_bool_view : forall s s' r c F,
  WF s -> s_kind s = KZbdd -> WF s' -> s_kind s' = KZbdd -> grows s s' ->
  ref_ok s r -> ref_ok s' r -> choice_ok s' c -> fam_of s r = Some F ->
  semz s' (S (nlevels s')) 0 r c =
    Some (fam_bool (nlevels s) F c && all_lo c (nlevels s) (nlevels s' - nlevels s)).
Proof.
  intros s s' r c F H Hk H' Hk' G O O' Hc EF.
  assert (EF' : fam_of s' r = Some F) by (rewrite (grows_fam s s' r H Hk G O); exact EF).
  rewrite (bool_view s' H' Hk' r c F O' Hc EF'). f_equal.
  pose proof (gr_levels _ _ G).
  replace (nlevels s') with (nlevels s + (nlevels s' - nlevels s)) at 1 by lia.
  apply fam_bool_more.
  - apply (choice_lt2 s' Hk' c Hc).
  - intros S HS. apply (fam_of_members s H Hk r F S EF HS).
Qed.
