(** * Correctness of the ZBDD set operations, part 2 (model: DD/ZbddOps.v)

    - [zsubset_ok]: subset0, subset1, change ([subset::<VAL>]): the recursion
      above the variable's level, the three outcomes at the variable's level,
      and the case "variable above the operand" where [change] creates a node
      on top of the operand;
    - constants, [zsingleton], [zmake_node];
    - the statements in list form ([..._sound]): the family [famz] lists for
      the result has exactly the members of the documented set expression
      (DD/FamSpec.v) applied to the operands' families;
    - tables that grow (add_vars, node creation): families of old edges are
      unchanged, the Boolean view gains "new variables false". *)

From Coq Require Import List NArith PArith Bool Arith Lia FMapPositive.
From OxiVerif Require Import DD.Table DD.TableExtra DD.TableProofs DD.Build DD.BuildProofs
  DD.Apply DD.ApplyProofs DD.CanonZbdd DD.FamSpec DD.FamSpecProofs DD.ZbddOps DD.ZbddOpsProofs.
Import ListNotations.

(** ** Family identities for the unary operators *)

Lemma psub_sup : forall o L vl P, L < vl -> sup L P -> sup L (psub o vl P).
Proof.
  intros o L vl P Hl SP S. destruct o; simpl.
  - intros [HP _]. apply SP, HP.
  - intros [S0 [HP [_ ->]]]. apply incr_from_sremove. apply SP, HP.
  - intros [[S0 [HP [_ ->]]]|[S0 [HP [_ ->]]]].
    + apply incr_from_sinsert; [apply SP, HP | lia].
    + apply incr_from_sremove. apply SP, HP.
Qed.

(** the node lies above the variable's level: the operator distributes over the node *)
Lemma psub_node_above : forall o L vl PA PB, L < vl ->
  peq (psub o vl (node_pred L PA PB)) (node_pred L (psub o vl PA) (psub o vl PB)).
Proof.
  intros o L vl PA PB Hl S. unfold node_pred.
  assert (Hne : L <> vl) by lia.
  destruct o; simpl; split.
  - intros [[[T [-> HA]]|HB] Hn].
    + left. exists T. split; [reflexivity|]. split; [exact HA|]. intros Hx. apply Hn. right. exact Hx.
    + right. auto.
  - intros [[T [-> [HA Hn]]]|[HB Hn]].
    + split; [left; eauto|]. intros [Hx|Hx]; [contradiction | auto].
    + split; [right; exact HB | exact Hn].
  - intros [S0 [[[T [-> HA]]|HB] [Hi ->]]].
    + left. exists (sremove vl T). split; [apply sremove_cons_ne; exact Hne|].
      exists T. split; [exact HA|]. split; [|reflexivity].
      destruct Hi as [Hi|Hi]; [contradiction | exact Hi].
    + right. exists S0. auto.
  - intros [[T [-> [T0 [HA [Hi ->]]]]]|[S0 [HB [Hi ->]]]].
    + exists (L :: T0). split; [left; eauto|]. split; [right; exact Hi|].
      symmetry. apply sremove_cons_ne. exact Hne.
    + exists S0. auto.
  - intros [[S0 [[[T [-> HA]]|HB] [Hn ->]]]|[S0 [[[T [-> HA]]|HB] [Hi ->]]]].
    + left. exists (sinsert vl T). split; [apply sinsert_cons_lt; exact Hl|].
      left. exists T. split; [exact HA|]. split; [|reflexivity].
      intros Hx. apply Hn. right. exact Hx.
    + right. left. exists S0. auto.
    + left. exists (sremove vl T). split; [apply sremove_cons_ne; exact Hne|].
      right. exists T. split; [exact HA|]. split; [|reflexivity].
      destruct Hi as [Hi|Hi]; [contradiction | exact Hi].
    + right. right. exists S0. auto.
  - intros [[T [-> [[T0 [HA [Hn ->]]]|[T0 [HA [Hi ->]]]]]]|[[S0 [HB [Hn ->]]]|[S0 [HB [Hi ->]]]]].
    + left. exists (L :: T0). split; [left; eauto|]. split.
      * intros [Hx|Hx]; [contradiction | auto].
      * symmetry. apply sinsert_cons_lt. exact Hl.
    + right. exists (L :: T0). split; [left; eauto|]. split; [right; exact Hi|].
      symmetry. apply sremove_cons_ne. exact Hne.
    + left. exists S0. auto.
    + right. exists S0. auto.
Qed.

(** the node is at the variable's level *)
Lemma psub_node_at : forall o vl PA PB, sup vl PA -> sup vl PB ->
  peq (psub o vl (node_pred vl PA PB))
      (match o with
       | ZSubset0 => PB
       | ZSubset1 => PA
       | ZChange => node_pred vl PB PA
       end).
Proof.
  intros o vl PA PB SA SB S. unfold node_pred.
  assert (NA : forall T, PA T -> ~ In vl T)
    by (intros T HT; apply (incr_from_notin T (Datatypes.S vl) vl (SA T HT)); lia).
  assert (NB : forall T, PB T -> ~ In vl T)
    by (intros T HT; apply (incr_from_notin T (Datatypes.S vl) vl (SB T HT)); lia).
  destruct o; simpl; split.
  - intros [[[T [-> HA]]|HB] Hn]; [exfalso; apply Hn; left; reflexivity | exact HB].
  - intros HB. split; [right; exact HB | apply NB; exact HB].
  - intros [S0 [[[T [-> HA]]|HB] [Hi ->]]].
    + rewrite sremove_cons_eq, (sremove_notin vl T (NA T HA)). exact HA.
    + exfalso. apply (NB S0 HB Hi).
  - intros HA. exists (vl :: S). split; [left; eauto|]. split; [left; reflexivity|].
    rewrite sremove_cons_eq, (sremove_notin vl S (NA S HA)). reflexivity.
  - intros [[S0 [[[T [-> HA]]|HB] [Hn ->]]]|[S0 [[[T [-> HA]]|HB] [Hi ->]]]].
    + exfalso. apply Hn. left. reflexivity.
    + left. exists S0. split; [apply sinsert_head; apply SB; exact HB | exact HB].
    + right. rewrite sremove_cons_eq, (sremove_notin vl T (NA T HA)). exact HA.
    + exfalso. apply (NB S0 HB Hi).
  - intros [[T [-> HB]]|HA].
    + left. exists T. split; [right; exact HB|]. split; [apply NB; exact HB|].
      symmetry. apply sinsert_head. apply SB. exact HB.
    + right. exists (vl :: S). split; [left; eauto|]. split; [left; reflexivity|].
      rewrite sremove_cons_eq, (sremove_notin vl S (NA S HA)). reflexivity.
Qed.

(** the operand lies below the variable's level *)
Lemma psub_below : forall o vl P, sup vl P ->
  peq (psub o vl P)
      (match o with
       | ZSubset0 => P
       | ZSubset1 => pempty
       | ZChange => node_pred vl P pempty
       end).
Proof.
  intros o vl P SP S.
  assert (NP : forall T, P T -> ~ In vl T)
    by (intros T HT; apply (incr_from_notin T (Datatypes.S vl) vl (SP T HT)); lia).
  destruct o; simpl; unfold node_pred, pempty; split.
  - intros [HP _]. exact HP.
  - intros HP. split; [exact HP | apply NP; exact HP].
  - intros [S0 [HP [Hi _]]]. apply (NP S0 HP Hi).
  - intros [].
  - intros [[S0 [HP [Hn ->]]]|[S0 [HP [Hi _]]]].
    + left. exists S0. split; [apply sinsert_head; apply SP; exact HP | exact HP].
    + exfalso. apply (NP S0 HP Hi).
  - intros [[T [-> HP]]|[]].
    left. exists T. split; [exact HP|]. split; [apply NP; exact HP|].
    symmetry. apply sinsert_head. apply SP. exact HP.
Qed.

(** ** The variable order *)

Lemma v2l_range : forall s var vl, WF s -> nth_error (s_v2l s) var = Some vl -> vl < nlevels s.
Proof.
  intros s var vl H E.
  assert (Hv : var < length (s_v2l s)) by (apply nth_error_Some; congruence).
  destruct (wf_perm_v2l s H var Hv) as [j [E1 E2]]. rewrite E in E1. inversion E1; subst j.
  unfold nlevels. apply nth_error_Some. congruence.
Qed.

Section ZSubsetSec.
Variable C : Type.
Variable cget : C -> N -> list ref -> list nat -> option ref.
Variable cadd : C -> N -> list ref -> list nat -> ref -> C.
Hypothesis Hlossy : zlossy C cget cadd.

Notation ZCacheOK := (ZCacheOK C cget).
Notation zresult_ok := (zresult_ok C cget).

Lemma zsubset_below_ok : forall s c op f vl P,
  ZbddOK s -> ZCacheOK s c -> ZDen s f P -> vl < nlevels s -> vl < rlevel s f ->
  zresult_ok s (zsubset_below C s c op f vl) (psub op vl P).
Proof.
  intros s c op f vl P B O D Hv Hl.
  assert (SP : sup vl P) by (intros S HS; apply (zden_below s f P vl S B D Hl HS)).
  apply (zresult_ext C cget s _ _ _ (fun S => iff_sym (psub_below op vl P SP S))).
  destruct (zempty_spec s B) as [te [Ee Et]].
  unfold zsubset_below. destruct op; rewrite ?Ee.
  - apply zresult_here; assumption.
  - apply zresult_here; try assumption. apply (zden_empty s te B Et).
  - destruct (zmk_node s vl f (RT te)) as [s1 h] eqn:Em.
    destruct (zmk_node_ok s vl f (RT te) P pempty s1 h B Hv D (zden_empty s te B Et) Hl
                ltac:(simpl; exact Hv) Em) as (B1 & X1 & D1 & _).
    exists s1, c, h. split; [reflexivity|]. split; [exact B1|]. split; [exact X1|].
    split; [apply (zcacheok_extends C cget s s1 c B X1 O) | exact D1].
Qed.

Lemma zsubset_S : forall n s c op f var vl,
  zsubset C cget cadd (S n) s c op f var vl =
    match zget s f with
    | None => None
    | Some (ZT _) => zsubset_below C s c op f vl
    | Some (ZI nd) =>
      match Nat.compare (nstored nd) vl with
      | Lt =>
        match cget c (zsub_code op) [f] [var] with
        | Some h => Some (s, c, h)
        | None =>
          match nchildren nd with
          | [fhi; flo] =>
            match zsubset C cget cadd n s c op (eref fhi) var vl with
            | None => None
            | Some (s1, c1, hi) =>
              match zsubset C cget cadd n s1 c1 op (eref flo) var vl with
              | None => None
              | Some (s2, c2, lo) =>
                let '(s3, h) := zmk_node s2 (nstored nd) hi lo in
                Some (s3, cadd c2 (zsub_code op) [f] [var] h, h)
              end
            end
          | _ => None
          end
        end
      | Eq =>
        match nchildren nd with
        | [fhi; flo] =>
          match op with
          | ZChange =>
            let '(s1, h) := zmk_node s (nstored nd) (eref flo) (eref fhi) in Some (s1, c, h)
          | ZSubset0 => Some (s, c, eref flo)
          | ZSubset1 => Some (s, c, eref fhi)
          end
        | _ => None
        end
      | Gt => zsubset_below C s c op f vl
      end
    end.
Proof. reflexivity. Qed.

Theorem zsubset_ok : forall op var vl fuel s c f P,
  ZbddOK s -> ZCacheOK s c -> ZDen s f P -> nth_error (s_v2l s) var = Some vl ->
  nlevels s - rlevel s f < fuel ->
  zresult_ok s (zsubset C cget cadd fuel s c op f var vl) (psub op vl P).
Proof.
  intros op var vl. induction fuel as [|n IH]; intros s c f P B O D Ev Hfuel; [lia|].
  pose proof (zo_wf s B) as H. pose proof (v2l_range s var vl H Ev) as Hv.
  rewrite zsubset_S.
  destruct f as [t|id].
  - (* terminal *)
    destruct (zden_ok _ _ _ D) as [v Et]. simpl zget. rewrite Et.
    apply zsubset_below_ok; auto.
  - destruct (zden_ok _ _ _ D) as [nd En]. simpl zget. rewrite En.
    destruct (znode_facts s id nd P B D En)
      as (Sf & Lf & Rf & fhi & flo & PA & PB & Ecf & DA & DB & LA & LB & HP & SA & SB).
    rewrite Sf. rewrite Rf in Hfuel.
    destruct (Nat.compare_spec (nlevel nd) vl) as [Heq|Hlt|Hgt].
    + (* the node of the variable *)
      subst vl. rewrite Ecf.
      apply (zresult_ext C cget s _ _ _
               (fun S => iff_sym (iff_trans (psub_ext op _ _ _ HP S)
                                            (psub_node_at op _ PA PB SA SB S)))).
      destruct op.
      * apply zresult_here; assumption.
      * apply zresult_here; assumption.
      * destruct (zmk_node s (nlevel nd) (eref flo) (eref fhi)) as [s1 h] eqn:Em.
        destruct (zmk_node_ok s _ _ _ PB PA s1 h B Lf DB DA LB LA Em) as (B1 & X1 & D1 & _).
        exists s1, c, h. split; [reflexivity|]. split; [exact B1|]. split; [exact X1|].
        split; [apply (zcacheok_extends C cget s s1 c B X1 O) | exact D1].
    + (* above the variable's level *)
      destruct (cget c (zsub_code op) [RN id] [var]) as [h|] eqn:Ec.
      * pose proof (O _ _ _ _ Ec op eq_refl) as Oe. simpl in Oe.
        destruct Oe as [P0 [vl0 [Ev0 [D0 Dh]]]]. rewrite Ev in Ev0. inversion Ev0; subst vl0.
        exists s, c, h. split; [reflexivity|]. split; [exact B|]. split; [apply extends_refl|].
        split; [exact O|]. apply (zden_ext s h _ _ Dh). apply psub_ext.
        apply (zden_unique s (RN id) P0 P D0 D).
      * rewrite Ecf.
        pose proof (rlevel_le s H (eref fhi)). pose proof (rlevel_le s H (eref flo)).
        destruct (IH s c (eref fhi) PA B O DA Ev ltac:(lia))
          as (s1 & c1 & hi & E1 & B1 & X1 & O1 & D1).
        rewrite E1.
        assert (Ev1 : nth_error (s_v2l s1) var = Some vl) by (rewrite (ext_v2l _ _ X1); exact Ev).
        assert (Hfuel2 : nlevels s1 - rlevel s1 (eref flo) < n).
        { rewrite (ext_nlevels _ _ X1), (ext_rlevel _ _ _ X1 (zden_ok _ _ _ DB)). lia. }
        destruct (IH s1 c1 (eref flo) PB B1 O1 (zden_extends s s1 _ _ B X1 DB) Ev1 Hfuel2)
          as (s2 & c2 & lo & E2 & B2 & X2 & O2 & D2).
        rewrite E2.
        destruct (zmk_node s2 (nlevel nd) hi lo) as [s3 h] eqn:Em.
        pose proof (zden_extends s1 s2 hi _ B1 X2 D1) as D1'.
        assert (HL2 : nlevel nd < nlevels s2)
          by (rewrite (ext_nlevels _ _ X2), (ext_nlevels _ _ X1); exact Lf).
        assert (Lh2 : nlevel nd < rlevel s2 hi).
        { apply (zden_level s2 hi _ (S (nlevel nd)) B2 D1'); [lia|].
          apply (psub_sup op _ vl PA Hlt SA). }
        assert (Ll2 : nlevel nd < rlevel s2 lo).
        { apply (zden_level s2 lo _ (S (nlevel nd)) B2 D2); [lia|].
          apply (psub_sup op _ vl PB Hlt SB). }
        destruct (zmk_node_ok s2 _ hi lo _ _ s3 h B2 HL2 D1' D2 Lh2 Ll2 Em) as (B3 & X3 & D3 & _).
        pose proof (extends_trans _ _ _ X1 (extends_trans _ _ _ X2 X3)) as X13.
        assert (Dres : ZDen s3 h (psub op vl P)).
        { apply (zden_ext s3 h _ _ D3). intros S.
          rewrite <- (psub_node_above op (nlevel nd) vl PA PB Hlt S).
          symmetry. apply (psub_ext op vl _ _ HP S). }
        exists s3, (cadd c2 (zsub_code op) [RN id] [var] h), h.
        split; [reflexivity|]. split; [exact B3|]. split; [exact X13|]. split; [|exact Dres].
        apply (zcacheok_add C cget cadd Hlossy); [apply (zcacheok_extends C cget s2 s3 c2 B2 X3 O2)|].
        simpl. intros o Ho. apply zsub_code_inj in Ho. subst o.
        exists P, vl. split; [rewrite (ext_v2l _ _ X13); exact Ev|].
        split; [apply (zden_extends s s3 _ _ B X13 D) | exact Dres].
    + (* the variable's level is above the node *)
      apply zsubset_below_ok; auto. rewrite Rf. exact Hgt.
Qed.

End ZSubsetSec.
