(** * C09: composite statements (their conjunctions / case forms are proved here so that
    coq/Props/C09.v contains only [exact]) *)
From Coq Require Import List NArith PArith Bool Arith FMapPositive.
From OxiVerif Require Import DD.Table DD.TableExtra DD.TableProofs DD.Build DD.BuildProofs
  DD.FamSpec DD.FamSpecProofs DD.ZbddOps DD.ZbddOpsProofs DD.ZbddSubsetProofs DD.ZbddSoundProofs
  DD.ZbddVars DD.ZbddVarsProofs DD.ZbddExamples.
Import ListNotations.

Theorem c09_set_expressions_thm : forall (F G : fam) (v : nat) (S : lset),
  (In S f_empty <-> False) /\ (In S f_base <-> S = []) /\ (In S (f_singleton v) <-> S = [v]) /\
  (In S (f_union F G) <-> In S F \/ In S G) /\
  (In S (f_intsec F G) <-> In S F /\ In S G) /\
  (In S (f_diff F G) <-> In S F /\ ~ In S G) /\
  (In S (f_subset0 v F) <-> In S F /\ ~ In v S) /\
  (In S (f_subset1 v F) <-> exists S0, In S0 F /\ In v S0 /\ S = sremove v S0) /\
  (In S (f_change v F) <->
     (exists S0, In S0 F /\ ~ In v S0 /\ S = sinsert v S0) \/
     (exists S0, In S0 F /\ In v S0 /\ S = sremove v S0)) /\
  (In S (f_make_node v F G) <-> In S G \/ exists S0, In S0 F /\ S = sinsert v S0).
Proof.
  intros F G v S.
  split; [apply in_f_empty|]. split; [apply in_f_base|]. split; [apply in_f_singleton|].
  split; [apply in_f_union|]. split; [apply in_f_intsec|]. split; [apply in_f_diff|].
  split; [apply in_f_subset0|]. split; [apply in_f_subset1|]. split; [apply in_f_change|].
  apply in_f_make_node.
Qed.

Theorem c09_set_ops_thm : forall v S x,
  (In x (sremove v S) <-> In x S /\ x <> v) /\ (In x (sinsert v S) <-> x = v \/ In x S) /\
  (forall lo, incr_from lo S -> incr_from lo (sremove v S)) /\
  (forall lo, incr_from lo S -> lo <= v -> incr_from lo (sinsert v S)).
Proof.
  intros v S x. split; [apply in_sremove|]. split; [apply in_sinsert|].
  split; [intros lo; apply incr_from_sremove | intros lo; apply incr_from_sinsert].
Qed.

Theorem c09_apply_sound_thm : forall gt C cget cadd, zlossy C cget cadd ->
  forall op fuel s (c : C) f g,
  ZbddOK s -> ZCacheOK C cget s c -> ref_ok s f -> ref_ok s g -> S (nlevels s) <= fuel ->
  exists s' c' r F G R,
    zapply gt C cget cadd fuel s c op f g = Some (s', c', r) /\
    ZbddOK s' /\ extends s s' /\ ZCacheOK C cget s' c' /\ ref_ok s' r /\
    fam_of s f = Some F /\ fam_of s g = Some G /\ fam_of s' r = Some R /\
    feq R (match op with
           | ZUnion => f_union F G
           | ZIntsec => f_intsec F G
           | ZDiff => f_diff F G
           end).
Proof.
  intros gt C cget cadd HL op fuel s c f g B O Of Og Hf.
  destruct (zapply_sound gt C cget cadd HL op fuel s c f g B O Of Og Hf)
    as (s' & c' & r & F & G & R & E & B' & X & O' & Or & EF & EG & ER & Hq).
  exists s', c', r, F, G, R. repeat (split; [assumption|]). destruct op; exact Hq.
Qed.

Theorem c09_subset_sound_thm : forall C cget cadd, zlossy C cget cadd ->
  forall op fuel s (c : C) f var,
  ZbddOK s -> ZCacheOK C cget s c -> ref_ok s f -> var < length (s_v2l s) ->
  S (nlevels s) <= fuel ->
  exists vl s' c' r F R,
    nth_error (s_v2l s) var = Some vl /\
    zsubset_top C cget cadd fuel s c op f var = Some (s', c', r) /\
    ZbddOK s' /\ extends s s' /\ ZCacheOK C cget s' c' /\ ref_ok s' r /\
    fam_of s f = Some F /\ fam_of s' r = Some R /\
    feq R (match op with
           | ZSubset0 => f_subset0 vl F
           | ZSubset1 => f_subset1 vl F
           | ZChange => f_change vl F
           end).
Proof.
  intros C cget cadd HL op fuel s c f var B O Of Hv Hf.
  destruct (zsubset_sound C cget cadd HL op fuel s c f var B O Of Hv Hf)
    as (vl & s' & c' & r & F & R & Ev & E & B' & X & O' & Or & EF & ER & Hq).
  exists vl, s', c', r, F, R. repeat (split; [assumption|]). destruct op; exact Hq.
Qed.

Theorem c09_caches_thm : zlossy zacache zac_get zac_add /\ zlossy unit znc_get znc_add /\
  (forall s, ZCacheOK zacache zac_get s []) /\ (forall s c, ZCacheOK unit znc_get s c).
Proof. split; [exact zac_lossy|]. split; [exact znc_lossy|]. split; [exact zac_empty_ok | exact znc_ok]. Qed.

Theorem c09_example_thm :
  ZbddOK ex_z3 /\ ZCacheOK zacache zac_get ex_z3 [] /\
  fam_of ex_z3 (RN 3) = Some [[0; 2]; [1]; [2]] /\
  zout (zapply zgt_id zacache zac_get zac_add (S (nlevels ex_z3)) ex_z3 [] ZDiff (RN 3) (RN 2))
    = Some (4, RN 4, Some [[0; 2]]) /\
  zout (zsubset_top zacache zac_get zac_add (S (nlevels ex_z3)) ex_z3 [] ZChange (RN 2) 2)
    = Some (4, RN 4, Some [[0; 1]; [0; 2]]) /\
  zout (zsubset_top zacache zac_get zac_add (S (nlevels ex_z3)) ex_z3 [] ZChange (RN 3) 1)
    = Some (5, RN 5, Some [[0]; [1; 2]; []]) /\
  ZbddOK ex_z4 /\ grows ex_z3 ex_z4.
Proof.
  split; [exact ex_z3_ok|]. split; [exact ex_z3_cache_ok|].
  split; [apply ex_z3_fams|].
  split; [apply ex_z3_binary|]. split; [apply ex_z3_unary|]. split; [apply ex_z3_unary|].
  exact ex_z4_grows.
Qed.

