(** * add_vars for ZBDD managers and the tautology chain (C09)

    Executable definitions only (proofs: DD/ZbddVarsProofs.v).  Mirrors

    - [Manager::add_vars] (oxidd-manager-index / -pointer, manager.rs): the new
      variables are appended below all existing levels, their variable number
      and level number coincide ([var_level_map.extend]);
    - [ZBDDCache::post_reorder_mut] (oxidd-rules-zbdd/src/lib.rs), called from
      [add_vars] (and on init / after reordering): the tautology chain is
      rebuilt bottom-up, [taut(n) = Base], [taut(l) = get_or_insert(l, [taut(l+1), taut(l+1)])].

    [pre_reorder_mut] removes chain nodes that nothing else references; like
    garbage collection this is not part of the model (the theorems speak about
    tables that keep their nodes). *)

From Coq Require Import List NArith PArith Bool Arith FMapPositive.
From OxiVerif Require Import DD.Table DD.Build DD.Apply DD.FamSpec DD.ZbddOps.
Import ListNotations.

(** [unique_table.resize_with] + [var_level_map.extend(k)] *)
Definition add_levels (s : snap) (k : nat) : snap :=
  mkSnap (s_kind s) (s_nodes s) (s_terms s)
         (s_v2l s ++ seq (nlevels s) k) (s_l2v s ++ seq (nlevels s) k) (s_handles s).

(** the loop of [post_reorder_mut] over [manager.levels().rev()], [cnt] levels still to do:
    the node of level [cnt - 1] gets the previous edge as both children.
    The list collects the edges [tautologies] (terminal level first). *)
Fixpoint ztaut_build (cnt : nat) (s : snap) (e : ref) (acc : list ref) : snap * list ref :=
  match cnt with
  | O => (s, acc)
  | S c =>
    let '(s', e') := get_or_insert s c [E e; E e] in
    ztaut_build c s' (eref e') (eref e' :: acc)
  end.

(** [post_reorder_mut]: [None] = [get_terminal(Base).unwrap()] panics.
    Result: the table and [tautologies] reversed, i.e. index = level, last = Base *)
Definition ztaut_chain (s : snap) : option (snap * list ref) :=
  match zbase s with
  | Some b => Some (ztaut_build (nlevels s) s b [b])
  | None => None
  end.

(** [ZBDDCache::tautology(level)] on the rebuilt chain *)
Definition ztautology (chain : list ref) (level : nat) : option ref :=
  nth_error chain (Nat.min level (length chain - 1)).

(** [add_vars(k)] of a ZBDD manager *)
Definition zadd_vars (s : snap) (k : nat) : option (snap * list ref) :=
  ztaut_chain (add_levels s k).

(** all subsets of the levels [from, from + cnt): the family of [taut(from)] over [from + cnt] levels *)
Fixpoint f_powerset (from cnt : nat) : fam :=
  match cnt with
  | O => [[]]
  | S k => let r := f_powerset (S from) k in map (cons from) r ++ r
  end.
