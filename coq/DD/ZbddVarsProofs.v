(** * add_vars and the tautology chain of ZBDD managers: proofs (model: DD/ZbddVars.v)

    - [add_levels_ok]: appending [k] levels keeps the table well-formed, keeps
      every node ([grows]) and hence every family;
    - [ztaut_chain_ok]: the rebuilt chain only extends the table, keeps it
      well-formed, and [taut(l)] denotes the family of all subsets of the
      levels [l, nlevels) ([f_powerset]) -- in the Boolean view: constant true
      from level [l] on;
    - [zadd_vars_ok]: both together. *)

From Coq Require Import List NArith PArith Bool Arith Lia FMapPositive.
From OxiVerif Require Import DD.Table DD.TableExtra DD.TableProofs DD.Build DD.BuildProofs
  DD.Apply DD.ApplyProofs DD.CanonZbdd DD.FamSpec DD.FamSpecProofs DD.ZbddOps DD.ZbddOpsProofs
  DD.ZbddSubsetProofs DD.ZbddSoundProofs DD.ZbddVars.
Import ListNotations.

(** ** [f_powerset] *)

Lemma in_f_powerset : forall cnt from S,
  In S (f_powerset from cnt) <-> incr_from from S /\ Forall (fun x => x < from + cnt) S.
Proof.
  induction cnt as [|k IH]; intros from S; simpl.
  - split.
    + intros [<-|[]]. split; [exact I | constructor].
    + intros [Hi Hb]. left. destruct S as [|x r]; [reflexivity|].
      simpl in Hi. inversion Hb; subst. lia.
  - rewrite in_app_iff, in_map_iff. split.
    + intros [[T [<- HT]]|HS].
      * apply IH in HT. destruct HT as [Hi Hb]. split; [simpl; split; [lia | exact Hi]|].
        constructor; [lia|]. eapply Forall_impl; [|exact Hb]. simpl. intros; lia.
      * apply IH in HS. destruct HS as [Hi Hb]. split.
        -- apply (incr_from_weaken S (Datatypes.S from)); [lia | exact Hi].
        -- eapply Forall_impl; [|exact Hb]. simpl. intros; lia.
    + intros [Hi Hb]. destruct S as [|x r].
      * right. apply IH. split; [exact I | constructor].
      * simpl in Hi. destruct Hi as [Hx Hr]. inversion Hb as [|? ? Hxb Hrb]; subst.
        destruct (Nat.eq_dec x from) as [->|Hne].
        -- left. exists r. split; [reflexivity|]. apply IH. split; [exact Hr|].
           eapply Forall_impl; [|exact Hrb]. simpl. intros; lia.
        -- right. apply IH. split; [simpl; split; [lia | exact Hr]|].
           constructor; [lia|]. eapply Forall_impl; [|exact Hrb]. simpl. intros; lia.
Qed.

(** the family of all subsets is, as a Boolean function, constant true *)
Lemma fam_bool_powerset : forall n c, fam_bool n (f_powerset 0 n) c = true.
Proof.
  intros n c. unfold fam_bool. apply fmem_spec. apply in_f_powerset. split.
  - apply true_levels_incr.
  - apply Forall_forall. intros x Hx. apply true_levels_range in Hx. lia.
Qed.

(** ** Appending levels *)

Lemma nth_error_seq : forall len start i, i < len -> nth_error (seq start len) i = Some (start + i).
Proof.
  induction len as [|len IH]; intros start i Hi; [lia|].
  destruct i as [|i]; simpl; [f_equal; lia|]. rewrite IH by lia. f_equal. lia.
Qed.

Lemma inv_on_extend : forall a b k, length a = length b -> inv_on a b ->
  inv_on (a ++ seq (length a) k) (b ++ seq (length a) k).
Proof.
  intros a b k Hlen Hab i Hi. rewrite app_length, seq_length in Hi.
  destruct (Nat.lt_ge_cases i (length a)) as [Hlt|Hge].
  - destruct (Hab i Hlt) as [j [E1 E2]]. exists j. split.
    + rewrite nth_error_app1 by exact Hlt. exact E1.
    + assert (Hj : j < length b) by (apply nth_error_Some; congruence).
      rewrite nth_error_app1 by exact Hj. exact E2.
  - exists i. split.
    + rewrite nth_error_app2 by exact Hge. rewrite nth_error_seq by lia. f_equal. lia.
    + rewrite nth_error_app2 by lia. rewrite <- Hlen. rewrite nth_error_seq by lia. f_equal. lia.
Qed.

Lemma add_levels_nlevels : forall s k, nlevels (add_levels s k) = nlevels s + k.
Proof. intros s k. unfold nlevels, add_levels. simpl. rewrite app_length, seq_length. reflexivity. Qed.

Lemma add_levels_ref_ok : forall s k r, ref_ok (add_levels s k) r <-> ref_ok s r.
Proof. intros s k [t|id]; reflexivity. Qed.

Lemma add_levels_rlevel_ge : forall s k r, rlevel s r <= rlevel (add_levels s k) r.
Proof.
  intros s k [t|id]; simpl.
  - rewrite add_levels_nlevels. lia.
  - change (find_node (add_levels s k) id) with (find_node s id).
    destruct (find_node s id); [lia | rewrite add_levels_nlevels; lia].
Qed.

Lemma add_levels_wf : forall s k, WF s -> WF (add_levels s k).
Proof.
  intros s k H.
  assert (Hlen : length (s_v2l s) = length (s_l2v s)) by apply (wf_perm_len s H).
  constructor.
  - simpl. rewrite !app_length, !seq_length. unfold nlevels. lia.
  - simpl. unfold nlevels. rewrite <- Hlen. apply inv_on_extend; [exact Hlen | apply (wf_perm_v2l s H)].
  - simpl. unfold nlevels. rewrite <- Hlen at 1. rewrite Hlen.
    apply inv_on_extend; [symmetry; exact Hlen | apply (wf_perm_l2v s H)].
  - intros id nd E. apply (wf_arity s H id nd E).
  - intros id nd E. apply (wf_stored s H id nd E).
  - intros id nd E. rewrite add_levels_nlevels. pose proof (wf_level s H id nd E). lia.
  - intros id nd e E He. destruct (wf_child s H id nd e E He) as [A B]. split.
    + apply add_levels_ref_ok. exact A.
    + pose proof (add_levels_rlevel_ge s k (eref e)). lia.
  - intros id nd E. apply (wf_reduced s H id nd E).
  - intros Hk id nd e E He. apply (wf_tags s H Hk id nd e E He).
  - intros i1 i2 n1 n2 E1 E2. apply (wf_unique s H i1 i2 n1 n2 E1 E2).
  - apply (wf_term_ids s H).
  - apply (wf_term_vals s H).
  - intros h Hh. destruct (wf_handles s H h Hh) as [A B]. split; [apply add_levels_ref_ok; exact A | exact B].
Qed.

Theorem add_levels_ok : forall s k, ZbddOK s ->
  ZbddOK (add_levels s k) /\ grows s (add_levels s k) /\
  nlevels (add_levels s k) = nlevels s + k /\
  forall r, ref_ok s r -> fam_of (add_levels s k) r = fam_of s r.
Proof.
  intros s k B.
  assert (G : grows s (add_levels s k)).
  { constructor; [reflexivity | rewrite add_levels_nlevels; lia | auto]. }
  split.
  - constructor.
    + apply add_levels_wf. apply (zo_wf s B).
    + apply (zo_kind s B).
    + apply (zo_codes s B).
    + apply (zo_empty s B).
    + apply (zo_base s B).
  - split; [exact G|]. split; [apply add_levels_nlevels|].
    intros r O. apply (grows_fam s _ r (zo_wf s B) (zo_kind s B) G O).
Qed.

(** ** The tautology chain *)

(** all subsets of the levels [from, n) *)
Definition pall (n from : nat) : fpred :=
  fun S => incr_from from S /\ Forall (fun x => x < n) S.

Lemma pall_step : forall n c, c < n ->
  peq (node_pred c (pall n (S c)) (pall n (S c))) (pall n c).
Proof.
  intros n c Hc S. unfold node_pred, pall. split.
  - intros [[T [-> [Hi Hb]]]|[Hi Hb]].
    + split; [simpl; split; [lia | exact Hi] | constructor; [exact Hc | exact Hb]].
    + split; [apply (incr_from_weaken S (Datatypes.S c)); [lia | exact Hi] | exact Hb].
  - intros [Hi Hb]. destruct S as [|x r]; [right; split; [exact I | constructor]|].
    simpl in Hi. destruct Hi as [Hx Hr]. inversion Hb as [|? ? Hxb Hrb]; subst.
    destruct (Nat.eq_dec x c) as [->|Hne].
    + left. exists r. auto.
    + right. split; [simpl; split; [lia | exact Hr] | exact Hb].
Qed.

(** a reference whose family has a member is not the Empty terminal *)
Lemma nonempty_not_empty : forall s e P S, ZbddOK s -> ZDen s e P -> P S -> is_empty_b s e = false.
Proof.
  intros s e P S B D HP. destruct (is_empty_b s e) eqn:Ee; [|reflexivity].
  destruct (is_empty_b_true s e Ee) as [t [-> Et]].
  destruct (proj1 (zden_unique s (RT t) P pempty D (zden_empty s t B Et) S) HP).
Qed.

(** [ch] lists [taut(from)], [taut(from+1)], ..., [taut(nlevels)] *)
Definition chain_ok (s : snap) (from : nat) (ch : list ref) : Prop :=
  length ch = nlevels s - from + 1 /\
  forall i r, nth_error ch i = Some r -> ZDen s r (pall (nlevels s) (from + i)).

Lemma ztaut_build_ok : forall cnt s e acc,
  ZbddOK s -> cnt <= nlevels s -> nth_error acc 0 = Some e -> chain_ok s cnt acc ->
  exists s' ch, ztaut_build cnt s e acc = (s', ch) /\
    ZbddOK s' /\ extends s s' /\ chain_ok s' 0 ch.
Proof.
  induction cnt as [|c IH]; intros s e acc B Hc He Hch.
  - exists s, acc. split; [reflexivity|]. split; [exact B|]. split; [apply extends_refl | exact Hch].
  - simpl ztaut_build.
    destruct Hch as [Hlen Hden].
    pose proof (Hden 0 e He) as De. rewrite Nat.add_0_r in De.
    assert (Hne : is_empty_b s e = false).
    { apply (nonempty_not_empty s e _ [] B De). split; [exact I | constructor]. }
    assert (Hlev : c < rlevel s e).
    { apply (zden_level s e _ (S c) B De Hc). intros S [Hi _]. exact Hi. }
    destruct (get_or_insert s c [E e; E e]) as [s1 e1] eqn:Eg.
    assert (Em : zmk_node s c e e = (s1, eref e1)) by (unfold zmk_node; rewrite Hne, Eg; reflexivity).
    destruct (zmk_node_ok s c e e _ _ s1 (eref e1) B ltac:(lia) De De Hlev Hlev Em) as (B1 & X1 & D1 & _).
    pose proof (ext_nlevels _ _ X1) as Hn1.
    assert (D1' : ZDen s1 (eref e1) (pall (nlevels s) c))
      by (apply (zden_ext s1 _ _ _ D1); apply (pall_step (nlevels s) c); lia).
    destruct (IH s1 (eref e1) (eref e1 :: acc) B1 ltac:(lia) eq_refl) as (s' & ch & E' & B' & X' & Hch').
    + split; [simpl; rewrite Hn1, Hlen; lia|].
      intros i r Hi. destruct i as [|i]; simpl in Hi.
      * inversion Hi; subst r. rewrite Nat.add_0_r, Hn1. exact D1'.
      * rewrite Hn1. replace (c + S i) with (S c + i) by lia.
        apply (zden_extends s s1 r _ B X1). apply Hden. exact Hi.
    + exists s', ch. split; [exact E'|]. split; [exact B'|].
      split; [apply (extends_trans _ _ _ X1 X') | exact Hch'].
Qed.

(** [post_reorder_mut]: the chain [taut(0) .. taut(n)], each denoting all subsets
    of the levels below it *)
Theorem ztaut_chain_ok : forall s, ZbddOK s ->
  exists s' ch, ztaut_chain s = Some (s', ch) /\ ZbddOK s' /\ extends s s' /\
    length ch = nlevels s + 1 /\
    forall l t, nth_error ch l = Some t ->
      ref_ok s' t /\ exists F, fam_of s' t = Some F /\ feq F (f_powerset l (nlevels s - l)).
Proof.
  intros s B. destruct (zbase_spec s B) as [tb [Eb Etb]].
  unfold ztaut_chain. rewrite Eb.
  destruct (ztaut_build_ok (nlevels s) s (RT tb) [RT tb] B (le_n _) eq_refl) as (s' & ch & E & B' & X & [Hlen Hden]).
  - split; [simpl; lia|]. intros i r Hi. destruct i as [|[|i]]; simpl in Hi; try discriminate.
    inversion Hi; subst r. apply (zden_ext s _ pbase); [apply (zden_base s tb B Etb)|].
    intros S. unfold pbase, pall. split.
    + intros ->. split; [exact I | constructor].
    + intros [Hi' Hb]. destruct S as [|x r]; [reflexivity|]. simpl in Hi'. inversion Hb; subst. lia.
  - exists s', ch. split; [rewrite E; reflexivity|]. split; [exact B'|]. split; [exact X|].
    pose proof (ext_nlevels _ _ X) as Hn. split; [rewrite Hlen, Hn; lia|].
    intros l t Hl. pose proof (Hden l t Hl) as D. simpl in D.
    split; [apply (zden_ok _ _ _ D)|].
    destruct (zden_fam s' t _ D) as [F [EF HF]]. exists F. split; [exact EF|].
    assert (Hll : l < length ch) by (apply nth_error_Some; congruence).
    intros S. rewrite (HF S), in_f_powerset. unfold pall.
    replace (l + (nlevels s - l)) with (nlevels s') by lia. reflexivity.
Qed.

(** [add_vars(k)] of a ZBDD manager *)
Theorem zadd_vars_ok : forall s k, ZbddOK s ->
  exists s' ch, zadd_vars s k = Some (s', ch) /\ ZbddOK s' /\ grows s s' /\
    nlevels s' = nlevels s + k /\
    s_v2l s' = s_v2l s ++ seq (nlevels s) k /\ s_l2v s' = s_l2v s ++ seq (nlevels s) k /\
    (forall r, ref_ok s r -> fam_of s' r = fam_of s r) /\
    length ch = nlevels s' + 1 /\
    forall l t, nth_error ch l = Some t ->
      ref_ok s' t /\ exists F, fam_of s' t = Some F /\ feq F (f_powerset l (nlevels s' - l)).
Proof.
  intros s k B. destruct (add_levels_ok s k B) as (B1 & G1 & Hn1 & Hf1).
  destruct (ztaut_chain_ok (add_levels s k) B1) as (s' & ch & E & B' & X & Hlen & Hch).
  pose proof (ext_nlevels _ _ X) as Hn.
  exists s', ch. split; [exact E|]. split; [exact B'|].
  assert (G : grows s s').
  { constructor.
    - rewrite (ext_terms _ _ X). reflexivity.
    - rewrite Hn, Hn1. lia.
    - intros id nd E0. apply (ext_nodes _ _ X). exact E0. }
  split; [exact G|]. split; [rewrite Hn; exact Hn1|].
  split; [rewrite (ext_v2l _ _ X); reflexivity|]. split; [rewrite (ext_l2v _ _ X); reflexivity|].
  split; [intros r O; apply (grows_fam s s' r (zo_wf s B) (zo_kind s B) G O)|].
  split; [rewrite Hn; exact Hlen|].
  intros l t Hl. rewrite Hn. apply (Hch l t Hl).
Qed.

(** the Boolean view of [t_edge] = [taut(0)]: constant true *)
Theorem ztaut_true : forall s t F c, ZbddOK s -> ref_ok s t -> choice_ok s c ->
  fam_of s t = Some F -> feq F (f_powerset 0 (nlevels s)) ->
  semz s (S (nlevels s)) 0 t c = Some true.
Proof.
  intros s t F c B O Hc EF Hq.
  rewrite (bool_view s (zo_wf s B) (zo_kind s B) t c F O Hc EF). f_equal.
  unfold fam_bool. apply fmem_spec. apply Hq.
  apply fmem_spec. apply (fam_bool_powerset (nlevels s) c).
Qed.
