(** * The Boolean interface of the ZBDD kind, part 2: symmetric difference (xor) and equiv

    - helper lemmas for recursions under the full cache invariant [ZCacheOKB]
      ([zstep_mkB], [zmk2B], [zfinishB]);
    - family identities of [pxor] along a node;
    - [zsymm_ok]: [apply_symm_diff] for every lossy cache, operand order [gt]
      and sufficient fuel; [zapply_op_ok_xor] (xor, equiv = not xor). *)

From Coq Require Import List NArith PArith Bool Arith Lia FMapPositive.
From OxiVerif Require Import DD.Table DD.TableExtra DD.TableProofs DD.Sem DD.Build DD.BuildProofs
  DD.Apply DD.ApplyProofs DD.CanonZbdd DD.FamSpec DD.FamSpecProofs DD.ZbddOps DD.ZbddOpsProofs
  DD.ZbddSubsetProofs DD.ZbddSoundProofs DD.ZbddVars DD.ZbddVarsProofs DD.ZbddBool DD.ZbddBoolProofs.
Import ListNotations.

(** ** [pxor] along a node *)

Lemma pxor_ext : forall P P' Q Q', peq P P' -> peq Q Q' -> peq (pxor P Q) (pxor P' Q').
Proof. intros P P' Q Q' HP HQ S. unfold pxor. rewrite (HP S), (HQ S). reflexivity. Qed.

Lemma pxor_comm : forall P Q, peq (pxor P Q) (pxor Q P).
Proof. intros P Q S. unfold pxor. tauto. Qed.

Lemma pxor_sup : forall L P Q, sup L P -> sup L Q -> sup L (pxor P Q).
Proof. intros L P Q HP HQ S [[A _]|[_ A]]; auto. Qed.

Lemma pxor_same : forall P, peq (pxor P P) pempty.
Proof. intros P S. unfold pxor, pempty. tauto. Qed.

Lemma pxor_empty_l : forall Q, peq (pxor pempty Q) Q.
Proof. intros Q S. unfold pxor, pempty. tauto. Qed.

Lemma pxor_empty_r : forall P, peq (pxor P pempty) P.
Proof. intros P S. unfold pxor, pempty. tauto. Qed.

Lemma pxor_node_node : forall L PA PB QA QB, sup L PB -> sup L QB ->
  peq (node_pred L (pxor PA QA) (pxor PB QB)) (pxor (node_pred L PA PB) (node_pred L QA QB)).
Proof.
  intros L PA PB QA QB SP SQ S. unfold node_pred, pxor.
  assert (N1 : forall T, ~ PB (L :: T)) by (intros T Hx; apply (sup_nohead L PB T SP Hx)).
  assert (N2 : forall T, ~ QB (L :: T)) by (intros T Hx; apply (sup_nohead L QB T SQ Hx)).
  clear SP SQ. split.
  - intros [[T [-> [[Ha Hn]|[Hn Ha]]]]|[[Hb Hn]|[Hn Hb]]].
    + left. split; [left; eauto|]. intros [[T' [E' Hq]]|Hq]; [inversion E'; subst; auto | apply (N2 T Hq)].
    + right. split; [|left; eauto]. intros [[T' [E' Hq]]|Hq]; [inversion E'; subst; auto | apply (N1 T Hq)].
    + left. split; [right; exact Hb|]. intros [[T' [-> Hq]]|Hq]; [apply (N1 T' Hb) | auto].
    + right. split; [|right; exact Hb]. intros [[T' [-> Hq]]|Hq]; [apply (N2 T' Hb) | auto].
  - intros [[[[T [-> Ha]]|Hb] Hn]|[Hn [[T [-> Ha]]|Hb]]].
    + left. exists T. split; [reflexivity|]. left. split; [exact Ha|]. intros Hq. apply Hn. left. eauto.
    + right. left. split; [exact Hb|]. intros Hq. apply Hn. right. exact Hq.
    + left. exists T. split; [reflexivity|]. right. split; [|exact Ha]. intros Hq. apply Hn. left. eauto.
    + right. right. split; [|exact Hb]. intros Hq. apply Hn. right. exact Hq.
Qed.

Lemma pxor_node_below : forall L PA PB Q, sup L PB -> sup L Q ->
  peq (pxor (node_pred L PA PB) Q) (node_pred L PA (pxor PB Q)).
Proof.
  intros L PA PB Q SP SQ S. unfold node_pred, pxor.
  assert (N1 : forall T, ~ PB (L :: T)) by (intros T Hx; apply (sup_nohead L PB T SP Hx)).
  assert (N2 : forall T, ~ Q (L :: T)) by (intros T Hx; apply (sup_nohead L Q T SQ Hx)).
  clear SP SQ. split.
  - intros [[[[T [-> Ha]]|Hb] Hn]|[Hn Hq]].
    + left. eauto.
    + right. left. auto.
    + right. right. split; [|exact Hq]. intros Hb. apply Hn. right. exact Hb.
  - intros [[T [-> Ha]]|[[Hb Hn]|[Hn Hq]]].
    + left. split; [left; eauto | apply N2].
    + left. split; [right; exact Hb | exact Hn].
    + right. split; [|exact Hq]. intros [[T [-> Ha]]|Hb]; [apply (N2 T Hq) | auto].
Qed.

Lemma pxor_below_node : forall L P QA QB, sup L P -> sup L QB ->
  peq (pxor P (node_pred L QA QB)) (node_pred L QA (pxor P QB)).
Proof.
  intros L P QA QB SP SQ S.
  rewrite (pxor_comm P (node_pred L QA QB) S), (pxor_node_below L QA QB P SQ SP S).
  apply node_pred_ext; [apply peq_refl | apply pxor_comm].
Qed.

(** ** Steps of a recursion under the full cache invariant *)

Section ZXor.
Variable gt : ref -> ref -> bool.
Variable C : Type.
Variable cget : C -> N -> list ref -> list nat -> option ref.
Variable cadd : C -> N -> list ref -> list nat -> ref -> C.
Hypothesis Hlossy : zlossy C cget cadd.

Notation ZCacheOKB := (ZCacheOKB C cget).
Notation zresult_okB := (zresult_okB C cget).

(** a recursive result becomes the lo child of a new node whose hi child is an old edge *)
Lemma zstep_mkB : forall s res R L hi PA,
  ZbddOK s -> zresult_okB s res R -> L < nlevels s -> ZDen s hi PA -> L < rlevel s hi -> sup L R ->
  zresult_okB s
    (match res with
     | None => None
     | Some (s1, c1, lo) => let '(s2, h) := zmk_node s1 L hi lo in Some (s2, c1, h)
     end) (node_pred L PA R).
Proof.
  intros s res R L hi PA B (s1 & c1 & lo & E & B1 & X1 & O1 & D1) HL DA Lh SR. subst res.
  destruct (zmk_node s1 L hi lo) as [s2 h] eqn:Em.
  pose proof (zden_extends s s1 hi PA B X1 DA) as DA1.
  assert (HL1 : L < nlevels s1) by (rewrite (ext_nlevels _ _ X1); exact HL).
  assert (Lh1 : L < rlevel s1 hi) by (rewrite (ext_rlevel _ _ _ X1 (zden_ok _ _ _ DA)); exact Lh).
  assert (Ll1 : L < rlevel s1 lo).
  { apply (zden_level s1 lo R (S L) B1 D1); [lia | exact SR]. }
  destruct (zmk_node_ok s1 L hi lo PA R s2 h B1 HL1 DA1 D1 Lh1 Ll1 Em) as (B2 & X2 & D2 & _).
  exists s2, c1, h. split; [reflexivity|]. split; [exact B2|].
  split; [apply (extends_trans _ _ _ X1 X2)|]. split; [|exact D2].
  apply (zcacheokb_extends C cget s1 s2 c1 B1 X2 O1).
Qed.

(** a node from two recursive results *)
Lemma zmk2B : forall s1 s2 c2 L hi lo RA RB,
  ZbddOK s1 -> ZbddOK s2 -> extends s1 s2 -> ZCacheOKB s2 c2 -> L < nlevels s2 ->
  ZDen s1 hi RA -> ZDen s2 lo RB -> sup L RA -> sup L RB ->
  exists s3 h, zmk_node s2 L hi lo = (s3, h) /\
    ZbddOK s3 /\ extends s2 s3 /\ ZCacheOKB s3 c2 /\ ZDen s3 h (node_pred L RA RB).
Proof.
  intros s1 s2 c2 L hi lo RA RB B1 B2 X2 O2 HL D1 D2 SA SB.
  destruct (zmk_node s2 L hi lo) as [s3 h] eqn:Em.
  pose proof (zden_extends s1 s2 hi _ B1 X2 D1) as D1'.
  assert (Lh2 : L < rlevel s2 hi) by (apply (zden_level s2 hi _ (S L) B2 D1'); [lia | exact SA]).
  assert (Ll2 : L < rlevel s2 lo) by (apply (zden_level s2 lo _ (S L) B2 D2); [lia | exact SB]).
  destruct (zmk_node_ok s2 _ hi lo _ _ s3 h B2 HL D1' D2 Lh2 Ll2 Em) as (B3 & X3 & D3 & _).
  exists s3, h. split; [reflexivity|]. split; [exact B3|]. split; [exact X3|].
  split; [apply (zcacheokb_extends C cget s2 s3 c2 B2 X3 O2) | exact D3].
Qed.

(** storing a result in the cache *)
Lemma zfinishB : forall s res R code args nums,
  ZbddOK s -> zresult_okB s res R ->
  (forall s' r, ZbddOK s' -> extends s s' -> ZDen s' r R ->
     zentry_ok s' code args nums r /\ zentry_x s' code args nums r) ->
  zresult_okB s
    (match res with
     | None => None
     | Some (s', c', h) => Some (s', cadd c' code args nums h, h)
     end) R.
Proof.
  intros s res R code args nums B (s' & c' & h & E & B' & X & O & D) He. subst res.
  exists s', (cadd c' code args nums h), h.
  split; [reflexivity|]. split; [exact B'|]. split; [exact X|]. split; [|exact D].
  destruct (He s' h B' X D) as [A A']. apply (zcacheokb_add C cget cadd Hlossy); assumption.
Qed.

(** chaining two results *)
Lemma zresultB_trans : forall s s1 res R, extends s s1 ->
  zresult_okB s1 res R -> zresult_okB s res R.
Proof.
  intros s s1 res R X1 (s2 & c2 & r2 & E & B2 & X2 & O2 & D2).
  exists s2, c2, r2. split; [exact E|]. split; [exact B2|]. split; [apply (extends_trans _ _ _ X1 X2)|].
  split; [exact O2 | exact D2].
Qed.

(** ** [apply_symm_diff] *)

Lemma zsymm_S : forall n s c f g,
  zsymm gt C cget cadd (S n) s c f g =
    match zempty s with
    | None => None
    | Some empty =>
      if ref_eqb f g then Some (s, c, empty)
      else if ref_eqb f empty then Some (s, c, g)
      else if ref_eqb g empty then Some (s, c, f)
      else
        let '(f, g) := if gt f g then (g, f) else (f, g) in
        match cget c zcode_symm [f; g] [] with
        | Some h => Some (s, c, h)
        | None =>
          match zget s f, zget s g with
          | Some fnode, Some gnode =>
            let res :=
              match lcmp (vlevel fnode) (vlevel gnode) with
              | Lt =>
                match zkids fnode, vlevel fnode with
                | Some (fhi, flo), Some flevel =>
                  match zsymm gt C cget cadd n s c flo g with
                  | None => None
                  | Some (s1, c1, lo) =>
                    let '(s2, h) := zmk_node s1 flevel fhi lo in Some (s2, c1, h)
                  end
                | _, _ => None
                end
              | Eq =>
                match zkids fnode, zkids gnode, vlevel fnode with
                | Some (fhi, flo), Some (ghi, glo), Some flevel =>
                  match zsymm gt C cget cadd n s c fhi ghi with
                  | None => None
                  | Some (s1, c1, hi) =>
                    match zsymm gt C cget cadd n s1 c1 flo glo with
                    | None => None
                    | Some (s2, c2, lo) =>
                      let '(s3, h) := zmk_node s2 flevel hi lo in Some (s3, c2, h)
                    end
                  end
                | _, _, _ => None
                end
              | Gt =>
                match zkids gnode, vlevel gnode with
                | Some (ghi, glo), Some glevel =>
                  match zsymm gt C cget cadd n s c f glo with
                  | None => None
                  | Some (s1, c1, lo) =>
                    let '(s2, h) := zmk_node s1 glevel ghi lo in Some (s2, c1, h)
                  end
                | _, _ => None
                end
              end in
            match res with
            | None => None
            | Some (s', c', h) => Some (s', cadd c' zcode_symm [f; g] [] h, h)
            end
          | _, _ => None
          end
        end
    end.
Proof. reflexivity. Qed.

Lemma zsymm_entry : forall s f g P Q R r,
  ZDen s f P -> ZDen s g Q -> ZDen s r R -> peq R (pxor P Q) ->
  zentry_ok s zcode_symm [f; g] [] r /\ zentry_x s zcode_symm [f; g] [] r.
Proof.
  intros s f g P Q R r DF DG DR Hp. split.
  - apply zentry_ok_other; intros o; destruct o; discriminate.
  - intros _. exists P, Q. split; [exact DF|]. split; [exact DG|].
    apply (zden_ext s r R _ DR Hp).
Qed.

Theorem zsymm_ok : forall fuel s c f g P Q,
  ZbddOK s -> ZCacheOKB s c -> ZDen s f P -> ZDen s g Q ->
  nlevels s - Nat.min (rlevel s f) (rlevel s g) < fuel ->
  zresult_okB s (zsymm gt C cget cadd fuel s c f g) (pxor P Q).
Proof.
  induction fuel as [|n IH]; intros s c f g P Q B O DF DG Hfuel; [lia|].
  rewrite zsymm_S.
  destruct (zempty_spec s B) as [te [Ee Et]]. rewrite Ee.
  pose proof (zden_empty s te B Et) as DE.
  pose proof (zo_wf s B) as H.
  destruct (ref_eqb f g) eqn:E1.
  { apply ref_eqb_eq in E1. subst g. apply zresultB_here; auto.
    apply (zden_ext s _ pempty); [exact DE|]. intros S.
    rewrite (pxor_ext P P Q P (peq_refl P) (zden_unique s f Q P DG DF) S). symmetry. apply pxor_same. }
  destruct (ref_eqb f (RT te)) eqn:E2.
  { apply ref_eqb_eq in E2. subst f. apply zresultB_here; auto.
    apply (zden_ext s g Q); [exact DG|]. intros S.
    rewrite (pxor_ext P pempty Q Q (zden_unique s _ P pempty DF DE) (peq_refl Q) S). symmetry. apply pxor_empty_l. }
  destruct (ref_eqb g (RT te)) eqn:E3.
  { apply ref_eqb_eq in E3. subst g. apply zresultB_here; auto.
    apply (zden_ext s f P); [exact DF|]. intros S.
    rewrite (pxor_ext P P Q pempty (peq_refl P) (zden_unique s _ Q pempty DG DE) S). symmetry. apply pxor_empty_r. }
  apply ref_eqb_false in E1. apply ref_eqb_false in E2. apply ref_eqb_false in E3.
  assert (Hf1 : forall t, f = RT t -> term_val s t = Some 1%N)
    by (intros t ->; apply (not_empty_base s te t B Et (zden_ok _ _ _ DF) E2)).
  assert (Hg1 : forall t, g = RT t -> term_val s t = Some 1%N)
    by (intros t ->; apply (not_empty_base s te t B Et (zden_ok _ _ _ DG) E3)).
  (* operand order *)
  assert (Hsw : exists f' g' P' Q',
            (if gt f g then (g, f) else (f, g)) = (f', g') /\
            ZDen s f' P' /\ ZDen s g' Q' /\ peq (pxor P' Q') (pxor P Q) /\ f' <> g' /\
            (forall t, f' = RT t -> term_val s t = Some 1%N) /\
            (forall t, g' = RT t -> term_val s t = Some 1%N) /\
            Nat.min (rlevel s f') (rlevel s g') = Nat.min (rlevel s f) (rlevel s g)).
  { destruct (gt f g).
    - exists g, f, Q, P. split; [reflexivity|]. split; [exact DG|]. split; [exact DF|].
      split; [apply pxor_comm|]. split; [congruence|].
      split; [exact Hg1|]. split; [exact Hf1 | apply Nat.min_comm].
    - exists f, g, P, Q. split; [reflexivity|]. split; [exact DF|]. split; [exact DG|].
      split; [apply peq_refl|]. auto. }
  destruct Hsw as (f' & g' & P' & Q' & Esw & DF' & DG' & Hpq & Hne' & Hf1' & Hg1' & Hmin).
  rewrite Esw. rewrite <- Hmin in Hfuel.
  clear Esw Hmin E1 E2 E3 Hf1 Hg1 DF DG.
  apply (zresultB_ext C cget s _ (pxor P' Q') _ Hpq). clear Hpq P Q f g.
  destruct (cget c zcode_symm [f'; g'] []) as [h|] eqn:Ec.
  - (* cache hit *)
    destruct (O _ _ _ _ Ec) as [_ Ox]. simpl in Ox.
    destruct (Ox eq_refl) as (P0 & Q0 & D0 & D0' & Dh).
    apply zresultB_here; auto.
    apply (zden_ext s h _ _ Dh). apply pxor_ext.
    + apply (zden_unique s f' P0 P' D0 DF').
    + apply (zden_unique s g' Q0 Q' D0' DG').
  - destruct (zget_total s f' (zden_ok _ _ _ DF')) as [vf Evf].
    destruct (zget_total s g' (zden_ok _ _ _ DG')) as [vg Evg].
    rewrite Evf, Evg. cbv zeta.
    apply zfinishB; [exact B| |].
    2:{ intros s' r B' X DR. apply (zsymm_entry s' f' g' P' Q' (pxor P' Q') r); auto.
        - apply (zden_extends s s' f' P' B X DF').
        - apply (zden_extends s s' g' Q' B X DG').
        - apply peq_refl. }
    pose proof (lcmp_cases s f' g' vf vg B Evf Evg) as Hl.
    destruct (lcmp (vlevel vf) (vlevel vg)).
    + (* same level *)
      destruct Hl as [(idf & ndf & idg & ndg & -> & -> & Enf & Eng & -> & -> & Hlev)|(tf & tg & -> & ->)].
      2:{ exfalso. apply Hne'. f_equal.
          apply (term_val_inj s tf tg 1%N H (Hf1' tf eq_refl) (Hg1' tg eq_refl)). }
      destruct (znode_facts s idf ndf P' B DF' Enf)
        as (Sf & Lf & Rf & fhi & flo & PA & PB & Ecf & DA & DB & LA & LB & HP & SA & SB).
      destruct (znode_facts s idg ndg Q' B DG' Eng)
        as (Sg & Lg & Rg & ghi & glo & QA & QB & Ecg & DA' & DB' & LA' & LB' & HQ & SA' & SB').
      simpl zkids. simpl vlevel. rewrite Ecf, Ecg, Sf. rewrite Rf, Rg in Hfuel.
      rewrite <- Hlev in *.
      pose proof (rlevel_le s H (eref fhi)). pose proof (rlevel_le s H (eref ghi)).
      pose proof (rlevel_le s H (eref flo)). pose proof (rlevel_le s H (eref glo)).
      destruct (IH s c (eref fhi) (eref ghi) PA QA B O DA DA' ltac:(lia))
        as (s1 & c1 & hi & E1 & B1 & X1 & O1 & D1).
      rewrite E1.
      assert (Hfuel2 : nlevels s1 - Nat.min (rlevel s1 (eref flo)) (rlevel s1 (eref glo)) < n).
      { rewrite (ext_nlevels _ _ X1), (ext_rlevel _ _ _ X1 (zden_ok _ _ _ DB)),
          (ext_rlevel _ _ _ X1 (zden_ok _ _ _ DB')). lia. }
      destruct (IH s1 c1 (eref flo) (eref glo) PB QB B1 O1
                  (zden_extends s s1 _ _ B X1 DB) (zden_extends s s1 _ _ B X1 DB') Hfuel2)
        as (s2 & c2 & lo & E2 & B2 & X2 & O2 & D2).
      rewrite E2.
      assert (HL2 : nlevel ndf < nlevels s2)
        by (rewrite (ext_nlevels _ _ X2), (ext_nlevels _ _ X1); exact Lf).
      destruct (zmk2B s1 s2 c2 (nlevel ndf) hi lo _ _ B1 B2 X2 O2 HL2 D1 D2
                  (pxor_sup _ PA QA SA SA') (pxor_sup _ PB QB SB SB'))
        as (s3 & h & Em & B3 & X3 & O3 & D3).
      rewrite Em.
      exists s3, c2, h. split; [reflexivity|]. split; [exact B3|].
      split; [apply (extends_trans _ _ _ X1 (extends_trans _ _ _ X2 X3))|].
      split; [exact O3|].
      apply (zden_ext s3 h _ _ D3). intros S.
      rewrite (pxor_node_node (nlevel ndf) PA PB QA QB SB SB' S).
      symmetry. apply pxor_ext; assumption.
    + (* f' above g' *)
      destruct Hl as (idf & ndf & -> & Enf & -> & Hlt).
      destruct (znode_facts s idf ndf P' B DF' Enf)
        as (Sf & Lf & Rf & fhi & flo & PA & PB & Ecf & DA & DB & LA & LB & HP & SA & SB).
      simpl zkids. simpl vlevel. rewrite Ecf, Sf. rewrite Rf in Hfuel.
      pose proof (rlevel_le s H (eref flo)). pose proof (rlevel_le s H g').
      assert (SQ : sup (nlevel ndf) Q')
        by (intros S HS; apply (zden_below s g' Q' _ S B DG' Hlt HS)).
      pose proof (IH s c (eref flo) g' PB Q' B O DB DG' ltac:(lia)) as IH1.
      apply (zresultB_ext C cget s _ (node_pred (nlevel ndf) PA (pxor PB Q'))).
      { intros S. rewrite <- (pxor_node_below (nlevel ndf) PA PB Q' SB SQ S).
        apply pxor_ext; [apply peq_sym; exact HP | apply peq_refl]. }
      apply zstep_mkB; auto. apply pxor_sup; assumption.
    + (* g' above f' *)
      destruct Hl as (idg & ndg & -> & Eng & -> & Hlt).
      destruct (znode_facts s idg ndg Q' B DG' Eng)
        as (Sg & Lg & Rg & ghi & glo & QA & QB & Ecg & DA' & DB' & LA' & LB' & HQ & SA' & SB').
      simpl zkids. simpl vlevel. rewrite Ecg, Sg. rewrite Rg in Hfuel.
      pose proof (rlevel_le s H (eref glo)). pose proof (rlevel_le s H f').
      assert (SP : sup (nlevel ndg) P')
        by (intros S HS; apply (zden_below s f' P' _ S B DF' Hlt HS)).
      pose proof (IH s c f' (eref glo) P' QB B O DF' DB' ltac:(lia)) as IH1.
      apply (zresultB_ext C cget s _ (node_pred (nlevel ndg) QA (pxor P' QB))).
      { intros S. rewrite <- (pxor_below_node (nlevel ndg) P' QA QB SP SB' S).
        apply pxor_ext; [apply peq_refl | apply peq_sym; exact HQ]. }
      apply zstep_mkB; auto. apply pxor_sup; assumption.
Qed.

(** xor and equiv *)
Theorem zapply_op_ok_xor : forall op fuel s c f g P Q,
  op = OXor \/ op = OEquiv ->
  ZbddOK s -> ZChainOK s -> ZCacheOKB s c -> ZDen s f P -> ZDen s g Q -> nlevels s < fuel ->
  zresult_okB s (zapply_op gt C cget cadd fuel s c op f g) (pop (nlevels s) op P Q).
Proof.
  intros op fuel s c f g P Q Hop B Hc O DF DG Hf.
  destruct Hop as [-> | ->]; unfold zapply_op, pop.
  - apply zsymm_ok; auto; lia.
  - apply (zresultB_then_not gt C cget cadd Hlossy); auto. apply zsymm_ok; auto; lia.
Qed.

End ZXor.
