From Coq Require Extraction ExtrOcamlBasic.
From OxiVerif Require Import Base.Conv Mgr.Alloc.
Extraction Language OCaml.
Extraction "model.ml" conv_anchor
  Alloc.step Alloc.run Alloc.init Alloc.good Alloc.var_take_all Alloc.var_cap_first Alloc.var_no_reset
  Alloc.var_tail_zero Alloc.var_no_prep_reset Alloc.var_oom_drift Alloc.var_ho_drift
  Alloc.ainv_b Alloc.live_slots Alloc.free_slots Alloc.shared_slots Alloc.local_slots Alloc.range_slots
  Alloc.unalloc_slots Alloc.thread_slots Alloc.others_idle Alloc.nlive Alloc.sum_delta Alloc.chainl Alloc.chain_ok
  Alloc.sget Alloc.mkCfg Alloc.lfresh.
