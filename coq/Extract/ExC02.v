From Coq Require Extraction ExtrOcamlBasic.
From OxiVerif Require Import Base.Conv DD.Table DD.TableExtra DD.Sem Num.I64 DD.Build DD.Cache DD.Apply DD.IsoCheck.
Extraction Language OCaml.
Extraction "model.ml" conv_anchor
  Table.sem_edge Table.wf_b TableExtra.terms_kind_b TableExtra.wf_full_b Table.famz
  Table.rc_exact_b Table.count_reach
  Sem.eval_bop Sem.lift1 Sem.lift2 Sem.ite_s Sem.const_s Sem.var_s Sem.cof
  I64.i64_add I64.i64_is_zero
  Table.mkSnap Table.mkNode Table.mkEdge Table.nlevels Table.edge_eqb Table.ref_eqb Table.find_node
  Build.mk_node Build.get_or_insert Build.find_dup Build.fresh_id
  Apply.bdd_ok_b Apply.view Apply.term_of Apply.terminal_bin Apply.cof2
  Apply.apply_not Apply.apply_bin Apply.apply_ite
  Apply.mk_const Apply.mk_var Apply.eval_walk Apply.choices_of Apply.eval_edge Apply.cofactors
  Apply.ac_get Apply.ac_add Apply.nc_get Apply.nc_add
  Cache.dm_init Cache.dmr_get Cache.dmr_add Cache.dm_clear
  IsoCheck.iso_with IsoCheck.build_idx IsoCheck.rmap_find.
