From Coq Require Extraction ExtrOcamlBasic.
From OxiVerif Require Import Base.Conv DD.Table DD.TableExtra DD.Sem Num.I64 DD.Build DD.Apply DD.ApplyBcdd.
Extraction Language OCaml.
Extraction "model.ml" conv_anchor
  Table.sem_edge Table.wf_b TableExtra.terms_kind_b TableExtra.wf_full_b Table.famz
  Table.rc_exact_b Table.count_reach
  Sem.eval_bop Sem.lift1 Sem.lift2 Sem.ite_s Sem.const_s Sem.var_s Sem.cof
  I64.i64_add I64.i64_is_zero
  Table.mkSnap Table.mkNode Table.mkEdge Table.nlevels Table.edge_eqb
  ApplyBcdd.bcok_b ApplyBcdd.enot ApplyBcdd.retag ApplyBcdd.cget_terminal ApplyBcdd.cmk_node
  ApplyBcdd.cterminal_and ApplyBcdd.cterminal_xor
  ApplyBcdd.capply_bin ApplyBcdd.capply_not ApplyBcdd.capply_op ApplyBcdd.capply_ite
  ApplyBcdd.cmk_const ApplyBcdd.cmk_var ApplyBcdd.ceval_walk ApplyBcdd.ceval_edge ApplyBcdd.ccofactors
  ApplyBcdd.eac_get ApplyBcdd.eac_add ApplyBcdd.enc_get ApplyBcdd.enc_add.
