From Coq Require Extraction ExtrOcamlBasic.
From OxiVerif Require Import Base.Conv DD.Table DD.TableExtra DD.Sem Num.I64 DD.Build DD.Apply DD.FamSpec
  DD.ZbddOps DD.ZbddBool.
Extraction Language OCaml.
Extraction "model.ml" conv_anchor
  Table.sem_edge Table.wf_b TableExtra.terms_kind_b TableExtra.wf_full_b Table.famz
  Table.rc_exact_b Table.count_reach
  Sem.eval_bop Sem.lift1 Sem.lift2 Sem.ite_s Sem.const_s Sem.var_s Sem.cof Sem.restrict_s
  I64.i64_add I64.i64_is_zero
  Table.mkSnap Table.mkNode Table.mkEdge Table.nlevels Table.edge_eqb Table.ref_eqb
  ZbddOps.zbdd_ok_b ZbddOps.zapply ZbddOps.zsubset_top ZbddOps.zempty ZbddOps.zbase
  ZbddOps.zac_get ZbddOps.zac_add ZbddOps.znc_get ZbddOps.znc_add
  ZbddBool.ztaut ZbddBool.zchain_ok_b ZbddBool.zconst ZbddBool.zvar ZbddBool.znot_var
  ZbddBool.zapply_not ZbddBool.zsymm ZbddBool.zapply_ite ZbddBool.zapply_op
  ZbddBool.zrestrict_base ZbddBool.zrestrict ZbddBool.zrestrict_edge
  ZbddBool.zeval_edge ZbddBool.zcofactors ZbddBool.zcube_lits.
