From Coq Require Extraction ExtrOcamlBasic.
From OxiVerif Require Import Base.Conv DD.Table DD.TableExtra DD.Sem Num.I64 DD.Build DD.Apply DD.Quant
  DD.ApplyBcdd DD.QuantBcdd.
Extraction Language OCaml.
Extraction "model.ml" conv_anchor
  Table.sem_edge Table.wf_b Table.famz Table.count_reach
  Sem.eval_bop Sem.lift2
  I64.i64_add I64.i64_is_zero
  Table.mkSnap Table.mkNode Table.mkEdge Table.nlevels Table.edge_eqb Table.ref_eqb
  Apply.bdd_ok_b Apply.mk_var Apply.mk_const Apply.apply_bin Apply.apply_not Apply.apply_ite
  Apply.nc_get Apply.nc_add
  Quant.set_pop Quant.quant_rec Quant.restrict Quant.substitute Quant.apply_quant
  Quant.quant_edge Quant.apply_quant_edge Quant.restrict_edge Quant.substitute_prepare Quant.substitute_edge
  Quant.bcdd_dispatch Quant.bcdd_unique_dispatch
  ApplyBcdd.bcok_b ApplyBcdd.cmk_var ApplyBcdd.cmk_const ApplyBcdd.capply_op ApplyBcdd.enc_get ApplyBcdd.enc_add
  QuantBcdd.cquant_edge QuantBcdd.capply_quant_edge QuantBcdd.crestrict_edge QuantBcdd.csubstitute_edge.
