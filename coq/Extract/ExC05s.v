From Coq Require Extraction ExtrOcamlBasic.
From OxiVerif Require Import Base.Conv DD.Table DD.TableExtra Num.I64 Mgr.Conc Mgr.ConcGc Mgr.ConcGcCount.
Extraction Language OCaml.
Extraction "model.ml" conv_anchor
  Table.sem_edge Table.wf_b TableExtra.terms_kind_b TableExtra.wf_full_b Table.famz
  Table.rc_exact_b Table.rc_first_bad Table.no_dead_b Table.count_reach
  I64.i64_add I64.i64_is_zero
  Table.mkSnap Table.mkNode Table.mkEdge Table.nlevels Table.edge_eqb Table.edges_eqb
  ConcGc.collect ConcGc.collect_sched ConcGc.gc_level ConcGc.gc_try ConcGc.ids_at_level ConcGc.reach_own_b
  Conc.step Conc.run Conc.to_snap Conc.cinv_b Conc.cfind Conc.cempty Conc.owners Conc.parents
  ConcGcCount.of_snap ConcGcCount.collected ConcGcCount.garbage ConcGcCount.survivors
  Conc.mkC Conc.mkCst Conc.cn Conc.cown Conc.cl Conc.cch Conc.crc.
