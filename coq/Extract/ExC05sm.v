From Coq Require Extraction ExtrOcamlBasic.
From OxiVerif Require Import Base.Conv DD.Table DD.TableExtra Mgr.Conc Mgr.ConcGc.
Extraction Language OCaml.
Extraction "model.ml" conv_anchor
  ConcGc.collect ConcGc.collect_sched ConcGc.gc_level ConcGc.gc_try ConcGc.hstep ConcGc.hrun ConcGc.reach_own_b
  Conc.step Conc.run Conc.step_rc Conc.run_rc Conc.erase_rc Conc.to_snap Conc.cinv_b Conc.cfind Conc.cempty
  Conc.owners Conc.parents Conc.mkC Conc.mkCst Conc.cn Conc.cown Conc.cl Conc.cch Conc.crc
  Table.wf_b TableExtra.wf_full_b Table.rc_exact_b Table.rc_first_bad Table.no_dead_b
  Table.sem_edge Table.mkSnap Table.mkNode Table.mkEdge Table.nlevels Table.edge_eqb.
