From Coq Require Extraction ExtrOcamlBasic.
From OxiVerif Require Import Base.Conv DD.Table DD.TableExtra Mgr.Conc.
Extraction Language OCaml.
Extraction "model.ml" conv_anchor
  Conc.step_tbl Conc.run_tbl Conc.step_rc Conc.run_rc Conc.erase_rc Conc.dec_ok_b Conc.borrow_b Conc.can_borrow_b Conc.step Conc.run Conc.run_results Conc.erase Conc.to_snap Conc.cinv_b
  Conc.node_pre_b Conc.find_shape Conc.cfind Conc.crlevel Conc.cref_ok_b Conc.edge_ok_b Conc.has_parent_b
  Conc.cn_shape Conc.cremove Conc.owners Conc.parents Conc.cempty
  Conc.mkC Conc.mkCst Conc.cn Conc.cown Conc.cl Conc.cch Conc.crc
  Table.wf_b TableExtra.terms_kind_b TableExtra.wf_full_b Table.rc_exact_b Table.rc_first_bad Table.no_dead_b
  Table.sem_edge Table.mkSnap Table.mkNode Table.mkEdge Table.nlevels Table.edge_eqb.
