From Coq Require Extraction ExtrOcamlBasic.
From OxiVerif Require Import Base.Conv DD.Table DD.TableExtra Mgr.Conc Mgr.ConcCache Mgr.ConcTerm Mgr.ConcTermLog.
Extraction Language OCaml.
Extraction "model.ml" conv_anchor
  Conc.step_tbl Conc.run_tbl Conc.step_rc Conc.run_rc Conc.erase_rc Conc.dec_ok_b Conc.borrow_b Conc.can_borrow_b Conc.step Conc.run Conc.run_results Conc.erase Conc.to_snap Conc.cinv_b
  Conc.node_pre_b Conc.find_shape Conc.cfind Conc.crlevel Conc.cref_ok_b Conc.edge_ok_b Conc.has_parent_b
  Conc.cn_shape Conc.cremove Conc.owners Conc.parents Conc.cempty
  Conc.mkC Conc.mkCst Conc.cn Conc.cown Conc.cl Conc.cch Conc.crc
  Table.wf_b TableExtra.terms_kind_b TableExtra.wf_full_b Table.rc_exact_b Table.rc_first_bad Table.no_dead_b
  Table.sem_edge Table.mkSnap Table.mkNode Table.mkEdge Table.nlevels Table.edge_eqb
  ConcCache.lstep ConcCache.lrun ConcCache.clstep ConcCache.clrun ConcCache.mkL ConcCache.lt ConcCache.lb ConcCache.lph ConcCache.lnext ConcCache.gc_claimed_b
  ConcCache.ledges_ok_b ConcCache.kstep ConcCache.krun ConcCache.kinit ConcCache.good ConcCache.no_dangling_b ConcCache.dangling_unlocked_b
  ConcTerm.xstep ConcTerm.xrun ConcTerm.xrun_results ConcTerm.ctinit ConcTerm.lift_terms ConcTerm.tinv_b
  ConcTerm.xno_dangling_b ConcTerm.xterms_unique_b ConcTerm.counts_exact_b
  ConcTermLog.ystep ConcTermLog.yrun ConcTermLog.yinit ConcTermLog.ymatch_b ConcTermLog.yinv_b ConcTermLog.ylift ConcTermLog.yowes
  ConcTerm.tfind ConcTerm.tfind_val ConcTerm.stored_b ConcTerm.xowners.
