From Coq Require Extraction ExtrOcamlBasic.
From OxiVerif Require Import Base.Conv Num.I64 Num.F64.
Extraction Language OCaml.
Extraction "model.ml" conv_anchor
  I64.i64_add I64.i64_sub I64.i64_mul I64.i64_div I64.i64_partial_cmp I64.i64_eqb
  I64.i64_is_zero I64.i64_is_one I64.i64_is_nan I64.i64_min I64.i64_max
  I64.i64_zero I64.i64_one I64.i64_nan I64.wfb
  I64.i64_spec_add I64.i64_spec_sub I64.i64_spec_mul I64.i64_spec_div I64.ext_cmp
  F64.f64_from_bits F64.f64_normalb F64.f64_add F64.f64_sub F64.f64_mul F64.f64_div
  F64.f64_partial_cmp F64.f64_eqb F64.f64_is_zero F64.f64_is_one F64.f64_is_nan
  F64.f64_min F64.f64_max F64.f64_zero F64.f64_one F64.f64_nan.
