From Coq Require Extraction ExtrOcamlBasic.
From Coq Require Import FMapPositive.
From OxiVerif Require Import Base.Conv DD.Table DD.Sem DD.Build DD.Apply Num.I64 Num.F64 DD.ApplyMtbdd.
From OxiVerif Require DD.MtG DD.MtF64.
Extraction Language OCaml.
Extraction "model.ml" conv_anchor
  Table.sem_edge Table.wf_b Table.famz Table.mkSnap Table.mkNode Table.mkEdge Table.nlevels Table.edge_eqb
  Table.find_node Table.term_val
  PositiveMap.empty PositiveMap.add PositiveMap.find PositiveMap.elements
  I64.i64_add I64.i64_sub I64.i64_mul I64.i64_div I64.i64_min I64.i64_max I64.i64_is_zero I64.i64_is_one
  I64.i64_zero I64.i64_one I64.wfb
  Apply.ac_get Apply.ac_add Apply.nc_get Apply.nc_add
  ApplyMtbdd.code ApplyMtbdd.decode ApplyMtbdd.get_terminal ApplyMtbdd.mt_view ApplyMtbdd.mop_eval
  ApplyMtbdd.mt_tb ApplyMtbdd.mt_apply_bin ApplyMtbdd.mt_apply_ite ApplyMtbdd.mt_restrict_inner
  ApplyMtbdd.mt_restrict ApplyMtbdd.mt_const ApplyMtbdd.mt_var ApplyMtbdd.mt_eval ApplyMtbdd.mt_ok_b
  ApplyMtbdd.cube_lits
  F64.f64_from_bits F64.f64_normalb F64.f64_add F64.f64_sub F64.f64_mul F64.f64_div
  F64.f64_min F64.f64_max F64.f64_is_zero F64.f64_is_one F64.f64_is_nan F64.f64_zero F64.f64_one F64.f64_nan
  MtF64.f64_alg MtF64.f64m_apply_bin MtF64.f64m_apply_ite MtF64.f64m_restrict MtF64.f64m_const MtF64.f64m_var
  MtF64.f64m_eval MtF64.f64m_ok_b MtF64.f64m_cube_lits.
