From Coq Require Extraction ExtrOcamlBasic.
From OxiVerif Require Import Base.Conv DD.Tdd.
Extraction Language OCaml.
Extraction "model.ml" conv_anchor k_not table ite3 ite3_text tdd_f tdd_t tdd_u tdd_var
  apply_not apply_bin_auto apply_ite_auto gt_size cofactors eval eval_packed complete_args
  tdd_of_fun tdd_eqb sem upd level.
