From Coq Require Extraction ExtrOcamlBasic.
From Coq Require Import FMapPositive.
From OxiVerif Require Import Base.Conv DD.Table Num.I64 DD.Build DD.Apply DD.Tdd DD.ApplyTdd.
Extraction Language OCaml.
Extraction "model.ml" conv_anchor
  Table.sem_edge Table.wf_b Table.famz Table.mkSnap Table.mkNode Table.mkEdge Table.nlevels Table.edge_eqb
  Table.ref_eqb Table.find_node Table.term_val
  PositiveMap.empty PositiveMap.add PositiveMap.find PositiveMap.elements
  I64.i64_add I64.i64_is_zero
  Apply.ac_get Apply.ac_add Apply.nc_get Apply.nc_add
  Tdd.k_not Tdd.table Tdd.ite3 Tdd.apply_not Tdd.apply_bin_auto Tdd.apply_ite_auto Tdd.gt_size
  Tdd.tdd_eqb Tdd.sem Tdd.size
  ApplyTdd.tcode ApplyTdd.tdecode ApplyTdd.term3 ApplyTdd.td_view ApplyTdd.td_tb ApplyTdd.td_ite_sc
  ApplyTdd.td_apply_not ApplyTdd.td_apply_bin ApplyTdd.td_apply_ite
  ApplyTdd.td_const ApplyTdd.td_var ApplyTdd.td_cofactors
  ApplyTdd.td_eval ApplyTdd.td_eval_abs ApplyTdd.td_ok_b ApplyTdd.td_unfold.
