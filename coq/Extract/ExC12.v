From Coq Require Extraction ExtrOcamlBasic.
From OxiVerif Require Import Base.Conv Num.Natural Num.Saturating Num.F64Count Num.NaturalDec.
Extraction Language OCaml.
Extraction "model.ml" conv_anchor
  Natural.mkNat Natural.digits Natural.expo Natural.ZERO Natural.NAN
  Natural.is_nan Natural.exp Natural.mantissa Natural.bit_width Natural.check_inv
  Natural.from_u8 Natural.from_u16 Natural.from_u32 Natural.from_u64 Natural.from_u128
  Natural.from_le_digits Natural.nat_add Natural.nat_shl Natural.nat_shr
  Natural.partial_cmp Natural.nat_eqb Natural.hash_key
  Natural.try_into_u64 Natural.try_into_u128 Natural.to_f64_bits
  Natural.fmt_dec Natural.fmt_bin Natural.fmt_oct Natural.fmt_hex Natural.fmt_digit_count
  NaturalDec.dec_digits NaturalDec.fmt_dec_digits
  Natural.mkFlags Natural.pad_integral Natural.fmt_nan_layout Natural.len_is_zero
  Saturating.su_max Saturating.su_from_u32 Saturating.su_add Saturating.su_sub
  Saturating.su_shl Saturating.su_shr
  F64Count.f64_norm_int F64Count.f64c_bits_of_N F64Count.f64c_bits_from_u32 F64Count.f64c_bits_add F64Count.f64c_bits_sub
  F64Count.f64c_bits_shl F64Count.f64c_bits_shr F64Count.f64c_bits_is_nan Bits.bits_of_b64.
