From Coq Require Extraction ExtrOcamlBasic.
From OxiVerif Require Import Base.Conv DD.Table DD.TableExtra DD.Sem Num.I64 DD.Build DD.Apply DD.SatCount DD.Pick
  Num.Natural Num.F64Count DD.SatCountF64 DD.SatCache.
From Flocq Require Import IEEE754.Bits.
Extraction Language OCaml.
Extraction "model.ml" conv_anchor
  Table.sem_edge Table.wf_b TableExtra.terms_kind_b TableExtra.wf_full_b Table.perm_inverse_b Table.node_ok_b Table.unique_nodes_b
  Table.terms_unique_b Table.handles_ok_b
  Table.rc_exact_b Table.rc_first_bad Table.no_dead_b Table.count_reach Table.famz
  Sem.eval_bop Sem.lift1 Sem.lift2 Sem.ite_s Sem.const_s Sem.var_s Sem.cof Sem.exists_s Sem.forall_s Sem.unique_s
  Sem.restrict_s Sem.subst_s Sem.count_s Sem.cube_implies
  I64.i64_add I64.i64_sub I64.i64_mul I64.i64_div I64.i64_min I64.i64_max I64.i64_is_zero I64.i64_is_one
  Table.mkSnap Table.mkNode Table.mkEdge Table.nlevels Table.edge_eqb
  Apply.bdd_ok_b Pick.bcdd_ok_b Pick.zbdd_ok_b
  Pick.view_plain Pick.view_bcdd Pick.cube_lit Pick.cube_choice Pick.mask_choice
  Pick.pick_cube_bdd Pick.pick_cube_bcdd Pick.pick_cube_z
  Pick.trace_weight Pick.count_bdd Pick.count_bcdd Pick.count_zbdd
  SatCount.exact_ops SatCount.sat_ops SatCount.saturate SatCount.sat_query SatCount.sat_ref SatCount.clear_if_invalid
  SatCount.mkCache SatCount.c_map SatCount.c_epoch SatCount.c_vars SatCount.c_all
  SatCountF64.f64_ops SatCountF64.f64_count_bits Bits.bits_of_b64
  Natural.digits Natural.expo Natural.is_nan Natural.check_inv
  SatCache.nat_ops SatCache.mkMgr SatCache.cache_new SatCache.get_cache SatCache.count_event SatCache.count_event_with
  SatCache.clear_vars_only SatCache.uni_counts SatCache.uni_trace SatCache.same_table_b SatCache.obs_ok_b SatCache.height_of.
