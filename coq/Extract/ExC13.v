From Coq Require Extraction ExtrOcamlBasic.
From OxiVerif Require Import Base.Conv DD.Table DD.TableExtra DD.Sem Num.I64 DD.Build DD.Apply DD.SatCount DD.Pick.
Extraction Language OCaml.
Extraction "model.ml" conv_anchor
  Table.sem_edge Table.wf_b TableExtra.terms_kind_b TableExtra.wf_full_b Table.perm_inverse_b Table.node_ok_b Table.unique_nodes_b
  Table.terms_unique_b Table.handles_ok_b
  Table.rc_exact_b Table.rc_first_bad Table.no_dead_b Table.count_reach Table.famz
  Sem.eval_bop Sem.lift1 Sem.lift2 Sem.ite_s Sem.const_s Sem.var_s Sem.cof Sem.exists_s Sem.forall_s Sem.unique_s
  Sem.restrict_s Sem.subst_s Sem.count_s Sem.cube_implies
  I64.i64_add I64.i64_sub I64.i64_mul I64.i64_div I64.i64_min I64.i64_max I64.i64_is_zero I64.i64_is_one
  Table.mkSnap Table.mkNode Table.mkEdge Table.nlevels Table.edge_eqb
  Apply.bdd_ok_b Pick.bcdd_ok_b Pick.zbdd_ok_b
  Pick.view_plain Pick.view_bcdd Pick.cube_lit Pick.calls Pick.mask_choice Pick.cube_choice Pick.lit_pol
  Pick.pick_cube_bdd Pick.pick_cube_dd_bdd Pick.pick_cube_dd_set_bdd Pick.pick_uniform_bdd
  Pick.pick_cube_bcdd Pick.pick_cube_dd_bcdd Pick.pick_cube_dd_set_bcdd Pick.pick_uniform_bcdd
  Pick.pick_cube_z Pick.pick_cube_dd_z Pick.pick_cube_dd_set_z Pick.pick_uniform_z
  Pick.cube_lits Pick.cube_lits_z Pick.zlit_of Pick.mk_cube Pick.add_lit_bdd Pick.add_lit_bcdd Pick.add_lit_z
  Pick.trace_weight Pick.count_bdd Pick.count_bcdd Pick.count_zbdd Pick.uni_choice Pick.uni_choice_z.
