From Coq Require Extraction ExtrOcamlBasic.
From OxiVerif Require Import Base.Conv DD.Table DD.TableExtra DD.Sem DD.Build DD.Apply Mgr.Oom
  Mgr.Conc Mgr.OomOwn Mgr.OomOwnTie.
From OxiVerif Require Import Num.I64 DD.ApplyBcdd DD.FamSpec DD.ZbddOps DD.ZbddBool DD.ApplyMtbdd
  Mgr.OomGen Mgr.OomBcdd Mgr.OomZbdd Mgr.OomMtbdd.
From OxiVerif Require Import DD.Quant Mgr.OomBddQ DD.Tdd DD.ApplyTdd Mgr.OomTdd DD.QuantBcdd Mgr.OomBcddQ Mgr.OomZbddV.
From OxiVerif Require DD.Pick Mgr.OomPick.
From OxiVerif Require Import DD.IsoCheck.
From OxiVerif Require Import Mgr.OomOwnZK Mgr.OomOwnZ Mgr.OomOwnC Mgr.OomOwnZTie.
Extraction Language OCaml.
Extraction "model.ml" conv_anchor
  Table.sem_edge Table.wf_b TableExtra.wf_full_b Table.rc_exact_b Table.no_dead_b
  Table.mkSnap Table.mkNode Table.mkEdge Table.nlevels Table.edge_eqb
  Sem.eval_bop
  Apply.bdd_ok_b Apply.mk_var
  Oom.node_count Oom.get_or_insert_cap Oom.mk_node_cap Oom.mk_var_cap
  Oom.not_nc Oom.bin_nc Oom.ite_nc Oom.res_code Oom.res_snap Oom.res_ref
  Table.find_node OomOwn.ores_code OomOwnTie.own_inv_b OomOwnTie.own_not OomOwnTie.own_bin OomOwnTie.own_ite
  OomOwnTie.own_snap OomOwnTie.own_tokens OomOwnTie.snap_tokens OomOwnTie.own_put
  OomGen.gres_code OomGen.gres_snap OomGen.gres_val OomGen.term_count
  ApplyBcdd.bcok_b OomBcdd.cnot_nc OomBcdd.cop_nc OomBcdd.cite_nc OomBcdd.cmk_var_cap
  ZbddOps.zbdd_ok_b ZbddBool.zchain_ok_b OomZbdd.zset_nc OomZbdd.znot_nc OomZbdd.zop_nc OomZbdd.zite_nc
  OomZbdd.zsingleton_cap OomZbdd.zmake_node_cap
  ApplyMtbdd.mt_ok_b ApplyMtbdd.code ApplyMtbdd.decode I64.i64_one I64.i64_zero
  OomMtbdd.mbin_nc OomMtbdd.mite_nc OomMtbdd.mrestrict_nc OomMtbdd.mt_const_cap OomMtbdd.mt_var_cap
  Apply.term_of OomBddQ.qrun_nc
  ApplyTdd.td_ok_b OomTdd.trun_nc OomTdd.tcall_ok_b OomTdd.td_var_cap
  OomBcddQ.cq_run_nc OomBcddQ.cqcall_ok_b
  OomZbddV.zv_run_nc OomZbddV.zvcall_ok_b ZbddBool.zconst
  OomPick.pick_dd_nc OomPick.pick_dd_set_nc OomPick.pcall_ok_b
  IsoCheck.iso_core
  OomOwnZK.eres_code OomOwnZTie.ownz_inv_b OomOwnZTie.ownc_inv_b OomOwnZTie.ownz_set OomOwnZTie.ownz_not
  OomOwnZTie.ownz_op OomOwnZTie.ownz_ite OomOwnZTie.ownc_op OomOwnZTie.ownc_ite
  OomOwnZTie.owne_put OomOwnZTie.owne_snap OomOwnZTie.owne_tokens.
