From Coq Require Extraction ExtrOcamlBasic.
From OxiVerif Require Import Base.Conv DD.Table DD.TableExtra DD.Sem DD.Build DD.Apply Mgr.Oom
  Mgr.Conc Mgr.OomOwn Mgr.OomOwnTie.
Extraction Language OCaml.
Extraction "model.ml" conv_anchor
  Table.sem_edge Table.wf_b TableExtra.wf_full_b Table.rc_exact_b Table.no_dead_b
  Table.mkSnap Table.mkNode Table.mkEdge Table.nlevels Table.edge_eqb
  Sem.eval_bop
  Apply.bdd_ok_b Apply.mk_var
  Oom.node_count Oom.get_or_insert_cap Oom.mk_node_cap Oom.mk_var_cap
  Oom.not_nc Oom.bin_nc Oom.ite_nc Oom.res_code Oom.res_snap Oom.res_ref
  Table.find_node OomOwn.ores_code OomOwnTie.own_inv_b OomOwnTie.own_not OomOwnTie.own_bin OomOwnTie.own_ite
  OomOwnTie.own_snap OomOwnTie.own_tokens OomOwnTie.snap_tokens OomOwnTie.own_put.
