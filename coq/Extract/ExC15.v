From Coq Require Extraction ExtrOcamlBasic.
From OxiVerif Require Import Base.Conv IO.Dddmp IO.DddmpFile IO.DddmpTdd.
From OxiVerif Require DD.Table DD.IsoCheck.
Extraction Language OCaml.
Extraction "model.ml" conv_anchor Dddmp.import_file Dddmp.import_bin Dddmp.import_ascii
  Dddmp.export_nodes Dddmp.encode_7bit Dddmp.decode_7bit Dddmp.escape Dddmp.unescape_all
  Dddmp.eval_root Dddmp.parse_edge_list Dddmp.export_var_names Dddmp.sanitize_root_names
  Dddmp.write_replacing_control Dddmp.replace_space_and_control Dddmp.trim Dddmp.dec
  Dddmp.st_store Dddmp.st_nodes Dddmp.split_node_code Dddmp.export_ascii_nodes
  DddmpFile.load_header DddmpFile.import_whole DddmpFile.import_whole_guarded
  DddmpFile.print_header DddmpFile.header_of DddmpFile.utf8_lossy
  DddmpTdd.tdd_import_whole DddmpTdd.tdd_import_whole_guarded DddmpTdd.tdd_export_nodes DddmpTdd.tdd_export_whole
  DddmpTdd.tdd_anodes DddmpTdd.tdd_eval_root DddmpTdd.tdd_desc DddmpTdd.apply_setters DddmpTdd.binary_supported
  DddmpTdd.export_ascii_mode DddmpTdd.tdd_arity
  Table.mkSnap Table.mkNode Table.mkEdge IsoCheck.iso_core.
