From Coq Require Extraction ExtrOcamlBasic.
From OxiVerif Require Import Base.Conv Mgr.Names.
Extraction Language OCaml.
Extraction "model.ml" conv_anchor Names.step Names.run Names.mgr_new Names.mrun Names.vnm_new
  Names.num_vars Names.num_levels Names.num_named_vars Names.m_var_name Names.m_name_to_var.
