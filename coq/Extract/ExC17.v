From Coq Require Extraction ExtrOcamlBasic.
From OxiVerif Require Import Base.Conv Tbl.LinearHash.
Extraction Language OCaml.
Extraction "model.ml" conv_anchor LinearHash.step LinearHash.run LinearHash.empty LinearHash.hash_fn
  LinearHash.iter.
