From Coq Require Extraction ExtrOcamlBasic.
From OxiVerif Require Import Base.Conv IO.Circuit IO.Aiger IO.AigerParse IO.DimacsParse
  IO.TreeParse IO.NnfParse IO.DimacsSatParse.
Extraction Language OCaml.
Extraction "model.ml" conv_anchor
  Circuit.simplify Circuit.eval Circuit.apply_gate_map
  Circuit.nf_b Circuit.map_consistent_b Circuit.equiv_b Circuit.defined_b Circuit.observed
  Circuit.should_err_b Circuit.err_ok_b Circuit.closed_b Circuit.reach
  Circuit.ok_answer_b Circuit.err_answer_b Circuit.lit_eqb
  Aiger.decode7 Aiger.encode7 Aiger.and_gate_bin Aiger.decode_gate Aiger.encode_gate
  AigerParse.parse_aiger AigerParse.print_aag AigerParse.print_aig AigerParse.wf_b AigerParse.default_map
  DimacsParse.parse_cnf DimacsParse.print_cnf
  TreeParse.p_tree TreeParse.flatten TreeParse.print_tree TreeParse.print_vars TreeParse.print_ctree
  TreeParse.acyclic_g TreeParse.valid_utf8 TreeParse.wf_vars_b TreeParse.tree_top_ok_b
  NnfParse.parse_nnf NnfParse.print_nnf NnfParse.print_nnf_vo NnfParse.wf_nnf_b
  DimacsSatParse.parse_dimacs DimacsSatParse.print_sat_body DimacsSatParse.print_dimacs_vo
  DimacsSatParse.sat_problem DimacsSatParse.sform_ok_b DimacsSatParse.print_sform.
