From Coq Require Extraction ExtrOcamlBasic.
From OxiVerif Require Import Base.Conv DD.Sem Ffi.Spec Ffi.Ledger.
Extraction Language OCaml.
Extraction "model.ml" conv_anchor Ledger.step Ledger.run Ledger.run_trace Ledger.init Ledger.ledger_funs
  Ledger.ret_tabs Ledger.lookup
  Ledger.enc_set_var_name Ledger.enc_name_to_var Ledger.enc_add_named Ledger.enc_opt_level
  Spec.tab Spec.fn Spec.rapi Spec.pick_ok Spec.pick_vec_ok Spec.is_cube Spec.is_pos_cube Spec.extend
  Spec.tt_count Ledger.cofactors_of.
