From Coq Require Extraction ExtrOcamlBasic.
From OxiVerif Require Import Base.Conv DD.Table DD.TableExtra DD.Sem DD.Build DD.Apply DD.Cache
  DD.ConfigApply DD.Rename Num.I64
  DD.ApplyBcdd DD.FamSpec DD.ZbddOps DD.ZbddVars DD.ZbddBool DD.ConfigBcdd DD.ConfigZbdd.
Extraction Language OCaml.
Extraction "model.ml" conv_anchor
  Table.sem_edge Table.wf_b TableExtra.wf_full_b Table.rc_exact_b Table.count_reach Table.famz
  Table.mkSnap Table.mkNode Table.mkEdge Table.nlevels Table.edge_eqb
  I64.i64_add Sem.eval_bop
  Build.fresh_id Apply.nc_get Apply.nc_add Apply.ac_get Apply.ac_add Apply.bdd_ok_b
  Cache.dm_init Cache.dmr_get Cache.dmr_add
  ConfigApply.sched_depth ConfigApply.mstep ConfigApply.run_ops ConfigApply.observe
  Rename.rename_snap Rename.rename_edge Rename.addr_of
  ApplyBcdd.eac_get ApplyBcdd.eac_add ApplyBcdd.enc_get ApplyBcdd.enc_add ApplyBcdd.bcok_b
  ZbddOps.zac_get ZbddOps.zac_add ZbddOps.znc_get ZbddOps.znc_add ZbddOps.zbdd_ok_b ZbddBool.zchain_ok_b
  ZbddVars.zadd_vars ConfigBcdd.cmstep ConfigZbdd.zmstep.
