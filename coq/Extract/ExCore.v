From Coq Require Extraction ExtrOcamlBasic.
From OxiVerif Require Import Base.Conv DD.Table Mgr.Alloc Mgr.IndexStore Mgr.Conc Mgr.ConcGc Mgr.Core.
Extraction Language OCaml.
Extraction "model.ml" conv_anchor
  Core.kstep Core.krun Core.kinit Core.kproj Core.kacts Core.kops Core.kfin Core.kcollect Core.klink_b
  Core.hfind Core.inner_ids Core.mkK Core.k_i Core.k_cn Core.k_tok Core.k_hd
  IndexStore.iinit IndexStore.iinv_b IndexStore.nget IndexStore.i_al IndexStore.i_nodes IndexStore.i_hs IndexStore.i_own
  Alloc.step Alloc.init Alloc.good Alloc.ainv_b Alloc.live_slots Alloc.sum_delta Alloc.mkCfg Alloc.is_this
  Conc.step Conc.cinv_b Conc.node_pre_b Conc.find_shape Conc.cfind Conc.can_borrow_b Conc.cref_ok_b
  Conc.mkC Conc.mkCst Conc.cn Conc.cown Conc.cl Conc.cch Conc.crc
  Table.mkEdge.
