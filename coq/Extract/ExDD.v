From Coq Require Extraction ExtrOcamlBasic.
From OxiVerif Require Import Base.Conv DD.Table DD.TableExtra DD.Sem Num.I64 DD.FamSpec DD.ZbddOps DD.ZbddVars Mgr.SortOrder Mgr.LevelSwap Mgr.LevelSwapC Mgr.LevelSwapZ Mgr.LevelSwapT DD.BuildCanon Mgr.Conc Mgr.ConcGc Mgr.Terminals DD.Tdd DD.ApplyTdd DD.TddAudit Mgr.TddHist DD.SatCount DD.SatCountF64 DD.IsoCheck.
Extraction Language OCaml.
Extraction "model.ml" conv_anchor
  Table.sem_edge Table.wf_b TableExtra.terms_kind_b TableExtra.wf_full_b Table.perm_inverse_b Table.node_ok_b Table.unique_nodes_b
  Table.terms_unique_b Table.handles_ok_b
  Table.rc_exact_b Table.rc_first_bad Table.no_dead_b Table.count_reach Table.famz
  Sem.eval_bop Sem.lift1 Sem.lift2 Sem.ite_s Sem.const_s Sem.var_s Sem.cof Sem.exists_s Sem.forall_s Sem.unique_s
  Sem.restrict_s Sem.subst_s Sem.count_s Sem.cube_implies
  I64.i64_add I64.i64_sub I64.i64_mul I64.i64_div I64.i64_min I64.i64_max I64.i64_is_zero I64.i64_is_one
  FamSpec.f_empty FamSpec.f_base FamSpec.f_singleton FamSpec.f_bin FamSpec.f_sub FamSpec.f_make_node
  FamSpec.feq_b FamSpec.fam_bool FamSpec.fam_of
  ZbddOps.zbdd_ok_b ZbddOps.zapply ZbddOps.zsubset_top ZbddOps.zsingleton ZbddOps.zmake_node
  ZbddOps.zempty ZbddOps.zbase ZbddOps.zac_get ZbddOps.zac_add ZbddOps.znc_get ZbddOps.znc_add
  ZbddVars.ztaut_chain ZbddVars.zadd_vars ZbddVars.f_powerset
  LevelSwap.level_swap LevelSwap.set_var_order_model SortOrder.sort_order SortOrder.bubble_sort
  LevelSwapC.level_swap_c LevelSwapC.set_var_order_model_c
  LevelSwapZ.level_swap_zc LevelSwapZ.zchain_ids LevelSwapZ.zchain_drop LevelSwapZ.zchain_rebuild LevelSwapZ.level_swap_z LevelSwapZ.set_var_order_model_z
  LevelSwapT.level_swap_t LevelSwapT.set_var_order_model_t
  BuildCanon.build_kind BuildCanon.lvl_fun BuildCanon.canonical_count BuildCanon.cfun_of BuildCanon.bool_kind_ok_b BuildCanon.canon_size_bdd BuildCanon.canon_size_bcdd BuildCanon.canon_size_zbdd
  Terminals.lift_st Terminals.collect_term_survivors Terminals.collect_node_survivors Terminals.tstep Terminals.tcollect
  Terminals.minv_b Terminals.tcollect_count Terminals.tgc_count Terminals.get_outcome Terminals.tlen
  ApplyTdd.td_ok_b TddAudit.t3_not TddAudit.t3_bin TddAudit.t3_ite TddAudit.td_vtable TddAudit.td_wf3_b TddAudit.td_rc_b TddAudit.td_audit_b
  TddHist.tddh_const TddHist.tddh_var TddHist.tddh_not TddHist.tddh_bin TddHist.tddh_ite TddHist.tddh_cof TddHist.tddh_clone TddHist.tddh_drop TddHist.tddh_gc TddHist.tddh_addvars
  SatCountF64.sat_f64_bits SatCountF64.sat_f64_cached_bits SatCountF64.f64_count_bits
  IsoCheck.iso_snap_b IsoCheck.iso_core IsoCheck.iso_with IsoCheck.build_idx IsoCheck.hdr_eqb IsoCheck.rmap_find
  Table.mkSnap Table.mkNode Table.mkEdge Table.nlevels Table.edge_eqb.
