From Coq Require Extraction ExtrOcamlBasic.
From OxiVerif Require Import Base.Conv Tbl.ArcSlab.
Extraction Language OCaml.
Extraction "model.ml" conv_anchor ArcSlab.page_slots ArcSlab.init ArcSlab.step ArcSlab.run
  ArcSlab.obs_items ArcSlab.obs_pages ArcSlab.obs_alive ArcSlab.obs_leaked ArcSlab.hfind.
