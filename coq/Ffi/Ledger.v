(** * C19 — the C interface as a transition system with an ownership ledger
      (executable, no proofs; theorems in Ffi/LedgerProofs.v)

    Two descriptions of every modelled entry point [oxidd_{bdd,bcdd,zbdd}_*]
    of crates/oxidd-ffi-c are kept side by side in one state:

    - the *Rust side* [rside]: what the wrapper code really does with the
      reference-counted Rust values.  [r_funs] is the bag of live [Function]
      values that are owned through a raw C handle (one entry per
      [into_raw] that has not been undone by [from_raw] + [drop]), identified
      by the value table of the function they denote (Ffi/Spec.v); [r_mrc] is
      the strong count of the manager's [Arc] (one per owned [ManagerRef], one
      per live [Function]).  The wrappers are written below with the Rust
      primitives [fun_new] / [fun_drop] / [mref_clone] / [mref_drop] in exactly
      the places where the source creates, clones, forgets or drops a value
      ([ManuallyDrop] = no drop, [std::mem::forget] = no drop, [into_raw] /
      [from_raw] = no count change).  Dropping a value that is not live or
      touching a destroyed manager is [UB].

    - the *C side* ledger: what the client owns according to the documentation
      comments of the entry points (cbindgen copies them into the header):
      [st_mgrs] manager handles, [st_funs] function handles (each [HVal t] or
      the documented [HInv]alid value [{NULL, 0}]), [st_subs] substitution
      objects.  A call is [Illegal] when it violates a documented
      precondition (unknown / already released handle, "a *valid* function",
      variable number out of range, ...).

    [step] performs both updates; LedgerProofs.v shows that they never drift
    apart.  Environment choices (out of memory, the cube [pick_cube*] selects)
    are part of the call label, so a call list determines the run. *)

From Coq Require Import List Bool Arith NArith.
From OxiVerif Require Import DD.Sem Ffi.Spec.
Import ListNotations.

(** a C function handle [oxidd_{bdd,bcdd,zbdd}_t]: [_p == NULL] iff invalid *)
Inductive handle := HInv | HVal (t : tt).

Inductive outcome (A : Type) := Done (x : A) | UB | Illegal.
Arguments Done {A} x.
Arguments UB {A}.
Arguments Illegal {A}.

(** ** Rust side *)
Record rside := mkR { r_mrc : nat; r_funs : list tt }.

Fixpoint remove1 (t : tt) (l : list tt) : list tt :=
  match l with
  | [] => []
  | x :: r => if tt_eq_dec x t then r else x :: remove1 t r
  end.

Definition mem (t : tt) (l : list tt) : bool := existsb (tt_eqb t) l.

(** [ManagerRef::clone] ([Arc::clone]) *)
Definition mref_clone (s : rside) : rside := mkR (S (r_mrc s)) (r_funs s).
(** [drop(ManagerRef)]; [None] = the manager was already destroyed *)
Definition mref_drop (s : rside) : option rside :=
  match r_mrc s with O => None | S k => Some (mkR k (r_funs s)) end.
(** a new [Function] value for [t] comes into being ([Function::from_edge] after
    the node's count was incremented, or [Function::clone]): it holds one node
    reference and one [ManagerRef] *)
Definition fun_new (t : tt) (s : rside) : rside := mkR (S (r_mrc s)) (t :: r_funs s).
(** [drop(Function)]; [None] = no such live value (double free / use after free) *)
Definition fun_drop (t : tt) (s : rside) : option rside :=
  if mem t (r_funs s) then
    match r_mrc s with O => None | S k => Some (mkR k (remove1 t (r_funs s))) end
  else None.

Fixpoint funs_drop (ts : list tt) (s : rside) : option rside :=
  match ts with
  | [] => Some s
  | t :: r => match fun_drop t s with Some s' => funs_drop r s' | None => None end
  end.

(** [CFunction::get]: [Err(OutOfMemory)] for NULL, else the function wrapped in
    [ManuallyDrop] (borrowed: nothing is dropped at the end of the scope) *)
Definition c_get (h : handle) : option tt := match h with HInv => None | HVal t => Some t end.

(** a function-valued Rust API call ([AllocResult<Function>]): out of memory, or
    a new [Function] value for table [t] *)
Definition api (oom : bool) (t : tt) (s : rside) : rside * option tt :=
  if oom then (s, None) else (fun_new t s, Some t).

(** [From<AllocResult<F>>] / [From<Option<F>>] / [From<F>] for the handle type:
    [into_raw] (ownership moves to the C side, no count change) or [INVALID] *)
Definition c_into (r : option tt) : handle := match r with Some t => HVal t | None => HInv end.

(** util/mod.rs [op1] / [op2_var]: [f.get().and_then(|f| op(&f)).into()] *)
Definition c_op1 (oom : bool) (res : tt -> tt) (f : handle) (s : rside) : rside * handle :=
  match c_get f with
  | None => (s, HInv)
  | Some a => let (s', x) := api oom (res a) s in (s', c_into x)
  end.

(** util/mod.rs [op2]: [lhs.get().and_then(|lhs| op(&lhs, &*rhs.get()?)).into()] *)
Definition c_op2 (oom : bool) (res : tt -> tt -> tt) (lhs rhs : handle) (s : rside) : rside * handle :=
  match c_get lhs with
  | None => (s, HInv)
  | Some a =>
    match c_get rhs with
    | None => (s, HInv)
    | Some b => let (s', x) := api oom (res a b) s in (s', c_into x)
    end
  end.

(** util/mod.rs [op3] / [op3_combined] *)
Definition c_op3 (oom : bool) (res : tt -> tt -> tt -> tt) (f1 f2 f3 : handle) (s : rside)
  : rside * handle :=
  match c_get f1 with
  | None => (s, HInv)
  | Some a =>
    match c_get f2 with
    | None => (s, HInv)
    | Some b =>
      match c_get f3 with
      | None => (s, HInv)
      | Some c => let (s', x) := api oom (res a b c) s in (s', c_into x)
      end
    end
  end.

(** ** operations of the C interface, grouped by wrapper shape *)
Inductive op0 :=               (* (manager [, var]) -> function *)
| O0False | O0True | O0Var (v : nat) | O0NotVar (v : nat)
| O0Singleton (v : nat) | O0Empty | O0Base.
Inductive op1 :=               (* op1 / op2_var / pick_cube_dd *)
| O1Not | O1Subset0 (v : nat) | O1Subset1 (v : nat) | O1Change (v : nat)
| O1PickDD (res : tt).         (* the cube the implementation picked *)
Inductive op2 :=
| O2Bin (o : bop) | O2Restrict | O2Quant (q : quantifier)
| O2Union | O2Intsec | O2Diff
| O2PickSet (res : tt).
Inductive op3 := O3Ite | O3ApplyQuant (q : quantifier) (o : bop).

Inductive query :=
| QNodeCount | QSatisfiable | QValid
| QSatCount (vars : nat)
| QPickCube (res : option (list (option bool)))     (* what the implementation picked *)
| QEval (args : list (nat * bool))
| QNodeLevel | QNodeVar.

Inductive call :=
| CMgrNew (d : nat)                         (* oxidd_*_manager_new *)
| CMgrRef (d m : nat)                       (* oxidd_*_manager_ref *)
| CMgrUnref (m : nat)                       (* oxidd_*_manager_unref *)
| CContaining (d f : nat)                   (* oxidd_*_containing_manager *)
| CAddVars (m k : nat)                      (* oxidd_*_manager_add_vars / add_named_vars *)
| CSetOrder (m : nat) (ord : list nat)      (* oxidd_*_manager_set_var_order *)
| CMgrOther (m : nat)                       (* gc, num_inner_nodes, num_vars, names, level <-> var,
                                               run_in_worker_pool: borrow the manager handle *)
| CExport (m : nat) (fs : list nat)         (* export_dddmp*, dump_all_dot_path*: borrow *)
| CRoundTrip (m : nat) (ds srcs : list nat) (ok : bool)
                                            (* export_dddmp; dddmp_open; import_dddmp *)
| CInvalid (d : nat)                        (* the client writes the INVALID value {NULL,0} *)
| CRef (d f : nat)                          (* oxidd_*_ref *)
| CUnref (f : nat)                          (* oxidd_*_unref *)
| COp0 (o : op0) (d m : nat) (oom : bool)
| COp1 (o : op1) (d a : nat) (oom : bool)
| COp2 (o : op2) (d a b : nat) (oom : bool)
| COp3 (o : op3) (d a b c : nat) (oom : bool)
| CCofactors (dt de a : nat)                (* oxidd_*_cofactors *)
| CCofactor (hi : bool) (d a : nat)         (* oxidd_*_cofactor_true / _false *)
| CMakeNode (d var hi lo : nat) (oom : bool)     (* oxidd_zbdd_make_node *)
| CSubstNew (s : nat)                       (* oxidd_*_substitution_new *)
| CSubstAdd (s v f : nat)                   (* oxidd_*_substitution_add_pair *)
| CSubstFree (s : nat)                      (* oxidd_*_substitution_free *)
| CSubstitute (d a : nat) (s : option nat) (oom : bool)   (* oxidd_*_substitute; None = NULL *)
| CQuery (q : query) (a : nat).

Inductive ret :=
| RetUnit
| RetMgr                                    (* a manager handle (there is one manager) *)
| RetH (h : handle)
| RetHH (h1 h2 : handle)
| RetBool (b : bool)
| RetN (x : N)
| RetOptNat (x : option nat)                (* None = (oxidd_level_no_t / oxidd_var_no_t) -1 *)
| RetRange (lo hi : nat)
| RetUnknown.                               (* value not determined by this model *)

Record subst_obj := mkSub { sb_vars : list nat; sb_reps : list tt; sb_used : bool }.

Record state := mkSt {
  st_kind : kind3;
  st_created : bool;                 (* manager_new has been called *)
  st_nv : nat;                       (* number of variables *)
  st_l2v : list nat;                 (* level -> variable *)
  st_rs : rside;
  st_mgrs : list nat;                (* C: manager handle slots the client owns *)
  st_funs : list (nat * handle);     (* C: function handle slots the client owns *)
  st_subs : list (nat * subst_obj);  (* C: substitution objects the client owns *)
}.

Definition init (k : kind3) : state := mkSt k false 0 [] (mkR 0 []) [] [] [].

(** ** association lists keyed by slot number *)
Fixpoint lookup {A} (i : nat) (l : list (nat * A)) : option A :=
  match l with
  | [] => None
  | (j, x) :: r => if Nat.eqb j i then Some x else lookup i r
  end.

Fixpoint remove_slot {A} (i : nat) (l : list (nat * A)) : list (nat * A) :=
  match l with
  | [] => []
  | (j, x) :: r => if Nat.eqb j i then r else (j, x) :: remove_slot i r
  end.

Fixpoint remove_nat (i : nat) (l : list nat) : list nat :=
  match l with
  | [] => []
  | j :: r => if Nat.eqb j i then r else j :: remove_nat i r
  end.

Definition has_mgr (st : state) (m : nat) : bool := existsb (Nat.eqb m) (st_mgrs st).
Definition fresh_f (st : state) (d : nat) : bool :=
  match lookup d (st_funs st) with None => true | Some _ => false end.
Definition fresh_m (st : state) (d : nat) : bool := negb (has_mgr st d).
Definition fresh_s (st : state) (d : nat) : bool :=
  match lookup d (st_subs st) with None => true | Some _ => false end.

Fixpoint lookups (is : list nat) (l : list (nat * handle)) : option (list handle) :=
  match is with
  | [] => Some []
  | i :: r =>
    match lookup i l, lookups r l with
    | Some h, Some hs => Some (h :: hs)
    | _, _ => None
    end
  end.

Fixpoint all_valid (hs : list handle) : option (list tt) :=
  match hs with
  | [] => Some []
  | HVal t :: r => option_map (cons t) (all_valid r)
  | HInv :: _ => None
  end.

Fixpoint nodup_nat (l : list nat) : bool :=
  match l with
  | [] => true
  | x :: r => negb (existsb (Nat.eqb x) r) && nodup_nat r
  end.

Definition is_perm (n : nat) (l : list nat) : bool :=
  Nat.eqb (length l) n && nodup_nat l && forallb (fun v => Nat.ltb v n) l.

(** ** what the wrapped Rust API call returns (tables) and when the call is documented-legal *)
Section Ops.
Variable k : kind3.
Variable n : nat.
Variable l2v : list nat.

Definition op0_avail (o : op0) : bool :=
  match o, k with
  | (O0Singleton _ | O0Empty | O0Base), FZ => true
  | (O0Singleton _ | O0Empty | O0Base), _ => false
  | _, _ => true
  end.
Definition op0_legal (o : op0) : bool :=
  op0_avail o &&
  match o with
  | O0Var v | O0NotVar v | O0Singleton v => Nat.ltb v n
  | _ => true
  end.
Definition op0_rop (o : op0) : rop :=
  match o with
  | O0False | O0Empty => RConst false
  | O0True => RConst true
  | O0Var v => RVar v
  | O0NotVar v => RNotVar v
  | O0Singleton v => RSingleton v
  | O0Base => RBase
  end.

Definition is_fz : bool := match k with FZ => true | _ => false end.

Definition op1_legal (o : op1) (a : handle) : bool :=
  match o with
  | O1Not => true
  | O1Subset0 v | O1Subset1 v | O1Change v => is_fz && Nat.ltb v n
  | O1PickDD res =>
    match a with HVal t => pick_ok n t res | HInv => true end
  end.
Definition op1_res (o : op1) (a : tt) : tt :=
  match o with
  | O1Not => rapi n RNot [a]
  | O1Subset0 v => rapi n (RSubset0 v) [a]
  | O1Subset1 v => rapi n (RSubset1 v) [a]
  | O1Change v => rapi n (RChange v) [a]
  | O1PickDD res => res
  end.

Definition op2_legal (o : op2) (a b : handle) : bool :=
  match o with
  | O2Bin _ => true
  | O2Restrict =>
    negb is_fz && match a, b with HVal _, HVal c => is_cube n (fn n c) | _, _ => true end
  | O2Quant _ =>
    negb is_fz && match a, b with HVal _, HVal c => is_pos_cube n (fn n c) | _, _ => true end
  | O2Union | O2Intsec | O2Diff => is_fz
  | O2PickSet res =>
    match a, b with
    | HVal t, HVal c => is_cube n (fn n c) && pick_ok n t res
    | _, _ => true
    end
  end.
Definition op2_res (o : op2) (a b : tt) : tt :=
  match o with
  | O2Bin o => rapi n (RBin o) [a; b]
  | O2Restrict => rapi n RRestrict [a; b]
  | O2Quant q => rapi n (RQuant q) [a; b]
  | O2Union => rapi n RUnion [a; b]
  | O2Intsec => rapi n RIntsec [a; b]
  | O2Diff => rapi n RDiff [a; b]
  | O2PickSet res => res
  end.

Definition op3_legal (o : op3) (a b c : handle) : bool :=
  match o with
  | O3Ite => true
  | O3ApplyQuant _ _ =>
    negb is_fz && match a, b, c with
                  | HVal _, HVal _, HVal vs => is_pos_cube n (fn n vs)
                  | _, _, _ => true
                  end
  end.
Definition op3_res (o : op3) (a b c : tt) : tt :=
  match o with
  | O3Ite => rapi n RIte [a; b; c]
  | O3ApplyQuant q o => rapi n (RApplyQuant q o) [a; b; c]
  end.

(** the variable [v] with [t] = table of the singleton family {{v}} *)
Definition singleton_var (t : tt) : option nat :=
  find (fun v => tt_eqb t (tab n (singleton_s n v))) (seq 0 n).

(** the two children of the root of [t] (None: [t] is a terminal) *)
Definition cofactors_of (t : tt) : option (tt * tt) :=
  match top_var n k l2v (fn n t) with
  | None => None
  | Some v => Some (tab n (child_s k (fn n t) v true), tab n (child_s k (fn n t) v false))
  end.

Definition eval_asg (args : list (nat * bool)) : asg :=
  fold_left (fun a p => upd a (fst p) (snd p)) args a0.

Definition query_legal (q : query) (t : tt) : bool :=
  match q with
  | QSatCount vars => if is_fz then Nat.eqb vars n else Nat.leb n vars
  | QPickCube res => pick_vec_ok n t res
  | QEval args =>
    (* "args determines the valuation for all variables in the function's domain" (for ZBDDs the
       domain *is* the set of variables in args): every manager variable is given a value;
       repetitions are allowed, the last value counts *)
    forallb (fun p => Nat.ltb (fst p) n) args
    && forallb (fun v => existsb (fun p => Nat.eqb (fst p) v) args) (seq 0 n)
  | _ => true
  end.

Definition query_res (q : query) (t : tt) : ret :=
  match q with
  | QNodeCount => RetUnknown
  | QSatisfiable => RetBool (tt_any t)
  | QValid => RetBool (tt_all t)
  | QSatCount vars => RetN (tt_count t * 2 ^ N.of_nat (vars - n))
  | QPickCube _ => RetUnknown
  | QEval args => RetBool (fn n t (eval_asg args))
  | QNodeLevel => RetOptNat (top_level n k l2v (fn n t))
  | QNodeVar => RetOptNat (top_var n k l2v (fn n t))
  end.
End Ops.

(** ** state updates *)
Definition set_rs (st : state) (s : rside) : state :=
  mkSt (st_kind st) (st_created st) (st_nv st) (st_l2v st) s (st_mgrs st) (st_funs st) (st_subs st).
Definition set_mgrs (st : state) (s : rside) (ms : list nat) : state :=
  mkSt (st_kind st) true (st_nv st) (st_l2v st) s ms (st_funs st) (st_subs st).
Definition set_funs (st : state) (s : rside) (fs : list (nat * handle)) : state :=
  mkSt (st_kind st) (st_created st) (st_nv st) (st_l2v st) s (st_mgrs st) fs (st_subs st).
Definition set_subs (st : state) (s : rside) (ss : list (nat * subst_obj)) : state :=
  mkSt (st_kind st) (st_created st) (st_nv st) (st_l2v st) s (st_mgrs st) (st_funs st) ss.

Definition map_handle (g : tt -> tt) (h : handle) : handle :=
  match h with HInv => HInv | HVal t => HVal (g t) end.

(** [add_vars]: the nodes stay, the functions they denote get [cnt] more variables *)
Definition add_vars (st : state) (cnt : nat) : state :=
  let g := extend (st_kind st) cnt in
  mkSt (st_kind st) (st_created st) (st_nv st + cnt) (st_l2v st ++ seq (st_nv st) cnt)
       (mkR (r_mrc (st_rs st)) (map g (r_funs (st_rs st))))
       (st_mgrs st)
       (map (fun p => (fst p, map_handle g (snd p))) (st_funs st))
       (map (fun p => (fst p, mkSub (sb_vars (snd p)) (map g (sb_reps (snd p))) (sb_used (snd p))))
            (st_subs st)).

(** new function handle slots for the valid tables [ts] (import) *)
Fixpoint import_funs (ds : list nat) (ts : list tt) (s : rside) (fs : list (nat * handle))
  : rside * list (nat * handle) :=
  match ds, ts with
  | d :: dr, t :: tr => import_funs dr tr (fun_new t s) ((d, HVal t) :: fs)
  | _, _ => (s, fs)
  end.

Definition distinct_fresh (st : state) (ds : list nat) : bool :=
  nodup_nat ds && forallb (fresh_f st) ds.

(** ** one call *)
Definition step (st : state) (c : call) : outcome (state * ret) :=
  let k := st_kind st in
  let n := st_nv st in
  let rs := st_rs st in
  match c with
  | CMgrNew d =>
    (* bdd.rs oxidd_bdd_manager_new: new_manager(..).into_raw(); "with reference count 1" *)
    (* one manager at a time: a new one may be created when none exists (never created, or the
       last reference to the previous one is gone -- then no valid handle is left either) *)
    match r_mrc rs with
    | S _ => Illegal
    | O => Done (mkSt k true 0 [] (mkR 1 []) [d] (st_funs st) (st_subs st), RetMgr)
    end
  | CMgrRef d m =>
    (* oxidd_bdd_manager_ref: if !null { forget(manager.get().clone()) }; returns manager *)
    if has_mgr st m && fresh_m st d then
      Done (set_mgrs st (mref_clone rs) (d :: st_mgrs st), RetMgr)
    else Illegal
  | CMgrUnref m =>
    (* oxidd_bdd_manager_unref: if !null { drop(ManagerRef::from_raw(p)) } *)
    if has_mgr st m then
      match mref_drop rs with
      | None => UB
      | Some rs' => Done (set_mgrs st rs' (remove_nat m (st_mgrs st)), RetUnit)
      end
    else Illegal
  | CContaining d f =>
    (* oxidd_bdd_containing_manager: f.get().expect(..).manager_ref().into_raw();
       "@param f A *valid* BDD function; returns a manager reference with its own reference count" *)
    match lookup f (st_funs st) with
    | Some (HVal t) =>
      if fresh_m st d then
        if mem t (r_funs rs) then Done (set_mgrs st (mref_clone rs) (d :: st_mgrs st), RetMgr)
        else UB
      else Illegal
    | _ => Illegal
    end
  | CAddVars m cnt =>
    (* with_manager_exclusive(|manager| manager.add_vars(additional)).into() *)
    if has_mgr st m then Done (add_vars st cnt, RetRange n (n + cnt)) else Illegal
  | CSetOrder m ord =>
    (* if order.is_null() || len < 2 { return }; oxidd_reorder::set_var_order(manager, order) *)
    if has_mgr st m then
      if Nat.ltb (length ord) 2 then Done (st, RetUnit)
      else if is_perm n ord then
        Done (mkSt k (st_created st) n ord rs (st_mgrs st) (st_funs st) (st_subs st), RetUnit)
      else Illegal
    else Illegal
  | CMgrOther m =>
    if has_mgr st m then
      match r_mrc rs with O => UB | S _ => Done (st, RetUnknown) end
    else Illegal
  | CExport m fs =>
    (* util::dddmp::export / util::dump_all_dot_path: every function is read through f.get()
       (ManuallyDrop), invalid ones are skipped *)
    if has_mgr st m then
      match lookups fs (st_funs st) with
      | Some hs => Done (st, RetBool (match all_valid hs with Some _ => true | None => false end))
      | None => Illegal
      end
    else Illegal
  | CRoundTrip m ds srcs ok =>
    (* export_dddmp to a file, oxidd_dddmp_open, dddmp_file_t::import_into:
       for root in rs { roots.write(root.into()) }  -- one owned handle per root *)
    if has_mgr st m && distinct_fresh st ds && Nat.eqb (length ds) (length srcs) then
      match lookups srcs (st_funs st) with
      | Some hs =>
        match all_valid hs with
        | Some ts =>
          if ok then
            let (rs', fs') := import_funs ds ts rs (st_funs st) in
            Done (set_funs st rs' fs', RetBool true)
          else Done (st, RetBool false)
        | None => Done (st, RetBool false)     (* export reports "function i is invalid" *)
        end
      | None => Illegal
      end
    else Illegal
  | CInvalid d =>
    if fresh_f st d then Done (set_funs st rs ((d, HInv) :: st_funs st), RetH HInv) else Illegal
  | CRef d f =>
    (* oxidd_bdd_ref: std::mem::forget(f.get().clone()); f   -- "No-op if f is invalid" *)
    match lookup f (st_funs st) with
    | Some h =>
      if fresh_f st d then
        match c_get h with
        | None => Done (set_funs st rs ((d, h) :: st_funs st), RetH h)
        | Some t =>
          if mem t (r_funs rs) then Done (set_funs st (fun_new t rs) ((d, h) :: st_funs st), RetH h)
          else UB
        end
      else Illegal
    | None => Illegal
    end
  | CUnref f =>
    (* oxidd_bdd_unref: if !null { drop(BDDFunction::from_raw(p, i)) } *)
    match lookup f (st_funs st) with
    | Some h =>
      match c_get h with
      | None => Done (set_funs st rs (remove_slot f (st_funs st)), RetUnit)
      | Some t =>
        match fun_drop t rs with
        | None => UB
        | Some rs' => Done (set_funs st rs' (remove_slot f (st_funs st)), RetUnit)
        end
      end
    | None => Illegal
    end
  | COp0 o d m oom =>
    (* manager.get() (ManuallyDrop); with_manager_shared(|m| F::var(m, var).into()) etc. *)
    if has_mgr st m && fresh_f st d && op0_legal k n o then
      match r_mrc rs with
      | O => UB
      | S _ =>
        let oom' := match o with O0False | O0True | O0Empty | O0Base => false | _ => oom end in
        let (rs', x) := api oom' (rapi n (op0_rop o) []) rs in
        Done (set_funs st rs' ((d, c_into x) :: st_funs st), RetH (c_into x))
      end
    else Illegal
  | COp1 o d a oom =>
    match lookup a (st_funs st) with
    | Some ha =>
      if fresh_f st d && op1_legal k n o ha then
        let (rs', h) := c_op1 oom (op1_res n o) ha rs in
        Done (set_funs st rs' ((d, h) :: st_funs st), RetH h)
      else Illegal
    | None => Illegal
    end
  | COp2 o d a b oom =>
    match lookup a (st_funs st), lookup b (st_funs st) with
    | Some ha, Some hb =>
      if fresh_f st d && op2_legal k n o ha hb then
        let (rs', h) := c_op2 oom (op2_res n o) ha hb rs in
        Done (set_funs st rs' ((d, h) :: st_funs st), RetH h)
      else Illegal
    | _, _ => Illegal
    end
  | COp3 o d a b c oom =>
    match lookup a (st_funs st), lookup b (st_funs st), lookup c (st_funs st) with
    | Some ha, Some hb, Some hc =>
      if fresh_f st d && op3_legal k n o ha hb hc then
        let (rs', h) := c_op3 oom (op3_res n o) ha hb hc rs in
        Done (set_funs st rs' ((d, h) :: st_funs st), RetH h)
      else Illegal
    | _, _, _ => Illegal
    end
  | CCofactors dt de a =>
    (* if let Ok(f) = f.get() && let Some((t, e)) = f.cofactors() { pair(t.into(), e.into()) }
       else pair(INVALID, INVALID) *)
    match lookup a (st_funs st) with
    | Some ha =>
      if fresh_f st dt && fresh_f st de && negb (Nat.eqb dt de) then
        match c_get ha with
        | None => Done (set_funs st rs ((de, HInv) :: (dt, HInv) :: st_funs st), RetHH HInv HInv)
        | Some t =>
          match cofactors_of k n (st_l2v st) t with
          | None => Done (set_funs st rs ((de, HInv) :: (dt, HInv) :: st_funs st), RetHH HInv HInv)
          | Some (ct, ce) =>
            Done (set_funs st (fun_new ce (fun_new ct rs)) ((de, HVal ce) :: (dt, HVal ct) :: st_funs st),
                  RetHH (HVal ct) (HVal ce))
          end
        end
      else Illegal
    | None => Illegal
    end
  | CCofactor hi d a =>
    (* if let Ok(f) = f.get() { f.cofactor_true().into() } else { INVALID } *)
    match lookup a (st_funs st) with
    | Some ha =>
      if fresh_f st d then
        match c_get ha with
        | None => Done (set_funs st rs ((d, HInv) :: st_funs st), RetH HInv)
        | Some t =>
          match cofactors_of k n (st_l2v st) t with
          | None => Done (set_funs st rs ((d, HInv) :: st_funs st), RetH HInv)
          | Some (ct, ce) =>
            let r := if hi then ct else ce in
            Done (set_funs st (fun_new r rs) ((d, HVal r) :: st_funs st), RetH (HVal r))
          end
        end
      else Illegal
    | None => Illegal
    end
  | CMakeNode d var hi lo oom =>
    (* zbdd.rs oxidd_zbdd_make_node ("takes ownership of hi and lo (but not var)"):
         var.get().and_then(|var| {
           let hi = ManuallyDrop::into_inner(hi.get()?);     // owned from here on
           let lo = ManuallyDrop::into_inner(lo.get()?);     // Err: hi is dropped
           make_node(manager, var, hi.into_edge(..), lo.into_edge(..)).map(from_edge) }).into()
       The ledger follows the code: hi / lo leave the client's ownership exactly when the
       wrapper took them over. *)
    match k, lookup var (st_funs st), lookup hi (st_funs st), lookup lo (st_funs st) with
    | FZ, Some hv, Some hh, Some hl =>
      if fresh_f st d && negb (Nat.eqb hi lo) && negb (Nat.eqb var hi) && negb (Nat.eqb var lo) then
        match c_get hv with
        | None => Done (set_funs st rs ((d, HInv) :: st_funs st), RetH HInv)
        | Some tv =>
          match c_get hh with
          | None => Done (set_funs st rs ((d, HInv) :: st_funs st), RetH HInv)
          | Some th =>
            match c_get hl with
            | None =>
              (* hi was taken over and is dropped on the error path *)
              match fun_drop th rs with
              | None => UB
              | Some rs1 =>
                Done (set_funs st rs1 ((d, HInv) :: remove_slot hi (st_funs st)), RetH HInv)
              end
            | Some tl =>
              match singleton_var n tv with
              | None => Illegal                        (* "var must be a singleton set" *)
              | Some v =>
                if below_var n (st_l2v st) v (fn n th) && below_var n (st_l2v st) v (fn n tl) then
                  (* both edges are consumed by make_node (also when it runs out of memory) *)
                  match fun_drop th rs with
                  | None => UB
                  | Some rs1 =>
                    match fun_drop tl rs1 with
                    | None => UB
                    | Some rs2 =>
                      let (rs3, x) := api oom (rapi n (RMkNode v) [th; tl]) rs2 in
                      Done (set_funs st rs3 ((d, c_into x) :: remove_slot lo (remove_slot hi (st_funs st))),
                            RetH (c_into x))
                    end
                  end
                else Illegal
              end
            end
          end
        end
      else Illegal
    | _, _, _, _ => Illegal
    end
  | CSubstNew s =>
    (* Box::into_raw(Box::new(bdd_substitution_t { id, vars: Vec::new, replacements: Vec::new })) *)
    if fresh_s st s && negb (is_fz k) then Done (set_subs st rs ((s, mkSub [] [] false) :: st_subs st), RetUnit)
    else Illegal
  | CSubstAdd s v f =>
    (* let r = replacement.get().expect(..); subst.vars.push(var); subst.replacements.push(r.clone())
       "increments the reference counters ... decremented by oxidd_bdd_substitution_free()" *)
    match lookup s (st_subs st), lookup f (st_funs st) with
    | Some sb, Some (HVal t) =>
      if negb (sb_used sb) && Nat.ltb v n && negb (existsb (Nat.eqb v) (sb_vars sb)) then
        if mem t (r_funs rs) then
          Done (set_subs st (fun_new t rs)
                  ((s, mkSub (sb_vars sb ++ [v]) (sb_reps sb ++ [t]) false) :: remove_slot s (st_subs st)),
                RetUnit)
        else UB
      else Illegal
    | _, _ => Illegal
    end
  | CSubstFree s =>
    (* drop(Box::from_raw(substitution)): drops every replacement *)
    match lookup s (st_subs st) with
    | Some sb =>
      match funs_drop (sb_reps sb) rs with
      | None => UB
      | Some rs' => Done (set_subs st rs' (remove_slot s (st_subs st)), RetUnit)
      end
    | None => Illegal
    end
  | CSubstitute d a s oom =>
    (* if substitution.is_null() { return INVALID }
       f.get().and_then(|f| f.substitute(Subst { id, vars, replacements })).into() *)
    match lookup a (st_funs st) with
    | Some ha =>
      if fresh_f st d && negb (is_fz k) then
        match s with
        | None => Done (set_funs st rs ((d, HInv) :: st_funs st), RetH HInv)
        | Some si =>
          match lookup si (st_subs st) with
          | Some sb =>
            let (rs', h) := c_op1 oom (fun t => rapi n (RSubst (sb_vars sb)) (t :: sb_reps sb)) ha rs in
            Done (mkSt k (st_created st) n (st_l2v st) rs' (st_mgrs st) ((d, h) :: st_funs st)
                       ((si, mkSub (sb_vars sb) (sb_reps sb) true) :: remove_slot si (st_subs st)),
                  RetH h)
          | None => Illegal
          end
        end
      else Illegal
    | None => Illegal
    end
  | CQuery q a =>
    (* f.get().expect(FUNC_UNWRAP_MSG) (node_count, satisfiable, valid, sat_count, pick_cube, eval):
       "@param f A *valid* function"; node_level / node_var: (..)-1 for invalid functions *)
    match lookup a (st_funs st) with
    | Some (HVal t) =>
      if query_legal k n q t then
        if mem t (r_funs rs) then Done (st, query_res k n (st_l2v st) q t) else UB
      else Illegal
    | Some HInv =>
      match q with
      | QNodeLevel | QNodeVar => Done (st, RetOptNat None)
      | _ => Illegal
      end
    | None => Illegal
    end
  end.

(** ** runs *)
Fixpoint run (st : state) (cs : list call) : outcome state :=
  match cs with
  | [] => Done st
  | c :: r =>
    match step st c with
    | Done (st', _) => run st' r
    | UB => UB
    | Illegal => Illegal
    end
  end.

(** the same with the list of return values (used by the driver) *)
Fixpoint run_trace (st : state) (cs : list call) : outcome (state * list ret) :=
  match cs with
  | [] => Done (st, [])
  | c :: r =>
    match step st c with
    | Done (st', x) =>
      match run_trace st' r with
      | Done (st'', xs) => Done (st'', x :: xs)
      | UB => UB
      | Illegal => Illegal
      end
    | UB => UB
    | Illegal => Illegal
    end
  end.

(** ** the ledger: everything the client holds a reference for *)
Definition handle_tabs (h : handle) : list tt := match h with HVal t => [t] | HInv => [] end.

Definition ledger_funs (st : state) : list tt :=
  flat_map (fun p => handle_tabs (snd p)) (st_funs st)
  ++ flat_map (fun p => sb_reps (snd p)) (st_subs st).

Definition ret_tabs (r : ret) : list tt :=
  match r with
  | RetH h => handle_tabs h
  | RetHH h1 h2 => handle_tabs h2 ++ handle_tabs h1
  | _ => []
  end.

(** ** encodings of Rust API results in C return values (util/mod.rs, bdd.rs) *)
(** [VarNo::MAX] *)
Definition var_no_max : N := 4294967295%N.
(** set_var_name: Ok(()) -> (oxidd_var_no_t)-1, Err(e) -> e.present_var *)
Definition enc_set_var_name (r : option N) : N := match r with None => var_no_max | Some v => v end.
(** name_to_var: manager.name_to_var(name).unwrap_or(VarNo::MAX); the empty name gives MAX *)
Definition enc_name_to_var (name_empty : bool) (r : option N) : N :=
  if name_empty then var_no_max else match r with None => var_no_max | Some v => v end.
(** duplicate_var_name_result_t from Result<Range, DuplicateVarName>: (start, end, present_var) *)
Definition enc_add_named (r : N * N * option N) : N * N * N :=
  match r with (a, b, None) => (a, b, var_no_max) | (a, b, Some v) => (a, b, v) end.
(** node_level / node_var: LevelNo::MAX for terminals and invalid functions *)
Definition enc_opt_level (r : option nat) : N := match r with None => var_no_max | Some l => N.of_nat l end.
