(** * C19 — concrete runs of the ledger model (the theorems' hypotheses are satisfiable) *)

From Coq Require Import List Bool Arith NArith.
From OxiVerif Require Import DD.Sem Ffi.Spec Ffi.Ledger Ffi.LedgerProofs Ffi.LedgerStep Ffi.LedgerFinal.
Import ListNotations.

(** BDD manager with two variables: x0 ∧ x1, INVALID propagation through [or], ref / unref,
    cofactors, ∃x1, an [ite] that runs out of memory, all manager handles released while
    functions are alive and one re-obtained from a function, eval, sat_count *)
Definition ex_bdd : list call :=
  [CMgrNew 0; CAddVars 0 2;
   COp0 (O0Var 0) 0 0 false; COp0 (O0Var 1) 1 0 false;
   COp2 (O2Bin OAnd) 2 0 1 false;
   CInvalid 3; COp2 (O2Bin OOr) 4 2 3 false;
   CRef 5 2; CUnref 0;
   CCofactors 6 7 2;
   COp2 (O2Quant QExists) 8 2 1 false;
   COp3 O3Ite 9 1 2 8 true;
   CMgrUnref 0; CContaining 1 5;
   CQuery (QEval [(0, true); (1, true)]) 2;
   CQuery (QSatCount 2) 2].

Definition ex_bdd_state : state :=
  mkSt FB true 2 [0; 1]
    (mkR 7 [[false; true; false; true]; [false; false; false; false]; [false; false; true; true];
            [false; false; false; true]; [false; false; false; true]; [false; false; true; true]])
    [1]
    [(9, HInv); (8, HVal [false; true; false; true]); (7, HVal [false; false; false; false]);
     (6, HVal [false; false; true; true]); (5, HVal [false; false; false; true]); (4, HInv); (3, HInv);
     (2, HVal [false; false; false; true]); (1, HVal [false; false; true; true])]
    [].

Example ex_bdd_run :
  run_trace (init FB) ex_bdd =
  Done (ex_bdd_state,
        [RetMgr; RetRange 0 2; RetH (HVal [false; true; false; true]); RetH (HVal [false; false; true; true]);
         RetH (HVal [false; false; false; true]); RetH HInv; RetH HInv; RetH (HVal [false; false; false; true]);
         RetUnit; RetHH (HVal [false; false; true; true]) (HVal [false; false; false; false]);
         RetH (HVal [false; true; false; true]); RetH HInv; RetUnit; RetMgr; RetBool true; RetN 1]).
Proof. vm_compute. reflexivity. Qed.

Example ex_bdd_done : run (init FB) ex_bdd = Done ex_bdd_state.
Proof. vm_compute. reflexivity. Qed.

(** the state reached is balanced (six live function values for six valid handles, count 7 = 1 + 6) *)
Example ex_bdd_balanced : balanced ex_bdd_state.
Proof. apply (run_bal ex_bdd (init FB)); [apply bal_init | exact ex_bdd_done]. Qed.

(** releasing everything: no reference is left and the manager is gone *)
Definition ex_bdd_release : list call :=
  [CUnref 9; CUnref 8; CUnref 7; CUnref 6; CUnref 5; CUnref 4; CUnref 3; CUnref 2; CUnref 1; CMgrUnref 1].

Example ex_bdd_released :
  exists st, run (init FB) (ex_bdd ++ ex_bdd_release) = Done st /\
    no_valid_handle st /\ st_mgrs st = [] /\ st_rs st = mkR 0 [].
Proof.
  eexists. split; [vm_compute; reflexivity|]. split; [|split; reflexivity].
  split; intros ? ? [].
Qed.

(** a double unref is not a documented-legal call *)
Example ex_double_unref : run (init FB) (ex_bdd ++ [CUnref 2; CUnref 2]) = Illegal.
Proof. vm_compute. reflexivity. Qed.

(** ZBDD: make_node({0}, hi = {{1}}, lo = {∅}) = {∅, {0,1}} consumes hi and lo; with an
    INVALID lo it returns INVALID and still consumes hi *)
Definition ex_zbdd : list call :=
  [CMgrNew 0; CAddVars 0 2;
   COp0 (O0Singleton 0) 0 0 false; COp0 O0Base 1 0 false; COp0 (O0Singleton 1) 2 0 false;
   CMakeNode 3 0 2 1 false; CInvalid 4; COp0 O0Base 5 0 false; CMakeNode 6 0 5 4 false].

Example ex_zbdd_run :
  run (init FZ) ex_zbdd =
  Done (mkSt FZ true 2 [0; 1] (mkR 3 [[true; false; false; true]; [false; true; false; false]]) [0]
          [(6, HInv); (4, HInv); (3, HVal [true; false; false; true]); (0, HVal [false; true; false; false])] []).
Proof. vm_compute. reflexivity. Qed.

(** substitution objects hold references of their own *)
Definition ex_subst : list call :=
  [CMgrNew 0; CAddVars 0 2; COp0 (O0Var 0) 0 0 false; COp0 (O0NotVar 1) 1 0 false;
   CSubstNew 0; CSubstAdd 0 0 1; CUnref 1; CSubstitute 2 0 (Some 0) false; CSubstFree 0].

Example ex_subst_run :
  run (init FC) ex_subst =
  Done (mkSt FC true 2 [0; 1] (mkR 3 [[true; true; false; false]; [false; true; false; true]]) [0]
          [(2, HVal [true; true; false; false]); (0, HVal [false; true; false; true])] []).
Proof. vm_compute. reflexivity. Qed.
