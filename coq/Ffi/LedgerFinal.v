(** * C19 — the ledger theorems (part 4: ref / unref, INVALID propagation, results, release) *)

From Coq Require Import List Bool Arith NArith Lia Permutation FMapPositive.
From OxiVerif Require Import DD.Sem DD.Table DD.TableExtra DD.TableProofs
  Ffi.Spec Ffi.Ledger Ffi.LedgerProofs Ffi.LedgerStep Ffi.LedgerThms.
Import ListNotations.

(** ** ref / unref change the count of exactly that function by one *)
Theorem ref_effect : forall st d f h st' r,
  lookup f (st_funs st) = Some h -> step st (CRef d f) = Done (st', r) ->
  r = RetH h /\
  st_funs st' = (d, h) :: st_funs st /\
  r_funs (st_rs st') = handle_tabs h ++ r_funs (st_rs st) /\
  r_mrc (st_rs st') = length (handle_tabs h) + r_mrc (st_rs st) /\
  st_mgrs st' = st_mgrs st /\ st_subs st' = st_subs st.
Proof.
  intros st d f h st' r Hl H. unfold step in H; cbv zeta in H. rewrite Hl in H.
  destruct (fresh_f st d); [|discriminate H]. destruct h as [|t]; simpl in H.
  - inversion H; subst. simpl. repeat split; reflexivity.
  - destruct (mem t (r_funs (st_rs st))); [|discriminate H]. inversion H; subst. simpl. repeat split; reflexivity.
Qed.

Theorem unref_effect : forall st f h st' r,
  balanced st -> lookup f (st_funs st) = Some h -> step st (CUnref f) = Done (st', r) ->
  st_funs st' = remove_slot f (st_funs st) /\
  Permutation (r_funs (st_rs st)) (handle_tabs h ++ r_funs (st_rs st')) /\
  r_mrc (st_rs st) = length (handle_tabs h) + r_mrc (st_rs st') /\
  st_mgrs st' = st_mgrs st /\ st_subs st' = st_subs st.
Proof.
  intros st f h st' r B Hl H. unfold step in H; cbv zeta in H. rewrite Hl in H.
  destruct h as [|t]; simpl in H.
  - inversion H; subst. simpl. repeat split; try reflexivity.
  - pose proof (bal_live _ _ _ _ _ _ B Hl) as Hin.
    destruct (fun_drop_ok _ _ _ _ _ B Hin) as [Hd Hnz]. rewrite Hd in H. inversion H; subst. simpl.
    repeat split; try reflexivity; [apply remove1_perm, Hin | lia].
Qed.

(** per function: the count of [t] drops by one for the released handle, all others stay *)
Corollary unref_counts : forall st f t st' r u,
  balanced st -> lookup f (st_funs st) = Some (HVal t) -> step st (CUnref f) = Done (st', r) ->
  count_occ tt_eq_dec (r_funs (st_rs st)) u
  = (if tt_eq_dec t u then 1 else 0) + count_occ tt_eq_dec (r_funs (st_rs st')) u.
Proof.
  intros st f t st' r u B Hl H. destruct (unref_effect _ _ _ _ _ B Hl H) as [_ [Hp _]].
  rewrite (Permutation_count_occ tt_eq_dec) in Hp. rewrite (Hp u). simpl.
  destruct (tt_eq_dec t u); reflexivity.
Qed.

Theorem mgr_ref_effect : forall st d m st' r,
  step st (CMgrRef d m) = Done (st', r) ->
  st_mgrs st' = d :: st_mgrs st /\ r_mrc (st_rs st') = S (r_mrc (st_rs st)) /\
  r_funs (st_rs st') = r_funs (st_rs st) /\ st_funs st' = st_funs st /\ st_subs st' = st_subs st.
Proof.
  intros st d m st' r H. unfold step in H; cbv zeta in H.
  destruct (has_mgr st m && fresh_m st d); [|discriminate H]. inversion H; subst. simpl. repeat split; reflexivity.
Qed.

Theorem mgr_unref_effect : forall st m st' r,
  step st (CMgrUnref m) = Done (st', r) ->
  st_mgrs st' = remove_nat m (st_mgrs st) /\ r_mrc (st_rs st) = S (r_mrc (st_rs st')) /\
  r_funs (st_rs st') = r_funs (st_rs st) /\ st_funs st' = st_funs st /\ st_subs st' = st_subs st.
Proof.
  intros st m st' r H. unfold step in H; cbv zeta in H.
  destruct (has_mgr st m); [|discriminate H]. unfold mref_drop in H.
  destruct (r_mrc (st_rs st)) as [|k] eqn:E; [discriminate H|]. inversion H; subst. simpl. repeat split; reflexivity.
Qed.

Theorem containing_effect : forall st d f st' r,
  step st (CContaining d f) = Done (st', r) ->
  st_mgrs st' = d :: st_mgrs st /\ r_mrc (st_rs st') = S (r_mrc (st_rs st)) /\
  r_funs (st_rs st') = r_funs (st_rs st) /\ st_funs st' = st_funs st.
Proof.
  intros st d f st' r H. unfold step in H; cbv zeta in H.
  destruct (lookup f (st_funs st)) as [[|t]|]; try discriminate H.
  destruct (fresh_m st d); [|discriminate H]. destruct (mem t (r_funs (st_rs st))); [|discriminate H].
  inversion H; subst. simpl. repeat split; reflexivity.
Qed.

(** ** an INVALID operand yields INVALID and changes nothing on the Rust side *)
Definition operands (c : call) : list nat :=
  match c with
  | COp1 _ _ a _ => [a]
  | COp2 _ _ a b _ => [a; b]
  | COp3 _ _ a b c _ => [a; b; c]
  | CCofactors _ _ a => [a]
  | CCofactor _ _ a => [a]
  | CSubstitute _ a _ _ => [a]
  | _ => []
  end.

Definition all_invalid_ret (r : ret) : Prop :=
  match r with RetH h => h = HInv | RetHH h1 h2 => h1 = HInv /\ h2 = HInv | _ => False end.

Theorem invalid_propagates : forall st c st' r a,
  In a (operands c) -> lookup a (st_funs st) = Some HInv -> step st c = Done (st', r) ->
  all_invalid_ret r /\ st_rs st' = st_rs st /\ st_mgrs st' = st_mgrs st.
Proof.
  intros st c st' r a Hin Hl H. destruct c; simpl in Hin; try contradiction; unfold step in H; cbv zeta in H.
  - (* COp1 *)
    destruct Hin as [E|[]]; subst a0. rewrite Hl in H. brh H. simpl in H. inversion H; subst. simpl. auto.
  - (* COp2 *)
    destruct (lookup a0 (st_funs st)) as [ha|] eqn:Ea; [|discriminate H].
    destruct (lookup b (st_funs st)) as [hb|] eqn:Eb; [|discriminate H].
    brh H. unfold c_op2 in H.
    destruct Hin as [E|[E|[]]]; subst a.
    + rewrite Hl in Ea. inversion Ea; subst ha. simpl in H. inversion H; subst. simpl. auto.
    + rewrite Hl in Eb. inversion Eb; subst hb. destruct (c_get ha); simpl in H; inversion H; subst; simpl; auto.
  - (* COp3 *)
    destruct (lookup a0 (st_funs st)) as [ha|] eqn:Ea; [|discriminate H].
    destruct (lookup b (st_funs st)) as [hb|] eqn:Eb; [|discriminate H].
    destruct (lookup c (st_funs st)) as [hc|] eqn:Ec; [|discriminate H].
    brh H. unfold c_op3 in H.
    destruct Hin as [E|[E|[E|[]]]]; subst a.
    + rewrite Hl in Ea. inversion Ea; subst ha. simpl in H. inversion H; subst. simpl. auto.
    + rewrite Hl in Eb. inversion Eb; subst hb. destruct (c_get ha); simpl in H; inversion H; subst; simpl; auto.
    + rewrite Hl in Ec. inversion Ec; subst hc.
      destruct (c_get ha); [destruct (c_get hb)|]; simpl in H; inversion H; subst; simpl; auto.
  - (* CCofactors *)
    destruct Hin as [E|[]]; subst a0. rewrite Hl in H. brh H. simpl in H. inversion H; subst. simpl. auto.
  - (* CCofactor *)
    destruct Hin as [E|[]]; subst a0. rewrite Hl in H. brh H. simpl in H. inversion H; subst. simpl. auto.
  - (* CSubstitute *)
    destruct Hin as [E|[]]; subst a0. rewrite Hl in H. brh H. destruct s as [si|].
    + brh H. simpl in H. inversion H; subst. simpl. auto.
    + inversion H; subst. simpl. auto.
Qed.

(** [oxidd_zbdd_make_node]: an invalid [var] or [hi] gives INVALID and consumes nothing; an
    invalid [lo] gives INVALID and consumes [hi] (the wrapper took it over before looking at [lo]) *)
Theorem make_node_invalid : forall st d var hi lo oom st' r hv hh hl,
  lookup var (st_funs st) = Some hv -> lookup hi (st_funs st) = Some hh -> lookup lo (st_funs st) = Some hl ->
  hv = HInv \/ hh = HInv \/ hl = HInv ->
  step st (CMakeNode d var hi lo oom) = Done (st', r) ->
  r = RetH HInv /\
  ((hv = HInv \/ hh = HInv) -> st_rs st' = st_rs st /\ st_funs st' = (d, HInv) :: st_funs st).
Proof.
  intros st d var hi lo oom st' r hv hh hl Ev Eh El Hinv H. unfold step in H; cbv zeta in H.
  rewrite Ev, Eh, El in H. destruct (st_kind st); try discriminate H. brh H.
  destruct hv as [|tv]; simpl in H.
  { inversion H; subst. split; [reflexivity|]. intros _. split; reflexivity. }
  destruct hh as [|th]; simpl in H.
  { inversion H; subst. split; [reflexivity|]. intros _. split; reflexivity. }
  destruct hl as [|tl]; simpl in H.
  - brh H. inversion H; subst. split; [reflexivity|]. intros [E|E]; discriminate E.
  - destruct Hinv as [E|[E|E]]; discriminate E.
Qed.

(** ** the table of a returned handle is the Rust API / spec-layer result *)
Theorem ffi_equiv_op1 : forall st o d a ta st' r,
  lookup a (st_funs st) = Some (HVal ta) -> step st (COp1 o d a false) = Done (st', r) ->
  r = RetH (HVal (op1_res (st_nv st) o ta)) /\
  lookup d (st_funs st') = Some (HVal (op1_res (st_nv st) o ta)).
Proof.
  intros st o d a ta st' r Ea H. unfold step in H; cbv zeta in H. rewrite Ea in H. brh H.
  simpl in H. inversion H; subst. simpl. rewrite Nat.eqb_refl. split; reflexivity.
Qed.

Theorem ffi_equiv_op2 : forall st o d a b ta tb st' r,
  lookup a (st_funs st) = Some (HVal ta) -> lookup b (st_funs st) = Some (HVal tb) ->
  step st (COp2 o d a b false) = Done (st', r) ->
  r = RetH (HVal (op2_res (st_nv st) o ta tb)) /\
  lookup d (st_funs st') = Some (HVal (op2_res (st_nv st) o ta tb)).
Proof.
  intros st o d a b ta tb st' r Ea Eb H. unfold step in H; cbv zeta in H. rewrite Ea, Eb in H. brh H.
  simpl in H. inversion H; subst. simpl. rewrite Nat.eqb_refl. split; reflexivity.
Qed.

Theorem ffi_equiv_op3 : forall st o d a b c ta tb tc st' r,
  lookup a (st_funs st) = Some (HVal ta) -> lookup b (st_funs st) = Some (HVal tb) ->
  lookup c (st_funs st) = Some (HVal tc) ->
  step st (COp3 o d a b c false) = Done (st', r) ->
  r = RetH (HVal (op3_res (st_nv st) o ta tb tc)) /\
  lookup d (st_funs st') = Some (HVal (op3_res (st_nv st) o ta tb tc)).
Proof.
  intros st o d a b c ta tb tc st' r Ea Eb Ec H. unfold step in H; cbv zeta in H. rewrite Ea, Eb, Ec in H. brh H.
  simpl in H. inversion H; subst. simpl. rewrite Nat.eqb_refl. split; reflexivity.
Qed.

Theorem ffi_equiv_op0 : forall st o d m st' r,
  step st (COp0 o d m false) = Done (st', r) ->
  r = RetH (HVal (rapi (st_nv st) (op0_rop o) [])).
Proof.
  intros st o d m st' r H. unfold step in H; cbv zeta in H. brh H. brh H.
  assert (E : match o with O0False | O0True | O0Empty | O0Base => false | _ => false end = false)
    by (destruct o; reflexivity).
  rewrite E in H. simpl in H. inversion H; subst. reflexivity.
Qed.

(** the connectives, at the level of Boolean functions: for every assignment [x] the handle
    returned by [oxidd_*_and] etc. evaluates to the connective of its operands' values *)
Theorem ffi_equiv_bin : forall st o d a b ta tb st' r,
  lookup a (st_funs st) = Some (HVal ta) -> lookup b (st_funs st) = Some (HVal tb) ->
  step st (COp2 (O2Bin o) d a b false) = Done (st', r) ->
  exists tr, r = RetH (HVal tr) /\
    forall x, fn (st_nv st) tr x = eval_bop o (fn (st_nv st) ta x) (fn (st_nv st) tb x).
Proof.
  intros st o d a b ta tb st' r Ea Eb H. destruct (ffi_equiv_op2 _ _ _ _ _ _ _ _ _ Ea Eb H) as [Hr _].
  eexists. split; [exact Hr|]. intros x. simpl op2_res. apply rapi_bin.
Qed.

Theorem ffi_equiv_not : forall st d a ta st' r,
  lookup a (st_funs st) = Some (HVal ta) -> step st (COp1 O1Not d a false) = Done (st', r) ->
  exists tr, r = RetH (HVal tr) /\ forall x, fn (st_nv st) tr x = negb (fn (st_nv st) ta x).
Proof.
  intros st d a ta st' r Ea H. destruct (ffi_equiv_op1 _ _ _ _ _ _ _ Ea H) as [Hr _].
  eexists. split; [exact Hr|]. intros x. simpl op1_res. apply rapi_not.
Qed.

Theorem ffi_equiv_ite : forall st d a b c ta tb tc st' r,
  lookup a (st_funs st) = Some (HVal ta) -> lookup b (st_funs st) = Some (HVal tb) ->
  lookup c (st_funs st) = Some (HVal tc) ->
  step st (COp3 O3Ite d a b c false) = Done (st', r) ->
  exists tr, r = RetH (HVal tr) /\
    forall x, fn (st_nv st) tr x = if fn (st_nv st) ta x then fn (st_nv st) tb x else fn (st_nv st) tc x.
Proof.
  intros st d a b c ta tb tc st' r Ea Eb Ec H. destruct (ffi_equiv_op3 _ _ _ _ _ _ _ _ _ _ _ Ea Eb Ec H) as [Hr _].
  eexists. split; [exact Hr|]. intros x. simpl op3_res. apply rapi_ite.
Qed.

(** quantifiers, restriction: the spec-layer function of DD/Sem.v on the cut-down assignment *)
Theorem ffi_equiv_quant : forall st q d a b ta tb st' r,
  lookup a (st_funs st) = Some (HVal ta) -> lookup b (st_funs st) = Some (HVal tb) ->
  step st (COp2 (O2Quant q) d a b false) = Done (st', r) ->
  exists tr, r = RetH (HVal tr) /\
    forall x, fn (st_nv st) tr x
      = quant_of q (support (st_nv st) (fn (st_nv st) tb)) (fn (st_nv st) ta) (trunc (st_nv st) x).
Proof.
  intros st q d a b ta tb st' r Ea Eb H. destruct (ffi_equiv_op2 _ _ _ _ _ _ _ _ _ Ea Eb H) as [Hr _].
  eexists. split; [exact Hr|]. intros x. simpl op2_res. apply rapi_quant.
Qed.

(** ** everything released *)
Definition no_valid_handle (st : state) : Prop :=
  (forall i h, In (i, h) (st_funs st) -> h = HInv) /\
  (forall s sb, In (s, sb) (st_subs st) -> sb_reps sb = []).

Lemma flat_map_nil : forall A B (f : A -> list B) l, (forall x, In x l -> f x = []) -> flat_map f l = [].
Proof.
  intros A B f l. induction l as [|x l IH]; intros H; simpl; [reflexivity|].
  rewrite (H x (or_introl eq_refl)), IH; [reflexivity|]. intros y Hy. apply H. right. exact Hy.
Qed.

(** after any legal sequence: if the client holds no valid function handle any more (all
    unref'ed, substitutions freed or empty), the Rust side holds no function reference, the
    manager's count is the number of manager handles; when those are released too it is 0 *)
Theorem ledger_zero : forall k cs st,
  run (init k) cs = Done st -> no_valid_handle st ->
  r_funs (st_rs st) = [] /\ r_mrc (st_rs st) = length (st_mgrs st) /\
  (st_mgrs st = [] -> st_rs st = mkR 0 []).
Proof.
  intros k cs st H [Hf Hs]. pose proof (run_bal cs (init k) st (bal_init k) H) as [Hp Hc].
  assert (E1 : funs_tabs (st_funs st) = []).
  { unfold funs_tabs. apply flat_map_nil. intros [i h] Hin. rewrite (Hf i h Hin). reflexivity. }
  assert (E2 : subs_tabs (st_subs st) = []).
  { unfold subs_tabs. apply flat_map_nil. intros [s sb] Hin. apply (Hs s sb Hin). }
  rewrite E1, E2 in Hp. simpl in Hp. apply Permutation_sym, Permutation_nil in Hp.
  rewrite Hp in Hc. simpl in Hc. split; [exact Hp|]. split; [lia|].
  intros Em. rewrite Em in Hc. simpl in Hc. destruct (st_rs st) as [mrc fs]. simpl in *. subst. reflexivity.
Qed.

(** connection to the reference-count model of the node store (C05): a manager state whose
    counts are exact, on which a collection has completed, and which has no external handle
    (and no internal owner) stores no inner node *)
Theorem no_handles_no_nodes : forall s,
  WF s -> rc_exact_b s [] = true -> no_dead_b s = true -> s_handles s = [] ->
  forall id, find_node s id = None.
Proof.
  intros s W Hrc Hnd Hh id. destruct (find_node s id) as [nd|] eqn:E; [|reflexivity]. exfalso.
  pose proof (no_dead_reachable s [] W Hrc Hnd id nd E) as R.
  assert (Hroots : handle_refs s ++ map eref [] = []).
  { unfold handle_refs. rewrite Hh. reflexivity. }
  rewrite Hroots in R. clear -R.
  remember (RN id) as x. clear Heqx. induction R as [r Hin | pid pnd e R IH]; [contradiction | exact IH].
Qed.

(** ** cofactors, substitution, make_node *)
Theorem ffi_equiv_cofactors : forall st dt de a t st' r,
  lookup a (st_funs st) = Some (HVal t) -> step st (CCofactors dt de a) = Done (st', r) ->
  r = match cofactors_of (st_kind st) (st_nv st) (st_l2v st) t with
      | Some (ct, ce) => RetHH (HVal ct) (HVal ce)
      | None => RetHH HInv HInv
      end.
Proof.
  intros st dt de a t st' r Ea H. unfold step in H; cbv zeta in H. rewrite Ea in H. brh H. simpl in H.
  destruct (cofactors_of (st_kind st) (st_nv st) (st_l2v st) t) as [[ct ce]|]; inversion H; reflexivity.
Qed.

Theorem ffi_equiv_cofactor : forall st hi d a t st' r,
  lookup a (st_funs st) = Some (HVal t) -> step st (CCofactor hi d a) = Done (st', r) ->
  r = match cofactors_of (st_kind st) (st_nv st) (st_l2v st) t with
      | Some (ct, ce) => RetH (HVal (if hi then ct else ce))
      | None => RetH HInv
      end.
Proof.
  intros st hi d a t st' r Ea H. unfold step in H; cbv zeta in H. rewrite Ea in H. brh H. simpl in H.
  destruct (cofactors_of (st_kind st) (st_nv st) (st_l2v st) t) as [[ct ce]|]; inversion H; reflexivity.
Qed.

(** the children returned are the Shannon cofactors w.r.t. the top variable (BDD / BCDD), resp.
    subset1 / subset0 w.r.t. the top variable (ZBDD) *)
Theorem cofactors_of_spec : forall k n l2v t ct ce,
  cofactors_of k n l2v t = Some (ct, ce) ->
  exists v, top_var n k l2v (fn n t) = Some v /\
    (forall x, fn n ct x = child_s k (fn n t) v true (trunc n x)) /\
    (forall x, fn n ce x = child_s k (fn n t) v false (trunc n x)).
Proof.
  intros k n l2v t ct ce H. unfold cofactors_of in H.
  destruct (top_var n k l2v (fn n t)) as [v|]; [|discriminate H]. inversion H; subst.
  exists v. split; [reflexivity|]. split; intros x; apply fn_tab.
Qed.

Theorem ffi_equiv_substitute : forall st d a s sb ta st' r,
  lookup a (st_funs st) = Some (HVal ta) -> lookup s (st_subs st) = Some sb ->
  step st (CSubstitute d a (Some s) false) = Done (st', r) ->
  exists tr, r = RetH (HVal tr) /\
    forall x, fn (st_nv st) tr x
      = subst_s (combine (sb_vars sb) (map (fn (st_nv st)) (sb_reps sb))) (fn (st_nv st) ta) (trunc (st_nv st) x).
Proof.
  intros st d a s sb ta st' r Ea Es H. unfold step in H; cbv zeta in H. rewrite Ea, Es in H. brh H.
  simpl in H. inversion H; subst. eexists. split; [reflexivity|]. intros x. apply rapi_subst.
Qed.

Theorem ffi_equiv_make_node : forall st d var hi lo tv th tl st' r,
  lookup var (st_funs st) = Some (HVal tv) -> lookup hi (st_funs st) = Some (HVal th) ->
  lookup lo (st_funs st) = Some (HVal tl) ->
  step st (CMakeNode d var hi lo false) = Done (st', r) ->
  exists v tr, singleton_var (st_nv st) tv = Some v /\ r = RetH (HVal tr) /\
    (forall x, fn (st_nv st) tr x = mknode_s v (fn (st_nv st) th) (fn (st_nv st) tl) (trunc (st_nv st) x)) /\
    (* hi and lo have left the client's ownership, var has not *)
    st_funs st' = (d, HVal tr) :: remove_slot lo (remove_slot hi (st_funs st)).
Proof.
  intros st d var hi lo tv th tl st' r Ev Eh El H. unfold step in H; cbv zeta in H.
  rewrite Ev, Eh, El in H. destruct (st_kind st); try discriminate H. brh H.
  simpl c_get in H. cbv iota in H.
  destruct (singleton_var (st_nv st) tv) as [v|]; [|discriminate H]. brh H. brh H. brh H.
  simpl in H. inversion H; subst; clear H. exists v. eexists. split; [reflexivity|]. split; [reflexivity|].
  split; [intros x; apply rapi_spec; reflexivity | reflexivity].
Qed.
