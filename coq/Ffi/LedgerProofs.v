(** * C19 — the ledger theorems (part 1: ownership)

    [bal]: the Rust side and the client's ledger agree —
      - the bag of live [Function] values is exactly the bag of valid handles the
        client owns (in handle slots and inside substitution objects),
      - the manager's strong count is the number of manager handles plus the
        number of live [Function] values.
    It holds initially, every documented-legal call preserves it
    ([step_bal]), and under it no call makes the wrapper code drop a dead value
    or touch a destroyed manager ([step_no_ub]). *)

From Coq Require Import List Bool Arith NArith Lia Permutation.
From OxiVerif Require Import DD.Sem Ffi.Spec Ffi.Ledger.
Import ListNotations.

(** ** bags *)
Lemma tt_eqb_eq : forall a b, tt_eqb a b = true <-> a = b.
Proof. intros a b. unfold tt_eqb. destruct (tt_eq_dec a b); split; intros; congruence. Qed.

Lemma mem_In : forall t l, mem t l = true <-> In t l.
Proof.
  intros t l. unfold mem. rewrite existsb_exists. split.
  - intros [x [Hin He]]. apply tt_eqb_eq in He. subst. exact Hin.
  - intros Hin. exists t. split; [exact Hin | apply tt_eqb_eq; reflexivity].
Qed.

Lemma remove1_perm : forall t l, In t l -> Permutation l (t :: remove1 t l).
Proof.
  intros t l. induction l as [|x l IH]; intros Hin; [contradiction|].
  simpl. destruct (tt_eq_dec x t) as [E|N].
  - subst. apply Permutation_refl.
  - destruct Hin as [E|Hin]; [congruence|].
    apply perm_trans with (x :: t :: remove1 t l); [apply perm_skip, IH, Hin | apply perm_swap].
Qed.

Lemma lookup_perm : forall A i (l : list (nat * A)) x,
  lookup i l = Some x -> Permutation l ((i, x) :: remove_slot i l).
Proof.
  intros A i l. induction l as [|[j y] l IH]; intros x H; simpl in H; [discriminate|].
  simpl. destruct (Nat.eqb_spec j i) as [E|N].
  - inversion H; subst. apply Permutation_refl.
  - apply perm_trans with ((j, y) :: (i, x) :: remove_slot i l); [apply perm_skip, IH, H | apply perm_swap].
Qed.

Lemma lookup_In : forall A i (l : list (nat * A)) x, lookup i l = Some x -> In (i, x) l.
Proof.
  intros A i l x H. apply (Permutation_in (l:=(i, x) :: remove_slot i l)).
  - apply Permutation_sym, lookup_perm, H.
  - left; reflexivity.
Qed.

Lemma remove_nat_length : forall m l,
  existsb (Nat.eqb m) l = true -> length l = S (length (remove_nat m l)).
Proof.
  intros m l. induction l as [|x l IH]; simpl; intros H; [discriminate|].
  rewrite (Nat.eqb_sym x m). destruct (Nat.eqb m x); [reflexivity|].
  simpl in H. simpl. rewrite IH by exact H. reflexivity.
Qed.

(** ** the invariant, on the four components it talks about *)
Definition funs_tabs (fs : list (nat * handle)) : list tt := flat_map (fun p => handle_tabs (snd p)) fs.
Definition subs_tabs (ss : list (nat * subst_obj)) : list tt := flat_map (fun p => sb_reps (snd p)) ss.

Definition bal (rs : rside) (ms : list nat) (fs : list (nat * handle)) (ss : list (nat * subst_obj)) : Prop :=
  Permutation (r_funs rs) (funs_tabs fs ++ subs_tabs ss) /\
  r_mrc rs = length ms + length (r_funs rs).

Definition balanced (st : state) : Prop := bal (st_rs st) (st_mgrs st) (st_funs st) (st_subs st).

Lemma ledger_funs_eq : forall st, ledger_funs st = funs_tabs (st_funs st) ++ subs_tabs (st_subs st).
Proof. reflexivity. Qed.

(** effect of obtaining / giving up a handle on the Rust side *)
Definition push_handle (h : handle) (rs : rside) : rside :=
  match h with HVal t => fun_new t rs | HInv => rs end.

Lemma bal_init : forall k, balanced (init k).
Proof. intros k. split; simpl; [apply perm_nil | reflexivity]. Qed.

Lemma bal_push : forall rs ms fs ss d h,
  bal rs ms fs ss -> bal (push_handle h rs) ms ((d, h) :: fs) ss.
Proof.
  intros rs ms fs ss d h [Hp Hc]. destruct h as [|t]; simpl.
  - split; assumption.
  - split; simpl; [apply perm_skip, Hp | rewrite Hc; lia].
Qed.

Lemma funs_tabs_In : forall fs i t, In (i, HVal t) fs -> In t (funs_tabs fs).
Proof.
  intros fs i t Hin. unfold funs_tabs. apply in_flat_map. exists (i, HVal t). split; [exact Hin | left; reflexivity].
Qed.

Lemma bal_live : forall rs ms fs ss i t,
  bal rs ms fs ss -> lookup i fs = Some (HVal t) -> In t (r_funs rs).
Proof.
  intros rs ms fs ss i t [Hp _] H. apply (Permutation_in (l:=funs_tabs fs ++ subs_tabs ss)).
  - apply Permutation_sym, Hp.
  - apply in_or_app. left. eapply funs_tabs_In, lookup_In, H.
Qed.

Lemma bal_live_mem : forall rs ms fs ss i t,
  bal rs ms fs ss -> lookup i fs = Some (HVal t) -> mem t (r_funs rs) = true.
Proof. intros. apply mem_In. eapply bal_live; eauto. Qed.

Lemma fun_drop_ok : forall rs ms fs ss t,
  bal rs ms fs ss -> In t (r_funs rs) ->
  fun_drop t rs = Some (mkR (pred (r_mrc rs)) (remove1 t (r_funs rs))) /\ r_mrc rs <> 0.
Proof.
  intros rs ms fs ss t [Hp Hc] Hin. unfold fun_drop.
  rewrite (proj2 (mem_In _ _) Hin).
  destruct (r_funs rs) as [|x l] eqn:E; [contradiction|].
  rewrite Hc. simpl length. rewrite Nat.add_succ_r. simpl. split; [reflexivity | lia].
Qed.

(** giving up a function handle slot *)
Lemma bal_pop : forall rs ms fs ss i h,
  bal rs ms fs ss -> lookup i fs = Some h ->
  exists rs',
    (match h with HVal t => fun_drop t rs | HInv => Some rs end) = Some rs' /\
    bal rs' ms (remove_slot i fs) ss.
Proof.
  intros rs ms fs ss i h B H. destruct h as [|t].
  - exists rs. split; [reflexivity|]. destruct B as [Hp Hc]. split; [|exact Hc].
    apply perm_trans with (1 := Hp). apply Permutation_app_tail.
    unfold funs_tabs. apply perm_trans with (flat_map (fun p => handle_tabs (snd p)) ((i, HInv) :: remove_slot i fs)).
    + apply Permutation_flat_map, lookup_perm, H.
    + simpl. apply Permutation_refl.
  - pose proof (bal_live _ _ _ _ _ _ B H) as Hin.
    destruct (fun_drop_ok _ _ _ _ _ B Hin) as [Hd Hnz]. rewrite Hd. eexists. split; [reflexivity|].
    destruct B as [Hp Hc]. split; simpl.
    + assert (Hp2 : Permutation (t :: remove1 t (r_funs rs)) (t :: (funs_tabs (remove_slot i fs) ++ subs_tabs ss))).
      { apply perm_trans with (r_funs rs); [apply Permutation_sym, remove1_perm, Hin|].
        apply perm_trans with (1 := Hp).
        change (t :: funs_tabs (remove_slot i fs) ++ subs_tabs ss)
          with ((funs_tabs ((i, HVal t) :: remove_slot i fs)) ++ subs_tabs ss).
        apply Permutation_app_tail. unfold funs_tabs. apply Permutation_flat_map, lookup_perm, H. }
      apply Permutation_cons_inv in Hp2. exact Hp2.
    + pose proof (Permutation_length (remove1_perm _ _ Hin)) as Hl. simpl in Hl. lia.
Qed.

(** manager handles *)
Lemma bal_mgr_push : forall rs ms fs ss d,
  bal rs ms fs ss -> bal (mref_clone rs) (d :: ms) fs ss.
Proof. intros rs ms fs ss d [Hp Hc]. split; simpl; [exact Hp | lia]. Qed.

Lemma bal_mgr_pop : forall rs ms fs ss m,
  bal rs ms fs ss -> existsb (Nat.eqb m) ms = true ->
  exists rs', mref_drop rs = Some rs' /\ bal rs' (remove_nat m ms) fs ss.
Proof.
  intros rs ms fs ss m [Hp Hc] Hm. pose proof (remove_nat_length _ _ Hm) as Hl.
  unfold mref_drop. destruct (r_mrc rs) as [|k] eqn:E; [lia|].
  eexists. split; [reflexivity|]. split; simpl; [exact Hp | lia].
Qed.

Lemma bal_mrc_pos : forall rs ms fs ss m,
  bal rs ms fs ss -> existsb (Nat.eqb m) ms = true -> r_mrc rs <> 0.
Proof. intros rs ms fs ss m [_ Hc] Hm. pose proof (remove_nat_length _ _ Hm). lia. Qed.

(** the wrappers [op1] / [op2] / [op3]: the result is pushed, nothing else changes *)
Lemma api_push : forall oom t rs rs' x, api oom t rs = (rs', x) -> rs' = push_handle (c_into x) rs.
Proof. intros oom t rs rs' x H. unfold api in H. destruct oom; inversion H; reflexivity. Qed.

Lemma c_op1_push : forall oom res f rs rs' h, c_op1 oom res f rs = (rs', h) -> rs' = push_handle h rs.
Proof.
  intros oom res f rs rs' h H. unfold c_op1 in H. destruct (c_get f); [|inversion H; reflexivity].
  destruct (api oom (res t) rs) as [s x] eqn:E. inversion H; subst. eapply api_push, E.
Qed.

Lemma c_op2_push : forall oom res a b rs rs' h, c_op2 oom res a b rs = (rs', h) -> rs' = push_handle h rs.
Proof.
  intros oom res a b rs rs' h H. unfold c_op2 in H.
  destruct (c_get a); [|inversion H; reflexivity]. destruct (c_get b); [|inversion H; reflexivity].
  destruct (api oom (res t t0) rs) as [s x] eqn:E. inversion H; subst. eapply api_push, E.
Qed.

Lemma c_op3_push : forall oom res a b c rs rs' h, c_op3 oom res a b c rs = (rs', h) -> rs' = push_handle h rs.
Proof.
  intros oom res a b c rs rs' h H. unfold c_op3 in H.
  destruct (c_get a); [|inversion H; reflexivity]. destruct (c_get b); [|inversion H; reflexivity].
  destruct (c_get c); [|inversion H; reflexivity].
  destruct (api oom (res t t0 t1) rs) as [s x] eqn:E. inversion H; subst. eapply api_push, E.
Qed.

(** substitution objects *)
Lemma bal_subs_perm : forall rs ms fs ss ss',
  bal rs ms fs ss -> Permutation (subs_tabs ss) (subs_tabs ss') -> bal rs ms fs ss'.
Proof.
  intros rs ms fs ss ss' [Hp Hc] H. split; [|exact Hc].
  apply perm_trans with (1 := Hp). apply Permutation_app_head, H.
Qed.

Lemma subs_tabs_lookup : forall ss s sb,
  lookup s ss = Some sb -> Permutation (subs_tabs ss) (sb_reps sb ++ subs_tabs (remove_slot s ss)).
Proof.
  intros ss s sb H. unfold subs_tabs.
  apply perm_trans with (flat_map (fun p => sb_reps (snd p)) ((s, sb) :: remove_slot s ss)).
  - apply Permutation_flat_map, lookup_perm, H.
  - apply Permutation_refl.
Qed.

Lemma bal_subst_add : forall rs ms fs ss s sb v t,
  bal rs ms fs ss -> lookup s ss = Some sb ->
  bal (fun_new t rs) ms fs ((s, mkSub (sb_vars sb ++ [v]) (sb_reps sb ++ [t]) false) :: remove_slot s ss).
Proof.
  intros rs ms fs ss s sb v t [Hp Hc] H. split; simpl; [|rewrite Hc; lia].
  apply perm_trans with (t :: (funs_tabs fs ++ subs_tabs ss)); [apply perm_skip, Hp|].
  apply perm_trans with (funs_tabs fs ++ t :: subs_tabs ss); [apply Permutation_middle|].
  apply Permutation_app_head. unfold subs_tabs at 2. simpl. fold (subs_tabs (remove_slot s ss)).
  rewrite <- app_assoc. simpl.
  apply perm_trans with (t :: sb_reps sb ++ subs_tabs (remove_slot s ss)); [apply perm_skip, subs_tabs_lookup, H|].
  apply Permutation_middle.
Qed.

Lemma bal_subst_used : forall rs ms fs ss s sb,
  bal rs ms fs ss -> lookup s ss = Some sb ->
  bal rs ms fs ((s, mkSub (sb_vars sb) (sb_reps sb) true) :: remove_slot s ss).
Proof.
  intros rs ms fs ss s sb B H. eapply bal_subs_perm; [exact B|].
  apply perm_trans with (1 := subs_tabs_lookup _ _ _ H). apply Permutation_refl.
Qed.

(** dropping a list of live values one after the other *)
Lemma bal_funs_drop : forall ts rs (ms : list nat) fs rest,
  Permutation (r_funs rs) (funs_tabs fs ++ ts ++ rest) ->
  r_mrc rs = length ms + length (r_funs rs) ->
  exists rs', funs_drop ts rs = Some rs' /\
    Permutation (r_funs rs') (funs_tabs fs ++ rest) /\ r_mrc rs' = length ms + length (r_funs rs').
Proof.
  induction ts as [|t ts IH]; intros rs ms fs rest Hp Hc; simpl.
  - exists rs. auto.
  - assert (Hin : In t (r_funs rs)).
    { apply (Permutation_in (l:=funs_tabs fs ++ (t :: ts) ++ rest)); [apply Permutation_sym, Hp|].
      apply in_or_app. right. left. reflexivity. }
    unfold fun_drop. rewrite (proj2 (mem_In _ _) Hin).
    destruct (r_mrc rs) as [|k] eqn:E.
    { destruct (r_funs rs); [contradiction | simpl in Hc; lia]. }
    apply IH; simpl.
    + assert (H2 : Permutation (t :: remove1 t (r_funs rs)) (t :: (funs_tabs fs ++ ts ++ rest))).
      { apply perm_trans with (r_funs rs); [apply Permutation_sym, remove1_perm, Hin|].
        apply perm_trans with (1 := Hp). apply Permutation_sym, Permutation_middle. }
      apply Permutation_cons_inv in H2. exact H2.
    + pose proof (Permutation_length (remove1_perm _ _ Hin)) as Hl. simpl in Hl. lia.
Qed.

Lemma bal_subst_free : forall rs ms fs ss s sb,
  bal rs ms fs ss -> lookup s ss = Some sb ->
  exists rs', funs_drop (sb_reps sb) rs = Some rs' /\ bal rs' ms fs (remove_slot s ss).
Proof.
  intros rs ms fs ss s sb [Hp Hc] H.
  destruct (bal_funs_drop (sb_reps sb) rs ms fs (subs_tabs (remove_slot s ss))) as [rs' [Hd [Hp' Hc']]].
  - apply perm_trans with (1 := Hp). apply Permutation_app_head, subs_tabs_lookup, H.
  - exact Hc.
  - exists rs'. split; [exact Hd | split; assumption].
Qed.

(** import: one owned handle per root *)
Lemma bal_import : forall ds ts rs ms fs ss rs' fs',
  bal rs ms fs ss -> import_funs ds ts rs fs = (rs', fs') -> bal rs' ms fs' ss.
Proof.
  induction ds as [|d ds IH]; intros ts rs ms fs ss rs' fs' B H; simpl in H.
  - inversion H; subst. exact B.
  - destruct ts as [|t ts]; [inversion H; subst; exact B|].
    eapply IH; [|exact H]. apply (bal_push rs ms fs ss d (HVal t)), B.
Qed.

(** add_vars: every table is re-indexed by the same injective map *)
Lemma funs_tabs_map : forall g fs,
  funs_tabs (map (fun p => (fst p, map_handle g (snd p))) fs) = map g (funs_tabs fs).
Proof.
  intros g fs. unfold funs_tabs. induction fs as [|[i h] fs IH]; simpl; [reflexivity|].
  rewrite IH, map_app. destruct h; reflexivity.
Qed.

Lemma subs_tabs_map : forall g ss,
  subs_tabs (map (fun p => (fst p, mkSub (sb_vars (snd p)) (map g (sb_reps (snd p))) (sb_used (snd p)))) ss)
  = map g (subs_tabs ss).
Proof.
  intros g ss. unfold subs_tabs. induction ss as [|[i sb] ss IH]; simpl; [reflexivity|].
  rewrite IH, map_app. reflexivity.
Qed.

Lemma bal_add_vars : forall st cnt, balanced st -> balanced (add_vars st cnt).
Proof.
  intros st cnt [Hp Hc]. unfold balanced, add_vars, bal. simpl.
  rewrite funs_tabs_map, subs_tabs_map, <- map_app, map_length. split; [apply Permutation_map, Hp | exact Hc].
Qed.
