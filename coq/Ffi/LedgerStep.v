(** * C19 — the ledger theorems (part 2: every call preserves the balance, no call is UB) *)

From Coq Require Import List Bool Arith NArith Lia Permutation.
From OxiVerif Require Import DD.Sem Ffi.Spec Ffi.Ledger Ffi.LedgerProofs.
Import ListNotations.

(** what a call may do from a balanced state: it is rejected as illegal, or it is
    performed and leaves a balanced state; the Rust side never gets stuck *)
Definition ok_out (o : outcome (state * ret)) : Prop :=
  match o with
  | Done (st', _) => balanced st'
  | UB => False
  | Illegal => True
  end.

Ltac brk :=
  match goal with
  | |- ok_out (match ?x with _ => _ end) => destruct x eqn:?
  | |- ok_out (let (_, _) := ?x in _) => destruct x eqn:?
  end.

Ltac start := intros; unfold step; cbv zeta.
Ltac fin := unfold ok_out, balanced, set_funs, set_mgrs, set_subs, set_rs; simpl.

Lemma and_true : forall a b, a && b = true -> a = true /\ b = true.
Proof. intros a b H. apply andb_true_iff in H. exact H. Qed.

Lemma step_mgr_new : forall st d, balanced st -> ok_out (step st (CMgrNew d)).
Proof.
  start. brk; [|exact I]. fin. destruct H as [Hp Hc].
  assert (E : r_funs (st_rs st) = []) by (destruct (r_funs (st_rs st)); [reflexivity | simpl in Hc; lia]).
  rewrite E in Hp. split; [exact Hp | reflexivity].
Qed.

Lemma step_mgr_ref : forall st d m, balanced st -> ok_out (step st (CMgrRef d m)).
Proof. start. brk; [|exact I]. fin. apply bal_mgr_push, H. Qed.

Lemma step_mgr_unref : forall st m, balanced st -> ok_out (step st (CMgrUnref m)).
Proof.
  start. brk; [|exact I].
  destruct (bal_mgr_pop _ _ _ _ m H Heqb) as [rs' [E B]]. rewrite E. fin. exact B.
Qed.

Lemma step_containing : forall st d f, balanced st -> ok_out (step st (CContaining d f)).
Proof.
  start. brk; [|exact I]. brk; [exact I|]. brk; [|exact I].
  rewrite (bal_live_mem _ _ _ _ _ _ H Heqo). fin. apply bal_mgr_push, H.
Qed.

Lemma step_add_vars : forall st m k, balanced st -> ok_out (step st (CAddVars m k)).
Proof. start. brk; [|exact I]. unfold ok_out. apply bal_add_vars, H. Qed.

Lemma step_set_order : forall st m o, balanced st -> ok_out (step st (CSetOrder m o)).
Proof. start. brk; [|exact I]. brk; [exact H|]. brk; [|exact I]. fin. exact H. Qed.

Lemma step_mgr_other : forall st m, balanced st -> ok_out (step st (CMgrOther m)).
Proof.
  start. brk; [|exact I]. brk; [|exact H].
  exfalso. eapply bal_mrc_pos; [exact H | exact Heqb | exact Heqn].
Qed.

Lemma step_export : forall st m fs, balanced st -> ok_out (step st (CExport m fs)).
Proof. start. brk; [|exact I]. brk; [exact H | exact I]. Qed.

Lemma step_round_trip : forall st m ds srcs ok, balanced st -> ok_out (step st (CRoundTrip m ds srcs ok)).
Proof.
  start. brk; [|exact I]. brk; [|exact I]. brk; [|exact H]. brk; [|exact H]. brk.
  fin. eapply bal_import; [exact H | exact Heqp].
Qed.

Lemma step_invalid : forall st d, balanced st -> ok_out (step st (CInvalid d)).
Proof. start. brk; [|exact I]. fin. apply (bal_push _ _ _ _ d HInv), H. Qed.

Lemma step_ref : forall st d f, balanced st -> ok_out (step st (CRef d f)).
Proof.
  start. brk; [|exact I]. brk; [|exact I]. destruct h as [|t]; simpl.
  - fin. apply (bal_push _ _ _ _ d HInv), H.
  - rewrite (bal_live_mem _ _ _ _ _ _ H Heqo). fin. apply (bal_push _ _ _ _ d (HVal t)), H.
Qed.

Lemma step_unref : forall st f, balanced st -> ok_out (step st (CUnref f)).
Proof.
  start. brk; [|exact I]. destruct (bal_pop _ _ _ _ f h H Heqo) as [rs' [E B]].
  destruct h as [|t]; simpl.
  - inversion E; subst. fin. exact B.
  - rewrite E. fin. exact B.
Qed.

Lemma step_op0 : forall st o d m oom, balanced st -> ok_out (step st (COp0 o d m oom)).
Proof.
  start. brk; [|exact I]. apply and_true in Heqb. destruct Heqb as [Hb _]. apply and_true in Hb. destruct Hb as [Hm _].
  brk.
  - exfalso. eapply bal_mrc_pos; [exact H | exact Hm | exact Heqn].
  - brk. fin. rewrite (api_push _ _ _ _ _ Heqp). apply bal_push, H.
Qed.

Lemma step_op1 : forall st o d a oom, balanced st -> ok_out (step st (COp1 o d a oom)).
Proof.
  start. brk; [|exact I]. brk; [|exact I]. brk. fin.
  rewrite (c_op1_push _ _ _ _ _ _ Heqp). apply bal_push, H.
Qed.

Lemma step_op2 : forall st o d a b oom, balanced st -> ok_out (step st (COp2 o d a b oom)).
Proof.
  start. brk; [|exact I]. brk; [|exact I]. brk; [|exact I]. brk. fin.
  rewrite (c_op2_push _ _ _ _ _ _ _ Heqp). apply bal_push, H.
Qed.

Lemma step_op3 : forall st o d a b c oom, balanced st -> ok_out (step st (COp3 o d a b c oom)).
Proof.
  start. brk; [|exact I]. brk; [|exact I]. brk; [|exact I]. brk; [|exact I]. brk. fin.
  rewrite (c_op3_push _ _ _ _ _ _ _ _ Heqp). apply bal_push, H.
Qed.

Lemma step_cofactors : forall st dt de a, balanced st -> ok_out (step st (CCofactors dt de a)).
Proof.
  start. brk; [|exact I]. brk; [|exact I].
  assert (Hinv : bal (st_rs st) (st_mgrs st) ((de, HInv) :: (dt, HInv) :: st_funs st) (st_subs st)).
  { apply (bal_push _ _ _ _ de HInv), (bal_push _ _ _ _ dt HInv), H. }
  brk; [|fin; exact Hinv]. brk; [|fin; exact Hinv]. brk. fin.
  apply (bal_push _ _ _ _ de (HVal t1)), (bal_push _ _ _ _ dt (HVal t0)), H.
Qed.

Lemma step_cofactor : forall st hi d a, balanced st -> ok_out (step st (CCofactor hi d a)).
Proof.
  start. brk; [|exact I]. brk; [|exact I].
  brk; [|fin; apply (bal_push _ _ _ _ d HInv), H]. brk; [|fin; apply (bal_push _ _ _ _ d HInv), H]. brk. fin.
  apply (bal_push _ _ _ _ d (HVal (if hi then t0 else t1))), H.
Qed.

Lemma lookup_remove_other : forall A i j (l : list (nat * A)) x,
  i <> j -> lookup i l = Some x -> lookup i (remove_slot j l) = Some x.
Proof.
  intros A i j l. induction l as [|[k y] l IH]; intros x N H; simpl in *; [discriminate|].
  destruct (Nat.eqb_spec k j) as [E|Nj].
  - subst. destruct (Nat.eqb_spec j i); [congruence | exact H].
  - simpl. destruct (Nat.eqb k i); [exact H | apply IH; assumption].
Qed.

Lemma step_make_node : forall st d var hi lo oom, balanced st -> ok_out (step st (CMakeNode d var hi lo oom)).
Proof.
  start. destruct (st_kind st); try exact I.
  destruct (lookup var (st_funs st)) as [hv|] eqn:Ev; [|exact I].
  destruct (lookup hi (st_funs st)) as [hh|] eqn:Eh; [|exact I].
  destruct (lookup lo (st_funs st)) as [hl|] eqn:El; [|exact I].
  brk; [|exact I].
  apply and_true in Heqb. destruct Heqb as [Hb Hvl]. apply and_true in Hb. destruct Hb as [Hb Hvh].
  apply and_true in Hb. destruct Hb as [_ Hhl].
  apply negb_true_iff, Nat.eqb_neq in Hhl.
  destruct (c_get hv) as [tv|] eqn:Gv; [|fin; apply (bal_push _ _ _ _ d HInv), H].
  destruct hh as [|th]; simpl c_get; cbv iota; [fin; apply (bal_push _ _ _ _ d HInv), H|].
  destruct (bal_pop _ _ _ _ hi (HVal th) H Eh) as [rs1 [E1 B1]]. simpl in E1.
  destruct hl as [|tl]; simpl c_get; cbv iota.
  - (* lo invalid: hi was taken over and is dropped *)
    rewrite E1. fin. apply (bal_push _ _ _ _ d HInv), B1.
  - brk; [|exact I]. brk; [|exact I]. rewrite E1.
    assert (Hlo : lookup lo (remove_slot hi (st_funs st)) = Some (HVal tl))
      by (apply lookup_remove_other; [congruence | exact El]).
    destruct (bal_pop _ _ _ _ lo (HVal tl) B1 Hlo) as [rs2 [E2 B2]]. simpl in E2. rewrite E2.
    brk. fin. rewrite (api_push _ _ _ _ _ Heqp). apply bal_push, B2.
Qed.

Lemma step_subst_new : forall st s, balanced st -> ok_out (step st (CSubstNew s)).
Proof.
  start. brk; [|exact I]. fin. eapply bal_subs_perm; [exact H|]. apply Permutation_refl.
Qed.

Lemma step_subst_add : forall st s v f, balanced st -> ok_out (step st (CSubstAdd s v f)).
Proof.
  start. brk; [|exact I]. brk; [|exact I]. brk; [exact I|]. brk; [|exact I].
  rewrite (bal_live_mem _ _ _ _ _ _ H Heqo0). fin. apply bal_subst_add; assumption.
Qed.

Lemma step_subst_free : forall st s, balanced st -> ok_out (step st (CSubstFree s)).
Proof.
  start. brk; [|exact I]. destruct (bal_subst_free _ _ _ _ s s0 H Heqo) as [rs' [E B]].
  rewrite E. fin. exact B.
Qed.

Lemma step_substitute : forall st d a s oom, balanced st -> ok_out (step st (CSubstitute d a s oom)).
Proof.
  start. brk; [|exact I]. brk; [|exact I]. brk; [|fin; apply (bal_push _ _ _ _ d HInv), H].
  brk; [|exact I]. brk. fin. rewrite (c_op1_push _ _ _ _ _ _ Heqp).
  apply bal_push. apply bal_subst_used; assumption.
Qed.

Lemma step_query : forall st q a, balanced st -> ok_out (step st (CQuery q a)).
Proof.
  start. brk; [|exact I]. brk.
  - destruct q; first [exact I | exact H].
  - brk; [|exact I]. rewrite (bal_live_mem _ _ _ _ _ _ H Heqo). exact H.
Qed.

(** ** every call *)
Theorem step_ok : forall st c, balanced st -> ok_out (step st c).
Proof.
  intros st c B. destruct c.
  - apply step_mgr_new, B.
  - apply step_mgr_ref, B.
  - apply step_mgr_unref, B.
  - apply step_containing, B.
  - apply step_add_vars, B.
  - apply step_set_order, B.
  - apply step_mgr_other, B.
  - apply step_export, B.
  - apply step_round_trip, B.
  - apply step_invalid, B.
  - apply step_ref, B.
  - apply step_unref, B.
  - apply step_op0, B.
  - apply step_op1, B.
  - apply step_op2, B.
  - apply step_op3, B.
  - apply step_cofactors, B.
  - apply step_cofactor, B.
  - apply step_make_node, B.
  - apply step_subst_new, B.
  - apply step_subst_add, B.
  - apply step_subst_free, B.
  - apply step_substitute, B.
  - apply step_query, B.
Qed.

Theorem step_bal : forall st c st' r, balanced st -> step st c = Done (st', r) -> balanced st'.
Proof. intros st c st' r B H. pose proof (step_ok st c B) as O. rewrite H in O. exact O. Qed.

Theorem step_no_ub : forall st c, balanced st -> step st c <> UB.
Proof. intros st c B H. pose proof (step_ok st c B) as O. rewrite H in O. exact O. Qed.

(** ** call sequences *)
Theorem run_bal : forall cs st st', balanced st -> run st cs = Done st' -> balanced st'.
Proof.
  induction cs as [|c cs IH]; intros st st' B H; simpl in H.
  - inversion H; subst. exact B.
  - destruct (step st c) as [[st1 r]| |] eqn:E; try discriminate.
    apply (IH st1 st'); [eapply step_bal; eauto | exact H].
Qed.

Theorem run_no_ub : forall cs st, balanced st -> run st cs <> UB.
Proof.
  induction cs as [|c cs IH]; intros st B; simpl; [discriminate|].
  destruct (step st c) as [[st1 r]| |] eqn:E.
  - apply IH. eapply step_bal; eauto.
  - exfalso. eapply step_no_ub; eauto.
  - discriminate.
Qed.

(** from the initial state: after any sequence of documented-legal calls, for every
    function the number of references the Rust side holds equals the number of valid
    handles for it in the client's ledger, and the manager's count is the number of
    manager handles plus the number of live function values *)
Theorem ledger_balanced : forall k cs st,
  run (init k) cs = Done st ->
  (forall t, count_occ tt_eq_dec (r_funs (st_rs st)) t = count_occ tt_eq_dec (ledger_funs st) t) /\
  r_mrc (st_rs st) = length (st_mgrs st) + length (ledger_funs st).
Proof.
  intros k cs st H. pose proof (run_bal cs (init k) st (bal_init k) H) as [Hp Hc].
  split.
  - intros t. rewrite ledger_funs_eq. apply (Permutation_count_occ tt_eq_dec). exact Hp.
  - rewrite Hc, ledger_funs_eq, (Permutation_length Hp). reflexivity.
Qed.

Theorem ledger_no_ub : forall k cs, run (init k) cs <> UB.
Proof. intros k cs. apply run_no_ub, bal_init. Qed.
