(** * C19 — the ledger theorems (part 3: what a single call does; tables vs. the spec layer) *)

From Coq Require Import List Bool Arith NArith Lia Permutation.
From OxiVerif Require Import DD.Sem Ffi.Spec Ffi.Ledger Ffi.LedgerProofs Ffi.LedgerStep.
Import ListNotations.

(** ** value tables and the functions they stand for *)
Lemma tab_length : forall n f, length (tab n f) = 2 ^ n.
Proof.
  induction n as [|k IH]; intros f; simpl; [reflexivity|].
  rewrite app_length, !IH. lia.
Qed.

Lemma firstn_len_app : forall A (l1 l2 : list A) m, length l1 = m -> firstn m (l1 ++ l2) = l1.
Proof.
  intros A l1. induction l1 as [|x l1 IH]; intros l2 m H; simpl in H; subst m; simpl; [reflexivity|].
  rewrite IH; reflexivity.
Qed.

Lemma skipn_len_app : forall A (l1 l2 : list A) m, length l1 = m -> skipn m (l1 ++ l2) = l2.
Proof.
  intros A l1. induction l1 as [|x l1 IH]; intros l2 m H; simpl in H; subst m; simpl; [reflexivity|].
  apply IH; reflexivity.
Qed.

(** the table of [f] read at [a] is [f] on [a] cut down to the [n] variables *)
Theorem fn_tab : forall n f a, fn n (tab n f) a = f (trunc n a).
Proof.
  unfold fn. induction n as [|k IH]; intros f a; simpl get; simpl tab.
  - reflexivity.
  - destruct (a k) eqn:E.
    + rewrite skipn_len_app by apply tab_length. rewrite IH. unfold cof. simpl trunc. rewrite E. reflexivity.
    + rewrite firstn_len_app by apply tab_length. rewrite IH. unfold cof. simpl trunc. rewrite E. reflexivity.
Qed.

Lemma get_ext : forall n t a b, (forall v, v < n -> a v = b v) -> get n t a = get n t b.
Proof.
  induction n as [|k IH]; intros t a b H; simpl; [reflexivity|].
  rewrite <- (H k) by lia. destruct (a k); apply IH; intros v Hv; apply H; lia.
Qed.

Lemma trunc_lt : forall n a v, v < n -> trunc n a v = a v.
Proof.
  induction n as [|k IH]; intros a v H; [lia|]. simpl. unfold upd.
  destruct (Nat.eqb_spec v k) as [E|N]; [subst; reflexivity | apply IH; lia].
Qed.

Lemma fn_trunc : forall n t a, fn n t (trunc n a) = fn n t a.
Proof. intros n t a. unfold fn. apply get_ext. intros v Hv. apply trunc_lt, Hv. Qed.

(** the Rust API result table is the table of the spec-layer function *)
Theorem rapi_spec : forall n o args f a,
  rsem n o (map (fn n) args) = Some f -> fn n (rapi n o args) a = f (trunc n a).
Proof. intros n o args f a H. unfold rapi. rewrite H. apply fn_tab. Qed.

(** pointwise forms for the connectives (no truncation needed: tables only read variables < n) *)
Theorem rapi_not : forall n x a, fn n (rapi n RNot [x]) a = negb (fn n x a).
Proof.
  intros n x a. rewrite (rapi_spec n RNot [x] (lift1 negb (fn n x)) a) by reflexivity.
  unfold lift1. rewrite fn_trunc. reflexivity.
Qed.

Theorem rapi_bin : forall n o x y a,
  fn n (rapi n (RBin o) [x; y]) a = eval_bop o (fn n x a) (fn n y a).
Proof.
  intros n o x y a. rewrite (rapi_spec n (RBin o) [x; y] (lift2 o (fn n x) (fn n y)) a) by reflexivity.
  unfold lift2. rewrite !fn_trunc. reflexivity.
Qed.

Theorem rapi_ite : forall n x y z a,
  fn n (rapi n RIte [x; y; z]) a = if fn n x a then fn n y a else fn n z a.
Proof.
  intros n x y z a. rewrite (rapi_spec n RIte [x; y; z] (ite_s (fn n x) (fn n y) (fn n z)) a) by reflexivity.
  unfold ite_s. rewrite !fn_trunc. reflexivity.
Qed.

Theorem rapi_var : forall n v a, v < n -> fn n (rapi n (RVar v) []) a = a v.
Proof.
  intros n v a H. rewrite (rapi_spec n (RVar v) [] (var_s v) a) by reflexivity.
  unfold var_s. apply trunc_lt, H.
Qed.

Theorem rapi_const : forall n b a, fn n (rapi n (RConst b) []) a = b.
Proof. intros n b a. rewrite (rapi_spec n (RConst b) [] (const_s b) a) by reflexivity. reflexivity. Qed.

Theorem rapi_quant : forall n q x c a,
  fn n (rapi n (RQuant q) [x; c]) a = quant_of q (support n (fn n c)) (fn n x) (trunc n a).
Proof. intros. apply rapi_spec. reflexivity. Qed.

Theorem rapi_apply_quant : forall n q o x y c a,
  fn n (rapi n (RApplyQuant q o) [x; y; c]) a
  = quant_of q (support n (fn n c)) (lift2 o (fn n x) (fn n y)) (trunc n a).
Proof. intros. apply rapi_spec. reflexivity. Qed.

Theorem rapi_restrict : forall n x c a,
  fn n (rapi n RRestrict [x; c]) a = restrict_s (cube_lits n (fn n c)) (fn n x) (trunc n a).
Proof. intros. apply rapi_spec. reflexivity. Qed.

Theorem rapi_subst : forall n vars x reps a,
  fn n (rapi n (RSubst vars) (x :: reps)) a = subst_s (combine vars (map (fn n) reps)) (fn n x) (trunc n a).
Proof. intros. apply rapi_spec. reflexivity. Qed.

(** ** single calls *)
Definition slots_kept (st st' : state) : Prop :=
  forall i h, lookup i (st_funs st) = Some h -> lookup i (st_funs st') = Some h.

Lemma lookup_cons_fresh : forall (fs : list (nat * handle)) d x i h,
  lookup d fs = None -> lookup i fs = Some h -> lookup i ((d, x) :: fs) = Some h.
Proof.
  intros fs d x i h Hd Hi. simpl. destruct (Nat.eqb_spec d i) as [E|N]; [subst; congruence | exact Hi].
Qed.

Lemma fresh_f_none : forall st d, fresh_f st d = true -> lookup d (st_funs st) = None.
Proof. intros st d. unfold fresh_f. destruct (lookup d (st_funs st)); [discriminate | reflexivity]. Qed.

(** function-valued calls: constructors and operations *)
Definition is_op (c : call) : bool :=
  match c with
  | COp0 _ _ _ _ | COp1 _ _ _ _ | COp2 _ _ _ _ _ | COp3 _ _ _ _ _ _
  | CCofactors _ _ _ | CCofactor _ _ _ | CSubstitute _ _ _ _ => true
  | _ => false
  end.

Ltac brh H :=
  match type of H with
  | match ?x with _ => _ end = Done _ => destruct x eqn:?; try discriminate H
  | (let (_, _) := ?x in _) = Done _ => destruct x eqn:?
  end.

Ltac sp6 := refine (conj _ (conj _ (conj _ (conj _ (conj _ _))))); try reflexivity; try lia; try apply Permutation_refl;
  try unfold slots_kept.

Lemma push_funs : forall h rs, r_funs (push_handle h rs) = handle_tabs h ++ r_funs rs.
Proof. intros [|t] rs; reflexivity. Qed.
Lemma push_mrc : forall h rs, r_mrc (push_handle h rs) = length (handle_tabs h) + r_mrc rs.
Proof. intros [|t] rs; reflexivity. Qed.

(** "returns one owned reference, does not consume its operands": the Rust side gains exactly
    the references of the valid handles returned, every handle slot the client owned is
    still owned with the same value, manager handles and substitution contents are untouched *)
Theorem op_effect : forall st c st' r,
  is_op c = true -> step st c = Done (st', r) ->
  r_funs (st_rs st') = ret_tabs r ++ r_funs (st_rs st) /\
  r_mrc (st_rs st') = length (ret_tabs r) + r_mrc (st_rs st) /\
  funs_tabs (st_funs st') = ret_tabs r ++ funs_tabs (st_funs st) /\
  slots_kept st st' /\ st_mgrs st' = st_mgrs st /\ Permutation (subs_tabs (st_subs st')) (subs_tabs (st_subs st)).
Proof.
  intros st c st' r Hop H. destruct c; try discriminate Hop; unfold step in H; cbv zeta in H.
  - (* COp0 *)
    brh H. apply and_true in Heqb. destruct Heqb as [Hb _]. apply and_true in Hb. destruct Hb as [_ Hf].
    brh H. brh H. inversion H; subst; clear H. simpl. rewrite (api_push _ _ _ _ _ Heqp), push_funs, push_mrc.
    sp6. intros i h Hi. apply lookup_cons_fresh; [apply fresh_f_none, Hf | exact Hi].
  - (* COp1 *)
    brh H. brh H. apply and_true in Heqb. destruct Heqb as [Hf _]. brh H. inversion H; subst; clear H. simpl.
    rewrite (c_op1_push _ _ _ _ _ _ Heqp), push_funs, push_mrc.
    sp6. intros i x Hi. apply lookup_cons_fresh; [apply fresh_f_none, Hf | exact Hi].
  - (* COp2 *)
    brh H. brh H. brh H. apply and_true in Heqb0. destruct Heqb0 as [Hf _]. brh H. inversion H; subst; clear H. simpl.
    rewrite (c_op2_push _ _ _ _ _ _ _ Heqp), push_funs, push_mrc.
    sp6. intros i x Hi. apply lookup_cons_fresh; [apply fresh_f_none, Hf | exact Hi].
  - (* COp3 *)
    brh H. brh H. brh H. brh H. apply and_true in Heqb0. destruct Heqb0 as [Hf _]. brh H. inversion H; subst; clear H. simpl.
    rewrite (c_op3_push _ _ _ _ _ _ _ _ Heqp), push_funs, push_mrc.
    sp6. intros i x Hi. apply lookup_cons_fresh; [apply fresh_f_none, Hf | exact Hi].
  - (* CCofactors *)
    brh H. brh H. apply and_true in Heqb. destruct Heqb as [Hb Hne]. apply and_true in Hb. destruct Hb as [Hft Hfe].
    apply negb_true_iff, Nat.eqb_neq in Hne.
    assert (K : forall x y i h0, lookup i (st_funs st) = Some h0 ->
                lookup i ((de, x) :: (dt, y) :: st_funs st) = Some h0).
    { intros x y i h0 Hi. simpl.
      pose proof (fresh_f_none _ _ Hft) as N1. pose proof (fresh_f_none _ _ Hfe) as N2.
      destruct (Nat.eqb_spec de i); [subst; congruence|]. destruct (Nat.eqb_spec dt i); [subst; congruence | exact Hi]. }
    brh H; [brh H; [brh H|]|]; inversion H; subst; clear H; simpl;
      sp6; intros i h0 Hi; simpl; apply K, Hi.
  - (* CCofactor *)
    brh H. brh H.
    assert (K : forall x i h0, lookup i (st_funs st) = Some h0 -> lookup i ((d, x) :: st_funs st) = Some h0).
    { intros x i h0 Hi. apply lookup_cons_fresh; [apply fresh_f_none, Heqb | exact Hi]. }
    brh H; [brh H; [brh H|]|]; inversion H; subst; clear H; simpl;
      sp6; intros i h0 Hi; simpl; apply K, Hi.
  - (* CSubstitute *)
    destruct (lookup a (st_funs st)) as [ha|] eqn:Ea; [|discriminate H].
    destruct (fresh_f st d && negb (is_fz (st_kind st))) eqn:Eb; [|discriminate H].
    apply and_true in Eb. destruct Eb as [Hf _].
    assert (K : forall x i h0, lookup i (st_funs st) = Some h0 -> lookup i ((d, x) :: st_funs st) = Some h0).
    { intros x i h0 Hi. apply lookup_cons_fresh; [apply fresh_f_none, Hf | exact Hi]. }
    destruct s as [si|].
    + destruct (lookup si (st_subs st)) as [sb|] eqn:Es; [|discriminate H].
      match type of H with (let (_, _) := ?x in _) = _ => destruct x as [rs' h] eqn:Ep end.
      inversion H; subst; clear H. simpl.
      rewrite (c_op1_push _ _ _ _ _ _ Ep), push_funs, push_mrc.
      sp6; [intros i x Hi; simpl; apply K, Hi|].
      apply Permutation_sym. apply perm_trans with (1 := subs_tabs_lookup _ _ _ Es). apply Permutation_refl.
    + inversion H; subst; clear H. simpl. sp6. intros i x Hi; simpl; apply K, Hi.
Qed.
