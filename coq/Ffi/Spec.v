(** * C19 — value tables and the Rust-API results they stand for (executable, no proofs)

    The C interface identifies a decision-diagram function by an opaque pair
    [(_p, _i)]; what the property talks about is the Boolean function behind
    it.  This file fixes the representation used by the ledger model
    (Ffi/Ledger.v): a function of the [n] manager variables is identified by its
    *value table* [tab n f] (entry [p] = value under the assignment whose
    variable [v] is bit [v] of [p]; this is also what the harness prints after
    calling [oxidd_*_eval] on all assignments).  Canonicity of the diagrams
    (C01) is what makes "same table" and "same node" coincide.

    [rapi] gives, for every function-valued call of the Rust API that the C
    layer forwards to, the table of the result: it is *defined through the spec
    layer DD/Sem.v* (connectives, ite, cofactors, quantifiers, restriction,
    substitution) applied to the decoded operand tables — the same definitions
    C02/C04/C09 prove the node-level algorithms against.  The family-of-sets
    operations of the ZBDD interface are written here as operations on
    characteristic functions (a set of variables = the assignment that is true
    exactly on its members). *)

From Coq Require Import List Bool Arith NArith.
From OxiVerif Require Import DD.Sem.
Import ListNotations.

Definition tt := list bool.

Definition tt_eq_dec : forall a b : tt, {a = b} + {a <> b} := list_eq_dec Bool.bool_dec.
Definition tt_eqb (a b : tt) : bool := if tt_eq_dec a b then true else false.

Definition a0 : asg := fun _ => false.

(** table of [f] over the variables [0 .. n-1]; variable [n-1] selects the upper half *)
Fixpoint tab (n : nat) (f : bfun) : tt :=
  match n with
  | O => [f a0]
  | S k => tab k (cof f k false) ++ tab k (cof f k true)
  end.

(** look-up of the entry for assignment [a] *)
Fixpoint get (n : nat) (t : tt) (a : asg) : bool :=
  match n with
  | O => hd false t
  | S k => if a k then get k (skipn (2 ^ k) t) a else get k (firstn (2 ^ k) t) a
  end.

(** the function a table stands for *)
Definition fn (n : nat) (t : tt) : bfun := get n t.

(** the assignment [a] with every variable [>= n] read as false, built by the
    same updates [tab] performs (so that [get n (tab n f) a = f (trunc n a)]
    needs no extensionality) *)
Fixpoint trunc (n : nat) (a : asg) : asg :=
  match n with
  | O => a0
  | S k => upd (trunc k a) k (a k)
  end.

Definition tt_any (t : tt) : bool := existsb (fun b => b) t.
Definition tt_all (t : tt) : bool := forallb (fun b => b) t.
Definition tt_count (t : tt) : N := N.of_nat (length (filter (fun b => b) t)).

(** the three decision-diagram kinds with a C interface *)
Inductive kind3 := FB | FC | FZ.     (* bdd, bcdd, zbdd *)

Inductive quantifier := QForall | QExists | QUnique.

Definition quant_of (q : quantifier) : list nat -> bfun -> bfun :=
  match q with QForall => forall_s | QExists => exists_s | QUnique => unique_s end.

Section WithVars.
Variable n : nat.                         (* number of variables of the manager *)

(** [f] depends on variable [v] *)
Definition depends (f : bfun) (v : nat) : bool :=
  negb (tt_eqb (tab n (cof f v true)) (tab n (cof f v false))).

(** some member set of the family [f] contains [v] (ZBDD: a node for [v] exists) *)
Definition occurs (f : bfun) (v : nat) : bool :=
  tt_any (tab n (fun a => f a && a v)).

Definition support (f : bfun) : list nat := filter (depends f) (seq 0 n).

(** conjunction of literals *)
Definition cube_s (lits : list (nat * bool)) : bfun :=
  fun a => forallb (fun l => Bool.eqb (a (fst l)) (snd l)) lits.

(** literal list of a cube [g]: its support with the polarity each variable has in [g] *)
Definition cube_lits (g : bfun) : list (nat * bool) :=
  map (fun v => (v, tt_any (tab n (fun a => g a && a v)))) (support g).

(** [g] is a satisfiable conjunction of literals *)
Definition is_cube (g : bfun) : bool := tt_eqb (tab n g) (tab n (cube_s (cube_lits g))).

(** [g] is a conjunction of positive literals (a variable set for the quantifiers) *)
Definition is_pos_cube (g : bfun) : bool :=
  is_cube g && forallb (fun l => snd l) (cube_lits g).

(** ** the top variable of a function under the order [l2v] (level -> variable)

    BDD/BCDD: the first variable (in level order) the function depends on;
    ZBDD: the first variable contained in some member set. *)
Definition top_var (k : kind3) (l2v : list nat) (f : bfun) : option nat :=
  find (match k with FZ => occurs f | _ => depends f end) l2v.

Fixpoint index_of (v : nat) (l : list nat) : option nat :=
  match l with
  | [] => None
  | x :: r => if Nat.eqb x v then Some 0 else option_map S (index_of v r)
  end.

(** level of the root node ([None] for a terminal): [oxidd_*_node_level] *)
Definition top_level (k : kind3) (l2v : list nat) (f : bfun) : option nat :=
  match top_var k l2v f with Some v => index_of v l2v | None => None end.

(** the children of the root node as functions of all [n] variables
    ([Function::cofactors], "structurally, the cofactors are the children") *)
Definition child_s (k : kind3) (f : bfun) (v : nat) (hi : bool) : bfun :=
  match k with
  | FZ => if hi then (fun a => negb (a v) && f (upd a v true)) else (fun a => negb (a v) && f a)
  | _ => cof f v hi
  end.

(** ** family-of-sets operations (ZBDD), on characteristic functions *)
Definition singleton_s (v : nat) : bfun :=
  fun a => forallb (fun u => Bool.eqb (a u) (Nat.eqb u v)) (seq 0 n).
Definition base_s : bfun := fun a => forallb (fun u => negb (a u)) (seq 0 n).
Definition subset0_s (f : bfun) (v : nat) : bfun := fun a => negb (a v) && f a.
Definition subset1_s (f : bfun) (v : nat) : bfun := fun a => negb (a v) && f (upd a v true).
Definition change_s (f : bfun) (v : nat) : bfun := fun a => f (upd a v (negb (a v))).
Definition diff_s (f g : bfun) : bfun := fun a => f a && negb (g a).
(** [lo ∪ {x ∪ {v} | x ∈ hi}] *)
Definition mknode_s (v : nat) (hi lo : bfun) : bfun :=
  fun a => if a v then hi (upd a v false) else lo a.

(** no member set of [f] contains a variable at or above the level of [v]
    (precondition of [make_node]: "var's level must be above hi's and lo's levels") *)
Definition below_var (l2v : list nat) (v : nat) (f : bfun) : bool :=
  match index_of v l2v with
  | None => false
  | Some lv => forallb (fun u => negb (occurs f u)) (firstn (S lv) l2v)
  end.

(** ** results of the function-valued Rust API calls *)
Inductive rop :=
| RConst (b : bool)                      (* Function::f / Function::t / empty *)
| RVar (v : nat) | RNotVar (v : nat)     (* Function::var / not_var *)
| RNot                                   (* not *)
| RBin (o : bop)                         (* and or xor equiv nand nor imp imp_strict *)
| RIte
| RRestrict                              (* restrict(f, cube) *)
| RQuant (q : quantifier)                (* forall / exists / unique (f, vars) *)
| RApplyQuant (q : quantifier) (o : bop) (* apply_forall / apply_exists / apply_unique (op, lhs, rhs, vars) *)
| RSubst (vars : list nat)               (* substitute: arguments f :: replacements *)
| RSingleton (v : nat) | RBase           (* ZBDD: {{v}}, {∅} *)
| RSubset0 (v : nat) | RSubset1 (v : nat) | RChange (v : nat)
| RUnion | RIntsec | RDiff
| RMkNode (v : nat).                     (* zbdd::make_node at the level of variable v: arguments hi, lo *)

Definition rsem (o : rop) (args : list bfun) : option bfun :=
  match o, args with
  | RConst b, [] => Some (const_s b)
  | RVar v, [] => Some (var_s v)
  | RNotVar v, [] => Some (lift1 negb (var_s v))
  | RNot, [f] => Some (lift1 negb f)
  | RBin o, [f; g] => Some (lift2 o f g)
  | RIte, [f; g; h] => Some (ite_s f g h)
  | RRestrict, [f; c] => Some (restrict_s (cube_lits c) f)
  | RQuant q, [f; c] => Some (quant_of q (support c) f)
  | RApplyQuant q o, [f; g; c] => Some (quant_of q (support c) (lift2 o f g))
  | RSubst vars, f :: reps => Some (subst_s (combine vars reps) f)
  | RSingleton v, [] => Some (singleton_s v)
  | RBase, [] => Some base_s
  | RSubset0 v, [f] => Some (subset0_s f v)
  | RSubset1 v, [f] => Some (subset1_s f v)
  | RChange v, [f] => Some (change_s f v)
  | RUnion, [f; g] => Some (lift2 OOr f g)
  | RIntsec, [f; g] => Some (lift2 OAnd f g)
  | RDiff, [f; g] => Some (diff_s f g)
  | RMkNode v, [hi; lo] => Some (mknode_s v hi lo)
  | _, _ => None
  end.

(** the table the Rust API call [o] returns for operands with tables [args]
    (arity mismatch: the all-false table; never used by the ledger model) *)
Definition rapi (o : rop) (args : list tt) : tt :=
  match rsem o (map (fn n) args) with
  | Some f => tab n f
  | None => tab n (const_s false)
  end.

(** what [pick_cube_dd] / [pick_cube_dd_set] may return for [f]: ⊥ for ⊥, else a
    satisfiable conjunction of literals that implies [f] (which cube is C13's topic) *)
Definition pick_ok (f r : tt) : bool :=
  if tt_any f then
    tt_any r && is_cube (fn n r) && tt_all (tab n (lift2 OImp (fn n r) (fn n f)))
  else negb (tt_any r).

(** what [pick_cube] may return: nothing for ⊥, else a partial assignment of the
    [n] variables all of whose completions satisfy [f] *)
Definition pick_vec_ok (f : tt) (r : option (list (option bool))) : bool :=
  match r with
  | None => negb (tt_any f)
  | Some c => tt_any f && Nat.eqb (length c) n
              && cube_implies n (fun v => nth v c None) (fn n f)
  end.

End WithVars.

(** adding a variable below all others: a BDD/BCDD function ignores it, the
    member sets of a ZBDD family do not contain it *)
Definition extend1 (k : kind3) (t : tt) : tt :=
  match k with
  | FZ => t ++ repeat false (length t)
  | _ => t ++ t
  end.

Fixpoint extend (k : kind3) (cnt : nat) (t : tt) : tt :=
  match cnt with O => t | S c => extend k c (extend1 k t) end.
