(** * Model of the binary AIGER AND-gate section (crates/oxidd-parser/src/aiger.rs)

    Executable Gallina only.  Bytes and numbers are [N].

    - [decode7] mirrors [fn usize_7bit]: little-endian base-128 digits, the
      high bit of a byte says "more follows" (the [usize] wrap-around of
      [wrapping_shl] for encodings longer than the word size is outside the
      model: numbers are unbounded here).
    - [encode7] is the encoder of the AIGER FORMAT document (what every writer
      of .aig files runs; the crate itself has no writer).
    - [and_gate_bin] mirrors the body of the loop "and gates" of the binary
      branch of [aiger::parse]: the two deltas are subtracted from the gate's
      own literal [lhs = 2 * variable]; invalid deltas are a diagnostic ([None]).
    - [deltas] is the writer's side: [lhs > rhs0 >= rhs1]. *)

From Coq Require Import List NArith Bool.
Import ListNotations.
Open Scope N_scope.

(** [fn usize_7bit]: [Some (value, remaining input)] or [None] at end of input *)
Fixpoint decode7_from (bytes : list N) (shift : N) (val : N) : option (N * list N) :=
  match bytes with
  | [] => None
  | b :: rem =>
    let val' := N.lor val (N.shiftl (N.land b 127) shift) in
    if N.land b 128 =? 0 then Some (val', rem) else decode7_from rem (shift + 7) val'
  end.
Definition decode7 (bytes : list N) : option (N * list N) := decode7_from bytes 0 0.

(** encoder of the FORMAT document:
    [while (x & ~0x7f) { putc ((x & 0x7f) | 0x80); x >>= 7; } putc (x);] *)
Fixpoint encode7_fuel (fuel : nat) (x : N) : list N :=
  match fuel with
  | O => [x]
  | S f => if x <? 128 then [x] else (N.lor (N.land x 127) 128) :: encode7_fuel f (N.shiftr x 7)
  end.
Definition encode7 (x : N) : list N := encode7_fuel (N.to_nat (N.size x)) x.

(** one AND gate of the binary format: [Some (in1, in2)] (AIGER literals) or
    [None] (diagnostic "invalid and gate inputs") *)
Definition and_gate_bin (lhs d1 d2 : N) : option (N * N) :=
  let in1 := lhs - d1 in
  if (lhs <? d1) || (d1 =? 0) || (in1 <? d2) then None
  else Some (in1, in1 - d2).

Definition deltas (lhs rhs0 rhs1 : N) : N * N := (lhs - rhs0, rhs0 - rhs1).

(** decoding of one gate from the byte stream *)
Definition decode_gate (lhs : N) (bytes : list N) : option (option (N * N) * list N) :=
  match decode7 bytes with
  | None => None
  | Some (d1, r1) =>
    match decode7 r1 with
    | None => None
    | Some (d2, r2) => Some (and_gate_bin lhs d1 d2, r2)
    end
  end.

Definition encode_gate (lhs rhs0 rhs1 : N) : list N :=
  let '(d1, d2) := deltas lhs rhs0 rhs1 in encode7 d1 ++ encode7 d2.
