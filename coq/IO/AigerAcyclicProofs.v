(** * C18p proofs, part 7: [acyclic_b] is sound -- a gate list that passes the test has
      no cyclic dependency; every problem accepted with [check_acyclic] is acyclic *)
From Coq Require Import List NArith ZArith Bool Arith Lia Relations.
From OxiVerif Require Import IO.Aiger IO.AigerParse IO.AigerSecProofs IO.AigerSoundProofs.
Import ListNotations.
Open Scope N_scope.

Arguments N.of_nat : simpl never.
Arguments N.to_nat : simpl never.

Lemma mark_rounds_S : forall k gates m,
  mark_rounds (S k) gates m = mark_round gates (mark_rounds k gates m).
Proof.
  induction k as [|k IH]; intros gates m; [reflexivity|].
  change (mark_rounds (S (S k)) gates m) with (mark_rounds (S k) gates (mark_round gates m)).
  rewrite IH. reflexivity.
Qed.

(** a gate marked after a round: all gates it reads were marked before the round *)
Lemma mark_round_reads gates m g : nth g (mark_round gates m) false = true ->
  forall g', reads gates g g' -> nth g' m false = true.
Proof.
  unfold mark_round. intros H g' (x & s & Hx & Hr).
  assert (Hlt : (g < length gates)%nat) by (apply nth_error_Some; congruence).
  rewrite (nth_indep _ false (lit_marked m (fst (ALConst false, ALConst false))
                              && lit_marked m (snd (ALConst false, ALConst false)))) in H
    by (rewrite map_length; assumption).
  rewrite (map_nth (fun g0 => lit_marked m (fst g0) && lit_marked m (snd g0))) in H.
  rewrite (nth_error_nth _ _ _ Hx) in H. apply andb_true_iff in H. destruct H as [H1 H2].
  destruct Hr as [E|E]; [rewrite E in H1; cbn in H1|rewrite E in H2; cbn in H2];
    rewrite Nat2N.id in *; assumption.
Qed.

Lemma nth_map_false {A} : forall (l : list A) g, nth g (map (fun _ => false) l) false = false.
Proof. induction l; destruct g; cbn; auto. Qed.

Section Sound.
  Variable gates : list (alit * alit).
  Let m0 := map (fun _ : alit * alit => false) gates.
  Let marks k := mark_rounds k gates m0.

  Lemma marks_0 g : nth g (marks O) false = false.
  Proof. unfold marks, m0. cbn [mark_rounds]. apply nth_map_false. Qed.

  (** along a dependency path the round in which a gate is marked strictly decreases *)
  Lemma marks_path : forall g g', clos_trans nat (reads gates) g g' ->
    forall k, nth g (marks k) false = true -> exists k', (k' < k)%nat /\ nth g' (marks k') false = true.
  Proof.
    intros g g' Hc. induction Hc as [g g' Hr|g mid g' _ IH1 _ IH2]; intros k Hk.
    - destruct k as [|k]; [rewrite marks_0 in Hk; discriminate|].
      unfold marks in Hk. rewrite mark_rounds_S in Hk.
      exists k. split; [lia|]. eapply mark_round_reads; eassumption.
    - destruct (IH1 k Hk) as (k1 & Hlt1 & Hk1). destruct (IH2 k1 Hk1) as (k2 & Hlt2 & Hk2).
      exists k2. split; [lia|assumption].
  Qed.

  Lemma marks_no_cycle : forall k g, nth g (marks k) false = true -> ~ clos_trans nat (reads gates) g g.
  Proof.
    induction k as [k IH] using lt_wf_ind. intros g Hk Hc.
    destruct (marks_path g g Hc k Hk) as (k' & Hlt & Hk'). exact (IH k' Hlt g Hk' Hc).
  Qed.

  (** soundness of the acyclicity test *)
  Theorem acyclic_b_sound : acyclic_b gates = true -> forall g, ~ clos_trans nat (reads gates) g g.
  Proof.
    unfold acyclic_b. fold m0. fold (marks (length gates)). intros H g Hc.
    (* a gate on a cycle exists in the list *)
    assert (Hlt : (g < length gates)%nat).
    { clear H. remember g as g2 in Hc at 2.
      clear Heqg2. induction Hc as [g g' (x & s & Hx & _)|]; [apply nth_error_Some; congruence|assumption]. }
    rewrite forallb_forall in H.
    assert (Hm : nth g (marks (length gates)) false = true).
    { apply H. apply nth_In. unfold marks. rewrite mark_rounds_length; [assumption|].
      unfold m0. apply map_length. }
    exact (marks_no_cycle _ _ Hm Hc).
  Qed.
End Sound.

(** every problem the reader accepts with [check_acyclic = true] -- ASCII or binary --
    has no gate that depends on itself *)
Theorem parse_aiger_acyclic bs p : parse_aiger true bs = POk p ->
  forall g, ~ clos_trans nat (reads (ap_ands p)) g g.
Proof.
  intros H. unfold parse_aiger in H.
  destruct (p_header bs) as [[h r0]| |] eqn:Eh; cbn [pbind] in H; try discriminate.
  destruct (h_bin h) eqn:Eb.
  - (* binary: topological order *)
    destruct (p_header_inv _ _ _ Eh) as (C0 & _ & _ & _ & _ & _ & _ & _ & _ & Hv & _).
    specialize (Hv Eb).
    destruct (parse_bin_body h r0) as [[b r1]| |] eqn:E0; cbn [pbind] in H; try discriminate.
    destruct (symbol_table h r1) as [[syms r2]| |]; cbn [pbind] in H; try discriminate.
    destruct (comment_or_eof r2); [|discriminate]. inversion H; subst. cbn [ap_ands].
    destruct (parse_bin_body_inv _ _ _ _ Hv C0 E0) as (_ & _ & _ & _ & _ & _ & _ & _ & _ & _ & _ & _ & _ & _ & _ & B16 & _).
    apply topo_no_cycle. eapply and_ok_topo. exact B16.
  - (* ASCII: the test ran *)
    destruct (parse_ascii_body true h r0) as [[b r1]| |] eqn:E0; cbn [pbind] in H; try discriminate.
    destruct (symbol_table h r1) as [[syms r2]| |]; cbn [pbind] in H; try discriminate.
    destruct (comment_or_eof r2); [|discriminate]. inversion H; subst. cbn [ap_ands].
    apply acyclic_b_sound.
    unfold parse_ascii_body in E0.
    repeat match type of E0 with
           | pbind ?r _ = POk _ => destruct r as [[? ?]| |]; cbn [pbind] in E0; try discriminate E0
           | match ?x with _ => _ end = POk _ => destruct x eqn:?; try discriminate E0
           end.
    inversion E0; subst. cbn [b_ands] in *.
    match goal with
    | Hc : true && negb ?a = false |- _ => cbn [andb] in Hc; apply negb_false_iff in Hc; exact Hc
    end.
Qed.
