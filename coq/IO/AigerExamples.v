(** * C18p: concrete instances (the hypotheses of the AIGER theorems are satisfiable,
      and the name-shape hypothesis of the strong direction is necessary) *)
From Coq Require Import List NArith Bool.
From OxiVerif Require Import IO.Aiger IO.AigerParse IO.AigerProofs IO.AigerSoundProofs.
Import ListNotations.
Open Scope N_scope.

(** two inputs, two latches (reset 1 / uninitialised), three AND gates, one
    output, bad, constraint, two justice properties (one empty), one fairness
    constraint, some names *)
Definition ex_problem : aproblem :=
  mkProblem 2
    [ALGate false 2; ALIn true 3]
    [Some true; None]
    [ALGate true 2; ALConst true]
    [ALIn false 2]
    [ALGate false 0]
    [[ALIn false 0; ALGate true 1]; []]
    [ALIn true 1]
    [(ALIn false 1, ALIn false 0); (ALGate true 0, ALIn false 2); (ALGate true 1, ALGate true 0)]
    (default_map 5 3)
    (mkSyms [Some [120]; None; Some [113; 32; 48]; None] [Some [111; 117; 116]; None] [] [] [None; Some []] []).

Lemma ex_wf : wf_b ex_problem = true.
Proof. vm_compute. reflexivity. Qed.

Lemma ex_aag_roundtrip : parse_aiger true (print_aag ex_problem) = POk ex_problem.
Proof. vm_compute. reflexivity. Qed.

Lemma ex_aig_roundtrip : parse_aiger true (print_aig ex_problem) = POk ex_problem.
Proof. vm_compute. reflexivity. Qed.

Lemma ex_aig_binary : is_binary (print_aig ex_problem).
Proof. vm_compute. reflexivity. Qed.

Lemma ex_syms_ok : syms_ok ex_problem.
Proof. repeat split; vm_compute; reflexivity. Qed.

(** a non-trivial accepted binary file satisfying the hypotheses of [parse_aig_then_aag] *)
Lemma ex_strong_hyps :
  is_binary (print_aig ex_problem) /\ parse_aiger true (print_aig ex_problem) = POk ex_problem /\
  syms_ok ex_problem /\ ap_ands ex_problem <> [] /\ ap_latches ex_problem <> [].
Proof.
  split; [exact ex_aig_binary|]. split; [exact ex_aig_roundtrip|]. split; [exact ex_syms_ok|].
  split; discriminate.
Qed.

(** "aig 1 1 0 0 0\ni0 \ni0 \n": the input symbol 0 is given twice with an empty
    name; the reader joins the two names with a space, the result [" "] cannot
    be written as a symbol line (blanks after the index are skipped) *)
Definition dup_file : list N :=
  [97; 105; 103; 32; 49; 32; 49; 32; 48; 32; 48; 32; 48; 10; 105; 48; 32; 10; 105; 48; 32; 10].

Lemma dup_file_not_reproducible :
  exists p, is_binary dup_file /\ parse_aiger true dup_file = POk p /\
            sy_in (ap_syms p) = [Some [32]] /\ ~ syms_ok p /\
            parse_aiger true (print_aag p) <> POk p.
Proof.
  eexists. split; [reflexivity|]. split; [vm_compute; reflexivity|]. split; [reflexivity|]. split.
  - intros (H & _). vm_compute in H. discriminate.
  - vm_compute. discriminate.
Qed.
