(** * C18p proofs, part 1: the lexical layer of the AIGER reader model
      (decimal numbers, blanks, line ends, the 7-bit codec, single lines) *)
From Coq Require Import List NArith ZArith Bool Arith Lia.
From OxiVerif Require Import IO.Aiger IO.AigerParse.
Import ListNotations.
Open Scope N_scope.

Ltac Zify.zify_post_hook ::= Z.to_euclidean_division_equations.

Arguments N.add : simpl never.
Arguments N.sub : simpl never.
Arguments N.mul : simpl never.
Arguments N.div : simpl never.
Arguments N.modulo : simpl never.
Arguments N.pow : simpl never.
Arguments N.shiftl : simpl never.
Arguments N.shiftr : simpl never.
Arguments N.land : simpl never.
Arguments N.lor : simpl never.
Arguments N.ltb : simpl never.
Arguments N.leb : simpl never.
Arguments N.eqb : simpl never.
Arguments N.odd : simpl never.

(* ------------------------------------------------------------------ *)
(** ** Character classes *)

Lemma is_digit_range b : is_digit b = true <-> 48 <= b /\ b <= 57.
Proof. unfold is_digit. rewrite andb_true_iff, !N.leb_le. reflexivity. Qed.

Lemma is_sp_iff b : is_sp b = true <-> b = 32 \/ b = 9.
Proof. unfold is_sp. rewrite orb_true_iff, !N.eqb_eq. reflexivity. Qed.

Lemma digit_not_sp b : is_digit b = true -> is_sp b = false.
Proof.
  intros H. apply is_digit_range in H. destruct (is_sp b) eqn:E; [|reflexivity].
  apply is_sp_iff in E. lia.
Qed.

(** what may follow a number: the end, or a byte that is not a digit *)
Definition nodigit (r : list N) : Prop :=
  match r with [] => True | b :: _ => is_digit b = false end.

(** what may follow a blank run: the end, or a byte that is not a blank *)
Definition nosp (r : list N) : Prop :=
  match r with [] => True | b :: _ => is_sp b = false end.

Lemma nodigit_nl r : nodigit (nl ++ r).
Proof. reflexivity. Qed.
Lemma nodigit_sp r : nodigit (sp ++ r).
Proof. reflexivity. Qed.
Lemma nosp_nl r : nosp (nl ++ r).
Proof. reflexivity. Qed.


(* ------------------------------------------------------------------ *)
(** ** Decimal printing and [p_u64] *)

Definition digits (s : list N) : Prop := Forall (fun b => is_digit b = true) s.

Lemma dec_go_digits : forall fuel n acc, digits acc -> digits (dec_go fuel n acc).
Proof.
  induction fuel as [|f IH]; intros n acc H; cbn [dec_go]; [exact H|].
  assert (Hd : is_digit (48 + n mod 10) = true) by (apply is_digit_range; lia).
  destruct (n <? 10); [constructor; assumption|]. apply IH. constructor; assumption.
Qed.

Lemma dec_digits n : digits (dec n).
Proof. apply dec_go_digits. constructor. Qed.

Lemma dec_go_nonempty : forall fuel n acc, acc <> [] -> dec_go fuel n acc <> [].
Proof.
  induction fuel as [|f IH]; intros n acc H; cbn [dec_go]; [exact H|].
  destruct (n <? 10); [discriminate|]. apply IH. discriminate.
Qed.

Lemma dec_nonempty n : dec n <> [].
Proof.
  unfold dec. cbn [dec_go]. destruct (n <? 10); [discriminate|]. apply dec_go_nonempty. discriminate.
Qed.

Lemma dec_head n : exists c r, dec n = c :: r /\ is_digit c = true.
Proof.
  pose proof (dec_digits n) as H. pose proof (dec_nonempty n) as Hne.
  destruct (dec n) as [|c r]; [contradiction|]. exists c, r. split; [reflexivity|].
  inversion H; assumption.
Qed.

Lemma dec_nosp n r : nosp (dec n ++ r).
Proof.
  destruct (dec_head n) as (c & t & -> & Hc). cbn. apply digit_not_sp. exact Hc.
Qed.

Lemma digits_val_app : forall ds rest acc, digits ds -> nodigit rest ->
  digits_val (ds ++ rest) acc = (fst (digits_val ds acc), rest).
Proof.
  induction ds as [|c ds IH]; intros rest acc Hd Hr.
  - cbn. destruct rest as [|b r]; [reflexivity|]. cbn in Hr. cbn. rewrite Hr. reflexivity.
  - inversion Hd; subst. cbn [app digits_val]. rewrite H1. apply IH; assumption.
Qed.

Lemma digits_val_digits_nil : forall ds acc, digits ds -> snd (digits_val ds acc) = [].
Proof.
  induction ds as [|c ds IH]; intros acc Hd; [reflexivity|].
  inversion Hd; subst. cbn [digits_val]. rewrite H1. apply IH; assumption.
Qed.

Lemma dec_go_val : forall fuel n acc, digits acc ->
  n < 10 ^ N.of_nat fuel -> fuel <> O ->
  fst (digits_val (dec_go fuel n acc) 0) = fst (digits_val acc n).
Proof.
  induction fuel as [|f IH]; intros n acc Ha Hn Hf; [contradiction|].
  cbn [dec_go].
  assert (Hd : is_digit (48 + n mod 10) = true) by (apply is_digit_range; lia).
  destruct (N.ltb_spec n 10).
  - cbn [digits_val]. rewrite Hd. f_equal. f_equal. rewrite N.mod_small by assumption. lia.
  - assert (f <> O).
    { intros ->. cbn in Hn. lia. }
    rewrite IH; [| constructor; assumption | | assumption].
    + cbn [digits_val]. rewrite Hd. f_equal. f_equal. lia.
    + rewrite Nat2N.inj_succ, N.pow_succ_r' in Hn. lia.
Qed.

Lemma digits_val_dec n : fst (digits_val (dec n) 0) = n.
Proof.
  unfold dec. rewrite dec_go_val; [reflexivity|constructor| |discriminate].
  rewrite Nat2N.inj_succ, N2Nat.id, N.pow_succ_r'.
  destruct (N.eq_dec n 0) as [->|Hne]; [reflexivity|].
  assert (n < 2 ^ N.size n) by apply N.size_gt.
  assert (2 ^ N.size n <= 10 ^ N.size n) by (apply N.pow_le_mono_l; lia). lia.
Qed.

Lemma p_u64_dec n rest : n < two64 -> nodigit rest -> p_u64 (dec n ++ rest) = POk (n, rest).
Proof.
  intros Hn Hr. unfold p_u64.
  destruct (dec_head n) as (c & t & E & Hc).
  rewrite digits_val_app by (auto using dec_digits). rewrite digits_val_dec.
  rewrite E. cbn [app]. rewrite Hc.
  destruct (N.ltb_spec n two64); [reflexivity|lia].
Qed.

Lemma p_usize_dec n rest : n <= max_capacity -> nodigit rest -> p_usize (dec n ++ rest) = POk (n, rest).
Proof.
  intros Hn Hr. unfold p_usize. rewrite p_u64_dec; [|unfold max_capacity, two64 in *; lia|assumption].
  cbn [pbind]. destruct (N.ltb_spec max_capacity n); [lia|reflexivity].
Qed.

Ltac side := first [assumption | lia | reflexivity | apply dec_nosp].

(* ------------------------------------------------------------------ *)
(** ** Blanks and line ends *)

Lemma space0_nosp r : nosp r -> space0 r = r.
Proof. destruct r as [|b r]; [reflexivity|]. cbn. intros ->. reflexivity. Qed.

Lemma space1_sp r : nosp r -> space1 (sp ++ r) = POk r.
Proof. intros H. cbn. rewrite space0_nosp by assumption. reflexivity. Qed.

Lemma space1_nl r : space1 (nl ++ r) = PErr.
Proof. reflexivity. Qed.

Lemma eol_or_eof_nl r : eol_or_eof (nl ++ r) = POk r.
Proof. reflexivity. Qed.

Lemma sp_usize_dec n rest : n <= max_capacity -> nodigit rest ->
  sp_usize (sp ++ dec n ++ rest) = POk (n, rest).
Proof.
  intros Hn Hr. unfold sp_usize. rewrite space1_sp by apply dec_nosp. cbn [pbind].
  apply p_usize_dec; assumption.
Qed.

(* ------------------------------------------------------------------ *)
(** ** Lines *)

Lemma p_literal_dec vars x rest : x < two64 -> x / 2 <= vars -> nodigit rest ->
  p_literal vars (dec x ++ rest) = POk (x, rest).
Proof.
  intros Hx Hv Hr. unfold p_literal. rewrite p_u64_dec by assumption. cbn [pbind].
  destruct (N.ltb_spec vars (x / 2)); [lia|reflexivity].
Qed.

Lemma literal_line_dec vars x rest : x < two64 -> x / 2 <= vars ->
  literal_line vars (dec x ++ nl ++ rest) = POk (x, rest).
Proof.
  intros Hx Hv. unfold literal_line. rewrite p_literal_dec by side.
  cbn [pbind]. rewrite eol_or_eof_nl. reflexivity.
Qed.

Lemma usize_line_dec n rest : n <= max_capacity ->
  usize_line (dec n ++ nl ++ rest) = POk (n, rest).
Proof.
  intros Hn. unfold usize_line. rewrite p_usize_dec by side.
  cbn [pbind]. rewrite eol_or_eof_nl. reflexivity.
Qed.

Lemma input_line_dec vars x rest : x < two64 -> x / 2 <= vars -> N.odd x = false ->
  input_line vars (dec x ++ nl ++ rest) = POk (x, rest).
Proof.
  intros Hx Hv Ho. unfold input_line. rewrite p_literal_dec by side.
  cbn [pbind]. rewrite Ho, eol_or_eof_nl. reflexivity.
Qed.

(** the optional reset value as [print_reset] writes it *)
Lemma latch_init_ext_print own r rest : 2 <= own -> own < two64 ->
  latch_init_ext own (print_reset own r ++ nl ++ rest) = POk (r, nl ++ rest).
Proof.
  intros H2 Hown. unfold latch_init_ext.
  destruct r as [[|]|]; cbn [print_reset].
  - rewrite <- app_assoc, space1_sp by apply dec_nosp.
    rewrite p_u64_dec; [reflexivity | unfold two64; lia | reflexivity].
  - cbn [app]. rewrite space1_nl. reflexivity.
  - rewrite <- app_assoc, space1_sp by apply dec_nosp.
    rewrite p_u64_dec by side.
    destruct (N.eqb_spec own 0); [lia|]. destruct (N.eqb_spec own 1); [lia|].
    rewrite N.eqb_refl. reflexivity.
Qed.

Lemma nodigit_reset own r rest : nodigit (print_reset own r ++ nl ++ rest).
Proof. destruct r as [[|]|]; reflexivity. Qed.

Lemma latch_line_print vars own x r rest :
  2 <= own -> own < two64 -> own / 2 <= vars -> N.odd own = false -> x < two64 -> x / 2 <= vars ->
  latch_line vars (dec own ++ sp ++ dec x ++ print_reset own r ++ nl ++ rest) = POk ((own, x, r), rest).
Proof.
  intros. unfold latch_line.
  rewrite p_literal_dec by side. cbn [pbind].
  rewrite space1_sp by apply dec_nosp. cbn [pbind].
  rewrite p_literal_dec; [| assumption | assumption | apply nodigit_reset].
  cbn [pbind]. rewrite H2. rewrite latch_init_ext_print by assumption. cbn [pbind].
  rewrite eol_or_eof_nl. reflexivity.
Qed.

Lemma bin_latch_print vars fl i x r rest :
  (i + fl) * 2 < two64 -> 2 <= (i + fl) * 2 -> x < two64 -> x / 2 <= vars ->
  bin_latch vars fl i (dec x ++ print_reset ((i + fl) * 2) r ++ nl ++ rest) = POk ((x, r), rest).
Proof.
  intros. unfold bin_latch.
  rewrite p_literal_dec; [| assumption | assumption | apply nodigit_reset].
  cbn [pbind]. rewrite latch_init_ext_print by assumption. cbn [pbind].
  rewrite eol_or_eof_nl. reflexivity.
Qed.

Lemma and_line_print vars lhs a b rest :
  lhs < two64 -> lhs / 2 <= vars -> N.odd lhs = false ->
  a < two64 -> a / 2 <= vars -> b < two64 -> b / 2 <= vars ->
  and_line vars (dec lhs ++ sp ++ dec a ++ sp ++ dec b ++ nl ++ rest) = POk ((lhs, a, b), rest).
Proof.
  intros. unfold and_line.
  rewrite p_literal_dec by side. cbn [pbind].
  rewrite space1_sp by apply dec_nosp. cbn [pbind].
  rewrite p_literal_dec by side. cbn [pbind].
  rewrite space1_sp by apply dec_nosp. cbn [pbind].
  rewrite p_literal_dec by side. cbn [pbind].
  rewrite eol_or_eof_nl. cbn [pbind]. rewrite H1. reflexivity.
Qed.

(* ------------------------------------------------------------------ *)
(** ** The 7-bit codec: [usize_7bit] reads back what [encode7] writes *)

Lemma land_127_lt x : N.land x 127 < 128.
Proof.
  change 127 with (N.ones 7). rewrite N.land_ones. apply N.mod_lt. discriminate.
Qed.

Lemma split7 x : N.lor (N.land x 127) (N.shiftl (N.shiftr x 7) 7) = x.
Proof.
  apply N.bits_inj. intros k.
  rewrite N.lor_spec. change 127 with (N.ones 7). rewrite N.land_spec.
  destruct (N.ltb_spec k 7).
  - rewrite N.ones_spec_low by assumption. rewrite N.shiftl_spec_low by assumption.
    rewrite andb_true_r, orb_false_r. reflexivity.
  - rewrite N.ones_spec_high by assumption. rewrite N.shiftl_spec_high' by assumption.
    rewrite N.shiftr_spec'. rewrite andb_false_r. cbn [orb]. f_equal. lia.
Qed.

Lemma cont_byte x : N.land (N.lor (N.land x 127) 128) 127 = N.land x 127
                 /\ N.land (N.lor (N.land x 127) 128) 128 = 128.
Proof.
  split; apply N.bits_inj; intros k; rewrite !N.land_spec, N.lor_spec, N.land_spec.
  - change 127 with (N.ones 7). destruct (N.ltb_spec k 7).
    + rewrite N.ones_spec_low by assumption. rewrite !andb_true_r.
      replace (N.testbit 128 k) with false; [apply orb_false_r|].
      change 128 with (2 ^ 7). rewrite N.pow2_bits_false by lia. reflexivity.
    + rewrite N.ones_spec_high by assumption. rewrite !andb_false_r. reflexivity.
  - change 128 with (2 ^ 7). destruct (N.eq_dec k 7) as [->|Hk].
    + rewrite N.pow2_bits_true. rewrite orb_true_r. reflexivity.
    + rewrite N.pow2_bits_false by lia. rewrite !andb_false_r. reflexivity.
Qed.

Lemma shiftl_lt_two64 d x s : d <= x -> x < 2 ^ (64 - s) -> s < 64 -> N.shiftl d s < two64.
Proof.
  intros Hd Hx Hs. rewrite N.shiftl_mul_pow2.
  assert (2 ^ (64 - s) * 2 ^ s = two64).
  { rewrite <- N.pow_add_r. replace (64 - s + s) with 64 by lia. reflexivity. }
  assert (0 < 2 ^ s) by (apply N.neq_0_lt_0, N.pow_nonzero; discriminate).
  nia.
Qed.

Lemma land_mask_small v : v < two64 -> N.land v (two64 - 1) = v.
Proof.
  intros H. change (two64 - 1) with (N.ones 64). rewrite N.land_ones.
  apply N.mod_small. exact H.
Qed.

Lemma usize_7bit_from_encode : forall fuel x rest shift val,
  x < 2 ^ N.of_nat fuel -> shift < 64 -> x < 2 ^ (64 - shift) ->
  usize_7bit_from (encode7_fuel fuel x ++ rest) shift val
  = POk (N.lor val (N.shiftl x shift), rest).
Proof.
  induction fuel as [|f IH]; intros x rest shift val Hf Hs Hx.
  - cbn in Hf. assert (x = 0) by lia. subst x.
    cbn [encode7_fuel app usize_7bit_from].
    rewrite N.mod_small by assumption.
    change (N.land 0 127) with 0. change (N.land 0 128) with 0. rewrite N.shiftl_0_l.
    change (N.land 0 (two64 - 1)) with 0. rewrite N.eqb_refl. reflexivity.
  - cbn [encode7_fuel]. destruct (N.ltb_spec x 128) as [Hlt|Hge].
    + cbn [app usize_7bit_from]. rewrite N.mod_small by assumption.
      assert (E127 : N.land x 127 = x).
      { change 127 with (N.ones 7). rewrite N.land_ones. apply N.mod_small. exact Hlt. }
      assert (E128 : N.land x 128 = 0).
      { apply N.bits_inj. intros k. rewrite N.land_spec, N.bits_0.
        change 128 with (2 ^ 7). destruct (N.eq_dec k 7) as [->|Hk].
        - rewrite N.pow2_bits_true, andb_true_r.
          apply N.bits_above_log2. destruct (N.eq_dec x 0) as [->|]; [reflexivity|].
          apply N.log2_lt_pow2; lia.
        - rewrite N.pow2_bits_false by lia. apply andb_false_r. }
      rewrite E127, E128, N.eqb_refl.
      rewrite land_mask_small by (eapply shiftl_lt_two64; eauto; lia). reflexivity.
    + cbn [app usize_7bit_from]. rewrite N.mod_small by assumption.
      destruct (cont_byte x) as [E127 E128]. rewrite E127, E128.
      change (128 =? 0) with false. cbn match.
      assert (H7 : 7 < 64 - shift).
      { destruct (N.ltb_spec 7 (64 - shift)); [assumption|].
        assert (2 ^ (64 - shift) <= 2 ^ 7) by (apply N.pow_le_mono_r; lia).
        change (2 ^ 7) with 128 in *. lia. }
      rewrite land_mask_small.
      2:{ eapply shiftl_lt_two64; [| exact Hx | exact Hs]. pose proof (land_127_lt x). lia. }
      rewrite IH.
      * f_equal. f_equal. rewrite <- N.lor_assoc. f_equal.
        rewrite <- (split7 x) at 3. rewrite N.shiftl_lor. f_equal.
        rewrite N.shiftl_shiftl. f_equal. lia.
      * rewrite N.shiftr_div_pow2. change (2 ^ 7) with 128.
        rewrite Nat2N.inj_succ, N.pow_succ_r' in Hf.
        destruct f as [|f'].
        { cbn in Hf. lia. }
        rewrite Nat2N.inj_succ, N.pow_succ_r' in *.
        assert (x / 128 <= x / 2) by (apply N.div_le_compat_l; lia).
        assert (x / 2 < 2 * 2 ^ N.of_nat f') by (apply N.div_lt_upper_bound; lia).
        lia.
      * lia.
      * rewrite N.shiftr_div_pow2. change (2 ^ 7) with 128.
        apply N.div_lt_upper_bound; [discriminate|].
        replace (64 - shift) with (7 + (64 - (shift + 7))) in Hx by lia.
        rewrite N.pow_add_r in Hx. exact Hx.
Qed.

Theorem usize_7bit_encode7 x rest : x < two64 -> usize_7bit (encode7 x ++ rest) = POk (x, rest).
Proof.
  intros Hx. unfold usize_7bit, encode7. rewrite usize_7bit_from_encode.
  - rewrite N.shiftl_0_r, N.lor_0_l. reflexivity.
  - rewrite N2Nat.id. destruct (N.eq_dec x 0) as [->|]; [reflexivity|]. apply N.size_gt.
  - lia.
  - exact Hx.
Qed.

Lemma bin_and_print i a b rest :
  i * 2 < two64 -> a < i * 2 -> b <= a ->
  bin_and i (encode_gate (i * 2) a b ++ rest) = POk ((a, b), rest).
Proof.
  intros Hi Ha Hb. unfold bin_and, encode_gate, deltas.
  rewrite <- app_assoc. rewrite usize_7bit_encode7 by lia. cbn [pbind].
  rewrite usize_7bit_encode7 by lia. cbn [pbind].
  unfold and_gate_bin.
  destruct (N.ltb_spec (i * 2) (i * 2 - a)); [lia|].
  destruct (N.eqb_spec (i * 2 - a) 0); [lia|].
  destruct (N.ltb_spec (i * 2 - (i * 2 - a)) (a - b)); [lia|].
  cbn [orb]. do 3 f_equal; lia.
Qed.
