(** * Model of the AIGER reader (crates/oxidd-parser/src/aiger.rs), both formats

    Executable Gallina only (no proofs here).  Bytes and numbers are [N]; the
    input is a [list N] of bytes.  Every function is total; a parser returns
    [POk (value, remaining input)], [PErr] (the real parser returns a
    diagnostic) or [PFuel] (a count-driven loop ran out of fuel -- proved
    impossible in AigerProofs.v: the fuel of a loop is the length of its input
    plus one and every iteration consumes at least one byte).

    Mirrored Rust functions (nom combinators are modelled by what they accept):
    - [space0] [space1] [line_ending] [not_line_ending] [p_u64]
        = nom::character::complete::{space0, space1, line_ending, not_line_ending, u64}
    - [p_usize] [eol_or_eof] [trim_end]       = util::{usize, eol_or_eof, trim_end}
    - [p_format] [p_header]                   = aiger::{format, header}
    - [p_literal] [input_line] [latch_init_ext] [latch_line]
                                              = aiger::ascii::{literal, input_line, latch_init_ext, latch_line}
    - [sym_entry] [sym_apply] [sym_loop]      = aiger::ascii::symbol_table (one loop iteration split in its
                                                syntactic part and its effect on the six name vectors)
    - [usize_7bit]                            = aiger::usize_7bit (with the 64-bit [wrapping_shl])
    - [make_literal] [bin_latch] [bin_and]    = the closure and the loop bodies of the binary branch of aiger::parse
    - [p_props]                               = outputs / bad / invariants / justice / fairness (same code in both branches)
    - [define_all] [map_lit] [acyclic_b]      = ASCII branch: aig.map bookkeeping, "map literals", Circuit::find_cycle
    - [parse_aiger]                           = aiger::parse

    Structure of the ASCII branch: the Rust loops interleave reading a line with
    the check "second variable definition" on [aig.map]; the model first reads the
    section (the checks that do not depend on [aig.map] stay in the line parsers)
    and then runs the definitions over the lines read ([define_all]).  The result
    is a problem or a diagnostic in both cases, so the outcome is the same.
    [Circuit::find_cycle] is a recursive DFS returning a witness literal; only
    "is there a cycle" matters to the parser, [acyclic_b] decides that by
    iterated marking (soundness for the cases needed is proved in AigerProofs.v).

    Not modelled: allocation ([Vec::with_capacity] of header counts -- known
    finding), [String::from_utf8_lossy] (names are byte strings here; the driver
    compares names only when they are valid UTF-8), the [u32] overflow of the
    shift counter of [usize_7bit] after 2^32/7 bytes, stack depth of the DFS.

    The problem type [aproblem] mirrors [Problem { circuit, details: AIGER(..) }]
    field by field: [circuit.inputs.len] is [ap_inputs + length ap_latches],
    [circuit.inputs.names] is [sy_in ap_syms], the gates are [ap_ands] (all AND,
    two inputs).  Printers [print_aag] / [print_aig] write a problem whose
    variables are numbered inputs, latches, AND gates in order. *)

From Coq Require Import List NArith Bool.
From OxiVerif Require Import IO.Aiger.
Import ListNotations.
Open Scope N_scope.

(* ------------------------------------------------------------------ *)
(** ** Results *)

Inductive pres (A : Type) := POk (a : A) | PErr | PFuel.
Arguments POk {A} a.
Arguments PErr {A}.
Arguments PFuel {A}.

Definition pbind {A B} (r : pres A) (f : A -> pres B) : pres B :=
  match r with POk a => f a | PErr => PErr | PFuel => PFuel end.

Notation "'do' x <- r ; k" := (pbind r (fun x => k))
  (at level 200, x binder, r at level 100, k at level 200, right associativity).

(* ------------------------------------------------------------------ *)
(** ** Literals of the parsed circuit ([oxidd_parser::Literal]) *)

(** [ALConst false] = [Literal::FALSE], [ALConst true] = [Literal::TRUE],
    [ALUndef false] = [Literal::UNDEF] *)
Inductive alit :=
| ALConst (neg : bool)
| ALIn (neg : bool) (k : N)
| ALGate (neg : bool) (g : N)
| ALUndef (neg : bool).

Definition alit_eqb (x y : alit) : bool :=
  match x, y with
  | ALConst a, ALConst b => Bool.eqb a b
  | ALIn a k, ALIn b j => Bool.eqb a b && (k =? j)
  | ALGate a g, ALGate b h => Bool.eqb a b && (g =? h)
  | ALUndef a, ALUndef b => Bool.eqb a b
  | _, _ => false
  end.

(** [mapped.0 | (polarity << POLARITY_BIT)] on a non-negated literal *)
Definition alit_or_neg (l : alit) (n : bool) : alit :=
  match l with
  | ALConst a => ALConst (a || n)
  | ALIn a k => ALIn (a || n) k
  | ALGate a g => ALGate (a || n) g
  | ALUndef a => ALUndef (a || n)
  end.

Fixpoint alits_eqb (a b : list alit) : bool :=
  match a, b with
  | [], [] => true
  | x :: a', y :: b' => alit_eqb x y && alits_eqb a' b'
  | _, _ => false
  end.

Definition is_undef (l : alit) : bool := match l with ALUndef _ => true | _ => false end.

(** [Literal::from_input_or_false] *)
Definition from_input_or_false (neg : bool) (var : N) : alit :=
  if var =? 0 then ALConst neg else ALIn neg (var - 1).

(** the closure [make_literal] of the binary branch *)
Definition make_literal (first_and : N) (x : N) : alit :=
  let var := x / 2 in
  let neg := N.odd x in
  if first_and <=? var then ALGate neg (var - first_and) else from_input_or_false neg var.

(* ------------------------------------------------------------------ *)
(** ** The parsed problem *)

Definition aname := list N.
Definition anames := list (option aname).

(** the six name vectors filled by [symbol_table]:
    inputs.names, output_names, bad_names, invariant_names, justice_names, fairness_names *)
Record asyms := mkSyms {
  sy_in : anames; sy_out : anames; sy_bad : anames; sy_inv : anames; sy_just : anames; sy_fair : anames }.

Definition no_syms : asyms := mkSyms [] [] [] [] [] [].

Record aproblem := mkProblem {
  ap_inputs : N;                         (* AIGERDetails::inputs *)
  ap_latches : list alit;                (* latch inputs (next-state functions) *)
  ap_resets : list (option bool);        (* latch_init_values: Some false / Some true / None = uninitialised *)
  ap_outputs : list alit;
  ap_bad : list alit;
  ap_inv : list alit;
  ap_justice : list (list alit);
  ap_fair : list alit;
  ap_ands : list (alit * alit);          (* circuit gates: AND with two inputs *)
  ap_map : list alit;                    (* AIGER variable -> literal *)
  ap_syms : asyms }.

(* ------------------------------------------------------------------ *)
(** ** Character classes and the nom primitives *)

Definition is_sp (b : N) : bool := (b =? 32) || (b =? 9).
Definition is_digit (b : N) : bool := (48 <=? b) && (b <=? 57).
(** [u8::is_ascii_alphanumeric] *)
Definition is_alnum (b : N) : bool :=
  is_digit b || ((65 <=? b) && (b <=? 90)) || ((97 <=? b) && (b <=? 122)).

Fixpoint space0 (bs : list N) : list N :=
  match bs with
  | b :: r => if is_sp b then space0 r else bs
  | [] => []
  end.

Definition space1 (bs : list N) : pres (list N) :=
  match bs with
  | b :: r => if is_sp b then POk (space0 r) else PErr
  | [] => PErr
  end.

(** "\n" or "\r\n" *)
Definition line_ending (bs : list N) : pres (list N) :=
  match bs with
  | b :: r =>
    if b =? 10 then POk r
    else if b =? 13 then
      match r with
      | c :: r' => if c =? 10 then POk r' else PErr
      | [] => PErr
      end
    else PErr
  | [] => PErr
  end.

(** [preceded(space0, alt((line_ending, eof)))] *)
Definition eol_or_eof (bs : list N) : pres (list N) :=
  match space0 bs with
  | [] => POk []
  | r => line_ending r
  end.

(** value of the leading digits, remaining input *)
Fixpoint digits_val (bs : list N) (acc : N) : N * list N :=
  match bs with
  | b :: r => if is_digit b then digits_val r (acc * 10 + (b - 48)) else (acc, bs)
  | [] => (acc, [])
  end.

Definition two64 : N := 18446744073709551616.
(** [util::MAX_CAPACITY = usize::MAX / 2 / size_of::<usize>()] = 2^60 - 1 *)
Definition max_capacity : N := 1152921504606846975.

(** nom [u64]: at least one digit; [checked_mul]/[checked_add] overflow is an
    error (the running value is monotone, so the overflow test on the final
    value is the same test) *)
Definition p_u64 (bs : list N) : pres (N * list N) :=
  match bs with
  | b :: _ =>
    if is_digit b then
      let '(v, r) := digits_val bs 0 in
      if v <? two64 then POk (v, r) else PErr
    else PErr
  | [] => PErr
  end.

Definition p_usize (bs : list N) : pres (N * list N) :=
  do '(v, r) <- p_u64 bs;
  if max_capacity <? v then PErr else POk (v, r).

(** [not_line_ending]: up to the first '\r' or '\n'; a '\r' that is not
    followed by '\n' is an error *)
Fixpoint not_line_ending (bs : list N) : pres (list N * list N) :=
  match bs with
  | [] => POk ([], [])
  | b :: r =>
    if b =? 10 then POk ([], bs)
    else if b =? 13 then
      match r with
      | c :: _ => if c =? 10 then POk ([], bs) else PErr
      | [] => PErr
      end
    else match not_line_ending r with
         | POk (l, r') => POk (b :: l, r')
         | PErr => PErr
         | PFuel => PFuel
         end
  end.

(** [util::trim_end]: remove trailing spaces and tabs *)
Fixpoint trim_end (s : list N) : list N :=
  match s with
  | [] => []
  | b :: r =>
    match trim_end r with
    | [] => if is_sp b then [] else [b]
    | r' => b :: r'
    end
  end.

(* ------------------------------------------------------------------ *)
(** ** Count-driven loops ([util::collect], the [for] loops of [parse]) *)

(** [n] iterations; iteration [j] (0-based) runs [p (i + j)] *)
Fixpoint collect_i {A} (fuel : nat) (n i : N) (p : N -> list N -> pres (A * list N)) (bs : list N)
  : pres (list A * list N) :=
  if n =? 0 then POk ([], bs)
  else match fuel with
       | O => PFuel
       | S f =>
         match p i bs with
         | POk (x, r) =>
           match collect_i f (n - 1) (i + 1) p r with
           | POk (xs, r') => POk (x :: xs, r')
           | PErr => PErr
           | PFuel => PFuel
           end
         | PErr => PErr
         | PFuel => PFuel
         end
       end.

Definition collect {A} (n : N) (p : list N -> pres (A * list N)) (bs : list N) : pres (list A * list N) :=
  collect_i (S (length bs)) n 0 (fun _ => p) bs.

Definition collect_from {A} (n i : N) (p : N -> list N -> pres (A * list N)) (bs : list N)
  : pres (list A * list N) :=
  collect_i (S (length bs)) n i p bs.

(* ------------------------------------------------------------------ *)
(** ** Header *)

Record aheader := mkHeader {
  h_bin : bool; h_vars : N; h_in : N; h_lat : N; h_out : N; h_and : N;
  h_bad : N; h_inv : N; h_just : N; h_fair : N }.

(** [format]: "aag" / "aig" followed by a non-alphanumeric byte or the end *)
Definition p_format (bs : list N) : pres (bool * list N) :=
  match bs with
  | a :: b :: c :: r =>
    if (a =? 97) && (c =? 103) && ((b =? 97) || (b =? 105)) then
      match r with
      | d :: _ => if is_alnum d then PErr else POk (b =? 105, r)
      | [] => POk (b =? 105, r)
      end
    else PErr
  | _ => PErr
  end.

(** [preceded(space1, consumed(usize))] *)
Definition sp_usize (bs : list N) : pres (N * list N) :=
  do r <- space1 bs; p_usize r.

(** the optional counts B C J F: the first one that does not parse ends the list
    (any error, also "number too large") and leaves the input where it was *)
Fixpoint opt_nums (k : nat) (bs : list N) : list N * list N :=
  match k with
  | O => ([], bs)
  | S k' =>
    match sp_usize bs with
    | POk (n, r) => let '(ns, r') := opt_nums k' r in (n :: ns, r')
    | _ => ([], bs)
    end
  end.

Definition p_header (bs : list N) : pres (aheader * list N) :=
  do '(bin, r0) <- p_format bs;
  do '(vars, r1) <- sp_usize r0;
  do '(ins, r2) <- sp_usize r1;
  do '(lat, r3) <- sp_usize r2;
  do '(outs, r4) <- sp_usize r3;
  do '(nands, r5) <- sp_usize r4;
  let '(o, r6) := opt_nums 4 r5 in
  do r7 <- eol_or_eof r6;
  let h := mkHeader bin vars ins lat outs nands (nth 0 o 0) (nth 1 o 0) (nth 2 o 0) (nth 3 o 0) in
  let min_vars := ins + lat + nands in
  if bin then (if vars =? min_vars then POk (h, r7) else PErr)
  else (if vars <? min_vars then PErr else POk (h, r7)).

(* ------------------------------------------------------------------ *)
(** ** Lines *)

(** [ascii::literal(vars)] *)
Definition p_literal (vars : N) (bs : list N) : pres (N * list N) :=
  do '(lit, r) <- p_u64 bs;
  if vars <? lit / 2 then PErr else POk (lit, r).

(** [terminated(ascii::literal(h.vars), eol_or_eof)] *)
Definition literal_line (vars : N) (bs : list N) : pres (N * list N) :=
  do '(lit, r) <- p_literal vars bs;
  do r' <- eol_or_eof r;
  POk (lit, r').

(** [terminated(usize, eol_or_eof)] *)
Definition usize_line (bs : list N) : pres (N * list N) :=
  do '(n, r) <- p_usize bs;
  do r' <- eol_or_eof r;
  POk (n, r').

(** [ascii::input_line] *)
Definition input_line (vars : N) (bs : list N) : pres (N * list N) :=
  do '(lit, r) <- p_literal vars bs;
  if N.odd lit then PErr
  else do r' <- eol_or_eof r; POk (lit, r').

(** [ascii::latch_init_ext(latch)]: [opt(preceded(space1, u64))], then
    0 -> Some false, 1 -> Some true, the latch literal -> None *)
Definition latch_init_ext (latch : N) (bs : list N) : pres (option bool * list N) :=
  let '(init, r) :=
    match space1 bs with
    | POk r1 => match p_u64 r1 with
                | POk (v, r2) => (Some v, r2)
                | _ => (None, bs)
                end
    | _ => (None, bs)
    end in
  match init with
  | None => POk (Some false, r)
  | Some v =>
    if v =? 0 then POk (Some false, r)
    else if v =? 1 then POk (Some true, r)
    else if v =? latch then POk (None, r)
    else PErr
  end.

(** [ascii::latch_line]: latch literal, next-state literal, optional reset *)
Definition latch_line (vars : N) (bs : list N) : pres ((N * N * option bool) * list N) :=
  do '(lit, r1) <- p_literal vars bs;
  do r2 <- space1 r1;
  do '(inp, r3) <- p_literal vars r2;
  if N.odd lit then PErr
  else
    do '(init, r4) <- latch_init_ext lit r3;
    do r5 <- eol_or_eof r4;
    POk ((lit, inp, init), r5).

(** body of the loop "latches" of the binary branch; [i] is the latch number *)
Definition bin_latch (vars first_latch : N) (i : N) (bs : list N) : pres ((N * option bool) * list N) :=
  do '(lit, r1) <- p_literal vars bs;
  do '(init, r2) <- latch_init_ext ((i + first_latch) * 2) r1;
  do r3 <- eol_or_eof r2;
  POk ((lit, init), r3).

(** one AND gate line of the ASCII format: [lhs rhs0 rhs1] *)
Definition and_line (vars : N) (bs : list N) : pres ((N * N * N) * list N) :=
  do '(lit, r1) <- p_literal vars bs;
  do r2 <- space1 r1;
  do '(in1, r3) <- p_literal vars r2;
  do r4 <- space1 r3;
  do '(in2, r5) <- p_literal vars r4;
  do r6 <- eol_or_eof r5;
  if N.odd lit then PErr else POk ((lit, in1, in2), r6).

(** [usize_7bit]: little-endian base-128 digits; [wrapping_shl] reduces the
    shift modulo 64 and drops the bits shifted out of the 64-bit word *)
Fixpoint usize_7bit_from (bs : list N) (shift val : N) : pres (N * list N) :=
  match bs with
  | [] => PErr
  | b :: rem =>
    let val' := N.lor val (N.land (N.shiftl (N.land b 127) (shift mod 64)) (two64 - 1)) in
    if N.land b 128 =? 0 then POk (val', rem) else usize_7bit_from rem (shift + 7) val'
  end.
Definition usize_7bit (bs : list N) : pres (N * list N) := usize_7bit_from bs 0 0.

(** body of the loop "and gates" of the binary branch; [i] is the gate's variable *)
Definition bin_and (i : N) (bs : list N) : pres ((N * N) * list N) :=
  do '(d1, r1) <- usize_7bit bs;
  do '(d2, r2) <- usize_7bit r1;
  match and_gate_bin (i * 2) d1 d2 with
  | Some g => POk (g, r2)
  | None => PErr
  end.

(* ------------------------------------------------------------------ *)
(** ** outputs, bad, invariants, justice, fairness (raw AIGER literals) *)

Record aprops := mkProps {
  pr_out : list N; pr_bad : list N; pr_inv : list N; pr_just : list (list N); pr_fair : list N }.

(** [for &n in &justice_len { for _ in 0..n { literal line } }] *)
Fixpoint p_justice (vars : N) (lens : list N) (bs : list N) : pres (list (list N) * list N) :=
  match lens with
  | [] => POk ([], bs)
  | n :: lens' =>
    do '(js, r) <- collect n (literal_line vars) bs;
    do '(jss, r') <- p_justice vars lens' r;
    POk (js :: jss, r')
  end.

Definition p_props (h : aheader) (bs : list N) : pres (aprops * list N) :=
  let vars := h_vars h in
  do '(outs, r1) <- collect (h_out h) (literal_line vars) bs;
  do '(bad, r2) <- collect (h_bad h) (literal_line vars) r1;
  do '(inv, r3) <- collect (h_inv h) (literal_line vars) r2;
  do '(jlens, r4) <- collect (h_just h) usize_line r3;
  do '(just, r5) <- p_justice vars jlens r4;
  do '(fair, r6) <- collect (h_fair h) (literal_line vars) r5;
  POk (mkProps outs bad inv just fair, r6).

(* ------------------------------------------------------------------ *)
(** ** Symbol table *)

Inductive skind := KIn | KOut | KBad | KInv | KJust | KFair | KLatch.

(** the [match input] at the head of the loop of [symbol_table]; [None] = [break] *)
Definition sym_kind (bs : list N) : option (skind * list N) :=
  match bs with
  | b :: r =>
    if b =? 105 then Some (KIn, r)
    else if b =? 111 then Some (KOut, r)
    else if b =? 98 then Some (KBad, r)
    else if b =? 99 then
      match r with
      | d :: _ => if is_digit d then Some (KInv, r) else None
      | [] => None
      end
    else if b =? 106 then Some (KJust, r)
    else if b =? 102 then Some (KFair, r)
    else if b =? 108 then Some (KLatch, r)
    else None
  | [] => None
  end.

(** [alt((line_ending, eof))] *)
Definition line_ending_or_eof (bs : list N) : pres (list N) :=
  match bs with [] => POk [] | _ => line_ending bs end.

(** syntactic part of one iteration: kind, index, trimmed name;
    [POk (None, bs)] = the loop ends here *)
Definition sym_entry (bs : list N) : pres (option (skind * N * aname) * list N) :=
  match sym_kind bs with
  | None => POk (None, bs)
  | Some (k, r0) =>
    do '(i, r1) <- p_u64 r0;
    do r2 <- space1 r1;
    do '(name, r3) <- not_line_ending r2;
    do r4 <- line_ending_or_eof r3;
    POk (Some (k, i, trim_end name), r4)
  end.

Definition sym_count (h : aheader) (k : skind) : N :=
  match k with
  | KIn => h_in h | KOut => h_out h | KBad => h_bad h | KInv => h_inv h
  | KJust => h_just h | KFair => h_fair h | KLatch => h_lat h
  end.

(** [symbol_list.resize(count, None)] if empty, then set / append (with a
    separating space) entry [i] *)
Fixpoint set_name (l : anames) (i : nat) (name : aname) : anames :=
  match l, i with
  | [], _ => []
  | x :: r, O =>
    (match x with
     | Some old => Some (old ++ 32 :: name)
     | None => Some name
     end) :: r
  | x :: r, S i' => x :: set_name r i' name
  end.

Definition put_name (l : anames) (count i : N) (name : aname) : anames :=
  let l' := match l with [] => repeat None (N.to_nat count) | _ => l end in
  set_name l' (N.to_nat i) name.

Definition sym_apply (h : aheader) (st : asyms) (e : skind * N * aname) : option asyms :=
  let '(k, i, name) := e in
  if sym_count h k <=? i then None
  else
    let tot := h_in h + h_lat h in
    Some match k with
         | KIn => mkSyms (put_name (sy_in st) tot i name) (sy_out st) (sy_bad st) (sy_inv st) (sy_just st) (sy_fair st)
         | KLatch => mkSyms (put_name (sy_in st) tot (i + h_in h) name) (sy_out st) (sy_bad st) (sy_inv st) (sy_just st) (sy_fair st)
         | KOut => mkSyms (sy_in st) (put_name (sy_out st) (h_out h) i name) (sy_bad st) (sy_inv st) (sy_just st) (sy_fair st)
         | KBad => mkSyms (sy_in st) (sy_out st) (put_name (sy_bad st) (h_bad h) i name) (sy_inv st) (sy_just st) (sy_fair st)
         | KInv => mkSyms (sy_in st) (sy_out st) (sy_bad st) (put_name (sy_inv st) (h_inv h) i name) (sy_just st) (sy_fair st)
         | KJust => mkSyms (sy_in st) (sy_out st) (sy_bad st) (sy_inv st) (put_name (sy_just st) (h_just h) i name) (sy_fair st)
         | KFair => mkSyms (sy_in st) (sy_out st) (sy_bad st) (sy_inv st) (sy_just st) (put_name (sy_fair st) (h_fair h) i name)
         end.

Fixpoint sym_loop (fuel : nat) (h : aheader) (st : asyms) (bs : list N) : pres (asyms * list N) :=
  match fuel with
  | O => PFuel
  | S f =>
    do '(e, r) <- sym_entry bs;
    match e with
    | None => POk (st, r)
    | Some e =>
      match sym_apply h st e with
      | None => PErr
      | Some st' => sym_loop f h st' r
      end
    end
  end.

Definition symbol_table (h : aheader) (bs : list N) : pres (asyms * list N) :=
  sym_loop (S (length bs)) h no_syms bs.

(** [alt((preceded(tag("c"), rest), eof))] *)
Definition comment_or_eof (bs : list N) : bool :=
  match bs with
  | [] => true
  | b :: _ => b =? 99
  end.

(* ------------------------------------------------------------------ *)
(** ** ASCII branch: [aig.map] *)

Fixpoint upd {A} (l : list A) (i : nat) (x : A) : list A :=
  match l, i with
  | [], _ => []
  | _ :: r, O => x :: r
  | y :: r, S i' => y :: upd r i' x
  end.

(** the checks "second variable definition" and the assignments
    [aig.map[var] = mk(i)] of one definition loop; [lits] are the defining
    (even) literals in file order, [i] the running number *)
Fixpoint define_all (map : list alit) (lits : list N) (mk : N -> alit) (i : N) : option (list alit) :=
  match lits with
  | [] => Some map
  | x :: r =>
    let v := N.to_nat (x / 2) in
    match nth_error map v with
    | Some (ALUndef false) => define_all (upd map v (mk i)) r mk (i + 1)
    | _ => None
    end
  end.

(** the closure [map] of "map literals" *)
Definition map_lit (map : list alit) (x : N) : alit :=
  alit_or_neg (nth (N.to_nat (x / 2)) map (ALUndef false)) (N.odd x).

(* ------------------------------------------------------------------ *)
(** ** Acyclicity of the gate list (what [Circuit::find_cycle] decides) *)

Definition lit_marked (marks : list bool) (l : alit) : bool :=
  match l with
  | ALGate _ g => nth (N.to_nat g) marks false
  | _ => true
  end.

(** one round: a gate becomes marked when both inputs are non-gates or marked *)
Definition mark_round (gates : list (alit * alit)) (marks : list bool) : list bool :=
  map (fun g => lit_marked marks (fst g) && lit_marked marks (snd g)) gates.

Fixpoint mark_rounds (k : nat) (gates : list (alit * alit)) (marks : list bool) : list bool :=
  match k with
  | O => marks
  | S k' => mark_rounds k' gates (mark_round gates marks)
  end.

Definition acyclic_b (gates : list (alit * alit)) : bool :=
  forallb (fun b => b)
          (mark_rounds (length gates) gates (map (fun _ => false) gates)).

(* ------------------------------------------------------------------ *)
(** ** The parser *)

Definition seqN (start : N) (len : N) : list N :=
  map N.of_nat (seq (N.to_nat start) (N.to_nat len)).

(** [with_default_map] / the map collected "at the very end" of the binary branch *)
Definition default_map (first_and nands : N) : list alit :=
  map (from_input_or_false false) (seqN 0 first_and) ++ map (ALGate false) (seqN 0 nands).

(** what both branches hand over to the common tail of [parse] *)
Record abody := mkBody {
  b_lat : list alit; b_res : list (option bool);
  b_out : list alit; b_bad : list alit; b_inv : list alit; b_just : list (list alit); b_fair : list alit;
  b_ands : list (alit * alit); b_map : list alit }.

Definition lits_undef (b : abody) : bool :=
  existsb is_undef (b_lat b) || existsb is_undef (b_out b) || existsb is_undef (b_bad b)
  || existsb is_undef (b_inv b) || existsb (existsb is_undef) (b_just b) || existsb is_undef (b_fair b)
  || existsb (fun g => is_undef (fst g) || is_undef (snd g)) (b_ands b).

(** binary branch: latches, properties, AND gates *)
Definition parse_bin_body (h : aheader) (bs : list N) : pres (abody * list N) :=
  let first_latch := 1 + h_in h in
  let first_and := first_latch + h_lat h in
  let ml := make_literal first_and in
  do '(lats, r1) <- collect_from (h_lat h) 0 (bin_latch (h_vars h) first_latch) bs;
  do '(props, r2) <- p_props h r1;
  do '(ands, r3) <- collect_from (h_and h) first_and bin_and r2;
  POk (mkBody (map (fun x => ml (fst x)) lats) (map snd lats)
              (map ml (pr_out props)) (map ml (pr_bad props)) (map ml (pr_inv props))
              (map (map ml) (pr_just props)) (map ml (pr_fair props))
              (map (fun g => (ml (fst g), ml (snd g))) ands)
              (default_map first_and (h_and h)), r3).

(** ASCII branch *)
Definition parse_ascii_body (check_acyclic : bool) (h : aheader) (bs : list N) : pres (abody * list N) :=
  let vars := h_vars h in
  do '(ins, r1) <- collect (h_in h) (input_line vars) bs;
  do '(lats, r2) <- collect (h_lat h) (latch_line vars) r1;
  do '(props, r3) <- p_props h r2;
  do '(ands, r4) <- collect (h_and h) (and_line vars) r3;
  let map0 := ALConst false :: repeat (ALUndef false) (N.to_nat vars) in
  match define_all map0 ins (from_input_or_false false) 1 with
  | None => PErr
  | Some map1 =>
    match define_all map1 (map (fun x => fst (fst x)) lats) (from_input_or_false false) (1 + h_in h) with
    | None => PErr
    | Some map2 =>
      match define_all map2 (map (fun x => fst (fst x)) ands) (ALGate false) 0 with
      | None => PErr
      | Some map3 =>
        let ml := map_lit map3 in
        let b := mkBody (map (fun x => ml (snd (fst x))) lats) (map snd lats)
                        (map ml (pr_out props)) (map ml (pr_bad props)) (map ml (pr_inv props))
                        (map (map ml) (pr_just props)) (map ml (pr_fair props))
                        (map (fun g => (ml (snd (fst g)), ml (snd g))) ands) map3 in
        if lits_undef b then PErr
        else if check_acyclic && negb (acyclic_b (b_ands b)) then PErr
        else POk (b, r4)
      end
    end
  end.

(** [aiger::parse]; the remaining input of the nom parser is dropped *)
Definition parse_aiger (check_acyclic : bool) (bs : list N) : pres aproblem :=
  do '(h, r0) <- p_header bs;
  do '(b, r1) <- (if h_bin h then parse_bin_body h r0 else parse_ascii_body check_acyclic h r0);
  do '(syms, r2) <- symbol_table h r1;
  if comment_or_eof r2 then
    POk (mkProblem (h_in h) (b_lat b) (b_res b) (b_out b) (b_bad b) (b_inv b) (b_just b) (b_fair b)
                   (b_ands b) (b_map b) syms)
  else PErr.

(* ------------------------------------------------------------------ *)
(** ** Printers (variables numbered inputs, latches, AND gates in order) *)

Fixpoint dec_go (fuel : nat) (n : N) (acc : list N) : list N :=
  match fuel with
  | O => acc
  | S f => let acc' := (48 + n mod 10) :: acc in
           if n <? 10 then acc' else dec_go f (n / 10) acc'
  end.
(** decimal digits of [n] *)
Definition dec (n : N) : list N := dec_go (S (N.to_nat (N.size n))) n [].

Definition b2n (b : bool) : N := if b then 1 else 0.

(** AIGER literal number of a circuit literal when variable [1 + k] is input /
    latch [k] and variable [first_and + g] is gate [g] *)
Definition aig_of_lit (first_and : N) (l : alit) : N :=
  match l with
  | ALConst neg => b2n neg
  | ALIn neg k => 2 * (k + 1) + b2n neg
  | ALGate neg g => 2 * (first_and + g) + b2n neg
  | ALUndef neg => b2n neg
  end.

Definition nl : list N := [10].
Definition sp : list N := [32].

Definition lenN {A} (l : list A) : N := N.of_nat (length l).

Definition p_first_and (p : aproblem) : N := 1 + ap_inputs p + lenN (ap_latches p).

Definition print_header (bin : bool) (p : aproblem) : list N :=
  let i := ap_inputs p in
  let l := lenN (ap_latches p) in
  let a := lenN (ap_ands p) in
  let b := lenN (ap_bad p) in
  let c := lenN (ap_inv p) in
  let j := lenN (ap_justice p) in
  let f := lenN (ap_fair p) in
  [97; if bin then 105 else 97; 103] ++ sp ++ dec (i + l + a) ++ sp ++ dec i ++ sp ++ dec l
  ++ sp ++ dec (lenN (ap_outputs p)) ++ sp ++ dec a
  ++ (if (b =? 0) && (c =? 0) && (j =? 0) && (f =? 0) then []
      else sp ++ dec b ++ sp ++ dec c ++ sp ++ dec j ++ sp ++ dec f)
  ++ nl.

Definition print_lit_line (fa : N) (l : alit) : list N := dec (aig_of_lit fa l) ++ nl.

Definition print_reset (own : N) (r : option bool) : list N :=
  match r with
  | Some false => []
  | Some true => sp ++ dec 1
  | None => sp ++ dec own
  end.

Definition print_props (p : aproblem) : list N :=
  let fa := p_first_and p in
  flat_map (print_lit_line fa) (ap_outputs p)
  ++ flat_map (print_lit_line fa) (ap_bad p)
  ++ flat_map (print_lit_line fa) (ap_inv p)
  ++ flat_map (fun js => dec (lenN js) ++ nl) (ap_justice p)
  ++ flat_map (flat_map (print_lit_line fa)) (ap_justice p)
  ++ flat_map (print_lit_line fa) (ap_fair p).

(** symbol lines of one name vector: [c<i> name\n] for every named entry, index
    starting at [i] *)
Fixpoint print_names (c : N) (i : N) (l : anames) : list N :=
  match l with
  | [] => []
  | x :: r =>
    (match x with
     | Some name => c :: dec i ++ sp ++ name ++ nl
     | None => []
     end) ++ print_names c (i + 1) r
  end.

Definition print_syms (p : aproblem) : list N :=
  let s := ap_syms p in
  let ni := N.to_nat (ap_inputs p) in
  print_names 105 0 (firstn ni (sy_in s)) ++ print_names 108 0 (skipn ni (sy_in s))
  ++ print_names 111 0 (sy_out s) ++ print_names 98 0 (sy_bad s) ++ print_names 99 0 (sy_inv s)
  ++ print_names 106 0 (sy_just s) ++ print_names 102 0 (sy_fair s).

(** [flat_map] with a running index *)
Fixpoint flat_map_i {A} (f : N -> A -> list N) (i : N) (l : list A) : list N :=
  match l with
  | [] => []
  | x :: r => f i x ++ flat_map_i f (i + 1) r
  end.

(** latch [k] (0-based) with next-state literal and reset *)
Definition print_latch (ascii : bool) (ni fa : N) (k : N) (x : alit * option bool) : list N :=
  let own := 2 * (1 + ni + k) in
  (if ascii then dec own ++ sp else [])
  ++ dec (aig_of_lit fa (fst x)) ++ print_reset own (snd x) ++ nl.

Definition print_latches (ascii : bool) (p : aproblem) : list N :=
  flat_map_i (print_latch ascii (ap_inputs p) (p_first_and p)) 0 (combine (ap_latches p) (ap_resets p)).

Definition print_and_aag (fa : N) (k : N) (g : alit * alit) : list N :=
  dec (2 * (fa + k)) ++ sp ++ dec (aig_of_lit fa (fst g)) ++ sp ++ dec (aig_of_lit fa (snd g)) ++ nl.

Definition print_and_aig (fa : N) (k : N) (g : alit * alit) : list N :=
  encode_gate (2 * (fa + k)) (aig_of_lit fa (fst g)) (aig_of_lit fa (snd g)).

Definition print_aag (p : aproblem) : list N :=
  let fa := p_first_and p in
  print_header false p
  ++ flat_map (fun k => dec (2 * (k + 1)) ++ nl) (seqN 0 (ap_inputs p))
  ++ print_latches true p
  ++ print_props p
  ++ flat_map_i (print_and_aag fa) 0 (ap_ands p)
  ++ print_syms p.

Definition print_aig (p : aproblem) : list N :=
  let fa := p_first_and p in
  print_header true p
  ++ print_latches false p
  ++ print_props p
  ++ flat_map_i (print_and_aig fa) 0 (ap_ands p)
  ++ print_syms p.

(* ------------------------------------------------------------------ *)
(** ** Well-formed (binary-encodable) problems, decidable *)

Definition lit_ok_b (nvars nands : N) (l : alit) : bool :=
  match l with
  | ALConst _ => true
  | ALIn _ k => k <? nvars
  | ALGate _ g => g <? nands
  | ALUndef _ => false
  end.

(** a name that a symbol line reproduces: no line break, no leading / trailing
    space or tab *)
Definition name_ok_b (n : aname) : bool :=
  forallb (fun b => negb ((b =? 10) || (b =? 13))) n
  && match n with b :: _ => negb (is_sp b) | [] => true end
  && match rev n with b :: _ => negb (is_sp b) | [] => true end.

(** a name vector as the parser leaves it: empty, or one entry per object and at
    least one name *)
Definition names_ok_b (count : N) (l : anames) : bool :=
  match l with
  | [] => true
  | _ => (lenN l =? count)
         && existsb (fun x => match x with Some _ => true | None => false end) l
         && forallb (fun x => match x with Some n => name_ok_b n | None => true end) l
  end.

(** gate [k]: both inputs are literals of the problem, [rhs1 <= rhs0 < lhs] *)
Definition and_ok_b (nvars nands fa : N) (k : N) (g : alit * alit) : bool :=
  lit_ok_b nvars nands (fst g) && lit_ok_b nvars nands (snd g)
  && (aig_of_lit fa (fst g) <? 2 * (fa + k)) && (aig_of_lit fa (snd g) <=? aig_of_lit fa (fst g)).

Fixpoint forallb_i {A} (f : N -> A -> bool) (i : N) (l : list A) : bool :=
  match l with
  | [] => true
  | x :: r => f i x && forallb_i f (i + 1) r
  end.

Definition wf_b (p : aproblem) : bool :=
  let nvars := ap_inputs p + lenN (ap_latches p) in
  let nands := lenN (ap_ands p) in
  let fa := p_first_and p in
  let ok := lit_ok_b nvars nands in
  let s := ap_syms p in
  (lenN (ap_resets p) =? lenN (ap_latches p))
  && (nvars + nands <=? max_capacity)
  && (lenN (ap_outputs p) <=? max_capacity) && (lenN (ap_bad p) <=? max_capacity)
  && (lenN (ap_inv p) <=? max_capacity) && (lenN (ap_justice p) <=? max_capacity)
  && (lenN (ap_fair p) <=? max_capacity)
  && forallb (fun js => lenN js <=? max_capacity) (ap_justice p)
  && forallb ok (ap_latches p) && forallb ok (ap_outputs p) && forallb ok (ap_bad p)
  && forallb ok (ap_inv p) && forallb (forallb ok) (ap_justice p) && forallb ok (ap_fair p)
  && forallb_i (and_ok_b nvars nands fa) 0 (ap_ands p)
  && alits_eqb (ap_map p) (default_map fa nands)
  && names_ok_b nvars (sy_in s) && names_ok_b (lenN (ap_outputs p)) (sy_out s)
  && names_ok_b (lenN (ap_bad p)) (sy_bad s) && names_ok_b (lenN (ap_inv p)) (sy_inv s)
  && names_ok_b (lenN (ap_justice p)) (sy_just s) && names_ok_b (lenN (ap_fair p)) (sy_fair s).
