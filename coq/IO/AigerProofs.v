(** * C18p proofs, part 4: round trips and the ASCII / binary equivalence

    For every well-formed problem [p] ([wf_b p = true]: variables numbered
    inputs, latches, AND gates in order, i.e. what the binary format can
    express), the model reader gives back [p] from both printed forms:
      [parse_aiger ca (print_aag p) = POk p]  and  [parse_aiger ca (print_aig p) = POk p],
    hence the two files parse to the same problem. *)
From Coq Require Import List NArith ZArith Bool Arith Lia.
From OxiVerif Require Import IO.Aiger IO.AigerParse IO.AigerLexProofs IO.AigerSecProofs IO.AigerSymProofs.
Import ListNotations.
Open Scope N_scope.

Ltac Zify.zify_post_hook ::= Z.to_euclidean_division_equations.

Arguments N.add : simpl never.
Arguments N.sub : simpl never.
Arguments N.mul : simpl never.
Arguments N.div : simpl never.
Arguments N.modulo : simpl never.
Arguments N.pow : simpl never.
Arguments N.ltb : simpl never.
Arguments N.leb : simpl never.
Arguments N.eqb : simpl never.
Arguments N.odd : simpl never.
Arguments N.of_nat : simpl never.
Arguments N.to_nat : simpl never.

(* ------------------------------------------------------------------ *)
(** ** Well-formedness as a proposition *)

Definition nvars (p : aproblem) : N := ap_inputs p + lenN (ap_latches p).
Definition nands (p : aproblem) : N := lenN (ap_ands p).

Record wf (p : aproblem) : Prop := mkWf {
  wf_res : length (ap_resets p) = length (ap_latches p);
  wf_cap : nvars p + nands p <= max_capacity;
  wf_nout : lenN (ap_outputs p) <= max_capacity;
  wf_nbad : lenN (ap_bad p) <= max_capacity;
  wf_ninv : lenN (ap_inv p) <= max_capacity;
  wf_njust : lenN (ap_justice p) <= max_capacity;
  wf_nfair : lenN (ap_fair p) <= max_capacity;
  wf_jlen : Forall (fun js => lenN js <= max_capacity) (ap_justice p);
  wf_lat : Forall (lit_ok (nvars p) (nands p)) (ap_latches p);
  wf_out : Forall (lit_ok (nvars p) (nands p)) (ap_outputs p);
  wf_bad : Forall (lit_ok (nvars p) (nands p)) (ap_bad p);
  wf_inv : Forall (lit_ok (nvars p) (nands p)) (ap_inv p);
  wf_just : Forall (Forall (lit_ok (nvars p) (nands p))) (ap_justice p);
  wf_fair : Forall (lit_ok (nvars p) (nands p)) (ap_fair p);
  wf_ands : forall k g, nth_error (ap_ands p) k = Some g ->
                        and_ok_b (nvars p) (nands p) (1 + nvars p) (N.of_nat k) g = true;
  wf_map : ap_map p = default_map (1 + nvars p) (nands p);
  wf_nin : names_ok_b (nvars p) (sy_in (ap_syms p)) = true;
  wf_nmo : names_ok_b (lenN (ap_outputs p)) (sy_out (ap_syms p)) = true;
  wf_nmb : names_ok_b (lenN (ap_bad p)) (sy_bad (ap_syms p)) = true;
  wf_nmc : names_ok_b (lenN (ap_inv p)) (sy_inv (ap_syms p)) = true;
  wf_nmj : names_ok_b (lenN (ap_justice p)) (sy_just (ap_syms p)) = true;
  wf_nmf : names_ok_b (lenN (ap_fair p)) (sy_fair (ap_syms p)) = true }.

Lemma alit_eqb_eq x y : alit_eqb x y = true -> x = y.
Proof.
  destruct x as [a|a k|a g|a], y as [b|b j|b h|b]; cbn; try discriminate; intros H;
    repeat match goal with
           | H : _ && _ = true |- _ => apply andb_true_iff in H; destruct H
           end;
    repeat match goal with
           | H : Bool.eqb _ _ = true |- _ => apply eqb_prop in H
           | H : (_ =? _) = true |- _ => apply N.eqb_eq in H
           end; subst; reflexivity.
Qed.

Lemma alits_eqb_eq : forall a b, alits_eqb a b = true -> a = b.
Proof.
  induction a as [|x a IH]; intros [|y b]; cbn; try discriminate; [reflexivity|].
  rewrite andb_true_iff. intros [H1 H2]. apply alit_eqb_eq in H1. apply IH in H2. subst. reflexivity.
Qed.

Lemma alit_eqb_refl x : alit_eqb x x = true.
Proof. destruct x as [a|a k|a g|a]; cbn; rewrite ?eqb_reflx, ?N.eqb_refl; reflexivity. Qed.

Lemma alits_eqb_refl : forall a, alits_eqb a a = true.
Proof. induction a; cbn; [reflexivity|]. rewrite alit_eqb_refl. assumption. Qed.

Lemma forallb_Forall {A} (f : A -> bool) l : forallb f l = true -> Forall (fun x => f x = true) l.
Proof. intros H. apply Forall_forall. apply forallb_forall. exact H. Qed.

Lemma forallb_i_nth {A} (f : N -> A -> bool) : forall l i, forallb_i f i l = true ->
  forall k x, nth_error l k = Some x -> f (i + N.of_nat k) x = true.
Proof.
  induction l as [|y l IH]; intros i H k x Hk; [destruct k; discriminate|].
  cbn in H. apply andb_true_iff in H. destruct H as [H1 H2]. destruct k as [|k].
  - inversion Hk; subst. replace (i + N.of_nat 0) with i by lia. exact H1.
  - replace (i + N.of_nat (S k)) with (i + 1 + N.of_nat k) by lia. apply (IH _ H2). exact Hk.
Qed.

Theorem wf_b_wf p : wf_b p = true -> wf p.
Proof.
  unfold wf_b. rewrite !andb_true_iff.
  intros [[[[[[[[[[[[[[[[[[[[[H1 H2] H3] H4] H5] H6] H7] H8] H9] H10] H11] H12] H13] H14] H15] H16] H17] H18] H19] H20] H21] H22].
  fold (nvars p) in *. fold (nands p) in *. unfold p_first_and in *. fold (nvars p) in *.
  replace (1 + ap_inputs p + lenN (ap_latches p)) with (1 + nvars p) in * by (unfold nvars; lia).
  apply N.eqb_eq in H1. apply N.leb_le in H2, H3, H4, H5, H6, H7.
  constructor; try assumption; try (apply forallb_Forall; assumption).
  - unfold lenN in H1. lia.
  - apply forallb_Forall in H8. eapply Forall_impl; [|exact H8]. intros a Ha. apply N.leb_le. exact Ha.
  - apply forallb_Forall in H13. eapply Forall_impl; [|exact H13]. intros a Ha.
    apply forallb_Forall. exact Ha.
  - intros k g Hk. apply (forallb_i_nth _ _ _ H15 k g Hk).
  - apply alits_eqb_eq. exact H16.
Qed.

(* ------------------------------------------------------------------ *)
(** ** Header *)

Definition header_of (bin : bool) (p : aproblem) : aheader :=
  mkHeader bin (nvars p + nands p) (ap_inputs p) (lenN (ap_latches p)) (lenN (ap_outputs p)) (nands p)
           (lenN (ap_bad p)) (lenN (ap_inv p)) (lenN (ap_justice p)) (lenN (ap_fair p)).

Lemma p_format_print (bin : bool) r :
  p_format ([97; (if bin then 105 else 97); 103] ++ sp ++ r) = POk (bin, sp ++ r).
Proof. destruct bin; reflexivity. Qed.

Lemma opt_nums_nl k r : opt_nums k (nl ++ r) = ([], nl ++ r).
Proof. destruct k; reflexivity. Qed.

Theorem p_header_print bin p rest : wf p ->
  p_header (print_header bin p ++ rest) = POk (header_of bin p, rest).
Proof.
  intros W. destruct W. unfold nvars, nands in *.
  unfold p_header, print_header. rewrite <- !app_assoc. rewrite p_format_print. cbn [pbind].
  assert (Hx : forall x, nodigit (sp ++ x)) by reflexivity.
  rewrite sp_usize_dec by (try apply Hx; lia). cbn [pbind].
  rewrite sp_usize_dec by (try apply Hx; lia). cbn [pbind].
  rewrite sp_usize_dec by (try apply Hx; lia). cbn [pbind].
  rewrite sp_usize_dec by (try apply Hx; lia). cbn [pbind].
  destruct ((lenN (ap_bad p) =? 0) && (lenN (ap_inv p) =? 0) && (lenN (ap_justice p) =? 0)
            && (lenN (ap_fair p) =? 0)) eqn:Eopt.
  - apply andb_true_iff in Eopt. destruct Eopt as [Eopt Ef]. apply andb_true_iff in Eopt.
    destruct Eopt as [Eopt Ej]. apply andb_true_iff in Eopt. destruct Eopt as [Eb Ec].
    apply N.eqb_eq in Eb, Ec, Ej, Ef.
    cbn [app]. rewrite sp_usize_dec by (try reflexivity; lia). cbn [pbind].
    rewrite opt_nums_nl. rewrite eol_or_eof_nl. cbn [pbind nth].
    unfold header_of, nvars, nands. rewrite Eb, Ec, Ej, Ef.
    destruct bin.
    + rewrite N.eqb_refl. reflexivity.
    + destruct (N.ltb_spec (ap_inputs p + lenN (ap_latches p) + lenN (ap_ands p))
                           (ap_inputs p + lenN (ap_latches p) + lenN (ap_ands p))); [lia|reflexivity].
  - rewrite <- !app_assoc.
    rewrite sp_usize_dec by (try apply Hx; lia). cbn [pbind].
    cbn [opt_nums].
    rewrite sp_usize_dec by (try apply Hx; lia).
    rewrite sp_usize_dec by (try apply Hx; lia).
    rewrite sp_usize_dec by (try apply Hx; lia).
    rewrite sp_usize_dec by (try reflexivity; lia).
    rewrite eol_or_eof_nl. cbn [pbind nth].
    unfold header_of, nvars, nands.
    destruct bin.
    + rewrite N.eqb_refl. reflexivity.
    + destruct (N.ltb_spec (ap_inputs p + lenN (ap_latches p) + lenN (ap_ands p))
                           (ap_inputs p + lenN (ap_latches p) + lenN (ap_ands p))); [lia|reflexivity].
Qed.

(* ------------------------------------------------------------------ *)
(** ** Helpers for the bodies *)

Lemma map_fst_combine {A B} : forall (a : list A) (b : list B), length a = length b ->
  map fst (combine a b) = a.
Proof.
  induction a as [|x a IH]; intros [|y b] H; cbn in *; try discriminate; [reflexivity|].
  f_equal. apply IH. lia.
Qed.

Lemma map_snd_combine {A B} : forall (a : list A) (b : list B), length a = length b ->
  map snd (combine a b) = b.
Proof.
  induction a as [|x a IH]; intros [|y b] H; cbn in *; try discriminate; [reflexivity|].
  f_equal. apply IH. lia.
Qed.

Lemma map_id_in {A} (f : A -> A) l : (forall x, In x l -> f x = x) -> map f l = l.
Proof.
  induction l as [|y l IH]; intros H; cbn; [reflexivity|]. f_equal; [apply H; left; reflexivity|].
  apply IH. intros x Hx. apply H. right. exact Hx.
Qed.

Lemma encode7_fuel_nonempty f x : encode7_fuel f x <> [].
Proof. destruct f; cbn; [discriminate|]. destruct (x <? 128); discriminate. Qed.

Lemma encode_gate_nonempty lhs a b : encode_gate lhs a b <> [].
Proof.
  unfold encode_gate, deltas, encode7. pose proof (encode7_fuel_nonempty (N.to_nat (N.size (lhs - a))) (lhs - a)).
  destruct (encode7_fuel _ (lhs - a)); [contradiction|discriminate].
Qed.

Lemma In_seqN s n x : In x (seqN s n) -> s <= x < s + n.
Proof.
  unfold seqN. rewrite in_map_iff. intros (k & <- & Hk). apply in_seq in Hk. lia.
Qed.

Section Bodies.
  Variable p : aproblem.
  Hypothesis W : wf p.

  Let nv := nvars p.
  Let na := nands p.
  Let fa := 1 + nv.
  Let a := aig_of_lit fa.

  Lemma fa_first_and : p_first_and p = fa.
  Proof. unfold p_first_and, fa, nv, nvars. lia. Qed.

  Lemma lit_ok_a l : lit_ok nv na l -> a l < two64 /\ a l / 2 <= nv + na.
  Proof. apply (aig_of_lit_bound nv na (wf_cap p W)). Qed.

  Lemma map_make_literal ls : Forall (lit_ok nv na) ls -> map (make_literal fa) (map a ls) = ls.
  Proof.
    intros H. rewrite map_map. apply map_id_in. intros x Hx.
    apply (make_literal_aig_of_lit nv na (wf_cap p W)). rewrite Forall_forall in H. auto.
  Qed.

  Lemma map_map_lit ls : Forall (lit_ok nv na) ls ->
    map (map_lit (default_map fa na)) (map a ls) = ls.
  Proof.
    intros H. rewrite map_map. apply map_id_in. intros x Hx.
    apply map_lit_default. rewrite Forall_forall in H. auto.
  Qed.

  Lemma and_facts k g : nth_error (ap_ands p) k = Some g ->
    lit_ok nv na (fst g) /\ lit_ok nv na (snd g) /\
    a (fst g) < 2 * (fa + N.of_nat k) /\ a (snd g) <= a (fst g).
  Proof.
    intros Hk. pose proof (wf_ands p W k g Hk) as H. unfold and_ok_b in H.
    rewrite !andb_true_iff in H. destruct H as [[[H1 H2] H3] H4].
    apply N.ltb_lt in H3. apply N.leb_le in H4. auto.
  Qed.

  Lemma nands_bound k : (k < length (ap_ands p))%nat -> fa + N.of_nat k <= nv + na.
  Proof. unfold fa, na, nands, lenN. lia. Qed.

  Lemma latch_facts j x : nth_error (combine (ap_latches p) (ap_resets p)) j = Some x ->
    lit_ok nv na (fst x) /\ N.of_nat j < lenN (ap_latches p).
  Proof.
    intros Hj. split.
    - pose proof (wf_lat p W) as H. rewrite Forall_forall in H. apply H.
      apply nth_error_In in Hj. destruct x. eapply in_combine_l. exact Hj.
    - assert (j < length (combine (ap_latches p) (ap_resets p)))%nat by (apply nth_error_Some; congruence).
      rewrite combine_length in H. unfold lenN. lia.
  Qed.

  Lemma combine_lenN : lenN (combine (ap_latches p) (ap_resets p)) = lenN (ap_latches p).
  Proof. unfold lenN. rewrite combine_length, (wf_res p W). f_equal. lia. Qed.

  Definition body_of : abody :=
    mkBody (ap_latches p) (ap_resets p) (ap_outputs p) (ap_bad p) (ap_inv p) (ap_justice p) (ap_fair p)
           (ap_ands p) (default_map fa na).

  (** *** binary *)

  Lemma bin_latches_print rest :
    collect_from (lenN (ap_latches p)) 0 (bin_latch (nv + na) (1 + ap_inputs p))
                 (print_latches false p ++ rest)
    = POk (map_i (fun (_ : N) x => (a (fst x), snd x)) 0 (combine (ap_latches p) (ap_resets p)), rest).
  Proof.
    unfold print_latches. rewrite fa_first_and.
    apply collect_from_print.
    - symmetry. apply combine_lenN.
    - intros k x. unfold print_latch. cbn [app].
      pose proof (dec_nonempty (aig_of_lit fa (fst x))). destruct (dec _); [contradiction|discriminate].
    - intros j x r k Hj ->. destruct (latch_facts j x Hj) as [Hok Hlt].
      destruct (lit_ok_a _ Hok). unfold print_latch. cbn [app]. rewrite <- !app_assoc.
      replace (2 * (1 + ap_inputs p + (0 + N.of_nat j))) with ((0 + N.of_nat j + (1 + ap_inputs p)) * 2) by lia.
      pose proof (wf_cap p W). unfold nvars, max_capacity, two64 in *.
      apply bin_latch_print; try assumption; unfold two64; lia.
  Qed.

  Lemma bin_ands_print rest :
    collect_from na fa bin_and (flat_map_i (print_and_aig fa) 0 (ap_ands p) ++ rest)
    = POk (map_i (fun (_ : N) g => (a (fst g), a (snd g))) fa (ap_ands p), rest).
  Proof.
    set (pr := fun (i : N) (g : alit * alit) => encode_gate (i * 2) (a (fst g)) (a (snd g))).
    replace (flat_map_i (print_and_aig fa) 0 (ap_ands p)) with (flat_map_i pr fa (ap_ands p)).
    2:{ replace fa with (fa + 0) at 1 by lia. rewrite <- flat_map_i_shift.
        apply flat_map_i_ext. intros j x _. unfold pr, print_and_aig, a. f_equal. lia. }
    apply collect_from_print.
    - reflexivity.
    - intros k x. apply encode_gate_nonempty.
    - intros j g r k Hj ->. destruct (and_facts j g Hj) as (H1 & H2 & H3 & H4).
      assert (j < length (ap_ands p))%nat by (apply nth_error_Some; congruence).
      pose proof (nands_bound j H). pose proof (wf_cap p W). unfold max_capacity, two64 in *.
      unfold pr. apply bin_and_print; unfold two64; lia.
  Qed.

  Theorem parse_bin_body_print rest :
    parse_bin_body (header_of true p)
                   (print_latches false p ++ print_props p ++ flat_map_i (print_and_aig fa) 0 (ap_ands p) ++ rest)
    = POk (body_of, rest).
  Proof.
    destruct W. unfold parse_bin_body. cbn [header_of h_in h_lat h_vars h_and].
    fold nv na. rewrite bin_latches_print. cbn [pbind].
    rewrite (p_props_print nv na); try assumption; try reflexivity; [|apply fa_first_and].
    cbn [pbind]. fold fa.
    replace (1 + ap_inputs p + lenN (ap_latches p)) with fa by (unfold fa, nv, nvars; lia).
    rewrite bin_ands_print. cbn [pbind pr_out pr_bad pr_inv pr_just pr_fair].
    unfold body_of. fold a. f_equal. f_equal.
    f_equal.
    - rewrite map_map_i, map_i_const. cbn [fst].
      rewrite <- (map_map fst (fun l => make_literal fa (a l))).
      rewrite map_fst_combine by (symmetry; assumption).
      rewrite <- map_map. apply map_make_literal. assumption.
    - rewrite map_map_i, map_i_const. cbn [snd]. apply map_snd_combine. symmetry; assumption.
    - apply map_make_literal; assumption.
    - apply map_make_literal; assumption.
    - apply map_make_literal; assumption.
    - rewrite map_map. apply map_id_in. intros js Hjs. apply map_make_literal.
      rewrite Forall_forall in wf_just0. auto.
    - apply map_make_literal; assumption.
    - rewrite map_map_i, map_i_const. cbn [fst snd]. apply map_id_in. intros g Hg.
      apply In_nth_error in Hg. destruct Hg as [k Hk]. destruct (and_facts k g Hk) as (H1 & H2 & _).
      unfold a. rewrite !(make_literal_aig_of_lit nv na) by (try assumption; apply (wf_cap p W)). destruct g; reflexivity.
  Qed.
End Bodies.

(* ------------------------------------------------------------------ *)
(** ** ASCII body *)

Section AsciiBody.
  Variable p : aproblem.
  Hypothesis W : wf p.

  Let nv := nvars p.
  Let na := nands p.
  Let fa := 1 + nv.
  Let a := aig_of_lit fa.

  Definition input_lits : list N := map (fun k => 2 * (k + 1)) (seqN 0 (ap_inputs p)).

  Lemma ascii_inputs_print rest :
    collect (ap_inputs p) (input_line (nv + na))
            (flat_map (fun k => dec (2 * (k + 1)) ++ nl) (seqN 0 (ap_inputs p)) ++ rest)
    = POk (input_lits, rest).
  Proof.
    apply collect_print.
    - unfold lenN. rewrite seqN_length. lia.
    - intros x. apply dec_nl_nonempty.
    - intros x r Hx. apply In_seqN in Hx. rewrite <- app_assoc.
      pose proof (wf_cap p W). unfold nv, na, nvars, max_capacity, two64 in *.
      apply input_line_dec; [unfold two64; lia | lia |].
      rewrite <- N.negb_even, Bool.negb_false_iff, N.even_spec. exists (x + 1). lia.
  Qed.

  Lemma ascii_latches_print rest :
    collect (lenN (ap_latches p)) (latch_line (nv + na)) (print_latches true p ++ rest)
    = POk (map_i (fun k x => (2 * (1 + ap_inputs p + k), a (fst x), snd x)) 0
                 (combine (ap_latches p) (ap_resets p)), rest).
  Proof.
    unfold print_latches. rewrite (fa_first_and p). fold nv fa.
    apply (collect_from_print (fun _ => latch_line (nv + na))).
    - symmetry. apply (combine_lenN p W).
    - intros k x. unfold print_latch.
      pose proof (dec_nonempty (2 * (1 + ap_inputs p + k))). destruct (dec _); [contradiction|discriminate].
    - intros j x r k Hj ->. destruct (latch_facts p W j x Hj) as [Hok Hlt].
      destruct (lit_ok_a p W _ Hok). unfold print_latch. rewrite <- !app_assoc.
      pose proof (wf_cap p W). unfold nv, na, nvars, max_capacity, two64 in *.
      apply latch_line_print; try assumption; try (unfold two64; lia).
      rewrite <- N.negb_even, Bool.negb_false_iff, N.even_spec.
      exists (1 + ap_inputs p + (0 + N.of_nat j)). lia.
  Qed.

  Lemma ascii_ands_print rest :
    collect na (and_line (nv + na)) (flat_map_i (print_and_aag fa) 0 (ap_ands p) ++ rest)
    = POk (map_i (fun k g => (2 * (fa + k), a (fst g), a (snd g))) 0 (ap_ands p), rest).
  Proof.
    apply (collect_from_print (fun _ => and_line (nv + na))).
    - reflexivity.
    - intros k x. unfold print_and_aag.
      pose proof (dec_nonempty (2 * (fa + k))). destruct (dec _); [contradiction|discriminate].
    - intros j g r k Hj ->. destruct (and_facts p W j g Hj) as (H1 & H2 & H3 & H4).
      destruct (lit_ok_a p W _ H1). destruct (lit_ok_a p W _ H2).
      assert (Hlt : (j < length (ap_ands p))%nat) by (apply nth_error_Some; congruence).
      pose proof (nands_bound p j Hlt). pose proof (wf_cap p W).
      unfold print_and_aag. rewrite <- !app_assoc. fold a.
      unfold nv, na, fa, max_capacity, two64 in *.
      apply and_line_print; try assumption; try (unfold two64; lia).
      rewrite <- N.negb_even, Bool.negb_false_iff, N.even_spec.
      exists (1 + nvars p + (0 + N.of_nat j)). lia.
  Qed.

  Lemma topo_ands : topo (ap_ands p).
  Proof.
    intros k g Hk. destruct (and_facts p W k g Hk) as (H1 & H2 & H3 & H4). fold nv fa in H3, H4. fold a in H3, H4.
    assert (forall l s j, l = ALGate s j -> a l < 2 * (fa + N.of_nat k) -> (N.to_nat j < k)%nat).
    { intros l s j -> Hl. unfold a in Hl. cbn [aig_of_lit] in Hl. destruct s; cbn [b2n] in Hl; lia. }
    split; intros s j E; eapply H; try exact E; lia.
  Qed.

  Theorem parse_ascii_body_print ca rest :
    parse_ascii_body ca (header_of false p)
      (flat_map (fun k => dec (2 * (k + 1)) ++ nl) (seqN 0 (ap_inputs p))
       ++ print_latches true p ++ print_props p ++ flat_map_i (print_and_aag fa) 0 (ap_ands p) ++ rest)
    = POk (body_of p, rest).
  Proof.
    pose proof W as W'. destruct W'.
    unfold parse_ascii_body. cbn [header_of h_in h_lat h_vars h_and].
    fold nv na. rewrite ascii_inputs_print. cbn [pbind].
    rewrite ascii_latches_print. cbn [pbind].
    rewrite (p_props_print nv na); try assumption; try reflexivity; [|apply fa_first_and].
    cbn [pbind]. fold fa. rewrite ascii_ands_print. cbn [pbind].
    (* the variable map *)
    destruct (define_all_default (ap_inputs p) (lenN (ap_latches p)) na input_lits
                (map (fun x : N * N * option bool => fst (fst x))
                     (map_i (fun k x => (2 * (1 + ap_inputs p + k), a (fst x), snd x)) 0
                            (combine (ap_latches p) (ap_resets p))))
                (map (fun x : N * N * N => fst (fst x))
                     (map_i (fun k g => (2 * (fa + k), a (fst g), a (snd g))) 0 (ap_ands p))))
      as (m1 & m2 & D1 & D2 & D3).
    { intros j x Hj. unfold input_lits in Hj. rewrite nth_error_map, nth_error_seqN in Hj.
      destruct (Nat.ltb j (N.to_nat (ap_inputs p))); [|discriminate]. cbn in Hj. inversion Hj. lia. }
    { intros j x Hj. rewrite nth_error_map, nth_error_map_i in Hj.
      destruct (nth_error (combine (ap_latches p) (ap_resets p)) j); [|discriminate].
      cbn in Hj. inversion Hj. lia. }
    { intros j x Hj. rewrite nth_error_map, nth_error_map_i in Hj.
      destruct (nth_error (ap_ands p) j); [|discriminate].
      cbn in Hj. inversion Hj. unfold fa, nv, nvars. lia. }
    { unfold input_lits, lenN. rewrite map_length, seqN_length. lia. }
    { unfold lenN. rewrite map_length, map_i_length. apply (combine_lenN p W). }
    { unfold lenN. rewrite map_length, map_i_length. reflexivity. }
    replace (ap_inputs p + lenN (ap_latches p) + na) with (nv + na) in D1 by (unfold nv, nvars; lia).
    rewrite D1, D2.
    replace (1 + ap_inputs p + lenN (ap_latches p)) with fa in D3 by (unfold fa, nv, nvars; lia).
    rewrite D3.
    (* the mapped literals are the problem's literals *)
    cbn [pr_out pr_bad pr_inv pr_just pr_fair].
    assert (E1 : map (fun x : N * N * option bool => map_lit (default_map fa na) (snd (fst x)))
                     (map_i (fun k x => (2 * (1 + ap_inputs p + k), a (fst x), snd x)) 0
                            (combine (ap_latches p) (ap_resets p))) = ap_latches p).
    { rewrite map_map_i. cbn [fst snd]. rewrite map_i_const.
      rewrite <- (map_map fst (fun l => map_lit (default_map fa na) (a l))).
      rewrite map_fst_combine by (symmetry; assumption).
      rewrite <- map_map. apply (map_map_lit p). assumption. }
    assert (E2 : map snd (map_i (fun k x => (2 * (1 + ap_inputs p + k), a (fst x), snd x)) 0
                                (combine (ap_latches p) (ap_resets p))) = ap_resets p).
    { rewrite map_map_i. cbn [snd]. rewrite map_i_const. apply map_snd_combine. symmetry; assumption. }
    assert (E3 : map (fun g : N * N * N => (map_lit (default_map fa na) (snd (fst g)),
                                            map_lit (default_map fa na) (snd g)))
                     (map_i (fun k g => (2 * (fa + k), a (fst g), a (snd g))) 0 (ap_ands p)) = ap_ands p).
    { rewrite map_map_i. cbn [fst snd]. rewrite map_i_const. apply map_id_in. intros g Hg.
      apply In_nth_error in Hg. destruct Hg as [k Hk]. destruct (and_facts p W k g Hk) as (H1 & H2 & _).
      unfold a, fa. rewrite !map_lit_default by assumption. destruct g; reflexivity. }
    assert (E4 : map (map (map_lit (default_map fa na))) (map (map a) (ap_justice p)) = ap_justice p).
    { rewrite map_map. apply map_id_in. intros js Hjs. apply (map_map_lit p).
      rewrite Forall_forall in wf_just0. auto. }
    fold a.
    rewrite E1, E2, E3, E4, !(map_map_lit p) by assumption.
    change (mkBody (ap_latches p) (ap_resets p) (ap_outputs p) (ap_bad p) (ap_inv p) (ap_justice p)
                   (ap_fair p) (ap_ands p) (default_map fa na)) with (body_of p).
    (* no undefined literal, no cycle *)
    assert (U : forall ls, Forall (lit_ok nv na) ls -> existsb is_undef ls = false).
    { intros ls Hls. apply not_true_is_false. intros Hx. apply existsb_exists in Hx.
      destruct Hx as (x & Hx & Hu). rewrite Forall_forall in Hls.
      rewrite (lit_ok_not_undef nv na x (Hls x Hx)) in Hu. discriminate. }
    assert (Hu : lits_undef (body_of p) = false).
    { unfold lits_undef, body_of. cbn [b_lat b_out b_bad b_inv b_just b_fair b_ands].
      rewrite !U by assumption. cbn [orb].
      replace (existsb (existsb is_undef) (ap_justice p)) with false.
      2:{ symmetry. apply not_true_is_false. intros Hx. apply existsb_exists in Hx.
          destruct Hx as (js & Hjs & Hu). rewrite Forall_forall in wf_just0.
          rewrite (U js (wf_just0 js Hjs)) in Hu. discriminate. }
      cbn [orb]. apply not_true_is_false. intros Hx. apply existsb_exists in Hx.
      destruct Hx as (g & Hg & Hu). apply In_nth_error in Hg. destruct Hg as [k Hk].
      destruct (and_facts p W k g Hk) as (H1 & H2 & _).
      rewrite (lit_ok_not_undef nv na _ H1), (lit_ok_not_undef nv na _ H2) in Hu. discriminate. }
    rewrite Hu. cbn [b_ands body_of]. rewrite (acyclic_b_topo _ topo_ands).
    cbn [negb]. rewrite andb_false_r. reflexivity.
  Qed.
End AsciiBody.

(* ------------------------------------------------------------------ *)
(** ** Round trips and equivalence *)

Lemma problem_of_body p : wf p ->
  mkProblem (ap_inputs p) (b_lat (body_of p)) (b_res (body_of p)) (b_out (body_of p)) (b_bad (body_of p))
            (b_inv (body_of p)) (b_just (body_of p)) (b_fair (body_of p)) (b_ands (body_of p))
            (b_map (body_of p)) (ap_syms p) = p.
Proof.
  intros W. destruct p. cbn. f_equal. symmetry. apply (wf_map _ W).
Qed.

Lemma symbol_table_of p bin : wf p -> symbol_table (header_of bin p) (print_syms p) = POk (ap_syms p, []).
Proof.
  intros W. destruct W. unfold print_syms.
  apply (symbol_table_print (header_of bin p) (ap_syms p)); cbn [header_of h_in h_lat h_out h_bad h_inv h_just h_fair];
    try assumption.
  unfold nvars, nands in *. lia.
Qed.

Theorem parse_print_aag ca p : wf p -> parse_aiger ca (print_aag p) = POk p.
Proof.
  intros W. unfold parse_aiger, print_aag.
  rewrite (p_header_print false p _ W). cbn [pbind h_bin header_of].
  rewrite (fa_first_and p).
  rewrite (parse_ascii_body_print p W ca). cbn [pbind].
  rewrite (symbol_table_of p false W). cbn [pbind comment_or_eof].
  f_equal. apply problem_of_body. exact W.
Qed.

Theorem parse_print_aig ca p : wf p -> parse_aiger ca (print_aig p) = POk p.
Proof.
  intros W. unfold parse_aiger, print_aig.
  rewrite (p_header_print true p _ W). cbn [pbind h_bin header_of].
  rewrite (fa_first_and p).
  rewrite (parse_bin_body_print p W). cbn [pbind].
  rewrite (symbol_table_of p true W). cbn [pbind comment_or_eof].
  f_equal. apply problem_of_body. exact W.
Qed.

(** equivalent ASCII / binary files parse to the same problem *)
Theorem aag_aig_equiv ca ca' p : wf p ->
  parse_aiger ca (print_aag p) = parse_aiger ca' (print_aig p).
Proof. intros W. rewrite parse_print_aag, parse_print_aig by assumption. reflexivity. Qed.
