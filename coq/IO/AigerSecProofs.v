(** * C18p proofs, part 2: count-driven loops and the sections of an AIGER file
      (literals of a well-formed problem, properties, latches, AND gates,
      the variable map of the ASCII branch, acyclicity) *)
From Coq Require Import List NArith ZArith Bool Arith Lia.
From OxiVerif Require Import IO.Aiger IO.AigerParse IO.AigerLexProofs.
Import ListNotations.
Open Scope N_scope.

Ltac Zify.zify_post_hook ::= Z.to_euclidean_division_equations.

Arguments N.add : simpl never.
Arguments N.sub : simpl never.
Arguments N.mul : simpl never.
Arguments N.div : simpl never.
Arguments N.modulo : simpl never.
Arguments N.pow : simpl never.
Arguments N.ltb : simpl never.
Arguments N.leb : simpl never.
Arguments N.eqb : simpl never.
Arguments N.odd : simpl never.
Arguments N.of_nat : simpl never.
Arguments N.to_nat : simpl never.

(* ------------------------------------------------------------------ *)
(** ** Indexed maps *)

Fixpoint map_i {X A} (f : N -> X -> A) (i : N) (l : list X) : list A :=
  match l with
  | [] => []
  | x :: r => f i x :: map_i f (i + 1) r
  end.

Lemma lenN_cons {A} (x : A) l : lenN (x :: l) = lenN l + 1.
Proof. unfold lenN. cbn [length]. lia. Qed.

Lemma lenN_nil {A} : lenN (@nil A) = 0.
Proof. reflexivity. Qed.

Lemma lenN_map {A B} (f : A -> B) l : lenN (map f l) = lenN l.
Proof. unfold lenN. rewrite map_length. reflexivity. Qed.

Lemma map_i_length {X A} (f : N -> X -> A) : forall l i, length (map_i f i l) = length l.
Proof. induction l; intros; cbn; [reflexivity|]. f_equal. auto. Qed.

Lemma map_i_const {X A} (f : X -> A) : forall l i, map_i (fun _ => f) i l = map f l.
Proof. induction l; intros; cbn; [reflexivity|]. f_equal. auto. Qed.

Lemma map_map_i {X A B} (g : A -> B) (f : N -> X -> A) : forall l i,
  map g (map_i f i l) = map_i (fun k x => g (f k x)) i l.
Proof. induction l; intros; cbn; [reflexivity|]. f_equal. auto. Qed.

Lemma map_i_ext {X A} (f g : N -> X -> A) : forall l i,
  (forall j x, nth_error l j = Some x -> f (i + N.of_nat j) x = g (i + N.of_nat j) x) ->
  map_i f i l = map_i g i l.
Proof.
  induction l as [|y l IH]; intros i H; cbn; [reflexivity|]. f_equal.
  - specialize (H O y eq_refl). cbn in H. replace (i + N.of_nat 0) with i in H by lia. exact H.
  - apply IH. intros j x Hj. specialize (H (S j) x Hj).
    replace (i + N.of_nat (S j)) with (i + 1 + N.of_nat j) in H by lia. exact H.
Qed.

Lemma nth_error_map_i {X A} (f : N -> X -> A) : forall l i j,
  nth_error (map_i f i l) j = option_map (f (i + N.of_nat j)) (nth_error l j).
Proof.
  induction l as [|y l IH]; intros i j; destruct j; cbn; try reflexivity.
  - replace (i + N.of_nat 0) with i by lia. reflexivity.
  - rewrite IH. replace (i + 1 + N.of_nat j) with (i + N.of_nat (S j)) by lia. reflexivity.
Qed.

Lemma flat_map_i_const {X} (f : X -> list N) : forall l i, flat_map_i (fun _ => f) i l = flat_map f l.
Proof. induction l; intros; cbn; [reflexivity|]. f_equal. auto. Qed.

Lemma flat_map_i_shift {X} (f : N -> X -> list N) d : forall l i,
  flat_map_i (fun k => f (d + k)) i l = flat_map_i f (d + i) l.
Proof.
  induction l; intros; cbn; [reflexivity|]. f_equal. rewrite IHl. f_equal. lia.
Qed.

Lemma flat_map_i_ext {X} (f g : N -> X -> list N) : forall l i,
  (forall j x, nth_error l j = Some x -> f (i + N.of_nat j) x = g (i + N.of_nat j) x) ->
  flat_map_i f i l = flat_map_i g i l.
Proof.
  induction l as [|y l IH]; intros i H; cbn; [reflexivity|]. f_equal.
  - specialize (H O y eq_refl). replace (i + N.of_nat 0) with i in H by lia. exact H.
  - apply IH. intros j x Hj. specialize (H (S j) x Hj).
    replace (i + N.of_nat (S j)) with (i + 1 + N.of_nat j) in H by lia. exact H.
Qed.

Lemma flat_map_i_length_ge {X} (f : N -> X -> list N) : (forall k x, f k x <> []) ->
  forall l i, (length l <= length (flat_map_i f i l))%nat.
Proof.
  intros Hne. induction l as [|y l IH]; intros i; cbn; [lia|].
  rewrite app_length. specialize (IH (i + 1)). specialize (Hne i y).
  destruct (f i y); [contradiction|]. cbn. lia.
Qed.

(* ------------------------------------------------------------------ *)
(** ** [collect_i]: fuel monotonicity and reading back a printed list *)

Lemma collect_i_mono {A} (p : N -> list N -> pres (A * list N)) :
  forall f f' n i bs x, collect_i f n i p bs = POk x -> (f <= f')%nat -> collect_i f' n i p bs = POk x.
Proof.
  induction f as [|f IH]; intros f' n i bs x H Hle.
  - cbn in H. destruct f'; cbn; destruct (n =? 0); try discriminate; exact H.
  - destruct f' as [|f']; [lia|]. cbn in *. destruct (n =? 0); [exact H|].
    destruct (p i bs) as [[y r]| |]; try discriminate.
    destruct (collect_i f (n - 1) (i + 1) p r) as [[ys r']| |] eqn:E; try discriminate.
    rewrite (IH f' _ _ _ _ E) by lia. exact H.
Qed.

Lemma collect_i_print {X A} (p : N -> list N -> pres (A * list N)) (pr : N -> X -> list N)
      (val : N -> X -> A) :
  forall items i rest,
  (forall j x r k, nth_error items j = Some x -> k = i + N.of_nat j ->
                   p k (pr k x ++ r) = POk (val k x, r)) ->
  collect_i (length items) (lenN items) i p (flat_map_i pr i items ++ rest)
  = POk (map_i val i items, rest).
Proof.
  induction items as [|y items IH]; intros i rest H; [reflexivity|].
  cbn [length collect_i flat_map_i map_i]. rewrite lenN_cons.
  destruct (N.eqb_spec (lenN items + 1) 0); [lia|].
  rewrite <- app_assoc. rewrite (H O y _ i eq_refl) by lia.
  replace (lenN items + 1 - 1) with (lenN items) by lia.
  rewrite IH; [reflexivity|].
  intros j x r k Hj ->. apply (H (S j) x r); [exact Hj|lia].
Qed.

Lemma collect_from_print {X A} (p : N -> list N -> pres (A * list N)) (pr : N -> X -> list N)
      (val : N -> X -> A) items n i rest :
  n = lenN items ->
  (forall k x, pr k x <> []) ->
  (forall j x r k, nth_error items j = Some x -> k = i + N.of_nat j ->
                   p k (pr k x ++ r) = POk (val k x, r)) ->
  collect_from n i p (flat_map_i pr i items ++ rest) = POk (map_i val i items, rest).
Proof.
  intros -> Hne H. unfold collect_from.
  eapply collect_i_mono; [apply collect_i_print; exact H|].
  rewrite app_length. pose proof (flat_map_i_length_ge pr Hne items i). lia.
Qed.

Lemma collect_print {X A} (p : list N -> pres (A * list N)) (pr : X -> list N) (val : X -> A)
      items n rest :
  n = lenN items ->
  (forall x, pr x <> []) ->
  (forall x r, In x items -> p (pr x ++ r) = POk (val x, r)) ->
  collect n p (flat_map pr items ++ rest) = POk (map val items, rest).
Proof.
  intros Hn Hne H. unfold collect.
  rewrite <- (flat_map_i_const pr items 0), <- (map_i_const val items 0).
  apply (collect_from_print (fun _ => p) (fun _ => pr) (fun _ => val)); auto.
  intros j x r k Hj _. apply H. eapply nth_error_In; exact Hj.
Qed.

Lemma collect_i_length {A} (p : N -> list N -> pres (A * list N)) :
  forall f n i bs xs r, collect_i f n i p bs = POk (xs, r) -> lenN xs = n.
Proof.
  induction f as [|f IH]; intros n i bs xs r H; cbn in H.
  - destruct (N.eqb_spec n 0); [|discriminate]. inversion H; subst. reflexivity.
  - destruct (N.eqb_spec n 0); [inversion H; subst; reflexivity|].
    destruct (p i bs) as [[y r0]| |]; try discriminate.
    destruct (collect_i f (n - 1) (i + 1) p r0) as [[ys r']| |] eqn:E; try discriminate.
    inversion H; subst. apply IH in E. rewrite lenN_cons. lia.
Qed.

(* ------------------------------------------------------------------ *)
(** ** Literals of a well-formed problem *)

Definition lit_ok (nvars nands : N) (l : alit) : Prop := lit_ok_b nvars nands l = true.

Section Lits.
  Variables nvars nands : N.
  Let fa := 1 + nvars.
  Hypothesis Hcap : nvars + nands <= max_capacity.

  Lemma aig_of_lit_bound l : lit_ok nvars nands l ->
    aig_of_lit fa l < two64 /\ aig_of_lit fa l / 2 <= nvars + nands.
  Proof.
    unfold lit_ok, max_capacity, two64, fa in *.
    destruct l as [[|]|[|] k|[|] g|[|]]; cbn [lit_ok_b aig_of_lit b2n]; intros H;
      try discriminate; try apply N.ltb_lt in H; lia.
  Qed.

  Lemma make_literal_aig_of_lit l : lit_ok nvars nands l -> make_literal fa (aig_of_lit fa l) = l.
  Proof.
    unfold lit_ok, make_literal, from_input_or_false, fa.
    destruct l as [[|]|[|] k|[|] g|[|]]; cbn [lit_ok_b aig_of_lit b2n]; intros H;
      try discriminate; try apply N.ltb_lt in H.
    - change (1 / 2) with 0. destruct (N.leb_spec (1 + nvars) 0); [lia|]. reflexivity.
    - change (0 / 2) with 0. destruct (N.leb_spec (1 + nvars) 0); [lia|]. reflexivity.
    - replace ((2 * (k + 1) + 1) / 2) with (k + 1) by lia.
      replace (N.odd (2 * (k + 1) + 1)) with true by (symmetry; rewrite N.odd_spec; exists (k + 1); lia).
      destruct (N.leb_spec (1 + nvars) (k + 1)); [lia|].
      destruct (N.eqb_spec (k + 1) 0); [lia|]. f_equal. lia.
    - replace ((2 * (k + 1) + 0) / 2) with (k + 1) by lia.
      replace (N.odd (2 * (k + 1) + 0)) with false.
      2:{ symmetry. rewrite <- N.negb_even. rewrite Bool.negb_false_iff. rewrite N.even_spec. exists (k + 1); lia. }
      destruct (N.leb_spec (1 + nvars) (k + 1)); [lia|].
      destruct (N.eqb_spec (k + 1) 0); [lia|]. f_equal. lia.
    - replace ((2 * (1 + nvars + g) + 1) / 2) with (1 + nvars + g) by lia.
      replace (N.odd (2 * (1 + nvars + g) + 1)) with true by (symmetry; rewrite N.odd_spec; exists (1 + nvars + g); lia).
      destruct (N.leb_spec (1 + nvars) (1 + nvars + g)); [|lia]. f_equal. lia.
    - replace ((2 * (1 + nvars + g) + 0) / 2) with (1 + nvars + g) by lia.
      replace (N.odd (2 * (1 + nvars + g) + 0)) with false.
      2:{ symmetry. rewrite <- N.negb_even. rewrite Bool.negb_false_iff. rewrite N.even_spec. exists (1 + nvars + g); lia. }
      destruct (N.leb_spec (1 + nvars) (1 + nvars + g)); [|lia]. f_equal. lia.
  Qed.

  Lemma lit_ok_not_undef l : lit_ok nvars nands l -> is_undef l = false.
  Proof. destruct l; cbn; intros; [reflexivity|reflexivity|reflexivity|discriminate]. Qed.
End Lits.

(* ------------------------------------------------------------------ *)
(** ** outputs, bad, invariants, justice, fairness *)

Lemma dec_nl_nonempty x : dec x ++ nl <> [].
Proof. pose proof (dec_nonempty x). destruct (dec x); [contradiction|discriminate]. Qed.

Section Props.
  Variables nvars nands : N.
  Let fa := 1 + nvars.
  Hypothesis Hcap : nvars + nands <= max_capacity.

  Lemma collect_lit_lines ls n rest :
    n = lenN ls -> Forall (lit_ok nvars nands) ls ->
    collect n (literal_line (nvars + nands)) (flat_map (print_lit_line fa) ls ++ rest)
    = POk (map (aig_of_lit fa) ls, rest).
  Proof.
    intros Hn Hok. apply collect_print; [exact Hn| |].
    - intros x. apply dec_nl_nonempty.
    - intros x r Hin. unfold print_lit_line. rewrite <- app_assoc.
      rewrite Forall_forall in Hok.
      destruct (aig_of_lit_bound nvars nands Hcap x (Hok x Hin)).
      apply literal_line_dec; assumption.
  Qed.

  Lemma p_justice_print : forall (just : list (list alit)) rest,
    Forall (fun js => lenN js <= max_capacity) just ->
    Forall (Forall (lit_ok nvars nands)) just ->
    p_justice (nvars + nands) (map lenN just) (flat_map (flat_map (print_lit_line fa)) just ++ rest)
    = POk (map (map (aig_of_lit fa)) just, rest).
  Proof.
    induction just as [|js just IH]; intros rest Hlen Hok; [reflexivity|].
    inversion Hlen; subst. inversion Hok; subst.
    cbn [map flat_map p_justice]. rewrite <- app_assoc.
    rewrite collect_lit_lines by auto. cbn [pbind].
    rewrite IH by assumption. reflexivity.
  Qed.

  Lemma p_props_print h p rest :
    h_vars h = nvars + nands ->
    h_out h = lenN (ap_outputs p) -> h_bad h = lenN (ap_bad p) -> h_inv h = lenN (ap_inv p) ->
    h_just h = lenN (ap_justice p) -> h_fair h = lenN (ap_fair p) ->
    p_first_and p = fa ->
    Forall (fun js => lenN js <= max_capacity) (ap_justice p) ->
    Forall (lit_ok nvars nands) (ap_outputs p) -> Forall (lit_ok nvars nands) (ap_bad p) ->
    Forall (lit_ok nvars nands) (ap_inv p) -> Forall (Forall (lit_ok nvars nands)) (ap_justice p) ->
    Forall (lit_ok nvars nands) (ap_fair p) ->
    p_props h (print_props p ++ rest)
    = POk (mkProps (map (aig_of_lit fa) (ap_outputs p)) (map (aig_of_lit fa) (ap_bad p))
                   (map (aig_of_lit fa) (ap_inv p)) (map (map (aig_of_lit fa)) (ap_justice p))
                   (map (aig_of_lit fa) (ap_fair p)), rest).
  Proof.
    intros Hv Ho Hb Hi Hj Hf Hfa Hjl Hok1 Hok2 Hok3 Hok4 Hok5.
    unfold p_props, print_props. rewrite Hfa, Hv. rewrite <- !app_assoc.
    rewrite collect_lit_lines by auto. cbn [pbind].
    rewrite collect_lit_lines by auto. cbn [pbind].
    rewrite collect_lit_lines by auto. cbn [pbind].
    rewrite (collect_print usize_line (fun js : list alit => dec (lenN js) ++ nl) (@lenN alit)).
    - cbn [pbind]. rewrite p_justice_print by assumption. cbn [pbind].
      rewrite collect_lit_lines by auto. reflexivity.
    - exact Hj.
    - intros x. apply dec_nl_nonempty.
    - intros x r Hin. rewrite <- app_assoc. apply usize_line_dec.
      rewrite Forall_forall in Hjl. auto.
  Qed.
End Props.

(* ------------------------------------------------------------------ *)
(** ** List updates and the default variable map *)

Lemma nth_error_upd {A} : forall (l : list A) i x j,
  nth_error (upd l i x) j = if (Nat.eqb j i && Nat.ltb i (length l))%bool then Some x else nth_error l j.
Proof.
  induction l as [|y l IH]; intros i x j.
  - destruct j, i; cbn; rewrite ?andb_false_r; reflexivity.
  - destruct i as [|i]; destruct j as [|j]; cbn [upd nth_error length]; try reflexivity.
    rewrite IH. cbn [Nat.eqb].
    replace (Nat.ltb (S i) (S (length l))) with (Nat.ltb i (length l)); [reflexivity|].
    destruct (Nat.ltb_spec i (length l)), (Nat.ltb_spec (S i) (S (length l))); try reflexivity; lia.
Qed.

Lemma upd_length {A} : forall (l : list A) i x, length (upd l i x) = length l.
Proof. induction l; intros [|i] x; cbn; auto. Qed.

Lemma nth_error_ext {A} : forall (a b : list A), (forall j, nth_error a j = nth_error b j) -> a = b.
Proof.
  induction a as [|x a IH]; intros [|y b] H.
  - reflexivity.
  - specialize (H O). discriminate.
  - specialize (H O). discriminate.
  - pose proof (H O) as H0. cbn in H0. inversion H0; subst. f_equal.
    apply IH. intros j. apply (H (S j)).
Qed.

Lemma nth_error_seqN s n j :
  nth_error (seqN s n) j = if Nat.ltb j (N.to_nat n) then Some (s + N.of_nat j) else None.
Proof.
  unfold seqN. rewrite nth_error_map.
  destruct (Nat.ltb_spec j (N.to_nat n)).
  - rewrite (nth_error_nth' _ O) by (rewrite seq_length; assumption).
    rewrite seq_nth by assumption. cbn. f_equal. lia.
  - replace (nth_error (seq (N.to_nat s) (N.to_nat n)) j) with (@None nat); [reflexivity|].
    symmetry. apply nth_error_None. rewrite seq_length. lia.
Qed.

Lemma seqN_length s n : length (seqN s n) = N.to_nat n.
Proof. unfold seqN. rewrite map_length, seq_length. reflexivity. Qed.

Lemma default_map_length fa na : length (default_map fa na) = N.to_nat (fa + na).
Proof. unfold default_map. rewrite app_length, !map_length, !seqN_length. lia. Qed.

Lemma nth_error_default_map fa na j :
  nth_error (default_map fa na) j =
  if Nat.ltb j (N.to_nat fa) then Some (from_input_or_false false (N.of_nat j))
  else if Nat.ltb j (N.to_nat (fa + na)) then Some (ALGate false (N.of_nat j - fa))
  else None.
Proof.
  unfold default_map.
  destruct (Nat.ltb_spec j (N.to_nat fa)).
  - rewrite nth_error_app1 by (rewrite map_length, seqN_length; assumption).
    rewrite nth_error_map, nth_error_seqN.
    destruct (Nat.ltb_spec j (N.to_nat fa)); [|lia]. cbn. do 2 f_equal; lia.
  - rewrite nth_error_app2 by (rewrite map_length, seqN_length; assumption).
    rewrite map_length, seqN_length, nth_error_map, nth_error_seqN.
    destruct (Nat.ltb_spec (j - N.to_nat fa) (N.to_nat na)), (Nat.ltb_spec j (N.to_nat (fa + na)));
      try lia; [|reflexivity].
    cbn. do 2 f_equal; lia.
Qed.

(* ------------------------------------------------------------------ *)
(** ** [define_all] over consecutive variables *)

Lemma define_all_run : forall lits k i m mk,
  (forall j x, nth_error lits j = Some x -> x = 2 * N.of_nat (k + j)) ->
  (k + length lits <= length m)%nat ->
  (forall j, (k <= j < k + length lits)%nat -> nth_error m j = Some (ALUndef false)) ->
  exists m', define_all m lits mk i = Some m' /\ length m' = length m /\
    forall j, nth_error m' j =
              if (Nat.leb k j && Nat.ltb j (k + length lits))%bool
              then Some (mk (i + N.of_nat (j - k))) else nth_error m j.
Proof.
  induction lits as [|x lits IH]; intros k i m mk Hl Hlen Hu.
  - exists m. split; [reflexivity|]. split; [reflexivity|]. intros j.
    cbn [length]. destruct (Nat.leb_spec k j), (Nat.ltb_spec j (k + 0)); try reflexivity; lia.
  - cbn [define_all length] in *.
    pose proof (Hl O x eq_refl) as Hx. subst x.
    replace (N.to_nat (2 * N.of_nat (k + 0) / 2)) with k by lia.
    rewrite (Hu k) by lia.
    destruct (IH (S k) (i + 1) (upd m k (mk i)) mk) as (m' & Hd & Hlen' & Hnth).
    + intros j x Hj. rewrite (Hl (S j) x Hj). f_equal. lia.
    + rewrite upd_length. lia.
    + intros j Hj. rewrite nth_error_upd. destruct (Nat.eqb_spec j k); [lia|]. cbn [andb].
      apply Hu. lia.
    + exists m'. split; [exact Hd|]. split; [rewrite Hlen', upd_length; reflexivity|].
      intros j. rewrite Hnth, nth_error_upd.
      destruct (Nat.leb_spec (S k) j), (Nat.ltb_spec j (S k + length lits)),
               (Nat.leb_spec k j), (Nat.ltb_spec j (k + S (length lits))),
               (Nat.eqb_spec j k), (Nat.ltb_spec k (length m)); cbn [andb]; try lia; try reflexivity.
      * do 2 f_equal. lia.
      * subst j. do 2 f_equal. lia.
Qed.

(** the three definition loops of a file whose variables are numbered inputs,
    latches, AND gates in order yield the default map *)
Lemma define_all_default ni nl na (ins lats ands : list N) :
  (forall j x, nth_error ins j = Some x -> x = 2 * N.of_nat (1 + j)) ->
  (forall j x, nth_error lats j = Some x -> x = 2 * N.of_nat (1 + N.to_nat ni + j)) ->
  (forall j x, nth_error ands j = Some x -> x = 2 * N.of_nat (1 + N.to_nat ni + N.to_nat nl + j)) ->
  lenN ins = ni -> lenN lats = nl -> lenN ands = na ->
  exists m1 m2,
    define_all (ALConst false :: repeat (ALUndef false) (N.to_nat (ni + nl + na))) ins
               (from_input_or_false false) 1 = Some m1 /\
    define_all m1 lats (from_input_or_false false) (1 + ni) = Some m2 /\
    define_all m2 ands (ALGate false) 0 = Some (default_map (1 + ni + nl) na).
Proof.
  intros Hi Hl Ha Li Ll La.
  set (m0 := ALConst false :: repeat (ALUndef false) (N.to_nat (ni + nl + na))).
  assert (Lm0 : length m0 = S (N.to_nat (ni + nl + na))) by (unfold m0; cbn; rewrite repeat_length; reflexivity).
  assert (Hm0 : forall j, (1 <= j < length m0)%nat -> nth_error m0 j = Some (ALUndef false)).
  { intros j Hj. unfold m0. destruct j as [|j]; [lia|]. cbn [nth_error].
    rewrite (nth_error_nth' _ (ALUndef false)) by (rewrite repeat_length; lia).
    rewrite nth_repeat. reflexivity. }
  unfold lenN in *.
  destruct (define_all_run ins 1 1 m0 (from_input_or_false false)) as (m1 & D1 & L1 & N1);
    [exact Hi | lia | intros; apply Hm0; lia |].
  destruct (define_all_run lats (1 + N.to_nat ni) (1 + ni) m1 (from_input_or_false false))
    as (m2 & D2 & L2 & N2); [exact Hl | lia | |].
  { intros j Hj. rewrite N1.
    destruct (Nat.leb_spec 1 j), (Nat.ltb_spec j (1 + length ins)); cbn [andb]; try lia.
    apply Hm0. lia. }
  destruct (define_all_run ands (1 + N.to_nat ni + N.to_nat nl) 0 m2 (ALGate false))
    as (m3 & D3 & L3 & N3); [exact Ha | lia | |].
  { intros j Hj. rewrite N2.
    destruct (Nat.leb_spec (1 + N.to_nat ni) j), (Nat.ltb_spec j (1 + N.to_nat ni + length lats));
      cbn [andb]; try lia.
    rewrite N1. destruct (Nat.leb_spec 1 j), (Nat.ltb_spec j (1 + length ins)); cbn [andb]; try lia.
    apply Hm0. lia. }
  exists m1, m2. split; [exact D1|]. split; [exact D2|]. rewrite D3. f_equal.
  apply nth_error_ext. intros j. rewrite N3, N2, N1, nth_error_default_map.
  destruct (Nat.leb_spec (1 + N.to_nat ni + N.to_nat nl) j),
           (Nat.ltb_spec j (1 + N.to_nat ni + N.to_nat nl + length ands)),
           (Nat.leb_spec (1 + N.to_nat ni) j), (Nat.ltb_spec j (1 + N.to_nat ni + length lats)),
           (Nat.leb_spec 1 j), (Nat.ltb_spec j (1 + length ins)),
           (Nat.ltb_spec j (N.to_nat (1 + ni + nl))), (Nat.ltb_spec j (N.to_nat (1 + ni + nl + na)));
    cbn [andb]; try lia.
  all: try (do 2 f_equal; lia).
  all: try (symmetry; apply nth_error_None; lia).
  all: try (assert (j = O) by lia; subst j; reflexivity).
  all: try (apply nth_error_None; lia).
Qed.

Section MapLit.
  Variables nvars nands : N.
  Let fa := 1 + nvars.

  Lemma map_lit_default l : lit_ok nvars nands l ->
    map_lit (default_map fa nands) (aig_of_lit fa l) = l.
  Proof.
    unfold lit_ok, map_lit, fa. intros H.
    assert (E : forall v d, nth (N.to_nat v) (default_map (1 + nvars) nands) d
                       = match nth_error (default_map (1 + nvars) nands) (N.to_nat v) with
                         | Some y => y | None => d end).
    { intros v d. destruct (nth_error _ (N.to_nat v)) eqn:E.
      - apply nth_error_nth. exact E.
      - apply nth_overflow. apply nth_error_None. exact E. }
    rewrite E, nth_error_default_map. clear E.
    destruct l as [[|]|[|] k|[|] g|[|]]; cbn [lit_ok_b aig_of_lit b2n] in *;
      try discriminate; try apply N.ltb_lt in H.
    - change (1 / 2) with 0. destruct (Nat.ltb_spec (N.to_nat 0) (N.to_nat (1 + nvars))); [|lia]. reflexivity.
    - change (0 / 2) with 0. destruct (Nat.ltb_spec (N.to_nat 0) (N.to_nat (1 + nvars))); [|lia]. reflexivity.
    - replace ((2 * (k + 1) + 1) / 2) with (k + 1) by lia.
      replace (N.odd (2 * (k + 1) + 1)) with true by (symmetry; rewrite N.odd_spec; exists (k + 1); lia).
      destruct (Nat.ltb_spec (N.to_nat (k + 1)) (N.to_nat (1 + nvars))); [|lia].
      unfold from_input_or_false. rewrite N2Nat.id.
      destruct (N.eqb_spec (k + 1) 0); [lia|]. cbn. f_equal. lia.
    - replace ((2 * (k + 1) + 0) / 2) with (k + 1) by lia.
      replace (N.odd (2 * (k + 1) + 0)) with false.
      2:{ symmetry. rewrite <- N.negb_even. rewrite Bool.negb_false_iff. rewrite N.even_spec. exists (k + 1); lia. }
      destruct (Nat.ltb_spec (N.to_nat (k + 1)) (N.to_nat (1 + nvars))); [|lia].
      unfold from_input_or_false. rewrite N2Nat.id.
      destruct (N.eqb_spec (k + 1) 0); [lia|]. cbn. f_equal. lia.
    - replace ((2 * (1 + nvars + g) + 1) / 2) with (1 + nvars + g) by lia.
      replace (N.odd (2 * (1 + nvars + g) + 1)) with true by (symmetry; rewrite N.odd_spec; exists (1 + nvars + g); lia).
      destruct (Nat.ltb_spec (N.to_nat (1 + nvars + g)) (N.to_nat (1 + nvars))); [lia|].
      destruct (Nat.ltb_spec (N.to_nat (1 + nvars + g)) (N.to_nat (1 + nvars + nands))); [|lia].
      rewrite N2Nat.id. cbn. f_equal. lia.
    - replace ((2 * (1 + nvars + g) + 0) / 2) with (1 + nvars + g) by lia.
      replace (N.odd (2 * (1 + nvars + g) + 0)) with false.
      2:{ symmetry. rewrite <- N.negb_even. rewrite Bool.negb_false_iff. rewrite N.even_spec. exists (1 + nvars + g); lia. }
      destruct (Nat.ltb_spec (N.to_nat (1 + nvars + g)) (N.to_nat (1 + nvars))); [lia|].
      destruct (Nat.ltb_spec (N.to_nat (1 + nvars + g)) (N.to_nat (1 + nvars + nands))); [|lia].
      rewrite N2Nat.id. cbn. f_equal. lia.
  Qed.
End MapLit.

(* ------------------------------------------------------------------ *)
(** ** Topologically ordered gate lists are acyclic for [acyclic_b] *)

(** gate [k] only refers to gates with a smaller number *)
Definition topo (gates : list (alit * alit)) : Prop :=
  forall k g, nth_error gates k = Some g ->
    (forall s j, fst g = ALGate s j -> (N.to_nat j < k)%nat) /\
    (forall s j, snd g = ALGate s j -> (N.to_nat j < k)%nat).

Lemma mark_round_length gates marks : length (mark_round gates marks) = length gates.
Proof. unfold mark_round. apply map_length. Qed.

Lemma mark_rounds_length : forall r gates marks, length marks = length gates ->
  length (mark_rounds r gates marks) = length gates.
Proof.
  induction r; intros gates marks H; cbn; [exact H|]. apply IHr. apply mark_round_length.
Qed.

Lemma mark_rounds_topo gates : topo gates ->
  forall r c marks,
  (forall k, (k < c)%nat -> (k < length gates)%nat -> nth k marks false = true) ->
  forall k, (k < c + r)%nat -> (k < length gates)%nat -> nth k (mark_rounds r gates marks) false = true.
Proof.
  intros Ht. induction r as [|r IH]; intros c marks Hm k Hk Hlen.
  - cbn. apply Hm; [lia|assumption].
  - cbn [mark_rounds]. apply (IH (S c)); [|lia|assumption].
    intros k' Hk' Hlen'. unfold mark_round.
    destruct (nth_error gates k') as [g|] eqn:Eg; [|apply nth_error_None in Eg; lia].
    rewrite (nth_indep _ false (lit_marked marks (fst (ALConst false, ALConst false))
                                && lit_marked marks (snd (ALConst false, ALConst false))))
      by (rewrite map_length; assumption).
    rewrite (map_nth (fun g => lit_marked marks (fst g) && lit_marked marks (snd g))).
    rewrite (nth_error_nth _ _ _ Eg).
    destruct (Ht k' g Eg) as [H1 H2].
    assert (forall l, (forall s j, l = ALGate s j -> (N.to_nat j < k')%nat) -> lit_marked marks l = true).
    { intros l Hl. destruct l as [| | s j |]; try reflexivity. cbn.
      specialize (Hl s j eq_refl). apply Hm; lia. }
    rewrite !H by assumption. reflexivity.
Qed.

Lemma acyclic_b_topo gates : topo gates -> acyclic_b gates = true.
Proof.
  intros Ht. unfold acyclic_b. apply forallb_forall. intros b Hb.
  apply In_nth with (d := false) in Hb. destruct Hb as (k & Hk & <-).
  rewrite mark_rounds_length in Hk by apply map_length.
  apply (mark_rounds_topo gates Ht (length gates) O); [intros; lia|lia|assumption].
Qed.
