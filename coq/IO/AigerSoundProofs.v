(** * C18p proofs, part 6: what an accepted binary file guarantees

    If the model reader accepts a binary ([aig]) file, the problem it returns
    - has its AND gates in topological order (gate [k] only refers to gates
      with a smaller number): no cyclic dependency, [acyclic_b] holds;
    - is well-formed up to the shape of the symbol names, so that -- for names
      a symbol line can reproduce -- printing it in ASCII form and reading
      that file gives the same problem. *)
From Coq Require Import List NArith ZArith Bool Arith Lia Relations.
From OxiVerif Require Import IO.Aiger IO.AigerParse IO.AigerLexProofs IO.AigerSecProofs IO.AigerSymProofs
     IO.AigerProofs.
Import ListNotations.
Open Scope N_scope.

Ltac Zify.zify_post_hook ::= Z.to_euclidean_division_equations.

Arguments N.add : simpl never.
Arguments N.sub : simpl never.
Arguments N.mul : simpl never.
Arguments N.div : simpl never.
Arguments N.modulo : simpl never.
Arguments N.ltb : simpl never.
Arguments N.leb : simpl never.
Arguments N.eqb : simpl never.
Arguments N.odd : simpl never.
Arguments N.of_nat : simpl never.
Arguments N.to_nat : simpl never.

(** case analysis on the head parser of a [pbind] chain in hypothesis [H] *)
Ltac inv_bind H :=
  match type of H with
  | pbind ?r _ = POk _ =>
    let E := fresh "E" in
    destruct r as [[? ?]| |] eqn:E; cbn [pbind] in H; try discriminate H
  end.
Ltac inv_bind0 H :=
  match type of H with
  | pbind ?r _ = POk _ =>
    let E := fresh "E" in
    destruct r as [?| |] eqn:E; cbn [pbind] in H; try discriminate H
  end.

(* ------------------------------------------------------------------ *)
(** ** Numbers and lines *)

Lemma p_usize_bound bs v r : p_usize bs = POk (v, r) -> v <= max_capacity.
Proof.
  unfold p_usize. intros H. inv_bind H.
  destruct (N.ltb_spec max_capacity n); [discriminate|]. inversion H; subst. assumption.
Qed.

Lemma sp_usize_bound bs v r : sp_usize bs = POk (v, r) -> v <= max_capacity.
Proof. unfold sp_usize. intros H. inv_bind0 H. eapply p_usize_bound; exact H. Qed.

Lemma opt_nums_bound : forall k bs o r, opt_nums k bs = (o, r) -> Forall (fun v => v <= max_capacity) o.
Proof.
  induction k as [|k IH]; intros bs o r H; cbn in H.
  - inversion H; subst. constructor.
  - destruct (sp_usize bs) as [[n r1]| |] eqn:E; try (inversion H; subst; constructor).
    destruct (opt_nums k r1) as [ns r'] eqn:E2. inversion H; subst.
    constructor; [eapply sp_usize_bound; exact E|eapply IH; exact E2].
Qed.

Lemma nth_bound (o : list N) j : Forall (fun v => v <= max_capacity) o -> nth j o 0 <= max_capacity.
Proof.
  intros H. destruct (nth_in_or_default j o 0) as [Hin| ->].
  - rewrite Forall_forall in H. apply H. exact Hin.
  - unfold max_capacity. lia.
Qed.

Lemma p_literal_inv vars bs x r : p_literal vars bs = POk (x, r) -> x / 2 <= vars.
Proof.
  unfold p_literal. intros H. inv_bind H. destruct (N.ltb_spec vars (n / 2)); [discriminate|].
  inversion H; subst. assumption.
Qed.

Lemma literal_line_inv vars bs x r : literal_line vars bs = POk (x, r) -> x / 2 <= vars.
Proof.
  unfold literal_line. intros H. inv_bind H. inv_bind0 H. inversion H; subst.
  eapply p_literal_inv; exact E.
Qed.

Lemma usize_line_inv bs x r : usize_line bs = POk (x, r) -> x <= max_capacity.
Proof.
  unfold usize_line. intros H. inv_bind H. inv_bind0 H. inversion H; subst.
  eapply p_usize_bound; exact E.
Qed.

Lemma bin_latch_inv vars fl i bs x o r : bin_latch vars fl i bs = POk ((x, o), r) -> x / 2 <= vars.
Proof.
  unfold bin_latch. intros H. inv_bind H. inv_bind H. inv_bind0 H. inversion H; subst.
  eapply p_literal_inv; exact E.
Qed.

Lemma bin_and_inv i bs a b r : bin_and i bs = POk ((a, b), r) -> a < i * 2 /\ b <= a.
Proof.
  unfold bin_and. intros H. inv_bind H. inv_bind H.
  unfold and_gate_bin in H.
  destruct (N.ltb_spec (i * 2) n); cbn [orb] in H; [discriminate|].
  destruct (N.eqb_spec n 0); cbn [orb] in H; [discriminate|].
  destruct (N.ltb_spec (i * 2 - n) n0); [discriminate|].
  inversion H; subst. lia.
Qed.

(* ------------------------------------------------------------------ *)
(** ** Loops *)

Lemma collect_i_inv {A} (p : N -> list N -> pres (A * list N)) (Q : N -> A -> Prop) :
  (forall i bs x r, p i bs = POk (x, r) -> Q i x) ->
  forall f n i bs xs r, collect_i f n i p bs = POk (xs, r) ->
  forall j x, nth_error xs j = Some x -> Q (i + N.of_nat j) x.
Proof.
  intros Hp. induction f as [|f IH]; intros n i bs xs r H j x Hj; cbn in H.
  - destruct (n =? 0); [|discriminate]. inversion H; subst. destruct j; discriminate.
  - destruct (n =? 0); [inversion H; subst; destruct j; discriminate|].
    destruct (p i bs) as [[y r0]| |] eqn:E; try discriminate.
    destruct (collect_i f (n - 1) (i + 1) p r0) as [[ys r']| |] eqn:E2; try discriminate.
    inversion H; subst. destruct j as [|j].
    + inversion Hj; subst. replace (i + N.of_nat 0) with i by lia. eapply Hp; exact E.
    + replace (i + N.of_nat (S j)) with (i + 1 + N.of_nat j) by lia. eapply IH; [exact E2|exact Hj].
Qed.

Lemma collect_inv {A} (p : list N -> pres (A * list N)) (Q : A -> Prop) n bs xs r :
  (forall bs x r, p bs = POk (x, r) -> Q x) ->
  collect n p bs = POk (xs, r) -> lenN xs = n /\ Forall Q xs.
Proof.
  intros Hp H. unfold collect in H. split; [eapply collect_i_length; exact H|].
  apply Forall_forall. intros x Hx. apply In_nth_error in Hx. destruct Hx as [j Hj].
  apply (collect_i_inv (fun _ => p) (fun _ => Q) (fun _ => Hp) _ _ _ _ _ _ H j x Hj).
Qed.

Lemma p_justice_inv vars : forall lens bs jss r, p_justice vars lens bs = POk (jss, r) ->
  map lenN jss = lens /\ Forall (Forall (fun x => x / 2 <= vars)) jss.
Proof.
  induction lens as [|n lens IH]; intros bs jss r H; cbn [p_justice] in H.
  - inversion H; subst. split; [reflexivity|constructor].
  - inv_bind H. inv_bind H. inversion H; subst.
    destruct (collect_inv _ (fun x => x / 2 <= vars) _ _ _ _ (literal_line_inv vars) E) as [L1 F1].
    destruct (IH _ _ _ E0) as [L2 F2]. split; [cbn; f_equal; assumption|constructor; assumption].
Qed.

Lemma p_props_inv h bs props r : p_props h bs = POk (props, r) ->
  let ok := fun x => x / 2 <= h_vars h in
  lenN (pr_out props) = h_out h /\ lenN (pr_bad props) = h_bad h /\ lenN (pr_inv props) = h_inv h /\
  lenN (pr_just props) = h_just h /\ lenN (pr_fair props) = h_fair h /\
  Forall ok (pr_out props) /\ Forall ok (pr_bad props) /\ Forall ok (pr_inv props) /\
  Forall (Forall ok) (pr_just props) /\ Forall ok (pr_fair props) /\
  Forall (fun js => lenN js <= max_capacity) (pr_just props).
Proof.
  unfold p_props. intros H. set (ok := fun x : N => x / 2 <= h_vars h). do 6 inv_bind H. inversion H; subst. cbn [pr_out pr_bad pr_inv pr_just pr_fair].
  destruct (collect_inv _ ok _ _ _ _ (literal_line_inv (h_vars h)) E) as [L1 F1].
  destruct (collect_inv _ ok _ _ _ _ (literal_line_inv (h_vars h)) E0) as [L2 F2].
  destruct (collect_inv _ ok _ _ _ _ (literal_line_inv (h_vars h)) E1) as [L3 F3].
  destruct (collect_inv _ (fun x => x <= max_capacity) _ _ _ _ usize_line_inv E2) as [L4 F4].
  destruct (p_justice_inv _ _ _ _ _ E3) as [L5 F5].
  destruct (collect_inv _ ok _ _ _ _ (literal_line_inv (h_vars h)) E4) as [L6 F6].
  repeat split; try assumption.
  - rewrite <- L4, <- L5. symmetry. apply lenN_map.
  - rewrite <- L5 in F4. apply Forall_forall. intros js Hjs. rewrite Forall_forall in F4.
    apply F4. apply in_map. exact Hjs.
Qed.

(* ------------------------------------------------------------------ *)
(** ** Header *)

Definition is_binary (bs : list N) : Prop := nth_error bs 1 = Some 105.

Lemma p_header_inv bs h r : p_header bs = POk (h, r) ->
  h_vars h <= max_capacity /\ h_in h <= max_capacity /\ h_lat h <= max_capacity /\
  h_out h <= max_capacity /\ h_and h <= max_capacity /\ h_bad h <= max_capacity /\
  h_inv h <= max_capacity /\ h_just h <= max_capacity /\ h_fair h <= max_capacity /\
  (h_bin h = true -> h_vars h = h_in h + h_lat h + h_and h) /\
  (is_binary bs -> h_bin h = true).
Proof.
  unfold p_header. intros H. do 6 inv_bind H.
  match type of H with context [opt_nums 4 ?x] => destruct (opt_nums 4 x) as [o r6] eqn:Eo end. inv_bind0 H.
  apply sp_usize_bound in E0, E1, E2, E3, E4. apply opt_nums_bound in Eo.
  assert (Hb : is_binary bs -> b = true).
  { unfold p_format in E. unfold is_binary. destruct bs as [|c0 [|c1 [|c2 t]]]; try discriminate.
    cbn [nth_error]. intros Hc. inversion Hc; subst.
    destruct ((c0 =? 97) && (c2 =? 103) && ((105 =? 97) || (105 =? 105))); [|discriminate].
    destruct t as [|d t']; [inversion E; reflexivity|]. destruct (is_alnum d); [discriminate|].
    inversion E; reflexivity. }
  destruct b.
  - destruct (N.eqb_spec n (n0 + n1 + n3)); [|discriminate]. inversion H; subst.
    cbn [h_vars h_in h_lat h_out h_and h_bad h_inv h_just h_fair h_bin].
    repeat split; auto using nth_bound.
  - destruct (N.ltb_spec n (n0 + n1 + n3)); [discriminate|]. inversion H; subst.
    cbn [h_vars h_in h_lat h_out h_and h_bad h_inv h_just h_fair h_bin].
    repeat split; auto using nth_bound; try discriminate.
Qed.

(* ------------------------------------------------------------------ *)
(** ** Literals produced by [make_literal] *)

Lemma make_literal_ok nv na x : x / 2 <= nv + na -> lit_ok nv na (make_literal (1 + nv) x).
Proof.
  intros Hx. unfold lit_ok, make_literal, from_input_or_false.
  destruct (N.leb_spec (1 + nv) (x / 2)); cbn [lit_ok_b].
  - apply N.ltb_lt. lia.
  - destruct (N.eqb_spec (x / 2) 0); cbn [lit_ok_b]; [reflexivity|]. apply N.ltb_lt. lia.
Qed.

Lemma b2n_odd x : b2n (N.odd x) = x mod 2.
Proof.
  rewrite <- N.bit0_odd. pose proof (N.bit0_mod x) as H. unfold N.b2n, b2n in *.
  destruct (N.testbit x 0); exact H.
Qed.

Lemma aig_of_make_literal nv x : aig_of_lit (1 + nv) (make_literal (1 + nv) x) = x.
Proof.
  unfold make_literal, from_input_or_false.
  destruct (N.leb_spec (1 + nv) (x / 2)); cbn [aig_of_lit].
  - rewrite b2n_odd. lia.
  - destruct (N.eqb_spec (x / 2) 0); cbn [aig_of_lit]; rewrite b2n_odd; lia.
Qed.

(* ------------------------------------------------------------------ *)
(** ** Accepted binary files *)

(** the symbol names are such that a symbol line reproduces them (true when no
    symbol occurs twice with an empty first name, cf. [Example] in Props/C18.v) *)
Definition syms_ok (p : aproblem) : Prop :=
  names_ok_b (nvars p) (sy_in (ap_syms p)) = true /\
  names_ok_b (lenN (ap_outputs p)) (sy_out (ap_syms p)) = true /\
  names_ok_b (lenN (ap_bad p)) (sy_bad (ap_syms p)) = true /\
  names_ok_b (lenN (ap_inv p)) (sy_inv (ap_syms p)) = true /\
  names_ok_b (lenN (ap_justice p)) (sy_just (ap_syms p)) = true /\
  names_ok_b (lenN (ap_fair p)) (sy_fair (ap_syms p)) = true.

Lemma Forall_map_ok nv na xs : Forall (fun x => x / 2 <= nv + na) xs ->
  Forall (lit_ok nv na) (map (make_literal (1 + nv)) xs).
Proof.
  intros H. apply Forall_forall. intros l Hl. apply in_map_iff in Hl. destruct Hl as (x & <- & Hx).
  apply make_literal_ok. rewrite Forall_forall in H. auto.
Qed.

Theorem parse_bin_body_inv h bs b r :
  h_vars h = h_in h + h_lat h + h_and h -> h_vars h <= max_capacity ->
  parse_bin_body h bs = POk (b, r) ->
  let nv := h_in h + h_lat h in
  let na := h_and h in
  length (b_res b) = length (b_lat b) /\ lenN (b_lat b) = h_lat h /\ lenN (b_ands b) = h_and h /\
  lenN (b_out b) = h_out h /\ lenN (b_bad b) = h_bad h /\ lenN (b_inv b) = h_inv h /\
  lenN (b_just b) = h_just h /\ lenN (b_fair b) = h_fair h /\
  Forall (fun js => lenN js <= max_capacity) (b_just b) /\
  Forall (lit_ok nv na) (b_lat b) /\ Forall (lit_ok nv na) (b_out b) /\ Forall (lit_ok nv na) (b_bad b) /\
  Forall (lit_ok nv na) (b_inv b) /\ Forall (Forall (lit_ok nv na)) (b_just b) /\
  Forall (lit_ok nv na) (b_fair b) /\
  (forall k g, nth_error (b_ands b) k = Some g -> and_ok_b nv na (1 + nv) (N.of_nat k) g = true) /\
  b_map b = default_map (1 + nv) na.
Proof.
  intros Hv Hcap H nv na. unfold parse_bin_body in H.
  destruct (collect_from (h_lat h) 0 _ bs) as [[l r1]| |] eqn:E; cbn [pbind] in H; try discriminate H.
  destruct (p_props h r1) as [[props r2]| |] eqn:E0; cbn [pbind] in H; try discriminate H.
  destruct (collect_from (h_and h) _ bin_and r2) as [[l3 r3]| |] eqn:E1; cbn [pbind] in H; try discriminate H.
  inversion H; subst. clear H.
  cbn [b_lat b_res b_out b_bad b_inv b_just b_fair b_ands b_map].
  replace (1 + h_in h + h_lat h) with (1 + nv) in * by (unfold nv; lia).
  assert (Hvars : h_vars h = nv + na) by (unfold nv, na; lia).
  (* latches *)
  unfold collect_from in E, E1.
  pose proof (collect_i_length _ _ _ _ _ _ _ E) as Ll.
  assert (Fl : Forall (fun x : N * option bool => fst x / 2 <= nv + na) l).
  { apply Forall_forall. intros x Hx. apply In_nth_error in Hx. destruct Hx as [j Hj].
    refine (collect_i_inv _ (fun _ (x : N * option bool) => fst x / 2 <= nv + na) _ _ _ _ _ _ _ E j x Hj).
    intros i bs0 [x0 o0] r0 Hb. rewrite <- Hvars. cbn [fst]. eapply bin_latch_inv; exact Hb. }
  (* properties *)
  destruct (p_props_inv _ _ _ _ E0) as (P1 & P2 & P3 & P4 & P5 & F1 & F2 & F3 & F4 & F5 & F6).
  rewrite Hvars in *.
  (* gates *)
  pose proof (collect_i_length _ _ _ _ _ _ _ E1) as La.
  assert (Fa : forall k g, nth_error l3 k = Some g -> fst g < (1 + nv + N.of_nat k) * 2 /\ snd g <= fst g).
  { intros k [a0 b0] Hk.
    refine (collect_i_inv _ (fun i (g : N * N) => fst g < i * 2 /\ snd g <= fst g) _ _ _ _ _ _ _ E1 k _ Hk).
    intros i bs0 [a1 b1] r0 Hb. cbn [fst snd]. eapply bin_and_inv; exact Hb. }
  repeat split.
  - rewrite !map_length. reflexivity.
  - rewrite lenN_map. exact Ll.
  - rewrite lenN_map. exact La.
  - rewrite lenN_map. exact P1.
  - rewrite lenN_map. exact P2.
  - rewrite lenN_map. exact P3.
  - rewrite lenN_map. exact P4.
  - rewrite lenN_map. exact P5.
  - apply Forall_forall. intros js Hjs. apply in_map_iff in Hjs. destruct Hjs as (js0 & <- & Hjs0).
    rewrite lenN_map. rewrite Forall_forall in F6. auto.
  - rewrite <- (map_map fst (make_literal (1 + nv))). apply Forall_map_ok.
    apply Forall_forall. intros x Hx. apply in_map_iff in Hx. destruct Hx as (y & <- & Hy).
    rewrite Forall_forall in Fl. auto.
  - apply Forall_map_ok; assumption.
  - apply Forall_map_ok; assumption.
  - apply Forall_map_ok; assumption.
  - apply Forall_forall. intros js Hjs. apply in_map_iff in Hjs. destruct Hjs as (js0 & <- & Hjs0).
    apply Forall_map_ok. rewrite Forall_forall in F4. auto.
  - apply Forall_map_ok; assumption.
  - intros k g Hk. rewrite nth_error_map in Hk. destruct (nth_error l3 k) as [[a0 b0]|] eqn:Ek; [|discriminate].
    cbn in Hk. inversion Hk; subst. clear Hk. destruct (Fa _ _ Ek) as [H1 H2]. cbn [fst snd] in *.
    assert (k < length l3)%nat by (apply nth_error_Some; congruence).
    assert (Hk2 : N.of_nat k < na) by (unfold na; rewrite <- La; unfold lenN; lia).
    unfold and_ok_b. cbn [fst snd]. rewrite !aig_of_make_literal.
    rewrite !(make_literal_ok nv na) by lia.
    cbn [andb]. destruct (N.ltb_spec a0 (2 * (1 + nv + N.of_nat k))); [|lia].
    destruct (N.leb_spec b0 a0); [reflexivity|lia].
Qed.

(** (c, strong direction) an accepted binary file yields a well-formed problem,
    provided its symbol names have the shape a symbol line reproduces *)
Theorem parse_aig_wf ca bs p : is_binary bs -> parse_aiger ca bs = POk p -> syms_ok p -> wf p.
Proof.
  intros Hb H Hs. unfold parse_aiger in H. inv_bind H.
  destruct (p_header_inv _ _ _ E) as (C0 & C1 & C2 & C3 & C4 & C5 & C6 & C7 & C8 & Hv & Hbin).
  rewrite (Hbin Hb) in H. specialize (Hv (Hbin Hb)). inv_bind H. inv_bind H.
  match type of H with context [comment_or_eof ?x] => destruct (comment_or_eof x); [|discriminate] end.
  inversion H; subst. clear H.
  destruct (parse_bin_body_inv _ _ _ _ Hv C0 E0)
    as (B1 & B2 & B3 & B4 & B5 & B6 & B7 & B8 & B9 & B10 & B11 & B12 & B13 & B14 & B15 & B16 & B17).
  destruct Hs as (S1 & S2 & S3 & S4 & S5 & S6).
  unfold nvars, nands in *. cbn [ap_inputs ap_latches ap_resets ap_outputs ap_bad ap_inv ap_justice ap_fair
                                 ap_ands ap_map ap_syms] in *.
  constructor; unfold nvars, nands;
    cbn [ap_inputs ap_latches ap_resets ap_outputs ap_bad ap_inv ap_justice ap_fair ap_ands ap_map ap_syms];
    rewrite ?B2, ?B3, ?B4, ?B5, ?B6, ?B7, ?B8 in *; try assumption; try lia.
Qed.

(** ... so writing it in ASCII form and reading that file gives the same problem *)
Theorem parse_aig_then_aag ca ca' bs p : is_binary bs -> parse_aiger ca bs = POk p -> syms_ok p ->
  parse_aiger ca' (print_aag p) = POk p.
Proof. intros Hb H Hs. apply parse_print_aag. eapply parse_aig_wf; eassumption. Qed.

(* ------------------------------------------------------------------ *)
(** ** (d) AND gates of a binary file are topologically ordered *)

(** gate [g] reads the output of gate [g'] *)
Definition reads (gates : list (alit * alit)) (g g' : nat) : Prop :=
  exists x s, nth_error gates g = Some x /\
              (fst x = ALGate s (N.of_nat g') \/ snd x = ALGate s (N.of_nat g')).

Lemma topo_reads gates : topo gates -> forall g g', reads gates g g' -> (g' < g)%nat.
Proof.
  intros Ht g g' (x & s & Hx & [E|E]); destruct (Ht g x Hx) as [H1 H2].
  - specialize (H1 _ _ E). lia.
  - specialize (H2 _ _ E). lia.
Qed.

Lemma topo_no_cycle gates : topo gates -> forall g, ~ clos_trans nat (reads gates) g g.
Proof.
  intros Ht. assert (H : forall g g', clos_trans nat (reads gates) g g' -> (g' < g)%nat).
  { intros g g' Hc. induction Hc as [g g' Hr|g m g' _ IH1 _ IH2]; [eapply topo_reads; eassumption|lia]. }
  intros g Hc. apply H in Hc. lia.
Qed.

Lemma and_ok_topo nv na gates :
  (forall k g, nth_error gates k = Some g -> and_ok_b nv na (1 + nv) (N.of_nat k) g = true) -> topo gates.
Proof.
  intros H k g Hk. specialize (H k g Hk). unfold and_ok_b in H. rewrite !andb_true_iff in H.
  destruct H as [[[_ _] H3] H4]. apply N.ltb_lt in H3. apply N.leb_le in H4.
  assert (forall l s j, l = ALGate s j -> aig_of_lit (1 + nv) l < 2 * (1 + nv + N.of_nat k) -> (N.to_nat j < k)%nat).
  { intros l s j -> Hl. cbn [aig_of_lit] in Hl. destruct s; cbn [b2n] in Hl; lia. }
  split; intros s j E; eapply H; try exact E; lia.
Qed.

Theorem parse_aig_topo ca bs p : is_binary bs -> parse_aiger ca bs = POk p ->
  topo (ap_ands p) /\ acyclic_b (ap_ands p) = true /\
  forall g, ~ clos_trans nat (reads (ap_ands p)) g g.
Proof.
  intros Hb H. unfold parse_aiger in H. inv_bind H.
  destruct (p_header_inv _ _ _ E) as (C0 & _ & _ & _ & _ & _ & _ & _ & _ & Hv & Hbin).
  rewrite (Hbin Hb) in H. specialize (Hv (Hbin Hb)). inv_bind H. inv_bind H.
  match type of H with context [comment_or_eof ?x] => destruct (comment_or_eof x); [|discriminate] end.
  inversion H; subst. clear H. cbn [ap_ands].
  destruct (parse_bin_body_inv _ _ _ _ Hv C0 E0) as (_ & _ & _ & _ & _ & _ & _ & _ & _ & _ & _ & _ & _ & _ & _ & B16 & _).
  pose proof (and_ok_topo _ _ _ B16) as Ht.
  split; [exact Ht|]. split; [apply acyclic_b_topo; exact Ht|apply topo_no_cycle; exact Ht].
Qed.
