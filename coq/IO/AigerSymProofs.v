(** * C18p proofs, part 3: the symbol table of an AIGER file is read back *)
From Coq Require Import List NArith ZArith Bool Arith Lia.
From OxiVerif Require Import IO.Aiger IO.AigerParse IO.AigerLexProofs IO.AigerSecProofs.
Import ListNotations.
Open Scope N_scope.

Arguments N.add : simpl never.
Arguments N.sub : simpl never.
Arguments N.mul : simpl never.
Arguments N.ltb : simpl never.
Arguments N.leb : simpl never.
Arguments N.eqb : simpl never.
Arguments N.of_nat : simpl never.
Arguments N.to_nat : simpl never.

(* ------------------------------------------------------------------ *)
(** ** Names *)

Definition name_ok (n : aname) : Prop := name_ok_b n = true.

Lemma name_ok_facts n : name_ok n ->
  Forall (fun b => b <> 10 /\ b <> 13) n /\ nosp n /\ (n = [] \/ exists t b, n = t ++ [b] /\ is_sp b = false).
Proof.
  unfold name_ok, name_ok_b. rewrite !andb_true_iff. intros [[H1 H2] H3]. split; [|split].
  - apply Forall_forall. intros b Hb. rewrite forallb_forall in H1. specialize (H1 b Hb).
    apply negb_true_iff, orb_false_iff in H1. destruct H1 as [A B].
    apply N.eqb_neq in A. apply N.eqb_neq in B. auto.
  - destruct n as [|b r]; [exact I|]. cbn. apply negb_true_iff in H2. exact H2.
  - destruct n as [|b0 r0] eqn:E; [left; reflexivity|]. right. rewrite <- E in *.
    destruct (rev n) as [|b t] eqn:Er.
    + apply (f_equal (@rev N)) in Er. rewrite rev_involutive in Er. subst n. discriminate.
    + exists (rev t), b. split; [|apply negb_true_iff; exact H3].
      apply (f_equal (@rev N)) in Er. rewrite rev_involutive in Er. exact Er.
Qed.

Lemma trim_end_last : forall t b, is_sp b = false -> trim_end (t ++ [b]) = t ++ [b].
Proof.
  induction t as [|x t IH]; intros b Hb.
  - cbn. rewrite Hb. reflexivity.
  - cbn [app trim_end]. rewrite IH by assumption. destruct (t ++ [b]) eqn:E; [|reflexivity].
    destruct t; discriminate.
Qed.

Lemma trim_end_ok n : name_ok n -> trim_end n = n.
Proof.
  intros H. destruct (name_ok_facts n H) as (_ & _ & [->|(t & b & -> & Hb)]); [reflexivity|].
  apply trim_end_last. exact Hb.
Qed.

Lemma not_line_ending_name : forall n rest, Forall (fun b => b <> 10 /\ b <> 13) n ->
  not_line_ending (n ++ nl ++ rest) = POk (n, nl ++ rest).
Proof.
  induction n as [|b n IH]; intros rest H; [reflexivity|].
  inversion H as [|? ? [H10 H13] Hn]; subst. cbn [app not_line_ending].
  destruct (N.eqb_spec b 10); [contradiction|]. destruct (N.eqb_spec b 13); [contradiction|].
  rewrite IH by assumption. reflexivity.
Qed.

(* ------------------------------------------------------------------ *)
(** ** One symbol line *)

Definition kind_char (k : skind) : N :=
  match k with
  | KIn => 105 | KOut => 111 | KBad => 98 | KInv => 99 | KJust => 106 | KFair => 102 | KLatch => 108
  end.

Lemma sym_kind_char k i r : sym_kind (kind_char k :: dec i ++ r) = Some (k, dec i ++ r).
Proof.
  destruct k; try reflexivity.
  destruct (dec_head i) as (d & t & E & Hd). rewrite E. cbn [app kind_char sym_kind].
  change (99 =? 105) with false. change (99 =? 111) with false. change (99 =? 98) with false.
  change (99 =? 99) with true. cbn match. rewrite Hd. reflexivity.
Qed.

Lemma sym_entry_print k i name rest : i < two64 -> name_ok name ->
  sym_entry (kind_char k :: dec i ++ sp ++ name ++ nl ++ rest) = POk (Some (k, i, name), rest).
Proof.
  intros Hi Hn. destruct (name_ok_facts name Hn) as (H1 & H2 & _).
  unfold sym_entry. rewrite sym_kind_char.
  rewrite p_u64_dec by side. cbn [pbind].
  rewrite space1_sp.
  2:{ destruct name; [reflexivity|exact H2]. }
  cbn [pbind]. rewrite not_line_ending_name by assumption. cbn [pbind].
  cbn [app line_ending_or_eof nl line_ending]. change (10 =? 10) with true. cbn match. cbn [pbind].
  rewrite trim_end_ok by assumption. reflexivity.
Qed.

Lemma sym_entry_nil : sym_entry [] = POk (None, []).
Proof. reflexivity. Qed.

(* ------------------------------------------------------------------ *)
(** ** The six name vectors as slots *)

Definition slot_get (k : skind) (st : asyms) : anames :=
  match k with
  | KIn | KLatch => sy_in st | KOut => sy_out st | KBad => sy_bad st
  | KInv => sy_inv st | KJust => sy_just st | KFair => sy_fair st
  end.

Definition slot_set (k : skind) (st : asyms) (v : anames) : asyms :=
  match k with
  | KIn | KLatch => mkSyms v (sy_out st) (sy_bad st) (sy_inv st) (sy_just st) (sy_fair st)
  | KOut => mkSyms (sy_in st) v (sy_bad st) (sy_inv st) (sy_just st) (sy_fair st)
  | KBad => mkSyms (sy_in st) (sy_out st) v (sy_inv st) (sy_just st) (sy_fair st)
  | KInv => mkSyms (sy_in st) (sy_out st) (sy_bad st) v (sy_just st) (sy_fair st)
  | KJust => mkSyms (sy_in st) (sy_out st) (sy_bad st) (sy_inv st) v (sy_fair st)
  | KFair => mkSyms (sy_in st) (sy_out st) (sy_bad st) (sy_inv st) (sy_just st) v
  end.

Definition slot_count (h : aheader) (k : skind) : N :=
  match k with
  | KIn | KLatch => h_in h + h_lat h | KOut => h_out h | KBad => h_bad h
  | KInv => h_inv h | KJust => h_just h | KFair => h_fair h
  end.

Definition slot_off (h : aheader) (k : skind) : N :=
  match k with KLatch => h_in h | _ => 0 end.

Lemma sym_apply_slot h st k i name : i < sym_count h k ->
  sym_apply h st (k, i, name)
  = Some (slot_set k st (put_name (slot_get k st) (slot_count h k) (i + slot_off h k) name)).
Proof.
  intros Hi. unfold sym_apply. destruct (N.leb_spec (sym_count h k) i); [lia|].
  destruct k; cbn [slot_set slot_get slot_count slot_off]; rewrite ?N.add_0_r; reflexivity.
Qed.

Lemma slot_get_set k st v : slot_get k (slot_set k st v) = v.
Proof. destruct k; reflexivity. Qed.

Lemma slot_set_set k st v w : slot_set k (slot_set k st v) w = slot_set k st w.
Proof. destruct k; reflexivity. Qed.

Lemma slot_set_get k st : slot_set k st (slot_get k st) = st.
Proof. destruct k, st; reflexivity. Qed.

(* ------------------------------------------------------------------ *)
(** ** Filling a name vector entry by entry *)

(** effect of the symbol lines of the vector [l] (index of its first entry: [i])
    on the stored vector [acc] *)
Fixpoint fill (count : N) (i : N) (l : anames) (acc : anames) : anames :=
  match l with
  | [] => acc
  | None :: r => fill count (i + 1) r acc
  | Some n :: r => fill count (i + 1) r (put_name acc count i n)
  end.

Definition has_some (l : anames) : bool :=
  existsb (fun x => match x with Some _ => true | None => false end) l.

Lemma has_some_app a b : has_some (a ++ b) = has_some a || has_some b.
Proof. apply existsb_app. Qed.

Lemma no_some_repeat : forall l, has_some l = false -> l = repeat None (length l).
Proof.
  induction l as [|[n|] l IH]; cbn; intros H; [reflexivity|discriminate|].
  f_equal. apply IH. exact H.
Qed.

Lemma set_name_app : forall (a : anames) x b n,
  set_name (a ++ x :: b) (length a) n
  = a ++ (match x with Some old => Some (old ++ 32 :: n) | None => Some n end) :: b.
Proof.
  induction a as [|y a IH]; intros x b n; [reflexivity|]. cbn [app length set_name]. f_equal. apply IH.
Qed.

Lemma fill_app count : forall a b i acc,
  fill count i (a ++ b) acc = fill count (i + lenN a) b (fill count i a acc).
Proof.
  induction a as [|[n|] a IH]; intros b i acc; cbn [app fill].
  - rewrite lenN_nil, N.add_0_r. reflexivity.
  - rewrite IH, lenN_cons. f_equal. lia.
  - rewrite IH, lenN_cons. f_equal. lia.
Qed.

Lemma fill_spec count : forall l done acc,
  (length done + length l = N.to_nat count)%nat ->
  acc = (if has_some done then done ++ repeat None (length l) else []) ->
  fill count (lenN done) l acc = if has_some (done ++ l) then done ++ l else [].
Proof.
  induction l as [|x l IH]; intros done acc Hlen Hacc.
  - cbn [fill]. rewrite app_nil_r. subst acc. cbn [length repeat]. rewrite app_nil_r. reflexivity.
  - assert (E : done ++ x :: l = (done ++ [x]) ++ l) by (rewrite <- app_assoc; reflexivity).
    assert (Ei : lenN done + 1 = lenN (done ++ [x])).
    { unfold lenN. rewrite app_length. cbn [length]. lia. }
    destruct x as [n|]; cbn [fill]; rewrite E, Ei; apply IH.
    + rewrite app_length. cbn [length] in *. lia.
    + rewrite has_some_app. cbn [has_some existsb]. rewrite orb_true_r.
      subst acc. unfold put_name. cbn [length repeat].
      destruct (has_some done) eqn:Hs.
      * replace (N.to_nat (lenN done)) with (length done) by (unfold lenN; lia).
        destruct (done ++ None :: repeat None (length l)) eqn:Ed.
        { destruct done; discriminate. }
        rewrite <- Ed. rewrite set_name_app. rewrite <- app_assoc. reflexivity.
      * replace (N.to_nat count) with (length done + S (length l))%nat by (cbn [length] in Hlen; lia).
        rewrite repeat_app. cbn [repeat].
        rewrite (no_some_repeat done Hs) at 3.
        replace (N.to_nat (lenN done)) with (length (repeat (@None aname) (length done)))
          by (rewrite repeat_length; unfold lenN; lia).
        rewrite set_name_app. rewrite <- app_assoc. rewrite <- (no_some_repeat done Hs). reflexivity.
    + rewrite app_length. cbn [length] in *. lia.
    + rewrite has_some_app. cbn [has_some existsb]. rewrite orb_false_r.
      subst acc. destruct (has_some done); [|reflexivity].
      cbn [length repeat]. rewrite <- app_assoc. reflexivity.
Qed.

(** a complete vector written into an empty slot is the vector (or stays empty
    when it has no name) *)
Lemma fill_complete count l :
  names_ok_b count l = true -> fill count 0 l [] = l.
Proof.
  unfold names_ok_b. destruct l as [|x l]; [reflexivity|].
  set (v := x :: l). rewrite !andb_true_iff. intros [[Hlen Hsome] _].
  apply N.eqb_eq in Hlen.
  pose proof (fill_spec count v [] [] ) as H. cbn [length has_some existsb app] in H.
  change (lenN []) with 0 in H. rewrite H; [|unfold lenN in Hlen; lia|reflexivity].
  fold (has_some v). unfold has_some. rewrite Hsome. reflexivity.
Qed.

(* ------------------------------------------------------------------ *)
(** ** The loop *)

Lemma sym_loop_mono h : forall f f' st bs x,
  sym_loop f h st bs = POk x -> (f <= f')%nat -> sym_loop f' h st bs = POk x.
Proof.
  induction f as [|f IH]; intros f' st bs x H Hle; [discriminate|].
  destruct f' as [|f']; [lia|]. cbn [sym_loop] in *.
  destruct (sym_entry bs) as [[[e|] r]| |]; cbn [pbind] in *; try discriminate; [|exact H].
  destruct (sym_apply h st e); [|discriminate]. apply (IH f' _ _ _ H). lia.
Qed.

Fixpoint count_some (l : anames) : nat :=
  match l with
  | [] => O
  | Some _ :: r => S (count_some r)
  | None :: r => count_some r
  end.

Lemma count_some_le_print c : forall l i, (count_some l <= length (print_names c i l))%nat.
Proof.
  induction l as [|[n|] l IH]; intros i; cbn [count_some print_names]; [lia| |].
  - rewrite app_length. cbn [length]. specialize (IH (i + 1)). lia.
  - cbn [app]. apply IH.
Qed.

(** reading the lines of one vector: the state's slot is filled *)
Lemma sym_loop_names h k : forall (l : anames) i st f rest x,
  (forall j n, nth_error l j = Some (Some n) ->
               name_ok n /\ i + N.of_nat j < sym_count h k /\ i + N.of_nat j < two64) ->
  sym_loop f h (slot_set k st (fill (slot_count h k) (i + slot_off h k) l (slot_get k st))) rest = POk x ->
  sym_loop (count_some l + f) h st (print_names (kind_char k) i l ++ rest) = POk x.
Proof.
  induction l as [|[n|] l IH]; intros i st f rest x Hl H.
  - cbn [fill] in H. rewrite slot_set_get in H. exact H.
  - cbn [count_some print_names plus sym_loop].
    destruct (Hl O n eq_refl) as (Hn & Hc & Hi). replace (i + N.of_nat 0) with i in * by lia.
    cbn [app]. rewrite <- !app_assoc. rewrite sym_entry_print by assumption. cbn [pbind].
    rewrite sym_apply_slot by assumption.
    apply IH.
    + intros j m Hj. replace (i + 1 + N.of_nat j) with (i + N.of_nat (S j)) by lia. apply Hl. exact Hj.
    + rewrite slot_get_set, slot_set_set. cbn [fill] in H.
      replace (i + 1 + slot_off h k) with (i + slot_off h k + 1) by lia. exact H.
  - cbn [count_some print_names app]. apply IH.
    + intros j m Hj. replace (i + 1 + N.of_nat j) with (i + N.of_nat (S j)) by lia. apply Hl. exact Hj.
    + cbn [fill] in H. replace (i + 1 + slot_off h k) with (i + slot_off h k + 1) by lia. exact H.
Qed.

(* ------------------------------------------------------------------ *)
(** ** The whole table *)

Lemma names_ok_nth count l j n : names_ok_b count l = true -> nth_error l j = Some (Some n) ->
  name_ok n /\ N.of_nat j < count.
Proof.
  unfold names_ok_b. destruct l as [|x l]; [destruct j; discriminate|].
  set (v := x :: l). rewrite !andb_true_iff. intros [[Hlen _] Hok] Hj.
  apply N.eqb_eq in Hlen. split.
  - rewrite forallb_forall in Hok. apply (Hok (Some n)). eapply nth_error_In; exact Hj.
  - assert (j < length v)%nat by (apply nth_error_Some; congruence). unfold lenN in Hlen. lia.
Qed.

Lemma names_ok_length count l : names_ok_b count l = true -> l = [] \/ lenN l = count.
Proof.
  unfold names_ok_b. destruct l; [left; reflexivity|]. rewrite !andb_true_iff.
  intros [[Hlen _] _]. right. apply N.eqb_eq. exact Hlen.
Qed.

Lemma nth_error_firstn' {A} : forall n (l : list A) j, (j < n)%nat -> nth_error (firstn n l) j = nth_error l j.
Proof.
  induction n as [|n IH]; intros l j Hj; [lia|]. destruct l as [|x l]; [destruct j; reflexivity|].
  destruct j as [|j]; [reflexivity|]. cbn. apply IH. lia.
Qed.

Lemma nth_error_skipn' {A} : forall n (l : list A) j, nth_error (skipn n l) j = nth_error l (n + j).
Proof.
  induction n as [|n IH]; intros l j; [reflexivity|]. destruct l as [|x l]; [destruct j; reflexivity|].
  cbn. apply IH.
Qed.

Theorem symbol_table_print h (s : asyms) :
  h_in h + h_lat h <= max_capacity -> h_out h <= max_capacity -> h_bad h <= max_capacity ->
  h_inv h <= max_capacity -> h_just h <= max_capacity -> h_fair h <= max_capacity ->
  names_ok_b (h_in h + h_lat h) (sy_in s) = true -> names_ok_b (h_out h) (sy_out s) = true ->
  names_ok_b (h_bad h) (sy_bad s) = true -> names_ok_b (h_inv h) (sy_inv s) = true ->
  names_ok_b (h_just h) (sy_just s) = true -> names_ok_b (h_fair h) (sy_fair s) = true ->
  let ni := N.to_nat (h_in h) in
  symbol_table h
    (print_names 105 0 (firstn ni (sy_in s)) ++ print_names 108 0 (skipn ni (sy_in s))
     ++ print_names 111 0 (sy_out s) ++ print_names 98 0 (sy_bad s) ++ print_names 99 0 (sy_inv s)
     ++ print_names 106 0 (sy_just s) ++ print_names 102 0 (sy_fair s))
  = POk (s, []).
Proof.
  intros Ci Co Cb Cc Cj Cf Hi Ho Hb Hc Hj Hf ni.
  unfold symbol_table.
  set (bs := print_names 105 0 _ ++ _).
  assert (Hcap : max_capacity < two64) by reflexivity.
  (* side conditions of the chunks *)
  assert (Si : forall j n, nth_error (firstn ni (sy_in s)) j = Some (Some n) ->
                           name_ok n /\ 0 + N.of_nat j < sym_count h KIn /\ 0 + N.of_nat j < two64).
  { intros j n Hn.
    assert (j < ni)%nat.
    { assert (j < length (firstn ni (sy_in s)))%nat by (apply nth_error_Some; congruence).
      rewrite firstn_length in *. lia. }
    rewrite nth_error_firstn' in Hn by assumption.
    destruct (names_ok_nth _ _ _ _ Hi Hn). cbn [sym_count]. split; [assumption|]. subst ni. lia. }
  assert (Sl : forall j n, nth_error (skipn ni (sy_in s)) j = Some (Some n) ->
                           name_ok n /\ 0 + N.of_nat j < sym_count h KLatch /\ 0 + N.of_nat j < two64).
  { intros j n Hn. rewrite nth_error_skipn' in Hn.
    destruct (names_ok_nth _ _ _ _ Hi Hn). cbn [sym_count]. split; [assumption|]. subst ni. lia. }
  assert (So : forall count l, names_ok_b count l = true -> count <= max_capacity ->
               forall j n, nth_error l j = Some (Some n) ->
                           name_ok n /\ 0 + N.of_nat j < count /\ 0 + N.of_nat j < two64).
  { intros count l Hl Hcnt j n Hn. destruct (names_ok_nth _ _ _ _ Hl Hn). split; [assumption|]. lia. }
  eapply sym_loop_mono.
  - unfold bs.
    apply (sym_loop_names h KIn _ 0 no_syms); [exact Si|].
    apply (sym_loop_names h KLatch _ 0); [exact Sl|].
    apply (sym_loop_names h KOut _ 0); [apply So; assumption|].
    apply (sym_loop_names h KBad _ 0); [apply So; assumption|].
    apply (sym_loop_names h KInv _ 0); [apply So; assumption|].
    apply (sym_loop_names h KJust _ 0); [apply So; assumption|].
    rewrite <- (app_nil_r (print_names 102 0 (sy_fair s))).
    apply (sym_loop_names h KFair _ 0 _ 1%nat); [apply So; assumption|].
    cbn [sym_loop]. rewrite sym_entry_nil. cbn [pbind].
    cbn [slot_set slot_get slot_count slot_off no_syms sy_in sy_out sy_bad sy_inv sy_just sy_fair].
    rewrite !N.add_0_r, ?N.add_0_l.
    rewrite (fill_complete _ _ Ho), (fill_complete _ _ Hb), (fill_complete _ _ Hc),
      (fill_complete _ _ Hj), (fill_complete _ _ Hf).
    (* the input vector: its two chunks together are the vector *)
    replace (fill (h_in h + h_lat h) (h_in h) (skipn ni (sy_in s))
                  (fill (h_in h + h_lat h) 0 (firstn ni (sy_in s)) []))
      with (sy_in s); [destruct s; reflexivity|].
    destruct (names_ok_length _ _ Hi) as [E|E].
    + rewrite E. rewrite firstn_nil, skipn_nil. reflexivity.
    + rewrite <- (fill_complete _ _ Hi) at 1.
      rewrite <- (firstn_skipn ni (sy_in s)) at 1. rewrite fill_app. f_equal.
      unfold lenN in *. rewrite firstn_length. subst ni. lia.
  - (* fuel *)
    unfold bs. rewrite !app_length.
    pose proof (count_some_le_print 105 (firstn ni (sy_in s)) 0).
    pose proof (count_some_le_print 108 (skipn ni (sy_in s)) 0).
    pose proof (count_some_le_print 111 (sy_out s) 0).
    pose proof (count_some_le_print 98 (sy_bad s) 0).
    pose proof (count_some_le_print 99 (sy_inv s) 0).
    pose proof (count_some_le_print 106 (sy_just s) 0).
    pose proof (count_some_le_print 102 (sy_fair s) 0).
    lia.
Qed.
