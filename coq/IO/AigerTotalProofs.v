(** * C18p proofs, part 5: totality of the model reader

    Every parser of the model consumes input on success and never reports
    [PFuel]; the count-driven loops get the length of their input plus one as
    fuel, one unit per iteration, and every iteration consumes at least one
    byte -- so [parse_aiger] returns a problem or a diagnostic for ALL byte
    strings ([parse_aiger_total]). *)
From Coq Require Import List NArith ZArith Bool Arith Lia.
From OxiVerif Require Import IO.Aiger IO.AigerParse.
Import ListNotations.
Open Scope N_scope.

Arguments N.add : simpl never.
Arguments N.sub : simpl never.
Arguments N.mul : simpl never.
Arguments N.div : simpl never.
Arguments N.modulo : simpl never.
Arguments N.ltb : simpl never.
Arguments N.leb : simpl never.
Arguments N.eqb : simpl never.
Arguments N.odd : simpl never.
Arguments N.land : simpl never.
Arguments N.lor : simpl never.
Arguments N.shiftl : simpl never.

(** success consumes at least one byte / does not produce input; never [PFuel] *)
Definition strict {A} (r : pres (A * list N)) (bs : list N) : Prop :=
  match r with POk (_, r') => (length r' < length bs)%nat | PErr => True | PFuel => False end.
Definition weak {A} (r : pres (A * list N)) (bs : list N) : Prop :=
  match r with POk (_, r') => (length r' <= length bs)%nat | PErr => True | PFuel => False end.
(** the same for parsers that only return the remaining input *)
Definition strict0 (r : pres (list N)) (bs : list N) : Prop :=
  match r with POk r' => (length r' < length bs)%nat | PErr => True | PFuel => False end.
Definition weak0 (r : pres (list N)) (bs : list N) : Prop :=
  match r with POk r' => (length r' <= length bs)%nat | PErr => True | PFuel => False end.

Lemma space0_len : forall bs, (length (space0 bs) <= length bs)%nat.
Proof.
  induction bs as [|b r IH]; cbn; [lia|]. destruct (is_sp b); cbn; lia.
Qed.

Lemma space1_len bs : strict0 (space1 bs) bs.
Proof.
  destruct bs as [|b r]; cbn; [exact I|]. destruct (is_sp b); cbn; [|exact I].
  pose proof (space0_len r). lia.
Qed.

Lemma line_ending_len bs : strict0 (line_ending bs) bs.
Proof.
  destruct bs as [|b r]; cbn; [exact I|]. destruct (b =? 10); cbn; [lia|].
  destruct (b =? 13); cbn; [|exact I]. destruct r as [|c r']; cbn; [exact I|].
  destruct (c =? 10); cbn; [lia|exact I].
Qed.

Lemma eol_or_eof_len bs : weak0 (eol_or_eof bs) bs.
Proof.
  unfold eol_or_eof. pose proof (space0_len bs) as H. destruct (space0 bs) as [|b r] eqn:E; [cbn; lia|].
  cbn [length] in H.
  pose proof (line_ending_len (b :: r)) as H1. unfold strict0 in H1.
  destruct (line_ending (b :: r)); cbn in *; try exact I; try contradiction. lia.
Qed.

Lemma digits_val_len : forall bs acc, (length (snd (digits_val bs acc)) <= length bs)%nat.
Proof.
  induction bs as [|b r IH]; intros acc; cbn; [lia|]. destruct (is_digit b); cbn; [|lia].
  specialize (IH (acc * 10 + (b - 48))). lia.
Qed.

Lemma p_u64_len bs : strict (p_u64 bs) bs.
Proof.
  unfold p_u64. destruct bs as [|b r]; [exact I|]. destruct (is_digit b) eqn:E; [|exact I].
  cbn [digits_val]. rewrite E.
  pose proof (digits_val_len r (0 * 10 + (b - 48))).
  destruct (digits_val r (0 * 10 + (b - 48))) as [v r']. cbn [snd] in *.
  destruct (v <? two64); cbn; [lia|exact I].
Qed.

Ltac fin := cbn [strict weak strict0 weak0]; try exact I; try contradiction; try lia.

(** one step: case analysis on the next primitive parser (or condition) of the goal *)
Ltac dlen0 :=
  match goal with
  | |- context [pbind (p_u64 ?b) _] =>
    let H := fresh "L" in pose proof (p_u64_len b) as H; unfold strict in H; destruct (p_u64 b) as [[? ?]| |]
  | |- context [pbind (space1 ?b) _] =>
    let H := fresh "L" in pose proof (space1_len b) as H; unfold strict0 in H; destruct (space1 b) as [?| |]
  | |- context [pbind (eol_or_eof ?b) _] =>
    let H := fresh "L" in pose proof (eol_or_eof_len b) as H; unfold weak0 in H; destruct (eol_or_eof b) as [?| |]
  | |- context [if ?c then _ else _] => destruct c
  end; cbn [pbind]; try exact I; try contradiction.

Lemma p_usize_len bs : strict (p_usize bs) bs.
Proof. unfold p_usize. repeat dlen0. fin. Qed.

Lemma p_literal_len vars bs : strict (p_literal vars bs) bs.
Proof. unfold p_literal. repeat dlen0. fin. Qed.

Lemma latch_init_ext_len latch bs : weak (latch_init_ext latch bs) bs.
Proof.
  unfold latch_init_ext.
  pose proof (space1_len bs) as H1. unfold strict0 in H1.
  destruct (space1 bs) as [r1| |]; try contradiction; [|cbn; lia].
  pose proof (p_u64_len r1) as H2. unfold strict in H2.
  destruct (p_u64 r1) as [[v r2]| |]; try contradiction; [|cbn; lia].
  destruct (v =? 0); [cbn; lia|]. destruct (v =? 1); [cbn; lia|]. destruct (v =? latch); cbn; [lia|exact I].
Qed.

Ltac dlen :=
  first
    [ match goal with
      | |- context [pbind (p_usize ?b) _] =>
        let H := fresh "L" in pose proof (p_usize_len b) as H; unfold strict in H; destruct (p_usize b) as [[? ?]| |]
      | |- context [pbind (p_literal ?v ?b) _] =>
        let H := fresh "L" in pose proof (p_literal_len v b) as H; unfold strict in H; destruct (p_literal v b) as [[? ?]| |]
      | |- context [pbind (latch_init_ext ?v ?b) _] =>
        let H := fresh "L" in pose proof (latch_init_ext_len v b) as H; unfold weak in H;
        destruct (latch_init_ext v b) as [[? ?]| |]
      end; cbn [pbind]; try exact I; try contradiction
    | dlen0 ].

Lemma sp_usize_len bs : strict (sp_usize bs) bs.
Proof.
  unfold sp_usize. dlen.
  match goal with |- strict (p_usize ?l) _ => pose proof (p_usize_len l) as H; unfold strict in *;
                                               destruct (p_usize l) as [[? ?]| |] end; fin.
Qed.

Lemma literal_line_len vars bs : strict (literal_line vars bs) bs.
Proof. unfold literal_line. repeat dlen. fin. Qed.

Lemma usize_line_len bs : strict (usize_line bs) bs.
Proof. unfold usize_line. repeat dlen. fin. Qed.

Lemma input_line_len vars bs : strict (input_line vars bs) bs.
Proof. unfold input_line. repeat dlen. fin. Qed.

Lemma latch_line_len vars bs : strict (latch_line vars bs) bs.
Proof. unfold latch_line. repeat dlen. fin. Qed.

Lemma bin_latch_len vars fl i bs : strict (bin_latch vars fl i bs) bs.
Proof. unfold bin_latch. repeat dlen. fin. Qed.

Lemma and_line_len vars bs : strict (and_line vars bs) bs.
Proof. unfold and_line. repeat dlen. fin. Qed.

Lemma usize_7bit_from_len : forall bs shift val, strict (usize_7bit_from bs shift val) bs.
Proof.
  induction bs as [|b r IH]; intros shift val; cbn [usize_7bit_from]; [exact I|].
  destruct (N.land b 128 =? 0); [cbn; lia|].
  specialize (IH (shift + 7) (N.lor val (N.land (N.shiftl (N.land b 127) (shift mod 64)) (two64 - 1)))).
  unfold strict in *. destruct (usize_7bit_from r _ _) as [[? ?]| |]; cbn [length]; try exact I; try contradiction. lia.
Qed.

Lemma bin_and_len i bs : strict (bin_and i bs) bs.
Proof.
  unfold bin_and, usize_7bit.
  pose proof (usize_7bit_from_len bs 0 0) as H1. unfold strict in H1.
  destruct (usize_7bit_from bs 0 0) as [[d1 r1]| |]; cbn [pbind]; try exact I; try contradiction.
  pose proof (usize_7bit_from_len r1 0 0) as H2. unfold strict in H2.
  destruct (usize_7bit_from r1 0 0) as [[d2 r2]| |]; cbn [pbind]; try exact I; try contradiction.
  destruct (and_gate_bin (i * 2) d1 d2); fin.
Qed.

(* ------------------------------------------------------------------ *)
(** ** Loops *)

Lemma collect_i_len {A} (p : N -> list N -> pres (A * list N)) :
  (forall i bs, strict (p i bs) bs) ->
  forall f n i bs, (length bs < f)%nat -> weak (collect_i f n i p bs) bs.
Proof.
  intros Hp. induction f as [|f IH]; intros n i bs Hf; [lia|].
  cbn [collect_i]. destruct (n =? 0); [cbn; lia|].
  pose proof (Hp i bs) as H. unfold strict in H.
  destruct (p i bs) as [[x r]| |]; try exact I; try contradiction.
  assert (Hr : (length r < f)%nat) by lia.
  specialize (IH (n - 1) (i + 1) r Hr). unfold weak in *.
  destruct (collect_i f (n - 1) (i + 1) p r) as [[xs r']| |]; try exact I; try contradiction. lia.
Qed.

Lemma collect_len {A} (p : list N -> pres (A * list N)) n bs :
  (forall bs, strict (p bs) bs) -> weak (collect n p bs) bs.
Proof. intros Hp. unfold collect. apply collect_i_len; [intros; apply Hp|lia]. Qed.

Lemma collect_from_len {A} (p : N -> list N -> pres (A * list N)) n i bs :
  (forall i bs, strict (p i bs) bs) -> weak (collect_from n i p bs) bs.
Proof. intros Hp. unfold collect_from. apply collect_i_len; [exact Hp|lia]. Qed.

Ltac dcollect :=
  match goal with
  | |- context [pbind (collect ?n (literal_line ?v) ?b) _] =>
    let H := fresh "C" in
    pose proof (collect_len (literal_line v) n b (literal_line_len v)) as H; unfold weak in H;
    destruct (collect n (literal_line v) b) as [[? ?]| |]
  | |- context [pbind (collect ?n usize_line ?b) _] =>
    let H := fresh "C" in
    pose proof (collect_len usize_line n b usize_line_len) as H; unfold weak in H;
    destruct (collect n usize_line b) as [[? ?]| |]
  end; cbn [pbind]; try exact I; try contradiction.

Lemma p_justice_len vars : forall lens bs, weak (p_justice vars lens bs) bs.
Proof.
  induction lens as [|n lens IH]; intros bs; cbn [p_justice]; [cbn; lia|].
  dcollect.
  match goal with
  | |- context [pbind (p_justice vars lens ?b) _] =>
    pose proof (IH b) as H2; unfold weak in H2; destruct (p_justice vars lens b) as [[? ?]| |]
  end; cbn [pbind]; try exact I; try contradiction. cbn. lia.
Qed.

Lemma p_props_len h bs : weak (p_props h bs) bs.
Proof.
  unfold p_props. repeat dcollect.
  match goal with
  | |- context [pbind (p_justice ?v ?ls ?b) _] =>
    pose proof (p_justice_len v ls b) as H2; unfold weak in H2; destruct (p_justice v ls b) as [[? ?]| |]
  end; cbn [pbind]; try exact I; try contradiction.
  dcollect. cbn. lia.
Qed.

(* ------------------------------------------------------------------ *)
(** ** Bodies, symbol table, the parser *)

Definition nofuel {A} (r : pres A) : Prop := r <> PFuel.

Lemma parse_bin_body_nofuel h bs : nofuel (parse_bin_body h bs).
Proof.
  unfold parse_bin_body, nofuel.
  pose proof (collect_from_len (bin_latch (h_vars h) (1 + h_in h)) (h_lat h) 0 bs
                               (bin_latch_len _ _)) as H1.
  unfold weak in H1. destruct (collect_from _ _ _ bs) as [[lats r1]| |]; cbn [pbind]; try discriminate; try contradiction.
  pose proof (p_props_len h r1) as H2.
  unfold weak in H2. destruct (p_props h r1) as [[props r2]| |]; cbn [pbind]; try discriminate; try contradiction.
  pose proof (collect_from_len bin_and (h_and h) (1 + h_in h + h_lat h) r2 bin_and_len) as H3.
  unfold weak in H3. destruct (collect_from _ _ _ r2) as [[ands r3]| |]; cbn [pbind]; try discriminate; try contradiction.
Qed.

Lemma parse_ascii_body_nofuel ca h bs : nofuel (parse_ascii_body ca h bs).
Proof.
  unfold parse_ascii_body, nofuel.
  pose proof (collect_len (input_line (h_vars h)) (h_in h) bs (input_line_len _)) as H1.
  unfold weak in H1. destruct (collect _ _ bs) as [[ins r1]| |]; cbn [pbind]; try discriminate; try contradiction.
  pose proof (collect_len (latch_line (h_vars h)) (h_lat h) r1 (latch_line_len _)) as H2.
  unfold weak in H2. destruct (collect _ _ r1) as [[lats r2]| |]; cbn [pbind]; try discriminate; try contradiction.
  pose proof (p_props_len h r2) as H3.
  unfold weak in H3. destruct (p_props h r2) as [[props r3]| |]; cbn [pbind]; try discriminate; try contradiction.
  pose proof (collect_len (and_line (h_vars h)) (h_and h) r3 (and_line_len _)) as H4.
  unfold weak in H4. destruct (collect _ _ r3) as [[ands r4]| |]; cbn [pbind]; try discriminate; try contradiction.
  destruct (define_all _ ins _ _); [|discriminate].
  destruct (define_all _ _ _ _); [|discriminate].
  destruct (define_all _ _ _ _); [|discriminate].
  destruct (lits_undef _); [discriminate|]. destruct (ca && _); discriminate.
Qed.

Lemma not_line_ending_nofuel : forall bs, not_line_ending bs <> PFuel.
Proof.
  induction bs as [|b r IH]; cbn; [discriminate|].
  destruct (b =? 10); [discriminate|]. destruct (b =? 13).
  - destruct r as [|c r']; [discriminate|]. destruct (c =? 10); discriminate.
  - destruct (not_line_ending r) as [[? ?]| |]; try discriminate. contradiction.
Qed.

Lemma not_line_ending_len : forall bs l r, not_line_ending bs = POk (l, r) -> (length r <= length bs)%nat.
Proof.
  induction bs as [|b t IH]; intros l r H; cbn in H.
  - inversion H; subst. cbn. lia.
  - destruct (b =? 10); [inversion H; subst; cbn; lia|]. destruct (b =? 13).
    + destruct t as [|c t']; [discriminate|]. destruct (c =? 10); [inversion H; subst; cbn; lia|discriminate].
    + destruct (not_line_ending t) as [[l' r']| |] eqn:E; try discriminate.
      inversion H; subst. specialize (IH _ _ eq_refl). cbn. lia.
Qed.

Lemma sym_kind_len bs k r : sym_kind bs = Some (k, r) -> (length r < length bs)%nat.
Proof.
  unfold sym_kind. destruct bs as [|b t]; [discriminate|].
  repeat match goal with
         | |- context [if ?c then _ else _] => destruct c
         end; intros H; try discriminate; try (inversion H; subst; cbn; lia).
  destruct t as [|d t']; [discriminate|]. destruct (is_digit d); [inversion H; subst; cbn; lia|discriminate].
Qed.

(** an entry consumes input; the end of the table does not *)
Lemma sym_entry_len bs :
  match sym_entry bs with
  | POk (Some _, r) => (length r < length bs)%nat
  | POk (None, r) => r = bs
  | PErr => True
  | PFuel => False
  end.
Proof.
  unfold sym_entry. destruct (sym_kind bs) as [[k r0]|] eqn:Ek; [|reflexivity].
  apply sym_kind_len in Ek.
  pose proof (p_u64_len r0) as H1. unfold strict in H1.
  destruct (p_u64 r0) as [[i r1]| |]; cbn [pbind]; try exact I; try contradiction.
  pose proof (space1_len r1) as H2. unfold strict0 in H2.
  destruct (space1 r1) as [r2| |]; cbn [pbind]; try exact I; try contradiction.
  pose proof (not_line_ending_nofuel r2) as H3.
  destruct (not_line_ending r2) as [[name r3]| |] eqn:E3; cbn [pbind]; try exact I; try contradiction.
  apply not_line_ending_len in E3.
  unfold line_ending_or_eof. destruct r3 as [|c r3']; cbn [pbind]; [cbn in *; lia|].
  pose proof (line_ending_len (c :: r3')) as H4. unfold strict0 in H4.
  destruct (line_ending (c :: r3')) as [r4| |]; cbn [pbind]; try exact I; try contradiction. lia.
Qed.

Lemma sym_loop_nofuel h : forall f st bs, (length bs < f)%nat -> nofuel (sym_loop f h st bs).
Proof.
  induction f as [|f IH]; intros st bs Hf; [lia|]. unfold nofuel in *. cbn [sym_loop].
  pose proof (sym_entry_len bs) as H.
  destruct (sym_entry bs) as [[[e|] r]| |]; cbn [pbind]; try discriminate; try contradiction.
  destruct (sym_apply h st e); [|discriminate]. apply IH. lia.
Qed.

Lemma p_header_nofuel bs : nofuel (p_header bs).
Proof.
  unfold p_header, nofuel.
  destruct (p_format bs) as [[bin r0]| |] eqn:E0; cbn [pbind]; try discriminate.
  { repeat match goal with
           | |- context [pbind (sp_usize ?b) _] =>
             let H := fresh "L" in
             pose proof (sp_usize_len b) as H; unfold strict in H;
             destruct (sp_usize b) as [[? ?]| |]; cbn [pbind]; try discriminate; try contradiction
           end.
    match goal with |- context [opt_nums 4 ?l] => destruct (opt_nums 4 l) as [o r6] end.
    pose proof (eol_or_eof_len r6) as H. unfold weak0 in H.
    destruct (eol_or_eof r6); cbn [pbind]; try discriminate; try contradiction.
    destruct bin; [destruct (_ =? _)|destruct (_ <? _)]; discriminate. }
  unfold p_format in E0.
  repeat match type of E0 with
         | match ?x with _ => _ end = _ => destruct x; try discriminate
         | (if ?c then _ else _) = _ => destruct c; try discriminate
         end.
Qed.

(** (a) the model reader is total: a problem or a diagnostic for every input *)
Theorem parse_aiger_total ca bs : parse_aiger ca bs <> PFuel.
Proof.
  unfold parse_aiger.
  pose proof (p_header_nofuel bs) as H0. unfold nofuel in H0.
  destruct (p_header bs) as [[h r0]| |]; cbn [pbind]; try discriminate; try contradiction.
  assert (H1 : nofuel (if h_bin h then parse_bin_body h r0 else parse_ascii_body ca h r0)).
  { destruct (h_bin h); [apply parse_bin_body_nofuel|apply parse_ascii_body_nofuel]. }
  unfold nofuel in H1.
  destruct (if h_bin h then parse_bin_body h r0 else parse_ascii_body ca h r0) as [[b r1]| |];
    cbn [pbind]; try discriminate; try contradiction.
  pose proof (sym_loop_nofuel h (S (length r1)) no_syms r1 (Nat.lt_succ_diag_r _)) as H2.
  unfold nofuel, symbol_table in *.
  destruct (sym_loop (S (length r1)) h no_syms r1) as [[syms r2]| |]; cbn [pbind]; try discriminate; try contradiction.
  destruct (comment_or_eof r2); discriminate.
Qed.

(** the result does not depend on the fuel once it exceeds the input length:
    stated for the generic loop *)
Theorem collect_i_fuel_irrelevant {A} (p : N -> list N -> pres (A * list N)) :
  (forall i bs, strict (p i bs) bs) ->
  forall f1 f2 n i bs, (length bs < f1)%nat -> (length bs < f2)%nat ->
  collect_i f1 n i p bs = collect_i f2 n i p bs.
Proof.
  intros Hp. induction f1 as [|f1 IH]; intros f2 n i bs H1 H2; [lia|].
  destruct f2 as [|f2]; [lia|]. cbn [collect_i]. destruct (n =? 0); [reflexivity|].
  pose proof (Hp i bs) as H. unfold strict in H.
  destruct (p i bs) as [[x r]| |]; try reflexivity.
  rewrite (IH f2 (n - 1) (i + 1) r) by lia. reflexivity.
Qed.
