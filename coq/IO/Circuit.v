(** * Model of [oxidd_parser::Circuit] and [Circuit::simplify]
      (crates/oxidd-parser/src/lib.rs)

    Executable Gallina only (no proofs in this file: it must stay loadable and
    extractable even if a proof elsewhere breaks).

    - [lit] mirrors [Literal]: a polarity bit plus what the remaining bits
      denote (the constant, an input, a gate, or the out-of-range input number
      of [Literal::UNDEF]).  [FALSE] is the positive constant, [TRUE] the
      negative one, [UNDEF] the positive undefined literal and [DISCOVERED] its
      negation, exactly as in the Rust encoding.
    - [gate] mirrors [Gate] (kind + input literals), [circuit] mirrors
      [Circuit] reduced to what [simplify] looks at: the number of inputs
      ([VarSet::len]) and the gate sequence.
    - [eval_lit] is the semantics: an [option bool] under an assignment of
      the inputs, by recursion on explicit fuel; [None] means that the literal
      depends on a cycle, on a gate that does not exist, or on an input
      [>= n_inputs] (incl. UNDEF).  [eval c a l] uses fuel [#gates + 1].
    - [simplify] mirrors [Circuit::simplify] (the repaired code, see
      known_findings.txt) function by function: the recursive [inner] with the
      DISCOVERED marker, the up-front unknown-input check, constant folding and
      XOR polarity normalisation ([map_inputs]), duplicate / complement
      elimination through the [input_set] bit set ([dedup]), the collapse of
      gates with fewer than two inputs, structural hashing ([lookup]) and the
      gate map.
    - the executable CHECKERS [nf_b], [map_consistent_b], [equiv_b],
      [should_err_b], [err_ok_b] decide the predicates of property C18 on a
      concrete (circuit, result) pair; their specifications are proved in
      CircuitProofs.v.  The OCaml driver runs them on the output of the real
      [Circuit::simplify].

    Indices (gate numbers, input numbers) and fuel are [nat]. *)

From Coq Require Import List Bool Arith.
Import ListNotations.

(* ------------------------------------------------------------------ *)
(** ** Literals *)

Inductive atom := AConst | AIn (i : nat) | AGate (g : nat) | AUndef.

(** [L s a]: [s = true] iff the polarity bit is set ([Literal::is_negative]). *)
Inductive lit := L (s : bool) (a : atom).

Definition lneg (l : lit) : bool := match l with L s _ => s end.
Definition latom (l : lit) : atom := match l with L _ a => a end.

Definition FALSE : lit := L false AConst.
Definition TRUE : lit := L true AConst.
Definition UNDEF : lit := L false AUndef.
(** [const DISCOVERED: Literal = Literal::UNDEF.negative()] *)
Definition DISCOVERED : lit := L true AUndef.

(** [Literal::from_gate] / [Literal::from_input] *)
Definition gate_lit (s : bool) (g : nat) : lit := L s (AGate g).
Definition input_lit (s : bool) (i : nat) : lit := L s (AIn i).

(** [Literal::positive], [impl Not], [impl BitXor<bool>] *)
Definition positive (l : lit) : lit := L false (latom l).
Definition negate (l : lit) : lit := L (negb (lneg l)) (latom l).
Definition lxor (l : lit) (b : bool) : lit := L (xorb (lneg l) b) (latom l).

Definition atom_eqb (a b : atom) : bool :=
  match a, b with
  | AConst, AConst => true
  | AIn i, AIn j => Nat.eqb i j
  | AGate g, AGate h => Nat.eqb g h
  | AUndef, AUndef => true
  | _, _ => false
  end.

Definition lit_eqb (x y : lit) : bool :=
  Bool.eqb (lneg x) (lneg y) && atom_eqb (latom x) (latom y).

(** [Literal::get_gate_no] *)
Definition get_gate_no (l : lit) : option nat :=
  match latom l with AGate g => Some g | _ => None end.

(** [Literal::apply_gate_map] *)
Definition apply_gate_map (gmap : list lit) (l : lit) : lit :=
  match latom l with
  | AGate g => match nth_error gmap g with
               | Some m => lxor m (lneg l)
               | None => UNDEF
               end
  | _ => l
  end.

(* ------------------------------------------------------------------ *)
(** ** Gates and circuits *)

Inductive gkind := And | Or | Xor.

Definition gkind_eqb (a b : gkind) : bool :=
  match a, b with And, And | Or, Or | Xor, Xor => true | _, _ => false end.

Record gate := mkGate { gk : gkind; gins : list lit }.
Record circuit := mkCircuit { n_inputs : nat; gates : list gate }.

Definition num_gates (c : circuit) : nat := length (gates c).

(* ------------------------------------------------------------------ *)
(** ** Semantics *)

(** value of a gate given the values of its inputs *)
Definition gate_fun (k : gkind) (vs : list bool) : bool :=
  match k with
  | And => forallb (fun b => b) vs
  | Or => existsb (fun b => b) vs
  | Xor => fold_right xorb false vs
  end.

(** [Some] iff all entries are [Some] *)
Fixpoint all_some (l : list (option bool)) : option (list bool) :=
  match l with
  | [] => Some []
  | None :: _ => None
  | Some b :: r => match all_some r with Some bs => Some (b :: bs) | None => None end
  end.

Definition gate_val (k : gkind) (vs : list (option bool)) : option bool :=
  match all_some vs with Some bs => Some (gate_fun k bs) | None => None end.

Definition opt_xor (s : bool) (o : option bool) : option bool :=
  match o with Some b => Some (xorb s b) | None => None end.

Fixpoint eval_lit (c : circuit) (a : nat -> bool) (fuel : nat) (l : lit) : option bool :=
  match l with
  | L s AConst => Some s
  | L s (AIn i) => if Nat.ltb i (n_inputs c) then Some (xorb s (a i)) else None
  | L s AUndef => None
  | L s (AGate g) =>
    match fuel with
    | 0 => None
    | S f =>
      match nth_error (gates c) g with
      | None => None
      | Some gt => opt_xor s (gate_val (gk gt) (map (eval_lit c a f) (gins gt)))
      end
    end
  end.

Definition eval_gate (c : circuit) (a : nat -> bool) (fuel : nat) (gt : gate) : option bool :=
  gate_val (gk gt) (map (eval_lit c a fuel) (gins gt)).

(** fuel = number of gates + 1 *)
Definition eval (c : circuit) (a : nat -> bool) (l : lit) : option bool :=
  eval_lit c a (S (num_gates c)) l.

(* ------------------------------------------------------------------ *)
(** ** [Circuit::simplify] *)

Inductive res (A : Type) :=
| Ok (x : A)
| Err (l : lit)    (* [Err(l)] of the Rust code *)
| Crash            (* index out of bounds (a gate literal that refers to no gate): the Rust code panics *)
| Fuel.            (* fuel exhausted (excluded by the theorems) *)
Arguments Ok {A} x.
Arguments Err {A} l.
Arguments Crash {A}.
Arguments Fuel {A}.

(** the two growing structures of [simplify]: [gate_map] and [new_gates]
    ([unique_map] is keyed by exactly the gates of [new_gates], see [lookup]) *)
Record state := mkState { gmap : list lit; ngates : list gate }.

Fixpoint set_nth {A} (l : list A) (i : nat) (x : A) : list A :=
  match l, i with
  | [], _ => []
  | _ :: r, 0 => x :: r
  | y :: r, S j => y :: set_nth r j x
  end.

Definition set_map (st : state) (index : nat) (l : lit) : state :=
  mkState (set_nth (gmap st) index l) (ngates st).

Definition mem (l : lit) (ls : list lit) : bool := existsb (lit_eqb l) ls.

Fixpoint remove_lit (l : lit) (ls : list lit) : list lit :=
  match ls with
  | [] => []
  | x :: r => if lit_eqb l x then remove_lit l r else x :: remove_lit l r
  end.

(** result of the first pass over the inputs ("apply gate_map to the inputs and
    establish conditions 1+2") *)
Inductive mapped_inputs :=
| MConst (l : lit)                              (* a dominator was found: the gate is this constant *)
| MIns (neg_out : bool) (mapped : list lit)
| MCrash.

(** AND / OR branch of the first pass *)
Fixpoint map_inputs_andor (identity dominator : lit) (gm : list lit) (ins : list lit)
  : mapped_inputs :=
  match ins with
  | [] => MIns false []
  | l :: r =>
    let ml := match latom l with
              | AGate i => match nth_error gm i with
                           | Some m => Some (lxor m (lneg l))
                           | None => None
                           end
              | _ => Some l
              end in
    match ml with
    | None => MCrash
    | Some l' =>
      if lit_eqb l' dominator then MConst dominator
      else match map_inputs_andor identity dominator gm r with
           | MIns n ms => if lit_eqb l' identity then MIns n ms else MIns n (l' :: ms)
           | other => other
           end
    end
  end.

(** XOR branch of the first pass: every negation moves to [neg_out] *)
Fixpoint map_inputs_xor (gm : list lit) (ins : list lit) : mapped_inputs :=
  match ins with
  | [] => MIns false []
  | l :: r =>
    let ml := match latom l with
              | AGate i => match nth_error gm i with
                           | Some m => Some (xorb (lneg l) (lneg m), positive m)
                           | None => None
                           end
              | _ => Some (lneg l, positive l)
              end in
    match ml with
    | None => MCrash
    | Some (flip, l') =>
      match map_inputs_xor gm r with
      | MIns n ms =>
        if lit_eqb l' FALSE then MIns (xorb flip n) ms      (* x xor false = x *)
        else MIns (xorb flip n) (l' :: ms)
      | other => other
      end
    end
  end.

Definition map_inputs (k : gkind) (gm : list lit) (ins : list lit) : mapped_inputs :=
  match k with
  | And => map_inputs_andor TRUE FALSE gm ins
  | Or => map_inputs_andor FALSE TRUE gm ins
  | Xor => map_inputs_xor gm ins
  end.

(** "condition 3": the bit set [input_set] is modelled as the list of the
    literals whose bit is set *)

(** AND / OR: [true] iff a complement literal is met ([input_set.contains(map(!l))]) *)
Fixpoint find_compl (set : list lit) (ls : list lit) : bool :=
  match ls with
  | [] => false
  | l :: r => if mem (negate l) set then true else find_compl (l :: set) r
  end.

(** XOR: [input_set.toggle] *)
Definition toggle (set : list lit) (l : lit) : list lit :=
  if mem l set then remove_lit l set else l :: set.

(** [inputs.retain(|l| if input_set.contains(l) { input_set.remove(l); true } else { false })] *)
Fixpoint retain (set : list lit) (ls : list lit) : list lit :=
  match ls with
  | [] => []
  | l :: r => if mem l set then l :: retain (remove_lit l set) r else retain set r
  end.

Definition needs_dedup (ins : list lit) : bool :=
  match ins with
  | [] | [_] => false
  | [x; y] => atom_eqb (latom x) (latom y)
  | _ => true
  end.

(** [None]: complementary inputs in an AND / OR gate *)
Definition dedup (k : gkind) (ins : list lit) : option (list lit) :=
  if needs_dedup ins then
    match k with
    | Xor => Some (retain (fold_left toggle ins []) ins)
    | _ => if find_compl [] ins then None else Some (retain ins ins)
    end
  else Some ins.

(** structural hashing: [unique_map] maps (kind, sorted inputs) of every gate of
    [new_gates] to its number; two duplicate-free input lists have the same
    sorted form iff they have the same length and the same elements *)
Definition same_ins (xs ys : list lit) : bool :=
  Nat.eqb (length xs) (length ys) && forallb (fun x => mem x ys) xs.

Fixpoint lookup_from (k : gkind) (ins : list lit) (gs : list gate) (j : nat) : option nat :=
  match gs with
  | [] => None
  | g :: r => if gkind_eqb k (gk g) && same_ins ins (gins g) then Some j
              else lookup_from k ins r (S j)
  end.
Definition lookup (k : gkind) (ins : list lit) (gs : list gate) : option nat :=
  lookup_from k ins gs 0.

Definition empty_gate (k : gkind) : lit :=
  match k with And => TRUE | _ => FALSE end.

(** the part of [inner] after the recursive calls *)
Definition finish (index : nat) (gt : gate) (st : state) : res state :=
  let k := gk gt in
  match map_inputs k (gmap st) (gins gt) with
  | MCrash => Crash
  | MConst d => Ok (set_map st index d)
  | MIns neg_out mapped =>
    match mapped with
    | [] => (* first part of condition 4 *)
      Ok (set_map st index (match k with
                            | And => TRUE
                            | Or => FALSE
                            | Xor => lxor FALSE neg_out
                            end))
    | _ =>
      match dedup k mapped with
      | None => Ok (set_map st index (match k with And => FALSE | _ => TRUE end))
      | Some [] => Ok (set_map st index (lxor FALSE neg_out))
      | Some [l] => Ok (set_map st index (lxor l neg_out))
      | Some ins =>
        match lookup k ins (ngates st) with
        | Some j => Ok (set_map st index (lxor (gate_lit false j) neg_out))
        | None =>
          let j := length (ngates st) in
          Ok (mkState (set_nth (gmap st) index (lxor (gate_lit false j) neg_out))
                      (ngates st ++ [mkGate k ins]))
        end
      end
    end
  end.

Section Simplify.
Variable c : circuit.

(** the loop over the inputs before the gate itself is processed: recursion
    into gates, unknown inputs reported *)
Definition visit_inputs (rec : nat -> state -> res state)
  : list lit -> state -> res state :=
  fix go (ls : list lit) (st : state) : res state :=
    match ls with
    | [] => Ok st
    | l :: r =>
      match latom l with
      | AGate g => match rec g st with
                   | Ok st' => go r st'
                   | e => e
                   end
      | AIn i => if Nat.leb (n_inputs c) i then Err l else go r st
      | AUndef => Err l
      | AConst => go r st
      end
    end.

(** [fn inner] *)
Fixpoint inner (fuel : nat) (index : nat) (st : state) : res state :=
  match fuel with
  | 0 => Fuel
  | S f =>
    match nth_error (gmap st) index with
    | None => Crash
    | Some m =>
      if lit_eqb m DISCOVERED then Err (gate_lit false index)   (* discovered -> cycle *)
      else if negb (lit_eqb m UNDEF) then Ok st                 (* finished *)
      else
        match nth_error (gates c) index with
        | None => Crash
        | Some gt =>
          match visit_inputs (inner f) (gins gt) (set_map st index DISCOVERED) with
          | Ok st' => finish index gt st'
          | e => e
          end
        end
    end
  end.

Fixpoint simplify_roots (fuel : nat) (roots : list lit) (st : state) : res state :=
  match roots with
  | [] => Ok st
  | r :: rs =>
    match get_gate_no r with
    | Some i => match inner fuel i st with
                | Ok st' => simplify_roots fuel rs st'
                | e => e
                end
    | None => simplify_roots fuel rs st
    end
  end.

(** [Circuit::simplify]: the new circuit and the gate map *)
Definition simplify (roots : list lit) : res (circuit * list lit) :=
  let g := num_gates c in
  match simplify_roots (S g) roots (mkState (repeat UNDEF g) []) with
  | Ok st => Ok (mkCircuit (n_inputs c) (ngates st), gmap st)
  | Err l => Err l
  | Crash => Crash
  | Fuel => Fuel
  end.

End Simplify.

(* ------------------------------------------------------------------ *)
(** ** Checkers (decision procedures for the predicates of C18) *)

Fixpoint range (n : nat) : list nat :=
  match n with 0 => [] | S m => range m ++ [m] end.

(** literal usable in a circuit with [n] inputs whose gates [< bound] exist *)
Definition lit_valid_b (n bound : nat) (l : lit) : bool :=
  match latom l with
  | AConst => true
  | AIn i => Nat.ltb i n
  | AGate g => Nat.ltb g bound
  | AUndef => false
  end.

Definition is_const_b (l : lit) : bool :=
  match latom l with AConst => true | _ => false end.

Fixpoint nodup_atoms_b (ls : list lit) : bool :=
  match ls with
  | [] => true
  | l :: r => negb (existsb (fun x => atom_eqb (latom l) (latom x)) r) && nodup_atoms_b r
  end.

(** multiset equality of two literal lists *)
Fixpoint remove1 (x : lit) (ls : list lit) : option (list lit) :=
  match ls with
  | [] => None
  | y :: r => if lit_eqb x y then Some r
              else match remove1 x r with Some r' => Some (y :: r') | None => None end
  end.
Fixpoint perm_b (xs ys : list lit) : bool :=
  match xs with
  | [] => match ys with [] => true | _ => false end
  | x :: r => match remove1 x ys with Some ys' => perm_b r ys' | None => false end
  end.

Definition struct_eq_b (g h : gate) : bool :=
  gkind_eqb (gk g) (gk h) && perm_b (gins g) (gins h).

(** the conditions on the gate with number [j] *)
Definition gate_nf_b (n j : nat) (g : gate) : bool :=
  forallb (fun l => negb (is_const_b l)) (gins g)                       (* 1 *)
  && (match gk g with Xor => forallb (fun l => negb (lneg l)) (gins g)  (* 2 *)
                    | _ => true end)
  && nodup_atoms_b (gins g)                                             (* 3 *)
  && Nat.leb 2 (length (gins g))                                        (* 4 *)
  && forallb (lit_valid_b n j) (gins g).                                (* scope + topological order *)

Fixpoint gates_nf_from (n j : nat) (gs : list gate) : bool :=
  match gs with
  | [] => true
  | g :: r => gate_nf_b n j g && gates_nf_from n (S j) r
  end.

Fixpoint no_struct_dup_b (gs : list gate) : bool :=                     (* 5 *)
  match gs with
  | [] => true
  | g :: r => negb (existsb (struct_eq_b g) r) && no_struct_dup_b r
  end.

(** the five normal-form conditions + all literals in scope + gates
    topologically sorted *)
Definition nf_b (c : circuit) : bool :=
  gates_nf_from (n_inputs c) 0 (gates c) && no_struct_dup_b (gates c).

(** gates reachable from the roots: [num_gates] rounds of adding the gate
    inputs of everything found so far *)
Definition gate_atoms (ls : list lit) : list nat :=
  flat_map (fun l => match latom l with AGate g => [g] | _ => [] end) ls.

Definition memn (x : nat) (l : list nat) : bool := existsb (Nat.eqb x) l.

Fixpoint add_new (xs acc : list nat) : list nat :=
  match xs with
  | [] => acc
  | x :: r => if memn x acc then add_new r acc else add_new r (acc ++ [x])
  end.

Definition succs (c : circuit) (g : nat) : list nat :=
  match nth_error (gates c) g with Some gt => gate_atoms (gins gt) | None => [] end.

Fixpoint close (c : circuit) (fuel : nat) (acc : list nat) : list nat :=
  match fuel with
  | 0 => acc
  | S f => close c f (add_new (flat_map (succs c) acc) acc)
  end.

Definition reach (c : circuit) (roots : list lit) : list nat :=
  close c (num_gates c) (add_new (gate_atoms roots) []).

(** [g] can be reached from one of its own inputs *)
Definition on_cycle_b (c : circuit) (g : nat) : bool :=
  memn g (close c (num_gates c) (add_new (succs c g) [])).

Definition unknown_input_b (n : nat) (l : lit) : bool :=
  match latom l with
  | AIn i => Nat.leb n i
  | AUndef => true
  | _ => false
  end.

(** does some gate literal refer to a gate that does not exist?  (outside the
    documented domain of [simplify]: the Rust code panics) *)
Definition closed_b (c : circuit) (roots : list lit) : bool :=
  forallb (fun g => Nat.ltb g (num_gates c))
          (gate_atoms roots ++ flat_map (fun gt => gate_atoms (gins gt)) (gates c)).

(** the reachable fragment has a cycle or mentions an unknown input *)
Definition should_err_b (c : circuit) (roots : list lit) : bool :=
  existsb (fun g => on_cycle_b c g
                    || existsb (unknown_input_b (n_inputs c)) (match nth_error (gates c) g with
                                                               | Some gt => gins gt
                                                               | None => []
                                                               end))
          (reach c roots).

(** [Err(l)] is justified: [l] is a reachable gate on a cycle, or an unknown
    input mentioned (in either polarity) by a reachable gate *)
Definition err_ok_b (c : circuit) (roots : list lit) (l : lit) : bool :=
  match latom l with
  | AGate g => negb (lneg l) && memn g (reach c roots) && on_cycle_b c g
  | AConst => false
  | a => unknown_input_b (n_inputs c) l
         && existsb (fun g => match nth_error (gates c) g with
                              | Some gt => existsb (fun x => atom_eqb a (latom x)) (gins gt)
                              | None => false
                              end) (reach c roots)
  end.

(** gate map: one entry per old gate, every entry UNDEF or a literal of the new
    circuit, and no reachable gate is left UNDEF *)
Definition map_consistent_b (c c' : circuit) (gm : list lit) (roots : list lit) : bool :=
  Nat.eqb (length gm) (num_gates c)
  && forallb (fun m => lit_eqb m UNDEF || lit_valid_b (n_inputs c') (num_gates c') m) gm
  && forallb (fun g => match nth_error gm g with
                       | Some m => lit_valid_b (n_inputs c') (num_gates c') m
                       | None => false
                       end) (reach c roots).

(** all assignments of [n] inputs, as lists *)
Fixpoint assignments (n : nat) : list (list bool) :=
  match n with
  | 0 => [[]]
  | S m => flat_map (fun a => [false :: a; true :: a]) (assignments m)
  end.

Definition assign_of (bs : list bool) : nat -> bool := fun i => nth i bs false.

Definition opt_bool_eqb (x y : option bool) : bool :=
  match x, y with
  | Some a, Some b => Bool.eqb a b
  | None, None => true
  | _, _ => false
  end.

(** truth-table comparison: every literal of [ls] has, under every assignment of
    the [n] inputs, the same value in [c] as its image under the gate map in [c'] *)
Definition equiv_b (n : nat) (c c' : circuit) (gm : list lit) (ls : list lit) : bool :=
  forallb (fun bs =>
             forallb (fun l => opt_bool_eqb (eval c (assign_of bs) l)
                                            (eval c' (assign_of bs) (apply_gate_map gm l))) ls)
          (assignments n).

(** the literals whose meaning must be preserved: the roots and every reachable gate *)
Definition observed (c : circuit) (roots : list lit) : list lit :=
  roots ++ map (gate_lit false) (reach c roots).

(** every observed gate literal has a value (no [None]) in the old circuit *)
Definition defined_b (n : nat) (c : circuit) (ls : list lit) : bool :=
  forallb (fun bs =>
             forallb (fun l => match latom l with
                               | AGate _ => match eval c (assign_of bs) l with Some _ => true | None => false end
                               | _ => true
                               end) ls)
          (assignments n).

(** the whole C18 predicate for an [Ok] answer *)
Definition ok_answer_b (c : circuit) (roots : list lit) (c' : circuit) (gm : list lit) : bool :=
  negb (should_err_b c roots)
  && Nat.eqb (n_inputs c') (n_inputs c)
  && nf_b c'
  && map_consistent_b c c' gm roots
  && equiv_b (n_inputs c) c c' gm (observed c roots)
  && defined_b (n_inputs c) c (observed c roots).

(** the whole C18 predicate for an [Err] answer *)
Definition err_answer_b (c : circuit) (roots : list lit) (l : lit) : bool :=
  should_err_b c roots && err_ok_b c roots l.
