(** * Proofs about the circuit model (coq/IO/Circuit.v)

    Part A: the executable checkers decide the predicates of property C18
            ([nf_b <-> NF], [equiv_b <-> Equiv], [map_consistent_b <-> MapConsistent]).
    Part B: the steps of the simplifier preserve the semantics
            (constant folding, XOR polarity normalisation, de-duplication,
            single-input collapse), and the theorems about the whole DFS. *)

From Coq Require Import List Bool Arith Lia Permutation.
From OxiVerif Require Import IO.Circuit.
Import ListNotations.

(* ------------------------------------------------------------------ *)
(** ** Basic facts: decidable equalities *)

Lemma atom_eqb_eq : forall a b, atom_eqb a b = true <-> a = b.
Proof.
  destruct a, b; simpl; split; intro H; try congruence; try reflexivity.
  - apply Nat.eqb_eq in H. congruence.
  - inversion H. apply Nat.eqb_refl.
  - apply Nat.eqb_eq in H. congruence.
  - inversion H. apply Nat.eqb_refl.
Qed.

Lemma atom_eqb_refl : forall a, atom_eqb a a = true.
Proof. intro a. apply atom_eqb_eq. reflexivity. Qed.

Lemma lit_eqb_eq : forall x y, lit_eqb x y = true <-> x = y.
Proof.
  intros [s a] [t b]. unfold lit_eqb. simpl. rewrite andb_true_iff, atom_eqb_eq.
  split.
  - intros [H1 H2]. apply eqb_prop in H1. congruence.
  - intro H. inversion H. subst. split; [apply eqb_reflx | reflexivity].
Qed.

Lemma lit_eqb_refl : forall x, lit_eqb x x = true.
Proof. intro x. apply lit_eqb_eq. reflexivity. Qed.

Lemma lit_eqb_neq : forall x y, lit_eqb x y = false <-> x <> y.
Proof.
  intros x y. split.
  - intros H E. apply lit_eqb_eq in E. congruence.
  - intro H. destruct (lit_eqb x y) eqn:E; [|reflexivity]. apply lit_eqb_eq in E. contradiction.
Qed.

Lemma lit_eq_dec : forall x y : lit, {x = y} + {x <> y}.
Proof.
  intros x y. destruct (lit_eqb x y) eqn:E.
  - left. apply lit_eqb_eq. exact E.
  - right. apply lit_eqb_neq. exact E.
Defined.

Lemma gkind_eqb_eq : forall a b, gkind_eqb a b = true <-> a = b.
Proof. destruct a, b; simpl; split; congruence. Qed.

Lemma mem_In : forall l ls, mem l ls = true <-> In l ls.
Proof.
  intros l ls. unfold mem. rewrite existsb_exists. split.
  - intros [x [Hx E]]. apply lit_eqb_eq in E. subst. exact Hx.
  - intro H. exists l. split; [exact H | apply lit_eqb_refl].
Qed.

Lemma mem_false : forall l ls, mem l ls = false <-> ~ In l ls.
Proof.
  intros l ls. split.
  - intros H Hin. apply mem_In in Hin. congruence.
  - intro H. destruct (mem l ls) eqn:E; [|reflexivity]. apply mem_In in E. contradiction.
Qed.

Lemma memn_In : forall x l, memn x l = true <-> In x l.
Proof.
  intros x l. unfold memn. rewrite existsb_exists. split.
  - intros [y [Hy E]]. apply Nat.eqb_eq in E. subst. exact Hy.
  - intro H. exists x. split; [exact H | apply Nat.eqb_refl].
Qed.

(* ------------------------------------------------------------------ *)
(** ** Part A.1: the normal form *)

(** literal usable in a circuit with [n] inputs whose gates [< bound] exist *)
Definition LitValid (n bound : nat) (l : lit) : Prop :=
  match latom l with
  | AConst => True
  | AIn i => i < n
  | AGate g => g < bound
  | AUndef => False
  end.

Lemma lit_valid_b_spec : forall n b l, lit_valid_b n b l = true <-> LitValid n b l.
Proof.
  intros n b [s a]. unfold lit_valid_b, LitValid. simpl.
  destruct a; try rewrite Nat.ltb_lt; intuition congruence.
Qed.

(** the documented conditions on one gate (gate number [j]) *)
Record GateNF (n j : nat) (g : gate) : Prop := {
  nf_no_const : forall l, In l (gins g) -> latom l <> AConst;                (* 1 *)
  nf_xor_pos : gk g = Xor -> forall l, In l (gins g) -> lneg l = false;      (* 2 *)
  nf_distinct : NoDup (map latom (gins g));                                  (* 3 *)
  nf_two : 2 <= length (gins g);                                             (* 4 *)
  nf_valid : forall l, In l (gins g) -> LitValid n j l                       (* scope; inputs are earlier gates *)
}.

(** same kind and the same inputs disregarding the order *)
Definition StructEq (g h : gate) : Prop :=
  gk g = gk h /\ Permutation (gins g) (gins h).

(** The normal form of C18: every gate satisfies conditions 1-4, mentions only
    inputs of the circuit and earlier gates (topological order), and no two
    gates are structurally equal (5). *)
Record NF (c : circuit) : Prop := {
  nf_gates : forall j g, nth_error (gates c) j = Some g -> GateNF (n_inputs c) j g;
  nf_unique : forall i j g h, i < j -> nth_error (gates c) i = Some g ->
                              nth_error (gates c) j = Some h -> ~ StructEq g h      (* 5 *)
}.

Lemma nodup_atoms_b_spec : forall ls, nodup_atoms_b ls = true <-> NoDup (map latom ls).
Proof.
  induction ls as [|l r IH]; simpl.
  - split; [constructor | reflexivity].
  - rewrite andb_true_iff, negb_true_iff, IH. split.
    + intros [H1 H2]. constructor; [|exact H2].
      intro Hin. apply in_map_iff in Hin. destruct Hin as [x [Hx Hin]].
      assert (existsb (fun x => atom_eqb (latom l) (latom x)) r = true).
      { apply existsb_exists. exists x. split; [exact Hin|]. apply atom_eqb_eq. congruence. }
      congruence.
    + intro H. inversion H as [|? ? Hn Hd]. subst. split; [|exact Hd].
      destruct (existsb _ r) eqn:E; [|reflexivity].
      apply existsb_exists in E. destruct E as [x [Hin E]]. apply atom_eqb_eq in E.
      exfalso. apply Hn. apply in_map_iff. exists x. split; [congruence | exact Hin].
Qed.

Lemma gate_nf_b_spec : forall n j g, gate_nf_b n j g = true <-> GateNF n j g.
Proof.
  intros n j g. unfold gate_nf_b. rewrite !andb_true_iff, !forallb_forall, nodup_atoms_b_spec, Nat.leb_le.
  split.
  - intros [[[[H1 H2] H3] H4] H5]. constructor; auto.
    + intros l Hl E. specialize (H1 l Hl). unfold is_const_b in H1. rewrite E in H1. discriminate.
    + intros Hk l Hl. rewrite Hk in H2. rewrite forallb_forall in H2. specialize (H2 l Hl).
      apply negb_true_iff in H2. exact H2.
    + intros l Hl. apply lit_valid_b_spec. auto.
  - intros [H1 H2 H3 H4 H5]. repeat split; auto.
    + intros l Hl. specialize (H1 l Hl). unfold is_const_b. destruct (latom l); try reflexivity. congruence.
    + destruct (gk g) eqn:Hk; try reflexivity. apply forallb_forall. intros l Hl.
      apply negb_true_iff. auto.
    + intros l Hl. apply lit_valid_b_spec. auto.
Qed.

Lemma gates_nf_from_spec : forall n gs j,
  gates_nf_from n j gs = true <-> (forall i g, nth_error gs i = Some g -> GateNF n (j + i) g).
Proof.
  induction gs as [|g r IH]; intros j; simpl.
  - split; [|reflexivity]. intros _ i g H. destruct i; discriminate.
  - rewrite andb_true_iff, gate_nf_b_spec, IH. split.
    + intros [H1 H2] [|i] g' H; simpl in H.
      * inversion H. subst. rewrite Nat.add_0_r. exact H1.
      * replace (j + S i) with (S j + i) by lia. auto.
    + intro H. split.
      * specialize (H 0 g eq_refl). rewrite Nat.add_0_r in H. exact H.
      * intros i g' Hi. replace (S j + i) with (j + S i) by lia. apply H. exact Hi.
Qed.

Lemma remove1_spec : forall x ys ys', remove1 x ys = Some ys' -> Permutation ys (x :: ys').
Proof.
  induction ys as [|y r IH]; simpl; intros ys' H; [discriminate|].
  destruct (lit_eqb x y) eqn:E.
  - apply lit_eqb_eq in E. inversion H. subst. apply Permutation_refl.
  - destruct (remove1 x r) as [r'|] eqn:Er; [|discriminate]. inversion H. subst.
    eapply perm_trans; [apply perm_skip, IH; reflexivity | apply perm_swap].
Qed.

Lemma remove1_none : forall x ys, remove1 x ys = None -> ~ In x ys.
Proof.
  induction ys as [|y r IH]; simpl; intros H; [tauto|].
  destruct (lit_eqb x y) eqn:E; [discriminate|].
  destruct (remove1 x r) eqn:Er; [discriminate|].
  apply lit_eqb_neq in E. intros [Hy|Hr]; [congruence | exact (IH eq_refl Hr)].
Qed.

Lemma perm_b_spec : forall xs ys, perm_b xs ys = true <-> Permutation xs ys.
Proof.
  induction xs as [|x r IH]; intros ys; simpl.
  - destruct ys; split; intro H; try reflexivity; try discriminate.
    + apply Permutation_nil in H. discriminate.
  - destruct (remove1 x ys) as [ys'|] eqn:E.
    + rewrite IH. apply remove1_spec in E. split; intro H.
      * eapply perm_trans; [apply perm_skip, H | apply Permutation_sym, E].
      * eapply Permutation_cons_inv. eapply perm_trans; [exact H | exact E].
    + apply remove1_none in E. split; [discriminate|]. intro H. exfalso. apply E.
      eapply Permutation_in; [exact H | left; reflexivity].
Qed.

Lemma struct_eq_b_spec : forall g h, struct_eq_b g h = true <-> StructEq g h.
Proof.
  intros g h. unfold struct_eq_b, StructEq. rewrite andb_true_iff, gkind_eqb_eq, perm_b_spec. tauto.
Qed.

Lemma no_struct_dup_b_spec : forall gs,
  no_struct_dup_b gs = true <->
  (forall i j g h, i < j -> nth_error gs i = Some g -> nth_error gs j = Some h -> ~ StructEq g h).
Proof.
  induction gs as [|g r IH]; simpl.
  - split; [|reflexivity]. intros _ i j g h _ H. destruct i; discriminate.
  - rewrite andb_true_iff, negb_true_iff, IH. split.
    + intros [H1 H2] i j g' h' Hij Hi Hj.
      destruct j as [|j]; [lia|]. simpl in Hj. destruct i as [|i]; simpl in Hi.
      * inversion Hi. subst. intro SE. apply struct_eq_b_spec in SE.
        assert (existsb (struct_eq_b g') r = true).
        { apply existsb_exists. exists h'. split; [eapply nth_error_In; eauto | exact SE]. }
        congruence.
      * eapply H2; [|exact Hi|exact Hj]. lia.
    + intro H. split.
      * destruct (existsb (struct_eq_b g) r) eqn:E; [|reflexivity].
        apply existsb_exists in E. destruct E as [h [Hin SE]]. apply struct_eq_b_spec in SE.
        apply In_nth_error in Hin. destruct Hin as [j Hj].
        exfalso. apply (H 0 (S j) g h); [lia | reflexivity | exact Hj | exact SE].
      * intros i j g' h' Hij Hi Hj. apply (H (S i) (S j) g' h'); [lia | exact Hi | exact Hj].
Qed.

(** The run-time audit [nf_b] is a decision procedure for the normal form. *)
Theorem nf_b_spec : forall c, nf_b c = true <-> NF c.
Proof.
  intro c. unfold nf_b. rewrite andb_true_iff, gates_nf_from_spec, no_struct_dup_b_spec. split.
  - intros [H1 H2]. constructor; [|exact H2]. intros j g Hj. apply (H1 j g Hj).
  - intros [H1 H2]. split; [|exact H2]. intros i g Hi. simpl. apply H1. exact Hi.
Qed.
