(** * Proofs about the circuit model (coq/IO/Circuit.v)

    Part A: the executable checkers decide the predicates of property C18
            ([nf_b <-> NF], [equiv_b <-> Equiv], [map_consistent_b <-> MapConsistent]).
    Part B: the steps of the simplifier preserve the semantics
            (constant folding, XOR polarity normalisation, de-duplication,
            single-input collapse), and the theorems about the whole DFS. *)

From Coq Require Import List Bool Arith Lia Permutation.
From OxiVerif Require Import IO.Circuit.
Import ListNotations.

(* ------------------------------------------------------------------ *)
(** ** Basic facts: decidable equalities *)

Lemma atom_eqb_eq : forall a b, atom_eqb a b = true <-> a = b.
Proof.
  destruct a, b; simpl; split; intro H; try congruence; try reflexivity.
  - apply Nat.eqb_eq in H. congruence.
  - inversion H. apply Nat.eqb_refl.
  - apply Nat.eqb_eq in H. congruence.
  - inversion H. apply Nat.eqb_refl.
Qed.

Lemma atom_eqb_refl : forall a, atom_eqb a a = true.
Proof. intro a. apply atom_eqb_eq. reflexivity. Qed.

Lemma lit_eqb_eq : forall x y, lit_eqb x y = true <-> x = y.
Proof.
  intros [s a] [t b]. unfold lit_eqb. simpl. rewrite andb_true_iff, atom_eqb_eq.
  split.
  - intros [H1 H2]. apply eqb_prop in H1. congruence.
  - intro H. inversion H. subst. split; [apply eqb_reflx | reflexivity].
Qed.

Lemma lit_eqb_refl : forall x, lit_eqb x x = true.
Proof. intro x. apply lit_eqb_eq. reflexivity. Qed.

Lemma lit_eqb_neq : forall x y, lit_eqb x y = false <-> x <> y.
Proof.
  intros x y. split.
  - intros H E. apply lit_eqb_eq in E. congruence.
  - intro H. destruct (lit_eqb x y) eqn:E; [|reflexivity]. apply lit_eqb_eq in E. contradiction.
Qed.

Lemma lit_eq_dec : forall x y : lit, {x = y} + {x <> y}.
Proof.
  intros x y. destruct (lit_eqb x y) eqn:E.
  - left. apply lit_eqb_eq. exact E.
  - right. apply lit_eqb_neq. exact E.
Defined.

Lemma gkind_eqb_eq : forall a b, gkind_eqb a b = true <-> a = b.
Proof. destruct a, b; simpl; split; congruence. Qed.

Lemma mem_In : forall l ls, mem l ls = true <-> In l ls.
Proof.
  intros l ls. unfold mem. rewrite existsb_exists. split.
  - intros [x [Hx E]]. apply lit_eqb_eq in E. subst. exact Hx.
  - intro H. exists l. split; [exact H | apply lit_eqb_refl].
Qed.

Lemma mem_false : forall l ls, mem l ls = false <-> ~ In l ls.
Proof.
  intros l ls. split.
  - intros H Hin. apply mem_In in Hin. congruence.
  - intro H. destruct (mem l ls) eqn:E; [|reflexivity]. apply mem_In in E. contradiction.
Qed.

Lemma memn_In : forall x l, memn x l = true <-> In x l.
Proof.
  intros x l. unfold memn. rewrite existsb_exists. split.
  - intros [y [Hy E]]. apply Nat.eqb_eq in E. subst. exact Hy.
  - intro H. exists x. split; [exact H | apply Nat.eqb_refl].
Qed.

(* ------------------------------------------------------------------ *)
(** ** Part A.1: the normal form *)

(** literal usable in a circuit with [n] inputs whose gates [< bound] exist *)
Definition LitValid (n bound : nat) (l : lit) : Prop :=
  match latom l with
  | AConst => True
  | AIn i => i < n
  | AGate g => g < bound
  | AUndef => False
  end.

Lemma lit_valid_b_spec : forall n b l, lit_valid_b n b l = true <-> LitValid n b l.
Proof.
  intros n b [s a]. unfold lit_valid_b, LitValid. simpl.
  destruct a; try rewrite Nat.ltb_lt; intuition congruence.
Qed.

(** the documented conditions on one gate (gate number [j]) *)
Record GateNF (n j : nat) (g : gate) : Prop := {
  nf_no_const : forall l, In l (gins g) -> latom l <> AConst;                (* 1 *)
  nf_xor_pos : gk g = Xor -> forall l, In l (gins g) -> lneg l = false;      (* 2 *)
  nf_distinct : NoDup (map latom (gins g));                                  (* 3 *)
  nf_two : 2 <= length (gins g);                                             (* 4 *)
  nf_valid : forall l, In l (gins g) -> LitValid n j l                       (* scope; inputs are earlier gates *)
}.

(** same kind and the same inputs disregarding the order *)
Definition StructEq (g h : gate) : Prop :=
  gk g = gk h /\ Permutation (gins g) (gins h).

(** The normal form of C18: every gate satisfies conditions 1-4, mentions only
    inputs of the circuit and earlier gates (topological order), and no two
    gates are structurally equal (5). *)
Record NF (c : circuit) : Prop := {
  nf_gates : forall j g, nth_error (gates c) j = Some g -> GateNF (n_inputs c) j g;
  nf_unique : forall i j g h, i < j -> nth_error (gates c) i = Some g ->
                              nth_error (gates c) j = Some h -> ~ StructEq g h      (* 5 *)
}.

Lemma nodup_atoms_b_spec : forall ls, nodup_atoms_b ls = true <-> NoDup (map latom ls).
Proof.
  induction ls as [|l r IH]; simpl.
  - split; [constructor | reflexivity].
  - rewrite andb_true_iff, negb_true_iff, IH. split.
    + intros [H1 H2]. constructor; [|exact H2].
      intro Hin. apply in_map_iff in Hin. destruct Hin as [x [Hx Hin]].
      assert (existsb (fun x => atom_eqb (latom l) (latom x)) r = true).
      { apply existsb_exists. exists x. split; [exact Hin|]. apply atom_eqb_eq. congruence. }
      congruence.
    + intro H. inversion H as [|? ? Hn Hd]. subst. split; [|exact Hd].
      destruct (existsb _ r) eqn:E; [|reflexivity].
      apply existsb_exists in E. destruct E as [x [Hin E]]. apply atom_eqb_eq in E.
      exfalso. apply Hn. apply in_map_iff. exists x. split; [congruence | exact Hin].
Qed.

Lemma gate_nf_b_spec : forall n j g, gate_nf_b n j g = true <-> GateNF n j g.
Proof.
  intros n j g. unfold gate_nf_b. rewrite !andb_true_iff, !forallb_forall, nodup_atoms_b_spec, Nat.leb_le.
  split.
  - intros [[[[H1 H2] H3] H4] H5]. constructor; auto.
    + intros l Hl E. specialize (H1 l Hl). unfold is_const_b in H1. rewrite E in H1. discriminate.
    + intros Hk l Hl. rewrite Hk in H2. rewrite forallb_forall in H2. specialize (H2 l Hl).
      apply negb_true_iff in H2. exact H2.
    + intros l Hl. apply lit_valid_b_spec. auto.
  - intros [H1 H2 H3 H4 H5]. repeat split; auto.
    + intros l Hl. specialize (H1 l Hl). unfold is_const_b. destruct (latom l); try reflexivity. congruence.
    + destruct (gk g) eqn:Hk; try reflexivity. apply forallb_forall. intros l Hl.
      apply negb_true_iff. auto.
    + intros l Hl. apply lit_valid_b_spec. auto.
Qed.

Lemma gates_nf_from_spec : forall n gs j,
  gates_nf_from n j gs = true <-> (forall i g, nth_error gs i = Some g -> GateNF n (j + i) g).
Proof.
  induction gs as [|g r IH]; intros j; simpl.
  - split; [|reflexivity]. intros _ i g H. destruct i; discriminate.
  - rewrite andb_true_iff, gate_nf_b_spec, IH. split.
    + intros [H1 H2] [|i] g' H; simpl in H.
      * inversion H. subst. rewrite Nat.add_0_r. exact H1.
      * replace (j + S i) with (S j + i) by lia. auto.
    + intro H. split.
      * specialize (H 0 g eq_refl). rewrite Nat.add_0_r in H. exact H.
      * intros i g' Hi. replace (S j + i) with (j + S i) by lia. apply H. exact Hi.
Qed.

Lemma remove1_spec : forall x ys ys', remove1 x ys = Some ys' -> Permutation ys (x :: ys').
Proof.
  induction ys as [|y r IH]; simpl; intros ys' H; [discriminate|].
  destruct (lit_eqb x y) eqn:E.
  - apply lit_eqb_eq in E. inversion H. subst. apply Permutation_refl.
  - destruct (remove1 x r) as [r'|] eqn:Er; [|discriminate]. inversion H. subst.
    eapply perm_trans; [apply perm_skip, IH; reflexivity | apply perm_swap].
Qed.

Lemma remove1_none : forall x ys, remove1 x ys = None -> ~ In x ys.
Proof.
  induction ys as [|y r IH]; simpl; intros H; [tauto|].
  destruct (lit_eqb x y) eqn:E; [discriminate|].
  destruct (remove1 x r) eqn:Er; [discriminate|].
  apply lit_eqb_neq in E. intros [Hy|Hr]; [congruence | exact (IH eq_refl Hr)].
Qed.

Lemma perm_b_spec : forall xs ys, perm_b xs ys = true <-> Permutation xs ys.
Proof.
  induction xs as [|x r IH]; intros ys; simpl.
  - destruct ys; split; intro H; try reflexivity; try discriminate.
    + apply Permutation_nil in H. discriminate.
  - destruct (remove1 x ys) as [ys'|] eqn:E.
    + rewrite IH. apply remove1_spec in E. split; intro H.
      * eapply perm_trans; [apply perm_skip, H | apply Permutation_sym, E].
      * eapply Permutation_cons_inv. eapply perm_trans; [exact H | exact E].
    + apply remove1_none in E. split; [discriminate|]. intro H. exfalso. apply E.
      eapply Permutation_in; [exact H | left; reflexivity].
Qed.

Lemma struct_eq_b_spec : forall g h, struct_eq_b g h = true <-> StructEq g h.
Proof.
  intros g h. unfold struct_eq_b, StructEq. rewrite andb_true_iff, gkind_eqb_eq, perm_b_spec. tauto.
Qed.

Lemma no_struct_dup_b_spec : forall gs,
  no_struct_dup_b gs = true <->
  (forall i j g h, i < j -> nth_error gs i = Some g -> nth_error gs j = Some h -> ~ StructEq g h).
Proof.
  induction gs as [|g r IH]; simpl.
  - split; [|reflexivity]. intros _ i j g h _ H. destruct i; discriminate.
  - rewrite andb_true_iff, negb_true_iff, IH. split.
    + intros [H1 H2] i j g' h' Hij Hi Hj.
      destruct j as [|j]; [lia|]. simpl in Hj. destruct i as [|i]; simpl in Hi.
      * inversion Hi. subst. intro SE. apply struct_eq_b_spec in SE.
        assert (existsb (struct_eq_b g') r = true).
        { apply existsb_exists. exists h'. split; [eapply nth_error_In; eauto | exact SE]. }
        congruence.
      * eapply H2; [|exact Hi|exact Hj]. lia.
    + intro H. split.
      * destruct (existsb (struct_eq_b g) r) eqn:E; [|reflexivity].
        apply existsb_exists in E. destruct E as [h [Hin SE]]. apply struct_eq_b_spec in SE.
        apply In_nth_error in Hin. destruct Hin as [j Hj].
        exfalso. apply (H 0 (S j) g h); [lia | reflexivity | exact Hj | exact SE].
      * intros i j g' h' Hij Hi Hj. apply (H (S i) (S j) g' h'); [lia | exact Hi | exact Hj].
Qed.

(** The run-time audit [nf_b] is a decision procedure for the normal form. *)
Theorem nf_b_spec : forall c, nf_b c = true <-> NF c.
Proof.
  intro c. unfold nf_b. rewrite andb_true_iff, gates_nf_from_spec, no_struct_dup_b_spec. split.
  - intros [H1 H2]. constructor; [|exact H2]. intros j g Hj. apply (H1 j g Hj).
  - intros [H1 H2]. split; [|exact H2]. intros i g Hi. simpl. apply H1. exact Hi.
Qed.

(* ------------------------------------------------------------------ *)
(** ** Part A.2: truth-table equivalence *)

(** every literal of [ls] has the same value in [c] as its image under the
    gate map in [c'], for EVERY assignment of the inputs *)
Definition Equiv (c c' : circuit) (gm : list lit) (ls : list lit) : Prop :=
  forall (a : nat -> bool) l, In l ls -> eval c a l = eval c' a (apply_gate_map gm l).

Lemma eval_lit_ext : forall c a a',
  (forall i, i < n_inputs c -> a i = a' i) ->
  forall f l, eval_lit c a f l = eval_lit c a' f l.
Proof.
  intros c a a' H. induction f as [|f IH]; intros [s [ | i | g | ]]; simpl; try reflexivity.
  - destruct (Nat.ltb i (n_inputs c)) eqn:E; [|reflexivity]. apply Nat.ltb_lt in E. rewrite (H i E). reflexivity.
  - destruct (Nat.ltb i (n_inputs c)) eqn:E; [|reflexivity]. apply Nat.ltb_lt in E. rewrite (H i E). reflexivity.
  - destruct (nth_error (gates c) g) as [gt|]; [|reflexivity].
    rewrite (map_ext _ _ IH). reflexivity.
Qed.

Lemma eval_ext : forall c a a' l,
  (forall i, i < n_inputs c -> a i = a' i) -> eval c a l = eval c a' l.
Proof. intros. unfold eval. apply eval_lit_ext. assumption. Qed.

Lemma assignments_complete : forall n (a : nat -> bool),
  exists bs, In bs (assignments n) /\ forall i, i < n -> assign_of bs i = a i.
Proof.
  induction n as [|n IH]; intros a.
  - exists []. split; [left; reflexivity | intros; lia].
  - destruct (IH (fun i => a (S i))) as [bs [Hin Hbs]].
    exists (a 0 :: bs). split.
    + simpl. apply in_flat_map. exists bs. split; [exact Hin|]. destruct (a 0); simpl; auto.
    + intros [|i] Hi; unfold assign_of; simpl; [reflexivity|]. apply Hbs. lia.
Qed.

Lemma opt_bool_eqb_eq : forall x y, opt_bool_eqb x y = true <-> x = y.
Proof.
  intros [[|]|] [[|]|]; simpl; split; intro H; try reflexivity; try discriminate; try congruence.
Qed.

(** The truth-table audit [equiv_b] decides [Equiv] (for circuits over the same
    [n] inputs): the run-time comparison is not an approximation. *)
Theorem equiv_b_spec : forall n c c' gm ls,
  n_inputs c = n -> n_inputs c' = n ->
  (equiv_b n c c' gm ls = true <-> Equiv c c' gm ls).
Proof.
  intros n c c' gm ls Hc Hc'. unfold equiv_b, Equiv. rewrite forallb_forall. split.
  - intros H a l Hl.
    destruct (assignments_complete n a) as [bs [Hin Hbs]].
    specialize (H bs Hin). rewrite forallb_forall in H. specialize (H l Hl).
    apply opt_bool_eqb_eq in H.
    rewrite (eval_ext c a (assign_of bs)) by (intros i Hi; symmetry; apply Hbs; lia).
    rewrite (eval_ext c' a (assign_of bs)) by (intros i Hi; symmetry; apply Hbs; lia).
    exact H.
  - intros H bs _. apply forallb_forall. intros l Hl. apply opt_bool_eqb_eq. apply H. exact Hl.
Qed.

(** every observed gate literal has a value in the old circuit *)
Definition Defined (c : circuit) (ls : list lit) : Prop :=
  forall (a : nat -> bool) l g, In l ls -> latom l = AGate g -> eval c a l <> None.

Theorem defined_b_spec : forall n c ls,
  n_inputs c = n -> (defined_b n c ls = true <-> Defined c ls).
Proof.
  intros n c ls Hc. unfold defined_b, Defined. rewrite forallb_forall. split.
  - intros H a l g Hl Hg.
    destruct (assignments_complete n a) as [bs [Hin Hbs]].
    specialize (H bs Hin). rewrite forallb_forall in H. specialize (H l Hl). rewrite Hg in H.
    rewrite (eval_ext c a (assign_of bs)) by (intros i Hi; symmetry; apply Hbs; lia).
    destruct (eval c (assign_of bs) l); [discriminate | discriminate H].
  - intros H bs _. apply forallb_forall. intros l Hl.
    destruct (latom l) eqn:Hg; try reflexivity.
    specialize (H (assign_of bs) l g Hl Hg). destruct (eval c (assign_of bs) l); [reflexivity | contradiction].
Qed.

(* ------------------------------------------------------------------ *)
(** ** Part A.3: gate map consistency *)

(** one entry per old gate; every entry is UNDEF or a literal of the new
    circuit; no gate reachable from the roots is left UNDEF *)
Record MapConsistent (c c' : circuit) (gm : list lit) (roots : list lit) : Prop := {
  mc_len : length gm = num_gates c;
  mc_entries : forall m, In m gm -> m = UNDEF \/ LitValid (n_inputs c') (num_gates c') m;
  mc_reach : forall g, In g (reach c roots) ->
               exists m, nth_error gm g = Some m /\ LitValid (n_inputs c') (num_gates c') m
}.

Theorem map_consistent_b_spec : forall c c' gm roots,
  map_consistent_b c c' gm roots = true <-> MapConsistent c c' gm roots.
Proof.
  intros c c' gm roots. unfold map_consistent_b.
  rewrite !andb_true_iff, Nat.eqb_eq, !forallb_forall. split.
  - intros [[H1 H2] H3]. constructor; [exact H1 | |].
    + intros m Hm. specialize (H2 m Hm). apply orb_true_iff in H2. destruct H2 as [H2|H2].
      * left. apply lit_eqb_eq. exact H2.
      * right. apply lit_valid_b_spec. exact H2.
    + intros g Hg. specialize (H3 g Hg). destruct (nth_error gm g) as [m|]; [|discriminate].
      exists m. split; [reflexivity | apply lit_valid_b_spec; exact H3].
  - intros [H1 H2 H3]. repeat split; [exact H1 | |].
    + intros m Hm. apply orb_true_iff. destruct (H2 m Hm) as [E|V].
      * left. apply lit_eqb_eq. exact E.
      * right. apply lit_valid_b_spec. exact V.
    + intros g Hg. destruct (H3 g Hg) as [m [E V]]. rewrite E. apply lit_valid_b_spec. exact V.
Qed.

(* ------------------------------------------------------------------ *)
(** ** Part B.1: the steps of [finish] preserve the value of the gate

    The lemmas are stated for an arbitrary valuation [va] of the atoms with
    [va AConst = false]; [lval va l] is the value of the literal [l]. *)

Definition lval (va : atom -> bool) (l : lit) : bool := xorb (lneg l) (va (latom l)).

Section Steps.
Variable va : atom -> bool.
Hypothesis va_const : va AConst = false.

Lemma lval_FALSE : lval va FALSE = false.
Proof. unfold lval. simpl. rewrite va_const. reflexivity. Qed.
Lemma lval_TRUE : lval va TRUE = true.
Proof. unfold lval. simpl. rewrite va_const. reflexivity. Qed.
Lemma lval_negate : forall l, lval va (negate l) = negb (lval va l).
Proof. intros [s a]. unfold lval. simpl. destruct s, (va a); reflexivity. Qed.
Lemma lval_lxor : forall l b, lval va (lxor l b) = xorb b (lval va l).
Proof. intros [s a] b. unfold lval. simpl. destruct s, b, (va a); reflexivity. Qed.
Lemma lval_positive : forall l, lval va (positive l) = va (latom l).
Proof. intros [s a]. unfold lval. simpl. destruct (va a); reflexivity. Qed.

(** the literal [gate_map[i] ^ l.is_negative()] / [l] itself that the first pass looks at *)
Definition in_range (gm : list lit) (l : lit) : Prop :=
  forall g, latom l = AGate g -> g < length gm.

Lemma apply_gate_map_in_range : forall gm l, in_range gm l ->
  match latom l with
  | AGate i => match nth_error gm i with Some m => Some (lxor m (lneg l)) | None => None end
  | _ => Some l
  end = Some (apply_gate_map gm l).
Proof.
  intros gm [s a] H. unfold apply_gate_map. simpl. destruct a; try reflexivity.
  destruct (nth_error gm g) eqn:E; [reflexivity|].
  apply nth_error_None in E. specialize (H g eq_refl). lia.
Qed.

(** *** constant folding of AND / OR *)

(** the dominating value of the gate kind *)
Definition absorb (k : gkind) : bool := match k with And => false | _ => true end.
Definition dominator (k : gkind) : lit := match k with And => FALSE | _ => TRUE end.
Definition identity (k : gkind) : lit := match k with And => TRUE | _ => FALSE end.

Lemma lval_dominator : forall k, lval va (dominator k) = absorb k.
Proof. destruct k; simpl; auto using lval_FALSE, lval_TRUE. Qed.
Lemma lval_identity : forall k, lval va (identity k) = negb (absorb k).
Proof. destruct k; simpl; auto using lval_FALSE, lval_TRUE. Qed.

Lemma gate_fun_cons_andor : forall k b bs, k <> Xor ->
  gate_fun k (b :: bs) = if Bool.eqb b (absorb k) then absorb k else gate_fun k bs.
Proof. intros [ | | ] b bs H; try congruence; destruct b; reflexivity. Qed.

Lemma gate_fun_nil_andor : forall k, k <> Xor -> gate_fun k [] = negb (absorb k).
Proof. intros [ | | ] H; try congruence; reflexivity. Qed.

Lemma map_andor_sem : forall k gm ins, k <> Xor ->
  (forall l, In l ins -> in_range gm l) ->
  match map_inputs_andor (identity k) (dominator k) gm ins with
  | MConst d => d = dominator k /\
                gate_fun k (map (lval va) (map (apply_gate_map gm) ins)) = absorb k
  | MIns n ms => n = false /\
                 gate_fun k (map (lval va) ms) = gate_fun k (map (lval va) (map (apply_gate_map gm) ins)) /\
                 (forall m, In m ms -> m <> identity k /\ m <> dominator k /\
                                       exists l, In l ins /\ m = apply_gate_map gm l)
  | MCrash => False
  end.
Proof.
  intros k gm ins Hk. induction ins as [|l r IH]; intros Hr.
  - simpl. split; [reflexivity|]. split; [reflexivity|]. intros m [].
  - simpl map_inputs_andor. rewrite (apply_gate_map_in_range gm l) by (apply Hr; left; reflexivity).
    simpl map. rewrite (gate_fun_cons_andor k _ _ Hk).
    destruct (lit_eqb (apply_gate_map gm l) (dominator k)) eqn:Ed.
    + apply lit_eqb_eq in Ed. rewrite Ed, lval_dominator, eqb_reflx. split; reflexivity.
    + apply lit_eqb_neq in Ed.
      assert (IH' := IH (fun x Hx => Hr x (or_intror Hx))). clear IH.
      destruct (map_inputs_andor (identity k) (dominator k) gm r) as [d|n ms|].
      * destruct IH' as [Hd Hv]. split; [exact Hd|]. rewrite Hv. destruct (Bool.eqb _ _); reflexivity.
      * destruct IH' as [Hn [Hv Hm]].
        destruct (lit_eqb (apply_gate_map gm l) (identity k)) eqn:Ei.
        -- apply lit_eqb_eq in Ei. rewrite Ei, lval_identity.
           replace (Bool.eqb (negb (absorb k)) (absorb k)) with false by (destruct (absorb k); reflexivity).
           split; [exact Hn|]. split; [exact Hv|].
           intros m Hin. destruct (Hm m Hin) as [A [B [x [Hx E]]]].
           split; [exact A|]. split; [exact B|].
           exists x. split; [right; exact Hx | exact E].
        -- apply lit_eqb_neq in Ei. split; [exact Hn|]. split.
           ++ simpl map. rewrite (gate_fun_cons_andor k _ _ Hk), Hv. reflexivity.
           ++ intros m [Hm0|Hin].
              ** subst m. split; [exact Ei|]. split; [exact Ed|].
                 exists l. split; [left; reflexivity | reflexivity].
              ** destruct (Hm m Hin) as [A [B [x [Hx E]]]].
                 split; [exact A|]. split; [exact B|].
                 exists x. split; [right; exact Hx | exact E].
      * exact IH'.
Qed.

(** *** polarity normalisation and constant folding of XOR *)

Definition xorl (bs : list bool) : bool := fold_right xorb false bs.

Lemma map_xor_sem : forall gm ins,
  (forall l, In l ins -> in_range gm l) ->
  match map_inputs_xor gm ins with
  | MIns n ms => xorb n (xorl (map (lval va) ms)) = xorl (map (lval va) (map (apply_gate_map gm) ins)) /\
                 (forall m, In m ms -> lneg m = false /\ latom m <> AConst /\
                                       exists l, In l ins /\ latom m = latom (apply_gate_map gm l))
  | _ => False
  end.
Proof.
  intros gm. induction ins as [|l r IH]; intros Hr.
  - simpl. split; [reflexivity | intros m []].
  - simpl map_inputs_xor.
    assert (Hl : in_range gm l) by (apply Hr; left; reflexivity).
    assert (IH' := IH (fun x Hx => Hr x (or_intror Hx))). clear IH.
    (* the pair (flip, l') in terms of the mapped literal *)
    assert (Hml : match latom l with
                  | AGate i => match nth_error gm i with
                               | Some m => Some (xorb (lneg l) (lneg m), positive m)
                               | None => None
                               end
                  | _ => Some (lneg l, positive l)
                  end = Some (lneg (apply_gate_map gm l), positive (apply_gate_map gm l))).
    { destruct l as [s a]. unfold apply_gate_map. simpl. destruct a; try reflexivity.
      destruct (nth_error gm g) as [[t b]|] eqn:E.
      - simpl. unfold positive. simpl. f_equal. f_equal. apply xorb_comm.
      - apply nth_error_None in E. specialize (Hl g eq_refl). simpl in Hl. lia. }
    rewrite Hml. clear Hml.
    set (ml := apply_gate_map gm l) in *.
    destruct (map_inputs_xor gm r) as [d|n ms|]; try exact IH'.
    destruct IH' as [Hv Hm].
    simpl map. unfold xorl in *. simpl fold_right. fold ml.
    assert (Eml : lval va ml = xorb (lneg ml) (lval va (positive ml))).
    { rewrite lval_positive. reflexivity. }
    destruct (lit_eqb (positive ml) FALSE) eqn:Ef.
    + apply lit_eqb_eq in Ef. split.
      * rewrite Eml, Ef, lval_FALSE, <- Hv. destruct (lneg ml), n, (fold_right xorb false (map (lval va) ms)); reflexivity.
      * intros m Hin. destruct (Hm m Hin) as [A [B [x [Hx E]]]].
        split; [exact A|]. split; [exact B|].
        exists x. split; [right; exact Hx | exact E].
    + apply lit_eqb_neq in Ef. split.
      * simpl map. simpl fold_right. rewrite Eml, <- Hv.
        destruct (lneg ml), n, (lval va (positive ml)), (fold_right xorb false (map (lval va) ms)); reflexivity.
      * intros m [Hm0|Hin].
        -- subst m. split; [reflexivity|]. split.
           ++ intro E. apply Ef. destruct ml as [s a]. unfold positive, FALSE in *. simpl in *. congruence.
           ++ exists l. split; [left; reflexivity | reflexivity].
        -- destruct (Hm m Hin) as [A [B [x [Hx E]]]].
           split; [exact A|]. split; [exact B|].
           exists x. split; [right; exact Hx | exact E].
Qed.

End Steps.

(* ------------------------------------------------------------------ *)
(** ** Part B.2: duplicate / complement elimination ([dedup]) *)

Lemma remove_lit_In : forall l ls x, In x (remove_lit l ls) <-> In x ls /\ x <> l.
Proof.
  intros l. induction ls as [|y r IH]; intros x; simpl.
  - tauto.
  - destruct (lit_eqb l y) eqn:E.
    + apply lit_eqb_eq in E. subst y. rewrite IH. split.
      * intros [H1 H2]. auto.
      * intros [[H1|H1] H2]; [congruence | auto].
    + apply lit_eqb_neq in E. simpl. rewrite IH. split.
      * intros [H|[H1 H2]]; [subst; split; auto | auto].
      * intros [[H1|H1] H2]; auto.
Qed.

Lemma remove_lit_notin : forall l ls, ~ In l ls -> remove_lit l ls = ls.
Proof.
  intros l. induction ls as [|y r IH]; intros H; simpl; [reflexivity|].
  destruct (lit_eqb l y) eqn:E.
  - apply lit_eqb_eq in E. subst. exfalso. apply H. left. reflexivity.
  - f_equal. apply IH. intro Hin. apply H. right. exact Hin.
Qed.

Lemma remove_lit_NoDup : forall l ls, NoDup ls -> NoDup (remove_lit l ls).
Proof.
  intros l. induction ls as [|y r IH]; intros H; simpl; [constructor|].
  inversion H as [|? ? Hn Hd]. subst. destruct (lit_eqb l y).
  - auto.
  - constructor; [|auto]. intro Hin. apply remove_lit_In in Hin. tauto.
Qed.

Lemma retain_In : forall ls S x, In x (retain S ls) <-> In x ls /\ In x S.
Proof.
  induction ls as [|l r IH]; intros S x; simpl.
  - tauto.
  - destruct (mem l S) eqn:E.
    + apply mem_In in E. simpl. rewrite IH, remove_lit_In. split.
      * intros [H|[H1 [H2 H3]]]; [subst; auto | auto].
      * intros [[H|H] H2].
        -- left. exact H.
        -- destruct (lit_eq_dec x l) as [Hx|Hx]; [left; congruence | right; auto].
    + apply mem_false in E. rewrite IH. split.
      * intros [H1 H2]. auto.
      * intros [[H|H] H2]; [subst; contradiction | auto].
Qed.

Lemma retain_NoDup : forall ls S, NoDup (retain S ls).
Proof.
  induction ls as [|l r IH]; intros S; simpl; [constructor|].
  destruct (mem l S).
  - constructor; [|apply IH]. intro Hin. apply retain_In in Hin. destruct Hin as [_ Hin].
    apply remove_lit_In in Hin. tauto.
  - apply IH.
Qed.

Lemma negate_involutive : forall l, negate (negate l) = l.
Proof. intros [s a]. unfold negate. simpl. rewrite negb_involutive. reflexivity. Qed.

Lemma negate_neq : forall l, negate l <> l.
Proof. intros [s a] H. unfold negate in H. simpl in H. inversion H. destruct s; discriminate. Qed.

Lemma find_compl_true : forall ls S, find_compl S ls = true ->
  exists x, In x (S ++ ls) /\ In (negate x) (S ++ ls).
Proof.
  induction ls as [|l r IH]; intros S H; simpl in H; [discriminate|].
  destruct (mem (negate l) S) eqn:E.
  - apply mem_In in E. exists l. split; apply in_or_app; [right; left; reflexivity | left; exact E].
  - destruct (IH _ H) as [x [H1 H2]]. exists x.
    assert (Hs : forall y, In y ((l :: S) ++ r) -> In y (S ++ l :: r)).
    { intros y Hy. simpl in Hy. apply in_or_app. destruct Hy as [Hy|Hy]; [right; left; exact Hy|].
      apply in_app_or in Hy. destruct Hy; [left | right; right]; assumption. }
    split; apply Hs; assumption.
Qed.

Lemma find_compl_false : forall ls S, find_compl S ls = false ->
  (forall x, In x ls -> ~ In (negate x) S) /\ (forall x, In x ls -> ~ In (negate x) ls).
Proof.
  induction ls as [|l r IH]; intros S H; simpl in H.
  - split; intros x [].
  - destruct (mem (negate l) S) eqn:E; [discriminate|]. apply mem_false in E.
    destruct (IH _ H) as [H1 H2]. split.
    + intros x [Hx|Hx]; [subst; exact E|]. intro Hin. apply (H1 x Hx). right. exact Hin.
    + intros x [Hx|Hx] [Hn|Hn].
      * subst. exact (negate_neq _ (eq_sym Hn)).
      * subst x. apply (H1 (negate l) Hn). left. symmetry. apply negate_involutive.
      * apply (H1 x Hx). left. exact Hn.
      * exact (H2 x Hx Hn).
Qed.

Section DedupSem.
Variable va : atom -> bool.

Lemma gate_fun_andor_set : forall k (xs ys : list lit), k <> Xor ->
  (forall x, In x xs <-> In x ys) ->
  gate_fun k (map (lval va) xs) = gate_fun k (map (lval va) ys).
Proof.
  intros k xs ys Hk H. destruct k; [| |congruence]; simpl; apply eq_true_iff_eq.
  - rewrite !forallb_forall. split; intros A b Hb; apply in_map_iff in Hb; destruct Hb as [x [E Hx]];
      apply A; apply in_map_iff; exists x; (split; [exact E | apply H; exact Hx]).
  - rewrite !existsb_exists. split; intros [b [Hb B]]; apply in_map_iff in Hb; destruct Hb as [x [E Hx]];
      exists b; (split; [apply in_map_iff; exists x; split; [exact E | apply H; exact Hx] | exact B]).
Qed.

(** a complementary pair of inputs decides an AND / OR gate *)
Lemma gate_fun_andor_compl : forall k (xs : list lit) x, k <> Xor ->
  In x xs -> In (negate x) xs -> gate_fun k (map (lval va) xs) = absorb k.
Proof.
  intros k xs x Hk H1 H2.
  assert (Hv : exists y, In y xs /\ lval va y = absorb k).
  { destruct (Bool.eqb (lval va x) (absorb k)) eqn:E.
    - apply eqb_prop in E. exists x. auto.
    - exists (negate x). split; [exact H2|]. rewrite lval_negate.
      destruct (lval va x), (absorb k); simpl in *; congruence. }
  destruct Hv as [y [Hy Ey]]. destruct k; [| |congruence]; simpl in *.
  - destruct (forallb (fun b => b) (map (lval va) xs)) eqn:F; [|reflexivity].
    rewrite forallb_forall in F. rewrite <- Ey. symmetry. apply F. apply in_map. exact Hy.
  - apply existsb_exists. exists (lval va y). split; [apply in_map; exact Hy | exact Ey].
Qed.

Definition xs (S : list lit) : bool := xorl (map (lval va) S).

Lemma xs_remove : forall l S, NoDup S -> In l S -> xs (remove_lit l S) = xorb (lval va l) (xs S).
Proof.
  intros l. induction S as [|y r IH]; intros Hd Hin; [destruct Hin|].
  inversion Hd as [|? ? Hn Hd']. subst. simpl. destruct (lit_eqb l y) eqn:E.
  - apply lit_eqb_eq in E. subst y. rewrite (remove_lit_notin l r Hn).
    unfold xs, xorl. simpl. destruct (lval va l), (fold_right xorb false (map (lval va) r)); reflexivity.
  - apply lit_eqb_neq in E. destruct Hin as [Hin|Hin]; [congruence|].
    unfold xs, xorl in *. simpl. rewrite (IH Hd' Hin).
    destruct (lval va l), (lval va y), (fold_right xorb false (map (lval va) r)); reflexivity.
Qed.

Lemma toggle_NoDup : forall S l, NoDup S -> NoDup (toggle S l).
Proof.
  intros S l H. unfold toggle. destruct (mem l S) eqn:E.
  - apply remove_lit_NoDup. exact H.
  - apply mem_false in E. constructor; assumption.
Qed.

Lemma toggle_xs : forall S l, NoDup S -> xs (toggle S l) = xorb (lval va l) (xs S).
Proof.
  intros S l H. unfold toggle. destruct (mem l S) eqn:E.
  - apply mem_In in E. apply xs_remove; assumption.
  - reflexivity.
Qed.

Lemma toggle_In : forall S l x, In x (toggle S l) -> In x S \/ x = l.
Proof.
  intros S l x. unfold toggle. destruct (mem l S).
  - intro H. apply remove_lit_In in H. tauto.
  - intros [H|H]; auto.
Qed.

Lemma fold_toggle : forall ls S, NoDup S ->
  NoDup (fold_left toggle ls S) /\
  xs (fold_left toggle ls S) = xorb (xorl (map (lval va) ls)) (xs S) /\
  (forall x, In x (fold_left toggle ls S) -> In x S \/ In x ls).
Proof.
  induction ls as [|l r IH]; intros S H; simpl.
  - split; [exact H|]. split; [unfold xorl; simpl; destruct (xs S); reflexivity | auto].
  - destruct (IH (toggle S l) (toggle_NoDup S l H)) as [A [B C]]. split; [exact A|]. split.
    + rewrite B, toggle_xs by exact H. unfold xorl. simpl.
      destruct (lval va l), (fold_right xorb false (map (lval va) r)), (xs S); reflexivity.
    + intros x Hx. destruct (C x Hx) as [Hx'|Hx']; [|auto].
      apply toggle_In in Hx'. destruct Hx'; auto.
Qed.

Lemma retain_xs : forall ls S, NoDup S -> (forall x, In x S -> In x ls) ->
  xorl (map (lval va) (retain S ls)) = xs S.
Proof.
  induction ls as [|l r IH]; intros S Hd Hsub; simpl.
  - destruct S as [|y S]; [reflexivity|]. destruct (Hsub y (or_introl eq_refl)).
  - destruct (mem l S) eqn:E.
    + apply mem_In in E. simpl. unfold xorl in *. simpl. rewrite IH.
      * rewrite xs_remove by assumption. destruct (lval va l), (xs S); reflexivity.
      * apply remove_lit_NoDup. exact Hd.
      * intros x Hx. apply remove_lit_In in Hx. destruct Hx as [Hx Hne].
        destruct (Hsub x Hx) as [Hl|Hr]; [congruence | exact Hr].
    + apply mem_false in E. apply IH; [exact Hd|].
      intros x Hx. destruct (Hsub x Hx) as [Hl|Hr]; [subst; contradiction | exact Hr].
Qed.

(** [dedup] preserves the value of the gate; a complement pair makes an AND /
    OR gate constant *)
Theorem dedup_sem : forall k ins,
  match dedup k ins with
  | Some ins' => gate_fun k (map (lval va) ins') = gate_fun k (map (lval va) ins)
  | None => k <> Xor /\ gate_fun k (map (lval va) ins) = absorb k
  end.
Proof.
  intros k ins. unfold dedup. destruct (needs_dedup ins); [|reflexivity].
  destruct k.
  - destruct (find_compl [] ins) eqn:E.
    + split; [congruence|]. destruct (find_compl_true _ _ E) as [x [H1 H2]]. simpl in H1, H2.
      eapply gate_fun_andor_compl; [congruence | exact H1 | exact H2].
    + apply gate_fun_andor_set; [congruence|]. intro x. rewrite retain_In. tauto.
  - destruct (find_compl [] ins) eqn:E.
    + split; [congruence|]. destruct (find_compl_true _ _ E) as [x [H1 H2]]. simpl in H1, H2.
      eapply gate_fun_andor_compl; [congruence | exact H1 | exact H2].
    + apply gate_fun_andor_set; [congruence|]. intro x. rewrite retain_In. tauto.
  - destruct (fold_toggle ins [] (NoDup_nil _)) as [A [B C]].
    simpl. change (fold_right xorb false) with xorl. rewrite retain_xs.
    + rewrite B. unfold xs, xorl. simpl. apply xorb_false_r.
    + exact A.
    + intros x Hx. destruct (C x Hx) as [[]|H]. exact H.
Qed.

End DedupSem.

(** structural facts about the result of [dedup] *)

Lemma NoDup_atoms_no_compl : forall ls, NoDup ls ->
  (forall x, In x ls -> ~ In (negate x) ls) -> NoDup (map latom ls).
Proof.
  induction ls as [|l r IH]; intros Hd Hc; simpl; [constructor|].
  inversion Hd as [|? ? Hn Hd']. subst. constructor.
  - intro Hin. apply in_map_iff in Hin. destruct Hin as [y [Ey Hy]].
    destruct l as [s a], y as [t b]. simpl in Ey. subst b.
    destruct (Bool.bool_dec s t) as [E|E].
    + subst. contradiction.
    + apply (Hc (L s a) (or_introl eq_refl)). right. unfold negate. simpl.
      replace (negb s) with t by (destruct s, t; simpl; congruence). exact Hy.
  - apply IH; [exact Hd'|]. intros x Hx Hn'. apply (Hc x (or_intror Hx)). right. exact Hn'.
Qed.

Lemma NoDup_atoms_positive : forall ls, NoDup ls ->
  (forall x, In x ls -> lneg x = false) -> NoDup (map latom ls).
Proof.
  induction ls as [|l r IH]; intros Hd Hp; simpl; [constructor|].
  inversion Hd as [|? ? Hn Hd']. subst. constructor.
  - intro Hin. apply in_map_iff in Hin. destruct Hin as [y [Ey Hy]].
    assert (y = l).
    { destruct l as [s a], y as [t b]. simpl in Ey. subst b.
      pose proof (Hp (L s a) (or_introl eq_refl)) as P1. pose proof (Hp (L t a) (or_intror Hy)) as P2.
      simpl in *. congruence. }
    subst. contradiction.
  - apply IH; [exact Hd'|]. intros x Hx. apply Hp. right. exact Hx.
Qed.

Lemma needs_dedup_false : forall ins, needs_dedup ins = false -> NoDup (map latom ins).
Proof.
  intros [|x [|y [|z r]]] H; simpl in *; try discriminate.
  - constructor.
  - constructor; [intros [] | constructor].
  - constructor; [|constructor; [intros [] | constructor]].
    intros [E|[]]. rewrite <- E, atom_eqb_refl in H. discriminate.
Qed.

Lemma dedup_struct : forall k ins ins', dedup k ins = Some ins' ->
  (k = Xor -> forall x, In x ins -> lneg x = false) ->
  (forall x, In x ins' -> In x ins) /\ NoDup (map latom ins').
Proof.
  intros k ins ins' H Hpos. unfold dedup in H. destruct (needs_dedup ins) eqn:Nd.
  - destruct k.
    + destruct (find_compl [] ins) eqn:E; [discriminate|]. inversion H. subst. clear H.
      destruct (find_compl_false _ _ E) as [_ Hc]. split.
      * intros x Hx. apply retain_In in Hx. tauto.
      * apply NoDup_atoms_no_compl; [apply retain_NoDup|].
        intros x Hx Hn. apply retain_In in Hx. apply retain_In in Hn. apply (Hc x); tauto.
    + destruct (find_compl [] ins) eqn:E; [discriminate|]. inversion H. subst. clear H.
      destruct (find_compl_false _ _ E) as [_ Hc]. split.
      * intros x Hx. apply retain_In in Hx. tauto.
      * apply NoDup_atoms_no_compl; [apply retain_NoDup|].
        intros x Hx Hn. apply retain_In in Hx. apply retain_In in Hn. apply (Hc x); tauto.
    + inversion H. subst. clear H. split.
      * intros x Hx. apply retain_In in Hx. tauto.
      * apply NoDup_atoms_positive; [apply retain_NoDup|].
        intros x Hx. apply retain_In in Hx. apply Hpos; tauto.
  - inversion H. subst. split; [auto | apply needs_dedup_false; exact Nd].
Qed.
