(** * The model simplifier is sound (coq/IO/Circuit.v, [simplify])

    Evaluation lemmas (fuel monotonicity, topologically sorted circuits), the
    semantic lemma about [finish] (one gate), and the invariant of the DFS
    [inner] / [visit_inputs] / [simplify_roots]. *)

From Coq Require Import List Bool Arith Lia Permutation.
From OxiVerif Require Import IO.Circuit IO.CircuitProofs.
Import ListNotations.

(* ------------------------------------------------------------------ *)
(** ** Lists *)

Lemma nth_error_set_nth_eq : forall A (l : list A) i x,
  i < length l -> nth_error (set_nth l i x) i = Some x.
Proof.
  induction l as [|y r IH]; intros i x H; simpl in *; [lia|].
  destruct i; simpl; [reflexivity | apply IH; lia].
Qed.

Lemma nth_error_set_nth_neq : forall A (l : list A) i j x,
  i <> j -> nth_error (set_nth l i x) j = nth_error l j.
Proof.
  induction l as [|y r IH]; intros i j x H; simpl; [reflexivity|].
  destruct i, j; simpl; try reflexivity; try congruence. apply IH. congruence.
Qed.

Lemma length_set_nth : forall A (l : list A) i x, length (set_nth l i x) = length l.
Proof.
  induction l as [|y r IH]; intros i x; simpl; [reflexivity|].
  destruct i; simpl; [reflexivity | f_equal; apply IH].
Qed.

Lemma nth_error_repeat : forall A (x : A) n i, i < n -> nth_error (repeat x n) i = Some x.
Proof.
  induction n as [|n IH]; intros i H; [lia|]. destruct i; simpl; [reflexivity | apply IH; lia].
Qed.

(* ------------------------------------------------------------------ *)
(** ** Evaluation *)

Lemma all_some_map_Some : forall bs, all_some (map Some bs) = Some bs.
Proof. induction bs as [|b r IH]; simpl; [reflexivity | rewrite IH; reflexivity]. Qed.

Lemma all_some_inv : forall l bs, all_some l = Some bs -> l = map Some bs.
Proof.
  induction l as [|o r IH]; intros bs H; simpl in H.
  - inversion H. reflexivity.
  - destruct o as [b|]; [|discriminate]. destruct (all_some r) as [bs'|]; [|discriminate].
    inversion H. subst. simpl. f_equal. apply IH. reflexivity.
Qed.

Lemma gate_val_map_Some : forall k bs, gate_val k (map Some bs) = Some (gate_fun k bs).
Proof. intros. unfold gate_val. rewrite all_some_map_Some. reflexivity. Qed.

Lemma gate_val_Some_inv : forall k vs b, gate_val k vs = Some b ->
  exists bs, vs = map Some bs /\ b = gate_fun k bs.
Proof.
  intros k vs b H. unfold gate_val in H. destruct (all_some vs) as [bs|] eqn:E; [|discriminate].
  inversion H. exists bs. split; [apply all_some_inv; exact E | reflexivity].
Qed.

Lemma opt_xor_Some_inv : forall s o b, opt_xor s o = Some b -> exists b', o = Some b' /\ b = xorb s b'.
Proof. intros s [b'|] b H; simpl in H; [|discriminate]. inversion H. eauto. Qed.

(** values of a list of literals under a function that is total on the list *)
Lemma map_total : forall (F : lit -> option bool) (v : lit -> bool) ins,
  (forall x, In x ins -> F x = Some (v x)) -> map F ins = map Some (map v ins).
Proof.
  intros F v. induction ins as [|x r IH]; intros H; simpl; [reflexivity|].
  rewrite (H x (or_introl eq_refl)). f_equal. apply IH. intros y Hy. apply H. right. exact Hy.
Qed.

Lemma gate_val_total : forall k (F : lit -> option bool) (v : lit -> bool) ins,
  (forall x, In x ins -> F x = Some (v x)) -> gate_val k (map F ins) = Some (gate_fun k (map v ins)).
Proof. intros. rewrite (map_total F v ins) by assumption. apply gate_val_map_Some. Qed.

Lemma eval_lit_polarity : forall c a f s at_,
  eval_lit c a f (L s at_) = opt_xor s (eval_lit c a f (L false at_)).
Proof.
  intros c a f s at_. destruct at_ as [ | i | g | ]; destruct f; simpl; try reflexivity.
  - destruct s; reflexivity.
  - destruct s; reflexivity.
  - destruct (Nat.ltb i (n_inputs c)); simpl; [|reflexivity]. destruct (a i), s; reflexivity.
  - destruct (Nat.ltb i (n_inputs c)); simpl; [|reflexivity]. destruct (a i), s; reflexivity.
  - destruct (nth_error (gates c) g); [|reflexivity].
    destruct (gate_val _ _) as [b|]; simpl; [|reflexivity]. destruct b, s; reflexivity.
Qed.

Lemma eval_lit_lxor : forall c a f l b,
  eval_lit c a f (lxor l b) = opt_xor b (eval_lit c a f l).
Proof.
  intros c a f [s at_] b. unfold lxor. simpl lneg. simpl latom.
  rewrite (eval_lit_polarity c a f (xorb s b)), (eval_lit_polarity c a f s).
  destruct (eval_lit c a f (L false at_)) as [v|]; simpl; [|reflexivity].
  destruct s, b, v; reflexivity.
Qed.

(** a literal that is not a gate does not look at the fuel *)
Lemma eval_lit_nongate : forall c a f f' l,
  (forall g, latom l <> AGate g) -> eval_lit c a f l = eval_lit c a f' l.
Proof.
  intros c a f f' [s [ | i | g | ]] H; destruct f, f'; simpl; try reflexivity.
  all: exfalso; apply (H g); reflexivity.
Qed.

Lemma eval_lit_mono : forall c a f l b,
  eval_lit c a f l = Some b -> forall f', f <= f' -> eval_lit c a f' l = Some b.
Proof.
  intros c a. induction f as [|f IH]; intros l b H f' Hle.
  - destruct l as [s [ | i | g | ]]; destruct f'; simpl in *; try exact H; discriminate.
  - destruct f' as [|f']; [lia|].
    destruct l as [s [ | i | g | ]]; simpl in *; try exact H.
    destruct (nth_error (gates c) g) as [gt|]; [|discriminate].
    apply opt_xor_Some_inv in H. destruct H as [b' [H Eb]].
    apply gate_val_Some_inv in H. destruct H as [bs [Hm Eb']].
    assert (Hm' : map (eval_lit c a f') (gins gt) = map Some bs).
    { rewrite <- Hm. apply map_ext_in. intros x Hx.
      assert (Hx' : exists v, eval_lit c a f x = Some v).
      { assert (Hin : In (eval_lit c a f x) (map (eval_lit c a f) (gins gt))) by (apply in_map; exact Hx).
        rewrite Hm in Hin. apply in_map_iff in Hin. destruct Hin as [v [Ev _]]. exists v. auto. }
      destruct Hx' as [v Ev]. rewrite Ev. apply IH with (f' := f') in Ev; [exact Ev | lia]. }
    rewrite Hm', gate_val_map_Some. simpl. subst. reflexivity.
Qed.

(* ------------------------------------------------------------------ *)
(** ** Topologically sorted circuits *)

Lemma LitValid_mono : forall n j j' l, LitValid n j l -> j <= j' -> LitValid n j' l.
Proof. intros n j j' [s [ | i | g | ]] H Hle; unfold LitValid in *; simpl in *; auto. lia. Qed.

(** every gate mentions only inputs of the circuit and earlier gates *)
Definition Topo (n : nat) (gs : list gate) : Prop :=
  forall j gt, nth_error gs j = Some gt -> forall l, In l (gins gt) -> LitValid n j l.

Definition need (l : lit) : nat := match latom l with AGate g => S g | _ => 0 end.

Lemma NF_Topo : forall c, NF c -> Topo (n_inputs c) (gates c).
Proof. intros c [H _] j gt Hj l Hl. exact (nf_valid _ _ _ (H j gt Hj) l Hl). Qed.

Lemma exists_values : forall (ins : list lit) (m : nat) (F : nat -> lit -> option bool),
  (forall x, In x ins -> exists b, forall f, m <= f -> F f x = Some b) ->
  exists bs, forall f, m <= f -> map (F f) ins = map Some bs.
Proof.
  induction ins as [|x r IH]; intros m F H.
  - exists []. reflexivity.
  - destruct (H x (or_introl eq_refl)) as [b Hb].
    destruct (IH m F (fun y Hy => H y (or_intror Hy))) as [bs Hbs].
    exists (b :: bs). intros f Hf. simpl. rewrite (Hb f Hf), (Hbs f Hf). reflexivity.
Qed.

Lemma topo_stable : forall n gs a, Topo n gs ->
  forall k l, need l <= k -> LitValid n (length gs) l ->
  exists b, forall f, need l <= f -> eval_lit (mkCircuit n gs) a f l = Some b.
Proof.
  intros n gs a HT. induction k as [|k IH]; intros l Hn Hv.
  - destruct l as [s [ | i | g | ]]; unfold need, LitValid in *; simpl in *; try lia; try contradiction.
    + exists s. intros f _. destruct f; reflexivity.
    + exists (xorb s (a i)). intros f _. apply Nat.ltb_lt in Hv. destruct f; simpl; rewrite Hv; reflexivity.
  - destruct (le_lt_dec (need l) k) as [Hle|Hgt]; [apply IH; assumption|].
    destruct l as [s [ | i | g | ]]; unfold need in Hn, Hgt; simpl in Hn, Hgt; try lia.
    assert (g = k) by lia. subst g. unfold LitValid in Hv. simpl in Hv.
    destruct (nth_error gs k) as [gt|] eqn:Eg; [|apply nth_error_None in Eg; lia].
    destruct (exists_values (gins gt) k (fun f => eval_lit (mkCircuit n gs) a f)) as [bs Hbs].
    { intros x Hx. pose proof (HT k gt Eg x Hx) as Hvx.
      assert (Hnx : need x <= k).
      { destruct x as [t [ | i | h | ]]; unfold need, LitValid in *; simpl in *; lia. }
      destruct (IH x Hnx (LitValid_mono _ _ _ _ Hvx (Nat.lt_le_incl _ _ Hv))) as [b Hb].
      exists b. intros f Hf. apply Hb. lia. }
    exists (xorb s (gate_fun (gk gt) bs)). intros f Hf. unfold need in Hf. simpl in Hf.
    destruct f as [|f]; [lia|].
    simpl. rewrite Eg, (Hbs f) by lia. rewrite gate_val_map_Some. reflexivity.
Qed.

Lemma need_le_length : forall n (gs : list gate) l, LitValid n (length gs) l -> need l <= length gs.
Proof. intros n gs [s [ | i | g | ]] H; unfold need, LitValid in *; simpl in *; lia. Qed.

(** in a topologically sorted circuit every valid literal has a value, and any
    fuel [>= need l] computes it *)
Lemma topo_eval_fuel : forall n gs a l f, Topo n gs -> LitValid n (length gs) l -> need l <= f ->
  eval_lit (mkCircuit n gs) a f l = eval (mkCircuit n gs) a l.
Proof.
  intros n gs a l f HT Hv Hf.
  destruct (topo_stable n gs a HT (need l) l (Nat.le_refl _) Hv) as [b Hb].
  unfold eval, num_gates. change (gates (mkCircuit n gs)) with gs.
  rewrite (Hb f Hf), (Hb (S (length gs))); [reflexivity|].
  pose proof (need_le_length n gs l Hv). lia.
Qed.

Lemma topo_eval_defined : forall n gs a l, Topo n gs -> LitValid n (length gs) l ->
  exists b, eval (mkCircuit n gs) a l = Some b.
Proof.
  intros n gs a l HT Hv.
  destruct (topo_stable n gs a HT (need l) l (Nat.le_refl _) Hv) as [b Hb].
  exists b. unfold eval, num_gates. change (gates (mkCircuit n gs)) with gs. apply Hb. pose proof (need_le_length n gs l Hv). lia.
Qed.

Lemma topo_eval_unfold : forall n gs a j gt s, Topo n gs -> nth_error gs j = Some gt ->
  eval (mkCircuit n gs) a (L s (AGate j)) =
  opt_xor s (gate_val (gk gt) (map (eval (mkCircuit n gs) a) (gins gt))).
Proof.
  intros n gs a j gt s HT Hj. unfold eval at 1. unfold num_gates. simpl. rewrite Hj.
  f_equal. f_equal. apply map_ext_in. intros x Hx.
  assert (Hlt : j < length gs) by (apply nth_error_Some; congruence).
  pose proof (HT j gt Hj x Hx) as Hvx.
  apply topo_eval_fuel; [exact HT | eapply LitValid_mono; [exact Hvx | lia] |].
  pose proof (need_le_length n (firstn j gs) x) as Hn. rewrite firstn_length_le in Hn by lia.
  specialize (Hn Hvx). lia.
Qed.

Lemma eval_lit_prefix : forall n gs ex a, Topo n gs -> forall f l, LitValid n (length gs) l ->
  eval_lit (mkCircuit n (gs ++ ex)) a f l = eval_lit (mkCircuit n gs) a f l.
Proof.
  intros n gs ex a HT. induction f as [|f IH]; intros [s [ | i | g | ]] Hv; simpl; try reflexivity.
  unfold LitValid in Hv. simpl in Hv. rewrite nth_error_app1 by exact Hv.
  destruct (nth_error gs g) as [gt|] eqn:Eg; [|reflexivity].
  f_equal. f_equal. apply map_ext_in. intros x Hx. apply IH.
  eapply LitValid_mono; [exact (HT g gt Eg x Hx) | lia].
Qed.

Lemma Topo_app : forall n gs g, Topo n gs -> (forall l, In l (gins g) -> LitValid n (length gs) l) ->
  Topo n (gs ++ [g]).
Proof.
  intros n gs g HT Hg j gt Hj l Hl.
  destruct (lt_dec j (length gs)) as [Hlt|Hge].
  - rewrite nth_error_app1 in Hj by exact Hlt. exact (HT j gt Hj l Hl).
  - rewrite nth_error_app2 in Hj by lia. destruct (j - length gs) as [|d] eqn:Ed; simpl in Hj.
    + inversion Hj. subst gt. assert (j = length gs) by lia. subst j. exact (Hg l Hl).
    + destruct d; discriminate.
Qed.

(** appending gates does not change the value of the literals that were valid before *)
Lemma eval_extend : forall n gs ex a l, Topo n gs -> LitValid n (length gs) l ->
  eval (mkCircuit n (gs ++ ex)) a l = eval (mkCircuit n gs) a l.
Proof.
  intros n gs ex a l HT Hv. unfold eval at 1. unfold num_gates.
  change (gates (mkCircuit n (gs ++ ex))) with (gs ++ ex).
  rewrite eval_lit_prefix by assumption.
  apply topo_eval_fuel; [exact HT | exact Hv |].
  pose proof (need_le_length n gs l Hv). rewrite app_length. lia.
Qed.

(** the value of a freshly appended gate *)
Lemma eval_new_gate : forall n gs k ins a s, Topo n gs ->
  (forall l, In l ins -> LitValid n (length gs) l) ->
  eval (mkCircuit n (gs ++ [mkGate k ins])) a (L s (AGate (length gs))) =
  opt_xor s (gate_val k (map (eval (mkCircuit n gs) a) ins)).
Proof.
  intros n gs k ins a s HT Hins.
  assert (HT' : Topo n (gs ++ [mkGate k ins])) by (apply Topo_app; assumption).
  rewrite (topo_eval_unfold n _ a (length gs) (mkGate k ins) s HT').
  - simpl. f_equal. f_equal. apply map_ext_in. intros x Hx. apply eval_extend; auto.
  - rewrite nth_error_app2 by lia. rewrite Nat.sub_diag. reflexivity.
Qed.

Lemma gate_fun_perm : forall k bs bs', Permutation bs bs' -> gate_fun k bs = gate_fun k bs'.
Proof.
  intros k bs bs' P. induction P; destruct k; simpl in *; try reflexivity; try congruence.
  - destruct x, y; reflexivity.
  - destruct x, y; reflexivity.
  - destruct x, y, (fold_right xorb false l); reflexivity.
Qed.

(* ------------------------------------------------------------------ *)
(** ** Structural hashing *)

Lemma lookup_from_Some : forall k ins gs j0 j, lookup_from k ins gs j0 = Some j ->
  exists gj, j0 <= j /\ nth_error gs (j - j0) = Some gj /\ gk gj = k /\ same_ins ins (gins gj) = true.
Proof.
  intros k ins. induction gs as [|g r IH]; intros j0 j H; simpl in H; [discriminate|].
  destruct (gkind_eqb k (gk g) && same_ins ins (gins g)) eqn:E.
  - inversion H. subst. apply andb_true_iff in E. destruct E as [E1 E2]. apply gkind_eqb_eq in E1.
    exists g. rewrite Nat.sub_diag. simpl. auto.
  - destruct (IH _ _ H) as [gj [Hle [Hn [Hk Hs]]]]. exists gj. split; [lia|].
    replace (j - j0) with (S (j - S j0)) by lia. simpl. auto.
Qed.

Lemma lookup_from_None : forall k ins gs j0, lookup_from k ins gs j0 = None ->
  forall i gj, nth_error gs i = Some gj -> gkind_eqb k (gk gj) && same_ins ins (gins gj) = false.
Proof.
  intros k ins. induction gs as [|g r IH]; intros j0 H i gj Hi; [destruct i; discriminate|].
  simpl in H. destruct (gkind_eqb k (gk g) && same_ins ins (gins g)) eqn:E; [discriminate|].
  destruct i; simpl in Hi.
  - inversion Hi. subst. exact E.
  - eapply IH; eauto.
Qed.

Lemma same_ins_perm : forall xs ys, NoDup xs -> same_ins xs ys = true -> Permutation xs ys.
Proof.
  intros xs ys Hx H. unfold same_ins in H. apply andb_true_iff in H. destruct H as [Hl Hi].
  apply Nat.eqb_eq in Hl. rewrite forallb_forall in Hi.
  apply NoDup_Permutation_bis; [exact Hx | lia |].
  intros x Hin. apply mem_In. apply Hi. exact Hin.
Qed.

Lemma perm_same_ins : forall xs ys, Permutation xs ys -> same_ins xs ys = true.
Proof.
  intros xs ys P. unfold same_ins. apply andb_true_iff. split.
  - apply Nat.eqb_eq. apply Permutation_length. exact P.
  - apply forallb_forall. intros x Hx. apply mem_In. eapply Permutation_in; eauto.
Qed.

(* ------------------------------------------------------------------ *)
(** ** Values of the literals of a topologically sorted circuit as an atom valuation *)

Definition va_of (c1 : circuit) (a : nat -> bool) (at_ : atom) : bool :=
  match eval c1 a (L false at_) with Some b => b | None => false end.

Lemma va_of_const : forall c1 a, va_of c1 a AConst = false.
Proof. reflexivity. Qed.

Lemma eval_lval : forall n gs a x, Topo n gs -> LitValid n (length gs) x ->
  eval (mkCircuit n gs) a x = Some (lval (va_of (mkCircuit n gs) a) x).
Proof.
  intros n gs a [s at_] HT Hv. unfold eval. rewrite eval_lit_polarity.
  assert (Hv0 : LitValid n (length gs) (L false at_)) by exact Hv.
  destruct (topo_eval_defined n gs a _ HT Hv0) as [b Hb]. unfold eval in Hb. rewrite Hb.
  unfold lval, va_of, eval. simpl lneg. simpl latom. rewrite Hb. reflexivity.
Qed.

Lemma eval_lxor : forall c1 a l b, eval c1 a (lxor l b) = opt_xor b (eval c1 a l).
Proof. intros. unfold eval. apply eval_lit_lxor. Qed.

Lemma gate_fun_single : forall k b, gate_fun k [b] = b.
Proof. intros [ | | ] [|]; reflexivity. Qed.

Lemma LitValid_not_undef : forall n j m, LitValid n j m -> m <> UNDEF /\ m <> DISCOVERED.
Proof.
  intros n j [s at_] H. unfold LitValid in H. simpl in H.
  split; intro E; inversion E; subst; contradiction.
Qed.

Lemma LitValid_lxor : forall n j m b, LitValid n j m -> LitValid n j (lxor m b).
Proof. intros n j [s at_] b H. exact H. Qed.

(* ------------------------------------------------------------------ *)
(** ** The last part of [finish]: collapse or emit a gate with structural hashing *)

Definition emit (index : nat) (k : gkind) (nq : bool) (ins : list lit) (st : state) : res state :=
  match ins with
  | [] => Ok (set_map st index (lxor FALSE nq))
  | [l] => Ok (set_map st index (lxor l nq))
  | _ => match lookup k ins (ngates st) with
         | Some j => Ok (set_map st index (lxor (gate_lit false j) nq))
         | None => let j := length (ngates st) in
                   Ok (mkState (set_nth (gmap st) index (lxor (gate_lit false j) nq))
                               (ngates st ++ [mkGate k ins]))
         end
  end.

Lemma emit_two : forall index k nq x y r st,
  emit index k nq (x :: y :: r) st =
  match lookup k (x :: y :: r) (ngates st) with
  | Some j => Ok (set_map st index (lxor (gate_lit false j) nq))
  | None => Ok (mkState (set_nth (gmap st) index (lxor (gate_lit false (length (ngates st))) nq))
                        (ngates st ++ [mkGate k (x :: y :: r)]))
  end.
Proof. reflexivity. Qed.

Lemma NF_app_gate : forall n gs k ins,
  NF (mkCircuit n gs) ->
  GateNF n (length gs) (mkGate k ins) ->
  lookup k ins gs = None ->
  NF (mkCircuit n (gs ++ [mkGate k ins])).
Proof.
  intros n gs k ins [Hg Hu] Hnew Hl. simpl in *. constructor; simpl.
  - intros j g Hj. destruct (lt_dec j (length gs)) as [Hlt|Hge].
    + rewrite nth_error_app1 in Hj by exact Hlt. apply Hg. exact Hj.
    + rewrite nth_error_app2 in Hj by lia. destruct (j - length gs) as [|d] eqn:Ed; simpl in Hj.
      * inversion Hj. subst g. assert (j = length gs) by lia. subst j. exact Hnew.
      * destruct d; discriminate.
  - intros i j g h Hij Hi Hj.
    assert (Hjl : j < length (gs ++ [mkGate k ins])) by (apply nth_error_Some; congruence).
    rewrite app_length in Hjl. simpl in Hjl.
    rewrite nth_error_app1 in Hi by lia.
    destruct (lt_dec j (length gs)) as [Hlt|Hge].
    + rewrite nth_error_app1 in Hj by exact Hlt. exact (Hu i j g h Hij Hi Hj).
    + rewrite nth_error_app2 in Hj by lia. replace (j - length gs) with 0 in Hj by lia.
      simpl in Hj. inversion Hj. subst h. intros [Hk HP]. simpl in Hk, HP.
      pose proof (lookup_from_None k ins gs 0 Hl i g Hi) as Hn.
      rewrite Hk in Hn. assert (gkind_eqb k k = true) by (apply gkind_eqb_eq; reflexivity).
      rewrite H in Hn. simpl in Hn.
      rewrite (perm_same_ins ins (gins g)) in Hn by (apply Permutation_sym; exact HP). discriminate.
Qed.

Lemma emit_sound : forall n gs gm index k nq ins,
  NF (mkCircuit n gs) ->
  (ins = [] -> k = Xor) ->
  (forall x, In x ins -> LitValid n (length gs) x /\ latom x <> AConst) ->
  (k = Xor -> forall x, In x ins -> lneg x = false) ->
  NoDup (map latom ins) ->
  exists m gs',
    emit index k nq ins (mkState gm gs) = Ok (mkState (set_nth gm index m) gs') /\
    (exists ex, gs' = gs ++ ex) /\ NF (mkCircuit n gs') /\ LitValid n (length gs') m /\
    forall a, eval (mkCircuit n gs') a m =
              Some (xorb nq (gate_fun k (map (lval (va_of (mkCircuit n gs) a)) ins))).
Proof.
  intros n gs gm index k nq ins HNF Hnil Hval Hpos Hnd.
  pose proof (NF_Topo _ HNF) as HT. simpl in HT.
  destruct ins as [|x [|y r]].
  - (* no input left: XOR *)
    exists (lxor FALSE nq), gs. split; [reflexivity|]. split; [exists []; rewrite app_nil_r; reflexivity|].
    split; [exact HNF|]. split; [exact I|].
    intros a. rewrite (Hnil eq_refl). rewrite eval_lxor. simpl. reflexivity.
  - (* one input: the gate collapses *)
    destruct (Hval x (or_introl eq_refl)) as [Hvx _].
    exists (lxor x nq), gs. split; [reflexivity|]. split; [exists []; rewrite app_nil_r; reflexivity|].
    split; [exact HNF|]. split; [apply LitValid_lxor; exact Hvx|].
    intros a. rewrite eval_lxor, (eval_lval n gs a x HT Hvx). simpl map. rewrite gate_fun_single. reflexivity.
  - rewrite emit_two. set (ins := x :: y :: r) in *.
    assert (Hndl : NoDup ins) by (eapply NoDup_map_inv; exact Hnd).
    simpl ngates. simpl gmap.
    destruct (lookup k ins gs) as [j|] eqn:El.
    + (* an equal gate exists *)
      unfold lookup in El. destruct (lookup_from_Some _ _ _ _ _ El) as [gj [_ [Hj [Hk Hs]]]].
      rewrite Nat.sub_0_r in Hj.
      assert (Hjl : j < length gs) by (apply nth_error_Some; congruence).
      exists (lxor (gate_lit false j) nq), gs. split; [reflexivity|].
      split; [exists []; rewrite app_nil_r; reflexivity|]. split; [exact HNF|].
      split; [exact Hjl|].
      intros a. rewrite eval_lxor. unfold gate_lit. rewrite (topo_eval_unfold n gs a j gj false HT Hj).
      rewrite (gate_val_total (gk gj) _ (lval (va_of (mkCircuit n gs) a))).
      * cbn [opt_xor]. rewrite xorb_false_l, Hk. f_equal. f_equal. apply gate_fun_perm. apply Permutation_map.
        apply Permutation_sym. apply same_ins_perm; assumption.
      * intros z Hz. apply eval_lval; [exact HT|].
        eapply LitValid_mono; [exact (HT j gj Hj z Hz) | lia].
    + (* a new gate *)
      assert (Hnew : GateNF n (length gs) (mkGate k ins)).
      { constructor; simpl.
        - intros l Hl. apply Hval. exact Hl.
        - exact Hpos.
        - exact Hnd.
        - unfold ins. simpl. lia.
        - intros l Hl. apply Hval. exact Hl. }
      exists (lxor (gate_lit false (length gs)) nq), (gs ++ [mkGate k ins]).
      split; [reflexivity|]. split; [eexists; reflexivity|].
      split; [apply NF_app_gate; assumption|].
      split; [unfold LitValid; simpl; rewrite app_length; simpl; lia|].
      intros a. rewrite eval_lxor. unfold gate_lit.
      rewrite (eval_new_gate n gs k ins a false HT) by (intros l Hl; apply Hval; exact Hl).
      rewrite (gate_val_total k _ (lval (va_of (mkCircuit n gs) a))).
      * cbn [opt_xor]. rewrite xorb_false_l. reflexivity.
      * intros z Hz. apply eval_lval; [exact HT | apply Hval; exact Hz].
Qed.

(* ------------------------------------------------------------------ *)
(** ** [finish]: one gate *)

Lemma finish_eq : forall index gt st, finish index gt st =
  match map_inputs (gk gt) (gmap st) (gins gt) with
  | MCrash => Crash
  | MConst d => Ok (set_map st index d)
  | MIns nq [] => Ok (set_map st index (match gk gt with
                                        | And => TRUE | Or => FALSE | Xor => lxor FALSE nq end))
  | MIns nq mapped =>
    match dedup (gk gt) mapped with
    | None => Ok (set_map st index (match gk gt with And => FALSE | _ => TRUE end))
    | Some ins => emit index (gk gt) nq ins st
    end
  end.
Proof.
  intros. unfold finish. destruct (map_inputs (gk gt) (gmap st) (gins gt)) as [d|nq [|x r]|]; reflexivity.
Qed.

Lemma dedup_nonempty : forall k ms ins', k <> Xor -> ms <> [] -> dedup k ms = Some ins' -> ins' <> [].
Proof.
  intros k ms ins' Hk Hms H. unfold dedup in H. destruct (needs_dedup ms).
  - destruct k; try congruence.
    + destruct (find_compl [] ms); [discriminate|]. inversion H. subst.
      destruct ms as [|x r]; [congruence|]. simpl. unfold mem. simpl. rewrite lit_eqb_refl. simpl. discriminate.
    + destruct (find_compl [] ms); [discriminate|]. inversion H. subst.
      destruct ms as [|x r]; [congruence|]. simpl. unfold mem. simpl. rewrite lit_eqb_refl. simpl. discriminate.
  - inversion H. subst. exact Hms.
Qed.

Lemma LitValid_atom : forall n j x y, latom x = latom y -> LitValid n j x -> LitValid n j y.
Proof. intros n j [s a] [t b] E H. simpl in E. subst. exact H. Qed.

Lemma const_cases : forall x, latom x = AConst -> x = TRUE \/ x = FALSE.
Proof. intros [[|] a] H; simpl in H; subst; auto. Qed.

Section Simp.
Variable c : circuit.
Notation n := (n_inputs c).

(** the old gate [g] (evaluated with fuel [d]) and the literal [m] of the new
    circuit [gs] have the same value under every assignment *)
Definition Linked (d : nat) (gs : list gate) (g : nat) (m : lit) : Prop :=
  LitValid n (length gs) m /\
  forall a, exists b, eval_lit c a d (gate_lit false g) = Some b /\
                      eval (mkCircuit n gs) a m = Some b.

Definition InputsOk (d : nat) (gs : list gate) (gm : list lit) (ins : list lit) : Prop :=
  forall l, In l ins ->
    match latom l with
    | AGate h => exists m, nth_error gm h = Some m /\ Linked d gs h m
    | AIn i => i < n
    | AUndef => False
    | AConst => True
    end.

Lemma mapped_ok : forall d gs gm ins l, InputsOk d gs gm ins -> In l ins ->
  in_range gm l /\ LitValid n (length gs) (apply_gate_map gm l) /\
  forall a, exists b, eval_lit c a d l = Some b /\
                      eval (mkCircuit n gs) a (apply_gate_map gm l) = Some b.
Proof.
  intros d gs gm ins [s at_] H Hin. specialize (H _ Hin). simpl in H.
  destruct at_ as [ | i | h | ].
  - split; [intros g E; discriminate|]. split; [exact I|]. intros a. exists s.
    split; [destruct d; reflexivity | reflexivity].
  - split; [intros g E; discriminate|]. split; [exact H|]. intros a. exists (xorb s (a i)).
    apply Nat.ltb_lt in H. split.
    + destruct d; simpl; rewrite H; reflexivity.
    + unfold apply_gate_map, eval. simpl. rewrite H. reflexivity.
  - destruct H as [m [Hm [Hv Hs]]]. split.
    + intros g E. inversion E. subst. apply nth_error_Some. congruence.
    + unfold apply_gate_map. simpl. rewrite Hm. split; [apply LitValid_lxor; exact Hv|].
      intros a. destruct (Hs a) as [b [H1 H2]]. exists (xorb s b). split.
      * rewrite eval_lit_polarity. unfold gate_lit in H1. rewrite H1. reflexivity.
      * rewrite eval_lxor, H2. reflexivity.
  - contradiction.
Qed.

Lemma finish_sound : forall d gs gm g gt,
  NF (mkCircuit n gs) ->
  nth_error (gates c) g = Some gt ->
  InputsOk d gs gm (gins gt) ->
  exists m gs',
    finish g gt (mkState gm gs) = Ok (mkState (set_nth gm g m) gs') /\
    (exists ex, gs' = gs ++ ex) /\
    NF (mkCircuit n gs') /\
    Linked (S d) gs' g m.
Proof.
  intros d gs gm g gt HNF Hgt Hok.
  pose proof (NF_Topo _ HNF) as HT. simpl in HT.
  set (k := gk gt). set (ins := gins gt).
  assert (Hr : forall l, In l ins -> in_range gm l) by (intros l Hl; apply (mapped_ok d gs gm ins l Hok Hl)).
  assert (Hv : forall l, In l ins -> LitValid n (length gs) (apply_gate_map gm l))
    by (intros l Hl; apply (mapped_ok d gs gm ins l Hok Hl)).
  (* the value of the old gate *)
  set (tv := fun a => gate_fun k (map (lval (va_of (mkCircuit n gs) a)) (map (apply_gate_map gm) ins))).
  assert (Hold : forall a, eval_lit c a (S d) (gate_lit false g) = Some (tv a)).
  { intros a. unfold gate_lit. simpl. rewrite Hgt. fold k. fold ins.
    rewrite (gate_val_total k _ (fun l => lval (va_of (mkCircuit n gs) a) (apply_gate_map gm l))).
    - cbn [opt_xor]. rewrite xorb_false_l. unfold tv. rewrite map_map. reflexivity.
    - intros x Hx. destruct (mapped_ok d gs gm ins x Hok Hx) as [_ [Hvx Hs]].
      destruct (Hs a) as [b [H1 H2]]. rewrite H1. rewrite (eval_lval n gs a _ HT Hvx) in H2. symmetry. exact H2. }
  (* it is enough to produce a literal of the new circuit with that value *)
  assert (Hgoal : forall (R : res state) m gs',
            R = Ok (mkState (set_nth gm g m) gs') ->
            (exists ex, gs' = gs ++ ex) -> NF (mkCircuit n gs') -> LitValid n (length gs') m ->
            (forall a, eval (mkCircuit n gs') a m = Some (tv a)) ->
            exists m gs',
              R = Ok (mkState (set_nth gm g m) gs') /\
              (exists ex, gs' = gs ++ ex) /\ NF (mkCircuit n gs') /\ Linked (S d) gs' g m).
  { intros R m gs' H1 H2 H3 H4 H5. exists m, gs'.
    split; [exact H1|]. split; [exact H2|]. split; [exact H3|]. split; [exact H4|].
    intros a. exists (tv a). split; [apply Hold | apply H5]. }
  assert (Hsame : exists ex : list gate, gs = gs ++ ex) by (exists []; rewrite app_nil_r; reflexivity).
  rewrite finish_eq. fold k. fold ins. simpl gmap.
  destruct k eqn:Ek.
  - (* AND *)
    assert (Hk : And <> Xor) by discriminate.
    change (map_inputs And gm ins) with (map_inputs_andor (identity And) (dominator And) gm ins).
    destruct (map_inputs_andor (identity And) (dominator And) gm ins) as [d0|nq ms|] eqn:Em.
    + apply (Hgoal _ d0 gs); auto.
      * pose proof (map_andor_sem (va_of (mkCircuit n gs) (fun _ => false)) (va_of_const _ _) And gm ins Hk Hr) as S0.
        rewrite Em in S0. destruct S0 as [S0 _]. subst d0. exact I.
      * intros a. pose proof (map_andor_sem (va_of (mkCircuit n gs) a) (va_of_const _ _) And gm ins Hk Hr) as S0.
        rewrite Em in S0. destruct S0 as [S0 S1]. subst d0. unfold tv. rewrite S1. reflexivity.
    + assert (Sa : forall a, nq = false /\
                   gate_fun And (map (lval (va_of (mkCircuit n gs) a)) ms) = tv a /\
                   (forall m, In m ms -> m <> identity And /\ m <> dominator And /\
                                         exists l, In l ins /\ m = apply_gate_map gm l)).
      { intros a. pose proof (map_andor_sem (va_of (mkCircuit n gs) a) (va_of_const _ _) And gm ins Hk Hr) as S0.
        rewrite Em in S0. exact S0. }
      destruct (Sa (fun _ => false)) as [Hnq [_ Hms]]. subst nq.
      destruct ms as [|x r].
      * apply (Hgoal _ TRUE gs); auto. exact I.
        intros a. destruct (Sa a) as [_ [S1 _]]. rewrite <- S1. reflexivity.
      * destruct (dedup And (x :: r)) as [ins'|] eqn:Ed.
        -- destruct (dedup_struct And (x :: r) ins' Ed) as [Hsub Hnd]; [discriminate|].
           destruct (emit_sound n gs gm g And false ins' HNF) as [m [gs' [E1 [E2 [E3 [E4 E5]]]]]].
           ++ intro E. exfalso. eapply (dedup_nonempty And (x :: r) ins'); eauto. discriminate.
           ++ intros z Hz. destruct (Hms z (Hsub z Hz)) as [A [B [l [Hl El]]]]. split.
              ** subst z. apply Hv. exact Hl.
              ** intro Ec. destruct (const_cases z Ec); contradiction.
           ++ discriminate.
           ++ exact Hnd.
           ++ apply (Hgoal _ m gs'); auto.
              intros a. rewrite E5. destruct (Sa a) as [_ [S1 _]]. rewrite <- S1.
              pose proof (dedup_sem (va_of (mkCircuit n gs) a) And (x :: r)) as Sd. rewrite Ed in Sd.
              rewrite Sd. rewrite xorb_false_l. reflexivity.
        -- apply (Hgoal _ FALSE gs); auto. exact I.
           intros a. destruct (Sa a) as [_ [S1 _]]. rewrite <- S1.
           pose proof (dedup_sem (va_of (mkCircuit n gs) a) And (x :: r)) as Sd. rewrite Ed in Sd.
           destruct Sd as [_ Sd]. rewrite Sd. reflexivity.
    + exfalso. pose proof (map_andor_sem (va_of (mkCircuit n gs) (fun _ => false)) (va_of_const _ _) And gm ins Hk Hr) as S0.
      rewrite Em in S0. exact S0.
  - (* OR *)
    assert (Hk : Or <> Xor) by discriminate.
    change (map_inputs Or gm ins) with (map_inputs_andor (identity Or) (dominator Or) gm ins).
    destruct (map_inputs_andor (identity Or) (dominator Or) gm ins) as [d0|nq ms|] eqn:Em.
    + apply (Hgoal _ d0 gs); auto.
      * pose proof (map_andor_sem (va_of (mkCircuit n gs) (fun _ => false)) (va_of_const _ _) Or gm ins Hk Hr) as S0.
        rewrite Em in S0. destruct S0 as [S0 _]. subst d0. exact I.
      * intros a. pose proof (map_andor_sem (va_of (mkCircuit n gs) a) (va_of_const _ _) Or gm ins Hk Hr) as S0.
        rewrite Em in S0. destruct S0 as [S0 S1]. subst d0. unfold tv. rewrite S1. reflexivity.
    + assert (Sa : forall a, nq = false /\
                   gate_fun Or (map (lval (va_of (mkCircuit n gs) a)) ms) = tv a /\
                   (forall m, In m ms -> m <> identity Or /\ m <> dominator Or /\
                                         exists l, In l ins /\ m = apply_gate_map gm l)).
      { intros a. pose proof (map_andor_sem (va_of (mkCircuit n gs) a) (va_of_const _ _) Or gm ins Hk Hr) as S0.
        rewrite Em in S0. exact S0. }
      destruct (Sa (fun _ => false)) as [Hnq [_ Hms]]. subst nq.
      destruct ms as [|x r].
      * apply (Hgoal _ FALSE gs); auto. exact I.
        intros a. destruct (Sa a) as [_ [S1 _]]. rewrite <- S1. reflexivity.
      * destruct (dedup Or (x :: r)) as [ins'|] eqn:Ed.
        -- destruct (dedup_struct Or (x :: r) ins' Ed) as [Hsub Hnd]; [discriminate|].
           destruct (emit_sound n gs gm g Or false ins' HNF) as [m [gs' [E1 [E2 [E3 [E4 E5]]]]]].
           ++ intro E. exfalso. eapply (dedup_nonempty Or (x :: r) ins'); eauto. discriminate.
           ++ intros z Hz. destruct (Hms z (Hsub z Hz)) as [A [B [l [Hl El]]]]. split.
              ** subst z. apply Hv. exact Hl.
              ** intro Ec. destruct (const_cases z Ec); contradiction.
           ++ discriminate.
           ++ exact Hnd.
           ++ apply (Hgoal _ m gs'); auto.
              intros a. rewrite E5. destruct (Sa a) as [_ [S1 _]]. rewrite <- S1.
              pose proof (dedup_sem (va_of (mkCircuit n gs) a) Or (x :: r)) as Sd. rewrite Ed in Sd.
              rewrite Sd. rewrite xorb_false_l. reflexivity.
        -- apply (Hgoal _ TRUE gs); auto. exact I.
           intros a. destruct (Sa a) as [_ [S1 _]]. rewrite <- S1.
           pose proof (dedup_sem (va_of (mkCircuit n gs) a) Or (x :: r)) as Sd. rewrite Ed in Sd.
           destruct Sd as [_ Sd]. rewrite Sd. reflexivity.
    + exfalso. pose proof (map_andor_sem (va_of (mkCircuit n gs) (fun _ => false)) (va_of_const _ _) Or gm ins Hk Hr) as S0.
      rewrite Em in S0. exact S0.
  - (* XOR *)
    change (map_inputs Xor gm ins) with (map_inputs_xor gm ins).
    destruct (map_inputs_xor gm ins) as [d0|nq ms|] eqn:Em;
      try (exfalso; pose proof (map_xor_sem (va_of (mkCircuit n gs) (fun _ => false)) (va_of_const _ _) gm ins Hr) as S0;
           rewrite Em in S0; exact S0).
    assert (Sa : forall a, xorb nq (xorl (map (lval (va_of (mkCircuit n gs) a)) ms)) = tv a /\
                 (forall m, In m ms -> lneg m = false /\ latom m <> AConst /\
                                       exists l, In l ins /\ latom m = latom (apply_gate_map gm l))).
    { intros a. pose proof (map_xor_sem (va_of (mkCircuit n gs) a) (va_of_const _ _) gm ins Hr) as S0.
      rewrite Em in S0. exact S0. }
    destruct (Sa (fun _ => false)) as [_ Hms].
    destruct ms as [|x r].
    + apply (Hgoal _ (lxor FALSE nq) gs); auto. exact I.
      intros a. destruct (Sa a) as [S1 _]. rewrite <- S1. rewrite eval_lxor. reflexivity.
    + destruct (dedup Xor (x :: r)) as [ins'|] eqn:Ed.
      * destruct (dedup_struct Xor (x :: r) ins' Ed) as [Hsub Hnd].
        { intros _ z Hz. apply (Hms z Hz). }
        destruct (emit_sound n gs gm g Xor nq ins' HNF) as [m [gs' [E1 [E2 [E3 [E4 E5]]]]]].
        -- reflexivity.
        -- intros z Hz. destruct (Hms z (Hsub z Hz)) as [A [B [l [Hl El]]]]. split; [|exact B].
           eapply LitValid_atom; [symmetry; exact El | apply Hv; exact Hl].
        -- intros _ z Hz. apply (Hms z (Hsub z Hz)).
        -- exact Hnd.
        -- apply (Hgoal _ m gs'); auto.
           intros a. rewrite E5. destruct (Sa a) as [S1 _]. rewrite <- S1.
           pose proof (dedup_sem (va_of (mkCircuit n gs) a) Xor (x :: r)) as Sd. rewrite Ed in Sd.
           unfold xorl. change (fold_right xorb false) with (gate_fun Xor). rewrite Sd. reflexivity.
      * exfalso. unfold dedup in Ed. destruct (needs_dedup (x :: r)); discriminate.
Qed.

End Simp.

(* ------------------------------------------------------------------ *)
(** ** The invariant of the DFS *)

Section DFS.
Variable c : circuit.
Notation n := (n_inputs c).

Definition finished (m : lit) : Prop := m <> UNDEF /\ m <> DISCOVERED.

Definition child_ok (order : list nat) (l : lit) : Prop :=
  match latom l with
  | AGate h => In h order
  | AIn i => i < n
  | AUndef => False
  | AConst => True
  end.

(** [order]: the finished gates, most recently finished first *)
Record Inv (st : state) (order : list nat) : Prop := {
  inv_len : length (gmap st) = num_gates c;
  inv_nf : NF (mkCircuit n (ngates st));
  inv_nodup : NoDup order;
  inv_fin : forall g, In g order <-> exists m, nth_error (gmap st) g = Some m /\ finished m;
  inv_link : forall g m, nth_error (gmap st) g = Some m -> finished m ->
                         Linked c (length order) (ngates st) g m;
  inv_closed : forall g gt l, In g order -> nth_error (gates c) g = Some gt -> In l (gins gt) ->
                              child_ok order l;
  inv_before : forall pre g post gt l h, order = pre ++ g :: post ->
                 nth_error (gates c) g = Some gt -> In l (gins gt) -> latom l = AGate h -> In h post
}.

(** what a successful call may change *)
Record Ext (st : state) (order : list nat) (st' : state) (order' : list nat) : Prop := {
  ext_order : exists pre, order' = pre ++ order;
  ext_disc : forall g, nth_error (gmap st') g = Some DISCOVERED <-> nth_error (gmap st) g = Some DISCOVERED;
  ext_undef : forall g, nth_error (gmap st') g = Some UNDEF -> nth_error (gmap st) g = Some UNDEF
}.

Lemma Ext_refl : forall st order, Ext st order st order.
Proof. intros. constructor; [exists []; reflexivity | tauto | auto]. Qed.

Lemma Ext_trans : forall s1 o1 s2 o2 s3 o3, Ext s1 o1 s2 o2 -> Ext s2 o2 s3 o3 -> Ext s1 o1 s3 o3.
Proof.
  intros s1 o1 s2 o2 s3 o3 [[p1 E1] D1 U1] [[p2 E2] D2 U2]. constructor.
  - exists (p2 ++ p1). subst. rewrite app_assoc. reflexivity.
  - intro g. rewrite D2. apply D1.
  - intros g H. apply U1. apply U2. exact H.
Qed.

Lemma Ext_In : forall st order st' order' g, Ext st order st' order' -> In g order -> In g order'.
Proof. intros st order st' order' g [[p E] _ _] H. subst. apply in_or_app. right. exact H. Qed.

Lemma Linked_weaken : forall d gs g m d' ex, NF (mkCircuit n gs) ->
  Linked c d gs g m -> d <= d' -> Linked c d' (gs ++ ex) g m.
Proof.
  intros d gs g m d' ex HNF [Hv Hs] Hle. pose proof (NF_Topo _ HNF) as HT. simpl in HT. split.
  - eapply LitValid_mono; [exact Hv | rewrite app_length; lia].
  - intros a. destruct (Hs a) as [b [H1 H2]]. exists b. split.
    + eapply eval_lit_mono; eauto.
    + rewrite eval_extend; assumption.
Qed.

Lemma finished_dec : forall m, {m = UNDEF} + {m = DISCOVERED} + {finished m}.
Proof.
  intros m. destruct (lit_eq_dec m UNDEF) as [E|E]; [left; left; exact E|].
  destruct (lit_eq_dec m DISCOVERED) as [E'|E']; [left; right; exact E' | right; split; assumption].
Qed.

Lemma Inv_set_discovered : forall st order idx, Inv st order ->
  nth_error (gmap st) idx = Some UNDEF -> Inv (set_map st idx DISCOVERED) order.
Proof.
  intros st order idx I Hidx.
  assert (Hlt : idx < length (gmap st)) by (apply nth_error_Some; congruence).
  assert (Hnth : forall g, g <> idx -> nth_error (gmap (set_map st idx DISCOVERED)) g = nth_error (gmap st) g).
  { intros g Hg. simpl. apply nth_error_set_nth_neq. congruence. }
  assert (Hidx' : nth_error (gmap (set_map st idx DISCOVERED)) idx = Some DISCOVERED).
  { simpl. apply nth_error_set_nth_eq. exact Hlt. }
  destruct I as [I1 I2 I3 I4 I5 I6 I7]. constructor; simpl ngates; auto.
  - simpl. rewrite length_set_nth. exact I1.
  - intro g. rewrite I4. destruct (Nat.eq_dec g idx) as [E|E].
    + subst g. rewrite Hidx, Hidx'. split; intros [m [Hm [F1 F2]]]; inversion Hm; subst; congruence.
    + rewrite (Hnth g E). tauto.
  - intros g m Hm Hf. destruct (Nat.eq_dec g idx) as [E|E].
    + subst g. rewrite Hidx' in Hm. inversion Hm. subst. destruct Hf. congruence.
    + rewrite (Hnth g E) in Hm. apply I5; assumption.
Qed.

Definition RecSpec (rec : nat -> state -> res state) : Prop :=
  forall idx st order st', Inv st order -> rec idx st = Ok st' ->
    exists order', Inv st' order' /\ Ext st order st' order' /\ In idx order'.

Lemma visit_inputs_spec : forall rec, RecSpec rec ->
  forall ls st order st', Inv st order -> visit_inputs c rec ls st = Ok st' ->
    exists order', Inv st' order' /\ Ext st order st' order' /\
                   forall l, In l ls -> child_ok order' l.
Proof.
  intros rec HR. induction ls as [|l r IH]; intros st order st' I H; simpl in H.
  - inversion H. subst. exists order. split; [exact I|]. split; [apply Ext_refl | intros l []].
  - destruct l as [s at_]. simpl in H. destruct at_ as [ | i | h | ].
    + destruct (IH _ _ _ I H) as [o' [I' [E' C']]]. exists o'. split; [exact I'|]. split; [exact E'|].
      intros l [Hl|Hl]; [subst; unfold child_ok; simpl; trivial | auto].
    + destruct (Nat.leb n i) eqn:Ei; [discriminate|]. apply Nat.leb_gt in Ei.
      destruct (IH _ _ _ I H) as [o' [I' [E' C']]]. exists o'. split; [exact I'|]. split; [exact E'|].
      intros l [Hl|Hl]; [subst; exact Ei | auto].
    + destruct (rec h st) as [st1| | |] eqn:Er; try discriminate.
      destruct (HR _ _ _ _ I Er) as [o1 [I1 [E1 H1]]].
      destruct (IH _ _ _ I1 H) as [o' [I' [E' C']]]. exists o'. split; [exact I'|].
      split; [eapply Ext_trans; eauto|].
      intros l [Hl|Hl]; [subst; unfold child_ok; simpl; eapply Ext_In; eauto | auto].
    + discriminate.
Qed.

Lemma inner_spec : forall f, RecSpec (inner c f).
Proof.
  induction f as [|f IH]; intros idx st order st' I H; simpl in H; [discriminate|].
  destruct (nth_error (gmap st) idx) as [m|] eqn:Em; [|discriminate].
  destruct (lit_eqb m DISCOVERED) eqn:Ed; [discriminate|]. apply lit_eqb_neq in Ed.
  destruct (lit_eqb m UNDEF) eqn:Eu; simpl in H.
  2:{ (* finished *)
    apply lit_eqb_neq in Eu. inversion H. subst st'. exists order. split; [exact I|].
    split; [apply Ext_refl|]. apply (inv_fin _ _ I). exists m. split; [exact Em | split; assumption]. }
  apply lit_eqb_eq in Eu. subst m.
  destruct (nth_error (gates c) idx) as [gt|] eqn:Eg; [|discriminate].
  assert (Hlt : idx < length (gmap st)) by (apply nth_error_Some; congruence).
  pose proof (Inv_set_discovered st order idx I Em) as I0.
  destruct (visit_inputs c (inner c f) (gins gt) (set_map st idx DISCOVERED)) as [st1| | |] eqn:Ev;
    try discriminate.
  destruct (visit_inputs_spec _ IH _ _ _ _ I0 Ev) as [o1 [I1 [E1 C1]]].
  (* the current gate is still DISCOVERED, hence not in [o1] *)
  assert (Hd1 : nth_error (gmap st1) idx = Some DISCOVERED).
  { apply (ext_disc _ _ _ _ E1). simpl. apply nth_error_set_nth_eq. exact Hlt. }
  assert (Hnot : ~ In idx o1).
  { intro Hin. apply (inv_fin _ _ I1) in Hin. destruct Hin as [m [Hm [_ F]]]. congruence. }
  destruct st1 as [gm1 gs1]. simpl in *.
  assert (Hok : InputsOk c (length o1) gs1 gm1 (gins gt)).
  { intros l Hl. specialize (C1 l Hl). unfold child_ok in C1. destruct (latom l) eqn:El; auto.
    apply (inv_fin _ _ I1) in C1. destruct C1 as [m [Hm F]]. exists m. split; [exact Hm|].
    apply (inv_link _ _ I1); assumption. }
  destruct (finish_sound c (length o1) gs1 gm1 idx gt (inv_nf _ _ I1) Eg Hok)
    as [m' [gs' [Hfin [[ex Hex] [HNF' HL']]]]].
  rewrite Hfin in H. inversion H. subst st'. clear H.
  assert (Hlen1 : length gm1 = num_gates c) by exact (inv_len _ _ I1).
  assert (Hlt1 : idx < length gm1).
  { rewrite Hlen1. rewrite <- (inv_len _ _ I). exact Hlt. }
  assert (Hf' : finished m') by (destruct HL' as [Hv _]; eapply LitValid_not_undef; exact Hv).
  exists (idx :: o1). split; [|split].
  - constructor; simpl.
    + rewrite length_set_nth. exact Hlen1.
    + exact HNF'.
    + constructor; [exact Hnot | exact (inv_nodup _ _ I1)].
    + intro g. destruct (Nat.eq_dec g idx) as [E|E].
      * subst g. rewrite nth_error_set_nth_eq by exact Hlt1. split; [|auto].
        intros _. exists m'. split; [reflexivity | exact Hf'].
      * rewrite nth_error_set_nth_neq by congruence. rewrite <- (inv_fin _ _ I1 g). simpl.
        split; [intros [H|H]; [congruence | exact H] | auto].
    + intros g m Hm Hf. destruct (Nat.eq_dec g idx) as [E|E].
      * subst g. rewrite nth_error_set_nth_eq in Hm by exact Hlt1. inversion Hm. subst m. exact HL'.
      * rewrite nth_error_set_nth_neq in Hm by congruence. subst gs'.
        apply (Linked_weaken (length o1)); [exact (inv_nf _ _ I1) | apply (inv_link _ _ I1); assumption | lia].
    + intros g gt0 l [Hg|Hg] Hgt0 Hl.
      * subst g. rewrite Eg in Hgt0. inversion Hgt0. subst gt0. specialize (C1 l Hl).
        unfold child_ok in *. destruct (latom l); auto. right. exact C1.
      * pose proof (inv_closed _ _ I1 g gt0 l Hg Hgt0 Hl) as Hc.
        unfold child_ok in *. destruct (latom l); auto. right. exact Hc.
    + intros pre g post gt0 l h Ho Hgt0 Hl Hh. destruct pre as [|p pre]; simpl in Ho.
      * inversion Ho. subst g post. rewrite Eg in Hgt0. inversion Hgt0. subst gt0.
        specialize (C1 l Hl). unfold child_ok in C1. rewrite Hh in C1. exact C1.
      * inversion Ho. subst p. eapply (inv_before _ _ I1); eauto.
  - constructor.
    + destruct (ext_order _ _ _ _ E1) as [p Hp]. exists (idx :: p). subst o1. reflexivity.
    + intro g. simpl. destruct (Nat.eq_dec g idx) as [E|E].
      * subst g. rewrite nth_error_set_nth_eq by exact Hlt1. rewrite Em. destruct Hf' as [_ F].
        split; intro Hx; inversion Hx; congruence.
      * rewrite nth_error_set_nth_neq by congruence. rewrite (ext_disc _ _ _ _ E1 g). simpl.
        rewrite nth_error_set_nth_neq by congruence. tauto.
    + intros g. simpl. destruct (Nat.eq_dec g idx) as [E|E].
      * subst g. rewrite nth_error_set_nth_eq by exact Hlt1. destruct Hf' as [F _].
        intro Hx. inversion Hx. congruence.
      * rewrite nth_error_set_nth_neq by congruence. intro Hx.
        apply (ext_undef _ _ _ _ E1) in Hx. simpl in Hx.
        rewrite nth_error_set_nth_neq in Hx by congruence. exact Hx.
  - left. reflexivity.
Qed.

Lemma simplify_roots_spec : forall f roots st order st', Inv st order ->
  simplify_roots c f roots st = Ok st' ->
  exists order', Inv st' order' /\ Ext st order st' order' /\
                 forall r g, In r roots -> latom r = AGate g -> In g order'.
Proof.
  intros f. induction roots as [|r rs IH]; intros st order st' I H; simpl in H.
  - inversion H. subst. exists order. split; [exact I|]. split; [apply Ext_refl|]. intros r g [].
  - unfold get_gate_no in H. destruct (latom r) as [ | i | g0 | ] eqn:Er.
    1,2,4: destruct (IH _ _ _ I H) as [o' [I' [E' R']]]; exists o'; split; [exact I'|]; split; [exact E'|];
           intros r' g [Hr|Hr] Hg; [subst; congruence | eauto].
    destruct (inner c f g0 st) as [st1| | |] eqn:Ei; try discriminate.
    destruct (inner_spec f _ _ _ _ I Ei) as [o1 [I1 [E1 H1]]].
    destruct (IH _ _ _ I1 H) as [o' [I' [E' R']]]. exists o'. split; [exact I'|].
    split; [eapply Ext_trans; eauto|].
    intros r' g [Hr|Hr] Hg.
    + subst r'. rewrite Er in Hg. inversion Hg. subst. eapply Ext_In; eauto.
    + eauto.
Qed.

Lemma Inv_init : Inv (mkState (repeat UNDEF (num_gates c)) []) [].
Proof.
  constructor; simpl.
  - apply repeat_length.
  - constructor; simpl.
    + intros j g H. destruct j; discriminate.
    + intros i j g h _ H. destruct i; discriminate.
  - constructor.
  - intro g. split; [intros []|]. intros [m [Hm [F _]]].
    apply nth_error_In in Hm. apply repeat_spec in Hm. contradiction.
  - intros g m Hm [F _]. apply nth_error_In in Hm. apply repeat_spec in Hm. contradiction.
  - intros g gt l [].
  - intros pre g post gt l h H. destruct pre; discriminate.
Qed.

End DFS.

(* ------------------------------------------------------------------ *)
(** ** Reachability *)

(** [h] is an input gate of gate [g] *)
Definition child (c : circuit) (g h : nat) : Prop :=
  exists gt l, nth_error (gates c) g = Some gt /\ In l (gins gt) /\ latom l = AGate h.

Inductive Reach (c : circuit) (roots : list lit) : nat -> Prop :=
| Reach_root : forall r g, In r roots -> latom r = AGate g -> Reach c roots g
| Reach_step : forall g h, Reach c roots g -> child c g h -> Reach c roots h.

(** one or more steps *)
Inductive Path (c : circuit) (g : nat) : nat -> Prop :=
| Path_one : forall h, child c g h -> Path c g h
| Path_step : forall h h', Path c g h -> child c h h' -> Path c g h'.

Lemma gate_atoms_In : forall ls g, In g (gate_atoms ls) <-> exists l, In l ls /\ latom l = AGate g.
Proof.
  intros ls g. unfold gate_atoms. rewrite in_flat_map. split.
  - intros [l [Hl Hg]]. exists l. split; [exact Hl|]. destruct (latom l); simpl in Hg; try contradiction.
    destruct Hg as [E|[]]. congruence.
  - intros [l [Hl E]]. exists l. split; [exact Hl|]. rewrite E. left. reflexivity.
Qed.

Lemma succs_child : forall c g h, In h (succs c g) <-> child c g h.
Proof.
  intros c g h. unfold succs, child. destruct (nth_error (gates c) g) as [gt|].
  - rewrite gate_atoms_In. split.
    + intros [l [Hl E]]. exists gt, l. auto.
    + intros [gt' [l [Hg [Hl E]]]]. inversion Hg. subst. exists l. auto.
  - split; [intros [] | intros [gt [l [Hg _]]]; discriminate].
Qed.

Lemma add_new_In : forall xs acc x, In x (add_new xs acc) <-> In x xs \/ In x acc.
Proof.
  induction xs as [|y r IH]; intros acc x; simpl.
  - tauto.
  - destruct (memn y acc) eqn:E.
    + apply memn_In in E. rewrite IH. split; [tauto|]. intros [[H|H]|H]; subst; auto.
    + rewrite IH, in_app_iff. simpl. tauto.
Qed.

(** everything [close] returns satisfies a property that holds of the start
    set and is closed under [child] *)
Lemma close_sound : forall c (P : nat -> Prop),
  (forall g h, P g -> child c g h -> P h) ->
  forall fuel acc, (forall x, In x acc -> P x) -> forall x, In x (close c fuel acc) -> P x.
Proof.
  intros c P Hstep. induction fuel as [|f IH]; intros acc Hacc x Hx; simpl in Hx.
  - auto.
  - apply (IH _) in Hx; [exact Hx|]. intros y Hy. apply add_new_In in Hy. destruct Hy as [Hy|Hy]; [|auto].
    apply in_flat_map in Hy. destruct Hy as [g [Hg Hy]]. apply succs_child in Hy. eauto.
Qed.

Lemma reach_sound : forall c roots g, In g (reach c roots) -> Reach c roots g.
Proof.
  intros c roots g H. unfold reach in H.
  apply (close_sound c (Reach c roots)) in H; [exact H | |].
  - intros x y Hx Hc. eapply Reach_step; eauto.
  - intros x Hx. apply add_new_In in Hx. destruct Hx as [Hx|[]].
    apply gate_atoms_In in Hx. destruct Hx as [l [Hl E]]. eapply Reach_root; eauto.
Qed.

Lemma on_cycle_sound : forall c g, on_cycle_b c g = true -> Path c g g.
Proof.
  intros c g H. unfold on_cycle_b in H. apply memn_In in H.
  apply (close_sound c (Path c g)) in H; [exact H | |].
  - intros x y Hx Hc. eapply Path_step; eauto.
  - intros x Hx. apply add_new_In in Hx. destruct Hx as [Hx|[]].
    apply succs_child in Hx. apply Path_one. exact Hx.
Qed.

(* ------------------------------------------------------------------ *)
(** ** Soundness of the model simplifier: every [Ok] answer satisfies the C18 predicate *)

Section Sound.
Variable c : circuit.
Variable roots : list lit.
Variable c' : circuit.
Variable gm : list lit.
Hypothesis Hsimp : simplify c roots = Ok (c', gm).

Lemma simp_core : exists order,
  Inv c (mkState gm (gates c')) order /\ n_inputs c' = n_inputs c /\
  forall r g, In r roots -> latom r = AGate g -> In g order.
Proof.
  unfold simplify in Hsimp.
  destruct (simplify_roots c (S (num_gates c)) roots (mkState (repeat UNDEF (num_gates c)) [])) as [st| | |] eqn:E;
    try discriminate.
  inversion Hsimp. subst c' gm. clear Hsimp.
  destruct (simplify_roots_spec c _ _ _ _ _ (Inv_init c) E) as [order [I [_ R]]].
  exists order. destruct st as [gm0 gs0]. simpl. auto.
Qed.

(** [simp_nf]: the result is in normal form (conditions 1-5, in scope, topologically sorted) *)
Theorem simp_nf : NF c'.
Proof.
  destruct simp_core as [order [I [Hn _]]]. pose proof (inv_nf _ _ _ I) as H. simpl in H.
  destruct c' as [n' gs']. simpl in *. subst n'. exact H.
Qed.

Lemma simp_n_inputs : n_inputs c' = n_inputs c.
Proof. destruct simp_core as [order [_ [Hn _]]]. exact Hn. Qed.

Lemma order_lt : forall order, Inv c (mkState gm (gates c')) order -> forall g, In g order -> g < num_gates c.
Proof.
  intros order I g Hg. apply (inv_fin _ _ _ I) in Hg. destruct Hg as [m [Hm _]]. simpl in Hm.
  rewrite <- (inv_len _ _ _ I). simpl. apply nth_error_Some. congruence.
Qed.

Lemma order_length : forall order, Inv c (mkState gm (gates c')) order -> length order <= num_gates c.
Proof.
  intros order I.
  assert (H : incl order (seq 0 (num_gates c))).
  { intros g Hg. apply in_seq. pose proof (order_lt order I g Hg). lia. }
  pose proof (NoDup_incl_length (inv_nodup _ _ _ I) H) as L. rewrite seq_length in L. exact L.
Qed.

(** every finished gate has the same value as its image, under every assignment *)
Lemma finished_equiv : forall order, Inv c (mkState gm (gates c')) order ->
  forall g, In g order -> exists m, nth_error gm g = Some m /\
    LitValid (n_inputs c') (num_gates c') m /\
    forall a, exists b, eval c a (gate_lit false g) = Some b /\ eval c' a m = Some b.
Proof.
  intros order I g Hg. pose proof Hg as Hg'. apply (inv_fin _ _ _ I) in Hg'.
  destruct Hg' as [m [Hm Hf]]. simpl in Hm. exists m. split; [exact Hm|].
  destruct (inv_link _ _ _ I g m Hm Hf) as [Hv Hs]. simpl in Hv, Hs.
  pose proof simp_n_inputs as Hn. split; [rewrite Hn; exact Hv|].
  intros a. destruct (Hs a) as [b [H1 H2]]. exists b. split.
  - unfold eval. eapply eval_lit_mono; [exact H1|]. pose proof (order_length order I). lia.
  - destruct c' as [n' gs']. simpl in *. subst n'. exact H2.
Qed.

Lemma reach_in_order : forall order, Inv c (mkState gm (gates c')) order ->
  (forall r g, In r roots -> latom r = AGate g -> In g order) ->
  forall g, Reach c roots g -> In g order.
Proof.
  intros order I R g H. induction H as [r g Hr Hg | g h _ IH [gt [l [Hgt [Hl Hh]]]]].
  - eauto.
  - pose proof (inv_closed _ _ _ I g gt l IH Hgt Hl) as Hc. unfold child_ok in Hc. rewrite Hh in Hc. exact Hc.
Qed.

Lemma eval_nongate : forall c1 c2 a l, n_inputs c1 = n_inputs c2 ->
  (forall g, latom l <> AGate g) -> eval c1 a l = eval c2 a l.
Proof.
  intros c1 c2 a [s [ | i | g | ]] Hn H; unfold eval; simpl; try reflexivity.
  - rewrite Hn. reflexivity.
  - exfalso. apply (H g). reflexivity.
Qed.

(** [simp_equiv]: every literal over the reachable gates (in particular every
    root) denotes the same function of the inputs before and after, through the
    gate map; gate literals have a value (the fragment is acyclic and in scope) *)
Theorem simp_equiv : forall l,
  (forall g, latom l = AGate g -> Reach c roots g) ->
  forall a, eval c a l = eval c' a (apply_gate_map gm l) /\
            (forall g, latom l = AGate g -> eval c a l <> None).
Proof.
  intros l Hl a. destruct simp_core as [order [I [Hn R]]].
  destruct l as [s [ | i | g | ]].
  - split; [apply eval_nongate; [symmetry; exact Hn | intros g E; discriminate] | intros g E; discriminate].
  - split; [apply eval_nongate; [symmetry; exact Hn | intros g E; discriminate] | intros g E; discriminate].
  - pose proof (reach_in_order order I R g (Hl g eq_refl)) as Hg.
    destruct (finished_equiv order I g Hg) as [m [Hm [_ Hs]]]. destruct (Hs a) as [b [H1 H2]].
    unfold apply_gate_map. simpl. rewrite Hm. unfold eval in *. rewrite eval_lit_lxor, H2.
    rewrite eval_lit_polarity. unfold gate_lit in H1. rewrite H1. simpl.
    split; [reflexivity | intros g' _; discriminate].
  - split; [apply eval_nongate; [symmetry; exact Hn | intros g E; discriminate] | intros g E; discriminate].
Qed.

(** the gate map is consistent with the new circuit *)
Theorem simp_map_consistent : MapConsistent c c' gm roots.
Proof.
  destruct simp_core as [order [I [Hn R]]]. constructor.
  - exact (inv_len _ _ _ I).
  - intros m Hm. apply In_nth_error in Hm. destruct Hm as [g Hg].
    destruct (finished_dec m) as [[E|E]|F].
    + left. exact E.
    + (* no DISCOVERED marker survives an Ok run *)
      exfalso. subst m. unfold simplify in Hsimp.
      destruct (simplify_roots c (S (num_gates c)) roots (mkState (repeat UNDEF (num_gates c)) [])) as [st| | |] eqn:Es;
        try discriminate.
      inversion Hsimp. subst. destruct (simplify_roots_spec c _ _ _ _ _ (Inv_init c) Es) as [o [_ [E _]]].
      apply (ext_disc _ _ _ _ E) in Hg. simpl in Hg. apply nth_error_In in Hg. apply repeat_spec in Hg. discriminate.
    + right. assert (Hin : In g order) by (apply (inv_fin _ _ _ I); exists m; auto).
      destruct (finished_equiv order I g Hin) as [m' [Hm' [Hv _]]]. simpl in Hg. congruence.
  - intros g Hg. apply reach_sound in Hg. pose proof (reach_in_order order I R g Hg) as Hin.
    destruct (finished_equiv order I g Hin) as [m [Hm [Hv _]]]. eauto.
Qed.

(** no gate reachable from the roots lies on a cycle or mentions an unknown input *)
Lemma path_after : forall order, Inv c (mkState gm (gates c')) order ->
  forall g h, Path c g h -> forall pre post, order = pre ++ g :: post -> In h post.
Proof.
  intros order I g h P. induction P as [h [gt [l [Hgt [Hl Hh]]]] | h h' _ IH [gt [l [Hgt [Hl Hh]]]]];
    intros pre post Ho.
  - eapply (inv_before _ _ _ I); eauto.
  - specialize (IH pre post Ho). apply in_split in IH. destruct IH as [p1 [p2 Hp]].
    assert (Ho' : order = (pre ++ g :: p1) ++ h :: p2).
    { rewrite Ho, Hp. rewrite <- app_assoc. reflexivity. }
    pose proof (inv_before _ _ _ I _ _ _ gt l h' Ho' Hgt Hl Hh) as Hin.
    rewrite Hp. apply in_or_app. right. right. exact Hin.
Qed.

Theorem simp_no_err_condition : should_err_b c roots = false.
Proof.
  destruct simp_core as [order [I [Hn R]]].
  unfold should_err_b. destruct (existsb _ (reach c roots)) eqn:E; [|reflexivity]. exfalso.
  apply existsb_exists in E. destruct E as [g [Hg Hb]].
  apply reach_sound in Hg. pose proof (reach_in_order order I R g Hg) as Hin.
  apply orb_true_iff in Hb. destruct Hb as [Hb|Hb].
  - apply on_cycle_sound in Hb. destruct (in_split _ _ Hin) as [pre [post Ho]].
    pose proof (path_after order I g g Hb pre post Ho) as Hpost.
    pose proof (inv_nodup _ _ _ I) as Hnd. rewrite Ho in Hnd. apply NoDup_remove_2 in Hnd.
    apply Hnd. apply in_or_app. right. exact Hpost.
  - destruct (nth_error (gates c) g) as [gt|] eqn:Egt; [|discriminate].
    apply existsb_exists in Hb. destruct Hb as [l [Hl Hu]].
    pose proof (inv_closed _ _ _ I g gt l Hin Egt Hl) as Hc.
    unfold child_ok in Hc. unfold unknown_input_b in Hu. destruct (latom l); try discriminate.
    + apply Nat.leb_le in Hu. lia.
    + exact Hc.
Qed.

(** The model's [Ok] answers satisfy exactly the executable predicate that the
    driver applies to the answers of the implementation. *)
Theorem simp_ok_answer : ok_answer_b c roots c' gm = true.
Proof.
  unfold ok_answer_b. rewrite simp_no_err_condition. simpl.
  pose proof simp_n_inputs as Hn. rewrite Hn, Nat.eqb_refl. simpl.
  rewrite (proj2 (nf_b_spec c') simp_nf). simpl.
  rewrite (proj2 (map_consistent_b_spec c c' gm roots) simp_map_consistent). simpl.
  assert (Hobs : forall l, In l (observed c roots) -> forall g, latom l = AGate g -> Reach c roots g).
  { intros l Hl g E. unfold observed in Hl. apply in_app_or in Hl. destruct Hl as [Hl|Hl].
    - eapply Reach_root; eauto.
    - apply in_map_iff in Hl. destruct Hl as [g' [E' Hg']]. subst l. simpl in E. inversion E. subst.
      apply reach_sound. exact Hg'. }
  rewrite (proj2 (equiv_b_spec (n_inputs c) c c' gm (observed c roots) eq_refl Hn)).
  - simpl. apply (defined_b_spec (n_inputs c) c _ eq_refl).
    intros a l g Hl E. exact (proj2 (simp_equiv l (Hobs l Hl) a) g E).
  - intros a l Hl. exact (proj1 (simp_equiv l (Hobs l Hl) a)).
Qed.

End Sound.

(* ------------------------------------------------------------------ *)
(** ** Errors and totality *)

(** every gate literal of the circuit and of the roots refers to an existing
    gate (the documented domain of [simplify]; otherwise the code panics) *)
Definition Closed (c : circuit) (roots : list lit) : Prop :=
  (forall r g, In r roots -> latom r = AGate g -> g < num_gates c) /\
  (forall g h, child c g h -> h < num_gates c).

Lemma closed_b_spec : forall c roots, closed_b c roots = true <-> Closed c roots.
Proof.
  intros c roots. unfold closed_b, Closed. rewrite forallb_forall. split.
  - intros H. split.
    + intros r g Hr Hg. apply Nat.ltb_lt. apply H. apply in_or_app. left.
      apply gate_atoms_In. eauto.
    + intros g h [gt [l [Hgt [Hl Hh]]]]. apply Nat.ltb_lt. apply H. apply in_or_app. right.
      apply in_flat_map. exists gt. split; [eapply nth_error_In; eauto|]. apply gate_atoms_In. eauto.
  - intros [H1 H2] x Hx. apply Nat.ltb_lt. apply in_app_or in Hx. destruct Hx as [Hx|Hx].
    + apply gate_atoms_In in Hx. destruct Hx as [l [Hl E]]. eauto.
    + apply in_flat_map in Hx. destruct Hx as [gt [Hgt Hx]]. apply gate_atoms_In in Hx.
      destruct Hx as [l [Hl E]]. apply In_nth_error in Hgt. destruct Hgt as [g Hg].
      apply (H2 g x). exists gt, l. auto.
Qed.

(** [Err(l)] is justified: [l] is a reachable gate that lies on a cycle, or an
    unknown input (incl. UNDEF) mentioned by a reachable gate *)
Definition ErrOk (c : circuit) (roots : list lit) (l : lit) : Prop :=
  (exists g, l = gate_lit false g /\ Reach c roots g /\ Path c g g) \/
  (unknown_input_b (n_inputs c) l = true /\
   exists g gt, Reach c roots g /\ nth_error (gates c) g = Some gt /\ In l (gins gt)).

Section Total.
Variable c : circuit.
Variable roots : list lit.
Hypothesis Hclosed : Closed c roots.

Lemma Reach_lt : forall g, Reach c roots g -> g < num_gates c.
Proof.
  destruct Hclosed as [H1 H2]. intros g H. induction H as [r g Hr Hg | g h _ _ Hc]; eauto.
Qed.

Definition is_undef_at (gmp : list lit) (g : nat) : bool :=
  match nth_error gmp g with Some m => lit_eqb m UNDEF | None => false end.

Definition undefs (st : state) : list nat :=
  filter (is_undef_at (gmap st)) (seq 0 (length (gmap st))).

Lemma undefs_In : forall st g, In g (undefs st) <-> nth_error (gmap st) g = Some UNDEF.
Proof.
  intros st g. unfold undefs, is_undef_at. rewrite filter_In, in_seq. split.
  - intros [_ H]. destruct (nth_error (gmap st) g) as [m|]; [|discriminate].
    apply lit_eqb_eq in H. congruence.
  - intros H. split.
    + assert (g < length (gmap st)) by (apply nth_error_Some; congruence). lia.
    + rewrite H. apply lit_eqb_refl.
Qed.

Lemma undefs_NoDup : forall st, NoDup (undefs st).
Proof. intros. unfold undefs. apply NoDup_filter. apply seq_NoDup. Qed.

Lemma undefs_ext : forall st o st' o', Ext st o st' o' -> length (undefs st') <= length (undefs st).
Proof.
  intros st o st' o' E. apply NoDup_incl_length; [apply undefs_NoDup|].
  intros g Hg. apply undefs_In. apply (ext_undef _ _ _ _ E). apply undefs_In. exact Hg.
Qed.

Lemma undefs_set_discovered : forall st idx, nth_error (gmap st) idx = Some UNDEF ->
  S (length (undefs (set_map st idx DISCOVERED))) <= length (undefs st).
Proof.
  intros st idx H.
  assert (Hlt : idx < length (gmap st)) by (apply nth_error_Some; congruence).
  change (S (length (undefs (set_map st idx DISCOVERED)))) with (length (idx :: undefs (set_map st idx DISCOVERED))).
  apply NoDup_incl_length.
  - constructor; [|apply undefs_NoDup]. intro Hin. apply undefs_In in Hin. simpl in Hin.
    rewrite nth_error_set_nth_eq in Hin by exact Hlt. discriminate.
  - intros g [Hg|Hg]; apply undefs_In.
    + subst. exact H.
    + apply undefs_In in Hg. simpl in Hg. destruct (Nat.eq_dec g idx) as [E|E].
      * subst. rewrite nth_error_set_nth_eq in Hg by exact Hlt. discriminate.
      * rewrite nth_error_set_nth_neq in Hg by congruence. exact Hg.
Qed.

Definition Good (r : res state) : Prop :=
  match r with Ok _ => True | Err l => ErrOk c roots l | Crash => False | Fuel => False end.

Definition InnerGood (f : nat) : Prop :=
  forall idx st order, Inv c st order -> Reach c roots idx ->
    (forall d, nth_error (gmap st) d = Some DISCOVERED -> Path c d idx) ->
    length (undefs st) < f -> Good (inner c f idx st).

Lemma visit_good : forall f, InnerGood f ->
  forall p gt, nth_error (gates c) p = Some gt -> Reach c roots p ->
  forall ls st order, Inv c st order -> incl ls (gins gt) ->
    (forall d, nth_error (gmap st) d = Some DISCOVERED -> d = p \/ Path c d p) ->
    length (undefs st) < f -> Good (visit_inputs c (inner c f) ls st).
Proof.
  intros f HG p gt Hgt Hp. induction ls as [|l r IH]; intros st order I Hsub Hd Hu; simpl.
  - exact Logic.I.
  - assert (Hl : In l (gins gt)) by (apply Hsub; left; reflexivity).
    assert (Hsub' : incl r (gins gt)) by (intros x Hx; apply Hsub; right; exact Hx).
    destruct l as [s at_]. simpl. destruct at_ as [ | i | h | ].
    + eapply IH; eauto.
    + destruct (Nat.leb (n_inputs c) i) eqn:Ei.
      * right. split; [exact Ei|]. exists p, gt. auto.
      * eapply IH; eauto.
    + assert (Hc : child c p h) by (exists gt, (L s (AGate h)); auto).
      assert (Hgood : Good (inner c f h st)).
      { eapply HG; eauto.
        - eapply Reach_step; eauto.
        - intros d Hdd. destruct (Hd d Hdd) as [E|P]; [subst; apply Path_one; exact Hc | eapply Path_step; eauto]. }
      destruct (inner c f h st) as [st1|e| |] eqn:Ei; try exact Hgood.
      destruct (inner_spec c f _ _ _ _ I Ei) as [o1 [I1 [E1 _]]].
      eapply IH; eauto.
      * intros d Hdd. apply Hd. apply (ext_disc _ _ _ _ E1). exact Hdd.
      * pose proof (undefs_ext _ _ _ _ E1). lia.
    + right. split; [reflexivity|]. exists p, gt. auto.
Qed.

Lemma inner_good : forall f, InnerGood f.
Proof.
  induction f as [|f IH]; intros idx st order I Hr Hd Hu; [lia|]. simpl.
  assert (Hlt : idx < length (gmap st)) by (rewrite (inv_len _ _ _ I); apply Reach_lt; exact Hr).
  destruct (nth_error (gmap st) idx) as [m|] eqn:Em; [|apply nth_error_None in Em; lia].
  destruct (lit_eqb m DISCOVERED) eqn:Ed.
  { apply lit_eqb_eq in Ed. subst m. left. exists idx. split; [reflexivity|]. split; [exact Hr | apply Hd; exact Em]. }
  destruct (lit_eqb m UNDEF) eqn:Eu; simpl; [|exact Logic.I].
  apply lit_eqb_eq in Eu. subst m.
  destruct (nth_error (gates c) idx) as [gt|] eqn:Eg.
  2:{ apply nth_error_None in Eg. pose proof (Reach_lt idx Hr). unfold num_gates in *. lia. }
  pose proof (Inv_set_discovered c st order idx I Em) as I0.
  assert (Hgood : Good (visit_inputs c (inner c f) (gins gt) (set_map st idx DISCOVERED))).
  { eapply (visit_good f IH idx gt Eg Hr (gins gt) _ order I0 (incl_refl _)).
    - intros d Hdd. simpl in Hdd. destruct (Nat.eq_dec d idx) as [E|E]; [left; exact E|].
      rewrite nth_error_set_nth_neq in Hdd by congruence. right. apply Hd. exact Hdd.
    - pose proof (undefs_set_discovered st idx Em). lia. }
  destruct (visit_inputs c (inner c f) (gins gt) (set_map st idx DISCOVERED)) as [st1|e| |] eqn:Ev;
    try exact Hgood.
  destruct (visit_inputs_spec c _ (inner_spec c f) _ _ _ _ I0 Ev) as [o1 [I1 [E1 C1]]].
  destruct st1 as [gm1 gs1].
  assert (Hok : InputsOk c (length o1) gs1 gm1 (gins gt)).
  { intros l Hl. specialize (C1 l Hl). unfold child_ok in C1. destruct (latom l) eqn:El; auto.
    apply (inv_fin _ _ _ I1) in C1. destruct C1 as [m [Hm F]]. exists m. split; [exact Hm|].
    apply (inv_link _ _ _ I1); assumption. }
  destruct (finish_sound c (length o1) gs1 gm1 idx gt (inv_nf _ _ _ I1) Eg Hok) as [m' [gs' [Hfin _]]].
  rewrite Hfin. exact Logic.I.
Qed.

Lemma roots_good : forall rs st order, Inv c st order -> incl rs roots ->
  (forall d, nth_error (gmap st) d <> Some DISCOVERED) ->
  Good (simplify_roots c (S (num_gates c)) rs st).
Proof.
  induction rs as [|r rs IH]; intros st order I Hsub Hnd; cbn [simplify_roots]; [exact Logic.I|].
  assert (Hsub' : incl rs roots) by (intros x Hx; apply Hsub; right; exact Hx).
  unfold get_gate_no. destruct (latom r) as [ | i | g | ] eqn:Er; try (eapply IH; eauto).
  assert (Hgood : Good (inner c (S (num_gates c)) g st)).
  { eapply inner_good; eauto.
    - eapply Reach_root; [apply Hsub; left; reflexivity | exact Er].
    - intros d Hdd. exfalso. exact (Hnd d Hdd).
    - assert (length (undefs st) <= length (gmap st)).
      { rewrite <- (seq_length (length (gmap st)) 0). apply NoDup_incl_length; [apply undefs_NoDup|].
        intros x Hx. unfold undefs in Hx. apply filter_In in Hx. tauto. }
      rewrite (inv_len _ _ _ I) in H. lia. }
  destruct (inner c (S (num_gates c)) g st) as [st1|e| |] eqn:Ei; try exact Hgood.
  destruct (inner_spec c _ _ _ _ _ I Ei) as [o1 [I1 [E1 _]]].
  eapply IH; eauto. intros d Hdd. apply (Hnd d). apply (ext_disc _ _ _ _ E1). exact Hdd.
Qed.

(** Every answer of the model on a closed circuit is the right one: an [Ok]
    answer passes the audit [ok_answer_b], an [Err] answer is justified, and the
    model neither indexes out of bounds nor runs out of fuel. *)
Theorem simp_answer :
  match simplify c roots with
  | Ok (c', gm) => ok_answer_b c roots c' gm = true
  | Err l => ErrOk c roots l
  | Crash => False
  | Fuel => False
  end.
Proof.
  destruct (simplify c roots) as [[c' gm]|l| |] eqn:E.
  - apply simp_ok_answer. exact E.
  - unfold simplify in E.
    pose proof (roots_good roots _ _ (Inv_init c) (incl_refl _)) as Hg.
    destruct (simplify_roots c (S (num_gates c)) roots _) as [st|e| |] eqn:Es; try discriminate.
    inversion E. subst. apply Hg. intros d Hd. simpl in Hd. apply nth_error_In in Hd. apply repeat_spec in Hd. discriminate.
  - unfold simplify in E.
    pose proof (roots_good roots _ _ (Inv_init c) (incl_refl _)) as Hg.
    destruct (simplify_roots c (S (num_gates c)) roots _) as [st|e| |] eqn:Es; try discriminate.
    apply Hg. intros d Hd. simpl in Hd. apply nth_error_In in Hd. apply repeat_spec in Hd. discriminate.
  - unfold simplify in E.
    pose proof (roots_good roots _ _ (Inv_init c) (incl_refl _)) as Hg.
    destruct (simplify_roots c (S (num_gates c)) roots _) as [st|e| |] eqn:Es; try discriminate.
    apply Hg. intros d Hd. simpl in Hd. apply nth_error_In in Hd. apply repeat_spec in Hd. discriminate.
Qed.

End Total.

(* ------------------------------------------------------------------ *)
(** ** The executable closure [close] is complete: [reach] and [on_cycle_b]
       decide reachability *)

Section Closure.
Variable c : circuit.
Hypothesis Hchild : forall g h, child c g h -> h < num_gates c.

Definition closedset (S : list nat) : Prop := forall g h, In g S -> child c g h -> In h S.

Lemma NoDup_snoc : forall (l : list nat) x, NoDup l -> ~ In x l -> NoDup (l ++ [x]).
Proof.
  induction l as [|y r IH]; intros x Hd Hn; simpl.
  - constructor; [intros [] | constructor].
  - inversion Hd as [|? ? Hy Hr]. subst. constructor.
    + intro Hin. apply in_app_or in Hin. destruct Hin as [Hin|[Hin|[]]]; [contradiction|].
      subst. apply Hn. left. reflexivity.
    + apply IH; [exact Hr|]. intro Hin. apply Hn. right. exact Hin.
Qed.

Lemma add_new_NoDup : forall xs acc, NoDup acc -> NoDup (add_new xs acc).
Proof.
  induction xs as [|x r IH]; intros acc H; simpl; [exact H|].
  destruct (memn x acc) eqn:E; [apply IH; exact H|].
  apply IH. apply NoDup_snoc; [exact H|]. intro Hin. apply memn_In in Hin. congruence.
Qed.

Lemma add_new_length : forall xs acc, length acc <= length (add_new xs acc).
Proof.
  induction xs as [|x r IH]; intros acc; simpl; [lia|].
  destruct (memn x acc); [apply IH|].
  eapply Nat.le_trans; [|apply IH]. rewrite app_length. simpl. lia.
Qed.

Lemma add_new_same : forall xs acc, (forall x, In x xs -> In x acc) -> add_new xs acc = acc.
Proof.
  induction xs as [|x r IH]; intros acc H; simpl; [reflexivity|].
  assert (E : memn x acc = true) by (apply memn_In; apply H; left; reflexivity).
  rewrite E. apply IH. intros y Hy. apply H. right. exact Hy.
Qed.

Lemma add_new_grow : forall xs acc x, In x xs -> ~ In x acc -> length acc < length (add_new xs acc).
Proof.
  induction xs as [|y r IH]; intros acc x Hx Hn; [destruct Hx|]. simpl.
  destruct (memn y acc) eqn:E.
  - destruct Hx as [Hx|Hx]; [subst; apply memn_In in E; contradiction|]. eapply IH; eauto.
  - eapply Nat.lt_le_trans; [|apply add_new_length]. rewrite app_length. simpl. lia.
Qed.

Lemma close_incl : forall fuel acc x, In x acc -> In x (close c fuel acc).
Proof.
  induction fuel as [|f IH]; intros acc x H; simpl; [exact H|].
  apply IH. apply add_new_In. right. exact H.
Qed.

Lemma close_fix : forall fuel acc, closedset acc -> close c fuel acc = acc.
Proof.
  induction fuel as [|f IH]; intros acc H; simpl; [reflexivity|].
  rewrite add_new_same; [apply IH; exact H|].
  intros x Hx. apply in_flat_map in Hx. destruct Hx as [g [Hg Hx]]. apply succs_child in Hx. eauto.
Qed.

Lemma full_closed : forall acc, NoDup acc -> (forall x, In x acc -> x < num_gates c) ->
  num_gates c <= length acc -> closedset acc.
Proof.
  intros acc Hd Hb Hl g h Hg Hc.
  assert (Hi : incl (seq 0 (num_gates c)) acc).
  { apply NoDup_length_incl; [exact Hd | rewrite seq_length; exact Hl |].
    intros x Hx. apply in_seq. specialize (Hb x Hx). lia. }
  apply Hi. apply in_seq. specialize (Hchild g h Hc). lia.
Qed.

Lemma close_closed : forall fuel acc, NoDup acc -> (forall x, In x acc -> x < num_gates c) ->
  num_gates c - length acc <= fuel -> closedset (close c fuel acc).
Proof.
  induction fuel as [|f IH]; intros acc Hd Hb Hl; simpl.
  - apply full_closed; auto. lia.
  - set (new := flat_map (succs c) acc).
    assert (Hbn : forall x, In x new -> x < num_gates c).
    { intros x Hx. apply in_flat_map in Hx. destruct Hx as [g [_ Hx]]. apply succs_child in Hx. eauto. }
    destruct (forallb (fun x => memn x acc) new) eqn:E.
    + (* nothing new: [acc] is closed *)
      rewrite forallb_forall in E.
      assert (Hc : closedset acc).
      { intros g h Hg Hch. apply memn_In. apply E. apply in_flat_map. exists g. split; [exact Hg|].
        apply succs_child. exact Hch. }
      rewrite add_new_same by (intros x Hx; apply memn_In; apply E; exact Hx).
      rewrite close_fix by exact Hc. exact Hc.
    + assert (Hex : exists x, In x new /\ ~ In x acc).
      { destruct (forallb_forall (fun x => memn x acc) new) as [_ F].
        destruct (existsb (fun x => negb (memn x acc)) new) eqn:Ex.
        - apply existsb_exists in Ex. destruct Ex as [x [Hx Hm]]. exists x. split; [exact Hx|].
          intro Hin. apply memn_In in Hin. rewrite Hin in Hm. discriminate.
        - exfalso. rewrite F in E; [discriminate|]. intros x Hx.
          destruct (memn x acc) eqn:Em; [reflexivity|].
          assert (existsb (fun x => negb (memn x acc)) new = true).
          { apply existsb_exists. exists x. rewrite Em. auto. }
          congruence. }
      destruct Hex as [x [Hx Hn]]. apply IH.
      * apply add_new_NoDup. exact Hd.
      * intros y Hy. apply add_new_In in Hy. destruct Hy; auto.
      * pose proof (add_new_grow new acc x Hx Hn). lia.
Qed.

End Closure.

Section Complete.
Variable c : circuit.
Variable roots : list lit.
Hypothesis Hclosed : Closed c roots.

Lemma reach_complete : forall g, Reach c roots g -> In g (reach c roots).
Proof.
  destruct Hclosed as [H1 H2]. unfold reach.
  set (A0 := add_new (gate_atoms roots) []).
  assert (Hd : NoDup A0) by (apply add_new_NoDup; constructor).
  assert (Hb : forall x, In x A0 -> x < num_gates c).
  { intros x Hx. apply add_new_In in Hx. destruct Hx as [Hx|[]].
    apply gate_atoms_In in Hx. destruct Hx as [l [Hl E]]. eauto. }
  pose proof (close_closed c H2 (num_gates c) A0 Hd Hb ltac:(lia)) as Hc.
  intros g H. induction H as [r g Hr Hg | g h _ IH Hch].
  - apply close_incl. apply add_new_In. left. apply gate_atoms_In. eauto.
  - eapply Hc; eauto.
Qed.

Lemma on_cycle_complete : forall g h, g < num_gates c -> Path c g h ->
  In h (close c (num_gates c) (add_new (succs c g) [])).
Proof.
  destruct Hclosed as [H1 H2]. intros g h Hg.
  set (A0 := add_new (succs c g) []).
  assert (Hd : NoDup A0) by (apply add_new_NoDup; constructor).
  assert (Hb : forall x, In x A0 -> x < num_gates c).
  { intros x Hx. apply add_new_In in Hx. destruct Hx as [Hx|[]]. apply succs_child in Hx. eauto. }
  pose proof (close_closed c H2 (num_gates c) A0 Hd Hb ltac:(lia)) as Hc.
  intros P. induction P as [h Hch | h h' _ IH Hch].
  - apply close_incl. apply add_new_In. left. apply succs_child. exact Hch.
  - eapply Hc; eauto.
Qed.

(** the Prop behind [should_err_b] *)
Definition ShouldErr : Prop :=
  exists g, Reach c roots g /\
    (Path c g g \/ exists gt l, nth_error (gates c) g = Some gt /\ In l (gins gt) /\
                                unknown_input_b (n_inputs c) l = true).

Theorem should_err_b_spec : should_err_b c roots = true <-> ShouldErr.
Proof.
  unfold should_err_b, ShouldErr. rewrite existsb_exists. split.
  - intros [g [Hg Hb]]. exists g. split; [apply reach_sound; exact Hg|].
    apply orb_true_iff in Hb. destruct Hb as [Hb|Hb].
    + left. apply on_cycle_sound. exact Hb.
    + right. destruct (nth_error (gates c) g) as [gt|]; [|discriminate].
      apply existsb_exists in Hb. destruct Hb as [l [Hl Hu]]. exists gt, l. auto.
  - intros [g [Hg Hb]]. exists g. split; [apply reach_complete; exact Hg|].
    apply orb_true_iff. destruct Hb as [Hb|[gt [l [Hgt [Hl Hu]]]]].
    + left. unfold on_cycle_b. apply memn_In. apply on_cycle_complete; [|exact Hb].
      apply (Reach_lt c roots Hclosed). exact Hg.
    + right. rewrite Hgt. apply existsb_exists. exists l. auto.
Qed.

Lemma err_answer_complete : forall l, ErrOk c roots l -> err_answer_b c roots l = true.
Proof.
  intros l H. unfold err_answer_b. apply andb_true_iff. split.
  - apply should_err_b_spec. destruct H as [[g [El [Hr Hp]]]|[Hu [g [gt [Hr [Hgt Hl]]]]]].
    + exists g. auto.
    + exists g. split; [exact Hr|]. right. exists gt, l. auto.
  - unfold err_ok_b. destruct H as [[g [El [Hr Hp]]]|[Hu [g [gt [Hr [Hgt Hl]]]]]].
    + subst l. simpl. apply andb_true_iff. split.
      * apply memn_In. apply reach_complete. exact Hr.
      * unfold on_cycle_b. apply memn_In. apply on_cycle_complete; [|exact Hp].
        apply (Reach_lt c roots Hclosed). exact Hr.
    + assert (Hex : existsb (fun g0 => match nth_error (gates c) g0 with
                                       | Some gt0 => existsb (fun x => atom_eqb (latom l) (latom x)) (gins gt0)
                                       | None => false end) (reach c roots) = true).
      { apply existsb_exists. exists g. split; [apply reach_complete; exact Hr|]. rewrite Hgt.
        apply existsb_exists. exists l. split; [exact Hl | apply atom_eqb_refl]. }
      unfold unknown_input_b in Hu. destruct (latom l) eqn:Ea; try discriminate.
      * rewrite Hex. unfold unknown_input_b. rewrite Ea, Hu. reflexivity.
      * rewrite Hex. unfold unknown_input_b. rewrite Ea. reflexivity.
Qed.

(** Every answer of the model on a closed circuit passes the audit that the
    driver applies to the implementation; no index error, no fuel exhaustion. *)
Theorem simp_total :
  match simplify c roots with
  | Ok (c', gm) => ok_answer_b c roots c' gm = true
  | Err l => err_answer_b c roots l = true
  | Crash => False
  | Fuel => False
  end.
Proof.
  pose proof (simp_answer c roots Hclosed) as H.
  destruct (simplify c roots) as [[c' gm]|l| |]; auto. apply err_answer_complete. exact H.
Qed.

(** [simp_err_iff]: the model answers [Err] exactly when the fragment reachable
    from the roots has a cycle or mentions an unknown input *)
Theorem simp_err_iff : (exists l, simplify c roots = Err l) <-> ShouldErr.
Proof.
  pose proof simp_total as H. split.
  - intros [l E]. rewrite E in H. apply should_err_b_spec.
    unfold err_answer_b in H. apply andb_true_iff in H. tauto.
  - intro S. apply should_err_b_spec in S.
    destruct (simplify c roots) as [[c' gm]|l| |]; try contradiction; [|eauto].
    unfold ok_answer_b in H. rewrite S in H. simpl in H. discriminate.
Qed.

End Complete.

(* ------------------------------------------------------------------ *)
(** ** The hypotheses are satisfiable: concrete runs *)

Definition ex_unit_test : circuit :=   (* the circuit of the crate's test [tests::simplify] *)
  mkCircuit 3 [mkGate Xor [input_lit true 0; input_lit false 1; input_lit false 2];
               mkGate And [gate_lit false 0]].

Example ex_unit_test_closed : closed_b ex_unit_test [gate_lit false 1] = true.
Proof. reflexivity. Qed.

Example ex_unit_test_result :
  simplify ex_unit_test [gate_lit false 1] =
  Ok (mkCircuit 3 [mkGate Xor [input_lit false 0; input_lit false 1; input_lit false 2]],
      [gate_lit true 0; gate_lit true 0]).
Proof. reflexivity. Qed.

(** structural hashing, complement elimination and a collapse in one run *)
Definition ex_shared : circuit :=
  mkCircuit 2 [mkGate And [input_lit true 0; input_lit false 1];
               mkGate And [input_lit false 1; input_lit true 0; TRUE];
               mkGate Or [gate_lit false 0; gate_lit true 1; input_lit false 0];
               mkGate Xor [gate_lit false 2; gate_lit false 0; input_lit false 1; input_lit false 1]].

Example ex_shared_result :
  simplify ex_shared [gate_lit true 3] =
  Ok (mkCircuit 2 [mkGate And [input_lit true 0; input_lit false 1]],
      [gate_lit false 0; gate_lit false 0; TRUE; gate_lit true 0]).
Proof. reflexivity. Qed.

Definition ex_cycle : circuit :=
  mkCircuit 1 [mkGate And [input_lit false 0; gate_lit true 1]; mkGate Or [gate_lit false 0]].

Example ex_cycle_closed : closed_b ex_cycle [gate_lit false 1] = true.
Proof. reflexivity. Qed.
Example ex_cycle_result : simplify ex_cycle [gate_lit false 1] = Err (gate_lit false 1).
Proof. reflexivity. Qed.
Example ex_cycle_should_err : should_err_b ex_cycle [gate_lit false 1] = true.
Proof. reflexivity. Qed.

Example ex_unknown_result :
  simplify (mkCircuit 1 [mkGate And [FALSE; input_lit true 1]]) [gate_lit false 0] = Err (input_lit true 1).
Proof. reflexivity. Qed.

Theorem simp_err_justified : forall c roots l, Closed c roots -> simplify c roots = Err l ->
  ErrOk c roots l.
Proof.
  intros c roots l Hc E. pose proof (simp_answer c roots Hc) as H. rewrite E in H. exact H.
Qed.
