(** C15 — executable model of the DDDMP node sections and name handling of
    /repo/crates/oxidd-dump/src/dddmp/{export.rs, import.rs} (after the "fix:"
    commits listed in known_findings.txt).

    Bytes are [N] (< 256), node IDs / variable indices / levels are [N],
    signed edge references of the ASCII format are [Z].  Every definition
    names the Rust function it mirrors.  No proofs in this file. *)
From Coq Require Import String Ascii.
From Coq Require Import List NArith ZArith Bool.
Import ListNotations.
Open Scope N_scope.

Definition byte := N.

(** ** results *)

Inductive err :=
| EEof            (* "unexpected end of file" *)
| EEscape         (* "invalid escape sequence" *)
| ETooLarge       (* "integer too large" *)
| EIdZero         (* "then/else ID must not be 0" *)
| EIdLarge        (* "then/else ID too large" / "relative then/else ID too large" /
                     "children ids must be less than node" *)
| EVarRange       (* "variable ID out of range" / "variable out of range" *)
| ELevel          (* "node level must be less than the children's levels" *)
| ENoT            (* "binary mode requires a decision diagram kind with a 'T' terminal" *)
| EOom            (* the complement function failed: ErrorKind::OutOfMemory *)
| EEnd            (* "file must end with '.end'" *)
| ESyntax         (* any other syntax error of the ASCII node lines *)
| ENodeId         (* "expected node ID .. on line .." *)
| ETerminal       (* "invalid terminal description" *)
| EArity          (* "expected 2 children, got .." *)
| ERoot           (* root id 0 or out of range (checked by DumpHeader::load) *)
| EInternal.      (* a state the real importer cannot be in (model bug if seen) *)

Inductive res (A : Type) :=
| Ok (a : A)
| Err (e : err).
Arguments Ok {A} a.
Arguments Err {A} e.

Definition bind {A B} (r : res A) (f : A -> res B) : res B :=
  match r with Ok a => f a | Err e => Err e end.
Notation "x <- r ;; k" := (bind r (fun x => k)) (at level 61, r at next level, right associativity).
Notation "' p <- r ;; k" := (bind r (fun x => let p := x in k))
  (at level 61, p pattern, r at next level, right associativity).

(** ** (b) escaping: export.rs [write_escaped], import.rs [read_unescape] *)

Definition escape_byte (c : byte) : list byte :=
  if c =? 0 then [0; 0]
  else if c =? 10 then [0; 1]
  else if c =? 13 then [0; 2]
  else if c =? 26 then [0; 3]
  else [c].

Definition escape (buf : list byte) : list byte := flat_map escape_byte buf.

Definition unescape_code (c : byte) : option byte :=
  if c =? 0 then Some 0
  else if c =? 1 then Some 10
  else if c =? 2 then Some 13
  else if c =? 3 then Some 26
  else None.

(** [read_unescape]: one (unescaped) byte and the remaining input *)
Definition read_unescape (inp : list byte) : res (byte * list byte) :=
  match inp with
  | [] => Err EEof
  | b :: r =>
    if b =? 0 then
      match r with
      | [] => Err EEof
      | c :: r' => match unescape_code c with Some b' => Ok (b', r') | None => Err EEscape end
      end
    else Ok (b, r)
  end.

(** whole-buffer version (used for the round-trip statement only) *)
Fixpoint unescape_all (inp : list byte) : res (list byte) :=
  match inp with
  | [] => Ok []
  | b :: r =>
    if b =? 0 then
      match r with
      | [] => Err EEof
      | c :: r' =>
        match unescape_code c with
        | Some b' => match unescape_all r' with Ok l => Ok (b' :: l) | Err e => Err e end
        | None => Err EEscape
        end
      end
    else match unescape_all r with Ok l => Ok (b :: l) | Err e => Err e end
  end.

(** ** (a) 7-bit integers: export.rs [encode_7bit], import.rs [decode_7bit] *)

(** The Rust loop fills a 10-byte buffer from the back: the last byte holds the
    low 7 bits shifted left by one (continuation bit 0), every byte before it
    the next 7 bits with continuation bit 1.  [enc7_hi] produces the bytes in
    front of the last one; [fuel] bounds the number of groups. *)
Fixpoint enc7_hi (fuel : nat) (v : N) : list byte :=
  match fuel with
  | O => []
  | S f => if v =? 0 then [] else enc7_hi f (v / 128) ++ [(v mod 128) * 2 + 1]
  end.

Definition encode_7bit_raw (v : N) : list byte :=
  enc7_hi (N.to_nat (N.size v)) (v / 128) ++ [(v mod 128) * 2].

Definition encode_7bit (v : N) : list byte := escape (encode_7bit_raw v).

(** usize = u64: [res.checked_mul(1 << 7)] overflows iff [res >= 2^57] *)
Definition usize_limit : N := 18446744073709551616.      (* 2^64 *)
Definition shl7_limit : N := 144115188075855872.         (* 2^57 *)

Definition dec7_step (acc : N) (b : byte) : res (N * bool) :=
  if shl7_limit <=? acc then Err ETooLarge
  else Ok (acc * 128 + b / 2, b mod 2 =? 0).

(** [decode_7bit]: structural on the input (every iteration consumes 1 or 2 bytes) *)
Fixpoint dec7 (acc : N) (inp : list byte) : res (N * list byte) :=
  match inp with
  | [] => Err EEof
  | b :: r =>
    if b =? 0 then
      match r with
      | [] => Err EEof
      | c :: r' =>
        match unescape_code c with
        | None => Err EEscape
        | Some b' =>
          match dec7_step acc b' with
          | Err e => Err e
          | Ok (acc', true) => Ok (acc', r')
          | Ok (acc', false) => dec7 acc' r'
          end
        end
      end
    else
      match dec7_step acc b with
      | Err e => Err e
      | Ok (acc', true) => Ok (acc', r)
      | Ok (acc', false) => dec7 acc' r
      end
  end.

Definition decode_7bit (inp : list byte) : res (N * list byte) := dec7 0 inp.

(** ** (c) node codes: mod.rs [Code], export.rs [node_code] *)

Inductive code := CTerminal | CAbsolute | CRelative | CRelative1.

Definition code_num (c : code) : N :=
  match c with CTerminal => 0 | CAbsolute => 1 | CRelative => 2 | CRelative1 => 3 end.

(** [Code::from(value & 0b11)] *)
Definition code_of_num (n : N) : code :=
  match n mod 4 with 0 => CTerminal | 1 => CAbsolute | 2 => CRelative | _ => CRelative1 end.

Definition node_code (var t : code) (e_complement : bool) (e : code) : byte :=
  code_num var * 32 + code_num t * 8 + (if e_complement then 4 else 0) + code_num e.

(** the four fields of a node code byte, as [import_bin] extracts them *)
Definition split_node_code (b : byte) : code * code * bool * code :=
  (code_of_num (b / 32), code_of_num (b / 8), negb ((b / 4) mod 2 =? 0), code_of_num b).

Definition has_arg (c : code) : bool :=
  match c with CAbsolute | CRelative => true | _ => false end.

(** *** exporter side *)

(** A diagram as the binary exporter sees it: node [k] of the list has ID
    [k+1]; [v] is the position of the node's level among the support levels
    ("var_idx"), [t]/[e] are node IDs, [c] the complement bit of the else edge
    (the then edge is never complemented). *)
Inductive xnode :=
| XTerm
| XInner (v t e : N) (c : bool).

Definition xnth (dag : list xnode) (id : N) : option xnode :=
  if id =? 0 then None else nth_error dag (N.to_nat (id - 1)).

(** var_idx of the node's level; [None] = terminal ([LevelNo::MAX]) *)
Definition xvar (dag : list xnode) (id : N) : option N :=
  match xnth dag id with Some (XInner v _ _ _) => Some v | _ => None end.

Definition min_opt (a b : option N) : option N :=
  match a, b with
  | None, x => x
  | x, None => x
  | Some x, Some y => Some (N.min x y)
  end.

(** export.rs closure [bin_idx] *)
Definition bin_idx (dag : list xnode) (node_id child : N) : code * N :=
  match xvar dag child with
  | None => (CTerminal, 0)
  | Some _ =>
    if child =? node_id - 1 then (CRelative1, 0)
    else if node_id - child <? child then (CRelative, node_id - child)
    else (CAbsolute, child)
  end.

(** export.rs: choice of the variable code in the binary branch of the node loop *)
Definition var_code (dag : list xnode) (v t e : N) : code * N :=
  match min_opt (xvar dag t) (xvar dag e) with
  | None => (CAbsolute, v)
  | Some mv =>
    if v =? mv - 1 then (CRelative1, v)
    else if mv - v <? v then (CRelative, mv - v)
    else (CAbsolute, v)
  end.

Definition opt_arg (c : code) (x : N) : list byte :=
  if has_arg c then encode_7bit x else [].

(** bytes written for one node *)
Definition export_node (dag : list xnode) (node_id : N) (nd : xnode) : list byte :=
  match nd with
  | XTerm => escape [node_code CTerminal CTerminal false CTerminal]
  | XInner v t e c =>
    let '(vc, vx) := var_code dag v t e in
    let '(tc, tx) := bin_idx dag node_id t in
    let '(ec, ex) := bin_idx dag node_id e in
    escape [node_code vc tc c ec] ++ opt_arg vc vx ++ opt_arg tc tx ++ opt_arg ec ex
  end.

Fixpoint export_from (dag : list xnode) (node_id : N) (todo : list xnode) : list byte :=
  match todo with
  | [] => []
  | nd :: r => export_node dag node_id nd ++ export_from dag (node_id + 1) r
  end.

(** the binary node section (between ".nodes\n" and ".end\n") *)
Definition export_nodes (dag : list xnode) : list byte := export_from dag 1 dag.

(** *** importer side: a small hash-consing manager *)

(** terminal values of all diagram kinds *)
Inductive tval := TNum (z : Z) | TNaN | TPlusInf | TMinusInf.

Inductive cref := RTerm (v : tval) | RNode (i : N).
Record cedge := mkE { ce_ref : cref; ce_tag : bool }.
Record cnode := mkN { cn_level : N; cn_t : cedge; cn_e : cedge }.

(** BDD: terminals ⊥ = [TNum 0], ⊤ = [TNum 1], no tags.  BCDD: the single terminal
    ⊤ = [TNum 1], tag = complement.  ZBDD: ∅ = [TNum 0], {∅} = [TNum 1].  MTBDD: any value. *)
Inductive kind := KBDD | KBCDD | KZBDD | KMTBDD.

Definition level_max : N := 4294967295.                  (* LevelNo::MAX *)

Definition tval_eqb (a b : tval) : bool :=
  match a, b with
  | TNum x, TNum y => Z.eqb x y
  | TNaN, TNaN | TPlusInf, TPlusInf | TMinusInf, TMinusInf => true
  | _, _ => false
  end.

Definition cref_eqb (a b : cref) : bool :=
  match a, b with
  | RTerm x, RTerm y => tval_eqb x y
  | RNode i, RNode j => i =? j
  | _, _ => false
  end.

Definition cedge_eqb (a b : cedge) : bool :=
  cref_eqb (ce_ref a) (ce_ref b) && Bool.eqb (ce_tag a) (ce_tag b).

Definition cnode_eqb (a b : cnode) : bool :=
  (cn_level a =? cn_level b) && cedge_eqb (cn_t a) (cn_t b) && cedge_eqb (cn_e a) (cn_e b).

Definition neg (e : cedge) : cedge := mkE (ce_ref e) (negb (ce_tag e)).

Fixpoint find_index {A} (p : A -> bool) (l : list A) (i : N) : option N :=
  match l with
  | [] => None
  | x :: r => if p x then Some i else find_index p r (i + 1)
  end.

(** unique table: [LevelView::get_or_insert] *)
Definition find_or_add (store : list cnode) (n : cnode) : list cnode * cref :=
  match find_index (cnode_eqb n) store 0 with
  | Some i => (store, RNode i)
  | None => (store ++ [n], RNode (N.of_nat (length store)))
  end.

(** [DiagramRules::reduce(..).then_insert(..)] of the four kinds *)
Definition mk_node (k : kind) (store : list cnode) (level : N) (t e : cedge) : list cnode * cedge :=
  match k with
  | KBCDD =>
    if cedge_eqb t e then (store, t)
    else if ce_tag t then
      let '(s, r) := find_or_add store (mkN level (neg t) (neg e)) in (s, mkE r true)
    else
      let '(s, r) := find_or_add store (mkN level t e) in (s, mkE r false)
  | KBDD | KMTBDD =>
    if cedge_eqb t e then (store, t)
    else let '(s, r) := find_or_add store (mkN level t e) in (s, mkE r false)
  | KZBDD =>
    if cref_eqb (ce_ref t) (RTerm (TNum 0)) then (store, e)
    else let '(s, r) := find_or_add store (mkN level t e) in (s, mkE r false)
  end.

(** level of the node an edge points to: [manager.get_node(e).level()] *)
Definition edge_level (store : list cnode) (e : cedge) : N :=
  match ce_ref e with
  | RTerm _ => level_max
  | RNode i => match nth_error store (N.to_nat i) with Some n => cn_level n | None => level_max end
  end.

(** [BDDFunction::not_edge_owned]: negation of a BDD without complement edges builds the
    negated nodes (no computed table here: the recursion follows paths) *)
Fixpoint bdd_not (store : list cnode) (fuel : nat) (e : cedge) : res (list cnode * cedge) :=
  match ce_ref e with
  | RTerm (TNum z) => Ok (store, mkE (RTerm (TNum (1 - z))) false)
  | RTerm _ => Err EInternal
  | RNode i =>
    match fuel with
    | O => Err EInternal
    | S f =>
      match nth_error store (N.to_nat i) with
      | None => Err EInternal
      | Some n =>
        '(s1, t') <- bdd_not store f (cn_t n) ;;
        '(s2, e') <- bdd_not s1 f (cn_e n) ;;
        Ok (mk_node KBDD s2 (cn_level n) t' e')
      end
    end
  end.

(** the [complement] argument of [import]: [not_edge_owned] for BDD (new nodes) and
    BCDD (tag flip); the harness passes a rejecting function for the kinds without
    complement edges *)
Definition complement (k : kind) (store : list cnode) (e : cedge) : res (list cnode * cedge) :=
  match k with
  | KBCDD => Ok (store, neg e)
  | KBDD => bdd_not store (S (length store)) e
  | _ => Err EOom
  end.

(** [M::Terminal::parse("T")] *)
Definition bin_terminal (k : kind) : option cedge :=
  match k with
  | KBDD | KBCDD => Some (mkE (RTerm (TNum 1)) false)
  | _ => None
  end.

(** importer state: unique table and the vector [nodes] (edge of every node ID read so far) *)
Record ist := mkS { st_store : list cnode; st_nodes : list cedge }.

Definition node_at (st : ist) (i : N) : res cedge :=
  match nth_error (st_nodes st) (N.to_nat i) with Some e => Ok e | None => Err EInternal end.

(** import.rs [import_bin]: nested fn [idx] *)
Definition idx_ref (inp : list byte) (node_id : N) (c : code) : res (N * list byte) :=
  '(id, inp') <- (match c with
                  | CTerminal => Ok (1, inp)
                  | CAbsolute => decode_7bit inp
                  | CRelative =>
                    '(d, inp') <- decode_7bit inp ;;
                    if node_id <? d then Err EIdLarge else Ok (node_id - d, inp')
                  | CRelative1 => Ok (node_id - 1, inp)
                  end) ;;
  if id =? 0 then Err EIdZero
  else if node_id <=? id then Err EIdLarge
  else Ok (id - 1, inp').

(** [level_suppvar_map[level]]: position of [level] in [slm] ([suppvar_level_map]) *)
Definition lsm_lookup (slm : list N) (level : N) : res N :=
  match find_index (N.eqb level) slm 0 with Some i => Ok i | None => Err EInternal end.

(** [import_bin]: the second [match var_code] (resolution of the variable once the
    children's levels are known) *)
Definition resolve_vid (slm : list N) (nlevels : N) (vc : code) (vid t_level e_level : N) : res N :=
  match vc with
  | CAbsolute => if N.of_nat (length slm) <=? vid then Err EVarRange else Ok vid
  | _ =>
    let min_level := N.min t_level e_level in
    cms <- (if min_level =? level_max then Ok nlevels else lsm_lookup slm min_level) ;;
    if cms <? vid then Err EVarRange else Ok (cms - vid)
  end.

(** one iteration of the node loop of [import_bin] *)
Definition import_bin_node (k : kind) (slm : list N) (nlevels : N) (terminal : cedge)
           (st : ist) (node_id : N) (inp : list byte) : res (ist * list byte) :=
  '(b, inp) <- read_unescape inp ;;
  let '(vc, tc, ecompl, ec) := split_node_code b in
  match vc with
  | CTerminal => Ok (mkS (st_store st) (st_nodes st ++ [terminal]), inp)
  | _ =>
    '(vid, inp) <- (if has_arg vc then decode_7bit inp else Ok (1, inp)) ;;
    '(ti, inp) <- idx_ref inp node_id tc ;;
    t <- node_at st ti ;;
    let t_level := edge_level (st_store st) t in
    '(ei, inp) <- idx_ref inp node_id ec ;;
    e <- node_at st ei ;;
    let e_level := edge_level (st_store st) e in
    '(store, e) <- (if ecompl then complement k (st_store st) e else Ok (st_store st, e)) ;;
    vid <- resolve_vid slm nlevels vc vid t_level e_level ;;
    match nth_error slm (N.to_nat vid) with
    | None => Err EVarRange
    | Some level =>
      if (t_level <=? level) || (e_level <=? level) then Err ELevel
      else
        let '(store, r) := mk_node k store level t e in
        Ok (mkS store (st_nodes st ++ [r]), inp)
    end
  end.

Fixpoint import_bin_loop (k : kind) (slm : list N) (nlevels : N) (terminal : cedge)
         (n : nat) (node_id : N) (st : ist) (inp : list byte) : res (ist * list byte) :=
  match n with
  | O => Ok (st, inp)
  | S n' =>
    '(st', inp') <- import_bin_node k slm nlevels terminal st node_id inp ;;
    import_bin_loop k slm nlevels terminal n' (node_id + 1) st' inp'
  end.

Definition empty_state : ist := mkS [] [].

(** import.rs [import_bin] *)
Definition import_bin (k : kind) (slm : list N) (nlevels nnodes : N) (inp : list byte)
  : res (ist * list byte) :=
  if nnodes =? 0 then Ok (empty_state, inp)
  else match bin_terminal k with
       | None => Err ENoT
       | Some terminal => import_bin_loop k slm nlevels terminal (N.to_nat nnodes) 1 empty_state inp
       end.

(** ** (e) ASCII node lines: import.rs [import_ascii] and its parsers *)

Definition is_sp (b : byte) : bool := (b =? 32) || (b =? 9).
Definition is_digit (b : byte) : bool := (48 <=? b) && (b <=? 57).

(** [read_until(b'\n')] followed by popping trailing '\n' / '\r' *)
Fixpoint take_line (inp : list byte) : list byte * list byte :=
  match inp with
  | [] => ([], [])
  | b :: r => if b =? 10 then ([b], r) else let '(l, r') := take_line r in (b :: l, r')
  end.

Fixpoint strip_eol_rev (l : list byte) : list byte :=
  match l with
  | b :: r => if (b =? 10) || (b =? 13) then strip_eol_rev r else l
  | [] => []
  end.

Definition read_line (inp : list byte) : res (list byte * list byte) :=
  match inp with
  | [] => Err EEof
  | _ => let '(l, r) := take_line inp in Ok (rev (strip_eol_rev (rev l)), r)
  end.

(** [trim_start] *)
Fixpoint trim_start (s : list byte) : list byte :=
  match s with
  | b :: r => if is_sp b then trim_start r else s
  | [] => []
  end.

(** [memchr2(b' ', b'\t', s)] + split: token before the separator, rest after it *)
Fixpoint split_sp (s : list byte) : option (list byte * list byte) :=
  match s with
  | [] => None
  | b :: r => if is_sp b then Some ([], r)
              else match split_sp r with Some (t, r') => Some (b :: t, r') | None => None end
  end.

(** macro [parse_unsigned!]: leading spaces/tabs, digits, stops before the first
    space/tab after the number; [limit] = 2^64 (usize) or 2^32 (u32) *)
Fixpoint parse_unsigned_go (limit : N) (s : list byte) (acc : N) (num : bool) : res (list byte * N) :=
  match s with
  | [] => if num then Ok ([], acc) else Err ESyntax
  | c :: r =>
    if is_digit c then
      let v := acc * 10 + (c - 48) in
      if limit <=? v then Err ETooLarge else parse_unsigned_go limit r v true
    else if is_sp c then
      if num then Ok (s, acc) else parse_unsigned_go limit r acc false
    else Err ESyntax
  end.

Definition parse_usize (s : list byte) := parse_unsigned_go usize_limit s 0 false.
Definition parse_u32 (s : list byte) := parse_unsigned_go 4294967296 s 0 false.

Definition isize_max : N := 9223372036854775807.

(** [parse_edge_list] *)
Fixpoint parse_edge_list_go (s : list byte) (i : N) (neg_ num : bool) (acc : list Z) : res (list Z) :=
  let push acc := acc ++ [if neg_ then Z.opp (Z.of_N i) else Z.of_N i] in
  match s with
  | [] => Ok (if num then push acc else acc)
  | c :: r =>
    if is_digit c then
      let v := i * 10 + (c - 48) in
      if isize_max <? v then Err ETooLarge else parse_edge_list_go r v neg_ true acc
    else if c =? 45 then
      if neg_ then Err ESyntax else if num then Err ESyntax else parse_edge_list_go r i true num acc
    else if is_sp c then
      if num then parse_edge_list_go r 0 false false (push acc)
      else parse_edge_list_go r i neg_ num acc
    else Err ESyntax
  end.

Definition parse_edge_list (s : list byte) : res (list Z) := parse_edge_list_go s 0 false false [].

(** string literals as UTF-8 bytes *)
Definition bs (s : string) : list byte := map (fun a => N_of_ascii a) (list_ascii_of_string s).

Fixpoint bytes_eqb (a b : list byte) : bool :=
  match a, b with
  | [], [] => true
  | x :: a', y :: b' => (x =? y) && bytes_eqb a' b'
  | _, _ => false
  end.

Definition one_of (tok : list byte) (lits : list string) : bool :=
  existsb (fun s => bytes_eqb tok (bs s)) lits.

Definition true_lits : list string := ["t"; "T"; "true"; "True"; "TRUE"; "⊤"; "1"]%string.
Definition false_lits : list string := ["f"; "F"; "false"; "False"; "FALSE"; "⊥"; "0"]%string.

(** [i64::from_str]: optional sign, at least one digit, range check *)
Fixpoint digits_val (s : list byte) (acc : N) : option N :=
  match s with
  | [] => Some acc
  | c :: r => if is_digit c then digits_val r (acc * 10 + (c - 48)) else None
  end.

Definition parse_i64 (tok : list byte) : option Z :=
  let '(negative, ds) := match tok with
                         | 45 :: r => (true, r)
                         | 43 :: r => (false, r)
                         | _ => (false, tok)
                         end in
  match ds with
  | [] => None
  | _ => match digits_val ds 0 with
         | None => None
         | Some v => if negative then (if v <=? 9223372036854775808 then Some (Z.opp (Z.of_N v)) else None)
                     else (if v <=? 9223372036854775807 then Some (Z.of_N v) else None)
         end
  end.

(** [ParseTagged::parse] of BDDTerminal, BCDDTerminal, ZBDDTerminal, I64 *)
Definition parse_terminal (k : kind) (tok : list byte) : option cedge :=
  match k with
  | KBDD =>
    if one_of tok true_lits then Some (mkE (RTerm (TNum 1)) false)
    else if one_of tok false_lits then Some (mkE (RTerm (TNum 0)) false)
    else None
  | KBCDD =>
    if one_of tok true_lits then Some (mkE (RTerm (TNum 1)) false)
    else if one_of tok false_lits then Some (mkE (RTerm (TNum 1)) true)
    else None
  | KZBDD =>
    if one_of tok ["e"; "E"; "empty"; "Empty"; "EMPTY"; "∅"; "0"]%string then Some (mkE (RTerm (TNum 0)) false)
    else if one_of tok ["b"; "B"; "base"; "Base"; "BASE"; "{∅}"]%string then Some (mkE (RTerm (TNum 1)) false)
    else None
  | KMTBDD =>
    if one_of tok ["nan"; "NaN"; "NAN"]%string then Some (mkE (RTerm TNaN) false)
    else if one_of tok ["-∞"; "-inf"; "-infinity"; "-Inf"; "-Infinity"; "-INF"; "-INFINITY"; "MinusInf"]%string
    then Some (mkE (RTerm TMinusInf) false)
    else if one_of tok ["∞"; "inf"; "infinity"; "Inf"; "Infinity"; "INF"; "INFINITY"; "+∞"; "+inf";
                        "+infinity"; "+Inf"; "+Infinity"; "+INF"; "+INFINITY"; "PlusInf"]%string
    then Some (mkE (RTerm TPlusInf) false)
    else match parse_i64 tok with Some z => Some (mkE (RTerm (TNum z)) false) | None => None end
  end.

(** checks of one child of an inner node, then the (possibly complemented) edge *)
Definition ascii_child_check (st : ist) (node_id level : N) (child : Z) : res cedge :=
  let c := Z.abs_N child in
  if node_id <=? c then Err EIdLarge
  else
    e <- node_at st (c - 1) ;;
    if edge_level (st_store st) e <=? level then Err ELevel else Ok e.

Definition ascii_child_edge (k : kind) (store : list cnode) (e : cedge) (child : Z) : res (list cnode * cedge) :=
  if (child <? 0)%Z then complement k store e else Ok (store, e).

(** one iteration of the node loop of [import_ascii]; [varinfo_none] = [.varinfo 4] *)
Definition import_ascii_line (k : kind) (varinfo_none : bool) (slm : list N)
           (st : ist) (node_id : N) (line : list byte) : res ist :=
  '(rest, nid) <- parse_usize line ;;
  if negb (nid =? node_id) then Err ENodeId
  else
    let rest := trim_start rest in
    rest <- (if varinfo_none then Ok rest
             else match split_sp rest with Some (_, r) => Ok r | None => Err ESyntax end) ;;
    let rest := trim_start rest in
    match split_sp rest with
    | None => Err ESyntax
    | Some (var_tok, rest) =>
      children <- parse_edge_list rest ;;
      match children with
      | [c1; c2] =>
        if (c1 =? 0)%Z || (c2 =? 0)%Z then
          match parse_terminal k var_tok with
          | None => Err ETerminal
          | Some e => Ok (mkS (st_store st) (st_nodes st ++ [e]))
          end
        else
          '(_, var_id) <- parse_u32 var_tok ;;
          match nth_error slm (N.to_nat var_id) with
          | None => Err EVarRange
          | Some level =>
            e1 <- ascii_child_check st node_id level c1 ;;
            e2 <- ascii_child_check st node_id level c2 ;;
            '(store, e1) <- ascii_child_edge k (st_store st) e1 c1 ;;
            '(store, e2) <- ascii_child_edge k store e2 c2 ;;
            let '(store, r) := mk_node k store level e1 e2 in
            Ok (mkS store (st_nodes st ++ [r]))
          end
      | _ => Err EArity
      end
    end.

Fixpoint import_ascii_loop (k : kind) (varinfo_none : bool) (slm : list N)
         (n : nat) (node_id : N) (st : ist) (inp : list byte) : res (ist * list byte) :=
  match n with
  | O => Ok (st, inp)
  | S n' =>
    '(line, inp') <- read_line inp ;;
    st' <- import_ascii_line k varinfo_none slm st node_id line ;;
    import_ascii_loop k varinfo_none slm n' (node_id + 1) st' inp'
  end.

(** import.rs [import_ascii] *)
Definition import_ascii (k : kind) (varinfo_none : bool) (slm : list N) (nnodes : N) (inp : list byte)
  : res (ist * list byte) :=
  import_ascii_loop k varinfo_none slm (N.to_nat nnodes) 1 empty_state inp.

(** ** the rest of [import]: trailer and roots *)

(** [u8::is_ascii_whitespace] *)
Definition is_ascii_ws (b : byte) : bool :=
  (b =? 32) || (b =? 9) || (b =? 10) || (b =? 12) || (b =? 13).

(** [reads_expected(input, b".end")] *)
Definition reads_end (inp : list byte) : bool :=
  match inp with
  | 46 :: 101 :: 110 :: 100 :: r => forallb is_ascii_ws r
  | _ => false
  end.

Fixpoint import_roots (k : kind) (st : ist) (rootids : list Z) : res (ist * list cedge) :=
  match rootids with
  | [] => Ok (st, [])
  | r :: rs =>
    if (r =? 0)%Z then Err ERoot
    else
      e <- match nth_error (st_nodes st) (N.to_nat (Z.abs_N r - 1)) with
           | Some e => Ok e
           | None => Err ERoot
           end ;;
      '(store, e) <- (if (r <? 0)%Z then complement k (st_store st) e else Ok (st_store st, e)) ;;
      '(st', es) <- import_roots k (mkS store (st_nodes st)) rs ;;
      Ok (st', e :: es)
  end.

(** import.rs [import] after [DumpHeader::load]: [ascii], [varinfo_none],
    [nnodes], [rootids] are header fields, [slm] is [suppvar_level_map] *)
Definition import_file (k : kind) (ascii varinfo_none : bool) (slm : list N) (nlevels nnodes : N)
           (rootids : list Z) (inp : list byte) : res (ist * list cedge) :=
  '(st, rest) <- (if ascii then import_ascii k varinfo_none slm nnodes inp
                  else import_bin k slm nlevels nnodes inp) ;;
  if negb (reads_end rest) then Err EEnd
  else import_roots k st rootids.

(** ** semantics of the imported diagram (used by the driver to compare with
    [eval] of the real handles); [env level] = value of the variable at [level] *)

Definition tneg (v : tval) : tval :=
  match v with TNum z => TNum (1 - z) | x => x end.

Fixpoint eval_edge (store : list cnode) (fuel : nat) (env : N -> bool) (e : cedge) : tval :=
  let flip v := if ce_tag e then tneg v else v in
  match ce_ref e with
  | RTerm v => flip v
  | RNode i =>
    match fuel with
    | O => TNaN
    | S f =>
      match nth_error store (N.to_nat i) with
      | None => TNaN
      | Some n => flip (eval_edge store f env (if env (cn_level n) then cn_t n else cn_e n))
      end
    end
  end.

(** all variables at the levels [lo, lo + n) are false *)
Fixpoint all_false (env : N -> bool) (lo : N) (n : nat) : bool :=
  match n with
  | O => true
  | S n' => negb (env lo) && all_false env (lo + 1) n'
  end.

(** ZBDD: a skipped level means "variable is false" *)
Fixpoint zeval_edge (store : list cnode) (fuel : nat) (env : N -> bool) (nlevels lo : N) (e : cedge) : bool :=
  match ce_ref e with
  | RTerm v => tval_eqb v (TNum 1) && all_false env lo (N.to_nat (nlevels - lo))
  | RNode i =>
    match fuel with
    | O => false
    | S f =>
      match nth_error store (N.to_nat i) with
      | None => false
      | Some n =>
        let l := cn_level n in
        all_false env lo (N.to_nat (l - lo))
        && zeval_edge store f env nlevels (l + 1) (if env l then cn_t n else cn_e n)
      end
    end
  end.

Definition eval_root (k : kind) (store : list cnode) (nlevels : N) (env : N -> bool) (e : cedge) : tval :=
  match k with
  | KZBDD => TNum (if zeval_edge store (S (length store)) env nlevels 0 e then 1 else 0)
  | _ => eval_edge store (S (length store)) env e
  end.

(** ** (d) names: export.rs [write_replacing_control], [replace_space_and_control],
    the root name loop of [export_with_names], the variable name block of
    [export_common] *)

Definition is_ascii_control (b : byte) : bool := (b <? 32) || (b =? 127).
Definition is_space_or_control (b : byte) : bool := is_ascii_control b || (b =? 32).

(** diagram name: control characters become spaces; flag = "did replace" *)
Definition write_replacing_control (s : list byte) : list byte * bool :=
  (map (fun b => if is_ascii_control b then 32 else b) s, existsb is_ascii_control s).

(** flag = the result is [Cow::Owned] *)
Definition replace_space_and_control (s : list byte) : list byte * bool :=
  (map (fun b => if is_space_or_control b then 95 else b) s, existsb is_space_or_control s).

(** decimal digits ([Display] of an integer) *)
Fixpoint dec_go (fuel : nat) (n : N) (acc : list byte) : list byte :=
  match fuel with
  | O => acc
  | S f => let acc' := (48 + n mod 10) :: acc in
           if n <? 10 then acc' else dec_go f (n / 10) acc'
  end.
Definition dec (n : N) : list byte := dec_go (S (N.to_nat (N.size n))) n [].

(** root name [i] of [export_with_names]: sanitised name and "strict mode reports an error" *)
Definition sanitize_root_name (i : N) (name : list byte) : list byte * bool :=
  match name with
  | [] => ([95; 102] ++ dec i, true)                                   (* "_f{i}" *)
  | _ => replace_space_and_control name
  end.

Fixpoint sanitize_root_names_from (i : N) (names : list (list byte)) : list (list byte) * bool :=
  match names with
  | [] => ([], false)
  | n :: r => let '(n', b) := sanitize_root_name i n in
              let '(r', b') := sanitize_root_names_from (i + 1) r in
              (n' :: r', b || b')
  end.
Definition sanitize_root_names := sanitize_root_names_from 0.

(** number of leading underscores + 1 ("leading_underscores = max(.., i + 2)" for
    every leading '_' at position i, initial value 1) *)
Fixpoint count_lead (s : list byte) : N :=
  match s with
  | 95 :: r => 1 + count_lead r
  | _ => 0
  end.

Definition lead_of (s : list byte) : N := count_lead s + 1.

Definition underscores (n : N) : list byte := repeat 95 (N.to_nat n).

Definition mem_bytes (x : list byte) (l : list (list byte)) : bool := existsb (bytes_eqb x) l.

(** a replaced name equals a present variable name ([name_to_var(..).is_some()],
    never true for the empty name) or an earlier replaced name *)
Fixpoint prefix_needed (orig : list (list byte)) (repl : list (list byte * bool)) (seen : list (list byte)) : bool :=
  match repl with
  | [] => false
  | (n, owned) :: r =>
    if owned then
      if (negb (bytes_eqb n []) && mem_bytes n orig) || mem_bytes n seen then true
      else prefix_needed orig r (n :: seen)
    else prefix_needed orig r seen
  end.

(** closure [write_var] *)
Definition var_out_name (lead : N) (prefix_all : bool) (i : N) (orig : list byte) (r : list byte * bool) : list byte :=
  let '(n, owned) := r in
  if owned then
    if prefix_all then underscores lead ++ [120] ++ dec i ++ [95] ++ n else n
  else match orig with
       | [] => underscores lead ++ [120] ++ dec i
       | _ => orig
       end.

Fixpoint map_vars (lead : N) (prefix_all : bool) (i : N) (orig : list (list byte)) (repl : list (list byte * bool)) : list (list byte) :=
  match orig, repl with
  | o :: os, r :: rs => var_out_name lead prefix_all i o r :: map_vars lead prefix_all (i + 1) os rs
  | _, _ => []
  end.

(** The variable name block of [export_common].  [names]: name of every
    variable ([] = unnamed).  Result: the names written to the file ([None] =
    no name lines) and "strict mode reports an error". *)
Definition export_var_names (strict : bool) (names : list (list byte)) : option (list (list byte)) * bool :=
  let nvars := length names in
  let named := length (filter (fun n => negb (bytes_eqb n [])) names) in
  if Nat.eqb named nvars || (negb strict && negb (Nat.eqb named 0)) then
    let repl := map replace_space_and_control names in
    let lead := fold_left (fun m r => N.max m (lead_of (fst r))) repl 1 in
    let replaced := existsb snd repl in
    let prefix_all := replaced && prefix_needed names repl [] in
    (Some (map_vars lead prefix_all 0 names repl), strict && replaced)
  else (None, false).

(** ** ASCII node lines of the exporter: export.rs, [if ascii] branches of the node loops

    ["{node_id} {desc} 0 0\n"] for terminals, ["{node_id} {var_idx} {then} {else}\n"] for
    inner nodes; a negative reference is a complemented edge. *)
Inductive anode :=
| ATerm (desc : list byte)
| AInner (v : N) (t e : Z).

Definition dec_z (z : Z) : list byte :=
  if (z <? 0)%Z then 45 :: dec (Z.abs_N z) else dec (Z.abs_N z).

Definition export_ascii_line (node_id : N) (nd : anode) : list byte :=
  match nd with
  | ATerm desc => dec node_id ++ [32] ++ desc ++ [32; 48; 32; 48; 10]
  | AInner v t e => dec node_id ++ [32] ++ dec v ++ [32] ++ dec_z t ++ [32] ++ dec_z e ++ [10]
  end.

Fixpoint export_ascii_from (node_id : N) (todo : list anode) : list byte :=
  match todo with
  | [] => []
  | nd :: r => export_ascii_line node_id nd ++ export_ascii_from (node_id + 1) r
  end.

Definition export_ascii_nodes (dag : list anode) : list byte := export_ascii_from 1 dag.

(** the name the importer reports for the diagram: [.dd] value, trimmed *)
Fixpoint trim_end_rev (s : list byte) : list byte :=
  match s with
  | b :: r => if is_sp b then trim_end_rev r else s
  | [] => []
  end.
Definition trim (s : list byte) : list byte := rev (trim_end_rev (rev (trim_start s))).
