(** * C15 proofs, ASCII node lines: the importer model reads back the exporter model's lines *)
From Coq Require Import String Ascii.
From Coq Require Import List NArith ZArith Bool Arith Lia.
From OxiVerif Require Import IO.Dddmp IO.DddmpProofs.
Import ListNotations.
Open Scope N_scope.

Ltac Zify.zify_post_hook ::= Z.to_euclidean_division_equations.

Arguments N.add : simpl never.
Arguments N.sub : simpl never.
Arguments N.mul : simpl never.
Arguments N.div : simpl never.
Arguments N.modulo : simpl never.
Arguments N.pow : simpl never.

(** ** decimal printing and parsing *)

Definition digits (s : list byte) : Prop := Forall (fun b => is_digit b = true) s.

Lemma is_digit_range b : is_digit b = true <-> 48 <= b /\ b <= 57.
Proof.
  unfold is_digit. rewrite andb_true_iff, !N.leb_le. reflexivity.
Qed.

Lemma digit_not_sp b : is_digit b = true -> is_sp b = false /\ b <> 10 /\ b <> 13 /\ b <> 45.
Proof.
  intros H. apply is_digit_range in H. unfold is_sp.
  destruct (N.eqb_spec b 32); [lia|]. destruct (N.eqb_spec b 9); [lia|]. repeat split; lia.
Qed.

Lemma dec_digits n : digits (dec n).
Proof. unfold digits, dec. apply dec_go_digits. constructor. Qed.

Lemma dec_nonempty n : dec n <> [].
Proof. apply dec_clean. Qed.

Lemma digits_val_ge : forall s a v, digits_val s a = Some v -> a <= v.
Proof.
  induction s as [|c s IH]; intros a v H; cbn in H.
  - inversion H; lia.
  - destruct (is_digit c) eqn:E; [|discriminate]. apply IH in H.
    apply is_digit_range in E. lia.
Qed.

Lemma digits_val_digits : forall s a v, digits_val s a = Some v -> digits s.
Proof.
  induction s as [|c s IH]; intros a v H; cbn in H; [constructor|].
  destruct (is_digit c) eqn:E; [|discriminate]. constructor; [exact E|]. eapply IH; exact H.
Qed.

Lemma dec_go_val : forall fuel n acc,
  n < 10 ^ N.of_nat fuel -> fuel <> O ->
  digits_val (dec_go fuel n acc) 0 = digits_val acc n.
Proof.
  induction fuel as [|f IH]; intros n acc Hn Hf; [contradiction|].
  cbn [dec_go].
  assert (Hd : is_digit (48 + n mod 10) = true) by (apply is_digit_range; lia).
  destruct (N.ltb_spec n 10).
  - cbn [digits_val]. rewrite Hd. f_equal. rewrite N.mod_small by assumption. lia.
  - assert (f <> O).
    { intros ->. cbn in Hn. lia. }
    rewrite IH; [| |assumption].
    + cbn [digits_val]. rewrite Hd. f_equal. lia.
    + rewrite Nat2N.inj_succ, N.pow_succ_r' in Hn. lia.
Qed.

Theorem digits_val_dec : forall n, digits_val (dec n) 0 = Some n.
Proof.
  intros n. unfold dec. rewrite dec_go_val; [reflexivity| |discriminate].
  rewrite Nat2N.inj_succ, N2Nat.id, N.pow_succ_r'.
  destruct (N.eq_dec n 0) as [->|Hne]; [reflexivity|].
  assert (n < 2 ^ N.size n) by apply N.size_gt.
  assert (2 ^ N.size n <= 10 ^ N.size n) by (apply N.pow_le_mono_l; lia). lia.
Qed.

(** what follows a number in a node line: nothing, or a space/tab *)
Definition sep_tail (tl : list byte) : Prop := tl = [] \/ exists c r, tl = c :: r /\ is_sp c = true.

Lemma parse_unsigned_digits : forall limit s acc v tl,
  digits_val s acc = Some v -> v < limit -> sep_tail tl ->
  forall num, (s <> [] \/ num = true) ->
  parse_unsigned_go limit (s ++ tl) acc num = Ok (tl, v).
Proof.
  induction s as [|c s IH]; intros acc v tl Hv Hlim Htl num Hnum.
  - cbn in Hv. inversion Hv; subst. destruct Hnum as [H | ->]; [contradiction|].
    destruct Htl as [-> | (c & r & -> & Hc)]; cbn [app parse_unsigned_go]; [reflexivity|].
    assert (is_digit c = false).
    { destruct (is_digit c) eqn:E; [|reflexivity]. apply digit_not_sp in E. destruct E. congruence. }
    rewrite H, Hc. reflexivity.
  - cbn in Hv. destruct (is_digit c) eqn:E; [|discriminate].
    cbn [app parse_unsigned_go]. rewrite E.
    pose proof (digits_val_ge _ _ _ Hv).
    destruct (N.leb_spec limit (acc * 10 + (c - 48))); [lia|].
    apply IH; try assumption. right. reflexivity.
Qed.

Theorem parse_usize_dec : forall n tl, n < usize_limit -> sep_tail tl ->
  parse_usize (dec n ++ tl) = Ok (tl, n).
Proof.
  intros n tl Hn Htl. unfold parse_usize.
  apply parse_unsigned_digits; try assumption.
  - apply digits_val_dec.
  - left. apply dec_nonempty.
Qed.

Theorem parse_u32_dec : forall n, n < 4294967296 -> parse_u32 (dec n) = Ok ([], n).
Proof.
  intros n Hn. unfold parse_u32. rewrite <- (app_nil_r (dec n)).
  apply parse_unsigned_digits; try assumption.
  - apply digits_val_dec.
  - left. reflexivity.
  - left. apply dec_nonempty.
Qed.

Lemma trim_start_digit s : (exists c r, s = c :: r /\ is_sp c = false) -> trim_start s = s.
Proof. intros (c & r & -> & H). cbn. rewrite H. reflexivity. Qed.

Lemma dec_head n : exists c r, dec n = c :: r /\ is_digit c = true.
Proof.
  pose proof (dec_digits n) as H. pose proof (dec_nonempty n) as Hne.
  destruct (dec n) as [|c r]; [contradiction|]. inversion H; subst. eauto.
Qed.

Lemma split_sp_token : forall tok rest,
  Forall (fun b => is_sp b = false) tok ->
  split_sp (tok ++ 32 :: rest) = Some (tok, rest).
Proof.
  induction tok as [|c tok IH]; intros rest H; cbn [app split_sp].
  - reflexivity.
  - inversion H; subst. rewrite H2, IH by assumption. reflexivity.
Qed.

Lemma digits_no_sp s : digits s -> Forall (fun b => is_sp b = false) s.
Proof. intros H. eapply Forall_impl; [|exact H]. cbn. intros b Hb. apply digit_not_sp. exact Hb. Qed.
