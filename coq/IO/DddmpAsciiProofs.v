(** * C15 proofs, ASCII node lines: the importer model reads back the exporter model's lines *)
From Coq Require Import String Ascii.
From Coq Require Import List NArith ZArith Bool Arith Lia.
From OxiVerif Require Import IO.Dddmp IO.DddmpProofs.
Import ListNotations.
Open Scope N_scope.

Ltac Zify.zify_post_hook ::= Z.to_euclidean_division_equations.

Arguments N.add : simpl never.
Arguments N.sub : simpl never.
Arguments N.mul : simpl never.
Arguments N.div : simpl never.
Arguments N.modulo : simpl never.
Arguments N.pow : simpl never.

(** ** decimal printing and parsing *)

Definition digits (s : list byte) : Prop := Forall (fun b => is_digit b = true) s.

Lemma is_digit_range b : is_digit b = true <-> 48 <= b /\ b <= 57.
Proof.
  unfold is_digit. rewrite andb_true_iff, !N.leb_le. reflexivity.
Qed.

Lemma digit_not_sp b : is_digit b = true -> is_sp b = false /\ b <> 10 /\ b <> 13 /\ b <> 45.
Proof.
  intros H. apply is_digit_range in H. unfold is_sp.
  destruct (N.eqb_spec b 32); [lia|]. destruct (N.eqb_spec b 9); [lia|]. repeat split; lia.
Qed.

Lemma dec_digits n : digits (dec n).
Proof. unfold digits, dec. apply dec_go_digits. constructor. Qed.

Lemma dec_nonempty n : dec n <> [].
Proof. apply dec_clean. Qed.

Lemma digits_val_ge : forall s a v, digits_val s a = Some v -> a <= v.
Proof.
  induction s as [|c s IH]; intros a v H; cbn in H.
  - inversion H; lia.
  - destruct (is_digit c) eqn:E; [|discriminate]. apply IH in H.
    apply is_digit_range in E. lia.
Qed.

Lemma digits_val_digits : forall s a v, digits_val s a = Some v -> digits s.
Proof.
  induction s as [|c s IH]; intros a v H; cbn in H; [constructor|].
  destruct (is_digit c) eqn:E; [|discriminate]. constructor; [exact E|]. eapply IH; exact H.
Qed.

Lemma dec_go_val : forall fuel n acc,
  n < 10 ^ N.of_nat fuel -> fuel <> O ->
  digits_val (dec_go fuel n acc) 0 = digits_val acc n.
Proof.
  induction fuel as [|f IH]; intros n acc Hn Hf; [contradiction|].
  cbn [dec_go].
  assert (Hd : is_digit (48 + n mod 10) = true) by (apply is_digit_range; lia).
  destruct (N.ltb_spec n 10).
  - cbn [digits_val]. rewrite Hd. f_equal. rewrite N.mod_small by assumption. lia.
  - assert (f <> O).
    { intros ->. cbn in Hn. lia. }
    rewrite IH; [| |assumption].
    + cbn [digits_val]. rewrite Hd. f_equal. lia.
    + rewrite Nat2N.inj_succ, N.pow_succ_r' in Hn. lia.
Qed.

Theorem digits_val_dec : forall n, digits_val (dec n) 0 = Some n.
Proof.
  intros n. unfold dec. rewrite dec_go_val; [reflexivity| |discriminate].
  rewrite Nat2N.inj_succ, N2Nat.id, N.pow_succ_r'.
  destruct (N.eq_dec n 0) as [->|Hne]; [reflexivity|].
  assert (n < 2 ^ N.size n) by apply N.size_gt.
  assert (2 ^ N.size n <= 10 ^ N.size n) by (apply N.pow_le_mono_l; lia). lia.
Qed.

(** what follows a number in a node line: nothing, or a space/tab *)
Definition sep_tail (tl : list byte) : Prop := tl = [] \/ exists c r, tl = c :: r /\ is_sp c = true.

Lemma parse_unsigned_digits : forall limit s acc v tl,
  digits_val s acc = Some v -> v < limit -> sep_tail tl ->
  forall num, (s <> [] \/ num = true) ->
  parse_unsigned_go limit (s ++ tl) acc num = Ok (tl, v).
Proof.
  induction s as [|c s IH]; intros acc v tl Hv Hlim Htl num Hnum.
  - cbn in Hv. inversion Hv; subst. destruct Hnum as [H | ->]; [contradiction|].
    destruct Htl as [-> | (c & r & -> & Hc)]; cbn [app parse_unsigned_go]; [reflexivity|].
    assert (is_digit c = false).
    { destruct (is_digit c) eqn:E; [|reflexivity]. apply digit_not_sp in E. destruct E. congruence. }
    rewrite H, Hc. reflexivity.
  - cbn in Hv. destruct (is_digit c) eqn:E; [|discriminate].
    cbn [app parse_unsigned_go]. rewrite E.
    pose proof (digits_val_ge _ _ _ Hv).
    destruct (N.leb_spec limit (acc * 10 + (c - 48))); [lia|].
    apply IH; try assumption. right. reflexivity.
Qed.

Theorem parse_usize_dec : forall n tl, n < usize_limit -> sep_tail tl ->
  parse_usize (dec n ++ tl) = Ok (tl, n).
Proof.
  intros n tl Hn Htl. unfold parse_usize.
  apply parse_unsigned_digits; try assumption.
  - apply digits_val_dec.
  - left. apply dec_nonempty.
Qed.

Theorem parse_u32_dec : forall n, n < 4294967296 -> parse_u32 (dec n) = Ok ([], n).
Proof.
  intros n Hn. unfold parse_u32. rewrite <- (app_nil_r (dec n)).
  apply parse_unsigned_digits; try assumption.
  - apply digits_val_dec.
  - left. reflexivity.
  - left. apply dec_nonempty.
Qed.

Lemma trim_start_digit s : (exists c r, s = c :: r /\ is_sp c = false) -> trim_start s = s.
Proof. intros (c & r & -> & H). cbn. rewrite H. reflexivity. Qed.

Lemma dec_head n : exists c r, dec n = c :: r /\ is_digit c = true.
Proof.
  pose proof (dec_digits n) as H. pose proof (dec_nonempty n) as Hne.
  destruct (dec n) as [|c r]; [contradiction|]. inversion H; subst. eauto.
Qed.

Lemma split_sp_token : forall tok rest,
  Forall (fun b => is_sp b = false) tok ->
  split_sp (tok ++ 32 :: rest) = Some (tok, rest).
Proof.
  induction tok as [|c tok IH]; intros rest H; cbn [app split_sp].
  - reflexivity.
  - inversion H; subst. rewrite H2, IH by assumption. reflexivity.
Qed.

Lemma digits_no_sp s : digits s -> Forall (fun b => is_sp b = false) s.
Proof. intros H. eapply Forall_impl; [|exact H]. cbn. intros b Hb. apply digit_not_sp. exact Hb. Qed.

(** ** edge lists *)

Definition sgn (negative : bool) (v : N) : Z := if negative then Z.opp (Z.of_N v) else Z.of_N v.

Lemma pel_digits_sp : forall ds i v negative num acc tl,
  digits_val ds i = Some v -> v <= isize_max -> (ds <> [] \/ num = true) ->
  parse_edge_list_go (ds ++ 32 :: tl) i negative num acc =
  parse_edge_list_go tl 0 false false (acc ++ [sgn negative v]).
Proof.
  induction ds as [|c ds IH]; intros i v negative num acc tl Hv Hlim Hnum.
  - cbn in Hv. inversion Hv; subst. destruct Hnum as [H | ->]; [contradiction|].
    cbn [app parse_edge_list_go]. cbn [is_digit N.leb N.compare andb]. 
    change (is_digit 32) with false. change (32 =? 45) with false. change (is_sp 32) with true.
    cbv iota. reflexivity.
  - cbn in Hv. destruct (is_digit c) eqn:E; [|discriminate].
    cbn [app parse_edge_list_go]. rewrite E.
    pose proof (digits_val_ge _ _ _ Hv).
    destruct (N.ltb_spec isize_max (i * 10 + (c - 48))); [lia|].
    apply IH; try assumption. right. reflexivity.
Qed.

Lemma pel_digits_end : forall ds i v negative num acc,
  digits_val ds i = Some v -> v <= isize_max -> (ds <> [] \/ num = true) ->
  parse_edge_list_go ds i negative num acc = Ok (acc ++ [sgn negative v]).
Proof.
  induction ds as [|c ds IH]; intros i v negative num acc Hv Hlim Hnum.
  - cbn in Hv. inversion Hv; subst. destruct Hnum as [H | ->]; [contradiction|]. reflexivity.
  - cbn in Hv. destruct (is_digit c) eqn:E; [|discriminate].
    cbn [parse_edge_list_go]. rewrite E.
    pose proof (digits_val_ge _ _ _ Hv).
    destruct (N.ltb_spec isize_max (i * 10 + (c - 48))); [lia|].
    apply IH; try assumption. right. reflexivity.
Qed.

Lemma sgn_abs z : sgn (z <? 0)%Z (Z.abs_N z) = z.
Proof. unfold sgn. destruct (Z.ltb_spec z 0); lia. Qed.

Lemma pel_dec_z_sp : forall z acc tl, Z.abs_N z <= isize_max ->
  parse_edge_list_go (dec_z z ++ 32 :: tl) 0 false false acc =
  parse_edge_list_go tl 0 false false (acc ++ [z]).
Proof.
  intros z acc tl Hz. unfold dec_z. destruct (Z.ltb_spec z 0).
  - cbn [app parse_edge_list_go]. change (is_digit 45) with false. change (45 =? 45) with true. cbv iota.
    rewrite (pel_digits_sp _ 0 (Z.abs_N z)); [|apply digits_val_dec|assumption|left; apply dec_nonempty].
    unfold sgn. do 3 f_equal. lia.
  - rewrite (pel_digits_sp _ 0 (Z.abs_N z)); [|apply digits_val_dec|assumption|left; apply dec_nonempty].
    unfold sgn. do 3 f_equal. lia.
Qed.

Lemma pel_dec_z_end : forall z acc, Z.abs_N z <= isize_max ->
  parse_edge_list_go (dec_z z) 0 false false acc = Ok (acc ++ [z]).
Proof.
  intros z acc Hz. unfold dec_z. destruct (Z.ltb_spec z 0).
  - cbn [parse_edge_list_go]. change (is_digit 45) with false. change (45 =? 45) with true. cbv iota.
    rewrite (pel_digits_end _ 0 (Z.abs_N z)); [|apply digits_val_dec|assumption|left; apply dec_nonempty].
    unfold sgn. do 3 f_equal. lia.
  - rewrite (pel_digits_end _ 0 (Z.abs_N z)); [|apply digits_val_dec|assumption|left; apply dec_nonempty].
    unfold sgn. do 3 f_equal. lia.
Qed.

Theorem parse_edge_list_two : forall t e,
  Z.abs_N t <= isize_max -> Z.abs_N e <= isize_max ->
  parse_edge_list (dec_z t ++ [32] ++ dec_z e) = Ok [t; e].
Proof.
  intros t e Ht He. unfold parse_edge_list. cbn [app].
  rewrite pel_dec_z_sp by assumption. rewrite pel_dec_z_end by assumption. reflexivity.
Qed.

Lemma parse_edge_list_zeros : parse_edge_list [48; 32; 48] = Ok [0; 0]%Z.
Proof. reflexivity. Qed.

(** ** lines *)

Definition no_nl (s : list byte) : Prop := Forall (fun b => b <> 10) s.

Lemma take_line_nl : forall line rest, no_nl line ->
  take_line (line ++ 10 :: rest) = (line ++ [10], rest).
Proof.
  induction line as [|c line IH]; intros rest H; cbn [app take_line].
  - reflexivity.
  - inversion H; subst. destruct (N.eqb_spec c 10); [contradiction|].
    rewrite IH by assumption. reflexivity.
Qed.

Theorem read_line_nl : forall body lastc rest,
  no_nl (body ++ [lastc]) -> lastc <> 13 ->
  read_line ((body ++ [lastc]) ++ 10 :: rest) = Ok (body ++ [lastc], rest).
Proof.
  intros body lastc rest Hnl H13. unfold read_line.
  destruct ((body ++ [lastc]) ++ 10 :: rest) eqn:E.
  - destruct body; discriminate.
  - rewrite <- E. rewrite take_line_nl by assumption.
    rewrite rev_app_distr. cbn [rev app strip_eol_rev]. change (10 =? 10) with true. cbn [orb].
    rewrite rev_app_distr. cbn [rev app strip_eol_rev].
    assert (lastc <> 10) by (apply Forall_app in Hnl; destruct Hnl as [_ Hl]; inversion Hl; assumption).
    destruct (N.eqb_spec lastc 10); [contradiction|]. destruct (N.eqb_spec lastc 13); [contradiction|].
    cbn [orb]. change (lastc :: rev body) with ([lastc] ++ rev body).
    rewrite rev_app_distr, rev_involutive. reflexivity.
Qed.

Lemma digits_no_nl s : digits s -> no_nl s.
Proof. intros H. eapply Forall_impl; [|exact H]. cbn. intros b Hb. apply digit_not_sp in Hb. tauto. Qed.

Lemma dec_z_no_nl z : no_nl (dec_z z).
Proof.
  unfold dec_z. destruct (z <? 0)%Z; [constructor; [discriminate|]|]; apply digits_no_nl, dec_digits.
Qed.

Lemma dec_z_last z : exists body lastc, dec_z z = body ++ [lastc] /\ is_digit lastc = true.
Proof.
  assert (H : forall s, digits s -> s <> [] -> exists body lastc, s = body ++ [lastc] /\ is_digit lastc = true).
  { intros s Hd Hne. destruct (exists_last Hne) as (body & lastc & ->).
    exists body, lastc. split; [reflexivity|]. apply Forall_app in Hd. destruct Hd as [_ Hl]. inversion Hl; assumption. }
  unfold dec_z. destruct (H (dec (Z.abs_N z)) (dec_digits _) (dec_nonempty _)) as (body & lastc & E & Hl).
  destruct (z <? 0)%Z.
  - exists (45 :: body), lastc. rewrite E. split; [reflexivity|assumption].
  - exists body, lastc. split; assumption.
Qed.

Lemma no_nl_app a b : no_nl a -> no_nl b -> no_nl (a ++ b).
Proof. intros. apply Forall_app. split; assumption. Qed.

Lemma no_nl_one c : c <> 10 -> no_nl [c].
Proof. intros. constructor; [assumption|constructor]. Qed.

Lemma no_nl_dec n : no_nl (dec n).
Proof. apply digits_no_nl, dec_digits. Qed.

Lemma no_nl_cons c r : c <> 10 -> no_nl r -> no_nl (c :: r).
Proof. intros. constructor; assumption. Qed.

Lemma no_nl_nil : no_nl [].
Proof. constructor. Qed.

Ltac solve_no_nl :=
  repeat first [ apply no_nl_nil | apply no_nl_dec | apply dec_z_no_nl | assumption
               | apply no_nl_app | apply no_nl_cons; [discriminate|] ].

(** the text of an inner node line without its line break *)
Definition inner_text (id v : N) (t e : Z) : list byte :=
  dec id ++ [32] ++ dec v ++ [32] ++ dec_z t ++ [32] ++ dec_z e.
Definition term_text (id : N) (desc : list byte) : list byte :=
  dec id ++ [32] ++ desc ++ [32; 48; 32; 48].

Lemma export_ascii_line_inner id v t e :
  export_ascii_line id (AInner v t e) = inner_text id v t e ++ [10].
Proof. unfold export_ascii_line, inner_text. rewrite <- !app_assoc. reflexivity. Qed.

Lemma export_ascii_line_term id desc :
  export_ascii_line id (ATerm desc) = term_text id desc ++ [10].
Proof. unfold export_ascii_line, term_text. rewrite <- !app_assoc. reflexivity. Qed.

Lemma read_line_inner id v t e rest :
  read_line ((inner_text id v t e ++ [10]) ++ rest) = Ok (inner_text id v t e, rest).
Proof.
  destruct (dec_z_last e) as (body & lastc & E & Hl).
  unfold inner_text. rewrite E.
  replace (dec id ++ [32] ++ dec v ++ [32] ++ dec_z t ++ [32] ++ body ++ [lastc])
    with ((dec id ++ [32] ++ dec v ++ [32] ++ dec_z t ++ [32] ++ body) ++ [lastc])
    by (rewrite <- !app_assoc; reflexivity).
  rewrite <- app_assoc. cbn [app].
  apply read_line_nl.
  - assert (Hz : no_nl (body ++ [lastc])) by (rewrite <- E; apply dec_z_no_nl).
    apply Forall_app in Hz. destruct Hz as [Hz1 Hz2].
    solve_no_nl.
  - apply digit_not_sp in Hl. tauto.
Qed.

Lemma read_line_term id desc rest : no_nl desc ->
  read_line ((term_text id desc ++ [10]) ++ rest) = Ok (term_text id desc, rest).
Proof.
  intros Hd. unfold term_text.
  replace (dec id ++ [32] ++ desc ++ [32; 48; 32; 48])
    with ((dec id ++ [32] ++ desc ++ [32; 48; 32]) ++ [48])
    by (rewrite <- !app_assoc; reflexivity).
  rewrite <- app_assoc. cbn [app].
  apply read_line_nl; [|discriminate].
  solve_no_nl.
Qed.

Lemma read_line_term2 id desc mid rest : no_nl desc ->
  read_line (((term_text id desc ++ [10]) ++ mid) ++ rest) = Ok (term_text id desc, mid ++ rest).
Proof. intros H. rewrite <- app_assoc. apply read_line_term. exact H. Qed.

Lemma read_line_inner2 id v t e mid rest :
  read_line (((inner_text id v t e ++ [10]) ++ mid) ++ rest) = Ok (inner_text id v t e, mid ++ rest).
Proof. rewrite <- app_assoc. apply read_line_inner. Qed.

(** ** one line *)

Definition token (tok : list byte) : Prop := tok <> [] /\ Forall (fun b => is_sp b = false) tok.

Lemma token_dec n : token (dec n).
Proof. split; [apply dec_nonempty|apply digits_no_sp, dec_digits]. Qed.

Lemma trim_start_token tok x : token tok -> trim_start (tok ++ x) = tok ++ x.
Proof.
  intros [Hne Hf]. destruct tok as [|c r]; [contradiction|]. inversion Hf; subst.
  cbn [app trim_start]. rewrite H1. reflexivity.
Qed.

Lemma trim_start_sp_token tok x : token tok -> trim_start (32 :: tok ++ x) = tok ++ x.
Proof. intros H. cbn [trim_start]. change (is_sp 32) with true. cbv iota. apply trim_start_token. exact H. Qed.

(** the common beginning of both kinds of lines: node ID, then a token *)
Lemma line_head : forall id tok tail, id < usize_limit -> token tok ->
  parse_usize (dec id ++ [32] ++ tok ++ 32 :: tail) = Ok (32 :: tok ++ 32 :: tail, id).
Proof.
  intros id tok tail Hid Htok. apply parse_usize_dec; [assumption|].
  right. exists 32, (tok ++ 32 :: tail). split; reflexivity.
Qed.

Theorem import_ascii_line_term : forall k slm st id desc e,
  id < usize_limit -> token desc -> parse_terminal k desc = Some e ->
  import_ascii_line k true slm st id (term_text id desc) = Ok (mkS (st_store st) (st_nodes st ++ [e])).
Proof.
  intros k slm st id desc e Hid Htok Hp. unfold import_ascii_line, term_text.
  change (desc ++ [32; 48; 32; 48]) with (desc ++ 32 :: [48; 32; 48]).
  rewrite line_head by assumption. cbn [bind]. rewrite N.eqb_refl. cbn [negb].
  rewrite trim_start_sp_token by assumption. cbn [bind].
  rewrite trim_start_token by assumption.
  rewrite split_sp_token by apply Htok.
  rewrite parse_edge_list_zeros. cbn [bind]. cbn [Z.eqb orb].
  rewrite Hp. reflexivity.
Qed.

(** ** diagrams as the ASCII exporter numbers them

    The terminals come first (node IDs [1..T], their edges are [tedges]), then the inner
    nodes bottom-up; entry [j] of [l] has node ID [T + 1 + j].  References are signed. *)
Record ainode := mkA { av : N; at_ : Z; ae : Z }.

Section AsciiDag.
Variable k : kind.
Variable slm : list N.
Variable tedges : list cedge.
Let T := N.of_nat (length tedges).

Definition aref (id : N) : cedge :=
  if id <=? T then nth (N.to_nat (id - 1)) tedges (mkE (RTerm TNaN) false)
  else mkE (RNode (id - T - 1)) false.

Definition sref (z : Z) : cedge :=
  if (z <? 0)%Z then neg (aref (Z.abs_N z)) else aref (Z.abs_N z).

Definition acn (nd : ainode) : cnode := mkN (lvl slm (av nd)) (sref (at_ nd)) (sref (ae nd)).

Definition anodes_upto (j : nat) : list cedge :=
  tedges ++ map (fun i => mkE (RNode (N.of_nat i)) false) (seq 0 j).

Definition astate (l : list ainode) (j : nat) : ist := mkS (map acn (firstn j l)) (anodes_upto j).

Definition achild_ok (l : list ainode) (j : nat) (v : N) (c : Z) : Prop :=
  c <> 0%Z /\ Z.abs_N c < T + 1 + N.of_nat j /\
  (T < Z.abs_N c -> exists nd', nth_error l (N.to_nat (Z.abs_N c - T - 1)) = Some nd' /\ v < av nd') /\
  ((c < 0)%Z -> k = KBCDD).

(** the reduction rule of the kind does not fire and does not normalise *)
Definition norm_free (t e : cedge) : Prop :=
  match k with
  | KBCDD => t <> e /\ ce_tag t = false
  | KZBDD => ce_ref t <> RTerm (TNum 0)
  | KBDD | KMTBDD => t <> e
  end.

Definition awf_at (l : list ainode) (j : nat) (nd : ainode) : Prop :=
  av nd < N.of_nat (length slm) /\ achild_ok l j (av nd) (at_ nd) /\ achild_ok l j (av nd) (ae nd) /\
  norm_free (sref (at_ nd)) (sref (ae nd)).

Definition awf_dag (l : list ainode) : Prop :=
  NoDup (map acn l) /\ forall j nd, nth_error l j = Some nd -> awf_at l j nd.

Hypothesis tedges_terminal : Forall (fun e => exists v, ce_ref e = RTerm v) tedges.
Hypothesis slm_incr : incr slm.
Hypothesis slm_max : Forall (fun x => x < level_max) slm.

Lemma anodes_upto_S j : anodes_upto (S j) = anodes_upto j ++ [mkE (RNode (N.of_nat j)) false].
Proof. unfold anodes_upto. rewrite seq_S, map_app, app_assoc. reflexivity. Qed.

Lemma nth_error_anodes j id : 1 <= id -> id < T + 1 + N.of_nat j ->
  nth_error (anodes_upto j) (N.to_nat (id - 1)) = Some (aref id).
Proof.
  intros H1 H2. unfold anodes_upto, aref. destruct (N.leb_spec id T).
  - rewrite nth_error_app1 by (subst T; lia). apply nth_error_nth'. subst T. lia.
  - rewrite nth_error_app2 by (subst T; lia).
    replace (N.to_nat (id - 1) - length tedges)%nat with (N.to_nat (id - T - 1)) by (subst T; lia).
    rewrite nth_error_map.
    rewrite nth_error_nth' with (d := O) by (rewrite seq_length; lia).
    rewrite seq_nth by lia. cbn. rewrite N2Nat.id. reflexivity.
Qed.

Lemma aref_level l j id : 1 <= id -> id < T + 1 + N.of_nat j -> (j <= length l)%nat ->
  edge_level (st_store (astate l j)) (aref id) =
  if id <=? T then level_max
  else match nth_error l (N.to_nat (id - T - 1)) with Some nd' => lvl slm (av nd') | None => level_max end.
Proof.
  intros H1 H2 Hj. unfold aref, edge_level. destruct (N.leb_spec id T).
  - assert (Hin : In (nth (N.to_nat (id - 1)) tedges (mkE (RTerm TNaN) false)) tedges)
      by (apply nth_In; subst T; lia).
    rewrite Forall_forall in tedges_terminal. destruct (tedges_terminal _ Hin) as [v ->]. reflexivity.
  - cbn [ce_ref]. unfold astate. cbn [st_store].
    rewrite nth_error_map, nth_error_firstn by lia.
    destruct (nth_error l (N.to_nat (id - T - 1))); reflexivity.
Qed.

Lemma mk_node_norm_free store level t e :
  norm_free t e -> (forall x, In x store -> x <> mkN level t e) ->
  mk_node k store level t e = (store ++ [mkN level t e], mkE (RNode (N.of_nat (length store))) false).
Proof.
  unfold norm_free, mk_node. intros Hn Hnew.
  assert (Hne : t <> e -> cedge_eqb t e = false).
  { intros H. destruct (cedge_eqb t e) eqn:E; [|reflexivity]. apply cedge_eqb_eq in E. contradiction. }
  destruct k.
  - rewrite Hne, find_or_add_fresh by assumption. reflexivity.
  - destruct Hn as [Hn Htag]. rewrite Hne, Htag, find_or_add_fresh by assumption. reflexivity.
  - assert (cref_eqb (ce_ref t) (RTerm (TNum 0)) = false).
    { destruct (cref_eqb (ce_ref t) (RTerm (TNum 0))) eqn:E; [|reflexivity]. apply cref_eqb_eq in E. contradiction. }
    rewrite H, find_or_add_fresh by assumption. reflexivity.
  - rewrite Hne, find_or_add_fresh by assumption. reflexivity.
Qed.

(** checks and edge of one child reference *)
Lemma achild_steps l j v c store : (j <= length l)%nat ->
  (forall j nd, nth_error l j = Some nd -> awf_at l j nd) ->
  v < N.of_nat (length slm) ->
  achild_ok l j v c ->
  ascii_child_check (astate l j) (T + 1 + N.of_nat j) (lvl slm v) c = Ok (aref (Z.abs_N c)) /\
  ascii_child_edge k store (aref (Z.abs_N c)) c = Ok (store, sref c).
Proof.
  intros Hj Hwf Hv (Hc0 & Hc1 & Hc2 & Hc3).
  assert (H1 : 1 <= Z.abs_N c) by lia.
  split.
  - unfold ascii_child_check, node_at.
    destruct (N.leb_spec (T + 1 + N.of_nat j) (Z.abs_N c)); [lia|].
    unfold astate at 1. cbn [st_nodes].
    rewrite nth_error_anodes by assumption. cbn [bind].
    rewrite aref_level by assumption.
    destruct (N.leb_spec (Z.abs_N c) T).
    + pose proof (lvl_lt_max slm v slm_max Hv). destruct (N.leb_spec level_max (lvl slm v)); [lia|reflexivity].
    + destruct (Hc2 ltac:(assumption)) as (nd' & Hn & Hlt). rewrite Hn.
      assert (av nd' < N.of_nat (length slm)) by (apply (Hwf _ _ Hn)).
      pose proof (lvl_lt slm _ _ slm_incr Hlt ltac:(assumption)).
      destruct (N.leb_spec (lvl slm (av nd')) (lvl slm v)); [lia|reflexivity].
  - unfold ascii_child_edge, sref. destruct (Z.ltb_spec c 0); [|reflexivity].
    rewrite (Hc3 ltac:(assumption)). reflexivity.
Qed.

Theorem import_ascii_line_inner : forall l j nd,
  awf_dag l -> nth_error l j = Some nd ->
  T + 1 + N.of_nat j <= isize_max -> N.of_nat (length slm) <= 4294967296 ->
  import_ascii_line k true slm (astate l j) (T + 1 + N.of_nat j)
                    (inner_text (T + 1 + N.of_nat j) (av nd) (at_ nd) (ae nd))
  = Ok (astate l (S j)).
Proof.
  intros l j nd [Hnodup Hwf] Hn Hid Hns.
  destruct (Hwf j nd Hn) as (Hv & Hct & Hce & Hnf).
  assert (Hj : (j < length l)%nat) by (apply nth_error_Some; congruence).
  assert (Hidu : T + 1 + N.of_nat j < usize_limit) by (unfold isize_max, usize_limit in *; lia).
  unfold import_ascii_line, inner_text.
  change ([32] ++ dec (av nd) ++ [32] ++ dec_z (at_ nd) ++ [32] ++ dec_z (ae nd))
    with ([32] ++ dec (av nd) ++ 32 :: (dec_z (at_ nd) ++ [32] ++ dec_z (ae nd))).
  rewrite line_head by (try assumption; apply token_dec). cbn [bind]. rewrite N.eqb_refl. cbn [negb].
  rewrite trim_start_sp_token by apply token_dec. cbn [bind].
  rewrite trim_start_token by apply token_dec.
  rewrite split_sp_token by apply token_dec.
  pose proof Hct as (Ht0 & Ht1 & _). pose proof Hce as (He0 & He1 & _).
  rewrite parse_edge_list_two by lia. cbn [bind].
  destruct (Z.eqb_spec (at_ nd) 0); [contradiction|]. destruct (Z.eqb_spec (ae nd) 0); [contradiction|].
  cbn [orb].
  rewrite parse_u32_dec by lia. cbn [bind].
  rewrite lvl_nth_error by assumption.
  destruct (achild_steps l j (av nd) (at_ nd) (st_store (astate l j)) ltac:(lia) Hwf Hv Hct) as [Hc1 Hd1].
  destruct (achild_steps l j (av nd) (ae nd) (st_store (astate l j)) ltac:(lia) Hwf Hv Hce) as [Hc2 Hd2].
  rewrite Hc1. cbn [bind]. rewrite Hc2. cbn [bind]. rewrite Hd1. cbn [bind]. rewrite Hd2. cbn [bind].
  rewrite mk_node_norm_free.
  - unfold astate. cbn [st_store st_nodes].
    rewrite map_length, firstn_length, Nat.min_l by lia.
    rewrite (firstn_snoc l j nd Hn), map_app, anodes_upto_S. reflexivity.
  - exact Hnf.
  - intros x Hx Heq. unfold astate in Hx. cbn [st_store] in Hx.
    apply In_nth_error in Hx. destruct Hx as (i & Hi).
    assert (Hij : (i < j)%nat).
    { assert (Hl : (i < length (map acn (firstn j l)))%nat) by (apply nth_error_Some; congruence).
      rewrite map_length, firstn_length in Hl. lia. }
    rewrite <- (firstn_skipn j l) in Hnodup. rewrite map_app in Hnodup.
    rewrite (skipn_nth l j nd Hn) in Hnodup. cbn [map] in Hnodup.
    apply NoDup_remove_2 in Hnodup. apply Hnodup. apply in_or_app. left.
    change (acn nd) with (mkN (lvl slm (av nd)) (sref (at_ nd)) (sref (ae nd))). rewrite <- Heq.
    eapply nth_error_In. exact Hi.
Qed.

End AsciiDag.

(** ** the whole ASCII node section *)

Definition ainner (nd : ainode) : anode := AInner (av nd) (at_ nd) (ae nd).

Lemma import_ascii_loop_app : forall k vin slm n1 n2 id st inp,
  import_ascii_loop k vin slm (n1 + n2) id st inp =
  bind (import_ascii_loop k vin slm n1 id st inp)
       (fun r => import_ascii_loop k vin slm n2 (id + N.of_nat n1) (fst r) (snd r)).
Proof.
  induction n1 as [|n1 IH]; intros n2 id st inp.
  - cbn [Nat.add import_ascii_loop bind fst snd]. f_equal. lia.
  - cbn [Nat.add import_ascii_loop].
    destruct (read_line inp) as [[line inp']|]; cbn [bind]; [|reflexivity].
    destruct (import_ascii_line k vin slm st id line); cbn [bind]; [|reflexivity].
    rewrite IH. replace (id + 1 + N.of_nat n1) with (id + N.of_nat (S n1)) by lia. reflexivity.
Qed.

Lemma export_ascii_from_app : forall a b id,
  export_ascii_from id (a ++ b) = export_ascii_from id a ++ export_ascii_from (id + N.of_nat (length a)) b.
Proof.
  induction a as [|x a IH]; intros b id.
  - cbn. f_equal. lia.
  - cbn [app export_ascii_from length]. rewrite IH, <- app_assoc. do 3 f_equal. lia.
Qed.

(** description and edge of every terminal *)
Definition terms_ok (k : kind) (descs : list (list byte)) (tedges : list cedge) : Prop :=
  Forall2 (fun d e => token d /\ no_nl d /\ parse_terminal k d = Some e) descs tedges.

Lemma Forall2_nth_error {A B} (R : A -> B -> Prop) la lb i a :
  Forall2 R la lb -> nth_error la i = Some a -> exists b, nth_error lb i = Some b /\ R a b.
Proof.
  intros H. revert i. induction H as [|x y la lb Hxy _ IH]; intros [|i] Hi; cbn in *; try discriminate.
  - inversion Hi; subst. eauto.
  - apply IH. exact Hi.
Qed.

Lemma Forall2_len {A B} (R : A -> B -> Prop) la lb : Forall2 R la lb -> length la = length lb.
Proof. induction 1; cbn; congruence. Qed.

Lemma ascii_loop_terms : forall k slm descs tedges rest,
  terms_ok k descs tedges -> N.of_nat (length descs) < usize_limit ->
  forall n i, (i + n = length descs)%nat ->
  import_ascii_loop k true slm n (N.of_nat i + 1) (mkS [] (firstn i tedges))
    (export_ascii_from (N.of_nat i + 1) (map ATerm (skipn i descs)) ++ rest)
  = Ok (mkS [] tedges, rest).
Proof.
  intros k slm descs tedges rest Hok Hlim.
  assert (Hlen : length descs = length tedges) by (eapply Forall2_len; exact Hok).
  induction n as [|n IH]; intros i Hi.
  - assert (i = length descs) by lia. subst i. rewrite skipn_all, Hlen, firstn_all. reflexivity.
  - destruct (nth_error descs i) as [d|] eqn:Hd; [|apply nth_error_None in Hd; lia].
    destruct (Forall2_nth_error _ _ _ _ _ Hok Hd) as (e & He & Htok & Hnl & Hp).
    rewrite (skipn_nth descs i d Hd). cbn [map export_ascii_from import_ascii_loop].
    rewrite export_ascii_line_term.
    rewrite read_line_term2 by assumption. cbn [bind].
    rewrite (import_ascii_line_term k slm _ _ d e) by (try assumption; lia). cbn [bind st_store st_nodes].
    rewrite <- (firstn_snoc tedges i e He).
    replace (N.of_nat i + 1 + 1) with (N.of_nat (S i) + 1) by lia.
    apply IH. lia.
Qed.

Lemma ascii_loop_inner : forall k slm tedges l rest,
  Forall (fun e => exists v, ce_ref e = RTerm v) tedges -> incr slm -> Forall (fun x => x < level_max) slm ->
  awf_dag k slm tedges l ->
  N.of_nat (length tedges) + 1 + N.of_nat (length l) <= isize_max ->
  N.of_nat (length slm) <= 4294967296 ->
  forall n j, (j + n = length l)%nat ->
  import_ascii_loop k true slm n (N.of_nat (length tedges) + 1 + N.of_nat j) (astate slm tedges l j)
    (export_ascii_from (N.of_nat (length tedges) + 1 + N.of_nat j) (map ainner (skipn j l)) ++ rest)
  = Ok (astate slm tedges l (length l), rest).
Proof.
  intros k slm tedges l rest Hterm Hi Hf Hwf Hlim Hns.
  induction n as [|n IH]; intros j Hj.
  - assert (j = length l) by lia. subst j. rewrite skipn_all. reflexivity.
  - destruct (nth_error l j) as [nd|] eqn:Hn; [|apply nth_error_None in Hn; lia].
    rewrite (skipn_nth l j nd Hn). cbn [map export_ascii_from import_ascii_loop].
    unfold ainner at 1. rewrite export_ascii_line_inner.
    rewrite read_line_inner2. cbn [bind].
    rewrite (import_ascii_line_inner k slm tedges Hterm Hi Hf l j nd Hwf Hn) by lia. cbn [bind].
    replace (N.of_nat (length tedges) + 1 + N.of_nat j + 1)
      with (N.of_nat (length tedges) + 1 + N.of_nat (S j)) by lia.
    apply IH. lia.
Qed.

(** The importer reads the exporter's ASCII node section back: the terminals become the
    edges their descriptions parse to, node ID [T + 1 + i] denotes entry [i] of the
    unique table, which holds exactly the exported nodes. *)
Theorem import_export_ascii : forall k slm descs tedges l rest,
  terms_ok k descs tedges ->
  Forall (fun e => exists v, ce_ref e = RTerm v) tedges ->
  incr slm -> Forall (fun x => x < level_max) slm ->
  awf_dag k slm tedges l ->
  N.of_nat (length tedges) + 1 + N.of_nat (length l) <= isize_max ->
  N.of_nat (length slm) <= 4294967296 ->
  import_ascii k true slm (N.of_nat (length descs + length l))
               (export_ascii_nodes (map ATerm descs ++ map ainner l) ++ rest)
  = Ok (astate slm tedges l (length l), rest).
Proof.
  intros k slm descs tedges l rest Hok Hterm Hi Hf Hwf Hlim Hns.
  assert (Hlen : length descs = length tedges) by (eapply Forall2_len; exact Hok).
  unfold import_ascii, export_ascii_nodes. rewrite Nat2N.id.
  rewrite import_ascii_loop_app, export_ascii_from_app, <- app_assoc, map_length.
  pose proof (ascii_loop_terms k slm descs tedges
                (export_ascii_from (1 + N.of_nat (length descs)) (map ainner l) ++ rest) Hok
                ltac:(unfold isize_max, usize_limit in *; lia) (length descs) O eq_refl) as H1.
  cbn [firstn skipn N.of_nat] in H1. change (0 + 1) with 1 in H1.
  unfold empty_state. rewrite H1. cbn [bind fst snd].
  pose proof (ascii_loop_inner k slm tedges l rest Hterm Hi Hf Hwf Hlim Hns (length l) O eq_refl) as H2.
  cbn [skipn] in H2.
  replace (N.of_nat (length tedges) + 1 + N.of_nat 0) with (1 + N.of_nat (length descs)) in H2 by lia.
  unfold astate at 1 in H2. cbn [firstn map] in H2. unfold anodes_upto in H2. cbn [seq map] in H2.
  rewrite app_nil_r in H2. exact H2.
Qed.

(** ** the hypotheses are satisfiable: the BDD of x0 ∧ x1 (terminals F = 1, T = 2) *)

Definition ex_descs : list (list byte) := [[70]; [84]].                       (* "F", "T" *)
Definition ex_tedges : list cedge := [mkE (RTerm (TNum 0)) false; mkE (RTerm (TNum 1)) false].
Definition ex_adag : list ainode := [mkA 1 2 1; mkA 0 3 1].

Example ex_terms_ok : terms_ok KBDD ex_descs ex_tedges.
Proof.
  repeat constructor; try discriminate.
Qed.

Example ex_adag_wf : awf_dag KBDD [0; 1] ex_tedges ex_adag.
Proof.
  split.
  - cbn. repeat constructor; cbn; intuition discriminate.
  - intros j nd H. destruct j as [|[|j]]; cbn in H; inversion H; subst; clear H.
    + unfold awf_at, achild_ok. cbn. repeat split; try lia; try discriminate.
    + unfold awf_at, achild_ok. cbn. repeat split; try lia; try discriminate.
      intros _. exists (mkA 1 2 1). split; [reflexivity|cbn; lia].
    + destruct j; discriminate.
Qed.

Example ex_adag_text :
  export_ascii_nodes (map ATerm ex_descs ++ map ainner ex_adag)
  = bs "1 F 0 0
2 T 0 0
3 1 2 1
4 0 3 1
".
Proof. vm_compute. reflexivity. Qed.

Example ex_adag_roundtrip :
  import_ascii KBDD true [0; 1] 4 (export_ascii_nodes (map ATerm ex_descs ++ map ainner ex_adag) ++ trailer)
  = Ok (astate [0; 1] ex_tedges ex_adag 2, trailer).
Proof. vm_compute. reflexivity. Qed.

(** a ZBDD and an MTBDD with negative numbers and infinities, by computation *)
Example ex_zbdd_roundtrip :
  let descs := [[69]; [66]] in                                               (* "E", "B" *)
  let tedges := [mkE (RTerm (TNum 0)) false; mkE (RTerm (TNum 1)) false] in
  let l := [mkA 1 2 2; mkA 0 3 1] in
  import_ascii KZBDD true [0; 1] 4 (export_ascii_nodes (map ATerm descs ++ map ainner l) ++ trailer)
  = Ok (astate [0; 1] tedges l 2, trailer).
Proof. vm_compute. reflexivity. Qed.

Example ex_mtbdd_roundtrip :
  let descs := [bs "-3"; bs "+Inf"; bs "NaN"] in
  let tedges := [mkE (RTerm (TNum (-3))) false; mkE (RTerm TPlusInf) false; mkE (RTerm TNaN) false] in
  let l := [mkA 2 1 2; mkA 0 4 3] in
  import_ascii KMTBDD true [3; 5; 6] 5 (export_ascii_nodes (map ATerm descs ++ map ainner l) ++ trailer)
  = Ok (astate [3; 5; 6] tedges l 2, trailer).
Proof. vm_compute. reflexivity. Qed.

Example ex_bcdd_ascii_roundtrip :
  let descs := [[84]] in
  let tedges := [mkE (RTerm (TNum 1)) false] in
  let l := [mkA 1 1 (-1); mkA 0 2 (-2)] in
  import_ascii KBCDD true [0; 1] 3 (export_ascii_nodes (map ATerm descs ++ map ainner l) ++ trailer)
  = Ok (astate [0; 1] tedges l 2, trailer).
Proof. vm_compute. reflexivity. Qed.
