(** C15 (package C15h) — executable model of the DDDMP file as a whole:

    - [load_header]   = import.rs [DumpHeader::load] (keywords, numbers, number lists,
                        name lists, "the last entry counts", all cross-field checks),
    - [import_whole]  = [DumpHeader::load] followed by import.rs [import]
                        (the node-section importers of IO/Dddmp.v),
    - [print_header]  = the header part of export.rs [export_common],
    - [export_whole_bin] / [export_whole_ascii] = header + node section + [.end].

    Bytes are [N] (< 256) as in IO/Dddmp.v.  Strings of the Rust side
    ([String::from_utf8_lossy]) are byte lists after [utf8_lossy].  Every definition names
    the Rust code it mirrors.  No proofs in this file. *)
From Coq Require Import String Ascii.
From Coq Require Import List NArith ZArith Bool.
From OxiVerif Require Import IO.Dddmp.
Import ListNotations.
Open Scope N_scope.

(** ** results of the header loader *)

Inductive herr :=
| HEof            (* "unexpected end of file" (no [.nodes] line) *)
| HVersion        (* "unsupported version" *)
| HMode           (* "unknown value .. for key '.mode'" *)
| HVarinfo        (* "unknown value .. for key '.varinfo'" *)
| HKey            (* "unknown key" *)
| HInt            (* "unexpected char .. in integer" / "expected an integer" *)
| HIntLarge       (* "integer .. too large" *)
| HNsupp          (* ".nsuppvars must not be greater than .nvars" *)
| HIdsLen         (* number of entries of .ids <> .nsuppvars *)
| HPermLen        (* number of entries of .permids <> .nsuppvars *)
| HAuxLen         (* number of entries of .auxids <> .nsuppvars *)
| HIdsOrder       (* "support variables in .ids must be ascending" *)
| HIdsRange       (* "support variables in .ids must be less than .nvars" *)
| HPermRange      (* "levels in .permids must be less than .nvars" *)
| HPermDup        (* "level occurs twice in .permids" *)
| HOrderedLen     (* number of entries of .orderedvarnames <> .nvars *)
| HSuppLen        (* number of entries of .suppvarnames <> .nsuppvars *)
| HVarnamesLen    (* number of entries of .varnames <> .nvars *)
| HNameMismatch   (* ".varnames and .orderedvarnames do not match" *)
| HSuppMismatch   (* ".suppvarnames and .varnames/.orderedvarnames do not match" *)
| HRootsLen       (* number of entries of .rootids <> .nroots *)
| HRootZero       (* ".rootids must not be 0" *)
| HRootRange      (* "entry in .rootids out of range" *)
| HRootnamesLen   (* number of entries of .rootnames <> .nroots *)
| HInternal.      (* the Rust code would panic here (index out of bounds, [unwrap] of [None]) or
                     the model ran out of fuel; proved unreachable in DddmpFileProofs.v *)

Inductive hres (A : Type) :=
| HOk (a : A)
| HErr (e : herr).
Arguments HOk {A} a.
Arguments HErr {A} e.

Definition hbind {A B} (r : hres A) (f : A -> hres B) : hres B :=
  match r with HOk a => f a | HErr e => HErr e end.
Notation "x <~ r ;; k" := (hbind r (fun x => k)) (at level 61, r at next level, right associativity).
Notation "' p <~ r ;; k" := (hbind r (fun x => let p := x in k))
  (at level 61, p pattern, r at next level, right associativity).

Definition hmap {A B} (f : A -> B) (r : hres A) : hres B :=
  match r with HOk a => HOk (f a) | HErr e => HErr e end.

Definition guard (b : bool) (e : herr) : hres unit := if b then HOk tt else HErr e.

(** ** [String::from_utf8_lossy] (core::str::lossy [Utf8Chunks::next]): every maximal
    invalid prefix of a code point is replaced by U+FFFD (EF BF BD); the byte that failed the
    check is looked at again. *)

Definition repl_char : list byte := [239; 191; 189].
Definition is_cont (c : byte) : bool := (128 <=? c) && (c <=? 191).

(** second byte of a three-byte sequence *)
Definition ok3 (b c : byte) : bool :=
  if b =? 224 then (160 <=? c) && (c <=? 191)
  else if b =? 237 then (128 <=? c) && (c <=? 159)
  else is_cont c.
(** second byte of a four-byte sequence *)
Definition ok4 (b c : byte) : bool :=
  if b =? 240 then (144 <=? c) && (c <=? 191)
  else if b =? 244 then (128 <=? c) && (c <=? 143)
  else is_cont c.

Fixpoint utf8_lossy (s : list byte) : list byte :=
  match s with
  | [] => []
  | b :: r =>
    if b <? 128 then b :: utf8_lossy r
    else if (194 <=? b) && (b <=? 223) then                      (* utf8_char_width = 2 *)
      match r with
      | c :: r1 => if is_cont c then b :: c :: utf8_lossy r1 else repl_char ++ utf8_lossy r
      | [] => repl_char
      end
    else if (224 <=? b) && (b <=? 239) then                      (* width 3 *)
      match r with
      | c :: r1 =>
        if ok3 b c then
          match r1 with
          | d :: r2 => if is_cont d then b :: c :: d :: utf8_lossy r2 else repl_char ++ utf8_lossy r1
          | [] => repl_char
          end
        else repl_char ++ utf8_lossy r
      | [] => repl_char
      end
    else if (240 <=? b) && (b <=? 244) then                      (* width 4 *)
      match r with
      | c :: r1 =>
        if ok4 b c then
          match r1 with
          | d :: r2 =>
            if is_cont d then
              match r2 with
              | e :: r3 => if is_cont e then b :: c :: d :: e :: utf8_lossy r3
                           else repl_char ++ utf8_lossy r2
              | [] => repl_char
              end
            else repl_char ++ utf8_lossy r1
          | [] => repl_char
          end
        else repl_char ++ utf8_lossy r
      | [] => repl_char
      end
    else repl_char ++ utf8_lossy r                                (* width 0: 80..C1, F5..FF *)
  end.

(** ** the parsers of import.rs used by the header *)

(** macro [parse_single_unsigned!] ([parse_single_u32]: [limit] = 2^32, [parse_single_usize]: 2^64) *)
Fixpoint parse_single_go (limit : N) (s : list byte) (acc : N) (num : bool) : hres N :=
  match s with
  | [] => if num then HOk acc else HErr HInt
  | c :: r =>
    if is_digit c then
      let v := acc * 10 + (c - 48) in
      if limit <=? v then HErr HIntLarge else parse_single_go limit r v true
    else HErr HInt
  end.

Definition u32_limit : N := 4294967296.
Definition parse_single_u32 (s : list byte) : hres N := parse_single_go u32_limit s 0 false.
Definition parse_single_usize (s : list byte) : hres N := parse_single_go usize_limit s 0 false.

(** [parse_u32_list]; [i] / [num] are the loop variables, the result lists the pushed values *)
Fixpoint parse_u32_list_go (s : list byte) (i : N) (num : bool) : hres (list N) :=
  match s with
  | [] => HOk (if num then [i] else [])
  | c :: r =>
    if is_digit c then
      let v := i * 10 + (c - 48) in
      if u32_limit <=? v then HErr HIntLarge else parse_u32_list_go r v true
    else if is_sp c then
      if num then hmap (cons i) (parse_u32_list_go r 0 false) else parse_u32_list_go r i num
    else HErr HInt
  end.
Definition parse_u32_list (s : list byte) : hres (list N) := parse_u32_list_go s 0 false.

(** [parse_str_list]: split at spaces/tabs, skip empty strings; [cur] is the current
    string, reversed *)
Fixpoint str_list_go (s : list byte) (cur : list byte) : list (list byte) :=
  match s with
  | [] => match cur with [] => [] | _ => [rev cur] end
  | c :: r =>
    if is_sp c then match cur with [] => str_list_go r [] | _ => rev cur :: str_list_go r [] end
    else str_list_go r (c :: cur)
  end.
Definition parse_str_list (s : list byte) : list (list byte) := map utf8_lossy (str_list_go s []).

(** [parse_edge_list] of IO/Dddmp.v with the header's error type *)
Definition parse_rootids (s : list byte) : hres (list Z) :=
  match parse_edge_list s with
  | Ok l => HOk l
  | Err ETooLarge => HErr HIntLarge
  | Err _ => HErr HInt
  end.

(** ** the header *)

(** mod.rs [VarInfo] *)
Inductive varinfo := VIVariableID | VIPermutationID | VIAuxiliaryID | VIVariableName | VINone.

(** import.rs [struct DumpHeader] (without [lines], which only occurs in error messages) *)
Record header := mkH {
  h_ascii : bool;
  h_varinfo : varinfo;
  h_dd : list byte;
  h_nnodes : N;
  h_nvars : N;
  h_ids : list N;
  h_order : list N;                (* support_var_order *)
  h_permids : list N;
  h_auxids : list N;
  h_varnames : list (list byte);
  h_rootids : list Z;
  h_rootnames : list (list byte)
}.

(** one header line *)
Inductive entry :=
| EVer
| EMode (ascii : bool)
| EVarinfo (v : varinfo)
| EDd (s : list byte)
| ENnodes (n : N)
| ENvars (n : N)
| ENsupp (n : N)
| EVarnames (l : list (list byte))
| ESuppnames (l : list (list byte))
| EOrdered (l : list (list byte))
| EIds (l : list N)
| EPermids (l : list N)
| EAuxids (l : list N)
| ENroots (n : N)
| ERootids (l : list Z)
| ERootnames (l : list (list byte))
| ENodes.

Definition key_is (key : list byte) (s : string) : bool := bytes_eqb key (bs s).

(** the [match key { .. }] of [DumpHeader::load] *)
Definition parse_entry (line : list byte) : hres entry :=
  let '(key, value) := match split_sp line with Some (k, v) => (k, v) | None => (line, []) end in
  let value := trim value in
  if key_is key ".ver" then
    if key_is value "DDDMP-2.0" || key_is value "DDDMP-3.0" then HOk EVer else HErr HVersion
  else if key_is key ".mode" then
    if key_is value "A" then HOk (EMode true)
    else if key_is value "B" then HOk (EMode false)
    else HErr HMode
  else if key_is key ".varinfo" then
    if key_is value "0" then HOk (EVarinfo VIVariableID)
    else if key_is value "1" then HOk (EVarinfo VIPermutationID)
    else if key_is value "2" then HOk (EVarinfo VIAuxiliaryID)
    else if key_is value "3" then HOk (EVarinfo VIVariableName)
    else if key_is value "4" then HOk (EVarinfo VINone)
    else HErr HVarinfo
  else if key_is key ".dd" then HOk (EDd (utf8_lossy value))
  else if key_is key ".nnodes" then hmap ENnodes (parse_single_usize value)
  else if key_is key ".nvars" then hmap ENvars (parse_single_u32 value)
  else if key_is key ".nsuppvars" then hmap ENsupp (parse_single_u32 value)
  else if key_is key ".varnames" then HOk (EVarnames (parse_str_list value))
  else if key_is key ".suppvarnames" then HOk (ESuppnames (parse_str_list value))
  else if key_is key ".orderedvarnames" then HOk (EOrdered (parse_str_list value))
  else if key_is key ".ids" then hmap EIds (parse_u32_list value)
  else if key_is key ".permids" then hmap EPermids (parse_u32_list value)
  else if key_is key ".auxids" then hmap EAuxids (parse_u32_list value)
  else if key_is key ".nroots" then hmap ENroots (parse_single_usize value)
  else if key_is key ".rootids" then hmap ERootids (parse_rootids value)
  else if key_is key ".rootnames" then HOk (ERootnames (parse_str_list value))
  else if key_is key ".nodes" then HOk ENodes
  else HErr HKey.

(** the local variables of [DumpHeader::load] while it reads lines *)
Record hstate := mkHS {
  s_ascii : bool; s_varinfo : varinfo; s_dd : list byte;
  s_nnodes : N; s_nvars : N; s_nsupp : N; s_nroots : N;
  s_ids : list N; s_permids : list N; s_auxids : list N;
  s_varnames : list (list byte); s_suppnames : list (list byte); s_ordered : list (list byte);
  s_rootids : list Z; s_rootnames : list (list byte)
}.

Definition init_state : hstate :=
  mkHS true VINone [] 0 0 0 0 [] [] [] [] [] [] [] [].

(** "we don't check for duplicate entries; the last one counts" *)
Definition apply_entry (st : hstate) (e : entry) : hstate :=
  let '(mkHS a vi dd nn nv ns nr ids pm ax vn sn on ri rn) := st in
  match e with
  | EVer => st
  | EMode a' => mkHS a' vi dd nn nv ns nr ids pm ax vn sn on ri rn
  | EVarinfo v => mkHS a v dd nn nv ns nr ids pm ax vn sn on ri rn
  | EDd s => mkHS a vi s nn nv ns nr ids pm ax vn sn on ri rn
  | ENnodes n => mkHS a vi dd n nv ns nr ids pm ax vn sn on ri rn
  | ENvars n => mkHS a vi dd nn n ns nr ids pm ax vn sn on ri rn
  | ENsupp n => mkHS a vi dd nn nv n nr ids pm ax vn sn on ri rn
  | EVarnames l => mkHS a vi dd nn nv ns nr ids pm ax l sn on ri rn
  | ESuppnames l => mkHS a vi dd nn nv ns nr ids pm ax vn l on ri rn
  | EOrdered l => mkHS a vi dd nn nv ns nr ids pm ax vn sn l ri rn
  | EIds l => mkHS a vi dd nn nv ns nr l pm ax vn sn on ri rn
  | EPermids l => mkHS a vi dd nn nv ns nr ids l ax vn sn on ri rn
  | EAuxids l => mkHS a vi dd nn nv ns nr ids pm l vn sn on ri rn
  | ENroots n => mkHS a vi dd nn nv ns n ids pm ax vn sn on ri rn
  | ERootids l => mkHS a vi dd nn nv ns nr ids pm ax vn sn on l rn
  | ERootnames l => mkHS a vi dd nn nv ns nr ids pm ax vn sn on ri l
  | ENodes => st
  end.

(** the [loop] of [DumpHeader::load]: [read_until(b'\n')], strip '\n'/'\r', split key and
    value, dispatch; [.nodes] ends the header.  Every iteration consumes at least one byte,
    [fuel] = number of bytes + 1 suffices (proved). *)
Fixpoint header_loop (fuel : nat) (st : hstate) (inp : list byte) : hres (hstate * list byte) :=
  match fuel with
  | O => HErr HInternal
  | S f =>
    match read_line inp with
    | Err _ => HErr HEof
    | Ok (line, rest) =>
      e <~ parse_entry line ;;
      match e with
      | ENodes => HOk (st, rest)
      | _ => header_loop f (apply_entry st e) rest
      end
    end
  end.

(** *** validation *)

Definition len {A} (l : list A) : N := N.of_nat (length l).
Definition is_nil {A} (l : list A) : bool := match l with [] => true | _ => false end.

(** [iter().is_sorted_by(|a, b| a < b)] *)
Fixpoint sorted_strict (l : list N) : bool :=
  match l with
  | a :: ((b :: _) as r) => (a <? b) && sorted_strict r
  | _ => true
  end.

(** the first loop over [.permids]: range and duplicates ([seen] = the levels whose count is 1) *)
Fixpoint check_permids (nvars : N) (permids seen : list N) : hres unit :=
  match permids with
  | [] => HOk tt
  | l :: r =>
    if nvars <=? l then HErr HPermRange
    else if existsb (N.eqb l) seen then HErr HPermDup
    else check_permids nvars r (l :: seen)
  end.

(** [level_count[level]] after the accumulation loop: the number of levels in [.permids]
    below [level] (the Rust code allocates a vector of [.nvars] counters and takes prefix sums) *)
Definition rank (permids : list N) (level : N) : N :=
  len (filter (fun l => l <? level) permids).

Fixpoint set_nth {A} (n : nat) (x : A) (l : list A) : option (list A) :=
  match l, n with
  | [], _ => None
  | _ :: r, O => Some (x :: r)
  | y :: r, S n' => match set_nth n' x r with Some r' => Some (y :: r') | None => None end
  end.

(** [support_var_order[level_count[level]] = var] for the pairs of [.ids] / [.permids] *)
Fixpoint fill_order (pairs : list (N * N)) (permids : list N) (acc : list N) : hres (list N) :=
  match pairs with
  | [] => HOk acc
  | (var, level) :: r =>
    match set_nth (N.to_nat (rank permids level)) var acc with
    | Some acc' => fill_order r permids acc'
    | None => HErr HInternal
    end
  end.

Definition nth_name (l : list (list byte)) (i : N) : hres (list byte) :=
  match nth_error l (N.to_nat i) with Some x => HOk x | None => HErr HInternal end.

(** only [.suppvarnames] is given: [varnames[target] = name] *)
Fixpoint place_names (pairs : list (list byte * N)) (varnames : list (list byte)) : hres (list (list byte)) :=
  match pairs with
  | [] => HOk varnames
  | (name, target) :: r =>
    match set_nth (N.to_nat target) name varnames with
    | Some v' => place_names r v'
    | None => HErr HInternal
    end
  end.

(** [varnames[id] = std::mem::take(&mut orderedvarnames[permid])] *)
Fixpoint take_names (pairs : list (N * N)) (varnames ordered : list (list byte))
  : hres (list (list byte) * list (list byte)) :=
  match pairs with
  | [] => HOk (varnames, ordered)
  | (id, permid) :: r =>
    name <~ nth_name ordered permid ;;
    match set_nth (N.to_nat permid) [] ordered, set_nth (N.to_nat id) name varnames with
    | Some o', Some v' => take_names r v' o'
    | _, _ => HErr HInternal
    end
  end.

(** [if name.is_empty() { *name = non_suppvarnames.next().unwrap() }] *)
Fixpoint fill_names (varnames pool : list (list byte)) : hres (list (list byte)) :=
  match varnames with
  | [] => HOk []
  | [] :: r =>
    match pool with
    | p :: ps => hmap (cons p) (fill_names r ps)
    | [] => HErr HInternal
    end
  | n :: r => hmap (cons n) (fill_names r pool)
  end.

(** the names of the support agree in [.varnames] and [.orderedvarnames] *)
Fixpoint check_ordered (pairs : list (N * N)) (varnames ordered : list (list byte)) : hres unit :=
  match pairs with
  | [] => HOk tt
  | (id, permid) :: r =>
    name <~ nth_name varnames id ;;
    oname <~ nth_name ordered permid ;;
    if bytes_eqb name oname then check_ordered r varnames ordered else HErr HNameMismatch
  end.

(** [.suppvarnames] agrees with the names found so far *)
Fixpoint check_supp (pairs : list (list byte * N)) (varnames : list (list byte)) : hres unit :=
  match pairs with
  | [] => HOk tt
  | (name, id) :: r =>
    expected <~ nth_name varnames id ;;
    if bytes_eqb name expected then check_supp r varnames else HErr HSuppMismatch
  end.

(** the block ['var_names: { .. }] *)
Definition var_names_block (nvars : N) (ids permids : list N)
           (varnames suppnames ordered : list (list byte)) : hres (list (list byte)) :=
  if is_nil varnames then
    if is_nil ordered then
      if is_nil suppnames then HOk []
      else place_names (combine suppnames ids) (repeat [] (N.to_nat nvars))
    else
      '(v, o) <~ take_names (combine ids permids) (repeat [] (N.to_nat nvars)) ordered ;;
      v <~ fill_names v (filter (fun s => negb (is_nil s)) o) ;;
      _ <~ check_supp (combine suppnames ids) v ;;
      HOk v
  else
    _ <~ guard (len varnames =? nvars) HVarnamesLen ;;
    _ <~ (if is_nil ordered then HOk tt else check_ordered (combine ids permids) varnames ordered) ;;
    _ <~ check_supp (combine suppnames ids) varnames ;;
    HOk varnames.

Fixpoint check_roots (nnodes : N) (rootids : list Z) : hres unit :=
  match rootids with
  | [] => HOk tt
  | r :: rs =>
    if (r =? 0)%Z then HErr HRootZero
    else if nnodes <? Z.abs_N r then HErr HRootRange
    else check_roots nnodes rs
  end.

(** the part of [DumpHeader::load] after the loop ("// validation") *)
Definition validate (s : hstate) : hres header :=
  let nsupp := s_nsupp s in
  let nvars := s_nvars s in
  _ <~ guard (nsupp <=? nvars) HNsupp ;;
  _ <~ guard (len (s_ids s) =? nsupp) HIdsLen ;;
  _ <~ guard (len (s_permids s) =? nsupp) HPermLen ;;
  _ <~ guard (is_nil (s_auxids s) || (len (s_auxids s) =? nsupp)) HAuxLen ;;
  _ <~ guard (sorted_strict (s_ids s)) HIdsOrder ;;
  _ <~ guard (is_nil (s_ids s) || (last (s_ids s) 0 <? nvars)) HIdsRange ;;
  _ <~ check_permids nvars (s_permids s) [] ;;
  order <~ fill_order (combine (s_ids s) (s_permids s)) (s_permids s) (repeat 0 (N.to_nat nsupp)) ;;
  _ <~ guard (is_nil (s_ordered s) || (len (s_ordered s) =? nvars)) HOrderedLen ;;
  _ <~ guard (is_nil (s_suppnames s) || (len (s_suppnames s) =? nsupp)) HSuppLen ;;
  varnames <~ var_names_block nvars (s_ids s) (s_permids s) (s_varnames s) (s_suppnames s) (s_ordered s) ;;
  _ <~ guard (len (s_rootids s) =? s_nroots s) HRootsLen ;;
  _ <~ check_roots (s_nnodes s) (s_rootids s) ;;
  _ <~ guard (is_nil (s_rootnames s) || (len (s_rootnames s) =? s_nroots s)) HRootnamesLen ;;
  HOk (mkH (s_ascii s) (s_varinfo s) (s_dd s) (s_nnodes s) nvars (s_ids s) order (s_permids s)
           (s_auxids s) varnames (s_rootids s) (s_rootnames s)).

(** import.rs [DumpHeader::load]: the header and the input after the [.nodes] line *)
Definition load_header (inp : list byte) : hres (header * list byte) :=
  '(st, rest) <~ header_loop (S (length inp)) init_state inp ;;
  h <~ validate st ;;
  HOk (h, rest).

(** ** the whole importer: [DumpHeader::load] + [import] *)

Inductive wres (A : Type) :=
| WOk (a : A)
| WHdr (e : herr)          (* [DumpHeader::load] returned an error *)
| WPre                     (* the caller violated the precondition of [import]
                              ([support_vars] has [.nsuppvars] entries): assert_eq! in Rust *)
| WBody (e : err).         (* [import] returned an error *)
Arguments WOk {A} a.
Arguments WHdr {A} e.
Arguments WPre {A}.
Arguments WBody {A} e.

Definition varinfo_none (v : varinfo) : bool := match v with VINone => true | _ => false end.

(** [import] after the header: node section, [.end], roots *)
Definition import_body (k : kind) (slm : list N) (nlevels : N) (h : header) (rest : list byte)
  : wres (header * ist * list cedge) :=
  match import_file k (h_ascii h) (varinfo_none (h_varinfo h)) slm nlevels (h_nnodes h) (h_rootids h) rest with
  | Ok (st, roots) => WOk (h, st, roots)
  | Err e => WBody e
  end.

(** [slm] = [suppvar_level_map] (level of the manager variable chosen for every support
    variable, in the order of [support_vars]), [nlevels] = [manager.num_levels()] *)
Definition import_whole (k : kind) (slm : list N) (nlevels : N) (inp : list byte)
  : wres (header * ist * list cedge) :=
  match load_header inp with
  | HErr e => WHdr e
  | HOk (h, rest) =>
    if negb (Nat.eqb (length slm) (length (h_ids h))) then WPre
    else import_body k slm nlevels h rest
  end.

(** The same function with a short cut for the extracted code: every node takes at least one
    byte, so a header that announces more nodes than there are bytes left leads to an error
    (the real importer runs into the end of the file; [N.to_nat] of an absurd [.nnodes] would
    not terminate in practice).  Proved equivalent to [import_whole] up to the error value. *)
Definition import_whole_guarded (k : kind) (slm : list N) (nlevels : N) (inp : list byte)
  : wres (header * ist * list cedge) :=
  match load_header inp with
  | HErr e => WHdr e
  | HOk (h, rest) =>
    if negb (Nat.eqb (length slm) (length (h_ids h))) then WPre
    else if N.of_nat (length rest) <? h_nnodes h then WBody EEof
    else import_body k slm nlevels h rest
  end.

(** ** the exporter's header: export.rs [export_common] up to [".nodes\n"] *)

(** what [export_common] reads from its arguments and the manager: for every variable its
    level and whether nodes exist at this level ([supp_levels]), [level_to_var], the names as
    [write_var] prints them ([None] = no name lines; IO/Dddmp.v [export_var_names]), the root
    references as the closure [idx] computes them, the root name bytes *)
Record xheader := mkX {
  x_ver3 : bool;
  x_ascii : bool;
  x_dd : list byte;                          (* settings.diagram_name *)
  x_nnodes : N;
  x_vars : list (N * bool);                  (* variable -> (level, in support) *)
  x_l2v : list N;                            (* level -> variable *)
  x_names : option (list (list byte));
  x_rootids : list Z;
  x_rootnames : option (list (list byte))
}.

Definition x_nvars (x : xheader) : N := len (x_vars x).

Fixpoint supp_from (v : N) (vars : list (N * bool)) : list (N * N) :=
  match vars with
  | [] => []
  | (l, s) :: r => if s then (v, l) :: supp_from (v + 1) r else supp_from (v + 1) r
  end.
(** (variable, level) of the support variables, by variable number *)
Definition x_supp (x : xheader) : list (N * N) := supp_from 0 (x_vars x).
Definition x_ids (x : xheader) : list N := map fst (x_supp x).
Definition x_permids (x : xheader) : list N := map snd (x_supp x).

(** [for .. { write!(file, " {x}") }] *)
Definition sp_list {A} (f : A -> list byte) (l : list A) : list byte := flat_map (fun x => 32 :: f x) l.
Definition ident (s : list byte) : list byte := s.
Definition name_of (names : list (list byte)) (v : N) : list byte := nth (N.to_nat v) names [].

Definition vername (x : xheader) : string := if x_ver3 x then "DDDMP-3.0"%string else "DDDMP-2.0"%string.
(** [write_replacing_control(&mut file, settings.diagram_name)] *)
Definition wdd (x : xheader) : list byte := fst (write_replacing_control (x_dd x)).

(** the header lines before [.nodes], one [writeln!] each (without the line feed) *)
Definition header_lines (x : xheader) : list (list byte) :=
  [bs ".ver " ++ bs (vername x); bs ".mode " ++ [if x_ascii x then 65 else 66]; bs ".varinfo " ++ [52]] ++
  (if is_nil (x_dd x) then [] else [bs ".dd " ++ wdd x]) ++
  [bs ".nnodes " ++ dec (x_nnodes x); bs ".nvars " ++ dec (x_nvars x); bs ".nsuppvars " ++ dec (len (x_supp x))] ++
  (match x_names x with
   | None => []
   | Some names =>
     (if x_ver3 x then [bs ".varnames" ++ sp_list ident names] else []) ++
     [bs ".suppvarnames" ++ sp_list (name_of names) (x_ids x);
      bs ".orderedvarnames" ++ sp_list (name_of names) (x_l2v x)]
   end) ++
  [bs ".ids" ++ sp_list dec (x_ids x); bs ".permids" ++ sp_list dec (x_permids x);
   bs ".nroots " ++ dec (len (x_rootids x)); bs ".rootids" ++ sp_list dec_z (x_rootids x)] ++
  (match x_rootnames x with None => [] | Some rn => [bs ".rootnames" ++ sp_list ident rn] end).

Definition unlines (ls : list (list byte)) : list byte := flat_map (fun l => l ++ [10]) ls.

Definition print_header (x : xheader) : list byte := unlines (header_lines x) ++ bs ".nodes" ++ [10].

(** the trailer [".end\n"] *)
Definition end_line : list byte := [46; 101; 110; 100; 10].

(** a complete binary-mode file / ASCII-mode file as [export_common] writes it *)
Definition export_whole_bin (x : xheader) (dag : list xnode) : list byte :=
  print_header x ++ export_nodes dag ++ end_line.
Definition export_whole_ascii (x : xheader) (dag : list anode) : list byte :=
  print_header x ++ export_ascii_nodes dag ++ end_line.

(** *** what [DumpHeader::load] is expected to return for [print_header x] *)

(** insertion sort of (variable, level) pairs by level: [support_var_order] *)
Fixpoint insert_by_level (p : N * N) (l : list (N * N)) : list (N * N) :=
  match l with
  | [] => [p]
  | q :: r => if snd p <? snd q then p :: l else q :: insert_by_level p r
  end.
Definition sort_by_level (l : list (N * N)) : list (N * N) := fold_right insert_by_level [] l.

(** format 2.0 has no [.varnames] line: the loader rebuilds the names from
    [.orderedvarnames] (support variables exactly, the others in level order) *)
Definition recover_names (x : xheader) (names : list (list byte)) : list (list byte) :=
  let ordered := map (name_of names) (x_l2v x) in
  match take_names (combine (x_ids x) (x_permids x)) (repeat [] (N.to_nat (x_nvars x))) ordered with
  | HOk (v, o) => match fill_names v (filter (fun s => negb (is_nil s)) o) with HOk v' => v' | HErr _ => [] end
  | HErr _ => []
  end.

Definition header_of (x : xheader) : header :=
  mkH (x_ascii x) VINone
      (utf8_lossy (trim (fst (write_replacing_control (x_dd x)))))
      (x_nnodes x) (x_nvars x) (x_ids x) (map fst (sort_by_level (x_supp x))) (x_permids x) []
      (match x_names x with
       | None => []
       | Some names => if x_ver3 x then names else recover_names x names
       end)
      (x_rootids x)
      (match x_rootnames x with None => [] | Some rn => rn end).
