(** * C15 (package C15h): the model importer never reaches a panic site

    IO/Dddmp.v returns [EInternal] where the Rust importer would index a vector out of bounds
    ([nodes[idx]], [level_suppvar_map[level]]) or where the model's own fuel runs out
    ([bdd_not]).  On ARBITRARY input these places are unreachable: every error of the model
    importer is one of the values that stand for an [io::Error] of the real importer.
    Together with [load_header_no_internal] this is the model-level statement of "malformed
    input makes the importer return an error rather than panic". *)
From Coq Require Import List NArith ZArith Bool Arith Lia.
From OxiVerif Require Import IO.Dddmp IO.DddmpProofs IO.DddmpFile IO.DddmpFileProofs IO.DddmpFileSafety.
Import ListNotations.
Open Scope N_scope.

Arguments N.add : simpl never.
Arguments N.sub : simpl never.
Arguments N.mul : simpl never.
Arguments N.div : simpl never.
Arguments N.modulo : simpl never.
Arguments N.pow : simpl never.

Ltac splits := repeat match goal with |- _ /\ _ => split end; try exact eq_refl; try exact I.

(** ** Boolean terminals only (what a BDD importer creates) *)

Definition tnum_edge (e : cedge) : Prop :=
  match ce_ref e with RTerm v => exists z, v = TNum z | RNode _ => True end.
Definition tnum_store (s : list cnode) : Prop :=
  Forall (fun n => tnum_edge (cn_t n) /\ tnum_edge (cn_e n)) s.

Lemma tnum_neg e : tnum_edge (neg e) <-> tnum_edge e.
Proof. reflexivity. Qed.

Lemma find_or_add_tnum s n s' r :
  tnum_store s -> tnum_edge (cn_t n) -> tnum_edge (cn_e n) -> find_or_add s n = (s', r) ->
  tnum_store s' /\ forall tag, tnum_edge (mkE r tag).
Proof.
  intros Hs Ht He H. destruct (find_or_add_spec _ _ _ _ H) as (i & -> & _ & [->| ->]).
  - split; [exact Hs|intros; exact I].
  - split; [|intros; exact I]. apply Forall_app. split; [exact Hs|]. constructor; [split; assumption|constructor].
Qed.

Lemma mk_node_tnum k s level t e s' r :
  tnum_store s -> tnum_edge t -> tnum_edge e -> mk_node k s level t e = (s', r) ->
  tnum_store s' /\ tnum_edge r.
Proof.
  intros Hs Ht He H.
  assert (Hsame : forall x, tnum_edge x -> (s', r) = (s, x) -> tnum_store s' /\ tnum_edge r).
  { intros x Hx E. inversion E; subst. split; assumption. }
  assert (Hadd : forall t0 e0 tag s1 r1, tnum_edge t0 -> tnum_edge e0 ->
                 find_or_add s (mkN level t0 e0) = (s1, r1) -> (s', r) = (s1, mkE r1 tag) ->
                 tnum_store s' /\ tnum_edge r).
  { intros t0 e0 tag s1 r1 H1 H2 F E. inversion E; subst.
    destruct (find_or_add_tnum s (mkN level t0 e0) s1 r1 Hs H1 H2 F) as [A B]. split; [exact A|apply B]. }
  unfold mk_node in H. destruct k.
  - destruct (cedge_eqb t e); [apply (Hsame t); [assumption|now symmetry]|].
    destruct (find_or_add s (mkN level t e)) as [s1 r1] eqn:F. eapply (Hadd t e false); eauto.
  - destruct (cedge_eqb t e); [apply (Hsame t); [assumption|now symmetry]|].
    destruct (ce_tag t).
    + destruct (find_or_add s (mkN level (neg t) (neg e))) as [s1 r1] eqn:F. eapply (Hadd (neg t) (neg e) true); eauto.
    + destruct (find_or_add s (mkN level t e)) as [s1 r1] eqn:F. eapply (Hadd t e false); eauto.
  - destruct (cref_eqb (ce_ref t) (RTerm (TNum 0))); [apply (Hsame e); [assumption|now symmetry]|].
    destruct (find_or_add s (mkN level t e)) as [s1 r1] eqn:F. eapply (Hadd t e false); eauto.
  - destruct (cedge_eqb t e); [apply (Hsame t); [assumption|now symmetry]|].
    destruct (find_or_add s (mkN level t e)) as [s1 r1] eqn:F. eapply (Hadd t e false); eauto.
Qed.

Lemma bdd_not_unfold s fuel e :
  bdd_not s fuel e =
  match ce_ref e with
  | RTerm (TNum z) => Ok (s, mkE (RTerm (TNum (1 - z))) false)
  | RTerm _ => Err EInternal
  | RNode i =>
    match fuel with
    | O => Err EInternal
    | S f =>
      match nth_error s (N.to_nat i) with
      | None => Err EInternal
      | Some n =>
        '(s1, t') <- bdd_not s f (cn_t n) ;;
        '(s2, e') <- bdd_not s1 f (cn_e n) ;;
        Ok (mk_node KBDD s2 (cn_level n) t' e')
      end
    end
  end.
Proof. destruct fuel; reflexivity. Qed.

(** [not_edge_owned] of a BDD succeeds with any fuel above the index of the edge *)
Lemma bdd_not_ok slm : forall fuel s e,
  store_wf s -> levels_in slm s -> tnum_store s -> edge_in s e -> tnum_edge e -> ref_below fuel e ->
  exists s' e', bdd_not s fuel e = Ok (s', e') /\ tnum_store s' /\ tnum_edge e'.
Proof.
  induction fuel as [|f IH]; intros s e Hwf Hl Hts Hin Hte Hb.
  - unfold ref_below in Hb. unfold tnum_edge in Hte. rewrite bdd_not_unfold. destruct (ce_ref e) as [v|i]; [|lia].
    destruct Hte as [z ->]. eexists _, _. splits; [exact Hts|unfold tnum_edge; cbn; eauto].
  - unfold ref_below in Hb. unfold tnum_edge in Hte. unfold edge_in in Hin. rewrite bdd_not_unfold.
    destruct (ce_ref e) as [v|i] eqn:Er.
    + destruct Hte as [z ->]. eexists _, _. splits; [exact Hts|unfold tnum_edge; cbn; eauto].
    + destruct (nth_error s (N.to_nat i)) as [n|] eqn:En; [|apply nth_error_None in En; lia].
      destruct (Hwf _ _ En) as (R1 & R2 & _ & _).
      assert (I1 : edge_in s (cn_t n)) by (eapply ref_below_in; [|exact R1]; lia).
      assert (I2 : edge_in s (cn_e n)) by (eapply ref_below_in; [|exact R2]; lia).
      pose proof Hts as Hts'. unfold tnum_store in Hts'. rewrite Forall_forall in Hts'.
      destruct (Hts' n (nth_error_In _ _ En)) as [T1 T2].
      destruct (IH s (cn_t n) Hwf Hl Hts I1 T1 ltac:(eapply ref_below_mono; [|exact R1]; lia))
        as (s1 & t' & B1 & Ts1 & Tt').
      rewrite B1. cbn [bind].
      destruct (bdd_not_wf slm _ _ _ _ _ Hwf Hl I1 B1) as (W1 & L1 & X1 & _ & _).
      destruct (IH s1 (cn_e n) W1 L1 Ts1 (edge_in_ext _ _ _ X1 I2) T2 ltac:(eapply ref_below_mono; [|exact R2]; lia))
        as (s2 & e2 & B2 & Ts2 & Te2).
      rewrite B2. cbn [bind].
      destruct (mk_node KBDD s2 (cn_level n) t' e2) as [s3 r] eqn:M.
      destruct (mk_node_tnum _ _ _ _ _ _ _ Ts2 Tt' Te2 M) as [A B].
      exists s3, r. splits; assumption.
Qed.

(** ** the invariant of the node loops *)

Record st_ok (k : kind) (slm : list N) (st : ist) (node_id : N) : Prop := {
  ok_wf : st_wf slm st;
  ok_id : N.of_nat (length (st_nodes st)) + 1 = node_id;
  ok_tnum : k = KBDD -> tnum_store (st_store st) /\ Forall tnum_edge (st_nodes st)
}.

Definition not_internal {A} (r : res A) : Prop := r <> Err EInternal.

Lemma node_at_ok st i : (N.to_nat i < length (st_nodes st))%nat -> exists e, node_at st i = Ok e /\ In e (st_nodes st).
Proof.
  intros H. unfold node_at. destruct (nth_error (st_nodes st) (N.to_nat i)) as [e|] eqn:E.
  - exists e. split; [reflexivity|eapply nth_error_In; exact E].
  - apply nth_error_None in E. lia.
Qed.

(** the [complement] argument never fails internally *)
Lemma complement_ok k slm s e :
  store_wf s -> levels_in slm s -> edge_in s e ->
  (k = KBDD -> tnum_store s /\ tnum_edge e) ->
  not_internal (complement k s e) /\
  forall s' e', complement k s e = Ok (s', e') -> k = KBDD -> tnum_store s' /\ tnum_edge e'.
Proof.
  intros Hwf Hl Hin Ht. destruct k; unfold complement.
  - destruct (Ht eq_refl) as [Ts Te].
    destruct (bdd_not_ok slm (S (length s)) s e Hwf Hl Ts Hin Te) as (s' & e' & B & Ts' & Te').
    { unfold ref_below, edge_in in *. destruct (ce_ref e); [exact I|lia]. }
    rewrite B. split; [discriminate|]. intros s2 e2 H _. inversion H; subst. split; assumption.
  - split; [discriminate|]. intros ? ? _ Hk. discriminate.
  - split; [discriminate|]. intros ? ? H. discriminate.
  - split; [discriminate|]. intros ? ? H. discriminate.
Qed.

Lemma lsm_lookup_in slm l : In l slm -> exists i, lsm_lookup slm l = Ok i.
Proof.
  intros H. unfold lsm_lookup. destruct (find_index (N.eqb l) slm 0) as [i|] eqn:E; [eauto|].
  exfalso. revert E. generalize 0. induction slm as [|x slm IH]; intros i E; [destruct H|].
  cbn in E. destruct (N.eqb_spec l x); [discriminate|]. destruct H as [->|H]; [contradiction|]. eapply IH; eassumption.
Qed.

Lemma resolve_vid_ok slm nlevels vc vid tl el :
  (tl = level_max \/ In tl slm) -> (el = level_max \/ In el slm) ->
  not_internal (resolve_vid slm nlevels vc vid tl el).
Proof.
  intros Ht He. unfold resolve_vid, not_internal.
  assert (Hrel : forall A (f : N -> res A),
            (forall x, f x <> Err EInternal) ->
            (cms <- (if N.min tl el =? level_max then Ok nlevels else lsm_lookup slm (N.min tl el)) ;; f cms) <> Err EInternal).
  { intros A f Hf. destruct (N.eqb_spec (N.min tl el) level_max) as [E|E]; cbn [bind]; [apply Hf|].
    assert (Hin : In (N.min tl el) slm).
    { destruct (N.min_spec tl el) as [[Hlt Hm]|[Hle Hm]]; rewrite Hm in *.
      - destruct Ht as [->|Ht]; [contradiction|exact Ht].
      - destruct He as [->|He]; [contradiction|exact He]. }
    destruct (lsm_lookup_in slm _ Hin) as [i ->]. cbn [bind]. apply Hf. }
  destruct vc.
  - apply Hrel. intros x. destruct (x <? vid); discriminate.
  - destruct (N.of_nat (length slm) <=? vid); discriminate.
  - apply Hrel. intros x. destruct (x <? vid); discriminate.
  - apply Hrel. intros x. destruct (x <? vid); discriminate.
Qed.

Lemma not_internal_bind {A B} (r : res A) (f : A -> res B) :
  not_internal r -> (forall a, r = Ok a -> not_internal (f a)) -> not_internal (bind r f).
Proof. destruct r; cbn; [auto|]. intros H _ E. apply H. inversion E. reflexivity. Qed.

Lemma read_unescape_ni inp : not_internal (read_unescape inp).
Proof.
  unfold read_unescape, not_internal. destruct inp as [|b r]; [discriminate|].
  destruct (b =? 0); [|discriminate]. destruct r as [|c r']; [discriminate|].
  destruct (unescape_code c); discriminate.
Qed.

Lemma dec7_ni : forall inp acc, not_internal (dec7 acc inp).
Proof.
  unfold not_internal.
  induction inp as [inp IH] using (induction_ltof1 _ (@length byte)). unfold ltof in IH.
  intros acc. destruct inp as [|x r]; cbn; [discriminate|].
  assert (Hstep : forall a b, dec7_step a b <> Err EInternal).
  { intros a b. unfold dec7_step. destruct (shl7_limit <=? a); discriminate. }
  destruct (x =? 0).
  - destruct r as [|c r']; [discriminate|]. destruct (unescape_code c); [|discriminate].
    pose proof (Hstep acc b) as Hs. destruct (dec7_step acc b) as [[a' [|]]|]; [discriminate|apply IH; cbn; lia|intros E; apply Hs; inversion E; reflexivity].
  - pose proof (Hstep acc x) as Hs. destruct (dec7_step acc x) as [[a' [|]]|]; [discriminate|apply IH; cbn; lia|intros E; apply Hs; inversion E; reflexivity].
Qed.

Lemma decode_7bit_ni inp : not_internal (decode_7bit inp).
Proof. apply dec7_ni. Qed.

Lemma idx_ref_ni inp node_id c : not_internal (idx_ref inp node_id c).
Proof.
  unfold idx_ref. apply not_internal_bind.
  - destruct c; try discriminate; [apply decode_7bit_ni|].
    apply not_internal_bind; [apply decode_7bit_ni|]. intros [d inp'] _. destruct (node_id <? d); discriminate.
  - intros [id inp'] _. destruct (id =? 0); [discriminate|]. destruct (node_id <=? id); discriminate.
Qed.

(** one node of the binary node section *)
Lemma import_bin_node_ok k slm nlevels terminal st node_id inp :
  st_ok k slm st node_id -> (exists v, ce_ref terminal = RTerm v) -> (k = KBDD -> tnum_edge terminal) ->
  not_internal (import_bin_node k slm nlevels terminal st node_id inp) /\
  forall st' inp', import_bin_node k slm nlevels terminal st node_id inp = Ok (st', inp') ->
                   st_ok k slm st' (node_id + 1).
Proof.
  intros Hok Hterm Htt.
  assert (Hnext : forall st' inp', import_bin_node k slm nlevels terminal st node_id inp = Ok (st', inp') ->
            st_wf slm st' /\ N.of_nat (length (st_nodes st')) + 1 = node_id + 1).
  { intros st' inp' H. destruct (import_bin_node_wf _ _ _ _ _ _ _ _ _ (ok_wf _ _ _ _ Hok) Hterm H) as (W & L & _ & _).
    split; [exact W|]. pose proof (ok_id _ _ _ _ Hok). lia. }
  unfold import_bin_node in *.
  pose proof (read_unescape_ni inp) as Hr.
  destruct (read_unescape inp) as [[b inp0]|e0]; cbn [bind] in *; [|split; [intros E; apply Hr; inversion E; reflexivity|discriminate]].
  destruct (split_node_code b) as [[[vc tc] ecompl] ec].
  pose proof (ok_wf _ _ _ _ Hok) as Hst. pose proof (ok_id _ _ _ _ Hok) as Hid.
  assert (Hterm_case : not_internal (Ok (mkS (st_store st) (st_nodes st ++ [terminal]), inp0)) /\
            forall st' inp', Ok (mkS (st_store st) (st_nodes st ++ [terminal]), inp0) = Ok (st', inp') ->
              (st_wf slm st' /\ N.of_nat (length (st_nodes st')) + 1 = node_id + 1) -> st_ok k slm st' (node_id + 1)).
  { split; [discriminate|]. intros st' inp' E [W L]. inversion E; subst. split; [exact W|exact L|].
    intros Hk. destruct (ok_tnum _ _ _ _ Hok Hk) as [A B]. cbn. split; [exact A|].
    apply Forall_app. split; [exact B|]. constructor; [apply Htt; exact Hk|constructor]. }
  destruct vc; [split; [apply Hterm_case|intros st' inp' E; eapply (proj2 Hterm_case); [exact E|apply (Hnext _ _ E)]]| | |].
  all: match goal with |- not_internal ?body /\ _ => set (B := body) in * end.
  all: assert (HB : not_internal B /\ forall st' inp', B = Ok (st', inp') -> k = KBDD ->
                      tnum_store (st_store st') /\ Forall tnum_edge (st_nodes st'));
       [|destruct HB as [H1 H2]; split; [exact H1|];
         intros st' inp' E; destruct (Hnext _ _ E) as [W L]; split; [exact W|exact L|exact (H2 _ _ E)]].
  all: unfold B; clear B Hnext.
  all: match goal with |- not_internal (bind ?r _) /\ _ =>
         assert (Hr1 : not_internal r) by (cbn [has_arg]; first [apply decode_7bit_ni | discriminate]);
         destruct r as [[vid inp1]|e1]; cbn [bind]; [|split; [intros E; apply Hr1; inversion E; reflexivity|discriminate]] end.
  all: pose proof (idx_ref_ni inp1 node_id tc) as Hr2;
       destruct (idx_ref inp1 node_id tc) as [[ti inp2]|e2] eqn:E2; cbn [bind];
       [|split; [intros E; apply Hr2; inversion E; reflexivity|discriminate]];
       destruct (idx_ref_spec _ _ _ _ _ E2) as [Hti _];
       destruct (node_at_ok st ti ltac:(lia)) as (t & Et & Int); rewrite Et; cbn [bind];
       pose proof (idx_ref_ni inp2 node_id ec) as Hr3;
       destruct (idx_ref inp2 node_id ec) as [[ei inp3]|e3] eqn:E4; cbn [bind];
       [|split; [intros E; apply Hr3; inversion E; reflexivity|discriminate]];
       destruct (idx_ref_spec _ _ _ _ _ E4) as [Hei _];
       destruct (node_at_ok st ei ltac:(lia)) as (e & Ee & Ine); rewrite Ee; cbn [bind].
  all: pose proof (sw_nodes _ _ Hst) as Hnodes; rewrite Forall_forall in Hnodes;
       pose proof (Hnodes _ Int) as It; pose proof (Hnodes _ Ine) as Ie.
  all: assert (Hc : not_internal (if ecompl then complement k (st_store st) e else Ok (st_store st, e)) /\
                forall s' e', (if ecompl then complement k (st_store st) e else Ok (st_store st, e)) = Ok (s', e') ->
                              k = KBDD -> tnum_store s' /\ tnum_edge e');
       [destruct ecompl;
        [apply (complement_ok k slm); [apply Hst|apply Hst|exact Ie|];
         intros Hk; destruct (ok_tnum _ _ _ _ Hok Hk) as [A Bn]; split; [exact A|rewrite Forall_forall in Bn; apply Bn; exact Ine]
        |split; [discriminate|]; intros s' e' E Hk; injection E as <- <-;
         destruct (ok_tnum _ _ _ _ Hok Hk) as [A Bn]; split; [exact A|rewrite Forall_forall in Bn; apply Bn; exact Ine]]|].
  all: destruct Hc as [Hc1 Hc2];
       destruct (if ecompl then complement k (st_store st) e else Ok (st_store st, e)) as [[store e2]|ec0]; cbn [bind];
       [|split; [intros E; apply Hc1; inversion E; reflexivity|discriminate]].
  all: match goal with |- not_internal (bind (resolve_vid ?a ?b ?vc ?v ?tl ?el) _) /\ _ =>
         pose proof (resolve_vid_ok a b vc v tl el (edge_level_in a _ _ (sw_levels _ _ Hst) It)
                       (edge_level_in a _ _ (sw_levels _ _ Hst) Ie)) as Hrv;
         destruct (resolve_vid a b vc v tl el) as [vid'|er]; cbn [bind];
         [|split; [intros E; apply Hrv; inversion E; reflexivity|discriminate]] end.
  all: destruct (nth_error slm (N.to_nat vid')) as [level|]; [|split; [discriminate|discriminate]].
  all: destruct ((edge_level (st_store st) t <=? level) || (edge_level (st_store st) e <=? level)); [split; discriminate|].
  all: destruct (mk_node k store level t e2) as [store' r] eqn:M; split; [discriminate|].
  all: intros st' inp' E Hk; injection E as <- <-; cbn [st_store st_nodes].
  all: destruct (Hc2 _ _ eq_refl Hk) as [Ts Te]; destruct (ok_tnum _ _ _ _ Hok Hk) as [A Bn].
  all: assert (Tt : tnum_edge t) by (rewrite Forall_forall in Bn; apply Bn; exact Int).
  all: destruct (mk_node_tnum _ _ _ _ _ _ _ Ts Tt Te M) as [Ts' Tr].
  all: split; [exact Ts'|apply Forall_app; split; [exact Bn|constructor; [exact Tr|constructor]]].
Qed.

Lemma st_ok_empty k slm : st_ok k slm empty_state 1.
Proof. split; [apply st_wf_empty|reflexivity|intros _; split; constructor]. Qed.

Lemma import_bin_loop_ok k slm nlevels terminal :
  (exists v, ce_ref terminal = RTerm v) -> (k = KBDD -> tnum_edge terminal) ->
  forall n node_id st inp, st_ok k slm st node_id ->
  not_internal (import_bin_loop k slm nlevels terminal n node_id st inp) /\
  forall st' inp', import_bin_loop k slm nlevels terminal n node_id st inp = Ok (st', inp') ->
                   st_ok k slm st' (node_id + N.of_nat n).
Proof.
  intros Hterm Htt. induction n as [|n IH]; intros node_id st inp Hok; cbn [import_bin_loop].
  - split; [discriminate|]. intros st' inp' H. inversion H; subst. rewrite N.add_0_r. exact Hok.
  - destruct (import_bin_node_ok k slm nlevels terminal st node_id inp Hok Hterm Htt) as [Hn Hs].
    destruct (import_bin_node k slm nlevels terminal st node_id inp) as [[st1 inp1]|e]; cbn [bind].
    + destruct (IH (node_id + 1) st1 inp1 (Hs _ _ eq_refl)) as [Hn' Hs']. split; [exact Hn'|].
      intros st' inp' H. replace (node_id + N.of_nat (S n)) with (node_id + 1 + N.of_nat n) by lia. apply (Hs' _ _ H).
    + split; [intros E; apply Hn; inversion E; reflexivity|discriminate].
Qed.

Lemma import_bin_ok k slm nlevels nnodes inp :
  not_internal (import_bin k slm nlevels nnodes inp) /\
  forall st inp', import_bin k slm nlevels nnodes inp = Ok (st, inp') -> st_ok k slm st (1 + nnodes).
Proof.
  unfold import_bin. destruct (N.eqb_spec nnodes 0) as [->|Hn].
  - split; [discriminate|]. intros st inp' H. inversion H; subst. apply st_ok_empty.
  - destruct (bin_terminal k) as [t|] eqn:Et; [|split; discriminate].
    destruct (import_bin_loop_ok k slm nlevels t (bin_terminal_term _ _ Et)) with (n := N.to_nat nnodes) (node_id := 1)
      (st := empty_state) (inp := inp) as [H1 H2].
    + intros _. destruct k; inversion Et; subst; unfold tnum_edge; cbn; eauto.
    + apply st_ok_empty.
    + split; [exact H1|]. intros st inp' H. rewrite <- (N2Nat.id nnodes) at 1. apply (H2 _ _ H).
Qed.

(** *** ASCII *)

Lemma parse_unsigned_go_ni limit : forall s acc num, not_internal (parse_unsigned_go limit s acc num).
Proof.
  unfold not_internal. induction s as [|c s IH]; intros acc num; cbn; [destruct num; discriminate|].
  destruct (is_digit c).
  - destruct (limit <=? acc * 10 + (c - 48)); [discriminate|apply IH].
  - destruct (is_sp c); [|discriminate]. destruct num; [discriminate|apply IH].
Qed.

Lemma parse_edge_list_go_ni : forall s i n num acc, not_internal (parse_edge_list_go s i n num acc).
Proof.
  unfold not_internal. induction s as [|c s IH]; intros i n num acc; cbn; [discriminate|].
  destruct (is_digit c).
  - destruct (isize_max <? i * 10 + (c - 48)); [discriminate|apply IH].
  - destruct (c =? 45).
    + destruct n; [discriminate|]. destruct num; [discriminate|apply IH].
    + destruct (is_sp c); [|discriminate]. destruct num; apply IH.
Qed.

Lemma parse_terminal_tnum tok e : parse_terminal KBDD tok = Some e -> tnum_edge e.
Proof.
  unfold parse_terminal. destruct (one_of tok true_lits); [intros H; inversion H; unfold tnum_edge; cbn; eauto|].
  destruct (one_of tok false_lits); [intros H; inversion H; unfold tnum_edge; cbn; eauto|discriminate].
Qed.

Lemma ascii_child_check_ok k slm st node_id level child :
  st_ok k slm st node_id -> child <> 0%Z ->
  not_internal (ascii_child_check st node_id level child) /\
  forall e, ascii_child_check st node_id level child = Ok e -> In e (st_nodes st).
Proof.
  intros Hok Hc. unfold ascii_child_check. pose proof (ok_id _ _ _ _ Hok) as Hid.
  destruct (N.leb_spec node_id (Z.abs_N child)); [split; discriminate|].
  destruct (node_at_ok st (Z.abs_N child - 1) ltac:(lia)) as (e & -> & Hin). cbn [bind].
  destruct (edge_level (st_store st) e <=? level); [split; discriminate|].
  split; [discriminate|]. intros e' He'. inversion He'; subst. exact Hin.
Qed.

Lemma ascii_child_edge_ok k slm s e child :
  store_wf s -> levels_in slm s -> edge_in s e -> (k = KBDD -> tnum_store s /\ tnum_edge e) ->
  not_internal (ascii_child_edge k s e child) /\
  forall s' e', ascii_child_edge k s e child = Ok (s', e') -> k = KBDD -> tnum_store s' /\ tnum_edge e'.
Proof.
  intros W L I T. unfold ascii_child_edge. destruct (child <? 0)%Z.
  - eapply complement_ok; eassumption.
  - split; [discriminate|]. intros s' e' H Hk. injection H as <- <-. apply T. exact Hk.
Qed.

Lemma import_ascii_line_ok k vin slm st node_id line :
  st_ok k slm st node_id ->
  not_internal (import_ascii_line k vin slm st node_id line) /\
  forall st', import_ascii_line k vin slm st node_id line = Ok st' -> st_ok k slm st' (node_id + 1).
Proof.
  intros Hok.
  assert (Hnext : forall st', import_ascii_line k vin slm st node_id line = Ok st' ->
            st_wf slm st' /\ N.of_nat (length (st_nodes st')) + 1 = node_id + 1).
  { intros st' H. destruct (import_ascii_line_wf _ _ _ _ _ _ _ (ok_wf _ _ _ _ Hok) H) as (W & L & _).
    split; [exact W|]. pose proof (ok_id _ _ _ _ Hok). lia. }
  assert (HB : not_internal (import_ascii_line k vin slm st node_id line) /\
               forall st', import_ascii_line k vin slm st node_id line = Ok st' -> k = KBDD ->
                 tnum_store (st_store st') /\ Forall tnum_edge (st_nodes st')).
  2:{ destruct HB as [H1 H2]. split; [exact H1|]. intros st' E. destruct (Hnext _ E) as [W L].
      split; [exact W|exact L|exact (H2 _ E)]. }
  clear Hnext. pose proof (ok_wf _ _ _ _ Hok) as Hst.
  unfold import_ascii_line.
  pose proof (parse_unsigned_go_ni usize_limit line 0 false) as Hp. fold (parse_usize line) in Hp.
  destruct (parse_usize line) as [[rest nid]|e]; cbn [bind]; [|split; [intros E; apply Hp; inversion E; reflexivity|discriminate]].
  destruct (negb (nid =? node_id)); [split; discriminate|].
  match goal with |- not_internal (bind ?r _) /\ _ =>
    assert (Hr1 : not_internal r) by (destruct vin; [discriminate|destruct (split_sp (trim_start rest)) as [[? ?]|]; discriminate]);
    destruct r as [rest1|e1]; cbn [bind]; [|split; [intros E; apply Hr1; inversion E; reflexivity|discriminate]] end.
  destruct (split_sp (trim_start rest1)) as [[var_tok rest2]|]; [|split; discriminate].
  pose proof (parse_edge_list_go_ni rest2 0 false false []) as Hpe. fold (parse_edge_list rest2) in Hpe.
  destruct (parse_edge_list rest2) as [children|e]; cbn [bind]; [|split; [intros E; apply Hpe; inversion E; reflexivity|discriminate]].
  destruct children as [|c1 [|c2 [|c3 cs]]]; try (split; discriminate).
  destruct (Z.eqb_spec c1 0) as [Hc1|Hc1]; cbn [orb].
  { destruct (parse_terminal k var_tok) as [e|] eqn:Et; [|split; discriminate]. split; [discriminate|].
    intros st' E Hk. inversion E; subst. destruct (ok_tnum _ _ _ _ Hok eq_refl) as [A B]. cbn. split; [exact A|].
    apply Forall_app. split; [exact B|]. constructor; [eapply parse_terminal_tnum; exact Et|constructor]. }
  destruct (Z.eqb_spec c2 0) as [Hc2|Hc2].
  { destruct (parse_terminal k var_tok) as [e|] eqn:Et; [|split; discriminate]. split; [discriminate|].
    intros st' E Hk. inversion E; subst. destruct (ok_tnum _ _ _ _ Hok eq_refl) as [A B]. cbn. split; [exact A|].
    apply Forall_app. split; [exact B|]. constructor; [eapply parse_terminal_tnum; exact Et|constructor]. }
  pose proof (parse_unsigned_go_ni 4294967296 var_tok 0 false) as Hpu. fold (parse_u32 var_tok) in Hpu.
  destruct (parse_u32 var_tok) as [[r0 var_id]|e]; cbn [bind]; [|split; [intros E; apply Hpu; inversion E; reflexivity|discriminate]].
  destruct (nth_error slm (N.to_nat var_id)) as [level|] eqn:El; [|split; discriminate].
  destruct (ascii_child_check_ok k slm st node_id level c1 Hok Hc1) as [N1 I1].
  destruct (ascii_child_check st node_id level c1) as [e1|e] eqn:C1; cbn [bind]; [|split; [intros E; apply N1; inversion E; reflexivity|discriminate]].
  destruct (ascii_child_check_ok k slm st node_id level c2 Hok Hc2) as [N2 I2].
  destruct (ascii_child_check st node_id level c2) as [e2|e] eqn:C2; cbn [bind]; [|split; [intros E; apply N2; inversion E; reflexivity|discriminate]].
  destruct (ascii_child_check_in _ _ _ _ _ _ Hst C1) as [In1 L1].
  destruct (ascii_child_check_in _ _ _ _ _ _ Hst C2) as [In2 L2].
  assert (T1 : k = KBDD -> tnum_store (st_store st) /\ tnum_edge e1).
  { intros Hk. destruct (ok_tnum _ _ _ _ Hok Hk) as [A B]. split; [exact A|]. rewrite Forall_forall in B. apply B. apply I1. reflexivity. }
  destruct (ascii_child_edge_ok k slm (st_store st) e1 c1 (sw_store _ _ Hst) (sw_levels _ _ Hst) In1 T1) as [Na Ta].
  destruct (ascii_child_edge k (st_store st) e1 c1) as [[s1 e1']|e] eqn:A1; cbn [bind]; [|split; [intros E; apply Na; inversion E; reflexivity|discriminate]].
  destruct (ascii_child_edge_wf _ slm _ _ _ _ _ (sw_store _ _ Hst) (sw_levels _ _ Hst) In1 A1) as (W1 & Lv1 & X1 & _ & _).
  assert (T2 : k = KBDD -> tnum_store s1 /\ tnum_edge e2).
  { intros Hk. destruct (Ta _ _ eq_refl Hk) as [A _]. split; [exact A|].
    destruct (ok_tnum _ _ _ _ Hok Hk) as [_ B]. rewrite Forall_forall in B. apply B. apply I2. reflexivity. }
  destruct (ascii_child_edge_ok k slm s1 e2 c2 W1 Lv1 (edge_in_ext _ _ _ X1 In2) T2) as [Nb Tb].
  destruct (ascii_child_edge k s1 e2 c2) as [[s2 e2']|e] eqn:A2; cbn [bind]; [|split; [intros E; apply Nb; inversion E; reflexivity|discriminate]].
  destruct (mk_node k s2 level e1' e2') as [s3 r] eqn:M. split; [discriminate|].
  intros st' E Hk. inversion E; subst st'. cbn [st_store st_nodes].
  destruct (Ta _ _ eq_refl Hk) as [_ Te1]. destruct (Tb _ _ eq_refl Hk) as [Ts2 Te2].
  destruct (mk_node_tnum _ _ _ _ _ _ _ Ts2 Te1 Te2 M) as [Ts3 Tr].
  destruct (ok_tnum _ _ _ _ Hok Hk) as [_ B].
  split; [exact Ts3|apply Forall_app; split; [exact B|constructor; [exact Tr|constructor]]].
Qed.

Lemma import_ascii_loop_ok k vin slm : forall n node_id st inp, st_ok k slm st node_id ->
  not_internal (import_ascii_loop k vin slm n node_id st inp) /\
  forall st' inp', import_ascii_loop k vin slm n node_id st inp = Ok (st', inp') ->
                   st_ok k slm st' (node_id + N.of_nat n).
Proof.
  induction n as [|n IH]; intros node_id st inp Hok; cbn [import_ascii_loop].
  - split; [discriminate|]. intros st' inp' H. inversion H; subst. rewrite N.add_0_r. exact Hok.
  - destruct (read_line inp) as [[line inp1]|e] eqn:R; cbn [bind].
    2:{ split; [|discriminate]. unfold read_line in R. destruct inp; [inversion R; discriminate|].
        destruct (take_line (b :: inp)); discriminate. }
    destruct (import_ascii_line_ok k vin slm st node_id line Hok) as [Hn Hs].
    destruct (import_ascii_line k vin slm st node_id line) as [st1|e]; cbn [bind].
    + destruct (IH (node_id + 1) st1 inp1 (Hs _ eq_refl)) as [Hn' Hs']. split; [exact Hn'|].
      intros st' inp' H. replace (node_id + N.of_nat (S n)) with (node_id + 1 + N.of_nat n) by lia. apply (Hs' _ _ H).
    + split; [intros E; apply Hn; inversion E; reflexivity|discriminate].
Qed.

(** *** roots and the whole [import] *)

Lemma import_roots_ok k slm : forall rootids st node_id, st_ok k slm st node_id ->
  not_internal (import_roots k st rootids).
Proof.
  induction rootids as [|r rs IH]; intros st node_id Hok; cbn [import_roots]; [discriminate|].
  destruct (r =? 0)%Z; [discriminate|].
  pose proof (ok_wf _ _ _ _ Hok) as Hst.
  destruct (nth_error (st_nodes st) (N.to_nat (Z.abs_N r - 1))) as [e|] eqn:E; cbn [bind]; [|discriminate].
  assert (Ie : edge_in (st_store st) e).
  { pose proof (sw_nodes _ _ Hst) as Hn. rewrite Forall_forall in Hn. apply Hn. eapply nth_error_In. exact E. }
  assert (Hc : not_internal (if (r <? 0)%Z then complement k (st_store st) e else Ok (st_store st, e)) /\
               forall s' e', (if (r <? 0)%Z then complement k (st_store st) e else Ok (st_store st, e)) = Ok (s', e') ->
                 store_wf s' /\ levels_in slm s' /\ ext (st_store st) s' /\ (k = KBDD -> tnum_store s')).
  { assert (T : k = KBDD -> tnum_store (st_store st) /\ tnum_edge e).
    { intros Hk. destruct (ok_tnum _ _ _ _ Hok Hk) as [A B]. split; [exact A|]. rewrite Forall_forall in B.
      apply B. eapply nth_error_In. exact E. }
    destruct (r <? 0)%Z.
    - destruct (complement_ok k slm _ _ (sw_store _ _ Hst) (sw_levels _ _ Hst) Ie T) as [N1 T1]. split; [exact N1|].
      intros s' e' H. destruct (complement_wf k slm _ _ _ _ (sw_store _ _ Hst) (sw_levels _ _ Hst) Ie H) as (a & b & c & _).
      splits; try assumption. intros Hk. apply (T1 _ _ H Hk).
    - split; [discriminate|]. intros s' e' H. inversion H; subst. splits; try apply Hst; [apply ext_refl|].
      intros Hk. apply (T Hk). }
  destruct Hc as [Hc1 Hc2].
  destruct (if (r <? 0)%Z then complement k (st_store st) e else Ok (st_store st, e)) as [[store e']|ec]; cbn [bind];
    [|intros E'; apply Hc1; inversion E'; reflexivity].
  destruct (Hc2 _ _ eq_refl) as (W & L & X & T).
  assert (Hok' : st_ok k slm (mkS store (st_nodes st)) node_id).
  { split; cbn.
    - split; cbn; [exact W|exact L|]. eapply Forall_edge_in_ext; [exact X|apply Hst].
    - apply (ok_id _ _ _ _ Hok).
    - intros Hk. split; [apply T; exact Hk|apply (ok_tnum _ _ _ _ Hok Hk)]. }
  specialize (IH _ _ Hok').
  destruct (import_roots k (mkS store (st_nodes st)) rs) as [[st2 es]|er]; cbn [bind]; [discriminate|].
  intros E'. apply IH. inversion E'. reflexivity.
Qed.

(** the importer after the header never fails internally, whatever the input and the
    parameters are *)
Theorem import_file_no_internal k ascii vin slm nlevels nnodes rootids inp :
  import_file k ascii vin slm nlevels nnodes rootids inp <> Err EInternal.
Proof.
  unfold import_file.
  assert (H : not_internal (if ascii then import_ascii k vin slm nnodes inp else import_bin k slm nlevels nnodes inp) /\
              forall st rest, (if ascii then import_ascii k vin slm nnodes inp else import_bin k slm nlevels nnodes inp) = Ok (st, rest) ->
                exists node_id, st_ok k slm st node_id).
  { destruct ascii.
    - unfold import_ascii. destruct (import_ascii_loop_ok k vin slm (N.to_nat nnodes) 1 empty_state inp (st_ok_empty k slm)) as [A B].
      split; [exact A|]. intros st rest H. eexists. apply (B _ _ H).
    - destruct (import_bin_ok k slm nlevels nnodes inp) as [A B]. split; [exact A|]. intros st rest H. eexists. apply (B _ _ H). }
  destruct H as [H1 H2].
  destruct (if ascii then import_ascii k vin slm nnodes inp else import_bin k slm nlevels nnodes inp) as [[st rest]|e]; cbn [bind];
    [|intros E; apply H1; inversion E; reflexivity].
  destruct (negb (reads_end rest)); [discriminate|].
  destruct (H2 _ _ eq_refl) as [node_id Hok]. eapply import_roots_ok. exact Hok.
Qed.

(** NO PANIC: the whole model importer, on every input, either accepts or returns one of the
    error values that stand for an [io::Error] of the real importer (or reports that the caller
    passed the wrong number of support variables) *)
Theorem import_whole_no_internal k slm nlevels inp :
  import_whole k slm nlevels inp <> WHdr HInternal /\ import_whole k slm nlevels inp <> WBody EInternal.
Proof.
  unfold import_whole. pose proof (load_header_no_internal inp) as Hl.
  destruct (load_header inp) as [[h rest]|e].
  - destruct (negb (Nat.eqb (length slm) (length (h_ids h)))); [split; discriminate|].
    unfold import_body.
    pose proof (import_file_no_internal k (h_ascii h) (varinfo_none (h_varinfo h)) slm nlevels (h_nnodes h) (h_rootids h) rest) as Hi.
    destruct (import_file k (h_ascii h) (varinfo_none (h_varinfo h)) slm nlevels (h_nnodes h) (h_rootids h) rest) as [[st roots]|e];
      split; try discriminate. intros E. apply Hi. inversion E. reflexivity.
  - split; [|discriminate]. intros E. apply Hl. inversion E. reflexivity.
Qed.
